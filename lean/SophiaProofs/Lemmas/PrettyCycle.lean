/- Correctness of the *fixed* cycle walk of `build_labelled` (flag `walkStamp`): after `detectCycles`
every profile's predecessor chain ends or reaches a `bad` node, hence no cycle of blank nodes is left
without a labelled node. -/
import SophiaModel.Model.Pretty
import SophiaProofs.Lemmas.PrettyLabelled

namespace SophiaProofs.Lemmas.PrettyCycle
open SophiaModel Pretty Term
open SophiaProofs.Lemmas.PrettyLabelled

/-! ### extension: same keys, same predecessors, `bad` only grows -/

def Ext (ps ps' : Profiles) : Prop :=
  ∀ l, (pGet ps l = none → pGet ps' l = none) ∧
    (∀ p, pGet ps l = some p → ∃ p', pGet ps' l = some p' ∧ p'.pred = p.pred ∧ (p.bad = true → p'.bad = true))

theorem Ext.refl (ps : Profiles) : Ext ps ps :=
  fun _ => ⟨fun h => h, fun p hp => ⟨p, hp, rfl, fun h => h⟩⟩

theorem Ext.trans {a b c : Profiles} (h1 : Ext a b) (h2 : Ext b c) : Ext a c := by
  intro l
  refine ⟨fun h => (h2 l).1 ((h1 l).1 h), ?_⟩
  intro p hp
  obtain ⟨p', hp', e1, b1⟩ := (h1 l).2 p hp
  obtain ⟨p'', hp'', e2, b2⟩ := (h2 l).2 p' hp'
  exact ⟨p'', hp'', by rw [e2, e1], fun h => b2 (b1 h)⟩

theorem ext_pModify (ps : Profiles) (k : Str) (f : Profile → Profile)
    (hpred : ∀ p, (f p).pred = p.pred) (hbad : ∀ p, p.bad = true → (f p).bad = true) :
    Ext ps (pModify ps k f) := by
  intro l
  rw [pGet_pModify]
  by_cases hl : (l == k) = true
  · simp only [hl, ↓reduceIte]
    refine ⟨fun h => by rw [h]; rfl, ?_⟩
    intro p hp
    rw [hp]
    exact ⟨f p, rfl, hpred p, hbad p⟩
  · simp only [hl, Bool.false_eq_true, ↓reduceIte]
    exact ⟨fun h => h, fun p hp => ⟨p, hp, rfl, fun h => h⟩⟩

/-! ### safety of a predecessor chain -/

inductive Safe (ps : Profiles) : Str → Prop
  | absent {l} : pGet ps l = none → Safe ps l
  | bad {l p} : pGet ps l = some p → p.bad = true → Safe ps l
  | stop {l p} : pGet ps l = some p → (∀ k, p.pred ≠ some (Term.bnode k)) → Safe ps l
  | step {l p k} : pGet ps l = some p → p.pred = some (Term.bnode k) → Safe ps k → Safe ps l

theorem safe_ext {ps ps' : Profiles} (h : Ext ps ps') {l : Str} (hs : Safe ps l) : Safe ps' l := by
  induction hs with
  | absent hp => exact Safe.absent ((h _).1 hp)
  | bad hp hb =>
    obtain ⟨p', hp', _, b⟩ := (h _).2 _ hp
    exact Safe.bad hp' (b hb)
  | stop hp hk =>
    obtain ⟨p', hp', e, _⟩ := (h _).2 _ hp
    exact Safe.stop hp' (by rw [e]; exact hk)
  | step hp hk _ ih =>
    obtain ⟨p', hp', e, _⟩ := (h _).2 _ hp
    exact Safe.step hp' (by rw [e]; exact hk) ih

/-- safety of "what comes next" -/
def SafeT (ps : Profiles) : Option Term → Prop
  | some (Term.bnode k) => Safe ps k
  | _ => True

theorem safe_of_pred {ps : Profiles} {l : Str} {p : Profile} (hp : pGet ps l = some p) (h : SafeT ps p.pred) :
    Safe ps l := by
  cases hpp : p.pred with
  | none => exact Safe.stop hp (by intro k; rw [hpp]; exact fun h => by cases h)
  | some t =>
    cases t with
    | bnode k =>
      rw [hpp] at h
      exact Safe.step hp hpp h
    | iri _ => exact Safe.stop hp (by intro k; rw [hpp]; intro h; cases h)
    | lit _ _ => exact Safe.stop hp (by intro k; rw [hpp]; intro h; cases h)
    | lang _ _ => exact Safe.stop hp (by intro k; rw [hpp]; intro h; cases h)
    | triple _ _ _ => exact Safe.stop hp (by intro k; rw [hpp]; intro h; cases h)
    | var _ => exact Safe.stop hp (by intro k; rw [hpp]; intro h; cases h)

/-- a set of labels closed under `pred`, all with non-bad profiles: a cycle (or an infinite descent) -/
def ClosedNonBad (ps : Profiles) (S : Str → Prop) : Prop :=
  ∀ l, S l → ∃ p k, pGet ps l = some p ∧ p.bad = false ∧ p.pred = some (Term.bnode k) ∧ S k

theorem safe_not_closed {ps : Profiles} {S : Str → Prop} (hc : ClosedNonBad ps S) {l : Str}
    (hs : Safe ps l) : ¬ S l := by
  induction hs with
  | absent hp =>
    intro hl
    obtain ⟨p, k, hp', _⟩ := hc _ hl
    rw [hp] at hp'; cases hp'
  | bad hp hb =>
    intro hl
    obtain ⟨p', k, hp', hnb, _⟩ := hc _ hl
    rw [hp] at hp'; cases hp'
    rw [hb] at hnb; cases hnb
  | stop hp hk =>
    intro hl
    obtain ⟨p', k, hp', _, hpred, _⟩ := hc _ hl
    rw [hp] at hp'; cases hp'
    exact hk k hpred
  | step hp hk _ ih =>
    intro hl
    obtain ⟨p', k', hp', _, hpred, hS⟩ := hc _ hl
    rw [hp] at hp'; cases hp'
    rw [hk] at hpred
    cases hpred
    exact ih hS

/-! ### the path of the current walk -/

inductive LeadsTo (ps : Profiles) (n : Nat) (cur : Option Term) : Str → Prop
  | here {l p} : pGet ps l = some p → p.pred = cur → LeadsTo ps n cur l
  | next {l p k pk} : pGet ps l = some p → p.pred = some (Term.bnode k) → pGet ps k = some pk →
      pk.visited = n → LeadsTo ps n cur k → LeadsTo ps n cur l

theorem safe_of_leadsTo {ps : Profiles} {n : Nat} {cur : Option Term} {l : Str}
    (h : LeadsTo ps n cur l) (hc : SafeT ps cur) : Safe ps l := by
  induction h with
  | here hp he => exact safe_of_pred hp (by rw [he]; exact hc)
  | next hp he _ _ _ ih => exact Safe.step hp he ih

theorem leadsTo_ext_bad {ps : Profiles} {n : Nat} {cur : Option Term} {l : Str} (k : Str)
    (h : LeadsTo ps n cur l) :
    LeadsTo (pModify ps k (fun p => { p with bad := true })) n cur l := by
  induction h with
  | @here l' p' hp he =>
    by_cases hlk : (l' == k) = true
    · refine LeadsTo.here (p := { p' with bad := true }) ?_ he
      rw [pGet_pModify, hp]; simp [hlk]
    · refine LeadsTo.here (p := p') ?_ he
      rw [pGet_pModify, hp]; simp [hlk]
  | @next l' p' k' pk' hp he hk hv _ ih =>
    have h1 : ∃ q, pGet (pModify ps k (fun p => { p with bad := true })) l' = some q ∧ q.pred = p'.pred := by
      by_cases hlk : (l' == k) = true
      · exact ⟨{ p' with bad := true }, by rw [pGet_pModify, hp]; simp [hlk], rfl⟩
      · exact ⟨p', by rw [pGet_pModify, hp]; simp [hlk], rfl⟩
    have h2 : ∃ q, pGet (pModify ps k (fun p => { p with bad := true })) k' = some q ∧ q.visited = pk'.visited := by
      by_cases hlk : (k' == k) = true
      · exact ⟨{ pk' with bad := true }, by rw [pGet_pModify, hk]; simp [hlk], rfl⟩
      · exact ⟨pk', by rw [pGet_pModify, hk]; simp [hlk], rfl⟩
    obtain ⟨q1, hq1, e1⟩ := h1
    obtain ⟨q2, hq2, e2⟩ := h2
    exact LeadsTo.next hq1 (by rw [e1]; exact he) hq2 (by rw [e2]; exact hv) ih

/-- advancing the walk: `k` gets stamped and the walk continues with `pk.pred` -/
theorem leadsTo_advance {ps : Profiles} {n : Nat} {k : Str} {pk : Profile} {l : Str}
    (hk : pGet ps k = some pk)
    (h : LeadsTo ps n (some (Term.bnode k)) l) :
    LeadsTo (pModify ps k (fun p => { p with visited := n })) n pk.pred l := by
  have hknew : pGet (pModify ps k (fun p => { p with visited := n })) k = some { pk with visited := n } := by
    rw [pGet_pModify, hk]; simp
  have hkhere : LeadsTo (pModify ps k (fun p => { p with visited := n })) n pk.pred k :=
    LeadsTo.here hknew rfl
  induction h with
  | @here l' p' hp he =>
    have h1 : ∃ q, pGet (pModify ps k (fun p => { p with visited := n })) l' = some q ∧ q.pred = p'.pred := by
      by_cases hlk : (l' == k) = true
      · exact ⟨{ p' with visited := n }, by rw [pGet_pModify, hp]; simp [hlk], rfl⟩
      · exact ⟨p', by rw [pGet_pModify, hp]; simp [hlk], rfl⟩
    obtain ⟨q1, hq1, e1⟩ := h1
    exact LeadsTo.next hq1 (by rw [e1]; exact he) hknew rfl hkhere
  | @next l' p' k' pk' hp he hk' hv _ ih =>
    have h1 : ∃ q, pGet (pModify ps k (fun p => { p with visited := n })) l' = some q ∧ q.pred = p'.pred := by
      by_cases hlk : (l' == k) = true
      · exact ⟨{ p' with visited := n }, by rw [pGet_pModify, hp]; simp [hlk], rfl⟩
      · exact ⟨p', by rw [pGet_pModify, hp]; simp [hlk], rfl⟩
    have h2 : ∃ q, pGet (pModify ps k (fun p => { p with visited := n })) k' = some q ∧ q.visited = n := by
      by_cases hlk : (k' == k) = true
      · exact ⟨{ pk' with visited := n }, by rw [pGet_pModify, hk']; simp [hlk], rfl⟩
      · exact ⟨pk', by rw [pGet_pModify, hk']; simp [hlk], hv⟩
    obtain ⟨q1, hq1, e1⟩ := h1
    obtain ⟨q2, hq2, e2⟩ := h2
    exact LeadsTo.next hq1 (by rw [e1]; exact he) hq2 e2 ih

/-! ### fuel: every continuing step stamps an unvisited profile -/

def unvis (ps : Profiles) : Nat := (ps.filter (fun e => e.2.visited == 0)).length

def stampF (k : Str) (n : Nat) (e : Str × Profile) : Str × Profile :=
  if e.1 == k then (e.1, { e.2 with visited := n }) else e

theorem pModify_stamp (ps : Profiles) (k : Str) (n : Nat) :
    pModify ps k (fun p => { p with visited := n }) = ps.map (stampF k n) := rfl

theorem stamp_unvis_imp (k : Str) (n : Nat) (hn : n ≠ 0) (e : Str × Profile)
    (h : ((stampF k n e).2.visited == 0) = true) : (e.2.visited == 0) = true := by
  unfold stampF at h
  split at h
  · simp only [beq_iff_eq] at h
    exact absurd h hn
  · exact h

theorem unvis_map_le (k : Str) (n : Nat) (hn : n ≠ 0) (l : Profiles) :
    unvis (l.map (stampF k n)) ≤ unvis l := by
  unfold unvis
  rw [List.filter_map, List.length_map]
  exact filter_length_le_of_imp _ _ (fun e h => stamp_unvis_imp k n hn e h) l

theorem unvis_append (a b : Profiles) : unvis (a ++ b) = unvis a + unvis b := by
  simp [unvis, List.filter_append]

theorem unvis_stamp (ps : Profiles) (k : Str) (n : Nat) (hn : n ≠ 0) (p : Profile)
    (hmem : (k, p) ∈ ps) (hv : p.visited = 0) :
    unvis (pModify ps k (fun p => { p with visited := n })) + 1 ≤ unvis ps := by
  rw [pModify_stamp]
  obtain ⟨a, b, rfl⟩ := List.append_of_mem hmem
  rw [List.map_append, List.map_cons, unvis_append, unvis_append]
  have ha := unvis_map_le k n hn a
  have hb := unvis_map_le k n hn b
  have h1 : unvis ((k, p) :: b) = 1 + unvis b := by
    simp [unvis, List.filter_cons, hv]; omega
  have h2 : unvis (stampF k n (k, p) :: List.map (stampF k n) b) = unvis (List.map (stampF k n) b) := by
    have : ((stampF k n (k, p)).2.visited == 0) = false := by
      simp [stampF, hn]
    simp [unvis, List.filter_cons, this]
  rw [h1, h2]
  omega

/-! ### one walk -/

/-- invariant while walk `n` is at `cur` -/
structure WI (ps : Profiles) (n : Nat) (cur : Option Term) : Prop where
  old : ∀ l p, pGet ps l = some p → p.visited ≠ 0 → p.visited ≠ n → Safe ps l
  path : ∀ l p, pGet ps l = some p → p.visited = n → Safe ps l ∨ LeadsTo ps n cur l

/-- what a finished walk guarantees -/
structure Post (ps ps' : Profiles) (n : Nat) : Prop where
  ext : Ext ps ps'
  safe : ∀ l p, pGet ps' l = some p → p.visited ≠ 0 → Safe ps' l
  keep : ∀ l p, pGet ps l = some p → ∃ p', pGet ps' l = some p' ∧
    (p.visited ≠ 0 → p'.visited = p.visited) ∧ (p'.visited = p.visited ∨ p'.visited = n)

theorem post_of_safeT {ps : Profiles} {n : Nat} {cur : Option Term} (hn : n ≠ 0) (h : WI ps n cur) (hc : SafeT ps cur) :
    Post ps ps n := by
  refine ⟨Ext.refl ps, ?_, fun l p hp => ⟨p, hp, fun _ => rfl, Or.inl rfl⟩⟩
  intro l p hp hv
  by_cases hvn : p.visited = n
  · rcases h.path l p hp hvn with hs | hl
    · exact hs
    · exact safe_of_leadsTo hl hc
  · exact h.old l p hp hv hvn

/-- marking `k` bad finishes the walk when every path node leads to `k` -/
theorem post_of_mark {ps : Profiles} {n : Nat} {k : Str} {pk : Profile} (hn : n ≠ 0)
    (hk : pGet ps k = some pk) (h : WI ps n (some (Term.bnode k))) :
    Post ps (pModify ps k (fun p => { p with bad := true })) n := by
  have hext : Ext ps (pModify ps k (fun p => { p with bad := true })) :=
    ext_pModify ps k _ (fun _ => rfl) (fun _ _ => rfl)
  have hkbad : Safe (pModify ps k (fun p => { p with bad := true })) k :=
    Safe.bad (p := { pk with bad := true }) (by rw [pGet_pModify, hk]; simp) rfl
  refine ⟨hext, ?_, ?_⟩
  · intro l p hp hv
    rw [pGet_pModify] at hp
    -- the profile before marking
    cases hpo : pGet ps l with
    | none => rw [hpo] at hp; split at hp <;> simp at hp
    | some po =>
      have hvis : p.visited = po.visited := by
        rw [hpo] at hp
        split at hp
        · simp only [Option.map_some, Option.some.injEq] at hp; rw [← hp]
        · simp only [Option.some.injEq] at hp; rw [hp]
      rw [hvis] at hv
      by_cases hvn : po.visited = n
      · rcases h.path l po hpo hvn with hs | hl
        · exact safe_ext hext hs
        · exact safe_of_leadsTo (leadsTo_ext_bad k hl) hkbad
      · exact safe_ext hext (h.old l po hpo hv hvn)
  · intro l p hp
    refine ⟨if (l == k) = true then { p with bad := true } else p, ?_, ?_, ?_⟩
    · rw [pGet_pModify, hp]; split <;> rfl
    · intro _; split <;> rfl
    · left; split <;> rfl

theorem walk_post (hs : Gen.PrettyFlags.walkStamp = true) (key : Str) (n : Nat) (hn : n ≠ 0) :
    ∀ (fuel : Nat) (ps : Profiles) (cur : Option Term), unvis ps + 1 ≤ fuel → WI ps n cur →
      Post ps (cycleWalk key n fuel ps cur) n := by
  intro fuel
  induction fuel with
  | zero => intro ps cur hf; omega
  | succ f ih =>
    intro ps cur hf hwi
    unfold cycleWalk
    cases cur with
    | none => exact post_of_safeT hn hwi trivial
    | some t =>
      simp only
      cases t with
      | iri _ => exact post_of_safeT hn hwi trivial
      | lit _ _ => exact post_of_safeT hn hwi trivial
      | lang _ _ => exact post_of_safeT hn hwi trivial
      | triple _ _ _ => exact post_of_safeT hn hwi trivial
      | var _ => exact post_of_safeT hn hwi trivial
      | bnode l =>
        simp only
        cases hl : pGet ps l with
        | none => exact post_of_safeT hn hwi (Safe.absent hl)
        | some p =>
          simp only
          by_cases hkey : (l == key) = true
          · simp only [hkey, ↓reduceIte]
            exact post_of_mark hn hl hwi
          · simp only [hkey, Bool.false_eq_true, ↓reduceIte]
            by_cases hb : p.bad = true
            · simp only [hb, ↓reduceIte]
              exact post_of_safeT hn hwi (Safe.bad hl hb)
            · simp only [hb, Bool.false_eq_true, ↓reduceIte]
              by_cases hv : (p.visited != 0) = true
              · simp only [hv, ↓reduceIte, hs, Bool.true_and]
                by_cases hvn : (p.visited == n) = true
                · simp only [hvn, ↓reduceIte]
                  exact post_of_mark hn hl hwi
                · simp only [hvn, Bool.false_eq_true, ↓reduceIte]
                  refine post_of_safeT hn hwi (hwi.old l p hl ?_ ?_)
                  · simpa using hv
                  · simpa using hvn
              · simp only [hv, Bool.false_eq_true, ↓reduceIte]
                have hv0 : p.visited = 0 := by simpa using hv
                -- stamp `l` and continue with its predecessor
                have hext : Ext ps (pModify ps l (fun p => { p with visited := n })) :=
                  ext_pModify ps l _ (fun _ => rfl) (fun _ h => h)
                have hfuel : unvis (pModify ps l (fun p => { p with visited := n })) + 1 ≤ f := by
                  have := unvis_stamp ps l n hn p (pGet_mem hl) hv0
                  omega
                have hwi' : WI (pModify ps l (fun p => { p with visited := n })) n p.pred := by
                  refine ⟨?_, ?_⟩
                  · intro x px hpx hvx hvxn
                    rw [pGet_pModify] at hpx
                    by_cases hxl : (x == l) = true
                    · simp only [hxl, ↓reduceIte] at hpx
                      cases hpo : pGet ps x with
                      | none => rw [hpo] at hpx; simp at hpx
                      | some po =>
                        rw [hpo] at hpx
                        simp only [Option.map_some, Option.some.injEq] at hpx
                        rw [← hpx] at hvxn
                        exact absurd rfl hvxn
                    · simp only [hxl, Bool.false_eq_true, ↓reduceIte] at hpx
                      exact safe_ext hext (hwi.old x px hpx hvx hvxn)
                  · intro x px hpx hvx
                    rw [pGet_pModify] at hpx
                    by_cases hxl : (x == l) = true
                    · have hxeq : x = l := by simpa using hxl
                      subst hxeq
                      right
                      refine LeadsTo.here (p := { p with visited := n }) ?_ rfl
                      rw [pGet_pModify, hl]; simp
                    · simp only [hxl, Bool.false_eq_true, ↓reduceIte] at hpx
                      rcases hwi.path x px hpx hvx with hsafe | hlead
                      · exact Or.inl (safe_ext hext hsafe)
                      · exact Or.inr (leadsTo_advance hl hlead)
                have hpost := ih _ p.pred hfuel hwi'
                refine ⟨Ext.trans hext hpost.ext, hpost.safe, ?_⟩
                intro x px hpx
                obtain ⟨pm, hpm, _, _⟩ := (hext x).2 px hpx
                obtain ⟨p', hp', hk1, hk2⟩ := hpost.keep x pm hpm
                have hpmv : pm.visited = px.visited ∨ pm.visited = n := by
                  rw [pGet_pModify, hpx] at hpm
                  split at hpm
                  · simp only [Option.map_some, Option.some.injEq] at hpm; rw [← hpm]; right; rfl
                  · simp only [Option.some.injEq] at hpm; rw [hpm]; left; rfl
                have hpmv0 : px.visited ≠ 0 → pm.visited = px.visited := by
                  intro h0
                  rw [pGet_pModify, hpx] at hpm
                  split at hpm
                  · rename_i hxl
                    have hxeq : x = l := by simpa using hxl
                    subst hxeq
                    rw [hl] at hpx; cases hpx
                    exact absurd hv0 h0
                  · simp only [Option.some.injEq] at hpm; rw [hpm]
                refine ⟨p', hp', ?_, ?_⟩
                · intro h0
                  have e1 := hpmv0 h0
                  rw [hk1 (by rw [e1]; exact h0), e1]
                · rcases hk2 with h | h
                  · rcases hpmv with h' | h'
                    · left; rw [h, h']
                    · right; rw [h, h']
                  · right; exact h

/-! ### all walks -/

def detectStep (acc : Profiles × Nat) (key : Str) : Profiles × Nat :=
  let (ps, n) := acc
  match pGet ps key with
  | none => (ps, n + 1)
  | some p =>
    if p.bad || p.visited != 0 then (ps, n + 1)
    else (cycleWalk key n (ps.length + 1) (pModify ps key (fun p => { p with visited := n })) p.pred, n + 1)

theorem detectCycles_eq (ps : Profiles) : detectCycles ps = ((ps.map (·.1)).foldl detectStep (ps, 1)).1 := rfl

/-- invariant between walks -/
structure OI (ps0 ps : Profiles) (n : Nat) : Prop where
  ext : Ext ps0 ps
  safe : ∀ l p, pGet ps l = some p → p.visited ≠ 0 → Safe ps l
  fresh : ∀ l p, pGet ps l = some p → p.visited < n
  pos : n ≠ 0

theorem length_pModify (ps : Profiles) (k : Str) (f : Profile → Profile) : (pModify ps k f).length = ps.length := by
  simp [pModify]

theorem unvis_le_length (ps : Profiles) : unvis ps ≤ ps.length := List.length_filter_le _ _

theorem oi_step (hs : Gen.PrettyFlags.walkStamp = true) (ps0 ps : Profiles) (n : Nat) (key : Str) (h : OI ps0 ps n) :
    OI ps0 (detectStep (ps, n) key).1 (detectStep (ps, n) key).2 ∧
    (Safe (detectStep (ps, n) key).1 key) := by
  unfold detectStep
  simp only
  cases hk : pGet ps key with
  | none =>
    exact ⟨⟨h.ext, h.safe, fun l p hp => Nat.lt_succ_of_lt (h.fresh l p hp), Nat.succ_ne_zero n⟩, Safe.absent hk⟩
  | some p =>
    simp only
    by_cases hc : (p.bad || p.visited != 0) = true
    · simp only [hc, ↓reduceIte]
      refine ⟨⟨h.ext, h.safe, fun l p hp => Nat.lt_succ_of_lt (h.fresh l p hp), Nat.succ_ne_zero n⟩, ?_⟩
      simp only [Bool.or_eq_true, bne_iff_ne, ne_eq] at hc
      rcases hc with hb | hv
      · exact Safe.bad hk hb
      · exact h.safe key p hk hv
    · simp only [hc, Bool.false_eq_true, ↓reduceIte]
      simp only [Bool.or_eq_true, bne_iff_ne, ne_eq, not_or, Bool.not_eq_true, Decidable.not_not] at hc
      obtain ⟨hnb, hv0⟩ := hc
      have hext1 : Ext ps (pModify ps key (fun p => { p with visited := n })) :=
        ext_pModify ps key _ (fun _ => rfl) (fun _ h => h)
      have hwi : WI (pModify ps key (fun p => { p with visited := n })) n p.pred := by
        refine ⟨?_, ?_⟩
        · intro x px hpx hvx hvxn
          rw [pGet_pModify] at hpx
          by_cases hxl : (x == key) = true
          · simp only [hxl, ↓reduceIte] at hpx
            cases hpo : pGet ps x with
            | none => rw [hpo] at hpx; simp at hpx
            | some po =>
              rw [hpo] at hpx
              simp only [Option.map_some, Option.some.injEq] at hpx
              rw [← hpx] at hvxn
              exact absurd rfl hvxn
          · simp only [hxl, Bool.false_eq_true, ↓reduceIte] at hpx
            exact safe_ext hext1 (h.safe x px hpx hvx)
        · intro x px hpx hvx
          rw [pGet_pModify] at hpx
          by_cases hxl : (x == key) = true
          · have hxeq : x = key := by simpa using hxl
            subst hxeq
            right
            refine LeadsTo.here (p := { p with visited := n }) ?_ rfl
            rw [pGet_pModify, hk]; simp
          · simp only [hxl, Bool.false_eq_true, ↓reduceIte] at hpx
            have := h.fresh x px hpx
            omega
      have hfuel : unvis (pModify ps key (fun p => { p with visited := n })) + 1 ≤ ps.length + 1 := by
        have := unvis_le_length (pModify ps key (fun p => { p with visited := n }))
        rw [length_pModify] at this
        omega
      have hpost := walk_post hs key n h.pos (ps.length + 1) _ p.pred hfuel hwi
      have hkey1 : pGet (pModify ps key (fun p => { p with visited := n })) key = some { p with visited := n } := by
        rw [pGet_pModify, hk]; simp
      refine ⟨⟨Ext.trans h.ext (Ext.trans hext1 hpost.ext), hpost.safe, ?_, Nat.succ_ne_zero n⟩, ?_⟩
      · intro l pl hpl
        -- trace the profile back
        cases hpo : pGet ps l with
        | none =>
          have := (Ext.trans hext1 hpost.ext l).1 hpo
          rw [this] at hpl; cases hpl
        | some po =>
          obtain ⟨pm, hpm, _, _⟩ := (hext1 l).2 po hpo
          obtain ⟨p', hp', _, hk2⟩ := hpost.keep l pm hpm
          rw [hpl] at hp'
          cases hp'
          have hpmv : pm.visited = po.visited ∨ pm.visited = n := by
            rw [pGet_pModify, hpo] at hpm
            split at hpm
            · simp only [Option.map_some, Option.some.injEq] at hpm; rw [← hpm]; right; rfl
            · simp only [Option.some.injEq] at hpm; rw [hpm]; left; rfl
          have := h.fresh l po hpo
          rcases hk2 with h2 | h2 <;> rcases hpmv with h3 | h3 <;> omega
      · obtain ⟨p', hp', hk1, _⟩ := hpost.keep key _ hkey1
        have : p'.visited ≠ 0 := by
          rw [hk1 (by simpa using h.pos)]
          simpa using h.pos
        exact hpost.safe key p' hp' this

theorem bad_detectStep (q1 : Profiles) (m1 : Nat) (y : Str) (l : Str) (hB : Bad q1 l) :
    Bad (detectStep (q1, m1) y).1 l := by
  unfold detectStep
  simp only
  cases hq : pGet q1 y with
  | none => exact hB
  | some py =>
    simp only
    split
    · exact hB
    · exact bad_cycleWalk y m1 _ _ _ l (bad_pModify q1 y l _ (fun _ hb => hb) hB)

theorem bad_detectFold (ks : List Str) (q1 : Profiles) (m1 : Nat) (l : Str) (hB : Bad q1 l) :
    Bad (ks.foldl detectStep (q1, m1)).1 l := by
  induction ks generalizing q1 m1 with
  | nil => exact hB
  | cons y ys ih =>
    simp only [List.foldl_cons]
    have hpair : detectStep (q1, m1) y = ((detectStep (q1, m1) y).1, (detectStep (q1, m1) y).2) := rfl
    rw [hpair]
    exact ih _ _ (bad_detectStep q1 m1 y l hB)

theorem oi_fold (hs : Gen.PrettyFlags.walkStamp = true) (ps0 : Profiles) (keys : List Str) (ps : Profiles) (n : Nat)
    (h : OI ps0 ps n) :
    OI ps0 (keys.foldl detectStep (ps, n)).1 (keys.foldl detectStep (ps, n)).2 ∧
    ∀ k ∈ keys, Safe (keys.foldl detectStep (ps, n)).1 k := by
  induction keys generalizing ps n with
  | nil => exact ⟨h, fun k hk => by cases hk⟩
  | cons k ks ih =>
    simp only [List.foldl_cons]
    obtain ⟨h1, hk1⟩ := oi_step hs ps0 ps n k h
    have hpair : detectStep (ps, n) k = ((detectStep (ps, n) k).1, (detectStep (ps, n) k).2) := rfl
    rw [hpair]
    obtain ⟨h2, hks⟩ := ih _ _ h1
    refine ⟨h2, ?_⟩
    intro x hx
    rcases List.mem_cons.mp hx with rfl | hx
    · -- safety of `k` survives the later walks (only `bad` grows)
      have hext : Ext (detectStep (ps, n) x).1 (ks.foldl detectStep ((detectStep (ps, n) x).1, (detectStep (ps, n) x).2)).1 := by
        have e1 := h1.ext
        have e2 := h2.ext
        -- both extend `ps0`; extension is determined pointwise
        intro l
        refine ⟨?_, ?_⟩
        · intro hnone
          cases h0 : pGet ps0 l with
          | none => exact (e2 l).1 h0
          | some p0 =>
            obtain ⟨p1, hp1, _⟩ := (e1 l).2 p0 h0
            rw [hnone] at hp1; cases hp1
        · intro p hp
          cases h0 : pGet ps0 l with
          | none => have := (e1 l).1 h0; rw [hp] at this; cases this
          | some p0 =>
            obtain ⟨p2, hp2, e2p, _⟩ := (e2 l).2 p0 h0
            obtain ⟨p1, hp1, e1p, _⟩ := (e1 l).2 p0 h0
            rw [hp] at hp1; cases hp1
            refine ⟨p2, hp2, by rw [e2p, e1p], ?_⟩
            intro hb
            -- `bad` never cleared by the remaining steps
            have hB : Bad (detectStep (ps, n) x).1 l := ⟨p, hp, hb⟩
            have : Bad (ks.foldl detectStep ((detectStep (ps, n) x).1, (detectStep (ps, n) x).2)).1 l :=
              bad_detectFold ks _ _ l hB
            obtain ⟨pb, hpb, hbb⟩ := this
            rw [hp2] at hpb; cases hpb
            exact hbb
      exact safe_ext hext hk1
    · exact hks x hx

/-- with the fixed walk every label is safe after `detectCycles` -/
theorem all_safe (hs : Gen.PrettyFlags.walkStamp = true) (ps : Profiles)
    (hv : ∀ l p, pGet ps l = some p → p.visited = 0) (l : Str) : Safe (detectCycles ps) l := by
  rw [detectCycles_eq]
  have h0 : OI ps ps 1 := ⟨Ext.refl ps, fun l p hp hne => absurd (hv l p hp) hne,
    fun l p hp => by rw [hv l p hp]; exact Nat.one_pos, Nat.one_ne_zero⟩
  obtain ⟨hoi, hkeys⟩ := oi_fold hs ps (ps.map (·.1)) ps 1 h0
  cases hl : pGet ps l with
  | none => exact Safe.absent ((hoi.ext l).1 hl)
  | some p => exact hkeys l (List.mem_map.mpr ⟨(l, p), pGet_mem hl, rfl⟩)

theorem detect_ext (hs : Gen.PrettyFlags.walkStamp = true) (ps : Profiles)
    (hv : ∀ l p, pGet ps l = some p → p.visited = 0) : Ext ps (detectCycles ps) := by
  rw [detectCycles_eq]
  have h0 : OI ps ps 1 := ⟨Ext.refl ps, fun l p hp hne => absurd (hv l p hp) hne,
    fun l p hp => by rw [hv l p hp]; exact Nat.one_pos, Nat.one_ne_zero⟩
  exact (oi_fold hs ps (ps.map (·.1)) ps 1 h0).1.ext

/-! ### `buildProfiles`: nothing is visited yet; the predecessor is the subject of the incoming arc -/

def Unvisited (ps : Profiles) : Prop := ∀ l p, pGet ps l = some p → p.visited = 0

theorem unvisited_pModify (ps : Profiles) (k : Str) (f : Profile → Profile) (hf : ∀ p, (f p).visited = p.visited)
    (h : Unvisited ps) : Unvisited (pModify ps k f) := by
  intro l p hp
  rw [pGet_pModify] at hp
  split at hp
  · cases hpo : pGet ps l with
    | none => rw [hpo] at hp; cases hp
    | some po =>
      rw [hpo] at hp
      simp only [Option.map_some, Option.some.injEq] at hp
      rw [← hp, hf]
      exact h l po hpo
  · exact h l p hp

theorem unvisited_pInsert (ps : Profiles) (k : Str) (q : Profile) (hq : q.visited = 0) (h : Unvisited ps) :
    Unvisited (pInsert ps k q) := by
  intro l p hp
  rw [pGet_pInsert] at hp
  split at hp
  · simp only [Option.some.injEq] at hp; rw [← hp]; exact hq
  · exact h l p hp

theorem updatePositions_visited (p : Profile) (i : Nat) (q : Quad) : (updatePositions p i q).visited = p.visited := by
  unfold updatePositions
  split
  · rfl
  · split
    · split <;> rfl
    · rfl

theorem unvisited_occStep (ps : Profiles) (o : Nat × Quad × Term) (h : Unvisited ps) : Unvisited (occStep ps o) := by
  obtain ⟨i, q, t⟩ := o
  unfold occStep seeTerm
  simp only
  cases t with
  | bnode k =>
    simp only
    unfold seeBnode
    cases pGet ps k with
    | some _ =>
      apply unvisited_pModify ps k _ _ h
      intro p
      split
      · rfl
      · rw [updatePositions_visited]; rfl
    | none => exact unvisited_pInsert ps k _ rfl h
  | triple a b c =>
    apply foldl_pres Unvisited _ _ _ ps h
    intro s x hs
    split
    · unfold seeQuotedBnode
      cases pGet s _ with
      | some _ => exact unvisited_pModify s _ _ (fun _ => rfl) hs
      | none => exact unvisited_pInsert s _ _ rfl hs
    · exact hs
  | iri _ => exact h
  | lit _ _ => exact h
  | lang _ _ => exact h
  | var _ => exact h

theorem unvisited_buildProfiles (d : List Quad) : Unvisited (buildProfiles d) := by
  rw [buildProfiles_occs]
  exact foldl_pres Unvisited _ _ (fun s o hs => unvisited_occStep s o hs) [] (by intro l p hp; simp [pGet] at hp)

/-- profile of `l` vs the object occurrences processed so far: an unlabelled node's predecessor is the
subject of (each of) its incoming arc(s) -/
def PredInv (l : Str) (ps : Profiles) (os : List (Nat × Quad × Term)) : Prop :=
  match pGet ps l with
  | none => ∀ o ∈ os, isObjOcc l o = false
  | some p => p.bad = true ∨ ∀ o ∈ os, isObjOcc l o = true → p.pred = some o.2.1.s

theorem predInv_same (l : Str) (ps ps' : Profiles) (os : List (Nat × Quad × Term)) (o : Nat × Quad × Term)
    (hsame : pGet ps' l = pGet ps l) (hno : isObjOcc l o = false) (h : PredInv l ps os) :
    PredInv l ps' (os ++ [o]) := by
  unfold PredInv at h ⊢
  rw [hsame]
  cases hp : pGet ps l with
  | none =>
    rw [hp] at h
    intro x hx
    rcases List.mem_append.mp hx with hx | hx
    · exact h x hx
    · simp only [List.mem_singleton] at hx; subst hx; exact hno
  | some p =>
    rw [hp] at h
    simp only at h ⊢
    rcases h with hb | hall
    · exact Or.inl hb
    · right
      intro x hx hto
      rcases List.mem_append.mp hx with hx | hx
      · exact hall x hx hto
      · simp only [List.mem_singleton] at hx; subst hx; rw [hno] at hto; cases hto

theorem predInv_of_bad (l : Str) (ps : Profiles) (os) (h : Bad ps l) : PredInv l ps os := by
  obtain ⟨p, hp, hb⟩ := h
  unfold PredInv
  rw [hp]
  exact Or.inl hb

theorem predInv_seeBnode_self (l : Str) (ps : Profiles) (i : Nat) (q : Quad) (os : List (Nat × Quad × Term))
    (h : PredInv l ps os) : PredInv l (seeBnode ps i q l) (os ++ [(i, q, Term.bnode l)]) := by
  unfold PredInv at h
  unfold seeBnode
  cases hk : pGet ps l with
  | none =>
    rw [hk] at h
    unfold PredInv
    rw [pGet_pInsert]
    simp only [beq_self_eq_true, ↓reduceIte]
    right
    intro x hx hto
    rcases List.mem_append.mp hx with hx | hx
    · rw [h x hx] at hto; cases hto
    · simp only [List.mem_singleton] at hx
      subst hx
      simp only [isObjOcc, beq_self_eq_true, Bool.and_true] at hto
      simp [hto]
  | some p =>
    rw [hk] at h
    simp only at h
    unfold PredInv
    rw [pGet_pModify]
    simp only [beq_self_eq_true, ↓reduceIte, hk, Option.map_some]
    by_cases hb : p.bad = true
    · simp [hb]
    · simp only [hb, Bool.false_eq_true, ↓reduceIte]
      have hall : ∀ o ∈ os, isObjOcc l o = true → p.pred = some o.2.1.s := by
        rcases h with h | h
        · exact absurd h hb
        · exact h
      by_cases hb2 : (updatePositions (addNamedGraph p q.g) i q).bad = true
      · exact Or.inl hb2
      · right
        intro x hx hto
        unfold updatePositions at hb2 ⊢
        by_cases h0 : (i == 0) = true
        · simp only [h0, ↓reduceIte] at hb2 ⊢
          rw [addNamedGraph_pred]
          rcases List.mem_append.mp hx with hx | hx
          · exact hall x hx hto
          · simp only [List.mem_singleton] at hx
            subst hx
            have : i = 0 := by simpa using h0
            subst this
            simp [isObjOcc] at hto
        · simp only [h0, Bool.false_eq_true, ↓reduceIte] at hb2 ⊢
          by_cases h2 : (i == 2) = true
          · simp only [h2, ↓reduceIte, addNamedGraph_pred] at hb2 ⊢
            by_cases hn : p.pred.isNone = true
            · simp only [hn, ↓reduceIte] at hb2 ⊢
              rcases List.mem_append.mp hx with hx | hx
              · have := hall x hx hto
                rw [this] at hn; cases hn
              · simp only [List.mem_singleton] at hx
                subst hx
                rfl
            · simp only [hn, Bool.false_eq_true, ↓reduceIte] at hb2
              exact absurd trivial hb2
          · simp only [h2, Bool.false_eq_true, ↓reduceIte] at hb2
            exact absurd trivial hb2

theorem predInv_atomStep (l : Str) (ps : Profiles) (a : Term) (os) (h : PredInv l ps os) :
    PredInv l (atomStep ps a) os := by
  unfold atomStep
  split
  · rename_i k
    by_cases hk : k = l
    · subst hk
      exact predInv_of_bad _ _ os (seeQuoted_sets ps k)
    · unfold PredInv at h ⊢
      rw [pGet_seeQuoted_other ps k l hk]
      exact h
  · exact h

theorem predInv_occStep (l : Str) (ps : Profiles) (o : Nat × Quad × Term) (os) (h : PredInv l ps os) :
    PredInv l (occStep ps o) (os ++ [o]) := by
  obtain ⟨i, q, t⟩ := o
  unfold occStep seeTerm
  simp only
  cases t with
  | bnode k =>
    simp only
    by_cases hk : k = l
    · subst hk
      exact predInv_seeBnode_self k ps i q os h
    · exact predInv_same l ps _ os _ (pGet_seeBnode_other ps i q k l hk)
        (by simp [isObjOcc, hk]) h
  | triple a b c =>
    have h1 : PredInv l ((atoms (Term.triple a b c)).foldl
        (fun ps a => match a with | .bnode l => seeQuotedBnode ps l | _ => ps) ps) os :=
      foldl_pres (fun s => PredInv l s os) _ _ (fun s x hs => predInv_atomStep l s x os hs) ps h
    exact predInv_same l _ _ os _ rfl (by simp [isObjOcc]) h1
  | iri s => exact predInv_same l ps ps os _ rfl (by simp [isObjOcc]) h
  | lit a b => exact predInv_same l ps ps os _ rfl (by simp [isObjOcc]) h
  | lang a b => exact predInv_same l ps ps os _ rfl (by simp [isObjOcc]) h
  | var s => exact predInv_same l ps ps os _ rfl (by simp [isObjOcc]) h

theorem predInv_fold (l : Str) (os done : List (Nat × Quad × Term)) (ps : Profiles) (h : PredInv l ps done) :
    PredInv l (os.foldl occStep ps) (done ++ os) := by
  induction os generalizing ps done with
  | nil => simpa using h
  | cons o rest ih =>
    simp only [List.foldl_cons]
    have := ih (done ++ [o]) _ (predInv_occStep l ps o done h)
    simpa using this

/-- an unlabelled object of a quad has a profile whose predecessor is that quad's subject -/
theorem pred_of_unlabelled (d : List Quad) (l : Str) (hl : l ∉ buildLabelled d) (q : Quad) (hq : q ∈ d)
    (ho : q.o = Term.bnode l) :
    ∃ p, pGet (buildProfiles d) l = some p ∧ p.bad = false ∧ p.pred = some q.s := by
  have hinv := predInv_fold l (occs d) [] [] (by simp [PredInv, pGet])
  rw [← buildProfiles_occs, List.nil_append] at hinv
  have hnb := not_bad_of_unlabelled d l hl
  have hocc : (2, q, q.o) ∈ occs d := mem_occs_o d q hq
  have hobj : isObjOcc l (2, q, q.o) = true := by simp [isObjOcc, ho]
  unfold PredInv at hinv
  cases hp : pGet (buildProfiles d) l with
  | none =>
    rw [hp] at hinv
    rw [hinv _ hocc] at hobj; cases hobj
  | some p =>
    rw [hp] at hinv
    simp only at hinv
    have hpb : p.bad = false := by
      cases hb : p.bad with
      | false => rfl
      | true => exact absurd ⟨p, hp, hb⟩ hnb
    refine ⟨p, rfl, hpb, ?_⟩
    rcases hinv with hb | hall
    · rw [hpb] at hb; cases hb
    · exact hall _ hocc hobj

/-- `cycle_has_labelled` for the fixed walk: a non-empty set of blank nodes each of which has an incoming arc
from a member of the set (in particular: a cycle) contains a labelled node -/
theorem closed_set_has_labelled (hs : Gen.PrettyFlags.walkStamp = true) (d : List Quad) (c : List Str) (hne : c ≠ [])
    (hc : ∀ l ∈ c, ∃ l' ∈ c, ∃ q ∈ d, q.s = Term.bnode l' ∧ q.o = Term.bnode l) :
    ∃ l ∈ c, l ∈ buildLabelled d := by
  refine Classical.byContradiction fun hcon => ?_
  have hun : ∀ l ∈ c, l ∉ buildLabelled d := fun l hl hlab => hcon ⟨l, hl, hlab⟩
  have hv := unvisited_buildProfiles d
  have hext := detect_ext hs (buildProfiles d) hv
  have hclosed : ClosedNonBad (detectCycles (buildProfiles d)) (fun l => l ∈ c) := by
    intro l hl
    obtain ⟨l', hl', q, hq, hqs, hqo⟩ := hc l hl
    obtain ⟨p, hp, _, hpred⟩ := pred_of_unlabelled d l (hun l hl) q hq hqo
    obtain ⟨p', hp', e, _⟩ := (hext l).2 p hp
    refine ⟨p', l', hp', ?_, by rw [e, hpred, hqs], hl'⟩
    cases hb : p'.bad with
    | false => rfl
    | true =>
      exfalso
      apply hun l hl
      unfold buildLabelled
      exact List.mem_map.mpr ⟨(l, p'), List.mem_filter.mpr ⟨pGet_mem hp', hb⟩, rfl⟩
  obtain ⟨l0, hl0⟩ := List.exists_mem_of_ne_nil c hne
  exact safe_not_closed hclosed (all_safe hs (buildProfiles d) hv l0) hl0

end SophiaProofs.Lemmas.PrettyCycle
