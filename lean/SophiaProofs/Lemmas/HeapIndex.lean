/-
The invariant of one term index over a heap (`IxInv`: keys own their buffers, `i2t` is
self-contained, ownership is unique, owned buffers are live, `i2t` and `t2i` are in sync) and its
preservation by `ensure_index`, store-level `insert`, and the MANUAL `Clone` (property C10).
-/
import SophiaProofs.Lemmas.HeapBasic
import SophiaProofs.Props.C02

namespace SophiaProofs.HeapP
open SophiaModel SophiaModel.Term SophiaModel.Store SophiaModel.Heap
open SophiaProofs.C02 (termEq_refl termEq_symm)

/-- element-wise relation between the original's and the clone's `i2t` (same length, position by position) -/
def Pointwise {α β : Type} (R : α → β → Prop) (l : List α) (l' : List β) : Prop :=
  l'.length = l.length ∧ ∀ (i : Nat) (a : α) (b : β), l[i]? = some a → l'[i]? = some b → R a b

theorem Pointwise.nil {α β : Type} (R : α → β → Prop) : Pointwise R [] [] := ⟨rfl, by simp⟩

theorem Pointwise.cons {α β : Type} {R : α → β → Prop} {a : α} {b : β} {l : List α} {l' : List β}
    (hab : R a b) (hl : Pointwise R l l') : Pointwise R (a :: l) (b :: l') := by
  refine ⟨by simp [hl.1], ?_⟩
  intro i x y hx hy
  cases i with
  | zero => simp at hx hy; subst hx hy; exact hab
  | succ i => simp at hx hy; exact hl.2 i x y hx hy

theorem Pointwise.imp {α β : Type} {R S : α → β → Prop} {l : List α} {l' : List β}
    (hl : Pointwise R l l') (hrs : ∀ a ∈ l, ∀ b, R a b → S a b) : Pointwise S l l' :=
  ⟨hl.1, fun i a b ha hb => hrs a (List.mem_of_getElem? ha) b (hl.2 i a b ha hb)⟩

theorem Pointwise.snoc {α β : Type} {R : α → β → Prop} {l : List α} {l' : List β} {a : α} {b : β}
    (p : Pointwise R l l') (r : R a b) : Pointwise R (l ++ [a]) (l' ++ [b]) := by
  refine ⟨by simp [p.1], fun i x y hx hy => ?_⟩
  by_cases hi : i < l.length
  · have hi' : i < l'.length := by have := p.1; omega
    rw [List.getElem?_append_left hi] at hx
    rw [List.getElem?_append_left hi'] at hy
    exact p.2 i x y hx hy
  · have hge : l.length ≤ i := Nat.le_of_not_lt hi
    have hge' : l'.length ≤ i := by have := p.1; omega
    rw [List.getElem?_append_right hge] at hx
    rw [List.getElem?_append_right hge'] at hy
    have hlen : i - l.length = i - l'.length := by have := p.1; omega
    rw [hlen] at hx
    cases hk : i - l'.length with
    | zero =>
      rw [hk] at hx hy
      simp only [List.getElem?_cons_zero, Option.some.injEq] at hx hy
      subst hx; subst hy; exact r
    | succ k => rw [hk] at hx; simp at hx


/-- every borrowed (non-empty) string of every `i2t` entry points into a buffer owned by a key
of the SAME index -/
def SelfContained (ix : TIndex) : Prop :=
  ∀ t ∈ ix.i2t, ∀ r ∈ t.refs, r.owned = true ∨ r.len = 0 ∨ r.a ∈ ix.keyIds

theorem selfContained_iff (ix : TIndex) : ix.selfContained = true ↔ SelfContained ix := by
  simp [TIndex.selfContained, SelfContained, List.all_eq_true, or_assoc]

theorem Pointwise.imp2 {α β : Type} {R S : α → β → Prop} {l : List α} {l' : List β}
    (hl : Pointwise R l l') (hrs : ∀ a ∈ l, ∀ b ∈ l', R a b → S a b) : Pointwise S l l' :=
  ⟨hl.1, fun i a b ha hb => hrs a (List.mem_of_getElem? ha) b (List.mem_of_getElem? hb) (hl.2 i a b ha hb)⟩

/-- key `e` and entry `t` belong together: same shape, every string the entry borrows lies in a buffer THIS
key owns (what the hook `verif_audit` checks), and both read the same term -/
def Tied (h : Heap) (e : TermRef × Nat) (t : TermRef) : Prop :=
  e.1.sameShape t = true ∧ insideKey e.1 t = true ∧ ∃ x, readTerm? h e.1 = some x ∧ readTerm? h t = some x

/-- no two keys read `Term::eq` terms (the `HashMap` has one entry per term: C01's I2, in the heap model) -/
abbrev KeysUnique (h : Heap) (ks : List (TermRef × Nat)) : Prop :=
  ∀ (i j : Nat) (ei ej : TermRef × Nat) (x y : Term), ks[i]? = some ei → ks[j]? = some ej → readTerm? h ei.1 = some x → readTerm? h ej.1 = some y →
    termEq x y = true → i = j

theorem KeysUnique.of_reads {h h' : Heap} {ks : List (TermRef × Nat)} (u : KeysUnique h ks)
    (hr : ∀ e ∈ ks, readTerm? h' e.1 = readTerm? h e.1) : KeysUnique h' ks :=
  fun i j ei ej x y hi hj hx hy =>
    u i j ei ej x y hi hj (by rw [← hr ei (List.mem_of_getElem? hi)]; exact hx)
      (by rw [← hr ej (List.mem_of_getElem? hj)]; exact hy)

theorem getElem?_snoc_cases {α : Type} {l : List α} {a x : α} {i : Nat} (h : (l ++ [a])[i]? = some x) :
    (i < l.length ∧ l[i]? = some x) ∨ (i = l.length ∧ x = a) := by
  by_cases hi : i < l.length
  · rw [List.getElem?_append_left hi] at h; exact Or.inl ⟨hi, h⟩
  · have hge : l.length ≤ i := Nat.le_of_not_lt hi
    rw [List.getElem?_append_right hge] at h
    cases hk : i - l.length with
    | zero =>
      rw [hk] at h
      simp only [List.getElem?_cons_zero, Option.some.injEq] at h
      exact Or.inr ⟨by omega, h.symm⟩
    | succ k => rw [hk] at h; simp at h

/-- a new key whose content no old key is `Term::eq` to keeps the keys unique -/
theorem KeysUnique.snoc {h : Heap} {ks : List (TermRef × Nat)} {k : TermRef × Nat} {x0 : Term}
    (u : KeysUnique h ks) (hk : readTerm? h k.1 = some x0)
    (hnew : ∀ e ∈ ks, ∀ x, readTerm? h e.1 = some x → termEq x x0 = false) : KeysUnique h (ks ++ [k]) := by
  intro i j ei ej x y hi hj hx hy he
  rcases getElem?_snoc_cases hi with ⟨_, hi'⟩ | ⟨hi', rfl⟩ <;> rcases getElem?_snoc_cases hj with ⟨_, hj'⟩ | ⟨hj', rfl⟩
  · exact u i j ei ej x y hi' hj' hx hy he
  · rw [hk] at hy; cases hy
    rw [hnew ei (List.mem_of_getElem? hi') x hx] at he; cases he
  · rw [hk] at hx; cases hx
    rw [termEq_symm, hnew ej (List.mem_of_getElem? hj') y hy] at he; cases he
  · omega

structure IxInv (h : Heap) (ix : TIndex) : Prop where
  /-- the keys of `t2i` own all their strings -/
  keysOwned : ∀ e ∈ ix.t2i, AllOwned e.1.refs
  sc : SelfContained ix
  /-- no buffer has two owners inside the index -/
  nodup : ix.owned.Nodup
  /-- what the index owns has not been released -/
  live : ∀ a ∈ ix.owned, Live h a
  keysRead : ∀ e ∈ ix.t2i, ∃ x, readTerm? h e.1 = some x
  /-- every entry of `i2t` reads as some key of `t2i` -/
  sync : ∀ t ∈ ix.i2t, ∃ e ∈ ix.t2i, ∃ x, readTerm? h e.1 = some x ∧ readTerm? h t = some x
  /-- POSITIONALLY: the `j`-th key and the `j`-th entry belong together -/
  pair : Pointwise (Tied h) ix.t2i ix.i2t
  /-- no two keys are `Term::eq` -/
  uniq : KeysUnique h ix.t2i
  /-- the `j`-th key is mapped to `j` -/
  keys : ix.t2i.map (·.2) = List.range ix.i2t.length

theorem IxInv.empty (h : Heap) : IxInv h {} :=
  ⟨by simp, by simp [SelfContained], by simp [TIndex.owned, TIndex.keyIds, TIndex.entryIds],
   by simp [TIndex.owned, TIndex.keyIds, TIndex.entryIds], by simp, by simp, Pointwise.nil _,
   fun i j ei ej _ _ hi => by simp at hi, rfl⟩

theorem mem_keyIds {ix : TIndex} {e : TermRef × Nat} {a : Nat} (he : e ∈ ix.t2i) (ha : a ∈ e.1.ownedIds) :
    a ∈ ix.keyIds := List.mem_flatMap.2 ⟨e, he, ha⟩

theorem mem_entryIds {ix : TIndex} {t : TermRef} {a : Nat} (ht : t ∈ ix.i2t) (ha : a ∈ t.ownedIds) :
    a ∈ ix.entryIds := List.mem_flatMap.2 ⟨t, ht, ha⟩

theorem IxInv.lt {h : Heap} {ix : TIndex} (inv : IxInv h ix) {a : Nat} (ha : a ∈ ix.owned) : a < h.cells.size :=
  (inv.live a ha).lt

/-- every string of every key / entry is empty or lies in a buffer the index owns -/
theorem IxInv.key_ref {h : Heap} {ix : TIndex} (inv : IxInv h ix) {e : TermRef × Nat} (he : e ∈ ix.t2i)
    {r : StrRef} (hr : r ∈ e.1.refs) : r.a ∈ ix.owned :=
  List.mem_append_left _ (mem_keyIds he (mem_ownedIds.2 ⟨r, hr, inv.keysOwned e he r hr, rfl⟩))

theorem IxInv.entry_ref {h : Heap} {ix : TIndex} (inv : IxInv h ix) {t : TermRef} (ht : t ∈ ix.i2t)
    {r : StrRef} (hr : r ∈ t.refs) : r.len = 0 ∨ r.a ∈ ix.owned := by
  rcases inv.sc t ht r hr with ho | h0 | hk
  · exact Or.inr (List.mem_append_right _ (mem_entryIds ht (mem_ownedIds.2 ⟨r, hr, ho, rfl⟩)))
  · exact Or.inl h0
  · exact Or.inr (List.mem_append_left _ hk)

/-- THE safety statement for one index: every string of every `i2t` entry can be dereferenced -/
theorem IxInv.entry_deref {h : Heap} {ix : TIndex} (inv : IxInv h ix) {t : TermRef} (ht : t ∈ ix.i2t)
    {r : StrRef} (hr : r ∈ t.refs) : ∃ s, h.deref r = some s := by
  rcases inv.entry_ref ht hr with h0 | ho
  · exact ⟨[], by simp [Heap.deref, h0]⟩
  · exact deref_of_live (inv.live _ ho)

/-- the invariant only depends on the cells the index owns -/
theorem IxInv.frame {h h' : Heap} {ix : TIndex} (inv : IxInv h ix) (hs : Same h h' ix.owned) : IxInv h' ix where
  keysOwned := inv.keysOwned
  sc := inv.sc
  nodup := inv.nodup
  live := fun a ha => (inv.live a ha).same (hs a ha)
  keysRead := fun e he => by
    obtain ⟨x, hx⟩ := inv.keysRead e he
    exact ⟨x, by rw [readTerm?_same (h := h) (fun r hr => Or.inr (hs _ (inv.key_ref he hr)))]; exact hx⟩
  sync := fun t ht => by
    obtain ⟨e, he, x, h1, h2⟩ := inv.sync t ht
    refine ⟨e, he, x, ?_, ?_⟩
    · rw [readTerm?_same (h := h) (fun r hr => Or.inr (hs _ (inv.key_ref he hr)))]; exact h1
    · rw [readTerm?_same (h := h) (fun r hr => (inv.entry_ref ht hr).imp id (hs _))]; exact h2
  pair := inv.pair.imp2 (fun e he t ht ⟨s1, s2, x, h1, h2⟩ => ⟨s1, s2, x,
    by rw [readTerm?_same (h := h) (fun r hr => Or.inr (hs _ (inv.key_ref he hr)))]; exact h1,
    by rw [readTerm?_same (h := h) (fun r hr => (inv.entry_ref ht hr).imp id (hs _))]; exact h2⟩)
  uniq := inv.uniq.of_reads (fun e he => readTerm?_same (fun r hr => Or.inr (hs _ (inv.key_ref he hr))))
  keys := inv.keys

theorem IxInv.ext {h h' : Heap} {ix : TIndex} (inv : IxInv h ix) (e : Ext h h') : IxInv h' ix :=
  inv.frame (Same.of_ext e (fun _ ha => inv.lt ha))

/-- content of the entries of an index the invariant holds for is the same in every heap that
agrees on the cells the index owns -/
theorem IxInv.read_same {h h' : Heap} {ix : TIndex} (inv : IxInv h ix) (hs : Same h h' ix.owned)
    {t : TermRef} (ht : t ∈ ix.i2t) : readTerm? h' t = readTerm? h t :=
  readTerm?_same (fun _ hr => (inv.entry_ref ht hr).imp id (hs _))

/-! ### one step of an index: the heap only grows (old cells untouched), no UB, the invariant
holds again, and everything newly owned is fresh -/

structure IxStep (h h' : Heap) (ix ix' : TIndex) : Prop where
  ext : Ext h h'
  ub : h'.ub = h.ub
  inv : IxInv h' ix'
  ids : ∀ a ∈ ix'.owned, a ∈ ix.owned ∨ h.cells.size ≤ a

theorem IxStep.refl {h : Heap} {ix : TIndex} (inv : IxInv h ix) : IxStep h h ix ix :=
  ⟨Ext.refl h, rfl, inv, fun _ ha => Or.inl ha⟩

theorem IxStep.trans {h1 h2 h3 : Heap} {a b c : TIndex} (s : IxStep h1 h2 a b) (t : IxStep h2 h3 b c) :
    IxStep h1 h3 a c where
  ext := s.ext.trans t.ext
  ub := by rw [t.ub, s.ub]
  inv := t.inv
  ids := fun x hx => by
    rcases t.ids x hx with hb | hge
    · exact s.ids x hb
    · exact Or.inr (Nat.le_trans s.ext.1 hge)

/-- a list of ids `< n` extended in two places by fresh consecutive blocks stays duplicate-free -/
theorem nodup_two_blocks {A B K T : List Nat} {n m : Nat} (hnm : n ≤ m) (hab : (A ++ B).Nodup) (hk : K.Nodup) (ht : T.Nodup)
    (hlt : ∀ x ∈ A ++ B, x < n) (hK : ∀ x ∈ K, n ≤ x ∧ x < m) (hT : ∀ x ∈ T, m ≤ x) :
    ((A ++ K) ++ (B ++ T)).Nodup := by
  have hab' := List.nodup_append.1 hab
  rw [List.nodup_append, List.nodup_append, List.nodup_append]
  refine ⟨⟨hab'.1, hk, ?_⟩, ⟨hab'.2.1, ht, ?_⟩, ?_⟩
  · intro a ha b hb e
    have := hlt a (List.mem_append_left _ ha); have := hK b hb; omega
  · intro a ha b hb e
    have := hlt a (List.mem_append_right _ ha); have := hT b hb; omega
  · intro a ha b hb e
    rcases List.mem_append.1 ha with ha | ha <;> rcases List.mem_append.1 hb with hb | hb
    · exact hab'.2.2 a ha b hb e
    · have := hlt a (List.mem_append_left _ ha); have := hT b hb; have := hK a; omega
    · have := hK a ha; have := hlt b (List.mem_append_right _ hb); omega
    · have := hK a ha; have := hT b hb; omega

theorem ensureIndex_step {h : Heap} {ix : TIndex} (own : Bool) (max : Nat) (t : Term) (inv : IxInv h ix) :
    IxStep h (ix.ensureIndex own max h t).1 ix (ix.ensureIndex own max h t).2.1 := by
  have nk := allocTerm_spec own h t
  -- dropping the fresh key again
  have dropKey : IxStep h ((allocTerm own h t).1.freeAll (allocTerm own h t).2.ownedIds) ix ix := by
    have e : Ext h ((allocTerm own h t).1.freeAll (allocTerm own h t).2.ownedIds) :=
      freeAll_ext nk.fresh.ext (fun a ha => (nk.fresh.mem.1 ha).1)
    exact ⟨e, by rw [freeAll_ub nk.fresh.nodup (fun a ha => nk.fresh.live_mem ha), nk.ub], inv.ext e,
      fun _ ha => Or.inl ha⟩
  unfold TIndex.ensureIndex
  simp only
  split
  · exact dropKey
  · rename_i hnone
    split
    · exact dropKey
    · -- a new entry: key `k`, `i2t` gets `as_simple(k)`
      have bt := asSimple_spec nk.owned nk.content
      have e2 : Ext h (asSimple (allocTerm own h t).1 (allocTerm own h t).2).1 := nk.fresh.ext.trans bt.fresh.ext
      have inv2 := inv.ext e2
      refine ⟨e2, by rw [bt.ub, nk.ub], ?_, ?_⟩
      · refine ⟨?_, ?_, ?_, ?_, ?_, ?_, ?_, ?_, ?_⟩
        · intro e he
          simp only [List.mem_append, List.mem_singleton] at he
          rcases he with he | rfl
          · exact inv.keysOwned e he
          · exact nk.owned
        · intro t' ht r hr
          simp only [List.mem_append, List.mem_singleton] at ht
          rcases ht with ht | rfl
          · rcases inv.sc t' ht r hr with h1 | h1 | h1
            · exact Or.inl h1
            · exact Or.inr (Or.inl h1)
            · exact Or.inr (Or.inr (by simp only [TIndex.keyIds, List.flatMap_append, List.mem_append]; exact Or.inl h1))
          · rcases bt.inKey r hr with h1 | h1
            · exact Or.inl h1
            · exact Or.inr (Or.inr (by simp [TIndex.keyIds, List.flatMap_append, h1]))
        · simp only [TIndex.owned, TIndex.keyIds, TIndex.entryIds, List.flatMap_append, List.flatMap_cons,
            List.flatMap_nil, List.append_nil]
          exact nodup_two_blocks (n := h.cells.size) (m := (allocTerm own h t).1.cells.size) nk.fresh.ext.1 inv.nodup nk.fresh.nodup
            bt.fresh.nodup (fun x hx => inv.lt hx) (fun x hx => nk.fresh.mem.1 hx)
            (fun x hx => (bt.fresh.mem.1 hx).1)
        · intro a ha
          simp only [TIndex.owned, TIndex.keyIds, TIndex.entryIds, List.flatMap_append, List.flatMap_cons,
            List.flatMap_nil, List.append_nil, List.mem_append] at ha
          rcases ha with (ha | ha) | (ha | ha)
          · exact inv2.live a (List.mem_append_left _ ha)
          · exact (nk.fresh.live_mem ha).ext bt.fresh.ext
          · exact inv2.live a (List.mem_append_right _ ha)
          · exact bt.fresh.live_mem ha
        · intro e he
          simp only [List.mem_append, List.mem_singleton] at he
          rcases he with he | rfl
          · exact inv2.keysRead e he
          · exact ⟨t, readTerm?_ext bt.fresh.ext nk.content⟩
        · intro t' ht
          simp only [List.mem_append, List.mem_singleton] at ht
          rcases ht with ht | rfl
          · obtain ⟨e, he, x, h1, h2⟩ := inv2.sync t' ht
            exact ⟨e, List.mem_append_left _ he, x, h1, h2⟩
          · exact ⟨_, List.mem_append_right _ (List.mem_singleton.2 rfl), t,
              readTerm?_ext bt.fresh.ext nk.content, bt.content⟩
        · exact Pointwise.snoc inv2.pair ⟨(asSimple_paired _ nk.owned).1, (asSimple_paired _ nk.owned).2, t,
            readTerm?_ext bt.fresh.ext nk.content, bt.content⟩
        · refine KeysUnique.snoc (x0 := t) inv2.uniq (readTerm?_ext bt.fresh.ext nk.content) ?_
          intro e he x hx
          -- `get_index` found no key `Term::eq` to `t`
          have hf : ix.t2i.find? (fun e => termEq (keyTerm (allocTerm own h t).1 e.1) t) = none := by
            simpa [TIndex.getIndex] using hnone
          have hne := List.find?_eq_none.1 hf e he
          obtain ⟨z, hz⟩ := inv.keysRead e he
          have hz1 := readTerm?_ext nk.fresh.ext hz
          have hz2 := readTerm?_ext bt.fresh.ext hz1
          rw [hz2] at hx; cases hx
          simpa [keyTerm, hz1] using hne
        · simp only [List.map_append, List.map_cons, List.map_nil, List.length_append, List.length_cons,
            List.length_nil, Nat.zero_add, List.range_succ, inv.keys]
      · intro a ha
        simp only [TIndex.owned, TIndex.keyIds, TIndex.entryIds, List.flatMap_append, List.flatMap_cons,
          List.flatMap_nil, List.append_nil, List.mem_append] at ha
        rcases ha with (ha | ha) | (ha | ha)
        · exact Or.inl (List.mem_append_left _ ha)
        · exact Or.inr (nk.fresh.mem.1 ha).1
        · exact Or.inl (List.mem_append_right _ ha)
        · exact Or.inr (Nat.le_trans nk.fresh.ext.1 (bt.fresh.mem.1 ha).1)

theorem ensureAllH_step (own : Bool) (max : Nat) (names : List GName) (cs : List Nat) {h : Heap} {ix : TIndex}
    (acc : List (Nat × Nat)) (inv : IxInv h ix) :
    IxStep h (ensureAllH own max names cs h ix acc).1 ix (ensureAllH own max names cs h ix acc).2.1 := by
  induction cs generalizing h ix acc with
  | nil => exact IxStep.refl inv
  | cons c cs ih =>
    unfold ensureAllH
    split
    · exact ih _ inv
    · next t _ =>
      have st := ensureIndex_step own max t inv
      split
      · next h' ix' heq => rw [heq] at st; exact st
      · next h' ix' i heq =>
        rw [heq] at st
        exact st.trans (ih _ st.inv)

theorem insert_ix (own : Bool) (h : Heap) (s : HStore) (q : Quad) :
    (s.insert own h q).1 = (ensureAllH own s.max (quadNames s.shape.n q) s.shape.lookupOrder h s.ix []).1 ∧
    (s.insert own h q).2.1.ix = (ensureAllH own s.max (quadNames s.shape.n q) s.shape.lookupOrder h s.ix []).2.1 := by
  unfold HStore.insert
  simp only
  split
  · next h' ix heq => simp [heq]
  · next h' ix a heq =>
    simp only [heq]
    split
    · split <;> simp
    · simp

theorem insert_step {h : Heap} {s : HStore} (own : Bool) (q : Quad) (inv : IxInv h s.ix) :
    IxStep h (s.insert own h q).1 s.ix (s.insert own h q).2.1.ix := by
  rw [(insert_ix own h s q).1, (insert_ix own h s q).2]
  exact ensureAllH_step _ _ _ _ _ inv

/-! ### the manual `Clone` -/

structure KeysCloned (h h' : Heap) (ks ks' : List (TermRef × Nat)) : Prop where
  fresh : Fresh h h' (ks'.flatMap (·.1.ownedIds))
  ub : h'.ub = h.ub
  owned : ∀ e ∈ ks', AllOwned e.1.refs
  /-- every old key has a copy with the same content and index, and there is nothing else -/
  fwd : ∀ e ∈ ks, ∃ e' ∈ ks', e'.2 = e.2 ∧ ∃ x, readTerm? h' e.1 = some x ∧ readTerm? h' e'.1 = some x
  bwd : ∀ e' ∈ ks', ∃ x, readTerm? h' e'.1 = some x

theorem cloneKeys_spec {h : Heap} {ks : List (TermRef × Nat)} (ho : ∀ e ∈ ks, AllOwned e.1.refs)
    (hr : ∀ e ∈ ks, ∃ x, readTerm? h e.1 = some x) :
    KeysCloned h (cloneKeys h ks).1 ks (cloneKeys h ks).2 := by
  induction ks generalizing h with
  | nil => exact ⟨Fresh.nil h, rfl, by simp [cloneKeys], by simp, by simp [cloneKeys]⟩
  | cons e ks ih =>
    obtain ⟨k, i⟩ := e
    obtain ⟨x, hx⟩ := hr (k, i) (List.mem_cons_self ..)
    have nk : NewTerm h (cloneTermRef h k).1 (cloneTermRef h k).2 x := by
      rw [cloneTermRef_eq_copyTerm (ho (k, i) (List.mem_cons_self ..))]; exact copyTerm_spec hx
    have r := ih (h := (cloneTermRef h k).1) (fun e he => ho e (List.mem_cons_of_mem _ he))
      (fun e he => by
        obtain ⟨y, hy⟩ := hr e (List.mem_cons_of_mem _ he)
        exact ⟨y, readTerm?_ext nk.fresh.ext hy⟩)
    simp only [cloneKeys]
    refine ⟨?_, by rw [r.ub, nk.ub], ?_, ?_, ?_⟩
    · simpa using nk.fresh.append r.fresh
    · intro e' he'
      simp only [List.mem_cons] at he'
      rcases he' with rfl | he'
      · exact nk.owned
      · exact r.owned e' he'
    · intro e he
      simp only [List.mem_cons] at he
      rcases he with rfl | he
      · exact ⟨_, List.mem_cons_self .., rfl, x, readTerm?_ext (nk.fresh.ext.trans r.fresh.ext) hx,
          readTerm?_ext r.fresh.ext nk.content⟩
      · obtain ⟨e', he', h1, h2⟩ := r.fwd e he
        exact ⟨e', List.mem_cons_of_mem _ he', h1, h2⟩
    · intro e' he'
      simp only [List.mem_cons] at he'
      rcases he' with rfl | he'
      · exact ⟨x, readTerm?_ext r.fresh.ext nk.content⟩
      · exact r.bwd e' he'

/-- the clone's entry reads `Term::eq`-equal to the original's, both read in the same heap -/
def SameRead (h : Heap) (t t' : TermRef) : Prop :=
  ∃ x x', readTerm? h t = some x ∧ readTerm? h t' = some x' ∧ termEq x' x = true

structure Rebuilt (h h' : Heap) (ks : List (TermRef × Nat)) (ts ts' : List TermRef) : Prop where
  fresh : Fresh h h' (ts'.flatMap (·.ownedIds))
  ub : h'.ub = h.ub
  inKeys : ∀ t' ∈ ts', ∀ r ∈ t'.refs, r.owned = true ∨ r.a ∈ ks.flatMap (·.1.ownedIds)
  same : Pointwise (SameRead h') ts ts'
  sync : ∀ t' ∈ ts', ∃ e ∈ ks, ∃ x, readTerm? h' e.1 = some x ∧ readTerm? h' t' = some x

theorem rebuildI2t_spec {h : Heap} {ks : List (TermRef × Nat)} {ts : List TermRef}
    (hk : ∀ e ∈ ks, AllOwned e.1.refs ∧ ∃ x, readTerm? h e.1 = some x)
    (hs : ∀ t ∈ ts, ∃ e ∈ ks, ∃ x, readTerm? h e.1 = some x ∧ readTerm? h t = some x) :
    (rebuildI2t ks h ts).2.2 = true ∧ Rebuilt h (rebuildI2t ks h ts).1 ks ts (rebuildI2t ks h ts).2.1 := by
  induction ts generalizing h with
  | nil => exact ⟨rfl, Fresh.nil h, rfl, by simp [rebuildI2t], Pointwise.nil _, by simp [rebuildI2t]⟩
  | cons t ts ih =>
    obtain ⟨e0, he0, x, hx0, hxt⟩ := hs t (List.mem_cons_self ..)
    unfold rebuildI2t
    simp only [readTermU_of_read hxt]
    cases hf : ks.find? (fun e => termEq (keyTerm h e.1) x) with
    | none =>
      exfalso
      have := List.find?_eq_none.1 hf e0 he0
      simp [keyTerm, hx0, termEq_refl] at this
    | some e =>
      have hem : e ∈ ks := List.mem_of_find?_eq_some hf
      have hp : termEq (keyTerm h e.1) x = true := by simpa using List.find?_some hf
      obtain ⟨ho, y, hy⟩ := hk e hem
      have hyx : termEq y x = true := by simpa [keyTerm, hy] using hp
      have bt := asSimple_spec ho hy
      have e1 := bt.fresh.ext
      obtain ⟨ok, rb⟩ := ih (h := (asSimple h e.1).1)
        (fun e' he' => ⟨(hk e' he').1, by obtain ⟨z, hz⟩ := (hk e' he').2; exact ⟨z, readTerm?_ext e1 hz⟩⟩)
        (fun t' ht' => by
          obtain ⟨e', he', z, h1, h2⟩ := hs t' (List.mem_cons_of_mem _ ht')
          exact ⟨e', he', z, readTerm?_ext e1 h1, readTerm?_ext e1 h2⟩)
      simp only
      refine ⟨ok, ?_, by rw [rb.ub, bt.ub], ?_, ?_, ?_⟩
      · simpa using bt.fresh.append rb.fresh
      · intro t' ht' r hr
        simp only [List.mem_cons] at ht'
        rcases ht' with rfl | ht'
        · exact (bt.inKey r hr).imp id (fun h1 => List.mem_flatMap.2 ⟨e, hem, h1⟩)
        · exact rb.inKeys t' ht' r hr
      · exact Pointwise.cons
          ⟨x, y, readTerm?_ext (e1.trans rb.fresh.ext) hxt, readTerm?_ext rb.fresh.ext bt.content, hyx⟩ rb.same
      · intro t' ht'
        simp only [List.mem_cons] at ht'
        rcases ht' with rfl | ht'
        · exact ⟨e, hem, y, readTerm?_ext (e1.trans rb.fresh.ext) hy, readTerm?_ext rb.fresh.ext bt.content⟩
        · exact rb.sync t' ht'

/-- `HashMap::clone`, position by position: the `j`-th new key has the `j`-th old key's index and content -/
theorem cloneKeys_pos {h : Heap} {ks : List (TermRef × Nat)} (ho : ∀ e ∈ ks, AllOwned e.1.refs)
    (hr : ∀ e ∈ ks, ∃ x, readTerm? h e.1 = some x) :
    Pointwise (fun e e' => e'.2 = e.2 ∧ ∃ x, readTerm? h e.1 = some x ∧ readTerm? (cloneKeys h ks).1 e'.1 = some x)
      ks (cloneKeys h ks).2 := by
  induction ks generalizing h with
  | nil => exact Pointwise.nil _
  | cons e ks ih =>
    obtain ⟨k, i⟩ := e
    obtain ⟨x, hx⟩ := hr (k, i) (List.mem_cons_self ..)
    have nk : NewTerm h (cloneTermRef h k).1 (cloneTermRef h k).2 x := by
      rw [cloneTermRef_eq_copyTerm (ho (k, i) (List.mem_cons_self ..))]; exact copyTerm_spec hx
    have ho' : ∀ e ∈ ks, AllOwned e.1.refs := fun e he => ho e (List.mem_cons_of_mem _ he)
    have hr' : ∀ e ∈ ks, ∃ x, readTerm? (cloneTermRef h k).1 e.1 = some x := fun e he => by
      obtain ⟨y, hy⟩ := hr e (List.mem_cons_of_mem _ he)
      exact ⟨y, readTerm?_ext nk.fresh.ext hy⟩
    have r := cloneKeys_spec ho' hr'
    have p := ih (h := (cloneTermRef h k).1) ho' hr'
    simp only [cloneKeys]
    refine Pointwise.cons ⟨rfl, x, hx, readTerm?_ext r.fresh.ext nk.content⟩ (p.imp ?_)
    intro e he e' ⟨h1, y, hy1, hy2⟩
    obtain ⟨z, hz⟩ := hr e (List.mem_cons_of_mem _ he)
    have := readTerm?_ext nk.fresh.ext hz
    rw [hy1] at this; cases this
    exact ⟨h1, y, hz, hy2⟩

/-- the manual impl's rebuild, position by position: when entry `m` reads as the key `ksub[m]` of the new map
and the new map's keys are unique, the lookup finds exactly THAT key, so the new entry `m` is `as_simple` of it:
it has its shape, borrows only from it, and reads the same term -/
theorem rebuildI2t_pos {h : Heap} {ks ksub : List (TermRef × Nat)} {ts : List TermRef}
    (hk : ∀ e ∈ ks, AllOwned e.1.refs ∧ ∃ x, readTerm? h e.1 = some x)
    (hu : ∀ e1 ∈ ks, ∀ e2 ∈ ks, ∀ x y, readTerm? h e1.1 = some x → readTerm? h e2.1 = some y → termEq x y = true → e1 = e2)
    (hp : Pointwise (fun e t => e ∈ ks ∧ ∃ x, readTerm? h e.1 = some x ∧ readTerm? h t = some x) ksub ts) :
    Pointwise (Tied (rebuildI2t ks h ts).1) ksub (rebuildI2t ks h ts).2.1 := by
  induction ts generalizing h ksub with
  | nil =>
    have : ksub = [] := by have := hp.1; simpa using this.symm
    subst this; exact Pointwise.nil _
  | cons t ts ih =>
    cases ksub with
    | nil => have := hp.1; simp at this
    | cons e0 ksub =>
      obtain ⟨he0, x, hx0, hxt⟩ := hp.2 0 e0 t rfl rfl
      have hs : ∀ t' ∈ t :: ts, ∃ e ∈ ks, ∃ x, readTerm? h e.1 = some x ∧ readTerm? h t' = some x := by
        intro t' ht'
        obtain ⟨m, hm, rfl⟩ := List.getElem_of_mem ht'
        have hm' : m < (e0 :: ksub).length := by have := hp.1; omega
        obtain ⟨hem, z, h1, h2⟩ := hp.2 m _ _ (List.getElem?_eq_getElem hm') (List.getElem?_eq_getElem hm)
        exact ⟨_, hem, z, h1, h2⟩
      have full := (rebuildI2t_spec hk hs).2
      unfold rebuildI2t at full ⊢
      simp only [readTermU_of_read hxt] at full ⊢
      cases hf : ks.find? (fun e => termEq (keyTerm h e.1) x) with
      | none =>
        exfalso
        have := List.find?_eq_none.1 hf e0 he0
        simp [keyTerm, hx0, termEq_refl] at this
      | some e =>
        have hem : e ∈ ks := List.mem_of_find?_eq_some hf
        have hpred : termEq (keyTerm h e.1) x = true := by simpa using List.find?_some hf
        obtain ⟨ho, y, hy⟩ := hk e hem
        have hyx : termEq y x = true := by simpa [keyTerm, hy] using hpred
        have hee : e = e0 := hu e hem e0 he0 y x hy hx0 hyx
        subst hee
        rw [hx0] at hy; cases hy
        have bt := asSimple_spec ho hx0
        have e1 := bt.fresh.ext
        have hk' : ∀ e' ∈ ks, AllOwned e'.1.refs ∧ ∃ x, readTerm? (asSimple h e.1).1 e'.1 = some x :=
          fun e' he' => ⟨(hk e' he').1, by obtain ⟨z, hz⟩ := (hk e' he').2; exact ⟨z, readTerm?_ext e1 hz⟩⟩
        have back : ∀ e' ∈ ks, ∀ z, readTerm? (asSimple h e.1).1 e'.1 = some z → readTerm? h e'.1 = some z := by
          intro e' he' z hz
          obtain ⟨z', hz'⟩ := (hk e' he').2
          have := readTerm?_ext e1 hz'
          rw [hz] at this; cases this; exact hz'
        have hu' : ∀ e1' ∈ ks, ∀ e2' ∈ ks, ∀ x y, readTerm? (asSimple h e.1).1 e1'.1 = some x →
            readTerm? (asSimple h e.1).1 e2'.1 = some y → termEq x y = true → e1' = e2' :=
          fun a ha b hb x y hx hy => hu a ha b hb x y (back a ha x hx) (back b hb y hy)
        have hp' : Pointwise (fun e' t' => e' ∈ ks ∧ ∃ x, readTerm? (asSimple h e.1).1 e'.1 = some x ∧
            readTerm? (asSimple h e.1).1 t' = some x) ksub ts := by
          refine ⟨by have := hp.1; simpa using this, fun m a b ha hb => ?_⟩
          obtain ⟨h1, z, h2, h3⟩ := hp.2 (m + 1) a b (by simpa using ha) (by simpa using hb)
          exact ⟨h1, z, readTerm?_ext e1 h2, readTerm?_ext e1 h3⟩
        have rest := ih hk' hu' hp'
        simp only [hf] at full ⊢
        have e2 : Ext (asSimple h e.1).1 (rebuildI2t ks (asSimple h e.1).1 ts).1 :=
          (rebuildI2t_spec hk' (fun t' ht' => by
            obtain ⟨e', he', z, h1, h2⟩ := hs t' (List.mem_cons_of_mem _ ht')
            exact ⟨e', he', z, readTerm?_ext e1 h1, readTerm?_ext e1 h2⟩)).2.fresh.ext
        exact Pointwise.cons ⟨(asSimple_paired _ ho).1, (asSimple_paired _ ho).2, x,
          readTerm?_ext (e1.trans e2) hx0, readTerm?_ext e2 bt.content⟩ rest

/-- the manual `Clone` of an index the invariant holds for: it does not panic, touches no cell of
the old heap, is no UB; the clone satisfies the invariant, owns only fresh buffers, and reads —
entry by entry, in the heap where both exist — `Term::eq`-equal to the original -/
theorem cloneIndex_manual_spec {h : Heap} {ix : TIndex} (inv : IxInv h ix) :
    ∃ h' ix', cloneIndex .manual h ix = (h', some ix') ∧ Ext h h' ∧ h'.ub = h.ub ∧ IxInv h' ix' ∧
      (∀ a ∈ ix'.owned, h.cells.size ≤ a) ∧ Pointwise (SameRead h') ix.i2t ix'.i2t ∧
      ix'.t2i.map (·.2) = ix.t2i.map (·.2) := by
  have kc := cloneKeys_spec inv.keysOwned inv.keysRead
  have e1 := kc.fresh.ext
  obtain ⟨ok, rb⟩ := rebuildI2t_spec (h := (cloneKeys h ix.t2i).1) (ks := (cloneKeys h ix.t2i).2) (ts := ix.i2t)
    (fun e' he' => ⟨kc.owned e' he', kc.bwd e' he'⟩)
    (fun t ht => by
      obtain ⟨e, he, x, h1, h2⟩ := inv.sync t ht
      obtain ⟨e', he', _, y, h3, h4⟩ := kc.fwd e he
      have : y = x := by
        have := readTerm?_ext e1 h1
        rw [h3] at this
        exact Option.some.inj this
      subst this
      exact ⟨e', he', y, h4, readTerm?_ext e1 h2⟩)
  have fr := kc.fresh.append rb.fresh
  refine ⟨_, ⟨(cloneKeys h ix.t2i).2, (rebuildI2t (cloneKeys h ix.t2i).2 (cloneKeys h ix.t2i).1 ix.i2t).2.1⟩, ?_,
    e1.trans rb.fresh.ext, by rw [rb.ub, kc.ub], ?_, ?_, rb.same, ?_⟩
  · simp only [cloneIndex, ok, if_true]
  · -- position by position: new key `j` has old key `j`'s index and content
    have kp := cloneKeys_pos inv.keysOwned inv.keysRead
    have hsnd : (cloneKeys h ix.t2i).2.map (·.2) = ix.t2i.map (·.2) := by
      clear ok rb fr kc e1 kp inv
      generalize ix.t2i = ks
      induction ks generalizing h with
      | nil => rfl
      | cons e ks ih => obtain ⟨k, i⟩ := e; simp only [cloneKeys, List.map_cons]; rw [ih]
    -- the new keys are unique because the old ones are
    have uk1 : KeysUnique (cloneKeys h ix.t2i).1 (cloneKeys h ix.t2i).2 := by
      intro i j ei ej x y hi hj hx hy he
      have hil : i < ix.t2i.length := by rw [← kp.1]; exact (List.getElem?_eq_some_iff.1 hi).1
      have hjl : j < ix.t2i.length := by rw [← kp.1]; exact (List.getElem?_eq_some_iff.1 hj).1
      obtain ⟨_, x', h1, h2⟩ := kp.2 i _ _ (List.getElem?_eq_getElem hil) hi
      obtain ⟨_, y', h3, h4⟩ := kp.2 j _ _ (List.getElem?_eq_getElem hjl) hj
      rw [hx] at h2; cases h2
      rw [hy] at h4; cases h4
      exact inv.uniq i j _ _ x y (List.getElem?_eq_getElem hil) (List.getElem?_eq_getElem hjl) h1 h3 he
    refine ⟨kc.owned, ?_, fr.nodup, fun a ha => fr.live_mem ha, ?_, rb.sync, ?_, ?_, ?_⟩
    · intro t' ht' r hr
      rcases rb.inKeys t' ht' r hr with h1 | h1
      · exact Or.inl h1
      · exact Or.inr (Or.inr h1)
    · intro e' he'
      obtain ⟨x, hx⟩ := kc.bwd e' he'
      exact ⟨x, readTerm?_ext rb.fresh.ext hx⟩
    · -- every lookup of the rebuild finds the key at the entry's own position
      refine rebuildI2t_pos (fun e' he' => ⟨kc.owned e' he', kc.bwd e' he'⟩) ?_ ?_
      · intro a ha b hb x y hx hy he
        obtain ⟨i, hi, rfl⟩ := List.getElem_of_mem ha
        obtain ⟨j, hj, rfl⟩ := List.getElem_of_mem hb
        have := uk1 i j _ _ x y (List.getElem?_eq_getElem hi) (List.getElem?_eq_getElem hj) hx hy he
        subst this; rfl
      · refine ⟨by rw [inv.pair.1, kp.1], fun m a b ha hb => ?_⟩
        have hml : m < ix.t2i.length := by rw [← kp.1]; exact (List.getElem?_eq_some_iff.1 ha).1
        obtain ⟨_, x, h1, h2⟩ := kp.2 m _ _ (List.getElem?_eq_getElem hml) ha
        obtain ⟨_, _, x2, h3, h4⟩ := inv.pair.2 m _ _ (List.getElem?_eq_getElem hml) hb
        rw [h1] at h3; cases h3
        exact ⟨List.mem_of_getElem? ha, x, h2, readTerm?_ext e1 h4⟩
    · refine uk1.of_reads (fun e' he' => ?_)
      obtain ⟨x, hx⟩ := kc.bwd e' he'
      rw [hx]; exact readTerm?_ext rb.fresh.ext hx
    · show (cloneKeys h ix.t2i).2.map (·.2) = List.range (rebuildI2t (cloneKeys h ix.t2i).2 (cloneKeys h ix.t2i).1 ix.i2t).2.1.length
      rw [hsnd, inv.keys, rb.same.1]
  · intro a ha
    exact (fr.mem.1 ha).1
  · clear ok rb fr kc e1 inv
    generalize ix.t2i = ks
    induction ks generalizing h with
    | nil => rfl
    | cons e ks ih => obtain ⟨k, i⟩ := e; simp only [cloneKeys, List.map_cons]; rw [ih]

end SophiaProofs.HeapP
