/-
Sortedness of the `BTreeMap` model, characterisation of `b2q` (step 2) and `b2h` (step 3), and
invariance of the first-degree hash under blank node renaming and quad permutation.
-/
import SophiaProofs.Lemmas.StrOrder

namespace SophiaProofs.Rdfc10L
open SophiaModel SophiaModel.Rdfc10

/-! ### sorted association lists -/

def Sorted {α : Type} (m : SMap α) : Prop := m.Pairwise (fun a b => cmpStr a.1 b.1 = .lt)

theorem sorted_nil {α : Type} : Sorted ([] : SMap α) := List.Pairwise.nil

theorem get_none_of_all_lt {α : Type} (k : Str) : ∀ m : SMap α, (∀ e ∈ m, cmpStr k e.1 = .lt) → SMap.get m k = none
  | [], _ => rfl
  | (k', v) :: rest, h => by
    rw [get_cons]
    have hk : cmpStr k k' = .lt := h (k', v) List.mem_cons_self
    have : k ≠ k' := by
      intro e; subst e; rw [cmpStr_refl] at hk; cases hk
    simp only [this, if_false]
    exact get_none_of_all_lt k rest (fun e he => h e (List.mem_cons_of_mem _ he))

theorem mem_upsert {α : Type} (f : Option α → α) (k : Str) :
    ∀ (m : SMap α) (e : Str × α), e ∈ m.upsert k f → e.1 = k ∨ ∃ e' ∈ m, e'.1 = e.1
  | [], e, h => by
    simp only [SMap.upsert, List.mem_cons, List.not_mem_nil, or_false] at h
    exact Or.inl (by rw [h])
  | (k', v) :: rest, e, h => by
    unfold SMap.upsert at h
    split at h
    · rcases List.mem_cons.mp h with h | h
      · exact Or.inl (by rw [h])
      · exact Or.inr ⟨e, h, rfl⟩
    · rcases List.mem_cons.mp h with h | h
      · exact Or.inr ⟨(k', v), List.mem_cons_self, by rw [h]⟩
      · exact Or.inr ⟨e, List.mem_cons_of_mem _ h, rfl⟩
    · rcases List.mem_cons.mp h with h | h
      · exact Or.inr ⟨(k', v), List.mem_cons_self, by rw [h]⟩
      · rcases mem_upsert f k rest e h with h | ⟨e', he', hk⟩
        · exact Or.inl h
        · exact Or.inr ⟨e', List.mem_cons_of_mem _ he', hk⟩

theorem upsert_sorted {α : Type} (f : Option α → α) (k : Str) :
    ∀ m : SMap α, Sorted m → Sorted (m.upsert k f)
  | [], _ => by
    unfold SMap.upsert Sorted
    exact List.pairwise_cons.mpr (And.intro (fun _ h => nomatch h) List.Pairwise.nil)
  | (k', v) :: rest, h => by
    have hh := List.pairwise_cons.mp h
    unfold SMap.upsert
    split
    · rename_i hlt
      refine List.pairwise_cons.mpr ⟨?_, h⟩
      intro e he
      rcases List.mem_cons.mp he with he | he
      · rw [he]; exact hlt
      · exact cmpStr_lt_trans _ _ _ hlt (hh.1 e he)
    · rename_i heq
      have : k = k' := cmpStr_eq_iff.mp heq
      subst this
      exact List.pairwise_cons.mpr ⟨hh.1, hh.2⟩
    · rename_i hgt
      refine List.pairwise_cons.mpr ⟨?_, upsert_sorted f k rest hh.2⟩
      intro e he
      rcases mem_upsert f k rest e he with hk | ⟨e', he', hk⟩
      · show cmpStr k' e.1 = .lt
        rw [hk]; exact cmpStr_gt_iff.mp hgt
      · show cmpStr k' e.1 = .lt
        rw [← hk]; exact hh.1 e' he'

theorem get_upsert_self {α : Type} (f : Option α → α) (k : Str) :
    ∀ m : SMap α, Sorted m → SMap.get (m.upsert k f) k = some (f (SMap.get m k))
  | [], _ => by simp [SMap.upsert, get_cons, get_nil]
  | (k', v) :: rest, h => by
    have hh := List.pairwise_cons.mp h
    unfold SMap.upsert
    split
    · rename_i hlt
      have hnone : SMap.get ((k', v) :: rest) k = none := by
        apply get_none_of_all_lt
        intro e he
        rcases List.mem_cons.mp he with he | he
        · rw [he]; exact hlt
        · exact cmpStr_lt_trans _ _ _ hlt (hh.1 e he)
      rw [hnone, get_cons]; simp
    · rename_i heq
      have : k = k' := cmpStr_eq_iff.mp heq
      subst this
      simp [get_cons]
    · rename_i hgt
      have hne : k ≠ k' := by
        intro e; subst e; rw [cmpStr_refl] at hgt; cases hgt
      rw [get_cons, get_cons]
      simp only [hne, if_false]
      exact get_upsert_self f k rest hh.2

/-! ### step 2: `b2q` -/

/-- the references to `q` that step 2 files under label `b`: one per occurrence of `_:b` in `q` -/
def refsIn (b : Str) (q : Quad) (cs : List (Term × Str)) : List Quad :=
  cs.filterMap (fun c => if c.1 = Term.bnode b then some q else none)

def refsOf (b : Str) (q : Quad) : List Quad := refsIn b q (components q)

theorem step2Comp_spec {q : Quad} {m m' : SMap (List Quad)} {c : Term × Str}
    (hs : Sorted m) (h : step2Comp q m c = .ok m') :
    Sorted m' ∧ ∀ b, (m'.get b).getD [] = (m.get b).getD [] ++ refsIn b q [c] := by
  unfold step2Comp at h
  split at h
  · cases h
  · cases hc : c.1 with
    | bnode b0 =>
      rw [hc] at h
      simp only [] at h
      injection h with h
      subst h
      refine ⟨upsert_sorted _ _ _ hs, ?_⟩
      intro b
      by_cases hb : b = b0
      · subst hb
        rw [get_upsert_self _ _ _ hs]
        simp only [refsIn, List.filterMap_cons, hc, if_true, List.filterMap_nil]
        cases m.get b <;> simp [pushAt]
      · rw [get_upsert_ne _ _ _ hb]
        have : ¬ Term.bnode b0 = Term.bnode b := by
          intro e; injection e with e; exact hb e.symm
        simp [refsIn, hc, this]
    | iri s =>
      rw [hc] at h; injection h with h; subst h
      exact ⟨hs, fun b => by simp [refsIn, hc]⟩
    | lit l d =>
      rw [hc] at h; injection h with h; subst h
      exact ⟨hs, fun b => by simp [refsIn, hc]⟩
    | lang l d =>
      rw [hc] at h; injection h with h; subst h
      exact ⟨hs, fun b => by simp [refsIn, hc]⟩
    | triple s p o =>
      rw [hc] at h; injection h with h; subst h
      exact ⟨hs, fun b => by simp [refsIn, hc]⟩
    | var s =>
      rw [hc] at h; injection h with h; subst h
      exact ⟨hs, fun b => by simp [refsIn, hc]⟩

theorem step2Comps_spec {q : Quad} : ∀ (cs : List (Term × Str)) (m m' : SMap (List Quad)),
    Sorted m → cs.foldlM (step2Comp q) m = .ok m' →
    Sorted m' ∧ ∀ b, (m'.get b).getD [] = (m.get b).getD [] ++ refsIn b q cs
  | [], m, m', hs, h => by
    rw [foldlM_nil] at h; cases h
    exact ⟨hs, fun b => by simp [refsIn]⟩
  | c :: cs, m, m', hs, h => by
    cases hc : step2Comp q m c with
    | error e => rw [foldlM_cons_err _ _ _ _ _ hc] at h; cases h
    | ok m1 =>
      rw [foldlM_cons_ok _ _ _ _ _ hc] at h
      obtain ⟨hs1, h1⟩ := step2Comp_spec hs hc
      obtain ⟨hs2, h2⟩ := step2Comps_spec cs m1 m' hs1 h
      refine ⟨hs2, fun b => ?_⟩
      rw [h2 b, h1 b, List.append_assoc]
      simp [refsIn, List.filterMap_cons]
      split <;> simp

theorem step2Quad_spec {q : Quad} {m m' : SMap (List Quad)} (hs : Sorted m) (h : step2Quad m q = .ok m') :
    Sorted m' ∧ ∀ b, (m'.get b).getD [] = (m.get b).getD [] ++ refsOf b q := by
  unfold step2Quad at h
  split at h
  · cases h
  · exact step2Comps_spec _ _ _ hs h

theorem step2_fold_spec : ∀ (D : List Quad) (m m' : SMap (List Quad)),
    Sorted m → D.foldlM step2Quad m = .ok m' →
    Sorted m' ∧ ∀ b, (m'.get b).getD [] = (m.get b).getD [] ++ D.flatMap (refsOf b)
  | [], m, m', hs, h => by
    rw [foldlM_nil] at h; cases h
    exact ⟨hs, fun b => by simp⟩
  | q :: D, m, m', hs, h => by
    cases hq : step2Quad m q with
    | error e => rw [foldlM_cons_err _ _ _ _ _ hq] at h; cases h
    | ok m1 =>
      rw [foldlM_cons_ok _ _ _ _ _ hq] at h
      obtain ⟨hs1, h1⟩ := step2Quad_spec hs hq
      obtain ⟨hs2, h2⟩ := step2_fold_spec D m1 m' hs1 h
      refine ⟨hs2, fun b => ?_⟩
      rw [h2 b, h1 b, List.append_assoc, List.flatMap_cons]

/-- **`b2q`**: the map built by step 2 is sorted and lists, under each label, the quads of the
dataset in dataset order, once per occurrence of the label in the quad -/
theorem step2_spec {D : List Quad} {b2q : SMap (List Quad)} (h : step2 D = .ok b2q) :
    Sorted b2q ∧ ∀ b, (b2q.get b).getD [] = D.flatMap (refsOf b) := by
  obtain ⟨hs, hg⟩ := step2_fold_spec D [] b2q sorted_nil h
  exact ⟨hs, fun b => by rw [hg b]; simp [get_nil]⟩

/-- no label is filed with an empty list of quads -/
def NoEmpty (m : SMap (List Quad)) : Prop := ∀ b l, m.get b = some l → l ≠ []

theorem step2Comp_ne {q : Quad} {m m' : SMap (List Quad)} {c : Term × Str}
    (hs : Sorted m) (hne : NoEmpty m) (h : step2Comp q m c = .ok m') : NoEmpty m' := by
  unfold step2Comp at h
  split at h
  · cases h
  · split at h
    · rename_i b0 _
      injection h with h
      subst h
      intro b l hl
      by_cases hb : b = b0
      · subst hb
        rw [get_upsert_self _ _ _ hs] at hl
        injection hl with hl
        subst hl
        cases m.get b <;> simp [pushAt]
      · rw [get_upsert_ne _ _ _ hb] at hl
        exact hne b l hl
    · injection h with h; subst h; exact hne

theorem step2_fold_ne : ∀ (D : List Quad) (m m' : SMap (List Quad)),
    Sorted m → NoEmpty m → D.foldlM step2Quad m = .ok m' → NoEmpty m' := by
  intro D m m' hs hne h
  have := foldlM_inv (fun x : SMap (List Quad) => Sorted x ∧ NoEmpty x) step2Quad ?_ D m m' ⟨hs, hne⟩ h
  · exact this.2
  · intro s q s' hP hq
    refine ⟨(step2Quad_spec hP.1 hq).1, ?_⟩
    unfold step2Quad at hq
    split at hq
    · cases hq
    · have := foldlM_inv (fun x : SMap (List Quad) => Sorted x ∧ NoEmpty x) (step2Comp q) ?_ _ s s' hP hq
      · exact this.2
      · intro s1 c s2 hP1 hc
        exact ⟨(step2Comp_spec hP1.1 hc).1, step2Comp_ne hP1.1 hP1.2 hc⟩

/-- `b2q.get b` exactly: `none` for labels that do not occur, otherwise the non-empty reference list -/
theorem step2_get {D : List Quad} {b2q : SMap (List Quad)} (h : step2 D = .ok b2q) (b : Str) :
    b2q.get b = if D.flatMap (refsOf b) = [] then none else some (D.flatMap (refsOf b)) := by
  have hne : NoEmpty b2q := step2_fold_ne D [] b2q sorted_nil (by intro b l hl; rw [get_nil] at hl; cases hl) h
  have hg := (step2_spec h).2 b
  cases hb : b2q.get b with
  | none =>
    rw [hb] at hg
    have hg' : D.flatMap (refsOf b) = [] := by simpa using hg.symm
    simp [hg']
  | some l =>
    rw [hb] at hg
    simp at hg
    have := hne b l hb
    rw [← hg]
    simp [this]

/-! ### step 3: `b2h` -/

theorem get_upsert_const {α : Type} (v : α) (k : Str) :
    ∀ m : SMap α, SMap.get (m.upsert k (fun _ => v)) k = some v
  | [] => by simp [SMap.upsert, get_cons]
  | (k0, v0) :: rest => by
    unfold SMap.upsert
    split
    · simp [get_cons]
    · rename_i h
      have : k = k0 := cmpStr_eq_iff.mp h
      subst this
      simp [get_cons]
    · rename_i h
      have hne : k ≠ k0 := by
        intro e; subst e; rw [cmpStr_refl] at h; cases h
      rw [get_cons]
      simp only [hne, if_false]
      exact get_upsert_const v k rest

theorem step3_b2h_fold (H : Str → Str) : ∀ (l : SMap (List Quad)) (acc : SMap (List Str) × SMap Str), Sorted l →
    ∀ b, SMap.get (l.foldl (fun (acc : SMap (List Str) × SMap Str) (e : Str × List Quad) =>
        let h := hashFirstDegree H e.1 e.2
        (acc.1.upsert h (pushAt e.1), acc.2.upsert e.1 (fun _ => h))) acc).2 b =
      match SMap.get l b with
      | some qs => some (hashFirstDegree H b qs)
      | none => SMap.get acc.2 b
  | [], acc, _, b => by simp [get_nil]
  | (k, qs) :: l, acc, hs, b => by
    have hh := List.pairwise_cons.mp hs
    rw [List.foldl_cons, step3_b2h_fold H l _ hh.2 b, get_cons]
    by_cases hb : b = k
    · subst hb
      have : SMap.get l b = none := get_none_of_all_lt b l (fun e he => hh.1 e he)
      rw [this]
      simp [get_upsert_const]
    · simp only [hb, if_false]
      cases SMap.get l b with
      | some qs' => rfl
      | none => simp [get_upsert_ne _ _ _ hb]

/-- **`b2h`**: the memoised first-degree hash of every label of `b2q` -/
theorem step3_b2h (H : Str → Str) {b2q : SMap (List Quad)} (hs : Sorted b2q) (b : Str) :
    (step3 H b2q).2.get b = (b2q.get b).map (hashFirstDegree H b) := by
  unfold step3
  rw [step3_b2h_fold H b2q ([], []) hs b]
  cases b2q.get b <;> simp [get_nil]

/-! ### renaming blank nodes -/

/-- rename the blank nodes that are components of a quad (the only ones a supported dataset has) -/
def renameTerm (f : Str → Str) : Term → Term
  | .bnode b => .bnode (f b)
  | t => t

def renameQuad (f : Str → Str) (q : Quad) : Quad :=
  ⟨renameTerm f q.s, renameTerm f q.p, renameTerm f q.o, q.g.map (renameTerm f)⟩

theorem renameTerm_eq_bnode {f : Str → Str} (hf : ∀ a b, f a = f b → a = b) (t : Term) (b : Str) :
    renameTerm f t = .bnode (f b) ↔ t = .bnode b := by
  cases t with
  | bnode x =>
    simp only [renameTerm]
    constructor
    · intro h; injection h with h; rw [hf _ _ h]
    · intro h; injection h with h; rw [h]
  | iri s => simp [renameTerm]
  | lit l d => simp [renameTerm]
  | lang l d => simp [renameTerm]
  | triple s p o => simp [renameTerm]
  | var s => simp [renameTerm]

theorem nqForHash_rename {f : Str → Str} (hf : ∀ a b, f a = f b → a = b) (b : Str) (t : Term) :
    nqForHash (f b) (renameTerm f t) = nqForHash b t := by
  cases t with
  | bnode x =>
    simp only [renameTerm, nqForHash]
    by_cases h : x = b
    · subst h; simp
    · have : ¬ f x = f b := fun e => h (hf _ _ e)
      simp [h, this]
  | iri s => rfl
  | lit l d => rfl
  | lang l d => rfl
  | triple s p o => rfl
  | var s => rfl

theorem lineForHash_rename {f : Str → Str} (hf : ∀ a b, f a = f b → a = b) (b : Str) (q : Quad) :
    lineForHash (f b) (renameQuad f q) = lineForHash b q := by
  unfold lineForHash renameQuad
  simp only [nqForHash_rename hf]
  cases q.g with
  | none => rfl
  | some g => simp [nqForHash_rename hf]

theorem components_rename (f : Str → Str) (q : Quad) :
    components (renameQuad f q) = (components q).map (fun c => (renameTerm f c.1, c.2)) := by
  unfold components renameQuad
  cases q.g <;> simp

theorem refsOf_rename {f : Str → Str} (hf : ∀ a b, f a = f b → a = b) (b : Str) (q : Quad) :
    refsOf (f b) (renameQuad f q) = (refsOf b q).map (renameQuad f) := by
  unfold refsOf refsIn
  rw [components_rename, List.filterMap_map, List.map_filterMap]
  congr 1
  funext c
  simp only [Function.comp]
  by_cases h : c.1 = Term.bnode b
  · have := (renameTerm_eq_bnode hf c.1 b).mpr h
    simp [h, renameTerm]
  · have : ¬ renameTerm f c.1 = Term.bnode (f b) := fun e => h ((renameTerm_eq_bnode hf c.1 b).mp e)
    simp [h, this]

theorem refs_perm {f : Str → Str} (hf : ∀ a b, f a = f b → a = b)
    {D₁ D₂ : List Quad} (hperm : D₂.Perm (D₁.map (renameQuad f))) (b : Str) :
    (D₂.flatMap (refsOf (f b))).Perm ((D₁.flatMap (refsOf b)).map (renameQuad f)) := by
  refine (List.Perm.flatMap_right _ hperm).trans (List.Perm.of_eq ?_)
  rw [List.flatMap_map, List.map_flatMap]
  congr 1
  funext q
  exact refsOf_rename hf b q

/-- the first-degree hash of a node does not depend on the labels nor on the order of the quads -/
theorem hashFirstDegree_invariant (H : Str → Str) {f : Str → Str} (hf : ∀ a b, f a = f b → a = b)
    {D₁ D₂ : List Quad} (hperm : D₂.Perm (D₁.map (renameQuad f))) (b : Str) :
    hashFirstDegree H (f b) (D₂.flatMap (refsOf (f b))) = hashFirstDegree H b (D₁.flatMap (refsOf b)) := by
  unfold hashFirstDegree
  congr 2
  apply sortStrs_perm
  have h1 : (D₂.flatMap (refsOf (f b))).Perm ((D₁.flatMap (refsOf b)).map (renameQuad f)) := by
    refine (List.Perm.flatMap_right _ hperm).trans (List.Perm.of_eq ?_)
    rw [List.flatMap_map, List.map_flatMap]
    congr 1
    funext q
    exact refsOf_rename hf b q
  refine (h1.map _).trans (List.Perm.of_eq ?_)
  rw [List.map_map]
  congr 1
  funext q
  exact lineForHash_rename hf b q

end SophiaProofs.Rdfc10L
