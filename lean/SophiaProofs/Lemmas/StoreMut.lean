/-
Mutation lemmas about `SophiaModel.Store`: the term index (`getIndex` / `ensureIndex`), preservation
of the representation invariant `Inv` by `St.new` / `insert` / `remove`, and refinement of
`insert` / `remove` to the set-of-quads specification through the abstraction `abs`.
-/
import SophiaProofs.Lemmas.StoreDefs
import SophiaProofs.Props.C02

namespace SophiaProofs.StoreP
open SophiaModel SophiaModel.Term SophiaModel.Store
open SophiaProofs.C02 (termEq_refl termEq_symm termEq_trans)

/-! ## A. term index -/

theorem getIndex_some {terms : List Term} {t : Term} {i : Nat} (h : getIndex terms t = some i) :
    ∃ x, terms[i]? = some x ∧ termEq x t = true := by
  unfold getIndex at h
  obtain ⟨hi, hp, _⟩ := List.findIdx?_eq_some_iff_getElem.1 h
  exact ⟨terms[i], List.getElem?_eq_getElem hi, hp⟩

theorem getIndex_none {terms : List Term} {t : Term} (h : getIndex terms t = none) :
    ∀ x ∈ terms, termEq x t = false := by
  unfold getIndex at h
  exact List.findIdx?_eq_none_iff.1 h

/-- the index returned is the FIRST match -/
theorem getIndex_first {terms : List Term} {t : Term} {i : Nat} (h : getIndex terms t = some i) :
    ∀ (j : Nat) (y : Term), j < i → terms[j]? = some y → termEq y t = false := by
  unfold getIndex at h
  obtain ⟨hi, _, hmin⟩ := List.findIdx?_eq_some_iff_getElem.1 h
  intro j y hj hy
  obtain ⟨hj', rfl⟩ := List.getElem?_eq_some_iff.1 hy
  simpa using hmin j hj

theorem getIndex_lt {terms : List Term} {t : Term} {i : Nat} (h : getIndex terms t = some i) :
    i < terms.length := by
  obtain ⟨x, hx, _⟩ := getIndex_some h
  exact (List.getElem?_eq_some_iff.1 hx).1

/-- under (I2) two entries that are `Term::eq` sit at the same index -/
theorem TIInv.idx_eq {max : Nat} {terms : List Term} (hti : TIInv max terms) {i j : Nat} {a b : Term}
    (ha : terms[i]? = some a) (hb : terms[j]? = some b) (he : termEq a b = true) : i = j := by
  rcases Nat.lt_trichotomy i j with hlt | heq | hgt
  · have := hti.2 i j a b hlt ha hb; simp [he] at this
  · exact heq
  · have := hti.2 j i b a hgt hb ha
    rw [termEq_symm] at this; simp [he] at this

/-- uniqueness under the invariant -/
theorem getIndex_of_mem {max : Nat} {terms : List Term} (hti : TIInv max terms) {i : Nat} {x t : Term}
    (hx : terms[i]? = some x) (he : termEq x t = true) : getIndex terms t = some i := by
  cases hg : getIndex terms t with
  | none =>
    have := getIndex_none hg x (List.mem_of_getElem? hx)
    simp [he] at this
  | some j =>
    obtain ⟨y, hy, hyt⟩ := getIndex_some hg
    have hxy : termEq x y = true := termEq_trans x t y he (by rw [termEq_symm]; exact hyt)
    rw [hti.idx_eq hx hy hxy]

theorem ensureIndex_none {max : Nat} {terms : List Term} {t : Term} :
    ensureIndex max terms t = none ↔ (getIndex terms t = none ∧ terms.length ≥ max) := by
  unfold ensureIndex
  cases hg : getIndex terms t with
  | none => by_cases hl : terms.length ≥ max <;> simp [hl]
  | some i => simp

theorem TIInv.snoc {max : Nat} {terms : List Term} {t : Term} (hti : TIInv max terms)
    (hl : terms.length < max) (hn : ∀ x ∈ terms, termEq x t = false) : TIInv max (terms ++ [t]) := by
  refine ⟨by simp; omega, ?_⟩
  intro i j a b hij ha hb
  have hjl : j < (terms ++ [t]).length := (List.getElem?_eq_some_iff.1 hb).1
  simp at hjl
  have hil : i < terms.length := by omega
  rw [List.getElem?_append_left hil] at ha
  by_cases hj : j < terms.length
  · rw [List.getElem?_append_left hj] at hb
    exact hti.2 i j a b hij ha hb
  · have hj' : j = terms.length := by omega
    subst hj'
    simp at hb
    subst hb
    exact hn a (List.mem_of_getElem? ha)

theorem ensureIndex_some {max : Nat} {terms : List Term} {t : Term} {terms' : List Term} {i : Nat}
    (hti : TIInv max terms) (h : ensureIndex max terms t = some (terms', i)) :
    TIInv max terms' ∧ (∃ ext, terms' = terms ++ ext) ∧
      (∃ x, terms'[i]? = some x ∧ termEq x t = true) ∧ i < max := by
  unfold ensureIndex at h
  cases hg : getIndex terms t with
  | some j =>
    simp only [hg, Option.some.injEq, Prod.mk.injEq] at h
    obtain ⟨rfl, rfl⟩ := h
    exact ⟨hti, ⟨[], by simp⟩, getIndex_some hg, Nat.lt_of_lt_of_le (getIndex_lt hg) hti.1⟩
  | none =>
    simp only [hg] at h
    by_cases hl : terms.length ≥ max
    · simp [hl] at h
    · simp only [hl, if_false, Option.some.injEq, Prod.mk.injEq] at h
      obtain ⟨rfl, rfl⟩ := h
      refine ⟨hti.snoc (by omega) (getIndex_none hg), ⟨[t], rfl⟩, ⟨t, by simp, termEq_refl t⟩, by omega⟩

/-! ## auxiliary: equivalences, layouts, rows -/

@[simp] theorem gnameEq_some_some (a b : Term) : gnameEq (some a) (some b) = termEq a b := rfl

theorem gnameEq_refl (g : GName) : gnameEq g g = true := by
  cases g <;> simp [gnameEq, termEq_refl]

theorem gnameEq_symm (a b : GName) : gnameEq a b = gnameEq b a := by
  cases a <;> cases b <;> simp [gnameEq]
  exact termEq_symm _ _

theorem gnameEq_trans (a b c : GName) (h1 : gnameEq a b = true) (h2 : gnameEq b c = true) :
    gnameEq a c = true := by
  cases a <;> cases b <;> cases c <;> simp_all [gnameEq]
  exact termEq_trans _ _ _ h1 h2

theorem quadEq_refl (a : Quad) : quadEq a a = true := by
  simp [quadEq, termEq_refl, gnameEq_refl]

theorem quadEq_symm (a b : Quad) : quadEq a b = quadEq b a := by
  simp [quadEq, termEq_symm a.s, termEq_symm a.p, termEq_symm a.o, gnameEq_symm a.g]

theorem quadEq_trans (a b c : Quad) (h1 : quadEq a b = true) (h2 : quadEq b c = true) :
    quadEq a c = true := by
  simp only [quadEq, Bool.and_eq_true] at *
  exact ⟨⟨⟨termEq_trans _ _ _ h1.1.1.1 h2.1.1.1, termEq_trans _ _ _ h1.1.1.2 h2.1.1.2⟩,
    termEq_trans _ _ _ h1.1.2 h2.1.2⟩, gnameEq_trans _ _ _ h1.2 h2.2⟩

theorem qmem_iff {q : Quad} {d : List Quad} : qmem q d = true ↔ ∃ x ∈ d, quadEq x q = true := by
  simp [qmem, List.any_eq_true]

theorem qmem_false_iff {q : Quad} {d : List Quad} : qmem q d = false ↔ ∀ x ∈ d, quadEq x q = false := by
  simp [qmem]

/-- every canonical position is looked up exactly once by `insert` / `remove` -/
def lookupOrderOK (s : St) : Prop := IsPerm s.shape.n s.shape.lookupOrder = true

theorem IsPerm.length_eq {n : Nat} {p : List Nat} (h : IsPerm n p = true) : p.length = n := by
  simp [IsPerm] at h; exact h.1

theorem IsPerm.mem {n : Nat} {p : List Nat} (h : IsPerm n p = true) {c : Nat} (hc : c < n) : c ∈ p := by
  simp [IsPerm] at h; exact h.2 c hc

theorem layout_range {n : Nat} {c : Row} (h : c.length = n) : layout (List.range n) c = c := by
  subst h
  apply List.ext_getElem
  · simp [layout]
  · intro i h1 h2
    simp [layout, List.getD_eq_getElem?_getD, h2]

/-- a layout permutation loses nothing -/
theorem layout_inj {n : Nat} {p : List Nat} {c c' : Row} (hp : IsPerm n p = true)
    (hc : c.length = n) (hc' : c'.length = n) (h : layout p c = layout p c') : c = c' := by
  unfold layout at h
  rw [List.map_inj_left] at h
  apply List.ext_getElem (by omega)
  intro i h1 h2
  have := h i (IsPerm.mem hp (by omega))
  simpa [List.getD_eq_getElem?_getD, h1, h2] using this

theorem len3 {α : Type} {c : List α} (h : c.length = 3) : ∃ a b d, c = [a, b, d] := by
  rcases c with _ | ⟨a, _ | ⟨b, _ | ⟨d, _ | ⟨e, r⟩⟩⟩⟩ <;> simp at h
  exact ⟨a, b, d, rfl⟩

theorem len4 {α : Type} {c : List α} (h : c.length = 4) : ∃ g a b d, c = [g, a, b, d] := by
  rcases c with _ | ⟨g, _ | ⟨a, _ | ⟨b, _ | ⟨d, _ | ⟨e, r⟩⟩⟩⟩⟩ <;> simp at h
  exact ⟨g, a, b, d, rfl⟩

theorem range3 : List.range 3 = [0, 1, 2] := by decide
theorem range4 : List.range 4 = [0, 1, 2, 3] := by decide

theorem RowOK.mono {n max len len' : Nat} {c : Row} (h : RowOK n max len c) (hl : len ≤ len') :
    RowOK n max len' c := by
  refine ⟨h.1, fun pos v hv => ?_⟩
  rcases h.2 pos v hv with h1 | h1
  · exact Or.inl (by omega)
  · exact Or.inr h1

/-! ## rows representing quads -/

/-- index `i` stands for the graph name / term `g` (modulo `Term::eq`) -/
def NameAt (max : Nat) (terms : List Term) (i : Nat) : GName → Prop
  | none => i = max
  | some t => ∃ x, terms[i]? = some x ∧ termEq x t = true

theorem NameAt.mono {max : Nat} {terms : List Term} {i : Nat} {g : GName}
    (h : NameAt max terms i g) (ext : List Term) : NameAt max (terms ++ ext) i g := by
  cases g with
  | none => exact h
  | some t =>
    obtain ⟨x, hx, he⟩ := h
    have hi := (List.getElem?_eq_some_iff.1 hx).1
    exact ⟨x, by rw [List.getElem?_append_left hi]; exact hx, he⟩

theorem NameAt.inj {max : Nat} {terms : List Term} {i i' : Nat} {g : GName} (hti : TIInv max terms)
    (h : NameAt max terms i g) (h' : NameAt max terms i' g) : i = i' := by
  cases g with
  | none => simp only [NameAt] at h h'; omega
  | some t =>
    obtain ⟨x, hx, he⟩ := h
    obtain ⟨x', hx', he'⟩ := h'
    exact hti.idx_eq hx hx' (termEq_trans x t x' he (by rw [termEq_symm]; exact he'))

theorem NameAt.congr {max : Nat} {terms : List Term} {i : Nat} {g g' : GName}
    (h : NameAt max terms i g) (he : gnameEq g g' = true) : NameAt max terms i g' := by
  cases g <;> cases g' <;> simp [SophiaModel.gnameEq] at he
  · exact h
  · obtain ⟨x, hx, hxt⟩ := h
    exact ⟨x, hx, termEq_trans _ _ _ hxt he⟩

theorem NameAt.unique {max : Nat} {terms : List Term} {i : Nat} {g g' : GName} (hl : terms.length ≤ max)
    (h : NameAt max terms i g) (h' : NameAt max terms i g') : gnameEq g g' = true := by
  cases g with
  | none =>
    cases g' with
    | none => rfl
    | some t' =>
      obtain ⟨x, hx, _⟩ := h'
      have hi := (List.getElem?_eq_some_iff.1 hx).1
      simp only [NameAt] at h; omega
  | some t =>
    obtain ⟨x, hx, he⟩ := h
    cases g' with
    | none =>
      have hi := (List.getElem?_eq_some_iff.1 hx).1
      simp only [NameAt] at h'; omega
    | some t' =>
      obtain ⟨x', hx', he'⟩ := h'
      rw [hx] at hx'; cases hx'
      exact termEq_trans t x t' (by rw [termEq_symm]; exact he) he'

/-- canonical row `c` stands for quad `q` (modulo `Term::eq`) -/
def Rep (n max : Nat) (terms : List Term) (c : Row) (q : Quad) : Prop :=
  c.length = n ∧ ∀ pos, pos < n → NameAt max terms (c.getD pos 0) ((quadNames n q).getD pos none)

theorem quadNames_length {n : Nat} (hn : n = 3 ∨ n = 4) (q : Quad) : (quadNames n q).length = n := by
  rcases hn with rfl | rfl <;> simp [quadNames]

theorem quadNames_none {n pos : Nat} {q : Quad} (hn : n = 3 ∨ n = 4) (hp : pos < n)
    (h : (quadNames n q).getD pos none = none) : isGPos n pos = true := by
  rcases hn with rfl | rfl
  · obtain rfl | rfl | rfl : pos = 0 ∨ pos = 1 ∨ pos = 2 := by omega
    all_goals simp [quadNames] at h
  · obtain rfl | rfl | rfl | rfl : pos = 0 ∨ pos = 1 ∨ pos = 2 ∨ pos = 3 := by omega
    · simp [isGPos]
    all_goals simp [quadNames] at h

theorem quadEq_pos {n : Nat} {a b : Quad} (hn : n = 3 ∨ n = 4) (h : quadEq a b = true) :
    ∀ pos, pos < n → gnameEq ((quadNames n a).getD pos none) ((quadNames n b).getD pos none) = true := by
  simp only [quadEq, Bool.and_eq_true] at h
  intro pos hp
  rcases hn with rfl | rfl
  · obtain rfl | rfl | rfl : pos = 0 ∨ pos = 1 ∨ pos = 2 := by omega
    all_goals simp [quadNames, h]
  · obtain rfl | rfl | rfl | rfl : pos = 0 ∨ pos = 1 ∨ pos = 2 ∨ pos = 3 := by omega
    all_goals simp [quadNames, h]

theorem pos_quadEq {n : Nat} {a b : Quad} (hn : n = 3 ∨ n = 4) (hg : n = 3 → a.g = none ∧ b.g = none)
    (h : ∀ pos, pos < n →
      gnameEq ((quadNames n a).getD pos none) ((quadNames n b).getD pos none) = true) :
    quadEq a b = true := by
  simp only [quadEq, Bool.and_eq_true]
  rcases hn with rfl | rfl
  · have h0 := h 0 (by omega); have h1 := h 1 (by omega); have h2 := h 2 (by omega)
    obtain ⟨ha, hb⟩ := hg rfl
    simp [quadNames] at h0 h1 h2
    simp [h0, h1, h2, ha, hb, gnameEq]
  · have h0 := h 0 (by omega); have h1 := h 1 (by omega); have h2 := h 2 (by omega)
    have h3 := h 3 (by omega)
    simp [quadNames] at h0 h1 h2 h3
    simp [h0, h1, h2, h3]

theorem Rep.congr {n max : Nat} {terms : List Term} {c : Row} {q q' : Quad} (hn : n = 3 ∨ n = 4)
    (h : Rep n max terms c q) (he : quadEq q q' = true) : Rep n max terms c q' :=
  ⟨h.1, fun pos hp => (h.2 pos hp).congr (quadEq_pos hn he pos hp)⟩

theorem Rep.inj {n max : Nat} {terms : List Term} {c c' : Row} {q : Quad} (hti : TIInv max terms)
    (h : Rep n max terms c q) (h' : Rep n max terms c' q) : c = c' := by
  apply List.ext_getElem (by rw [h.1, h'.1])
  intro i h1 h2
  have := (h.2 i (by rw [← h.1]; exact h1)).inj hti (h'.2 i (by rw [← h.1]; exact h1))
  simpa [List.getD_eq_getElem?_getD, h1, h2] using this

theorem Rep.unique {n max : Nat} {terms : List Term} {c : Row} {q q' : Quad} (hn : n = 3 ∨ n = 4)
    (hl : terms.length ≤ max) (hg : n = 3 → q.g = none ∧ q'.g = none)
    (h : Rep n max terms c q) (h' : Rep n max terms c q') : quadEq q q' = true :=
  pos_quadEq hn hg (fun pos hp => (h.2 pos hp).unique hl (h'.2 pos hp))

theorem Rep.mono {n max : Nat} {terms : List Term} {c : Row} {q : Quad}
    (h : Rep n max terms c q) (ext : List Term) : Rep n max (terms ++ ext) c q :=
  ⟨h.1, fun pos hp => (h.2 pos hp).mono ext⟩

theorem Rep.rowOK {n max : Nat} {terms : List Term} {c : Row} {q : Quad} (hn : n = 3 ∨ n = 4)
    (h : Rep n max terms c q) : RowOK n max terms.length c := by
  refine ⟨h.1, fun pos v hv => ?_⟩
  obtain ⟨hp, hv'⟩ := List.getElem?_eq_some_iff.1 hv
  have hp' : pos < n := by rw [← h.1]; exact hp
  have hN := h.2 pos hp'
  have hgd : c.getD pos 0 = v := by simp [List.getD_eq_getElem?_getD, hv]
  rw [hgd] at hN
  cases hq : (quadNames n q).getD pos none with
  | none =>
    rw [hq] at hN
    exact Or.inr ⟨quadNames_none hn hp' hq, hN⟩
  | some t =>
    rw [hq] at hN
    obtain ⟨x, hx, _⟩ := hN
    exact Or.inl (List.getElem?_eq_some_iff.1 hx).1

/-! ## decoding rows -/

/-- what `quads()` yields for one primary row -/
def decode (n max : Nat) (terms : List Term) (c : Row) : Option Quad :=
  quadOfNames n ((List.range n).map (fun pos =>
    if isGPos n pos then getName max terms (c.getD pos 0) else terms[c.getD pos 0]?))

theorem abs_eq (s : St) :
    abs s = (s.idx.getD 0 []).filterMap (decode s.shape.n s.max s.terms) := rfl

theorem getName_eq {max : Nat} {terms : List Term} (hl : terms.length ≤ max) (i : Nat) :
    getName max terms i = terms[i]? := by
  unfold getName
  split
  · next h => subst h; simp [List.getElem?_eq_none hl]
  · rfl

/-- under (I3) a row decodes, to a quad it represents -/
theorem decode_rep {n max : Nat} {terms : List Term} {c : Row} (hn : n = 3 ∨ n = 4)
    (hl : terms.length ≤ max) (hc : RowOK n max terms.length c) :
    ∃ q, decode n max terms c = some q ∧ Rep n max terms c q ∧ (n = 3 → q.g = none) := by
  obtain ⟨hlen, hpos⟩ := hc
  have some_of_lt : ∀ v, v < terms.length → ∃ x, terms[v]? = some x :=
    fun v hv => ⟨terms[v], List.getElem?_eq_getElem hv⟩
  rcases hn with rfl | rfl
  · obtain ⟨a, b, d, rfl⟩ := len3 hlen
    have ha : a < terms.length := by simpa [isGPos] using hpos 0 a (by simp)
    have hb : b < terms.length := by simpa [isGPos] using hpos 1 b (by simp)
    have hd : d < terms.length := by simpa [isGPos] using hpos 2 d (by simp)
    obtain ⟨ta, hta⟩ := some_of_lt a ha
    obtain ⟨tb, htb⟩ := some_of_lt b hb
    obtain ⟨td, htd⟩ := some_of_lt d hd
    refine ⟨⟨ta, tb, td, none⟩, ?_, ⟨rfl, ?_⟩, fun _ => rfl⟩
    · simp [decode, range3, isGPos, quadOfNames, hta, htb, htd]
    · intro pos hp
      obtain rfl | rfl | rfl : pos = 0 ∨ pos = 1 ∨ pos = 2 := by omega
      all_goals simp [quadNames, NameAt, hta, htb, htd, termEq_refl]
  · obtain ⟨g, a, b, d, rfl⟩ := len4 hlen
    have ha : a < terms.length := by simpa [isGPos] using hpos 1 a (by simp)
    have hb : b < terms.length := by simpa [isGPos] using hpos 2 b (by simp)
    have hd : d < terms.length := by simpa [isGPos] using hpos 3 d (by simp)
    have hg : g < terms.length ∨ g = max := by simpa [isGPos] using hpos 0 g (by simp)
    obtain ⟨ta, hta⟩ := some_of_lt a ha
    obtain ⟨tb, htb⟩ := some_of_lt b hb
    obtain ⟨td, htd⟩ := some_of_lt d hd
    refine ⟨⟨ta, tb, td, terms[g]?⟩, ?_, ⟨rfl, ?_⟩, fun h => by omega⟩
    · simp [decode, range4, isGPos, quadOfNames, hta, htb, htd, getName_eq hl]
    · intro pos hp
      obtain rfl | rfl | rfl | rfl : pos = 0 ∨ pos = 1 ∨ pos = 2 ∨ pos = 3 := by omega
      · rcases hg with hg | hg
        · obtain ⟨tg, htg⟩ := some_of_lt g hg
          simp [quadNames, NameAt, htg, termEq_refl]
        · subst hg
          simp [quadNames, NameAt, List.getElem?_eq_none hl]
      all_goals simp [quadNames, NameAt, hta, htb, htd, termEq_refl]

/-- growing the term list by a suffix does not change what an (I3)-row decodes to -/
theorem decode_mono {n max : Nat} {terms : List Term} {c : Row} (hc : RowOK n max terms.length c)
    (ext : List Term) : decode n max (terms ++ ext) c = decode n max terms c := by
  unfold decode
  congr 1
  apply List.map_congr_left
  intro pos hp
  have hp' : pos < c.length := by rw [hc.1]; simpa using hp
  have hv : c[pos]? = some (c.getD pos 0) := by
    simp [List.getD_eq_getElem?_getD, List.getElem?_eq_getElem hp']
  generalize c.getD pos 0 = v at hv
  show (if isGPos n pos then getName max (terms ++ ext) v else (terms ++ ext)[v]?) =
    (if isGPos n pos then getName max terms v else terms[v]?)
  rcases hc.2 pos _ hv with h | ⟨hg, hm⟩
  · simp only [getName, List.getElem?_append_left h]
  · simp [hg, hm, getName]

/-- decoding is injective modulo `Term::eq` on (I3)-rows -/
theorem decode_inj {n max : Nat} {terms : List Term} {c c' : Row} {q q' : Quad} (hn : n = 3 ∨ n = 4)
    (hti : TIInv max terms) (hc : RowOK n max terms.length c) (hc' : RowOK n max terms.length c')
    (hd : decode n max terms c = some q) (hd' : decode n max terms c' = some q')
    (he : quadEq q q' = true) : c = c' := by
  obtain ⟨q1, h1, r1, _⟩ := decode_rep hn hti.1 hc
  obtain ⟨q2, h2, r2, _⟩ := decode_rep hn hti.1 hc'
  rw [hd] at h1; cases h1
  rw [hd'] at h2; cases h2
  exact (r1.congr hn he).inj hti r2

theorem nodupQ_filterMap {n max : Nat} {terms : List Term} (hn : n = 3 ∨ n = 4)
    (hti : TIInv max terms) : ∀ (l : List Row), l.Nodup → (∀ c ∈ l, RowOK n max terms.length c) →
    NodupQ (l.filterMap (decode n max terms))
  | [], _, _ => by simp [NodupQ]
  | r :: l, hnd, hok => by
    obtain ⟨hr, hnd'⟩ := List.nodup_cons.1 hnd
    obtain ⟨q, hq, _, _⟩ := decode_rep hn hti.1 (hok r (by simp))
    rw [List.filterMap_cons_some hq]
    refine ⟨?_, nodupQ_filterMap hn hti l hnd' (fun c hc => hok c (by simp [hc]))⟩
    rw [qmem_false_iff]
    intro x hx
    obtain ⟨r', hr', hx'⟩ := List.mem_filterMap.1 hx
    cases hxe : quadEq x q with
    | false => rfl
    | true =>
      have := decode_inj hn hti (hok r' (by simp [hr'])) (hok r (by simp)) hx' hq hxe
      subst this
      exact absurd hr' hr

/-! ## term lookup for a whole quad -/

/-- every entry `(position, index)` of the association list stands for the name at that position -/
def AssocOK (max : Nat) (terms : List Term) (names : List GName) (a : List (Nat × Nat)) : Prop :=
  ∀ p ∈ a, NameAt max terms p.2 (names.getD p.1 none)

theorem AssocOK.mono {max : Nat} {terms : List Term} {names : List GName} {a : List (Nat × Nat)}
    (h : AssocOK max terms names a) (ext : List Term) : AssocOK max (terms ++ ext) names a :=
  fun p hp => (h p hp).mono ext

theorem ensureAll_spec {max n : Nat} {names : List GName} :
    ∀ (order : List Nat) (terms : List Term) (acc : List (Nat × Nat)) {terms' : List Term}
      {r : Option (List (Nat × Nat))},
    TIInv max terms → ensureAll max n names order terms acc = (terms', r) →
    TIInv max terms' ∧ (∃ ext, terms' = terms ++ ext) ∧
    (∀ a, r = some a → AssocOK max terms names acc →
      AssocOK max terms' names a ∧
      ∀ c, (c ∈ order ∨ c ∈ acc.map Prod.fst) → c ∈ a.map Prod.fst)
  | [], terms, acc, terms', r, hti, h => by
    simp only [ensureAll, Prod.mk.injEq] at h
    obtain ⟨rfl, rfl⟩ := h
    refine ⟨hti, ⟨[], by simp⟩, ?_⟩
    intro a ha hacc
    cases ha
    exact ⟨hacc, fun c hc => by simpa using hc⟩
  | c :: cs, terms, acc, terms', r, hti, h => by
    cases hn : names.getD c none with
    | none =>
      simp only [ensureAll, hn] at h
      obtain ⟨h1, h2, h3⟩ := ensureAll_spec cs terms ((c, max) :: acc) hti h
      refine ⟨h1, h2, ?_⟩
      intro a ha hacc
      have hacc' : AssocOK max terms names ((c, max) :: acc) := by
        intro p hp
        rcases List.mem_cons.1 hp with rfl | hp
        · show NameAt max terms max (names.getD c none)
          rw [hn]; rfl
        · exact hacc p hp
      obtain ⟨h4, h5⟩ := h3 a ha hacc'
      refine ⟨h4, fun c' hc' => h5 c' ?_⟩
      simp only [List.mem_cons, List.map_cons] at hc' ⊢
      rcases hc' with (rfl | hc') | hc'
      · exact Or.inr (Or.inl rfl)
      · exact Or.inl hc'
      · exact Or.inr (Or.inr hc')
    | some t =>
      cases he : ensureIndex max terms t with
      | none =>
        simp only [ensureAll, hn, he, Prod.mk.injEq] at h
        obtain ⟨rfl, rfl⟩ := h
        exact ⟨hti, ⟨[], by simp⟩, fun a ha => by cases ha⟩
      | some ti =>
        obtain ⟨terms1, i⟩ := ti
        simp only [ensureAll, hn, he] at h
        obtain ⟨hti1, ⟨ext1, rfl⟩, hx, _⟩ := ensureIndex_some hti he
        obtain ⟨h1, ⟨ext2, h2⟩, h3⟩ := ensureAll_spec cs (terms ++ ext1) ((c, i) :: acc) hti1 h
        refine ⟨h1, ⟨ext1 ++ ext2, by rw [h2, List.append_assoc]⟩, ?_⟩
        intro a ha hacc
        have hacc' : AssocOK max (terms ++ ext1) names ((c, i) :: acc) := by
          intro p hp
          rcases List.mem_cons.1 hp with rfl | hp
          · show NameAt max _ i (names.getD c none)
            rw [hn]; exact hx
          · exact (hacc p hp).mono ext1
        obtain ⟨h4, h5⟩ := h3 a ha hacc'
        refine ⟨h4, fun c' hc' => h5 c' ?_⟩
        simp only [List.mem_cons, List.map_cons] at hc' ⊢
        rcases hc' with (rfl | hc') | hc'
        · exact Or.inr (Or.inl rfl)
        · exact Or.inl hc'
        · exact Or.inr (Or.inr hc')

theorem lookupAll_some {max : Nat} {terms : List Term} {names : List GName} :
    ∀ (order : List Nat) (acc : List (Nat × Nat)) {a : List (Nat × Nat)},
    lookupAll max terms names order acc = some a → AssocOK max terms names acc →
    AssocOK max terms names a ∧ ∀ c, (c ∈ order ∨ c ∈ acc.map Prod.fst) → c ∈ a.map Prod.fst
  | [], acc, a, h, hacc => by
    simp only [lookupAll, Option.some.injEq] at h
    subst h
    exact ⟨hacc, fun c hc => by simpa using hc⟩
  | c :: cs, acc, a, h, hacc => by
    cases hg : getNameIndex max terms (names.getD c none) with
    | none =>
      have : lookupAll max terms names (c :: cs) acc = none := by simp only [lookupAll, hg]
      rw [this] at h; cases h
    | some i =>
      simp only [lookupAll, hg] at h
      have hacc' : AssocOK max terms names ((c, i) :: acc) := by
        intro p hp
        rcases List.mem_cons.1 hp with rfl | hp
        · cases hn : names.getD c none with
          | none =>
            rw [hn] at hg; simp only [getNameIndex, Option.some.injEq] at hg
            exact hg.symm
          | some t =>
            rw [hn] at hg
            exact getIndex_some hg
        · exact hacc p hp
      obtain ⟨h4, h5⟩ := lookupAll_some cs ((c, i) :: acc) h hacc'
      refine ⟨h4, fun c' hc' => h5 c' ?_⟩
      simp only [List.mem_cons, List.map_cons] at hc' ⊢
      rcases hc' with (rfl | hc') | hc'
      · exact Or.inr (Or.inl rfl)
      · exact Or.inl hc'
      · exact Or.inr (Or.inr hc')

theorem lookupAll_none {max : Nat} {terms : List Term} {names : List GName} :
    ∀ (order : List Nat) (acc : List (Nat × Nat)),
    lookupAll max terms names order acc = none →
    ∃ c ∈ order, ∃ t, names.getD c none = some t ∧ ∀ x ∈ terms, termEq x t = false
  | [], acc, h => by simp [lookupAll] at h
  | c :: cs, acc, h => by
    cases hg : getNameIndex max terms (names.getD c none) with
    | none =>
      cases hn : names.getD c none with
      | none => rw [hn] at hg; simp [getNameIndex] at hg
      | some t =>
        rw [hn] at hg
        exact ⟨c, by simp, t, hn, getIndex_none hg⟩
    | some i =>
      simp only [lookupAll, hg] at h
      obtain ⟨c', hc', ht⟩ := lookupAll_none cs _ h
      exact ⟨c', by simp [hc'], ht⟩

theorem lookup_of_mem_keys : ∀ {a : List (Nat × Nat)} {c : Nat}, c ∈ a.map Prod.fst →
    ∃ i, a.lookup c = some i ∧ (c, i) ∈ a
  | [], c, h => by simp at h
  | (k, v) :: a, c, h => by
    by_cases hck : c = k
    · subst hck
      exact ⟨v, by simp, by simp⟩
    · have h' : c ∈ a.map Prod.fst := by
        simp only [List.map_cons, List.mem_cons] at h
        rcases h with h | h
        · exact absurd h hck
        · exact h
      obtain ⟨i, hi, hm⟩ := lookup_of_mem_keys h'
      refine ⟨i, ?_, by simp [hm]⟩
      rw [List.lookup_cons]
      have : (c == k) = false := by simpa using hck
      rw [this]; exact hi

theorem rowOfAssoc_length (n : Nat) (a : List (Nat × Nat)) : (rowOfAssoc n a).length = n := by
  simp [rowOfAssoc]

/-- the canonical row assembled by `insert` / `remove` stands for the quad -/
theorem rep_of_assoc {n max : Nat} {terms : List Term} {order : List Nat} {q : Quad}
    {a : List (Nat × Nat)} (hlo : IsPerm n order = true)
    (hok : AssocOK max terms (quadNames n q) a) (hkeys : ∀ c, c ∈ order → c ∈ a.map Prod.fst) :
    Rep n max terms (rowOfAssoc n a) q := by
  refine ⟨rowOfAssoc_length n a, fun pos hp => ?_⟩
  obtain ⟨i, hi, hm⟩ := lookup_of_mem_keys (hkeys pos (IsPerm.mem hlo hp))
  have : (rowOfAssoc n a).getD pos 0 = i := by
    simp [rowOfAssoc, List.getD_eq_getElem?_getD, hp, hi]
  rw [this]
  exact hok (pos, i) hm

/-! ## ordered sets of rows -/

theorem oinsert_mem {x r : Row} {ix : List Row} : r ∈ (oinsert x ix).1 ↔ r = x ∨ r ∈ ix := by
  unfold oinsert
  by_cases h : ix.contains x = true
  · have hm : x ∈ ix := List.contains_iff_mem.1 h
    rw [if_pos h]
    exact ⟨Or.inr, fun h' => h'.elim (fun e => e ▸ hm) id⟩
  · rw [if_neg h]; exact List.mem_cons

theorem oinsert_nodup {x : Row} {ix : List Row} (hnd : ix.Nodup) : (oinsert x ix).1.Nodup := by
  unfold oinsert
  by_cases h : ix.contains x = true
  · rw [if_pos h]; exact hnd
  · have hm : x ∉ ix := fun hm => h (List.contains_iff_mem.2 hm)
    rw [if_neg h]
    exact List.nodup_cons.2 ⟨hm, hnd⟩

theorem oremove_mem {x r : Row} {ix : List Row} (hnd : ix.Nodup) :
    r ∈ (oremove x ix).1 ↔ r ∈ ix ∧ r ≠ x := by
  unfold oremove
  by_cases h : ix.contains x = true
  · rw [if_pos h]
    show r ∈ ix.erase x ↔ _
    rw [hnd.mem_erase_iff]
    exact And.comm
  · have hm : x ∉ ix := fun hm => h (List.contains_iff_mem.2 hm)
    rw [if_neg h]
    exact ⟨fun hr => ⟨hr, fun e => hm (e ▸ hr)⟩, fun hr => hr.1⟩

theorem oremove_nodup {x : Row} {ix : List Row} (hnd : ix.Nodup) : (oremove x ix).1.Nodup := by
  unfold oremove
  by_cases h : ix.contains x = true
  · rw [if_pos h]; exact hnd.erase x
  · rw [if_neg h]; exact hnd

/-- `rest'` is `rest` with `G layout` applied index-wise -/
def Upd (G : List Nat → List Row → List Row) (rest : List (List Row)) (ps : List (List Nat))
    (rest' : List (List Row)) : Prop :=
  rest'.length = rest.length ∧
  ∀ (k : Nat) ix, rest'[k]? = some ix → ∃ ix0 p, rest[k]? = some ix0 ∧ ps[k]? = some p ∧ ix = G p ix0

theorem upd_zipmap {rest : List (List Row)} {ps : List (List Nat)}
    (F : List Row × List Nat → List Row) (G : List Nat → List Row → List Row)
    (hF : ∀ ix p, F (ix, p) = G p ix) (hlen : rest.length = ps.length) :
    Upd G rest ps ((rest.zip ps).map F) := by
  refine ⟨by simp [hlen], fun k ix hk => ?_⟩
  rw [List.getElem?_map, Option.map_eq_some_iff] at hk
  obtain ⟨⟨ix0, p⟩, hz, rfl⟩ := hk
  rw [List.getElem?_zip_eq_some] at hz
  exact ⟨ix0, p, hz.1, hz.2, hF ix0 p⟩

/-! ## the invariant, by components -/

theorem isPerm_range (n : Nat) : IsPerm n (List.range n) = true := by
  simp [IsPerm]

/-- `Inv` spelled out over the primary index `prim`, the secondary ones `rest` and their layouts -/
structure Parts (s : St) (prim : List Row) (rest : List (List Row)) (ps : List (List Nat)) : Prop where
  hidx : s.idx = prim :: rest
  hperms : s.shape.perms = List.range s.shape.n :: ps
  hps : ∀ p ∈ ps, IsPerm s.shape.n p = true
  hn : s.shape.n = 3 ∨ s.shape.n = 4
  hlen : rest.length = ps.length
  ti : TIInv s.max s.terms
  rows : ∀ c ∈ prim, RowOK s.shape.n s.max s.terms.length c
  nd : prim.Nodup
  nds : ∀ ix ∈ rest, ix.Nodup
  same : ∀ (k : Nat) ix p, rest[k]? = some ix → ps[k]? = some p →
    ∀ r, r ∈ ix ↔ ∃ c ∈ prim, layout p c = r

theorem Parts.inv {s : St} {prim : List Row} {rest : List (List Row)} {ps : List (List Nat)}
    (h : Parts s prim rest ps) : Inv s := by
  have h0 : s.idx.getD 0 [] = prim := by rw [h.hidx]; rfl
  refine ⟨⟨?_, by rw [h.hperms]; rfl⟩, h.hn, by rw [h.hidx, h.hperms]; simp [h.hlen], h.ti,
    by rw [h0]; exact h.rows, ?_, ?_⟩
  · rw [h.hperms, List.all_cons, isPerm_range, Bool.true_and, List.all_eq_true]
    exact h.hps
  · intro ix hix
    rw [h.hidx] at hix
    rcases List.mem_cons.1 hix with rfl | hix
    · exact h.nd
    · exact h.nds ix hix
  · intro k ix hk r
    rw [h0]
    rw [h.hidx] at hk
    cases k with
    | zero =>
      simp only [List.getElem?_cons_zero, Option.some.injEq] at hk
      subst hk
      have : s.shape.perms.getD 0 [] = List.range s.shape.n := by rw [h.hperms]; rfl
      rw [this]
      constructor
      · intro hr; exact ⟨r, hr, layout_range (h.rows r hr).1⟩
      · rintro ⟨c, hc, rfl⟩; rw [layout_range (h.rows c hc).1]; exact hc
    | succ k =>
      simp only [List.getElem?_cons_succ] at hk
      have hk' : k < rest.length := (List.getElem?_eq_some_iff.1 hk).1
      have hk'' : k < ps.length := by rw [← h.hlen]; exact hk'
      have hp : ps[k]? = some ps[k] := List.getElem?_eq_getElem hk''
      have : s.shape.perms.getD (k + 1) [] = ps[k] := by
        rw [h.hperms]; simp [List.getD_eq_getElem?_getD, hp]
      rw [this]
      exact h.same k ix _ hk hp r

theorem Inv.parts {s : St} (h : Inv s) : ∃ prim rest ps, Parts s prim rest ps := by
  obtain ⟨⟨hall, hhead⟩, hn, hlen, hti, hrows, hnd, hsame⟩ := h
  cases hp : s.shape.perms with
  | nil => rw [hp] at hhead; simp at hhead
  | cons p0 ps =>
    rw [hp] at hhead hall hlen
    simp only [List.head?_cons, Option.some.injEq] at hhead
    subst hhead
    cases hi : s.idx with
    | nil => rw [hi] at hlen; simp at hlen
    | cons prim rest =>
      have h0 : s.idx.getD 0 [] = prim := by rw [hi]; rfl
      rw [h0] at hrows hsame
      rw [hi] at hlen hnd
      refine ⟨prim, rest, ps, hi, hp, ?_, hn, by simpa using hlen, hti, hrows,
        hnd prim (by simp), fun ix hix => hnd ix (by simp [hix]), ?_⟩
      · rw [List.all_cons, Bool.and_eq_true, List.all_eq_true] at hall
        exact hall.2
      · intro k ix p hk hpk r
        have := hsame (k + 1) ix (by rw [hi]; simpa using hk) r
        rw [this]
        have : s.shape.perms.getD (k + 1) [] = p := by
          rw [hp]; simp [List.getD_eq_getElem?_getD, hpk]
        rw [this]

/-! ## what `insert` / `remove` do, by cases -/

theorem insert_char {s : St} {q : Quad} {prim : List Row} {rest : List (List Row)}
    {ps : List (List Nat)} (h : Parts s prim rest ps) (hlo : lookupOrderOK s) :
    ∃ terms' ext, terms' = s.terms ++ ext ∧ TIInv s.max terms' ∧
      (insert s q = ({ s with terms := terms' }, none) ∨
       ∃ c, Rep s.shape.n s.max terms' c q ∧
        ((c ∈ prim ∧ insert s q = ({ s with terms := terms' }, some false)) ∨
         (c ∉ prim ∧ ∃ rest', Upd (fun p ix => (oinsert (layout p c) ix).1) rest ps rest' ∧
            insert s q = ({ s with terms := terms', idx := (c :: prim) :: rest' }, some true)))) := by
  obtain ⟨⟨n, perms, lo⟩, max, terms, idx⟩ := s
  obtain ⟨hidx, hperms, -, hn, hlen, hti, -, -, -, -⟩ := h
  dsimp only at hidx hperms hn hti
  unfold lookupOrderOK at hlo
  dsimp only at hlo
  subst hidx hperms
  cases hE : ensureAll max n (quadNames n q) lo terms [] with
  | mk terms' r =>
  obtain ⟨hti', ⟨ext, hext⟩, hspec⟩ := ensureAll_spec lo terms [] hti hE
  refine ⟨terms', ext, hext, hti', ?_⟩
  cases r with
  | none =>
    left
    simp only [Store.insert, hE]
  | some a =>
    right
    obtain ⟨hok, hkeys⟩ := hspec a rfl (fun p hp => by cases hp)
    have hrep := rep_of_assoc hlo hok (fun c hc => hkeys c (Or.inl hc))
    refine ⟨rowOfAssoc n a, hrep, ?_⟩
    have hlay : layout (List.range n) (rowOfAssoc n a) = rowOfAssoc n a :=
      layout_range (rowOfAssoc_length n a)
    by_cases hc : rowOfAssoc n a ∈ prim
    · left
      refine ⟨hc, ?_⟩
      have ho : oinsert (rowOfAssoc n a) prim = (prim, false) := by
        unfold oinsert; rw [if_pos (List.contains_iff_mem.2 hc)]
      simp [Store.insert, hE, hlay, ho]
    · right
      have ho : oinsert (rowOfAssoc n a) prim = (rowOfAssoc n a :: prim, true) := by
        unfold oinsert; rw [if_neg (fun h => hc (List.contains_iff_mem.1 h))]
      refine ⟨hc, _, upd_zipmap (fun x => (oinsert (layout x.2 (rowOfAssoc n a)) x.1).1)
        (fun p ix => (oinsert (layout p (rowOfAssoc n a)) ix).1) (fun _ _ => rfl) hlen, ?_⟩
      simp [Store.insert, hE, hlay, ho]

theorem remove_char {s : St} {q : Quad} {prim : List Row} {rest : List (List Row)}
    {ps : List (List Nat)} (h : Parts s prim rest ps) (hlo : lookupOrderOK s) :
    (remove s q = (s, false) ∧ ∃ pos t, (quadNames s.shape.n q).getD pos none = some t ∧
        ∀ x ∈ s.terms, termEq x t = false) ∨
    ∃ c, Rep s.shape.n s.max s.terms c q ∧
      ((c ∉ prim ∧ remove s q = (s, false)) ∨
       (c ∈ prim ∧ ∃ rest', Upd (fun p ix => (oremove (layout p c) ix).1) rest ps rest' ∧
          remove s q = ({ s with idx := prim.erase c :: rest' }, true))) := by
  obtain ⟨⟨n, perms, lo⟩, max, terms, idx⟩ := s
  obtain ⟨hidx, hperms, -, hn, hlen, hti, -, -, -, -⟩ := h
  dsimp only at hidx hperms hn hti
  unfold lookupOrderOK at hlo
  dsimp only at hlo
  subst hidx hperms
  cases hL : lookupAll max terms (quadNames n q) lo [] with
  | none =>
    left
    obtain ⟨pos, _, t, ht, hx⟩ := lookupAll_none lo [] hL
    exact ⟨by simp [Store.remove, hL], pos, t, ht, hx⟩
  | some a =>
    right
    obtain ⟨hok, hkeys⟩ := lookupAll_some lo [] hL (fun p hp => by cases hp)
    have hrep := rep_of_assoc hlo hok (fun c hc => hkeys c (Or.inl hc))
    refine ⟨rowOfAssoc n a, hrep, ?_⟩
    have hlay : layout (List.range n) (rowOfAssoc n a) = rowOfAssoc n a :=
      layout_range (rowOfAssoc_length n a)
    by_cases hc : rowOfAssoc n a ∈ prim
    · right
      have ho : oremove (rowOfAssoc n a) prim = (prim.erase (rowOfAssoc n a), true) := by
        unfold oremove; rw [if_pos (List.contains_iff_mem.2 hc)]
      refine ⟨hc, _, upd_zipmap (fun x => (oremove (layout x.2 (rowOfAssoc n a)) x.1).1)
        (fun p ix => (oremove (layout p (rowOfAssoc n a)) ix).1) (fun _ _ => rfl) hlen, ?_⟩
      simp [Store.remove, hL, hlay, ho]
    · left
      have ho : oremove (rowOfAssoc n a) prim = (prim, false) := by
        unfold oremove; rw [if_neg (fun h => hc (List.contains_iff_mem.1 h))]
      refine ⟨hc, ?_⟩
      simp [Store.remove, hL, hlay, ho]

/-! ## B. the invariant is established by `new` and preserved by `insert` / `remove` -/

theorem inv_new (shape : Shape) (max : Nat) (h1 : shape.perms.all (IsPerm shape.n) = true)
    (h2 : shape.perms.head? = some (List.range shape.n)) (h3 : shape.n = 3 ∨ shape.n = 4) :
    Inv (St.new shape max) := by
  have hprim : ((St.new shape max).idx.getD 0 []) = [] := by
    simp only [St.new]
    cases shape.perms <;> rfl
  refine ⟨⟨h1, h2⟩, h3, by simp [St.new], ⟨Nat.zero_le _, ?_⟩, ?_, ?_, ?_⟩
  · intro i j a b _ ha; simp [St.new] at ha
  · rw [hprim]; intro c hc; cases hc
  · intro ix hix
    simp only [St.new, List.mem_map] at hix
    obtain ⟨_, _, rfl⟩ := hix
    exact List.nodup_nil
  · intro k ix hk r
    rw [hprim]
    simp only [St.new, List.getElem?_map, Option.map_eq_some_iff] at hk
    obtain ⟨_, _, rfl⟩ := hk
    simp

theorem Parts.extend {s : St} {prim : List Row} {rest : List (List Row)} {ps : List (List Nat)}
    (h : Parts s prim rest ps) {terms' ext : List Term} (hext : terms' = s.terms ++ ext)
    (hti : TIInv s.max terms') : Parts { s with terms := terms' } prim rest ps :=
  { h with
    ti := hti
    rows := fun c hc => (h.rows c hc).mono (by rw [hext]; simp) }

theorem Parts.ins {s : St} {prim : List Row} {rest rest' : List (List Row)} {ps : List (List Nat)}
    {c : Row} (h : Parts s prim rest ps) (hc : c ∉ prim)
    (hrow : RowOK s.shape.n s.max s.terms.length c)
    (hupd : Upd (fun p ix => (oinsert (layout p c) ix).1) rest ps rest') :
    Parts { s with idx := (c :: prim) :: rest' } (c :: prim) rest' ps where
  hidx := rfl
  hperms := h.hperms
  hps := h.hps
  hn := h.hn
  hlen := by rw [hupd.1, h.hlen]
  ti := h.ti
  rows := by
    intro c' hc'
    rcases List.mem_cons.1 hc' with rfl | hc'
    · exact hrow
    · exact h.rows c' hc'
  nd := List.nodup_cons.2 ⟨hc, h.nd⟩
  nds := by
    intro ix hix
    obtain ⟨k, hk⟩ := List.mem_iff_getElem?.1 hix
    obtain ⟨ix0, p, h0, _, rfl⟩ := hupd.2 k ix hk
    exact oinsert_nodup (h.nds ix0 (List.mem_of_getElem? h0))
  same := by
    intro k ix p hk hp r
    obtain ⟨ix0, p', h0, hp', rfl⟩ := hupd.2 k ix hk
    rw [hp] at hp'; cases hp'
    rw [oinsert_mem, h.same k ix0 p h0 hp r]
    constructor
    · rintro (rfl | ⟨c', hc', rfl⟩)
      · exact ⟨c, by simp, rfl⟩
      · exact ⟨c', by simp [hc'], rfl⟩
    · rintro ⟨c', hc', rfl⟩
      rcases List.mem_cons.1 hc' with rfl | hc'
      · exact Or.inl rfl
      · exact Or.inr ⟨c', hc', rfl⟩

theorem Parts.rem {s : St} {prim : List Row} {rest rest' : List (List Row)} {ps : List (List Nat)}
    {c : Row} (h : Parts s prim rest ps) (hlc : c.length = s.shape.n)
    (hupd : Upd (fun p ix => (oremove (layout p c) ix).1) rest ps rest') :
    Parts { s with idx := prim.erase c :: rest' } (prim.erase c) rest' ps where
  hidx := rfl
  hperms := h.hperms
  hps := h.hps
  hn := h.hn
  hlen := by rw [hupd.1, h.hlen]
  ti := h.ti
  rows := fun c' hc' => h.rows c' (List.mem_of_mem_erase hc')
  nd := h.nd.erase c
  nds := by
    intro ix hix
    obtain ⟨k, hk⟩ := List.mem_iff_getElem?.1 hix
    obtain ⟨ix0, p, h0, _, rfl⟩ := hupd.2 k ix hk
    exact oremove_nodup (h.nds ix0 (List.mem_of_getElem? h0))
  same := by
    intro k ix p hk hp r
    obtain ⟨ix0, p', h0, hp', rfl⟩ := hupd.2 k ix hk
    rw [hp] at hp'; cases hp'
    have hperm : IsPerm s.shape.n p = true := h.hps p (List.mem_of_getElem? hp)
    rw [oremove_mem (h.nds ix0 (List.mem_of_getElem? h0)), h.same k ix0 p h0 hp r]
    constructor
    · rintro ⟨⟨c', hc', rfl⟩, hne⟩
      refine ⟨c', ?_, rfl⟩
      rw [h.nd.mem_erase_iff]
      exact ⟨fun e => hne (by rw [e]), hc'⟩
    · rintro ⟨c', hc', rfl⟩
      rw [h.nd.mem_erase_iff] at hc'
      refine ⟨⟨c', hc'.2, rfl⟩, fun e => hc'.1 ?_⟩
      exact layout_inj hperm (h.rows c' hc'.2).1 hlc e

theorem inv_insert {s : St} {q : Quad} (h : Inv s) (hlo : lookupOrderOK s) : Inv (insert s q).1 := by
  obtain ⟨prim, rest, ps, hP⟩ := h.parts
  obtain ⟨terms', ext, hext, hti', hcase⟩ := insert_char (q := q) hP hlo
  have hP' := hP.extend hext hti'
  rcases hcase with hi | ⟨c, hrep, ⟨_, hi⟩ | ⟨hc, rest', hupd, hi⟩⟩
  · rw [hi]; exact hP'.inv
  · rw [hi]; exact hP'.inv
  · rw [hi]
    exact (hP'.ins hc (hrep.rowOK hP.hn) hupd).inv

theorem inv_remove {s : St} {q : Quad} (h : Inv s) (hlo : lookupOrderOK s) : Inv (remove s q).1 := by
  obtain ⟨prim, rest, ps, hP⟩ := h.parts
  rcases remove_char (q := q) hP hlo with ⟨hr, _⟩ | ⟨c, hrep, ⟨_, hr⟩ | ⟨_, rest', hupd, hr⟩⟩
  · rw [hr]; exact h
  · rw [hr]; exact h
  · rw [hr]
    exact (hP.rem hrep.1 hupd).inv

/-! ## C. refinement to the specification -/

theorem Parts.abs_eq {s : St} {prim : List Row} {rest : List (List Row)} {ps : List (List Nat)}
    (h : Parts s prim rest ps) : abs s = prim.filterMap (decode s.shape.n s.max s.terms) := by
  rw [StoreP.abs_eq, h.hidx]; rfl

theorem abs_nodup {s : St} (h : Inv s) : NodupQ (abs s) := by
  obtain ⟨prim, rest, ps, hP⟩ := h.parts
  rw [hP.abs_eq]
  exact nodupQ_filterMap hP.hn hP.ti prim hP.nd hP.rows

theorem qmem_cons (x y : Quad) (d : List Quad) : qmem x (y :: d) = (quadEq y x || qmem x d) := by
  simp [qmem]

theorem filterMap_congr' {α β : Type} {f g : α → Option β} :
    ∀ {l : List α}, (∀ x ∈ l, f x = g x) → l.filterMap f = l.filterMap g
  | [], _ => rfl
  | a :: l, h => by
    have ha := h a (by simp)
    have ih := filterMap_congr' (l := l) (fun x hx => h x (by simp [hx]))
    simp only [List.filterMap_cons, ha, ih]

/-- growing the term list by a suffix does not change the quads held -/
theorem Parts.abs_extend {s : St} {prim : List Row} {rest : List (List Row)} {ps : List (List Nat)}
    (h : Parts s prim rest ps) (ext : List Term) :
    prim.filterMap (decode s.shape.n s.max (s.terms ++ ext)) = abs s := by
  rw [h.abs_eq]
  apply filterMap_congr'
  intro c hc
  exact decode_mono (h.rows c hc) ext

section key
variable {s : St} {prim : List Row} {rest : List (List Row)} {ps : List (List Nat)}
  {ext : List Term} {c : Row} {q : Quad}

/-- a stored row that decodes to a quad `Term::eq` to `q` is the row computed for `q` -/
theorem Parts.row_of_quadEq (h : Parts s prim rest ps) (hti : TIInv s.max (s.terms ++ ext))
    (hrep : Rep s.shape.n s.max (s.terms ++ ext) c q) {r : Row} {x : Quad} (hr : r ∈ prim)
    (hd : decode s.shape.n s.max s.terms r = some x) (he : quadEq x q = true) : r = c := by
  obtain ⟨x', hx', hrx, _⟩ := decode_rep h.hn h.ti.1 (h.rows r hr)
  rw [hd] at hx'; cases hx'
  exact (((hrx.mono ext).congr h.hn he)).inj hti hrep

/-- the row computed for `q`, if stored, decodes to a quad `Term::eq` to `q` -/
theorem Parts.quadEq_of_row (h : Parts s prim rest ps) (hti : TIInv s.max (s.terms ++ ext))
    (hrep : Rep s.shape.n s.max (s.terms ++ ext) c q) (hg : s.shape.n = 3 → q.g = none)
    (hc : c ∈ prim) :
    ∃ x, decode s.shape.n s.max s.terms c = some x ∧ quadEq x q = true := by
  obtain ⟨x, hx, hrx, hgx⟩ := decode_rep h.hn h.ti.1 (h.rows c hc)
  exact ⟨x, hx, Rep.unique h.hn hti.1 (fun h3 => ⟨hgx h3, hg h3⟩) (hrx.mono ext) hrep⟩

theorem Parts.mem_iff_qmem (h : Parts s prim rest ps) (hti : TIInv s.max (s.terms ++ ext))
    (hrep : Rep s.shape.n s.max (s.terms ++ ext) c q) (hg : s.shape.n = 3 → q.g = none) :
    c ∈ prim ↔ qmem q (abs s) = true := by
  rw [qmem_iff, h.abs_eq]
  constructor
  · intro hc
    obtain ⟨x, hx, he⟩ := h.quadEq_of_row hti hrep hg hc
    exact ⟨x, List.mem_filterMap.2 ⟨c, hc, hx⟩, he⟩
  · rintro ⟨x, hx, he⟩
    obtain ⟨r, hr, hd⟩ := List.mem_filterMap.1 hx
    rw [← h.row_of_quadEq hti hrep hr hd he]; exact hr
end key

theorem insert_flag {s s' : St} {q : Quad} {b : Bool} (h : Inv s) (hlo : lookupOrderOK s)
    (hg : s.shape.n = 3 → q.g = none) (hi : insert s q = (s', some b)) : b = !qmem q (abs s) := by
  obtain ⟨prim, rest, ps, hP⟩ := h.parts
  obtain ⟨terms', ext, rfl, hti', hcase⟩ := insert_char (q := q) hP hlo
  rcases hcase with hi' | ⟨c, hrep, ⟨hc, hi'⟩ | ⟨hc, rest', hupd, hi'⟩⟩
  · rw [hi'] at hi; simp at hi
  · rw [hi'] at hi
    simp only [Prod.mk.injEq, Option.some.injEq] at hi
    rw [← hi.2, (hP.mem_iff_qmem hti' hrep hg).1 hc]; rfl
  · rw [hi'] at hi
    simp only [Prod.mk.injEq, Option.some.injEq] at hi
    have : qmem q (abs s) = false := by
      cases hq : qmem q (abs s) with
      | false => rfl
      | true => exact absurd ((hP.mem_iff_qmem hti' hrep hg).2 hq) hc
    rw [← hi.2, this]; rfl

theorem insert_abs {s s' : St} {q : Quad} {b : Bool} (h : Inv s) (hlo : lookupOrderOK s)
    (hg : s.shape.n = 3 → q.g = none) (hi : insert s q = (s', some b)) :
    SameSet (abs s') (q :: abs s) := by
  obtain ⟨prim, rest, ps, hP⟩ := h.parts
  obtain ⟨terms', ext, rfl, hti', hcase⟩ := insert_char (q := q) hP hlo
  have hP' := hP.extend rfl hti'
  rcases hcase with hi' | ⟨c, hrep, ⟨hc, hi'⟩ | ⟨hc, rest', hupd, hi'⟩⟩
  · rw [hi'] at hi; simp at hi
  · rw [hi'] at hi
    simp only [Prod.mk.injEq, Option.some.injEq] at hi
    rw [← hi.1, hP'.abs_eq]
    show SameSet (prim.filterMap (decode s.shape.n s.max (s.terms ++ ext))) _
    rw [hP.abs_extend ext]
    obtain ⟨y, hy, hyq⟩ := qmem_iff.1 ((hP.mem_iff_qmem hti' hrep hg).1 hc)
    intro x
    rw [qmem_cons]
    cases hqx : quadEq q x with
    | false => rfl
    | true =>
      rw [Bool.true_or]
      exact qmem_iff.2 ⟨y, hy, quadEq_trans _ _ _ hyq hqx⟩
  · rw [hi'] at hi
    simp only [Prod.mk.injEq, Option.some.injEq] at hi
    have hP'' := hP'.ins hc (hrep.rowOK hP.hn) hupd
    rw [← hi.1, hP''.abs_eq]
    show SameSet ((c :: prim).filterMap (decode s.shape.n s.max (s.terms ++ ext))) _
    obtain ⟨qc, hqc, hrc, hgc⟩ := decode_rep hP.hn hti'.1 (hrep.rowOK hP.hn)
    have hcq : quadEq qc q = true :=
      Rep.unique hP.hn hti'.1 (fun h3 => ⟨hgc h3, hg h3⟩) hrc hrep
    rw [List.filterMap_cons_some hqc, hP.abs_extend ext]
    intro x
    rw [qmem_cons, qmem_cons]
    congr 1
    rw [Bool.eq_iff_iff]
    constructor
    · intro hx; exact quadEq_trans _ _ _ (by rw [quadEq_symm]; exact hcq) hx
    · intro hx; exact quadEq_trans _ _ _ hcq hx

/-- index full: the quads held are unchanged (the term list may have grown by a suffix) -/
theorem insert_full_abs {s s' : St} {q : Quad} (h : Inv s) (hlo : lookupOrderOK s)
    (hi : insert s q = (s', none)) : abs s' = abs s := by
  obtain ⟨prim, rest, ps, hP⟩ := h.parts
  obtain ⟨terms', ext, rfl, hti', hcase⟩ := insert_char (q := q) hP hlo
  have hP' := hP.extend rfl hti'
  rcases hcase with hi' | ⟨c, hrep, ⟨hc, hi'⟩ | ⟨hc, rest', hupd, hi'⟩⟩
  · rw [hi'] at hi
    simp only [Prod.mk.injEq, and_true] at hi
    rw [← hi, hP'.abs_eq]
    exact hP.abs_extend ext
  · rw [hi'] at hi; simp at hi
  · rw [hi'] at hi; simp at hi

theorem remove_flag {s s' : St} {q : Quad} {b : Bool} (h : Inv s) (hlo : lookupOrderOK s)
    (hg : s.shape.n = 3 → q.g = none) (hr : remove s q = (s', b)) : b = qmem q (abs s) := by
  obtain ⟨prim, rest, ps, hP⟩ := h.parts
  have hti0 : TIInv s.max (s.terms ++ []) := by rw [List.append_nil]; exact hP.ti
  rcases remove_char (q := q) hP hlo with
    ⟨hr', pos, t, hpos, hno⟩ | ⟨c, hrep, ⟨hc, hr'⟩ | ⟨hc, rest', hupd, hr'⟩⟩
  · rw [hr'] at hr
    simp only [Prod.mk.injEq] at hr
    rw [← hr.2]
    symm
    rw [qmem_false_iff, hP.abs_eq]
    intro x hx
    obtain ⟨r, hr, hd⟩ := List.mem_filterMap.1 hx
    cases he : quadEq x q with
    | false => rfl
    | true =>
      obtain ⟨x', hx', hrx, _⟩ := decode_rep hP.hn hP.ti.1 (hP.rows r hr)
      rw [hd] at hx'; cases hx'
      have hrq := hrx.congr hP.hn he
      have hlt : pos < s.shape.n := by
        rw [← quadNames_length hP.hn q]
        apply Classical.byContradiction
        intro hge
        rw [List.getD_eq_getElem?_getD, List.getElem?_eq_none (by omega)] at hpos
        simp at hpos
      have hN := hrq.2 pos hlt
      rw [hpos] at hN
      obtain ⟨x0, hx0, hx0t⟩ := hN
      rw [hno x0 (List.mem_of_getElem? hx0)] at hx0t
      cases hx0t
  · rw [hr'] at hr
    simp only [Prod.mk.injEq] at hr
    rw [← hr.2]
    cases hq : qmem q (abs s) with
    | false => rfl
    | true =>
      rw [← List.append_nil s.terms] at hrep
      exact absurd ((hP.mem_iff_qmem hti0 hrep hg).2 hq) hc
  · rw [hr'] at hr
    simp only [Prod.mk.injEq] at hr
    rw [← hr.2]
    rw [← List.append_nil s.terms] at hrep
    exact ((hP.mem_iff_qmem hti0 hrep hg).1 hc).symm

theorem remove_abs {s s' : St} {q : Quad} {b : Bool} (h : Inv s) (hlo : lookupOrderOK s)
    (hg : s.shape.n = 3 → q.g = none) (hr : remove s q = (s', b)) :
    SameSet (abs s') ((abs s).filter (fun x => !quadEq x q)) := by
  have hflag := remove_flag h hlo hg hr
  obtain ⟨prim, rest, ps, hP⟩ := h.parts
  have hti0 : TIInv s.max (s.terms ++ []) := by rw [List.append_nil]; exact hP.ti
  have hunch : qmem q (abs s) = false → SameSet (abs s) ((abs s).filter (fun x => !quadEq x q)) := by
    intro hq
    rw [qmem_false_iff] at hq
    have : (abs s).filter (fun x => !quadEq x q) = abs s := by
      rw [List.filter_eq_self]
      intro x hx; simp [hq x hx]
    rw [this]; intro x; rfl
  rcases remove_char (q := q) hP hlo with
    ⟨hr', _⟩ | ⟨c, hrep, ⟨hc, hr'⟩ | ⟨hc, rest', hupd, hr'⟩⟩
  · rw [hr'] at hr
    simp only [Prod.mk.injEq] at hr
    rw [← hr.1]; rw [← hr.2] at hflag
    exact hunch hflag.symm
  · rw [hr'] at hr
    simp only [Prod.mk.injEq] at hr
    rw [← hr.1]; rw [← hr.2] at hflag
    exact hunch hflag.symm
  · rw [hr'] at hr
    simp only [Prod.mk.injEq] at hr
    have hP' := hP.rem hrep.1 hupd
    rw [← hr.1, hP'.abs_eq, hP.abs_eq]
    show SameSet ((prim.erase c).filterMap (decode s.shape.n s.max s.terms)) _
    rw [← List.append_nil s.terms] at hrep
    intro y
    rw [Bool.eq_iff_iff, qmem_iff, qmem_iff]
    constructor
    · rintro ⟨x, hx, hxy⟩
      obtain ⟨r, hr, hd⟩ := List.mem_filterMap.1 hx
      rw [hP.nd.mem_erase_iff] at hr
      refine ⟨x, List.mem_filter.2 ⟨List.mem_filterMap.2 ⟨r, hr.2, hd⟩, ?_⟩, hxy⟩
      cases he : quadEq x q with
      | false => rfl
      | true => exact absurd (hP.row_of_quadEq hti0 hrep hr.2 hd he) hr.1
    · rintro ⟨x, hx, hxy⟩
      obtain ⟨hx1, hx2⟩ := List.mem_filter.1 hx
      obtain ⟨r, hr, hd⟩ := List.mem_filterMap.1 hx1
      refine ⟨x, List.mem_filterMap.2 ⟨r, ?_, hd⟩, hxy⟩
      rw [hP.nd.mem_erase_iff]
      refine ⟨?_, hr⟩
      rintro rfl
      obtain ⟨x', hx', he⟩ := hP.quadEq_of_row hti0 hrep hg hc
      rw [hd] at hx'; cases hx'
      simp [he] at hx2

/-! ## the hypotheses hold for the four generated store descriptions -/

section generated
open SophiaModel.Gen

/-- hypotheses of `inv_new` and `lookupOrderOK` for a store description -/
def shapeOK (sh : Shape) : Bool :=
  sh.perms.all (IsPerm sh.n) && sh.perms.head? == some (List.range sh.n) &&
    (sh.n == 3 || sh.n == 4) && IsPerm sh.n sh.lookupOrder

theorem shapeOK_spec {sh : Shape} (h : shapeOK sh = true) :
    sh.perms.all (IsPerm sh.n) = true ∧ sh.perms.head? = some (List.range sh.n) ∧
      (sh.n = 3 ∨ sh.n = 4) ∧ IsPerm sh.n sh.lookupOrder = true := by
  simpa [shapeOK, and_assoc] using h

example : shapeOK genericLightDataset.shape = true := by decide
example : shapeOK genericFastDataset.shape = true := by decide
example : shapeOK genericLightGraph.shape = true := by decide
example : shapeOK genericFastGraph.shape = true := by decide

/-- `lookupOrderOK` only depends on the shape, which `insert` / `remove` never change -/
theorem lookupOrderOK_new {sh : Shape} {max : Nat} (h : IsPerm sh.n sh.lookupOrder = true) :
    lookupOrderOK (St.new sh max) := h

theorem insert_frame (s : St) (q : Quad) :
    (insert s q).1.shape = s.shape ∧ (insert s q).1.max = s.max := by
  obtain ⟨⟨n, perms, lo⟩, max, terms, idx⟩ := s
  simp only [Store.insert]
  cases ensureAll max n (quadNames n q) lo terms [] with
  | mk t r =>
    cases r <;> cases idx <;> cases perms <;> (try exact ⟨rfl, rfl⟩)
    simp only [oinsert]
    split <;> exact ⟨rfl, rfl⟩

theorem remove_frame (s : St) (q : Quad) :
    (remove s q).1.shape = s.shape ∧ (remove s q).1.max = s.max := by
  obtain ⟨⟨n, perms, lo⟩, max, terms, idx⟩ := s
  simp only [Store.remove]
  cases lookupAll max terms (quadNames n q) lo [] with
  | none => exact ⟨rfl, rfl⟩
  | some a =>
    cases idx <;> cases perms <;> (try exact ⟨rfl, rfl⟩)
    simp only [oremove]
    split <;> exact ⟨rfl, rfl⟩

theorem insert_shape (s : St) (q : Quad) : (insert s q).1.shape = s.shape := (insert_frame s q).1
theorem insert_max (s : St) (q : Quad) : (insert s q).1.max = s.max := (insert_frame s q).2
theorem remove_shape (s : St) (q : Quad) : (remove s q).1.shape = s.shape := (remove_frame s q).1
theorem remove_max (s : St) (q : Quad) : (remove s q).1.max = s.max := (remove_frame s q).2

theorem lookupOrderOK_insert {s : St} (q : Quad) (h : lookupOrderOK s) :
    lookupOrderOK (insert s q).1 := by
  unfold lookupOrderOK; rw [insert_shape]; exact h

theorem lookupOrderOK_remove {s : St} (q : Quad) (h : lookupOrderOK s) :
    lookupOrderOK (remove s q).1 := by
  unfold lookupOrderOK; rw [remove_shape]; exact h

/-- non-vacuity: a fresh store of every generated kind satisfies `Inv` and `lookupOrderOK` -/
example : Inv (St.new genericFastDataset.shape maxU16) ∧
    lookupOrderOK (St.new genericFastDataset.shape maxU16) := by
  obtain ⟨h1, h2, h3, h4⟩ := shapeOK_spec (sh := genericFastDataset.shape) (by decide)
  exact ⟨inv_new _ _ h1 h2 h3, h4⟩

example : Inv (St.new genericLightGraph.shape maxU32) ∧
    lookupOrderOK (St.new genericLightGraph.shape maxU32) := by
  obtain ⟨h1, h2, h3, h4⟩ := shapeOK_spec (sh := genericLightGraph.shape) (by decide)
  exact ⟨inv_new _ _ h1 h2 h3, h4⟩

/-- the hypotheses of the refinement lemmas are jointly satisfiable: inserting a triple into a
fresh graph reports a change -/
example (q : Quad) (hq : q.g = none) {s' : St} {b : Bool}
    (hi : insert (St.new genericFastGraph.shape maxU32) q = (s', some b)) : b = true := by
  obtain ⟨h1, h2, h3, h4⟩ := shapeOK_spec (sh := genericFastGraph.shape) (by decide)
  have := insert_flag (inv_new _ _ h1 h2 h3) (lookupOrderOK_new h4) (fun _ => hq) hi
  simpa [abs_eq, St.new, genericFastGraph, StoreDesc.shape, qmem] using this

end generated

end SophiaProofs.StoreP
