import SophiaProofs.Lemmas.IsoColour

namespace SophiaProofs.Iso
open SophiaModel SophiaModel.Term SophiaModel.Iso SophiaProofs Std

/-! ### termination of the refinement loop under non-decreasing class counts -/

theorem length_bump_le (e : EqCl) (v : UInt64) : (bump e v).length ≤ e.length + 1 := by
  induction e with
  | nil => simp [bump]
  | cons kn rest ih =>
    obtain ⟨k, n⟩ := kn
    simp only [bump]
    split <;> simp <;> omega

theorem length_hist_le (vals : List UInt64) (e : EqCl) : (hist vals e).length ≤ e.length + vals.length := by
  induction vals generalizing e with
  | nil => simp [hist]
  | cons v vs ih =>
    simp only [hist, List.foldl_cons, List.length_cons] at ih ⊢
    have := ih (bump e v)
    have := length_bump_le e v
    omega

/-- there are at most as many colour classes as blank nodes -/
theorem length_eqClasses_le (m : CMap) : (eqClasses m).length ≤ m.length := by
  rw [eqClasses_eq_hist]
  simpa using length_hist_le (m.map Prod.snd) []

theorem length_makeMap (h : List Ev → UInt64) (d : List Quad) (b2q : B2Q) (m : CMap) :
    (makeMap h d b2q m).length = b2q.length := by simp [makeMap]

/-- **Termination.**  If on both sides the number of colour classes never decreases during the next `fuel`
rounds, the loop answers within `|b2q1| + |b2q2| + 1 - (old1 + old2)` rounds: every round that does not stop
strictly increases `count1 + count2`, which is bounded by the number of blank nodes. -/
theorem refine_terminates (h : List Ev → UInt64) (d1 d2 : List Quad) (b1 b2 : B2Q) (fuel : Nat) (m1 m2 : CMap)
    (o1 o2 : Nat) (h1 : monoRun h d1 b1 fuel m1 o1 = true) (h2 : monoRun h d2 b2 fuel m2 o2 = true)
    (ho1 : o1 ≤ b1.length) (ho2 : o2 ≤ b2.length) (hf : b1.length + b2.length < fuel + (o1 + o2)) :
    ∃ b, refine h d1 d2 b1 b2 fuel m1 m2 o1 o2 = some b := by
  induction fuel generalizing m1 m2 o1 o2 with
  | zero => omega
  | succ fuel ih =>
    simp only [monoRun, Bool.and_eq_true, decide_eq_true_eq] at h1 h2
    have c1 : (eqClasses (makeMap h d1 b1 m1)).length ≤ b1.length := by
      have := length_eqClasses_le (makeMap h d1 b1 m1); rwa [length_makeMap] at this
    have c2 : (eqClasses (makeMap h d2 b2 m2)).length ≤ b2.length := by
      have := length_eqClasses_le (makeMap h d2 b2 m2); rwa [length_makeMap] at this
    simp only [refine]
    split
    · exact ⟨_, rfl⟩
    · split
      · exact ⟨_, rfl⟩
      · rename_i hne _
        simp only [Bool.and_eq_true, beq_iff_eq, not_and] at hne
        refine ih _ _ _ _ h1.2 h2.2 c1 c2 ?_
        have : (eqClasses (makeMap h d1 b1 m1)).length + (eqClasses (makeMap h d2 b2 m2)).length ≥ o1 + o2 + 1 := by
          by_cases e : (eqClasses (makeMap h d1 b1 m1)).length = o1
          · have := hne e; omega
          · omega
        omega

/-- on a relabelled copy the class counts of the two sides coincide round by round, so the condition need only
be checked on one side -/
theorem Relabelled.monoRun_transfer {β : Str → Str} {d1 d2 : List Quad} (R : Relabelled β d1 d2)
    (h : List Ev → UInt64) (k : Nat) (m1 m2 : CMap) (old : Nat)
    (k1 : m1.map Prod.fst = (makeB2q d1).map Prod.fst) (k2 : m2.map Prod.fst = (makeB2q d2).map Prod.fst)
    (hcol : ∀ c ∈ labels d1, colour m2 (β c) = colour m1 c)
    (hm : monoRun h d1 (makeB2q d1) k m1 old = true) : monoRun h d2 (makeB2q d2) k m2 old = true := by
  induction k generalizing m1 m2 old with
  | zero => rfl
  | succ k ih =>
    have hcol' := R.colour_step h m1 m2 hcol
    have k1' := keys_makeMap h d1 (makeB2q d1) m1
    have k2' := keys_makeMap h d2 (makeB2q d2) m2
    have hv := R.vals_perm _ _ k1' k2' hcol'
    obtain ⟨_, hl⟩ := eqClasses_of_perm _ _ hv
    simp only [monoRun, Bool.and_eq_true, decide_eq_true_eq] at hm ⊢
    rw [← hl]
    exact ⟨hm.1, ih _ _ _ k1' k2' hcol' hm.2⟩

end SophiaProofs.Iso
