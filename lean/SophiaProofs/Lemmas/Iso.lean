/-
Lemmas about the isomorphism model (SophiaModel/Model/Iso.lean), part 1: `IsoTerm`'s equality and order
are `Term::eq` / `Term::cmp` of "blanked" terms; order-preserving injective keys for quads.
-/
import SophiaModel.Model.Iso
import SophiaProofs.Props.C02

namespace SophiaProofs.Iso
open SophiaModel SophiaModel.Term SophiaModel.Iso SophiaProofs Std

/-- all blank node labels replaced by the empty label: at top level only (`deep = false`) or at any
depth (`deep = true`) -/
def blank (deep : Bool) : Term → Term
  | .bnode _ => .bnode []
  | .triple s p o => if deep then .triple (blank deep s) (blank deep p) (blank deep o) else .triple s p o
  | t => t

def mapQ (f : Term → Term) (q : Quad) : Quad := ⟨f q.s, f q.p, f q.o, q.g.map f⟩

def WFq (q : Quad) : Prop := q.s.WF = true ∧ q.p.WF = true ∧ q.o.WF = true ∧ ∀ g, q.g = some g → g.WF = true

theorem isoEq_blank (deep : Bool) (a b : Term) : isoEq deep a b = termEq (blank deep a) (blank deep b) := by
  induction a generalizing b with
  | triple s p o ihs ihp iho =>
    cases b <;> cases deep <;> simp [isoEq, blank, termEq, ihs, ihp, iho]
  | _ => cases b <;> cases deep <;> simp [isoEq, blank, termEq]

theorem isoCmp_blank (deep : Bool) (a b : Term) : isoCmp deep a b = termCmp (blank deep a) (blank deep b) := by
  induction a generalizing b with
  | triple s p o ihs ihp iho =>
    cases b <;> cases deep <;> simp [isoCmp, blank, termCmp, ihs, ihp, iho, kind, Kind.rank]
  | bnode s => cases b <;> cases deep <;> simp [isoCmp, blank, termCmp, kind, Kind.rank, strCmp_refl]
  | _ => cases b <;> cases deep <;> simp [isoCmp, blank, termCmp, kind, Kind.rank]

theorem blank_WF (deep : Bool) (a : Term) (h : a.WF = true) : (blank deep a).WF = true := by
  induction a with
  | triple s p o ihs ihp iho =>
    cases deep
    · simpa [blank] using h
    · simp only [WF, Bool.and_eq_true] at h
      simp [blank, WF, ihs h.1.1, ihp h.1.2, iho h.2]
  | _ => simp_all [blank, WF]

theorem isoEq_symm (deep : Bool) (a b : Term) : isoEq deep a b = isoEq deep b a := by
  rw [isoEq_blank, isoEq_blank, C02.termEq_symm]

theorem eqGn_symm (deep : Bool) (a b : Option Term) : eqGn deep a b = eqGn deep b a := by
  cases a <;> cases b <;> simp [eqGn, isoEq_symm deep]

theorem cmpQuads_symm (deep : Bool) (a b : Quad) : cmpQuads deep a b = cmpQuads deep b a := by
  simp [cmpQuads, eqTriples, isoEq_symm deep a.s, isoEq_symm deep a.p, isoEq_symm deep a.o, eqGn_symm deep a.g]

/-! ### keys -/

def gkey (deep : Bool) : Option Term → List Nat
  | none => [0]
  | some g => 1 :: enc (blank deep g)

/-- order-preserving, injective (up to `IsoTerm` equality) encoding of a prepared quad -/
def qkey (deep : Bool) (q : Quad) : List Nat :=
  enc (blank deep q.s) ++ (enc (blank deep q.p) ++ (enc (blank deep q.o) ++ gkey deep q.g))

theorem gnCmp_key (deep : Bool) (g1 g2 : Option Term) (h1 : ∀ g, g1 = some g → g.WF = true)
    (h2 : ∀ g, g2 = some g → g.WF = true) : gnCmp deep g1 g2 = compare (gkey deep g1) (gkey deep g2) := by
  cases g1 <;> cases g2
  · simp [gnCmp, gkey]
  · simp [gnCmp, gkey, List.compare_cons_cons, Nat.compare_eq_ite_lt]
  · simp [gnCmp, gkey, List.compare_cons_cons, Nat.compare_eq_ite_lt]
  · rename_i a b
    simp only [gnCmp, gkey, List.compare_cons_cons, Nat.compare_eq_ite_lt, Nat.lt_irrefl, ite_false,
      Ordering.eq_then, isoCmp_blank]
    exact termCmp_eq_enc _ _ (blank_WF _ _ (h1 a rfl)) (blank_WF _ _ (h2 b rfl))

theorem quadCmp_key (deep : Bool) (q1 q2 : Quad) (h1 : WFq q1) (h2 : WFq q2) :
    quadCmp deep q1 q2 = compare (qkey deep q1) (qkey deep q2) := by
  obtain ⟨a1, a2, a3, a4⟩ := h1
  obtain ⟨b1, b2, b3, b4⟩ := h2
  simp only [quadCmp, qkey, isoCmp_blank]
  rw [enc_cmp _ _ (blank_WF _ _ a1) (blank_WF _ _ b1), enc_cmp _ _ (blank_WF _ _ a2) (blank_WF _ _ b2),
    enc_cmp _ _ (blank_WF _ _ a3) (blank_WF _ _ b3), gnCmp_key deep _ _ a4 b4]

theorem cmpQuads_of_key (deep : Bool) (q1 q2 : Quad) (h1 : WFq q1) (h2 : WFq q2)
    (h : qkey deep q1 = qkey deep q2) : cmpQuads deep q1 q2 = true := by
  obtain ⟨a1, a2, a3, a4⟩ := h1
  obtain ⟨b1, b2, b3, b4⟩ := h2
  simp only [qkey] at h
  obtain ⟨e1, h⟩ := C02.enc_inj _ _ (blank_WF deep _ a1) (blank_WF deep _ b1) _ _ h
  obtain ⟨e2, h⟩ := C02.enc_inj _ _ (blank_WF deep _ a2) (blank_WF deep _ b2) _ _ h
  obtain ⟨e3, h⟩ := C02.enc_inj _ _ (blank_WF deep _ a3) (blank_WF deep _ b3) _ _ h
  simp only [cmpQuads, eqTriples, isoEq_blank, e1, e2, e3, Bool.and_self, Bool.true_and]
  cases hg1 : q1.g <;> cases hg2 : q2.g <;> simp [hg1, hg2, gkey] at h ⊢
  · simp [eqGn]
  · rename_i a b
    have := C02.enc_inj _ _ (blank_WF deep _ (a4 a hg1)) (blank_WF deep _ (b4 b hg2)) [] [] (by simpa using h)
    simp [eqGn, isoEq_blank, this.1]

theorem key_of_cmpQuads (deep : Bool) (q1 q2 : Quad) (h : cmpQuads deep q1 q2 = true) :
    qkey deep q1 = qkey deep q2 := by
  simp only [cmpQuads, eqTriples, Bool.and_eq_true, isoEq_blank] at h
  obtain ⟨⟨⟨e1, e2⟩, e3⟩, e4⟩ := h
  simp only [qkey, C02.enc_of_termEq _ _ e1, C02.enc_of_termEq _ _ e2, C02.enc_of_termEq _ _ e3]
  cases hg1 : q1.g <;> cases hg2 : q2.g <;> simp [hg1, hg2, eqGn] at e4 ⊢
  rw [isoEq_blank] at e4
  simp [gkey, C02.enc_of_termEq _ _ e4]

/-! ### the sort, as a parameter (DESIGN.md §3.3) -/

/-- `cmp` is a total preorder on the elements of `l` -/
def TotalPreorderOn (cmp : Quad → Quad → Ordering) (l : List Quad) : Prop :=
  (∀ a ∈ l, ∀ b ∈ l, cmp b a = (cmp a b).swap) ∧
  (∀ a ∈ l, ∀ b ∈ l, ∀ c ∈ l, cmp a b ≠ .gt → cmp b c ≠ .gt → cmp a c ≠ .gt)

/-- all that is assumed of `sort_unstable`: the result is a permutation of the input, and it is sorted
w.r.t. the comparator whenever the comparator is a total preorder on the input -/
structure SortSpec (cmp : Quad → Quad → Ordering) (sort : List Quad → List Quad) : Prop where
  perm : ∀ l, (sort l).Perm l
  sorted : ∀ l, TotalPreorderOn cmp l → (sort l).Pairwise (fun a b => cmp a b ≠ .gt)

theorem totalPreorderOn_of_wf (deep : Bool) (l : List Quad) (h : ∀ q ∈ l, WFq q) :
    TotalPreorderOn (quadCmp deep) l := by
  constructor
  · intro a ha b hb
    rw [quadCmp_key deep a b (h a ha) (h b hb), quadCmp_key deep b a (h b hb) (h a ha)]
    exact OrientedOrd.eq_swap
  · intro a ha b hb c hc h1 h2
    rw [quadCmp_key deep _ _ (h _ ha) (h _ hb)] at h1
    rw [quadCmp_key deep _ _ (h _ hb) (h _ hc)] at h2
    rw [quadCmp_key deep _ _ (h _ ha) (h _ hc)]
    exact Ordering.isLE_iff_ne_gt.1 (TransOrd.isLE_trans (Ordering.isLE_iff_ne_gt.2 h1) (Ordering.isLE_iff_ne_gt.2 h2))

theorem TotalPreorderOn.mono {cmp : Quad → Quad → Ordering} {l l' : List Quad} (tp : TotalPreorderOn cmp l)
    (hsub : ∀ x ∈ l', x ∈ l) : TotalPreorderOn cmp l' :=
  ⟨fun a ha b hb => tp.1 a (hsub a ha) b (hsub b hb),
   fun a ha b hb c hc => tp.2 a (hsub a ha) b (hsub b hb) c (hsub c hc)⟩

theorem insertQ_perm (deep : Bool) (q : Quad) (l : List Quad) : (insertQ deep q l).Perm (q :: l) := by
  induction l with
  | nil => simp [insertQ]
  | cons x xs ih =>
    simp only [insertQ]
    split
    · exact ((List.Perm.cons x ih).trans (List.Perm.swap q x xs))
    · exact List.Perm.refl _

theorem isort_perm (deep : Bool) (l : List Quad) : (isort deep l).Perm l := by
  induction l with
  | nil => simp [isort]
  | cons x xs ih =>
    simp only [isort, List.foldr_cons] at ih ⊢
    exact (insertQ_perm deep x _).trans (List.Perm.cons x ih)

theorem insertQ_sorted (deep : Bool) (q : Quad) (l : List Quad) (tp : TotalPreorderOn (quadCmp deep) (q :: l))
    (hs : l.Pairwise (fun a b => quadCmp deep a b ≠ .gt)) :
    (insertQ deep q l).Pairwise (fun a b => quadCmp deep a b ≠ .gt) := by
  induction l with
  | nil => simp [insertQ]
  | cons x xs ih =>
    have tp' : TotalPreorderOn (quadCmp deep) (q :: xs) := tp.mono (by
      intro y hy; rcases List.mem_cons.1 hy with rfl | hy <;> simp [*])
    simp only [insertQ]
    rw [List.pairwise_cons] at hs
    split
    · rename_i hgt
      rw [List.pairwise_cons]
      refine ⟨?_, ih tp' hs.2⟩
      intro y hy
      rcases List.mem_cons.1 ((insertQ_perm deep q xs).subset hy) with rfl | hy
      · have := tp.1 y (by simp) x (by simp)
        simp only [beq_iff_eq] at hgt
        rw [this, hgt]; simp
      · exact hs.1 y hy
    · rename_i hgt
      simp only [beq_iff_eq] at hgt
      rw [List.pairwise_cons]
      refine ⟨?_, List.pairwise_cons.2 hs⟩
      intro y hy
      rcases List.mem_cons.1 hy with rfl | hy
      · exact hgt
      · exact tp.2 q (by simp) x (by simp) y (by simp [hy]) hgt (hs.1 y hy)

/-- the driver's sort satisfies the specification -/
theorem isort_spec (deep : Bool) : SortSpec (quadCmp deep) (isort deep) := by
  refine ⟨isort_perm deep, ?_⟩
  intro l
  induction l with
  | nil => intro _; simp [isort]
  | cons x xs ih =>
    intro tp
    have tp' : TotalPreorderOn (quadCmp deep) xs := tp.mono (by intro y hy; simp [hy])
    simp only [isort, List.foldr_cons] at ih ⊢
    refine insertQ_sorted deep x _ ?_ (ih tp')
    have hp := isort_perm deep xs
    simp only [isort] at hp
    refine tp.mono ?_
    intro y hy
    rcases List.mem_cons.1 hy with rfl | hy
    · simp
    · exact List.mem_cons_of_mem _ (hp.subset hy)

/-! ### the sorted-zip gate -/

theorem map_eq_of_zipGate {β : Type} (deep : Bool) (f : Quad → β)
    (hf : ∀ a b, cmpQuads deep a b = true → f a = f b) (d1 d2 : List Quad) (hl : d1.length = d2.length)
    (h : zipGate deep d1 d2 = true) : d1.map f = d2.map f := by
  induction d1 generalizing d2 with
  | nil => cases d2 <;> simp_all
  | cons x xs ih =>
    cases d2 with
    | nil => simp at hl
    | cons y ys =>
      simp only [List.length_cons, Nat.add_right_cancel_iff] at hl
      simp only [zipGate, List.zip_cons_cons, List.all_cons, Bool.and_eq_true] at h
      simp only [List.map_cons, hf x y h.1, ih ys hl (by simpa [zipGate] using h.2)]

theorem zipGate_of_map_eq {β : Type} (deep : Bool) (f : Quad → β) (d1 d2 : List Quad)
    (hf : ∀ a ∈ d1, ∀ b ∈ d2, f a = f b → cmpQuads deep a b = true)
    (h : d1.map f = d2.map f) : zipGate deep d1 d2 = true := by
  induction d1 generalizing d2 with
  | nil => simp [zipGate]
  | cons x xs ih =>
    cases d2 with
    | nil => simp [zipGate]
    | cons y ys =>
      simp only [List.map_cons, List.cons.injEq] at h
      have := ih ys (fun a ha b hb => hf a (by simp [ha]) b (by simp [hb])) h.2
      simp only [zipGate, List.zip_cons_cons, List.all_cons, Bool.and_eq_true] at this ⊢
      exact ⟨hf x (by simp) y (by simp) h.1, this⟩

theorem zipGate_symm (deep : Bool) (d1 d2 : List Quad) : zipGate deep d1 d2 = zipGate deep d2 d1 := by
  induction d1 generalizing d2 with
  | nil => cases d2 <;> simp [zipGate]
  | cons x xs ih =>
    cases d2 with
    | nil => simp [zipGate]
    | cons y ys =>
      have := ih ys
      simp only [zipGate, List.zip_cons_cons, List.all_cons] at this ⊢
      rw [this, cmpQuads_symm]

/-! ### canonical ("blanked out") form -/

/-- every blank node label erased, language tags case-folded: two terms have the same canonical form
iff they are equal "once blank nodes are blanked out" -/
def canon (t : Term) : Term := C02.norm (blank true t)

theorem blank_true_blank (deep : Bool) (a : Term) : blank true (blank deep a) = blank true a := by
  induction a with
  | triple s p o ihs ihp iho => cases deep <;> simp [blank, ihs, ihp, iho]
  | _ => simp [blank]

theorem norm_blank_comm (a : Term) : C02.norm (blank true a) = blank true (C02.norm a) := by
  induction a with
  | triple s p o ihs ihp iho => simp [blank, C02.norm, ihs, ihp, iho]
  | _ => simp [blank, C02.norm]

theorem canon_of_isoEq (deep : Bool) (a b : Term) (h : isoEq deep a b = true) : canon a = canon b := by
  rw [isoEq_blank, C02.termEq_iff_norm] at h
  have := congrArg (blank true) h
  rw [← norm_blank_comm, ← norm_blank_comm, blank_true_blank, blank_true_blank] at this
  exact this

theorem isoEq_true_iff_canon (a b : Term) : isoEq true a b = true ↔ canon a = canon b := by
  rw [isoEq_blank, C02.termEq_iff_norm]; rfl

theorem canonQ_of_cmpQuads (deep : Bool) (q1 q2 : Quad) (h : cmpQuads deep q1 q2 = true) :
    mapQ canon q1 = mapQ canon q2 := by
  simp only [cmpQuads, eqTriples, Bool.and_eq_true] at h
  obtain ⟨⟨⟨e1, e2⟩, e3⟩, e4⟩ := h
  simp only [mapQ, canon_of_isoEq _ _ _ e1, canon_of_isoEq _ _ _ e2, canon_of_isoEq _ _ _ e3, Quad.mk.injEq, true_and]
  cases hg1 : q1.g <;> cases hg2 : q2.g <;> simp [hg1, hg2, eqGn] at e4 ⊢
  exact canon_of_isoEq _ _ _ e4

/-! ### `make_b2q_map` -/

/-- every blank node label of the dataset (scan order, with repetitions) -/
def labels (d : List Quad) : List Str := d.flatMap quadBnodes

def look (m : B2Q) (b : Str) : List Nat := (m.lookup b).getD []

def ins (m : B2Q) (L : List Str) (i : Nat) : B2Q := L.foldl (fun m b => b2qInsert m b i) m

/-- positions (from `i`) of the quads mentioning `c` -/
def idxFrom : Nat → List Quad → Str → List Nat
  | _, [], _ => []
  | i, q :: qs, c => (if (quadBnodes q).contains c then [i] else []) ++ idxFrom (i + 1) qs c

/-- the quads mentioning `b`, in order -/
def mentions (d : List Quad) (b : Str) : List Quad := d.filter (fun q => (quadBnodes q).contains b)

theorem setInsert_idem (s : List Nat) (i : Nat) : setInsert (setInsert s i) i = setInsert s i := by
  by_cases h : i ∈ s
  · simp [setInsert, h]
  · simp [setInsert, h]

theorem look_insert (m : B2Q) (b : Str) (i : Nat) (c : Str) :
    look (b2qInsert m b i) c = if c = b then setInsert (look m b) i else look m c := by
  induction m with
  | nil =>
    by_cases hc : c = b
    · subst hc; simp [look, b2qInsert, List.lookup, setInsert]
    · have : (c == b) = false := by simpa using hc
      simp [look, b2qInsert, List.lookup, hc, this]
  | cons kv rest ih =>
    obtain ⟨k, s⟩ := kv
    simp only [b2qInsert]
    by_cases hk : k = b
    · subst hk
      by_cases hc : c = k
      · subst hc; simp [look, List.lookup]
      · have : (c == k) = false := by simpa using hc
        simp [look, List.lookup, hc, this]
    · have hkb : (k == b) = false := by simpa using hk
      simp only [hkb, Bool.false_eq_true, if_false]
      by_cases hck : c = k
      · subst hck
        have : ¬ c = b := hk
        simp [look, List.lookup, this]
      · have h1 : (c == k) = false := by simpa using hck
        have h2 : (b == k) = false := by simpa using fun e : b = k => hk e.symm
        simp only [look, List.lookup, h1, h2] at ih ⊢
        exact ih

theorem keys_insert (m : B2Q) (b : Str) (i : Nat) :
    (b2qInsert m b i).map Prod.fst = if b ∈ m.map Prod.fst then m.map Prod.fst else m.map Prod.fst ++ [b] := by
  induction m with
  | nil => simp [b2qInsert]
  | cons kv rest ih =>
    obtain ⟨k, s⟩ := kv
    simp only [b2qInsert]
    by_cases hk : k = b
    · subst hk; simp
    · have hkb : (k == b) = false := by simpa using hk
      have hbk : ¬ b = k := fun h => hk h.symm
      simp only [hkb, Bool.false_eq_true, if_false, List.map_cons, ih, List.mem_cons, hbk, false_or]
      split <;> simp

theorem look_ins (m : B2Q) (L : List Str) (i : Nat) (c : Str) :
    look (ins m L i) c = if c ∈ L then setInsert (look m c) i else look m c := by
  induction L generalizing m with
  | nil => simp [ins]
  | cons b L ih =>
    simp only [ins, List.foldl_cons] at ih ⊢
    rw [ih, look_insert]
    by_cases hc : c = b
    · subst hc; simp [setInsert_idem]
    · simp [hc]

theorem keys_ins_nodup (m : B2Q) (L : List Str) (i : Nat) (h : (m.map Prod.fst).Nodup) :
    ((ins m L i).map Prod.fst).Nodup := by
  induction L generalizing m with
  | nil => simpa [ins] using h
  | cons b L ih =>
    simp only [ins, List.foldl_cons] at ih ⊢
    apply ih
    rw [keys_insert]
    split
    · exact h
    · rename_i hb
      rw [List.nodup_append]
      refine ⟨h, by simp, ?_⟩
      intro a ha x hx
      simp only [List.mem_singleton] at hx
      subst hx
      intro e; subst e; exact hb ha

theorem mem_keys_ins (m : B2Q) (L : List Str) (i : Nat) (c : Str) :
    c ∈ (ins m L i).map Prod.fst ↔ c ∈ m.map Prod.fst ∨ c ∈ L := by
  induction L generalizing m with
  | nil => simp [ins]
  | cons b L ih =>
    simp only [ins, List.foldl_cons] at ih ⊢
    rw [ih, keys_insert]
    split
    · rename_i hb
      simp only [List.mem_cons]
      constructor
      · rintro (h | h); exact Or.inl h; exact Or.inr (Or.inr h)
      · rintro (h | rfl | h); exact Or.inl h; exact Or.inl hb; exact Or.inr h
    · simp only [List.mem_append, List.mem_cons, List.not_mem_nil, or_false]
      constructor
      · rintro ((h | h) | h); exact Or.inl h; exact Or.inr (Or.inl h); exact Or.inr (Or.inr h)
      · rintro (h | h | h); exact Or.inl (Or.inl h); exact Or.inl (Or.inr h); exact Or.inr h

theorem look_b2qFrom (i : Nat) (qs : List Quad) (m : B2Q) (c : Str) (hlt : ∀ x ∈ look m c, x < i) :
    look (b2qFrom i qs m) c = look m c ++ idxFrom i qs c := by
  induction qs generalizing i m with
  | nil => simp [b2qFrom, idxFrom]
  | cons q qs ih =>
    simp only [b2qFrom, idxFrom]
    have hm : look (ins m (quadBnodes q) i) c =
        look m c ++ (if (quadBnodes q).contains c then [i] else []) := by
      rw [look_ins]
      by_cases hc : c ∈ quadBnodes q
      · have hni : i ∉ look m c := fun hi => Nat.lt_irrefl _ (hlt i hi)
        simp [hc, setInsert, hni]
      · simp [hc]
    have := ih (i + 1) (ins m (quadBnodes q) i) (by
      intro x hx
      rw [hm] at hx
      rcases List.mem_append.1 hx with hx | hx
      · exact Nat.lt_succ_of_lt (hlt x hx)
      · split at hx
        · simp only [List.mem_singleton] at hx; omega
        · simp at hx)
    simp only [ins] at this hm
    rw [this, hm, List.append_assoc]

theorem keys_b2qFrom_nodup (i : Nat) (qs : List Quad) (m : B2Q) (h : (m.map Prod.fst).Nodup) :
    ((b2qFrom i qs m).map Prod.fst).Nodup := by
  induction qs generalizing i m with
  | nil => simpa [b2qFrom] using h
  | cons q qs ih => exact ih _ _ (keys_ins_nodup m _ i h)

theorem mem_keys_b2qFrom (i : Nat) (qs : List Quad) (m : B2Q) (c : Str) :
    c ∈ (b2qFrom i qs m).map Prod.fst ↔ c ∈ m.map Prod.fst ∨ c ∈ labels qs := by
  induction qs generalizing i m with
  | nil => simp [b2qFrom, labels]
  | cons q qs ih =>
    simp only [b2qFrom]
    have := mem_keys_ins m (quadBnodes q) i c
    simp only [ins] at this
    rw [ih, this]
    simp only [labels, List.flatMap_cons, List.mem_append, or_assoc]

/-- the keys of `make_b2q_map(d)` are distinct … -/
theorem keys_makeB2q_nodup (d : List Quad) : ((makeB2q d).map Prod.fst).Nodup :=
  keys_b2qFrom_nodup 0 d [] (by simp)

/-- … and are exactly the blank node labels occurring in `d` (at any depth, graph names included) -/
theorem mem_keys_makeB2q (d : List Quad) (c : Str) : c ∈ (makeB2q d).map Prod.fst ↔ c ∈ labels d := by
  simp [makeB2q, mem_keys_b2qFrom]

/-- the set stored for `c` is the ascending list of positions of the quads mentioning `c` -/
theorem look_makeB2q (d : List Quad) (c : Str) : look (makeB2q d) c = idxFrom 0 d c := by
  have := look_b2qFrom 0 d [] c (by simp [look])
  simpa [makeB2q, look] using this

theorem idxFrom_length (i : Nat) (qs : List Quad) (c : Str) : (idxFrom i qs c).length = (mentions qs c).length := by
  induction qs generalizing i with
  | nil => simp [idxFrom, mentions]
  | cons q qs ih =>
    simp only [idxFrom, mentions, List.length_append, List.filter_cons] at ih ⊢
    by_cases hc : (quadBnodes q).contains c = true
    · simp only [hc, if_true, List.length_cons, List.length_nil, ih]; omega
    · simp only [hc, Bool.false_eq_true, if_false, List.length_nil, ih]; omega

/-! ### `make_map` -/

theorem fold_digest (h : List Ev → UInt64) (m : CMap) (b : Str) (pre qs : List Quad) (acc : UInt64) :
    (idxFrom pre.length qs b).foldl (digestStep h (pre ++ qs) m b) acc =
      ((mentions qs b).map (fun q => hashQuadWith h q m b)).foldl (· ^^^ ·) acc := by
  induction qs generalizing pre acc with
  | nil => simp [idxFrom, mentions]
  | cons q qs ih =>
    have e : pre ++ q :: qs = (pre ++ [q]) ++ qs := by simp
    have hl : (pre ++ [q]).length = pre.length + 1 := by simp
    simp only [idxFrom, mentions, List.filter_cons]
    split
    · rename_i hc
      simp only [List.cons_append, List.nil_append, List.foldl_cons, List.map_cons]
      have hq : digestStep h (pre ++ q :: qs) m b acc pre.length = acc ^^^ hashQuadWith h q m b := by
        simp [digestStep]
      rw [hq, e, ← hl, ih (pre ++ [q])]
      rfl
    · simp only [List.nil_append]
      rw [e, ← hl, ih (pre ++ [q])]
      rfl

theorem lookup_map_entry {β γ : Type} (l : List (Str × β)) (f : Str → β → γ) (b : Str) :
    (l.map (fun kv => (kv.1, f kv.1 kv.2))).lookup b = (l.lookup b).map (f b) := by
  induction l with
  | nil => simp [List.lookup]
  | cons kv rest ih =>
    obtain ⟨k, s⟩ := kv
    simp only [List.map_cons, List.lookup]
    by_cases hk : b = k
    · subst hk; simp
    · have : (b == k) = false := by simpa using hk
      simp [this, ih]

theorem colour_makeMap (h : List Ev → UInt64) (d : List Quad) (b2q : B2Q) (m : CMap) (b : Str) :
    colour (makeMap h d b2q m) b = (look b2q b).foldl (digestStep h d m b) 0 := by
  unfold colour makeMap look
  rw [lookup_map_entry b2q (fun k s => s.foldl (digestStep h d m k) 0) b]
  cases b2q.lookup b <;> simp

/-- the new colour of `b`: XOR of the hashes of the quads mentioning `b` -/
theorem colour_makeMap_makeB2q (h : List Ev → UInt64) (d : List Quad) (m : CMap) (b : Str) :
    colour (makeMap h d (makeB2q d) m) b =
      ((mentions d b).map (fun q => hashQuadWith h q m b)).foldl (· ^^^ ·) 0 := by
  rw [colour_makeMap, look_makeB2q]
  exact fold_digest h m b [] d 0

theorem colour_initMap (b2q : B2Q) (b : Str) : colour (initMap b2q) b = (look b2q b).length.toUInt64 := by
  unfold colour initMap look
  rw [lookup_map_entry b2q (fun _ s => s.length.toUInt64) b]
  cases b2q.lookup b <;> simp

theorem keys_makeMap (h : List Ev → UInt64) (d : List Quad) (b2q : B2Q) (m : CMap) :
    (makeMap h d b2q m).map Prod.fst = b2q.map Prod.fst := by
  simp [makeMap, Function.comp_def]

theorem keys_initMap (b2q : B2Q) : (initMap b2q).map Prod.fst = b2q.map Prod.fst := by
  simp [initMap, Function.comp_def]

/-- in a map with distinct keys the values are the colours of the keys -/
theorem vals_eq_colours (m : CMap) (hn : (m.map Prod.fst).Nodup) :
    m.map Prod.snd = (m.map Prod.fst).map (colour m) := by
  induction m with
  | nil => rfl
  | cons kv rest ih =>
    obtain ⟨k, v⟩ := kv
    simp only [List.map_cons, List.nodup_cons] at hn ⊢
    rw [ih hn.2]
    congr 1
    · simp [colour, List.lookup]
    · apply List.map_congr_left
      intro c hc
      have : ¬ c = k := fun e => hn.1 (e ▸ hc)
      have : (c == k) = false := by simpa using this
      simp [colour, List.lookup, this]

end SophiaProofs.Iso
