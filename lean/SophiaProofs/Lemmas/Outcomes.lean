/-
Assembly: after a successful step 2 (and with IRI predicates) the read-only state of step 5 is
`Closed`, every label listed for step 5 is a label of the dataset, hence step 5 can only fail with
one of the two documented `ToxicGraph` causes, and the canonical issuer only holds labels of the dataset.
-/
import SophiaProofs.Lemmas.NoPanic
import SophiaProofs.Lemmas.Sound

namespace SophiaProofs.Rdfc10L
open SophiaModel SophiaModel.Rdfc10

theorem refsOf_elems (b : Str) (q : Quad) : ∀ x ∈ refsOf b q, x = q := by
  intro x hx
  unfold refsOf refsIn at hx
  obtain ⟨c, _, hcc⟩ := List.mem_filterMap.mp hx
  split at hcc
  · injection hcc with hcc; exact hcc.symm
  · cases hcc

theorem closed_of_step2 {H : Str → Str} {D : List Quad} {b2q : SMap (List Quad)} (h2 : step2 D = .ok b2q)
    (hflag : Gen.predicateMustBeIri = true) (can : Issuer) (td : Nat → Nat → Bool) (pl : Nat) :
    Closed ⟨H, b2q, (step3 H b2q).2, can, td, pl⟩ where
  sorted := (step2_spec h2).1
  rel := by
    intro b qs hb q hq cp hcp x hx
    show (b2q.get x).isSome = true
    have hg := step2_get h2 b
    have hb' : b2q.get b = some qs := hb
    rw [hb'] at hg
    by_cases hnil : D.flatMap (refsOf b) = []
    · rw [if_pos hnil] at hg; cases hg
    · rw [if_neg hnil] at hg
      injection hg with hg
      rw [hg] at hq
      obtain ⟨q0, hq0, hqr⟩ := List.mem_flatMap.mp hq
      have : q = q0 := refsOf_elems b q0 q hqr
      subst this
      have hne : D.flatMap (refsOf x) ≠ [] := (refs_ne_nil_iff D x).mpr ⟨q, hq0, cp, hcp, hx⟩
      rw [step2_get h2 x, if_neg hne]
      rfl
  iri := by
    intro b qs hb q hq
    have hg := step2_get h2 b
    have hb' : b2q.get b = some qs := hb
    rw [hb'] at hg
    by_cases hnil : D.flatMap (refsOf b) = []
    · rw [if_pos hnil] at hg; cases hg
    · rw [if_neg hnil] at hg
      injection hg with hg
      rw [hg] at hq
      obtain ⟨q0, hq0, hqr⟩ := List.mem_flatMap.mp hq
      have : q = q0 := refsOf_elems b q0 q hqr
      subst this
      have hnb : ¬ BadQuad q := by
        intro hbad
        rw [step2_bad ⟨q, hq0, hbad⟩] at h2
        cases h2
      have hp : predicateRejected q.p ≠ true := fun h => hnb (Or.inl h)
      unfold predicateRejected at hp
      rw [hflag] at hp
      cases hqp : q.p with
      | iri p => exact ⟨p, rfl⟩
      | bnode _ => rw [hqp] at hp; simp [isBnode, isIri] at hp
      | lit _ _ => rw [hqp] at hp; simp [isBnode, isIri] at hp
      | lang _ _ => rw [hqp] at hp; simp [isBnode, isIri] at hp
      | triple _ _ _ => rw [hqp] at hp; simp [isBnode, isIri] at hp
      | var _ => rw [hqp] at hp; simp [isBnode, isIri] at hp
  b2h := by
    intro x hx
    show ((step3 H b2q).2.get x).isSome = true
    have hx' : (b2q.get x).isSome = true := hx
    rw [step3_b2h H (step2_spec h2).1 x]
    cases hg : b2q.get x with
    | none => rw [hg] at hx'; cases hx'
    | some _ => rfl

/-- the labels step 3 files under the hashes are keys of `b2q` -/
theorem step3_lists_keys (H : Str → Str) {b2q : SMap (List Quad)} (hs : Sorted b2q) :
    ∀ e ∈ (step3 H b2q).1, ∀ n ∈ e.2, (b2q.get n).isSome = true := by
  have key : ∀ (l : SMap (List Quad)) (acc : SMap (List Str) × SMap Str),
      (∀ e ∈ acc.1, ∀ n ∈ e.2, ∃ e0 ∈ b2q, e0.1 = n) → (∀ e0 ∈ l, e0 ∈ b2q) →
      ∀ e ∈ (l.foldl (fun (acc : SMap (List Str) × SMap Str) (e : Str × List Quad) =>
          let h := hashFirstDegree H e.1 e.2
          (acc.1.upsert h (pushAt e.1), acc.2.upsert e.1 (fun _ => h))) acc).1, ∀ n ∈ e.2, ∃ e0 ∈ b2q, e0.1 = n := by
    intro l
    induction l with
    | nil => intro acc h _; exact h
    | cons e0 l ih =>
      intro acc h hl
      rw [List.foldl_cons]
      apply ih
      · intro e he n hn
        rcases upsert_push_elems _ _ _ e he n hn with rfl | ⟨e', he', hn'⟩
        · exact ⟨e0, hl e0 List.mem_cons_self, rfl⟩
        · exact h e' he' n hn'
      · exact fun e1 he1 => hl e1 (List.mem_cons_of_mem _ he1)
  intro e he n hn
  unfold step3 at he
  obtain ⟨e0, he0, rfl⟩ := key b2q ([], []) (fun _ h => nomatch h) (fun _ h => h) e he n hn
  rw [get_of_mem_sorted b2q hs e0 he0]
  rfl

/-- step 4 keeps the lists and issues only listed labels -/
theorem step4_keys (b2q : SMap (List Quad)) (h2b : SMap (List Str))
    (hh : ∀ e ∈ h2b, ∀ n ∈ e.2, (b2q.get n).isSome = true) (c : Issuer) (hc : CanonKeys b2q c) :
    (∀ e ∈ (step4 h2b c).1, ∀ n ∈ e.2, (b2q.get n).isSome = true) ∧ CanonKeys b2q (step4 h2b c).2 := by
  unfold step4
  have key : ∀ (l : SMap (List Str)) (acc : SMap (List Str) × Issuer),
      (∀ e ∈ l, ∀ n ∈ e.2, (b2q.get n).isSome = true) →
      ((∀ e ∈ acc.1, ∀ n ∈ e.2, (b2q.get n).isSome = true) ∧ CanonKeys b2q acc.2) →
      let r := l.foldl (fun (acc : SMap (List Str) × Issuer) (e : Str × List Str) =>
        if e.2.length > 1 then (acc.1 ++ [e], acc.2)
        else match e.2 with
          | b :: _ => (acc.1, acc.2.issue' b)
          | [] => acc) acc
      (∀ e ∈ r.1, ∀ n ∈ e.2, (b2q.get n).isSome = true) ∧ CanonKeys b2q r.2 := by
    intro l
    induction l with
    | nil => intro acc _ h; exact h
    | cons e l ih =>
      intro acc hl h
      simp only [List.foldl_cons]
      apply ih _ (fun e' he' => hl e' (List.mem_cons_of_mem _ he'))
      split
      · refine ⟨?_, h.2⟩
        intro e' he' n hn
        rcases List.mem_append.mp he' with he' | he'
        · exact h.1 e' he' n hn
        · simp only [List.mem_cons, List.not_mem_nil, or_false] at he'
          rw [he'] at hn
          exact hl e List.mem_cons_self n hn
      · split
        · rename_i b rest hb
          refine ⟨h.1, canonKeys_issue h.2 ?_⟩
          exact hl e List.mem_cons_self b (by rw [hb]; exact List.mem_cons_self)
        · exact h
  exact key h2b ([], c) hh (And.intro (fun _ h => by cases h) hc)

/-- **step 5 after a successful step 2** (IRI predicates): a canonical issuer over labels of the dataset, or
one of the two documented errors -/
theorem step5_after_step2 {H : Str → Str} {D : List Quad} {b2q : SMap (List Quad)} (h2 : step2 D = .ok b2q)
    (hflag : Gen.predicateMustBeIri = true) (td : Nat → Nat → Bool) (pl : Nat) :
    (∃ can, step5 H b2q (step3 H b2q).2 td pl (b2q.length + 1) (canon4 H b2q).1 (canon4 H b2q).2 = .ok can ∧
        CanonKeys b2q can) ∨
      (∃ err, step5 H b2q (step3 H b2q).2 td pl (b2q.length + 1) (canon4 H b2q).1 (canon4 H b2q).2 = .error err ∧
        Good err) := by
  have h4 := step4_keys b2q (step3 H b2q).1 (step3_lists_keys H (step2_spec h2).1) (Issuer.new "c14n".toList)
    (fun _ h => nomatch h)
  exact step5_safe (fun can => closed_of_step2 h2 hflag can td pl) _ h4.1 _ h4.2

end SophiaProofs.Rdfc10L

namespace SophiaProofs.Rdfc10L
open SophiaModel SophiaModel.Rdfc10

theorem relabelWith_hnd_good {H : Str → Str} {td : Nat → Nat → Bool} {pl : Nat} {D : List Quad} {he : HErr}
    (hflag : Gen.predicateMustBeIri = true) (h : relabelWith H td pl D = .error (.hnd he)) : Good he := by
  unfold relabelWith at h
  cases h2 : step2 D with
  | error e =>
    rw [h2, bind_err] at h
    injection h with h
    rw [(step2_err h2).1] at h
    cases h
  | ok b2q =>
    rw [h2, bind_ok] at h
    simp only [] at h
    rcases step5_after_step2 (H := H) h2 hflag td pl with ⟨can, h5, _⟩ | ⟨err, h5, hg⟩
    · unfold canon4 at h5
      rw [h5] at h
      simp only [liftH, bind_ok] at h
      cases hm : D.mapM (convertQuad can.issued) with
      | ok out => rw [hm, bind_ok] at h; cases h
      | error e' =>
        rw [hm, bind_err] at h
        injection h with h
        obtain ⟨q, _, hq⟩ := mapM_error _ _ _ hm
        rw [convertQuad_err hq] at h
        cases h
    · unfold canon4 at h5
      rw [h5] at h
      simp only [liftH, bind_err] at h
      injection h with h
      injection h with h
      rw [← h]
      exact hg

theorem relabelWith_canonKeys {H : Str → Str} {td : Nat → Nat → Bool} {pl : Nat} {D out : List Quad} {m : SMap Str}
    (hflag : Gen.predicateMustBeIri = true) (h : relabelWith H td pl D = .ok (out, m)) :
    ∃ b2q, step2 D = .ok b2q ∧ ∀ b, (m.get b).isSome = true → (b2q.get b).isSome = true := by
  obtain ⟨b2q, can, h2, h5, _, rfl⟩ := relabelWith_ok h
  refine ⟨b2q, h2, ?_⟩
  rcases step5_after_step2 (H := H) h2 hflag td pl with ⟨can', h5', hk⟩ | ⟨err, h5', _⟩
  · rw [h5] at h5'
    injection h5' with h5'
    subst h5'
    have hwf : IssuerWF can := (step5_wf _ _ _ h5 (step4_wf _ _ (wf_new _))).1
    intro b hb
    cases hg : can.issued.get b with
    | none => rw [hg] at hb; cases hb
    | some id => exact hk b (mem_order_of_get hwf hg)
  · rw [h5] at h5'; cases h5'

end SophiaProofs.Rdfc10L
