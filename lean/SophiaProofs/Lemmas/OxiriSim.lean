/-
C09 — oxiri's one-pass resolution (Model/OxiriResolve.lean) against RFC 3986 §5.2 (Model/Resolve3986.lean):
  * `rdsStep` / `rdsLoop_succ` / `rdsLoop_fuel`: §5.2.4 as a step function; the fuel of `removeDotSegments`
    is never exhausted;
  * `sim`: on a base WITH authority, `parse_path::<true>` started on "/" simulates §5.2.4 segment by segment;
  * `ox_abs_path`: hence absolute-path references resolve to the RFC result against any base with authority;
  * `pathLoop_auth_isSome` / `resolve_isSome_of_authority`: with an authority oxiri never reports an error;
  * `ref_no_leading_colon`: no accepted reference starts with ':' (Antimirov derivative of the generated regex).
-/
import SophiaModel.Model.Resolve3986
import SophiaModel.Model.OxiriResolve
import SophiaModel.Model.IriWrapper
import SophiaProofs.Lemmas.Resolve3986

namespace SophiaProofs.OxiriSim
open SophiaModel Rfc3986 OxiriResolve SophiaProofs.Resolve

theorem pathLoop_auth_isSome (inp outR : Str) : (pathLoop true inp outR).isSome = true := by
  induction inp generalizing outR with
  | nil => simp [pathLoop]
  | cons c cs ih =>
    unfold pathLoop
    by_cases h : (c == '/' || c == '?' || c == '#') = true
    · simp only [h, if_true]
      by_cases hd : (!(segEnd true outR).2 && c == '/') = true
      · simp [hd, ih]
      · simp only [hd]
        by_cases hc : (c == '/') = true
        · simp [hc, ih]
        · simp [hc]
    · simp [h, ih]

theorem resolve_isSome_of_authority (b r : Str) (hb : (split b).authority.isSome = true)
    (hr : ∀ t, r ≠ ':' :: t) : (OxiriResolve.resolve b r).isSome = true := by
  unfold OxiriResolve.resolve
  simp only [hb]
  match r, hr with
  | [], _ => simp
  | ':' :: t, hr => exact absurd rfl (hr t)
  | c :: t, hr =>
    have hc : c ≠ ':' := fun h => hr t (by rw [h])
    split
    · rename_i heq; cases heq; exact absurd rfl hc
    · rename_i heq; cases heq
    · split
      · simp
      · split <;> simp [pathLoop_auth_isSome]

open Re in
theorem ref_no_leading_colon (t : List Nat) : ¬ Matches Gen.Iri.IRI_REF_REGEX (58 :: t) := by
  intro h
  have h1 : accepts [Gen.Iri.IRI_REF_REGEX] (58 :: t) := ⟨_, by simp, h⟩
  rw [accepts_cons] at h1
  have e : stepSet 58 [Gen.Iri.IRI_REF_REGEX] = [] := by decide
  rw [e] at h1
  obtain ⟨r, hr, _⟩ := h1
  cases hr

theorem spanNot_snd_len (stops : List Char) (s : Str) : (spanNot stops s).2.length ≤ s.length := by
  induction s with
  | nil => simp [spanNot]
  | cons c cs ih =>
    unfold spanNot
    by_cases h : c ∈ stops
    · simp [h]
    · simp [h]; omega

/-- one step of §5.2.4 as a function of (input, output); `none` when the input is exhausted -/
def rdsStep : Str → Str → Option (Str × Str)
  | [], _ => none
  | '.' :: '.' :: '/' :: r, out => some (r, out)
  | '.' :: '/' :: r, out => some (r, out)
  | '/' :: '.' :: '/' :: r, out => some ('/' :: r, out)
  | ['/', '.'], out => some (['/'], out)
  | '/' :: '.' :: '.' :: '/' :: r, out => some ('/' :: r, dropLastSeg out)
  | ['/', '.', '.'], out => some (['/'], dropLastSeg out)
  | ['.'], out => some ([], out)
  | ['.', '.'], out => some ([], out)
  | '/' :: r, out => some ((spanNot ['/'] r).2, (spanNot ['/'] r).1.reverse ++ '/' :: out)
  | c :: r, out => some ((spanNot ['/'] (c :: r)).2, (spanNot ['/'] (c :: r)).1.reverse ++ out)

theorem rdsLoop_succ (fuel : Nat) (inp out : Str) :
    rdsLoop (fuel + 1) inp out =
      match rdsStep inp out with
      | none => out.reverse
      | some (i, o) => rdsLoop fuel i o := by
  conv => lhs; unfold rdsLoop
  unfold rdsStep
  split <;> simp_all

theorem spanNot_cons_ne (c : Char) (r : Str) (h : c ≠ '/') :
    (spanNot ['/'] (c :: r)).2.length < r.length + 1 := by
  unfold spanNot
  simp [h]
  have := spanNot_snd_len ['/'] r; omega

theorem rdsStep_decreases (inp out i o : Str) (h : rdsStep inp out = some (i, o)) : i.length < inp.length := by
  unfold rdsStep at h
  split at h <;> simp at h <;> obtain ⟨h1, _⟩ := h <;> subst h1 <;> simp
  all_goals first
    | omega
    | exact Nat.lt_succ_of_le (spanNot_snd_len ['/'] _)
    | exact spanNot_cons_ne _ _ (by assumption)

/-- the fuel of `removeDotSegments` is never exhausted: any fuel above the input length gives the
same result -/
theorem rdsLoop_fuel (n m : Nat) (inp out : Str) (hn : inp.length < n) (hm : inp.length < m) :
    rdsLoop n inp out = rdsLoop m inp out := by
  induction n generalizing m inp out with
  | zero => omega
  | succ n ih =>
    cases m with
    | zero => omega
    | succ m =>
      rw [rdsLoop_succ, rdsLoop_succ]
      cases h : rdsStep inp out with
      | none => rfl
      | some p =>
        obtain ⟨i, o⟩ := p
        have := rdsStep_decreases inp out i o h
        exact ih m i o (by omega) (by omega)


def rds (inp out : Str) : Str := rdsLoop (inp.length + 1) inp out

theorem rds_unfold (inp out : Str) :
    rds inp out = match rdsStep inp out with
      | none => out.reverse
      | some (i, o) => rds i o := by
  unfold rds
  rw [rdsLoop_succ]
  cases h : rdsStep inp out with
  | none => rfl
  | some p =>
    obtain ⟨i, o⟩ := p
    have := rdsStep_decreases inp out i o h
    exact rdsLoop_fuel _ _ i o this (by omega)

def NoSep (s : Str) : Prop := ∀ c ∈ s, c ≠ '/' ∧ c ≠ '?' ∧ c ≠ '#'

theorem pathLoop_copy (a : Bool) (seg rest outR : Str) (h : NoSep seg) :
    pathLoop a (seg ++ rest) outR = pathLoop a rest (seg.reverse ++ outR) := by
  induction seg generalizing outR with
  | nil => rfl
  | cons c cs ih =>
    have hc := h c (by simp)
    have hcs : NoSep cs := fun d hd => h d (by simp [hd])
    simp only [List.cons_append]
    rw [pathLoop]
    simp [hc.1, hc.2.1, hc.2.2, ih _ hcs]

theorem spanNot_seg (seg rest : Str) (h : ∀ c ∈ seg, c ≠ '/') (hr : rest = [] ∨ ∃ r, rest = '/' :: r) :
    spanNot ['/'] (seg ++ rest) = (seg, rest) := by
  induction seg with
  | nil =>
    rcases hr with h0 | ⟨r, h0⟩ <;> subst h0 <;> simp [spanNot]
  | cons c cs ih =>
    have hc := h c (by simp)
    have := ih (fun d hd => h d (by simp [hd]))
    simp [spanNot, hc, this]

def NonDot (seg : Str) : Prop := seg ≠ ['.'] ∧ seg ≠ ['.', '.']

theorem rdsStep_seg (seg rest O : Str) (hs : ∀ c ∈ seg, c ≠ '/') (hd : NonDot seg)
    (hr : rest = [] ∨ ∃ r, rest = '/' :: r) :
    rdsStep ('/' :: (seg ++ rest)) O = some (rest, seg.reverse ++ '/' :: O) := by
  have hsp := spanNot_seg seg rest hs hr
  match seg, hs, hd, hsp with
  | [], _, _, hsp =>
    rcases hr with h0 | ⟨r, h0⟩ <;> subst h0 <;> simp [rdsStep, spanNot]
  | [c], hs, hd, hsp =>
    have hc : c ≠ '.' := fun e => hd.1 (by rw [e])
    have hc2 := hs c (by simp)
    rcases hr with h0 | ⟨r, h0⟩ <;> subst h0 <;> simp [rdsStep, spanNot, hc, hc2]
  | c :: d :: s, hs, hd, hsp =>
    have hc2 := hs c (by simp)
    have hd2 := hs d (by simp)
    simp only [List.cons_append] at hsp ⊢
    unfold rdsStep
    split <;> simp_all
    case h_6 =>
      rename_i heq
      obtain ⟨_, _, h3⟩ := heq
      cases s with
      | nil => exact absurd rfl hd.2
      | cons e s' =>
        simp at h3
        exact absurd h3.1 (hs e (by simp))
    case h_7 => exact hd.2 rfl
    case h_11 =>
      rename_i hne heq
      exact absurd heq.1.symm hne

theorem segEnd_nondot_rev (a : Bool) (sR O : Str) (hs : ∀ c ∈ sR, c ≠ '/')
    (h1 : sR ≠ ['.']) (h2 : sR ≠ ['.', '.']) :
    segEnd a (sR ++ '/' :: O) = (sR ++ '/' :: O, false) := by
  match sR, hs, h1, h2 with
  | [], _, _, _ => simp [segEnd]
  | [c], hs, h1, _ =>
    have hc : c ≠ '.' := fun e => h1 (by rw [e])
    simp [segEnd, hc]
  | c :: d :: s, hs, _, h2 =>
    have hd2 := hs d (by simp)
    unfold segEnd
    split
    · rename_i heq
      simp at heq
      obtain ⟨e1, e2, e3⟩ := heq
      cases s with
      | nil => exact absurd (by rw [e1, e2]) h2
      | cons e s' =>
        simp at e3
        exact absurd e3.1 (hs e (by simp))
    · rename_i heq
      simp at heq
      exact absurd heq.2.1 hd2
    · rename_i heq; simp at heq
    · rename_i heq; simp at heq
    · rfl

def Tail (t : Str) : Prop := t = [] ∨ ∃ c r, t = c :: r ∧ (c = '?' ∨ c = '#')

theorem removeLast_true (O : Str) : removeLastSegment true O = '/' :: dropLastSeg O := by
  unfold removeLastSegment dropLastSeg
  rcases SophiaProofs.Resolve.spanNot_rest ['/'] O with h | ⟨c, r, h, hm⟩
  · rw [h]; rfl
  · have : c = '/' := by simpa using hm
    subst this
    rw [h]

theorem pathLoop_tail (X tail : Str) (ht : Tail tail) :
    pathLoop true tail X = some ((segEnd true X).1.reverse, tail) := by
  rcases ht with h | ⟨c, r, h, hc⟩ <;> subst h
  · simp [pathLoop]
  · rcases hc with hc | hc <;> subst hc <;> simp [pathLoop]

theorem pathLoop_slash (X rem : Str) :
    pathLoop true ('/' :: rem) X =
      if (segEnd true X).2 then pathLoop true rem (segEnd true X).1 else pathLoop true rem ('/' :: X) := by
  rw [pathLoop]
  cases h : (segEnd true X).2 <;> simp [h]

theorem rds_nil (X : Str) : rds [] X = X.reverse := by
  rw [rds_unfold]; rfl

theorem spanNot_fst_no_stop (stops : List Char) (s : Str) : ∀ c ∈ (spanNot stops s).1, c ∉ stops := by
  induction s with
  | nil => simp [spanNot]
  | cons d ds ih =>
    unfold spanNot
    by_cases h : d ∈ stops
    · simp [h]
    · simp [h]
      intro c hc
      exact ih c hc

theorem rds_step_eq (inp out i o : Str) (h : rdsStep inp out = some (i, o)) : rds inp out = rds i o := by
  rw [rds_unfold, h]

/-- oxiri's one-pass dot-segment removal on a base WITH authority simulates §5.2.4 -/
theorem sim (n : Nat) : ∀ rp O tail : Str, rp.length ≤ n → (∀ c ∈ rp, c ≠ '?' ∧ c ≠ '#') → Tail tail →
    pathLoop true (rp ++ tail) ('/' :: O) = some (rds ('/' :: rp) O, tail) := by
  induction n with
  | zero =>
    intro rp O tail hl _ ht
    have : rp = [] := List.eq_nil_of_length_eq_zero (by omega)
    subst this
    have h1 : rdsStep ['/'] O = some ([], '/' :: O) := by simp [rdsStep, spanNot]
    rw [List.nil_append, pathLoop_tail _ _ ht, rds_step_eq _ _ _ _ h1, rds_nil]
    simp [segEnd]
  | succ n ih =>
    intro rp O tail hl hq ht
    have happ := spanNot_append ['/'] rp
    have hns := spanNot_fst_no_stop ['/'] rp
    have hrest := SophiaProofs.Resolve.spanNot_rest ['/'] rp
    generalize (spanNot ['/'] rp).1 = seg at happ hns
    generalize (spanNot ['/'] rp).2 = rest at happ hrest
    subst happ
    have hseg : ∀ c ∈ seg, c ≠ '/' := fun c hc => by simpa using hns c hc
    have hsep : NoSep seg := fun c hc => ⟨hseg c hc, hq c (by simp [hc])⟩
    rw [List.append_assoc, pathLoop_copy _ _ _ _ hsep]
    have hrest' : rest = [] ∨ ∃ r, rest = '/' :: r := by
      rcases hrest with h | ⟨c, r, h, hm⟩
      · exact Or.inl h
      · have : c = '/' := by simpa using hm
        subst this; exact Or.inr ⟨r, h⟩
    have hR1 : ['/'] ≠ ([] : Str) := by simp
    by_cases hd1 : seg = ['.']
    · subst hd1
      rcases hrest' with h | ⟨rp', h⟩ <;> subst h
      · have h1 : rdsStep ['/', '.'] O = some (['/'], O) := by simp [rdsStep]
        have h2 : rdsStep ['/'] O = some ([], '/' :: O) := by simp [rdsStep, spanNot]
        rw [List.nil_append, pathLoop_tail _ _ ht]
        simp only [List.append_nil]
        rw [rds_step_eq _ _ _ _ h1, rds_step_eq _ _ _ _ h2, rds_nil]
        simp [segEnd]
      · have h1 : rdsStep ('/' :: '.' :: '/' :: rp') O = some ('/' :: rp', O) := by simp [rdsStep]
        have hl' : rp'.length ≤ n := by simp at hl; omega
        have hq' : ∀ c ∈ rp', c ≠ '?' ∧ c ≠ '#' := fun c hc => hq c (by simp [hc])
        simp only [List.cons_append, List.nil_append, List.reverse_cons, List.reverse_nil]
        rw [pathLoop_slash, rds_step_eq _ _ _ _ h1]
        simpa [segEnd] using ih rp' O tail hl' hq' ht
    · by_cases hd2 : seg = ['.', '.']
      · subst hd2
        rcases hrest' with h | ⟨rp', h⟩ <;> subst h
        · have h1 : rdsStep ['/', '.', '.'] O = some (['/'], dropLastSeg O) := by simp [rdsStep]
          have h2 : rdsStep ['/'] (dropLastSeg O) = some ([], '/' :: dropLastSeg O) := by simp [rdsStep, spanNot]
          rw [List.nil_append, pathLoop_tail _ _ ht]
          simp only [List.append_nil]
          rw [rds_step_eq _ _ _ _ h1, rds_step_eq _ _ _ _ h2, rds_nil]
          simp [segEnd, removeLast_true]
        · have h1 : rdsStep ('/' :: '.' :: '.' :: '/' :: rp') O = some ('/' :: rp', dropLastSeg O) := by simp [rdsStep]
          have hl' : rp'.length ≤ n := by simp at hl; omega
          have hq' : ∀ c ∈ rp', c ≠ '?' ∧ c ≠ '#' := fun c hc => hq c (by simp [hc])
          simp only [List.cons_append, List.nil_append, List.reverse_cons, List.reverse_nil]
          rw [pathLoop_slash, rds_step_eq _ _ _ _ h1]
          simpa [segEnd, removeLast_true] using ih rp' (dropLastSeg O) tail hl' hq' ht
      · have hnd : NonDot seg := ⟨hd1, hd2⟩
        have h1 := rdsStep_seg seg rest O hseg hnd hrest'
        have hsR : ∀ c ∈ seg.reverse, c ≠ '/' := fun c hc => hseg c (by simpa using hc)
        have hr1 : seg.reverse ≠ ['.'] := fun e => hd1 (by simpa using congrArg List.reverse e)
        have hr2 : seg.reverse ≠ ['.', '.'] := fun e => hd2 (by simpa using congrArg List.reverse e)
        have hse := segEnd_nondot_rev true seg.reverse O hsR hr1 hr2
        rw [rds_step_eq _ _ _ _ h1]
        rcases hrest' with h | ⟨rp', h⟩ <;> subst h
        · rw [List.nil_append, pathLoop_tail _ _ ht, rds_nil, hse]
        · have hl' : rp'.length ≤ n := by simp at hl; omega
          have hq' : ∀ c ∈ rp', c ≠ '?' ∧ c ≠ '#' := fun c hc => hq c (by simp [hc])
          simp only [List.cons_append]
          rw [pathLoop_slash, hse]
          simpa using ih rp' (seg.reverse ++ '/' :: O) tail hl' hq' ht

open SophiaProofs.Resolve in
theorem spanNot_prefix (stops : List Char) (p rest : Str) (hp : ∀ c ∈ p, c ∉ stops)
    (hr : rest = [] ∨ ∃ c r, rest = c :: r ∧ c ∈ stops) : spanNot stops (p ++ rest) = (p, rest) := by
  induction p with
  | nil =>
    rcases hr with h | ⟨c, r, h, hc⟩ <;> subst h <;> simp [spanNot, *]
  | cons c cs ih =>
    have hc := hp c (by simp)
    have := ih (fun d hd => hp d (by simp [hd]))
    simp [spanNot, hc, this]

open SophiaProofs.Resolve in
/-- split of an absolute-path reference `/rp tail` -/
theorem split_abs_path (rp tail : Str) (hq : ∀ c ∈ rp, c ≠ '?' ∧ c ≠ '#') (ht : Tail tail)
    (hh : ∀ y, rp ≠ '/' :: y) :
    split ('/' :: rp ++ tail) =
      { scheme := none, authority := none, path := '/' :: rp, query := (queryStep tail).1,
        fragment := fragOf (queryStep tail).2 } := by
  have ht' : tail = [] ∨ ∃ c r, tail = c :: r ∧ c ∈ ['?', '#'] := by
    rcases ht with h | ⟨c, r, h, hc⟩
    · exact Or.inl h
    · exact Or.inr ⟨c, r, h, by rcases hc with e | e <;> simp [e]⟩
  have hp : spanNot ['?', '#'] ('/' :: rp ++ tail) = ('/' :: rp, tail) := by
    have := spanNot_prefix ['?', '#'] ('/' :: rp) tail
      (fun c hc => by
        rcases List.mem_cons.1 hc with e | e
        · subst e; simp
        · have := hq c e; simp [this.1, this.2]) ht'
    simpa using this
  have hs : schemeStep ('/' :: rp ++ tail) = (none, '/' :: rp ++ tail) := by
    simp [schemeStep, spanNot]
  have ha : authStep ('/' :: rp ++ tail) = (none, '/' :: rp ++ tail) := by
    unfold authStep
    split
    · rename_i r heq
      simp at heq
      cases rp with
      | nil =>
        rcases ht with h | ⟨c, r', h, hc⟩ <;> subst h <;> simp at heq
        rcases hc with e | e <;> subst e <;> simp at heq
      | cons d ds =>
        simp at heq
        exact absurd (by rw [heq.1]) (hh ds)
    · rfl
  rw [split_staged]
  simp only [hs, ha, hp]

theorem transform_abs_path (B : Parts) (rp : Str) (q f : Option Str) :
    transform B { scheme := none, authority := none, path := '/' :: rp, query := q, fragment := f } =
      { scheme := B.scheme, authority := B.authority, path := removeDotSegments ('/' :: rp),
        query := q, fragment := f } := by
  simp [transform]

open SophiaProofs.Resolve in
/-- absolute-path references against ANY base that has an authority: the code's algorithm returns
the RFC 3986 §5.2 result -/
theorem ox_abs_path (b rp tail : Str) (hb : (split b).authority.isSome = true)
    (hq : ∀ c ∈ rp, c ≠ '?' ∧ c ≠ '#') (ht : Tail tail) (hh : ∀ y, rp ≠ '/' :: y) :
    OxiriResolve.resolve b ('/' :: rp ++ tail) = some (Rfc3986.resolve b ('/' :: rp ++ tail)) := by
  have hsim := sim rp.length rp [] tail (Nat.le_refl _) hq ht
  have hql : (match (queryStep tail).1 with | some q => '?' :: q | none => []) ++
      showFrag (fragOf (queryStep tail).2) = tail :=
    queryStep_lossless tail (by
      rcases ht with h | ⟨c, r, h, hc⟩
      · exact Or.inl h
      · exact Or.inr ⟨c, r, h, by rcases hc with e | e <;> simp [e]⟩)
  have hns : OxiriResolve.hasScheme ('/' :: rp ++ tail) = false := by
    simp [OxiriResolve.hasScheme, OxiriResolve.isAlpha]
  have hrds : removeDotSegments ('/' :: rp) = rds ('/' :: rp) [] := rfl
  unfold Rfc3986.resolve
  rw [split_abs_path rp tail hq ht hh]
  unfold OxiriResolve.resolve
  simp only [hb, hns]
  have hx : ∀ y, rp ++ tail ≠ '/' :: y := by
    intro y e
    cases rp with
    | nil =>
      rcases ht with h | ⟨c, r, h, hc⟩ <;> subst h <;> simp at e
      rcases hc with e' | e' <;> subst e' <;> simp at e
    | cons d ds =>
      simp at e
      exact hh ds (by rw [e.1])
  rw [transform_abs_path]
  simp only [List.cons_append, recompose, hrds]
  generalize hxe : rp ++ tail = x at hsim hx
  generalize (queryStep tail).fst = qo at hql
  generalize fragOf (queryStep tail).snd = fo at hql
  generalize split b = p
  obtain ⟨sc, au, pa, qu, fr⟩ := p
  cases x with
  | nil =>
    cases sc <;> cases au <;> cases qo <;> cases fo <;> simp [showFrag] at hql <;> subst hql <;> simp [hsim]
  | cons c xs =>
    have hc : c ≠ '/' := fun e => hx xs (by rw [e])
    cases sc <;> cases au <;> cases qo <;> cases fo <;> simp [showFrag] at hql <;> subst hql <;> simp [hsim]

end SophiaProofs.OxiriSim
