/-
Pieces of RDFC-1.0 §4.7 / §4.8 on which the model of the implementation provably does what the
transcription of the Recommendation says: Hash Related Blank Node, and the position of the skip test.
-/
import SophiaProofs.Lemmas.SpecEq

namespace SophiaProofs.SpecL
open SophiaModel SophiaModel.Rdfc10 SophiaProofs.Rdfc10L
open Rdfc10Spec (lookup Deviations IdIssuer State)

/-- **Hash Related Blank Node (4.7.3)**: on an RDF quad, with corresponding issuers and the memoised
first-degree hash, the implementation model hashes exactly the input the Recommendation prescribes —
position; `<predicate>` unless the position is `g`; `_:` + canonical identifier, else `_:` + temporary
identifier, else the first-degree hash -/
theorem hash_related_as_specified (c : Ctx) (st : State) (issuer : Issuer) (sissuer : IdIssuer)
    (related : Str) (q : Quad) (p : Str) (pos : Char) (hq : q.p = .iri p)
    (hcan : lookup related st.canonicalIssuer.issued = c.canonical.get related)
    (hiss : lookup related sissuer.issued = issuer.get related)
    (hb2h : c.b2h.get related = some (Rdfc10Spec.hashFirstDegreeQuads c.H st related)) :
    hashRelated c related q issuer [pos] = .ok (Rdfc10Spec.hashRelatedBlankNode c.H st related q sissuer pos) := by
  unfold hashRelated Rdfc10Spec.hashRelatedBlankNode
  rw [hq, hcan, hiss, hb2h]
  by_cases hg : pos = 'g'
  · subst hg
    simp only [ne_eq, not_true_eq_false, if_false, bind_ok]
    cases c.canonical.get related with
    | some cid => simp [bind_ok]
    | none =>
      cases issuer.get related with
      | some tid => simp [bind_ok]
      | none => simp [bind_ok]
  · have h1 : ([pos] : Str) ≠ ['g'] := by
      intro e; injection e with e _; exact hg e
    simp only [h1, ne_eq, not_false_eq_true, if_true, hg, bind_ok]
    cases c.canonical.get related with
    | some cid => simp [bind_ok]
    | none =>
      cases issuer.get related with
      | some tid => simp [bind_ok]
      | none => simp [bind_ok]

/-! ### where the skip test sits

The Recommendation tests the skip condition after EVERY related node inside 5.4.4, `rdfc10.rs` once
after the loop.  The condition is monotone in the appended suffix, so a path that would be skipped
early is also skipped at the end (and conversely the end is one of the tested prefixes). -/

theorem cmpStr_lt_append_right : ∀ (a b s : Str), cmpStr a b = .lt → a.length ≤ b.length → cmpStr a (b ++ s) = .lt
  | [], [], _, h, _ => by simp [cmpStr] at h
  | [], _ :: _, _, _, _ => rfl
  | _ :: _, [], _, h, _ => by simp [cmpStr] at h
  | x :: a, y :: b, s, h, hl => by
    simp only [List.cons_append, cmpStr] at h ⊢
    by_cases h1 : x.toNat < y.toNat
    · simp [h1]
    · by_cases h2 : y.toNat < x.toNat
      · simp [h1, h2] at h
      · simp only [h1, h2, if_false] at h ⊢
        exact cmpStr_lt_append_right a b s h (by simpa using hl)

/-- once the skip rule of 5.4.4.3 fires on a prefix of the path it fires on every extension -/
theorem skip_rule_monotone (chosen path suffix : Str)
    (h : Rdfc10Spec.skipRule Deviations.none chosen path = true) :
    Rdfc10Spec.skipRule Deviations.none chosen (path ++ suffix) = true := by
  unfold Rdfc10Spec.skipRule at h ⊢
  simp only [Deviations.none, Bool.false_eq_true, if_false, Bool.and_eq_true, decide_eq_true_eq] at h ⊢
  obtain ⟨⟨h1, h2⟩, h3⟩ := h
  refine ⟨⟨h1, by rw [List.length_append]; omega⟩, ?_⟩
  exact (cpLess_iff _ _).mpr (cmpStr_lt_append_right _ _ _ ((cpLess_iff _ _).mp h3) h2)

end SophiaProofs.SpecL
