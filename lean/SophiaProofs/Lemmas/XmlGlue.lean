/-
Helper lemmas for C18 (escaping, line-end normalisation, `split_iri`, indentation).
-/
import SophiaModel.Model.XmlGlue

namespace SophiaProofs.XmlGlueL
open SophiaModel SophiaModel.XmlGlue

/-! ## escaping -/

def isSpecial (c : Char) : Bool := c == '<' || c == '>' || c == '&' || c == '\'' || c == '"'

theorem escChar_plain (c : Char) (h : isSpecial c = false) : escChar c = [c] := by
  simp only [isSpecial, Bool.or_eq_false_iff, beq_eq_false_iff_ne, ne_eq] at h
  obtain ⟨⟨⟨⟨h1, h2⟩, h3⟩, h4⟩, h5⟩ := h
  unfold escChar
  split <;> simp_all

theorem escChar_cases (c : Char) :
    (c = '<' ∧ escChar c = "&lt;".toList) ∨ (c = '>' ∧ escChar c = "&gt;".toList) ∨
    (c = '&' ∧ escChar c = "&amp;".toList) ∨ (c = '\'' ∧ escChar c = "&apos;".toList) ∨
    (c = '"' ∧ escChar c = "&quot;".toList) ∨ (isSpecial c = false ∧ escChar c = [c]) := by
  by_cases h : isSpecial c = true
  · simp only [isSpecial, Bool.or_eq_true, beq_iff_eq] at h
    rcases h with (((h | h) | h) | h) | h <;> subst h <;> simp [escChar]
  · have h' : isSpecial c = false := by simpa using h
    exact Or.inr (Or.inr (Or.inr (Or.inr (Or.inr ⟨h', escChar_plain c h'⟩))))

theorem escape_nil : escape [] = [] := rfl
theorem escape_cons (c : Char) (s : Str) : escape (c :: s) = escChar c ++ escape s := by
  simp [escape]
theorem escape_append (a b : Str) : escape (a ++ b) = escape a ++ escape b := by
  simp [escape]

theorem unescape_cons_ne (c : Char) (r : Str) (h : c ≠ '&') :
    unescape (c :: r) = (unescape r).map (c :: ·) := by
  simp only [unescape]
  rw [unescapeFrom.eq_def]
  split <;> simp_all

theorem unescape_nil : unescape [] = some [] := rfl

theorem unescape_escChar (c : Char) (r : Str) :
    unescape (escChar c ++ r) = (unescape r).map (c :: ·) := by
  rcases escChar_cases c with ⟨h, e⟩ | ⟨h, e⟩ | ⟨h, e⟩ | ⟨h, e⟩ | ⟨h, e⟩ | ⟨h, e⟩
  · subst h; rw [e]; simp [unescape, unescapeFrom]
  · subst h; rw [e]; simp [unescape, unescapeFrom]
  · subst h; rw [e]; simp [unescape, unescapeFrom]
  · subst h; rw [e]; simp [unescape, unescapeFrom]
  · subst h; rw [e]; simp [unescape, unescapeFrom]
  · rw [e]
    have : c ≠ '&' := by
      intro hc; subst hc; simp [isSpecial] at h
    simpa using unescape_cons_ne c r this

/-- generalised round trip: whatever follows the escaped text -/
theorem unescape_escape_append (s r : Str) :
    unescape (escape s ++ r) = (unescape r).map (s ++ ·) := by
  induction s with
  | nil => simp [escape]
  | cons c s ih =>
    rw [escape_cons, List.append_assoc, unescape_escChar, ih]
    cases unescape r <;> simp

theorem unescape_escape (s : Str) : unescape (escape s) = some s := by
  have := unescape_escape_append s []
  simpa [unescape_nil] using this

theorem unescape_plain (s : Str) (h : ∀ c ∈ s, c ≠ '&') : unescape s = some s := by
  induction s with
  | nil => rfl
  | cons c s ih =>
    rw [unescape_cons_ne c s (h c (by simp)), ih (fun d hd => h d (by simp [hd]))]
    rfl

/-- the escaped text contains none of `< > " '`, and its `&` only start entities -/
theorem escChar_clean (c d : Char) (h : d ∈ escChar c) : d ≠ '<' ∧ d ≠ '>' ∧ d ≠ '"' ∧ d ≠ '\'' := by
  rcases escChar_cases c with ⟨_, e⟩ | ⟨_, e⟩ | ⟨_, e⟩ | ⟨_, e⟩ | ⟨_, e⟩ | ⟨hs, e⟩
  all_goals rw [e] at h
  · simp at h; rcases h with h | h | h | h <;> subst h <;> decide
  · simp at h; rcases h with h | h | h | h <;> subst h <;> decide
  · simp at h; rcases h with h | h | h | h | h <;> subst h <;> decide
  · simp at h; rcases h with h | h | h | h | h | h <;> subst h <;> decide
  · simp at h; rcases h with h | h | h | h | h | h <;> subst h <;> decide
  · simp at h; subst h
    simp only [isSpecial, Bool.or_eq_false_iff, beq_eq_false_iff_ne, ne_eq] at hs
    obtain ⟨⟨⟨⟨h1, h2⟩, _⟩, h4⟩, h5⟩ := hs
    exact ⟨h1, h2, h5, h4⟩

theorem escape_clean (s : Str) (d : Char) (h : d ∈ escape s) : d ≠ '<' ∧ d ≠ '>' ∧ d ≠ '"' ∧ d ≠ '\'' := by
  simp only [escape, List.mem_flatMap] at h
  obtain ⟨c, _, hc⟩ := h
  exact escChar_clean c d hc

/-! ## XML 1.0 normalisations commute with escaping -/

theorem escChar_cr : escChar '\r' = ['\r'] := by decide
theorem escChar_lf : escChar '\n' = ['\n'] := by decide

theorem lineEnd_cons_ne (c : Char) (r : Str) (h : c ≠ '\r') : lineEnd (c :: r) = c :: lineEnd r :=
  lineEnd.eq_4 c r (fun _ hc _ => h hc) (fun hc => h hc)

theorem lineEnd_cr_lf (r : Str) : lineEnd ('\r' :: '\n' :: r) = '\n' :: lineEnd r := by
  simp [lineEnd]

theorem lineEnd_cr_ne (r : Str) (h : ∀ t, r ≠ '\n' :: t) : lineEnd ('\r' :: r) = '\n' :: lineEnd r :=
  lineEnd.eq_3 r (fun t ht => h t ht)

theorem lineEnd_escChar_ne_cr (c : Char) (r : Str) (h : c ≠ '\r') :
    lineEnd (escChar c ++ r) = escChar c ++ lineEnd r := by
  rcases escChar_cases c with ⟨_, e⟩ | ⟨_, e⟩ | ⟨_, e⟩ | ⟨_, e⟩ | ⟨_, e⟩ | ⟨_, e⟩
  · rw [e]; simp [lineEnd_cons_ne]
  · rw [e]; simp [lineEnd_cons_ne]
  · rw [e]; simp [lineEnd_cons_ne]
  · rw [e]; simp [lineEnd_cons_ne]
  · rw [e]; simp [lineEnd_cons_ne]
  · rw [e]; simp [lineEnd_cons_ne c _ h]

theorem escape_head_lf (r t : Str) (h : escape r = '\n' :: t) : ∃ r', r = '\n' :: r' := by
  cases r with
  | nil => simp [escape] at h
  | cons d r' =>
    rw [escape_cons] at h
    rcases escChar_cases d with ⟨_, e⟩ | ⟨_, e⟩ | ⟨_, e⟩ | ⟨_, e⟩ | ⟨_, e⟩ | ⟨_, e⟩ <;> rw [e] at h <;>
      simp at h
    exact ⟨r', by rw [h.1]⟩

theorem lineEnd_escape (s : Str) : lineEnd (escape s) = escape (lineEnd s) := by
  induction s with
  | nil => simp [lineEnd, escape]
  | cons c r ih =>
    by_cases hc : c = '\r'
    · subst hc
      rw [escape_cons, escChar_cr]
      simp only [List.cons_append, List.nil_append]
      by_cases hr : ∃ r', r = '\n' :: r'
      · obtain ⟨r', rfl⟩ := hr
        rw [escape_cons, escChar_lf] at ih ⊢
        simp only [List.cons_append, List.nil_append] at ih ⊢
        rw [lineEnd_cons_ne _ _ (by decide), lineEnd_cons_ne _ _ (by decide), escape_cons, escChar_lf] at ih
        rw [lineEnd_cr_lf, lineEnd_cr_lf, escape_cons, escChar_lf]
        simpa using ih
      · have h1 : ∀ t, r ≠ '\n' :: t := fun t ht => hr ⟨t, ht⟩
        have h2 : ∀ t, escape r ≠ '\n' :: t := fun t ht => hr (escape_head_lf r t ht)
        rw [lineEnd_cr_ne _ h1, lineEnd_cr_ne _ h2, escape_cons, escChar_lf, ih]; rfl
    · rw [escape_cons, lineEnd_escChar_ne_cr c _ hc, lineEnd_cons_ne c r hc, escape_cons, ih]

theorem lineEnd_id (s : Str) (h : ∀ c ∈ s, c ≠ '\r') : lineEnd s = s := by
  induction s with
  | nil => rfl
  | cons c r ih =>
    rw [lineEnd_cons_ne c r (h c (by simp)), ih (fun d hd => h d (by simp [hd]))]

theorem lineEnd_no_cr (s : Str) : ∀ c ∈ lineEnd s, c ≠ '\r' := by
  induction s with
  | nil => simp [lineEnd]
  | cons c r ih =>
    by_cases hc : c = '\r'
    · subst hc
      by_cases hr : ∃ r', r = '\n' :: r'
      · obtain ⟨r', rfl⟩ := hr
        rw [lineEnd_cr_lf]
        rw [lineEnd_cons_ne _ _ (by decide)] at ih
        exact ih
      · rw [lineEnd_cr_ne _ (fun t ht => hr ⟨t, ht⟩)]
        intro d hd
        simp at hd
        rcases hd with rfl | hd
        · decide
        · exact ih d hd
    · rw [lineEnd_cons_ne c r hc]
      intro d hd
      simp at hd
      rcases hd with rfl | hd
      · exact hc
      · exact ih d hd

/-! attribute-value normalisation -/

def isAttrWs (c : Char) : Bool := c == '\t' || c == '\n' || c == '\r'

theorem attrNorm_escChar (c : Char) :
    attrNorm (escChar c) = escChar (if isAttrWs c then ' ' else c) := by
  rcases escChar_cases c with ⟨h, e⟩ | ⟨h, e⟩ | ⟨h, e⟩ | ⟨h, e⟩ | ⟨h, e⟩ | ⟨hs, e⟩
  · subst h; decide
  · subst h; decide
  · subst h; decide
  · subst h; decide
  · subst h; decide
  · rw [e]
    by_cases hw : isAttrWs c = true
    · simp only [hw, if_true]
      simp only [isAttrWs, Bool.or_eq_true, beq_iff_eq] at hw
      rcases hw with (h | h) | h <;> subst h <;> decide
    · have hw' : isAttrWs c = false := by simpa using hw
      simp only [hw', Bool.false_eq_true, if_false, e]
      simp only [isAttrWs] at hw'
      simp only [attrNorm, List.map_cons, List.map_nil, hw', Bool.false_eq_true, if_false]

theorem attrNorm_append (a b : Str) : attrNorm (a ++ b) = attrNorm a ++ attrNorm b := by
  simp [attrNorm]

theorem attrNorm_cons (c : Char) (r : Str) :
    attrNorm (c :: r) = (if isAttrWs c then ' ' else c) :: attrNorm r := by
  simp [attrNorm, isAttrWs]

theorem attrNorm_escape (s : Str) : attrNorm (escape s) = escape (attrNorm s) := by
  induction s with
  | nil => rfl
  | cons c r ih =>
    rw [escape_cons, attrNorm_append, attrNorm_escChar, ih, attrNorm_cons, escape_cons]

theorem attrNorm_id (s : Str) (h : ∀ c ∈ s, isAttrWs c = false) : attrNorm s = s := by
  induction s with
  | nil => rfl
  | cons c r ih =>
    rw [attrNorm_cons, ih (fun d hd => h d (by simp [hd])), h c (by simp)]; rfl

/-! ## `split_iri` -/

theorem span_loop {α} (p : α → Bool) (l acc : List α) :
    List.span.loop p l acc = (acc.reverse ++ l.takeWhile p, l.dropWhile p) := by
  induction l generalizing acc with
  | nil => simp [List.span.loop]
  | cons a l ih =>
    simp only [List.span.loop]
    cases h : p a
    · simp [List.takeWhile_cons, List.dropWhile_cons, h]
    · simp [List.takeWhile_cons, List.dropWhile_cons, h, ih]

theorem span_eq {α} (p : α → Bool) (l : List α) : l.span p = (l.takeWhile p, l.dropWhile p) := by
  simp [List.span, span_loop]

theorem mem_takeWhile {α} (p : α → Bool) (l : List α) : ∀ x ∈ l.takeWhile p, p x = true := by
  induction l with
  | nil => simp
  | cons a l ih =>
    intro x hx
    rw [List.takeWhile_cons] at hx
    cases h : p a
    · simp [h] at hx
    · simp [h] at hx
      rcases hx with rfl | hx
      · exact h
      · exact ih x hx

theorem break_not_localStart (c : Char) (h : isBreak c = true) : isLocalStart c = false := by
  simp only [isBreak, isLocalStart, isNameChar] at *
  by_cases hc : c = ':'
  · subst hc; decide
  · simp [hc] at h ⊢
    simp [h.1]

theorem nonbreak_namechar (c : Char) (h : isBreak c = false) : (isNameChar c && c != ':') = true := by
  simp only [isBreak, Bool.or_eq_false_iff] at h
  simp at h
  simp [h.1, h.2]

theorem splitIri_valid (p ns loc : Str) (h : splitIri p = (ns, loc)) (hl : loc ≠ []) :
    isNCName loc = true ∧ ns ++ loc = p := by
  unfold splitIri at h
  rw [span_eq] at h
  have hp : p.reverse = p.reverse.takeWhile (fun c => !isBreak c) ++ p.reverse.dropWhile (fun c => !isBreak c) :=
    List.takeWhile_append_dropWhile.symm
  have htail := mem_takeWhile (fun c => !isBreak c) p.reverse
  have hbrk := @List.head_dropWhile_not _ (fun c => !isBreak c) p.reverse
  generalize p.reverse.takeWhile (fun c => !isBreak c) = tailRev at h hp htail
  generalize p.reverse.dropWhile (fun c => !isBreak c) = rest at h hp hbrk
  cases rest with
  | nil => simp at h; exact (hl h.2).elim
  | cons b headRev =>
    have hb : isBreak b = true := by simpa using hbrk (by simp)
    simp only at h
    rw [span_eq] at h
    have hbs : (fun c => !isLocalStart c) b = true := by simp [break_not_localStart b hb]
    rw [List.takeWhile_cons, List.dropWhile_cons] at h
    simp only [hbs, if_true] at h
    have hsplit := @List.takeWhile_append_dropWhile _ (fun c => !isLocalStart c) tailRev.reverse
    have hsuf := @List.dropWhile_suffix _ tailRev.reverse (fun c => !isLocalStart c)
    have hhead := @List.head_dropWhile_not _ (fun c => !isLocalStart c) tailRev.reverse
    generalize tailRev.reverse.takeWhile (fun c => !isLocalStart c) = pre at h hsplit
    generalize tailRev.reverse.dropWhile (fun c => !isLocalStart c) = loc' at h hsplit hsuf hhead
    cases loc' with
    | nil => simp at h; exact (hl h.2).elim
    | cons d ds =>
      simp only [Prod.mk.injEq] at h
      obtain ⟨rfl, rfl⟩ := h
      constructor
      · have hd : isLocalStart d = true := by simpa using hhead (by simp)
        have hall : ∀ x ∈ d :: ds, (isNameChar x && x != ':') = true := by
          intro x hx
          have hx' : x ∈ tailRev := by simpa using hsuf.subset hx
          exact nonbreak_namechar x (by simpa using htail x hx')
        simp only [isNCName, Bool.and_eq_true, List.all_eq_true]
        simp only [isLocalStart, Bool.and_eq_true] at hd
        exact ⟨⟨hd.1, hd.2⟩, fun x hx => by simpa using hall x (by simp [hx])⟩
      · have : p = (tailRev ++ b :: headRev).reverse := by rw [← hp, List.reverse_reverse]
        rw [this]
        simp only [List.reverse_append, List.reverse_cons, List.append_assoc, List.cons_append, List.nil_append]
        rw [← hsplit]

theorem dropWhile_nil_all {α} (q : α → Bool) (l : List α) (h : l.dropWhile q = []) : ∀ x ∈ l, q x = true := by
  induction l with
  | nil => simp
  | cons a l ih =>
    rw [List.dropWhile_cons] at h
    cases ha : q a
    · simp [ha] at h
    · simp [ha] at h
      intro x hx
      simp at hx
      rcases hx with rfl | hx
      · exact ha
      · exact ih h x hx

theorem takeWhile_all {α} (q : α → Bool) (l : List α) (h : ∀ x ∈ l, q x = true) : l.takeWhile q = l := by
  induction l with
  | nil => rfl
  | cons a l ih =>
    rw [List.takeWhile_cons, h a (by simp), if_pos rfl, ih (fun x hx => h x (by simp [hx]))]

theorem takeWhile_append_all {α} (q : α → Bool) (a c : List α) (h : ∀ x ∈ a, q x = true) :
    (a ++ c).takeWhile q = a ++ c.takeWhile q := by
  induction a with
  | nil => rfl
  | cons x a ih =>
    simp only [List.cons_append, List.takeWhile_cons, h x (by simp), if_true]
    rw [ih (fun y hy => h y (by simp [hy]))]

/-- no break character at all (impossible for an absolute IRI, which contains `:`) -/
theorem splitIri_no_break (p : Str) (h : ∀ c ∈ p, isBreak c = false) : splitIri p = (p, []) := by
  unfold splitIri
  rw [span_eq]
  have : p.reverse.takeWhile (fun c => !isBreak c) = p.reverse :=
    takeWhile_all _ _ (fun x hx => by simp [h x (by simpa using hx)])
  have h2 : p.reverse.dropWhile (fun c => !isBreak c) = [] := by
    have := @List.takeWhile_append_dropWhile _ (fun c => !isBreak c) p.reverse
    rw [‹p.reverse.takeWhile _ = _›] at this
    simpa using this
  rw [h2]

theorem ncname_chars (loc : Str) (h : isNCName loc = true) :
    ∃ d ds, loc = d :: ds ∧ isLocalStart d = true ∧ ∀ x ∈ d :: ds, isBreak x = false := by
  cases loc with
  | nil => simp [isNCName] at h
  | cons d ds =>
    simp only [isNCName, Bool.and_eq_true, List.all_eq_true] at h
    obtain ⟨⟨h1, h2⟩, h3⟩ := h
    refine ⟨d, ds, rfl, by simp [isLocalStart, h1, h2], ?_⟩
    intro x hx
    simp at hx
    rcases hx with rfl | hx
    · simp only [isBreak, isNameChar, h1, Bool.true_or, Bool.not_true, Bool.false_or]
      simpa using h2
    · have := h3 x hx
      simp only [isBreak, this.1, Bool.not_true, Bool.false_or]
      simpa using this.2

/-- **characterisation of the predicates that get the pseudo element name `prop:`**: exactly
those no suffix of which is an NCName -/
theorem splitIri_local_nil_iff (p : Str) (hb : ∃ c ∈ p, isBreak c = true) :
    (splitIri p).2 = [] ↔ ∀ ns loc, p = ns ++ loc → isNCName loc = false := by
  constructor
  · intro h ns loc hp
    cases hnc : isNCName loc with
    | false => rfl
    | true =>
      exfalso
      obtain ⟨d, ds, rfl, hd, hall⟩ := ncname_chars loc hnc
      unfold splitIri at h
      rw [span_eq] at h
      have hrev : p.reverse = (d :: ds).reverse ++ ns.reverse := by rw [hp]; simp
      have htw : p.reverse.takeWhile (fun c => !isBreak c)
          = (d :: ds).reverse ++ ns.reverse.takeWhile (fun c => !isBreak c) := by
        rw [hrev]
        exact takeWhile_append_all _ _ _ (fun x hx => by simp [hall x (List.mem_reverse.mp hx)])
      rw [htw] at h
      have hdrop : p.reverse.dropWhile (fun c => !isBreak c) ≠ [] := by
        intro hnil
        obtain ⟨c, hc, hcb⟩ := hb
        have := dropWhile_nil_all _ _ hnil c (by simpa using hc)
        simp [hcb] at this
      generalize p.reverse.dropWhile (fun c => !isBreak c) = rest at h hdrop
      cases rest with
      | nil => exact hdrop rfl
      | cons b headRev =>
        simp only at h
        rw [span_eq] at h
        generalize hloc : (b :: ((d :: ds).reverse ++ ns.reverse.takeWhile (fun c => !isBreak c)).reverse).dropWhile
          (fun c => !isLocalStart c) = loc' at h
        cases loc' with
        | nil =>
          have := dropWhile_nil_all _ _ hloc d (by simp)
          simp [hd] at this
        | cons e es => simp at h
  · intro h
    cases hl : (splitIri p).2 with
    | nil => rfl
    | cons d ds =>
      exfalso
      have hv := splitIri_valid p (splitIri p).1 (splitIri p).2 rfl (by rw [hl]; simp)
      have := h _ _ hv.2.symm
      rw [hv.1] at this
      exact Bool.noConfusion this

/-! ## the formatter's refusals -/

def isTripleS : RSubject → Bool
  | .triple _ => true
  | _ => false
def isTripleO : RObject → Bool
  | .triple _ => true
  | _ => false

theorem isTripleO_ite (c : Prop) [Decidable c] (v d : Str) :
    isTripleO (if c then RObject.simple v else RObject.typed v d) = false := by
  split <;> rfl

theorem openDesc_isSome (cur : Option Owned) (s : RSubject) : (openDesc cur s).isSome = !isTripleS s := by
  cases s <;> rcases cur with _ | ⟨c | c⟩ <;> simp only [openDesc, sameSubject, isTripleS] <;>
    (try split) <;> simp <;> split <;> simp

theorem propEvs_isSome (p : Str) (o : RObject) : (propEvs p o).isSome = !isTripleO o := by
  cases o <;> simp [propEvs, isTripleO]

/-- the formatter fails exactly on quoted triples (subject or object), whatever its state -/
theorem formatTriple_isSome (cur : Option Owned) (s : RSubject) (p : Str) (o : RObject) :
    (formatTriple cur (.mk s p o)).isSome = (!isTripleS s && !isTripleO o) := by
  rw [← openDesc_isSome cur s, ← propEvs_isSome p o]
  simp only [formatTriple]
  cases openDesc cur s <;> cases propEvs p o <;> simp


end SophiaProofs.XmlGlueL
