/-
C17 lemma library, part 8: the octets of every Lean `String` (`ofUtf8`) have the UTF-8 shape `utf8Shaped 0` that the
boundary / same-document / input-side theorems assume.  Uses core's explicit description of `String.utf8EncodeChar`.
-/
import SophiaModel.Model.Relativize

namespace SophiaProofs.Relativize
open SophiaModel SophiaModel.Relativize

def toC (b : UInt8) : Char := Char.ofNat b.toNat

theorem toNat_toC (b : UInt8) : (toC b).toNat = b.toNat := by
  have h : b.toNat < 256 := b.toNat_lt
  have hv : b.toNat.isValidChar := by left; omega
  unfold toC
  simp [Char.ofNat, hv, Char.ofNatAux, Char.toNat]

theorem or80 : ∀ y, y < 64 → (y ||| 0x80) = y + 0x80 := by decide
theorem orC0 : ∀ y, y < 32 → (y ||| 0xC0) = y + 0xC0 := by decide
theorem orE0 : ∀ y, y < 16 → (y ||| 0xE0) = y + 0xE0 := by decide
theorem orF0 : ∀ y, y < 8 → (y ||| 0xF0) = y + 0xF0 := by decide

theorem cont_byte (x : UInt8) : isCont (toC (x &&& 0x3f ||| 0x80)) = true := by
  unfold isCont
  rw [toNat_toC]
  have h : (x &&& 0x3f ||| 0x80).toNat = (x.toNat &&& 0x3f) ||| 0x80 := by simp
  have h2 : x.toNat &&& 0x3f < 64 := Nat.lt_succ_of_le Nat.and_le_right
  rw [h, or80 _ h2]
  simp; omega


theorem cont_not_lead {c : Char} (h : isCont c = true) (p : Nat) : utf8Next (p + 1) c = some p := by
  simp [utf8Next, h]

theorem lead2 (x : UInt8) : contCount (toC (x &&& 0x1f ||| 0xc0)) = some 1 := by
  unfold contCount
  rw [toNat_toC]
  have h : (x &&& 0x1f ||| 0xc0).toNat = (x.toNat &&& 0x1f) ||| 0xc0 := by simp
  have h2 : x.toNat &&& 0x1f < 32 := Nat.lt_succ_of_le Nat.and_le_right
  rw [h, orC0 _ h2]
  have : ¬ (x.toNat &&& 0x1f) + 0xc0 < 0x80 := by omega
  have : ¬ (x.toNat &&& 0x1f) + 0xc0 < 0xC0 := by omega
  have : (x.toNat &&& 0x1f) + 0xc0 < 0xE0 := by omega
  simp [*]

theorem lead3 (x : UInt8) : contCount (toC (x &&& 0x0f ||| 0xe0)) = some 2 := by
  unfold contCount
  rw [toNat_toC]
  have h : (x &&& 0x0f ||| 0xe0).toNat = (x.toNat &&& 0x0f) ||| 0xe0 := by simp
  have h2 : x.toNat &&& 0x0f < 16 := Nat.lt_succ_of_le Nat.and_le_right
  rw [h, orE0 _ h2]
  have : ¬ (x.toNat &&& 0x0f) + 0xe0 < 0x80 := by omega
  have : ¬ (x.toNat &&& 0x0f) + 0xe0 < 0xC0 := by omega
  have : ¬ (x.toNat &&& 0x0f) + 0xe0 < 0xE0 := by omega
  have : (x.toNat &&& 0x0f) + 0xe0 < 0xF0 := by omega
  simp [*]

theorem lead4 (x : UInt8) : contCount (toC (x &&& 0x07 ||| 0xf0)) = some 3 := by
  unfold contCount
  rw [toNat_toC]
  have h : (x &&& 0x07 ||| 0xf0).toNat = (x.toNat &&& 0x07) ||| 0xf0 := by simp
  have h2 : x.toNat &&& 0x07 < 8 := Nat.lt_succ_of_le Nat.and_le_right
  rw [h, orF0 _ h2]
  have : ¬ (x.toNat &&& 0x07) + 0xf0 < 0x80 := by omega
  have : ¬ (x.toNat &&& 0x07) + 0xf0 < 0xC0 := by omega
  have : ¬ (x.toNat &&& 0x07) + 0xf0 < 0xE0 := by omega
  have : ¬ (x.toNat &&& 0x07) + 0xf0 < 0xF0 := by omega
  have : (x.toNat &&& 0x07) + 0xf0 < 0xF8 := by omega
  simp [*]

theorem lead1 (c : Char) (h : c.utf8Size = 1) : contCount (toC c.val.toUInt8) = some 0 := by
  unfold contCount
  rw [toNat_toC]
  have h1 : c.val ≤ 127 := Char.utf8Size_eq_one_iff.mp h
  have h2 : c.val.toNat ≤ 127 := by
    have := UInt32.le_iff_toNat_le.mp h1
    simpa using this
  have h3 : c.val.toUInt8.toNat = c.val.toNat % 256 := UInt32.toNat_toUInt8 _
  have h4 : c.val.toUInt8.toNat < 0x80 := by rw [h3]; omega
  simp only [h4, if_true]

/-- the encoding of one character, seen as octets, takes the shape automaton from state 0 back to state 0 -/
theorem shaped_char_append (c : Char) (r : Octets) :
    utf8Shaped 0 ((String.utf8EncodeChar c).map toC ++ r) = utf8Shaped 0 r := by
  rcases c.utf8Size_eq with h | h | h | h
  · rw [String.utf8EncodeChar_eq_singleton h]
    simp only [List.map_cons, List.map_nil, List.cons_append, List.nil_append]
    rw [utf8Shaped]; simp only [utf8Next, lead1 c h]
  · rw [String.utf8EncodeChar_eq_cons_cons h]
    simp only [List.map_cons, List.map_nil, List.cons_append, List.nil_append]
    rw [utf8Shaped]; simp only [utf8Next, lead2]
    rw [utf8Shaped]; simp only [cont_not_lead (cont_byte _)]
  · rw [String.utf8EncodeChar_eq_cons_cons_cons h]
    simp only [List.map_cons, List.map_nil, List.cons_append, List.nil_append]
    rw [utf8Shaped]; simp only [utf8Next, lead3]
    rw [utf8Shaped]; simp only [cont_not_lead (cont_byte _)]
    rw [utf8Shaped]; simp only [cont_not_lead (cont_byte _)]
  · rw [String.utf8EncodeChar_eq_cons_cons_cons_cons h]
    simp only [List.map_cons, List.map_nil, List.cons_append, List.nil_append]
    rw [utf8Shaped]; simp only [utf8Next, lead4]
    rw [utf8Shaped]; simp only [cont_not_lead (cont_byte _)]
    rw [utf8Shaped]; simp only [cont_not_lead (cont_byte _)]
    rw [utf8Shaped]; simp only [cont_not_lead (cont_byte _)]

theorem shaped_chars (l : List Char) : utf8Shaped 0 ((l.flatMap String.utf8EncodeChar).map toC) = true := by
  induction l with
  | nil => rfl
  | cons c l ih =>
    rw [List.flatMap_cons, List.map_append, shaped_char_append]
    exact ih

/-- the octets of EVERY string have the shape assumed by the UTF-8 theorems -/
theorem utf8Shaped_ofUtf8 (s : String) : utf8Shaped 0 (ofUtf8 s) = true := by
  unfold ofUtf8
  have h : s.toUTF8 = (s.toList.flatMap String.utf8EncodeChar).toByteArray := by
    show s.toByteArray = _
    conv => lhs; rw [← String.ofList_toList (s := s), String.toByteArray_ofList]
    rfl
  rw [h, List.data_toByteArray]
  exact shaped_chars s.toList

end SophiaProofs.Relativize
