/-
Lemma library for C17 (relativize): inversion of the model's branches, structure of
`Relativizer.new`, `spanNot`/`split`/`recompose` facts, `removeDotSegments` on clean paths.
-/
import SophiaModel.Model.Relativize

namespace SophiaProofs.Relativize
open SophiaModel SophiaModel.Rfc3986 SophiaModel.Relativize

/-! ## inversion of `relativize` -/

theorem withSlice_some {iri : Octets} {k : Nat} {f : Octets → Outcome} {ins t} :
    withSlice iri k f = .some ins t ↔ ∃ u, sliceFrom iri k = some u ∧ f u = .some ins t := by
  unfold withSlice
  cases h : sliceFrom iri k <;> simp

theorem sliceFrom_some {iri : Octets} {k : Nat} {t} (h : sliceFrom iri k = some t) : t = iri.drop k := by
  unfold sliceFrom at h
  split at h
  · injection h with h; exact h.symm
  · cases h

/-- the four ways `pathBranch` returns a reference -/
theorem pathBranch_cases {R : Relativizer} {iri : Octets} {l : Nat} {ins t}
    (h : pathBranch R iri l = .some ins t) :
    l ≥ R.pseudoroot ∧
    ( (∃ slash, firstBelow l R.slashes 0 = some (0, slash) ∧ sliceFrom iri (slash + 1) = some t ∧
        ins = (if iri.length = slash + 1 || startsQH t then Ins.dotSlash else Ins.nothing))
    ∨ (∃ nb slash, nb ≠ 0 ∧ firstBelow l R.slashes 0 = some (nb, slash) ∧ sliceFrom iri (slash + 1) = some t ∧
        ins = .up nb)
    ∨ (firstBelow l R.slashes 0 = none ∧ R.slashes = [] ∧ ∃ t1, sliceFrom iri (R.pseudoroot - 1) = some t1 ∧
        sliceFrom iri R.pseudoroot = some t ∧
        ins = (if startsSlash t1 && (iri.length = R.pseudoroot || startsQH t) then Ins.dotSlash else Ins.nothing))
    ∨ (firstBelow l R.slashes 0 = none ∧ R.slashes ≠ [] ∧ sliceFrom iri R.pseudoroot = some t ∧
        ins = .up R.slashes.length) ) := by
  unfold pathBranch at h
  split at h
  · rename_i hl
    refine ⟨hl, ?_⟩
    split at h
    · rename_i nb slash hfb
      split at h
      · rename_i hnb
        subst hnb
        left
        rw [withSlice_some] at h
        obtain ⟨u, hu, hf⟩ := h
        refine ⟨slash, hfb, ?_⟩
        split at hf <;> (injection hf with h1 h2; subst h1; subst h2; simp_all)
      · rename_i hnb
        right; left
        rw [withSlice_some] at h
        obtain ⟨u, hu, hf⟩ := h
        injection hf with h1 h2; subst h1; subst h2
        exact ⟨nb, slash, hnb, hfb, hu, rfl⟩
    · rename_i hfb
      split at h
      · rename_i hemp
        right; right; left
        rw [withSlice_some] at h
        obtain ⟨t1, ht1, h⟩ := h
        rw [withSlice_some] at h
        obtain ⟨u, hu, hf⟩ := h
        refine ⟨hfb, by simpa using hemp, t1, ht1, ?_⟩
        split at hf <;> (injection hf with h1 h2; subst h1; subst h2; simp_all)
      · rename_i hemp
        right; right; right
        rw [withSlice_some] at h
        obtain ⟨u, hu, hf⟩ := h
        injection hf with h1 h2; subst h1; subst h2
        exact ⟨hfb, by simpa using hemp, hu, rfl⟩
  · cases h

/-- the ways `relativize` returns a reference -/
theorem relativize_cases {R : Relativizer} {iri : Octets} {ins t}
    (h : relativize R iri = .some ins t) :
    (ins = .nothing ∧ lcp R.base iri ≥ R.query_end ∧ sliceFrom iri R.query_end = some t)
    ∨ (ins = .nothing ∧ lcp R.base iri < R.query_end ∧ lcp R.base iri > R.path_end ∧ sliceFrom iri R.path_end = some t)
    ∨ (ins = .nothing ∧ lcp R.base iri < R.query_end ∧ lcp R.base iri = R.path_end ∧ sliceFrom iri R.path_end = some t ∧
        (iri.length = R.path_end ∨ startsQH t = true))
    ∨ (lcp R.base iri < R.query_end ∧ lcp R.base iri ≤ R.path_end ∧
        (lcp R.base iri = R.path_end → ∃ u, sliceFrom iri R.path_end = some u ∧ iri.length ≠ R.path_end ∧ startsQH u = false) ∧
        pathBranch R iri (lcp R.base iri) = .some ins t) := by
  unfold relativize at h
  simp only at h
  split at h
  · rename_i h1
    left
    rw [withSlice_some] at h
    obtain ⟨u, hu, hf⟩ := h
    injection hf with a b; subst a; subst b
    exact ⟨rfl, h1, hu⟩
  · rename_i h1
    have h1' : lcp R.base iri < R.query_end := by omega
    split at h
    · rename_i h2
      right; left
      rw [withSlice_some] at h
      obtain ⟨u, hu, hf⟩ := h
      injection hf with a b; subst a; subst b
      exact ⟨rfl, h1', h2, hu⟩
    · rename_i h2
      split at h
      · rename_i h3
        rw [withSlice_some] at h
        obtain ⟨u, hu, hf⟩ := h
        split at hf
        · rename_i h4
          right; right; left
          injection hf with a b; subst a; subst b
          refine ⟨rfl, h1', h3, hu, ?_⟩
          simpa using h4
        · rename_i h4
          right; right; right
          refine ⟨h1', by omega, fun _ => ⟨u, hu, ?_, ?_⟩, hf⟩
          · intro hc; apply h4; simp [hc]
          · cases hq : startsQH u
            · rfl
            · exfalso; apply h4; simp [hq]
      · rename_i h3
        right; right; right
        exact ⟨h1', by omega, fun hc => absurd hc h3, h⟩

/-! ## `firstBelow`, `slashLoop`, fields of `new` -/

theorem firstBelow_bounds {l : Nat} {sl : List Nat} {i nb slash : Nat}
    (h : firstBelow l sl i = some (nb, slash)) :
    i ≤ nb ∧ nb < i + sl.length ∧ sl[nb - i]? = some slash ∧ l > slash ∧
      ∀ j, j < nb - i → ∀ s, sl[j]? = some s → ¬ l > s := by
  induction sl generalizing i with
  | nil => simp [firstBelow] at h
  | cons s rest ih =>
    unfold firstBelow at h
    split at h
    · rename_i hl
      injection h with h; injection h with h1 h2; subst h1; subst h2
      simp [hl]
    · rename_i hl
      obtain ⟨a, b, c, d, e⟩ := ih h
      refine ⟨by omega, by simp; omega, ?_, d, ?_⟩
      · have : nb - i = (nb - (i + 1)) + 1 := by omega
        rw [this]; simpa using c
      · intro j hj s' hs'
        cases j with
        | zero => simp at hs'; subst hs'; exact hl
        | succ j => simp at hs'; exact e j (by omega) s' hs'

theorem firstBelow_none {l : Nat} {sl : List Nat} {i : Nat} (h : firstBelow l sl i = none) :
    ∀ s ∈ sl, ¬ l > s := by
  induction sl generalizing i with
  | nil => simp
  | cons s rest ih =>
    unfold firstBelow at h
    split at h
    · cases h
    · rename_i hl
      intro s' hs'
      simp at hs'
      rcases hs' with rfl | hs'
      · exact hl
      · exact ih h s' hs'

theorem slashLoop_length (s : Octets) (pb iters pos : Nat) (acc : List Nat) :
    (slashLoop s pb iters pos acc).length ≤ acc.length + iters := by
  induction iters generalizing pos acc with
  | zero => simp [slashLoop]
  | succ k ih =>
    unfold slashLoop
    simp only
    split
    · have := ih ((rfind '/' (slice s pb pos)).getD 0 + pb) (acc ++ [(rfind '/' (slice s pb pos)).getD 0 + pb])
      simp at this; omega
    · omega

theorem finish_slashes_length (base : Octets) (qe pe pb n : Nat) (sl : List Nat) (h : sl.length ≤ n + 1) :
    (finish base qe pe pb n sl).slashes.length ≤ n := by
  unfold finish
  simp only
  split
  · simp; omega
  · split <;> (simp; omega)

theorem new_slashes_length (base : Octets) (n : Nat) : (new base n).slashes.length ≤ n := by
  unfold new
  simp only
  apply finish_slashes_length
  have := slashLoop_length base (pathBegin (split base)) (n + 1)
    (pathEnd base (pathBegin (split base) + (split base).path.length)
      (queryEnd base (pathBegin (split base) + (split base).path.length))) []
  simpa using this

/-- `relativize` inserts at most `parents` "../" -/
theorem inserted_le {base : Octets} {n : Nat} {iri : Octets} {k : Nat} {t : Octets}
    (h : relativize (new base n) iri = .some (.up k) t) : 1 ≤ k ∧ k ≤ n := by
  have hlen := new_slashes_length base n
  rcases relativize_cases h with ⟨h1, _⟩ | ⟨h1, _⟩ | ⟨h1, _⟩ | ⟨_, _, _, hp⟩
  · cases h1
  · cases h1
  · cases h1
  · obtain ⟨_, hc⟩ := pathBranch_cases hp
    rcases hc with ⟨slash, _, _, hi⟩ | ⟨nb, slash, hnb, hfb, _, hi⟩ | ⟨_, _, t1, _, _, hi⟩ | ⟨_, hne, _, hi⟩
    · split at hi <;> cases hi
    · injection hi with hi; subst hi
      have := firstBelow_bounds hfb
      omega
    · split at hi <;> cases hi
    · injection hi with hi; subst hi
      refine ⟨?_, hlen⟩
      cases hs : (new base n).slashes with
      | nil => exact absurd hs hne
      | cons a b => simp

/-! ## panics -/

/-- every index `relativize` may slice the IRI at -/
def sliceIndices (R : Relativizer) : List Nat :=
  [R.query_end, R.path_end, R.pseudoroot, R.pseudoroot - 1] ++ R.slashes.map (· + 1)

theorem withSlice_ne_panic {iri : Octets} {k : Nat} {f : Octets → Outcome}
    (hb : isCharBoundary iri k = true) (hf : ∀ u, f u ≠ .panic) : withSlice iri k f ≠ .panic := by
  unfold withSlice sliceFrom
  simp [hb]
  exact hf _

theorem firstBelow_mem {l : Nat} {sl : List Nat} {i nb slash : Nat} (h : firstBelow l sl i = some (nb, slash)) :
    slash ∈ sl ∧ l > slash := by
  obtain ⟨_, _, hget, hgt, _⟩ := firstBelow_bounds h
  exact ⟨List.mem_of_getElem? hget, hgt⟩

/-- all slices are taken inside the common prefix: if every slice index that lies within the common
prefix is a char boundary of the IRI, `relativize` does not panic -/
theorem no_panic (R : Relativizer) (iri : Octets)
    (h : ∀ k ∈ sliceIndices R, k ≤ lcp R.base iri → isCharBoundary iri k = true) :
    relativize R iri ≠ .panic := by
  have hqe := h R.query_end (by simp [sliceIndices])
  have hpe := h R.path_end (by simp [sliceIndices])
  have hpr := h R.pseudoroot (by simp [sliceIndices])
  have hpr1 := h (R.pseudoroot - 1) (by simp [sliceIndices])
  have hsl : ∀ s ∈ R.slashes, s + 1 ≤ lcp R.base iri → isCharBoundary iri (s + 1) = true := by
    intro s hs; apply h; simp only [sliceIndices, List.mem_append, List.mem_map]; right; exact ⟨s, hs, rfl⟩
  have hpath : ∀ l, l = lcp R.base iri → pathBranch R iri l ≠ .panic := by
    intro l hl
    unfold pathBranch
    split
    · rename_i hge
      split
      · rename_i nb slash hfb
        obtain ⟨hm, hgt⟩ := firstBelow_mem hfb
        have hb := hsl slash hm (by omega)
        split
        · apply withSlice_ne_panic hb; intro u; split <;> simp
        · apply withSlice_ne_panic hb; intro u; simp
      · split
        · apply withSlice_ne_panic (hpr1 (by omega)); intro u
          apply withSlice_ne_panic (hpr (by omega)); intro u; split <;> simp
        · apply withSlice_ne_panic (hpr (by omega)); intro u; simp
    · simp
  unfold relativize
  simp only
  split
  · rename_i h1
    apply withSlice_ne_panic (hqe h1); intro u; simp
  · split
    · rename_i h2
      apply withSlice_ne_panic (hpe (by omega)); intro u; simp
    · split
      · rename_i h3
        apply withSlice_ne_panic (hpe (by omega)); intro u
        split
        · simp
        · exact hpath _ rfl
      · exact hpath _ rfl

end SophiaProofs.Relativize
