/-
Bulk operations (`insert_all`, `remove_all`, `remove_matching`, `retain_matching`) and whole
operation histories of `SophiaModel.Store`, lifted from the single-operation lemmas of
`StoreMut` / `StoreQuery`: the model refines the specification "a plain list of quads without
`Term::eq`-duplicates" (`Store.Spec`).
-/
import SophiaProofs.Lemmas.StoreQuery

namespace SophiaProofs.StoreP
open SophiaModel SophiaModel.Term SophiaModel.Store
open SophiaProofs.C02 (termEq_refl termEq_symm termEq_trans)

/-! ## 1. matchers cannot tell `Term::eq`-equal terms apart -/

theorem termEq_congr_right {a b : Term} (x : Term) (h : termEq a b = true) :
    termEq x a = termEq x b := by
  rw [Bool.eq_iff_iff]
  constructor
  · intro hx; exact termEq_trans _ _ _ hx h
  · intro hx; exact termEq_trans _ _ _ hx (by rw [termEq_symm]; exact h)

theorem gnameEq_congr_right {a b : GName} (x : GName) (h : gnameEq a b = true) :
    gnameEq x a = gnameEq x b := by
  rw [Bool.eq_iff_iff]
  constructor
  · intro hx; exact gnameEq_trans _ _ _ hx h
  · intro hx; exact gnameEq_trans _ _ _ hx (by rw [gnameEq_symm]; exact h)

theorem termEq_kind {a b : Term} (h : termEq a b = true) : a.kind = b.kind := by
  cases a <;> cases b <;> simp_all [termEq, Term.kind]

theorem termEq_datatype {a b : Term} (h : termEq a b = true) : a.datatype = b.datatype := by
  cases a <;> cases b <;> simp_all [termEq, Term.datatype]

theorem tagEq_length {t1 t2 : Str} (h : tagEq t1 t2 = true) : t1.length = t2.length := by
  have := congrArg List.length (eq_of_beq (show (foldTag t1 == foldTag t2) = true from h))
  simpa [foldTag] using this

theorem tagEq_congr_left {t1 t2 : Str} (tag : Str) (h : tagEq t1 t2 = true) :
    tagEq t1 tag = tagEq t2 tag := by
  have := eq_of_beq (show (foldTag t1 == foldTag t2) = true from h)
  unfold tagEq; rw [this]

theorem termEq_weight : ∀ {a b : Term}, termEq a b = true → a.weight = b.weight := by
  intro a
  induction a with
  | iri s => intro b h; cases b <;> simp_all [termEq, Term.weight]
  | bnode s => intro b h; cases b <;> simp_all [termEq, Term.weight]
  | var s => intro b h; cases b <;> simp_all [termEq, Term.weight]
  | lit l dt => intro b h; cases b <;> simp_all [termEq, Term.weight]
  | lang l t =>
    intro b h
    cases b <;> simp [termEq] at h
    obtain ⟨rfl, ht⟩ := h
    simp [Term.weight, tagEq_length ht]
  | triple s p o ihs ihp iho =>
    intro b h
    cases b <;> simp [termEq] at h
    obtain ⟨⟨h1, h2⟩, h3⟩ := h
    simp [Term.weight, ihs h1, ihp h2, iho h3]

theorem TM.matches_congr : ∀ (m : TM) {a b : Term}, termEq a b = true → m.matches a = m.matches b := by
  intro m
  induction m with
  | any => intros; rfl
  | opt o =>
    intro a b h
    cases o with
    | none => rfl
    | some x => exact termEq_congr_right x h
  | arr ts =>
    intro a b h
    simp only [TM.matches]
    congr 1
    funext m
    exact termEq_congr_right m h
  | kind k => intro a b h; simp only [TM.matches, termEq_kind h]
  | not m ih => intro a b h; simp only [TM.matches, ih h]
  | dt dtIri => intro a b h; simp only [TM.matches, termEq_datatype h]
  | lang tag =>
    intro a b h
    cases a <;> cases b <;> simp [termEq] at h <;> simp only [TM.matches]
    exact tagEq_congr_left tag h.2
  | tri sm pm om ihs ihp iho =>
    intro a b h
    cases a <;> cases b <;> simp [termEq] at h <;> simp only [TM.matches]
    obtain ⟨⟨h1, h2⟩, h3⟩ := h
    rw [ihs h1, ihp h2, iho h3]
  | fn par => intro a b h; simp only [TM.matches, termEq_weight h]

theorem GM.matches_congr : ∀ (m : GM) {a b : GName}, gnameEq a b = true → m.matches a = m.matches b := by
  intro m
  induction m with
  | any => intros; rfl
  | opt o =>
    intro a b h
    cases o with
    | none => rfl
    | some x => exact gnameEq_congr_right x h
  | arr gs =>
    intro a b h
    simp only [GM.matches]
    congr 1
    funext m
    exact gnameEq_congr_right m h
  | kind k =>
    intro a b h
    cases a <;> cases b <;> simp [gnameEq] at h <;> simp only [GM.matches, Option.map]
    rw [termEq_kind h]
  | not m ih => intro a b h; simp only [GM.matches, ih h]
  | tri o =>
    intro a b h
    cases a <;> cases b <;> simp [gnameEq] at h
    · rfl
    · rename_i x y
      cases o with
      | none => rfl
      | some t =>
        obtain ⟨sm, pm, om⟩ := t
        cases x <;> cases y <;> simp [termEq] at h <;> simp only [GM.matches]
        obtain ⟨⟨h1, h2⟩, h3⟩ := h
        rw [TM.matches_congr sm h1, TM.matches_congr pm h2, TM.matches_congr om h3]
  | fn par =>
    intro a b h
    cases a <;> cases b <;> simp [gnameEq] at h <;> simp only [GM.matches]
    rw [termEq_weight h]
  | gn m =>
    intro a b h
    cases a <;> cases b <;> simp [gnameEq] at h <;> simp only [GM.matches]
    exact TM.matches_congr m h

/-- a predicate on quads that cannot tell `Term::eq`-equal quads apart -/
def Resp (f : Quad → Bool) : Prop := ∀ a b, quadEq a b = true → f a = f b

theorem quadEq_parts {a b : Quad} (h : quadEq a b = true) :
    gnameEq (some a.s) (some b.s) = true ∧ gnameEq (some a.p) (some b.p) = true ∧
      gnameEq (some a.o) (some b.o) = true ∧ gnameEq a.g b.g = true := by
  simp only [quadEq, Bool.and_eq_true] at h
  exact ⟨h.1.1.1, h.1.1.2, h.1.2, h.2⟩

/-- **`quadMatched` respects `Term::eq`** (for every store arity and every pattern) -/
theorem quadMatched_resp (n : Nat) (p : Pat) : Resp (quadMatched n p) := by
  intro a b h
  obtain ⟨hs, hp, ho, hg⟩ := quadEq_parts h
  by_cases h4 : n = 4
  · simp only [quadMatched, quadNames, h4, if_true, List.zipIdx_cons, List.zipIdx_nil, List.all_cons,
      List.all_nil]
    rw [GM.matches_congr _ hs, GM.matches_congr _ hp, GM.matches_congr _ ho, GM.matches_congr _ hg]
  · simp only [quadMatched, quadNames, h4, if_false, List.zipIdx_cons, List.zipIdx_nil, List.all_cons,
      List.all_nil]
    rw [GM.matches_congr _ hs, GM.matches_congr _ hp, GM.matches_congr _ ho]

theorem quadEq_congr_left {a b : Quad} (q : Quad) (h : quadEq a b = true) : quadEq a q = quadEq b q := by
  rw [Bool.eq_iff_iff]
  constructor
  · intro hx; exact quadEq_trans _ _ _ (by rw [quadEq_symm]; exact h) hx
  · intro hx; exact quadEq_trans _ _ _ h hx

theorem quadEq_congr_right {a b : Quad} (q : Quad) (h : quadEq a b = true) : quadEq q a = quadEq q b := by
  rw [quadEq_symm q a, quadEq_symm q b]; exact quadEq_congr_left q h

theorem qmem_congr {a b : Quad} (d : List Quad) (h : quadEq a b = true) : qmem a d = qmem b d := by
  unfold qmem
  congr 1
  funext x
  exact quadEq_congr_right x h

theorem resp_not_quadEq (q : Quad) : Resp (fun x => !quadEq x q) := by
  intro a b h; simp only [quadEq_congr_left q h]

theorem resp_not_qmem (d : List Quad) : Resp (fun x => !qmem x d) := by
  intro a b h; simp only [qmem_congr d h]

theorem Resp.not {f : Quad → Bool} (hf : Resp f) : Resp (fun x => !f x) := by
  intro a b h; simp only [hf a b h]

/-! ## 2. algebra of `SameSet` -/

theorem SameSet.refl (a : List Quad) : SameSet a a := fun _ => rfl
theorem SameSet.symm {a b : List Quad} (h : SameSet a b) : SameSet b a := fun q => (h q).symm
theorem SameSet.trans {a b c : List Quad} (h1 : SameSet a b) (h2 : SameSet b c) : SameSet a c :=
  fun q => (h1 q).trans (h2 q)
theorem SameSet.of_eq {a b : List Quad} (h : a = b) : SameSet a b := h ▸ SameSet.refl a

theorem qmem_nil (x : Quad) : qmem x [] = false := rfl

theorem qmem_append (x : Quad) (a b : List Quad) : qmem x (a ++ b) = (qmem x a || qmem x b) := by
  simp [qmem]

theorem SameSet.cons (q : Quad) {a b : List Quad} (h : SameSet a b) : SameSet (q :: a) (q :: b) :=
  fun x => by rw [qmem_cons, qmem_cons, h x]

theorem SameSet.append_left (l : List Quad) {a b : List Quad} (h : SameSet a b) :
    SameSet (l ++ a) (l ++ b) :=
  fun x => by rw [qmem_append, qmem_append, h x]

theorem qmem_filter {f : Quad → Bool} (hf : Resp f) (y : Quad) :
    ∀ a : List Quad, qmem y (a.filter f) = (f y && qmem y a)
  | [] => by simp [qmem]
  | x :: a => by
    have ih := qmem_filter hf y a
    rw [List.filter_cons]
    cases hxy : quadEq x y with
    | false =>
      cases hfx : f x with
      | false => simp [qmem_cons, hxy, ih]
      | true => simp [qmem_cons, hxy, ih]
    | true =>
      have := hf x y hxy
      cases hfx : f x with
      | false => rw [hfx] at this; simp [qmem_cons, hxy, ih, ← this]
      | true => rw [hfx] at this; simp [qmem_cons, hxy, ← this]

theorem SameSet.filter {f : Quad → Bool} (hf : Resp f) {a b : List Quad} (h : SameSet a b) :
    SameSet (a.filter f) (b.filter f) :=
  fun x => by rw [qmem_filter hf, qmem_filter hf, h x]

theorem SameSet.filter_congr {f g : Quad → Bool} (hf : Resp f) (hg : Resp g) {a : List Quad}
    (h : ∀ y, qmem y a = true → f y = g y) : SameSet (a.filter f) (a.filter g) := by
  intro y
  rw [qmem_filter hf, qmem_filter hg]
  cases hy : qmem y a with
  | false => simp
  | true => rw [h y hy]

theorem NodupQ.nodup : ∀ {l : List Quad}, NodupQ l → l.Nodup
  | [], _ => List.nodup_nil
  | q :: l, h => by
    rw [List.nodup_cons]
    refine ⟨fun hm => ?_, NodupQ.nodup h.2⟩
    have := qmem_false_iff.1 h.1 q hm
    rw [quadEq_refl] at this
    cases this

theorem NodupQ.filter (f : Quad → Bool) : ∀ {l : List Quad}, NodupQ l → NodupQ (l.filter f)
  | [], _ => trivial
  | q :: l, h => by
    rw [List.filter_cons]
    have ih := NodupQ.filter f h.2
    split
    · refine ⟨?_, ih⟩
      rw [qmem_false_iff]
      intro x hx
      exact qmem_false_iff.1 h.1 x (List.mem_filter.1 hx).1
    · exact ih

/-! ## 3. the specification of the bulk operations -/

/-- `insert_all` on the specification: fold `Spec.insert`, count the effective insertions -/
def specInsertAll (d : List Quad) : List Quad → Nat → List Quad × Nat
  | [], c => (d, c)
  | q :: qs, c =>
    let (d', b) := Spec.insert d q
    specInsertAll d' qs (if b then c + 1 else c)

/-- `remove_all` on the specification: fold `Spec.remove`, count the effective removals -/
def specRemoveAll (d : List Quad) : List Quad → Nat → List Quad × Nat
  | [], c => (d, c)
  | q :: qs, c =>
    let (d', b) := Spec.remove d q
    specRemoveAll d' qs (if b then c + 1 else c)

theorem specInsertAll_cons (d : List Quad) (q : Quad) (qs : List Quad) (c : Nat) :
    specInsertAll d (q :: qs) c =
      specInsertAll (Spec.insert d q).1 qs (if (Spec.insert d q).2 then c + 1 else c) := rfl

theorem specRemoveAll_cons (d : List Quad) (q : Quad) (qs : List Quad) (c : Nat) :
    specRemoveAll d (q :: qs) c =
      specRemoveAll (Spec.remove d q).1 qs (if (Spec.remove d q).2 then c + 1 else c) := rfl

theorem removeAll_cons (s : St) (q : Quad) (qs : List Quad) (c : Nat) :
    removeAll s (q :: qs) c =
      removeAll (Store.remove s q).1 qs (if (Store.remove s q).2 then c + 1 else c) := rfl

/-- the counter is a pure accumulator -/
theorem specInsertAll_count (d : List Quad) : ∀ (qs : List Quad) (c : Nat),
    (specInsertAll d qs c).1 = (specInsertAll d qs 0).1 ∧
    (specInsertAll d qs c).2 = c + (specInsertAll d qs 0).2 := by
  intro qs
  induction qs generalizing d with
  | nil => intro c; exact ⟨rfl, rfl⟩
  | cons q qs ih =>
    intro c
    rw [specInsertAll_cons, specInsertAll_cons]
    cases (Spec.insert d q).2 with
    | false => exact ih _ c
    | true =>
      have h1 := ih (Spec.insert d q).1 (c + 1)
      have h2 := ih (Spec.insert d q).1 (0 + 1)
      simp only [if_true]
      exact ⟨h1.1.trans h2.1.symm, by rw [h1.2, h2.2]; omega⟩

theorem specRemoveAll_count (d : List Quad) : ∀ (qs : List Quad) (c : Nat),
    (specRemoveAll d qs c).1 = (specRemoveAll d qs 0).1 ∧
    (specRemoveAll d qs c).2 = c + (specRemoveAll d qs 0).2 := by
  intro qs
  induction qs generalizing d with
  | nil => intro c; exact ⟨rfl, rfl⟩
  | cons q qs ih =>
    intro c
    rw [specRemoveAll_cons, specRemoveAll_cons]
    cases (Spec.remove d q).2 with
    | false => exact ih _ c
    | true =>
      have h1 := ih (Spec.remove d q).1 (c + 1)
      have h2 := ih (Spec.remove d q).1 (0 + 1)
      simp only [if_true]
      exact ⟨h1.1.trans h2.1.symm, by rw [h1.2, h2.2]; omega⟩

/-- `Spec.insert` on two representations of the same set -/
theorem spec_insert_fst {a t : List Quad} (h : SameSet a t) (q : Quad) :
    SameSet (q :: a) (Spec.insert t q).1 := by
  intro x
  have hdef : Spec.insert t q = if qmem q t = true then (t, false) else (t ++ [q], true) := rfl
  rw [hdef, qmem_cons, h x]
  cases hq : qmem q t with
  | true =>
    simp only [if_true]
    cases hqx : quadEq q x with
    | false => rfl
    | true => rw [← qmem_congr t hqx, hq]; rfl
  | false =>
    simp only [Bool.false_eq_true, if_false]
    rw [qmem_append, qmem_cons, qmem_nil, Bool.or_false, Bool.or_comm]

theorem spec_insert_snd {a t : List Quad} (h : SameSet a t) (q : Quad) :
    (Spec.insert t q).2 = !qmem q a := by
  have hdef : Spec.insert t q = if qmem q t = true then (t, false) else (t ++ [q], true) := rfl
  rw [hdef, h q]
  cases qmem q t <;> rfl

theorem spec_remove_fst {a t : List Quad} (h : SameSet a t) (q : Quad) :
    SameSet (a.filter (fun x => !quadEq x q)) (Spec.remove t q).1 := by
  have hdef : Spec.remove t q =
      if qmem q t = true then (t.filter (fun x => !quadEq x q), true) else (t, false) := rfl
  rw [hdef]
  cases hq : qmem q t with
  | true => exact SameSet.filter (resp_not_quadEq q) h
  | false =>
    simp only [Bool.false_eq_true, if_false]
    refine (SameSet.filter (resp_not_quadEq q) h).trans (SameSet.of_eq ?_)
    rw [List.filter_eq_self]
    intro x hx
    simp [qmem_false_iff.1 hq x hx]

theorem spec_remove_snd {a t : List Quad} (h : SameSet a t) (q : Quad) :
    (Spec.remove t q).2 = qmem q a := by
  have hdef : Spec.remove t q =
      if qmem q t = true then (t.filter (fun x => !quadEq x q), true) else (t, false) := rfl
  rw [hdef, h q]
  cases qmem q t <;> rfl

/-! ## 4. `Good` states and their preservation -/

/-- the standing hypotheses on a state of the store described by `d` -/
def Good (d : StoreDesc) (s : St) : Prop :=
  descOK d = true ∧ s.shape = d.shape ∧ Inv s ∧ lookupOrderOK s

/-- graphs carry no graph name -/
def QOK (d : StoreDesc) (q : Quad) : Prop := d.n = 3 → q.g = none

theorem Good.n_eq {d : StoreDesc} {s : St} (h : Good d s) : s.shape.n = d.n := by rw [h.2.1]; rfl

theorem Good.qok {d : StoreDesc} {s : St} (h : Good d s) {q : Quad} (hq : QOK d q) :
    s.shape.n = 3 → q.g = none := fun h3 => hq (h.n_eq ▸ h3)

theorem Good.abs_qok {d : StoreDesc} {s : St} (h : Good d s) {q : Quad} (hq : q ∈ abs s) : QOK d q :=
  fun h3 => abs_g_none h.2.2.1 hq (h.n_eq.trans h3)

theorem good_insert {d : StoreDesc} {s : St} (h : Good d s) (q : Quad) : Good d (Store.insert s q).1 :=
  ⟨h.1, by rw [insert_shape]; exact h.2.1, inv_insert h.2.2.1 h.2.2.2, lookupOrderOK_insert q h.2.2.2⟩

theorem good_remove {d : StoreDesc} {s : St} (h : Good d s) (q : Quad) : Good d (Store.remove s q).1 :=
  ⟨h.1, by rw [remove_shape]; exact h.2.1, inv_remove h.2.2.1 h.2.2.2, lookupOrderOK_remove q h.2.2.2⟩

theorem insertAll_nil (s : St) (c : Nat) : insertAll s [] c = (s, some c) := rfl

theorem insertAll_cons_none {s s1 : St} {q : Quad} (qs : List Quad) (c : Nat)
    (h : Store.insert s q = (s1, none)) : insertAll s (q :: qs) c = (s1, none) := by
  simp only [insertAll, h]

theorem insertAll_cons_some {s s1 : St} {q : Quad} {b : Bool} (qs : List Quad) (c : Nat)
    (h : Store.insert s q = (s1, some b)) :
    insertAll s (q :: qs) c = insertAll s1 qs (if b then c + 1 else c) := by
  simp only [insertAll, h]

theorem good_insertAll {d : StoreDesc} : ∀ (qs : List Quad) {s : St} (c : Nat), Good d s →
    Good d (insertAll s qs c).1
  | [], _, _, h => h
  | q :: qs, s, c, h => by
    have h1 := good_insert h q
    cases hi : Store.insert s q with
    | mk s1 r =>
      rw [hi] at h1
      cases r with
      | none => rw [insertAll_cons_none qs c hi]; exact h1
      | some b => rw [insertAll_cons_some qs c hi]; exact good_insertAll qs _ h1

theorem good_removeAll {d : StoreDesc} : ∀ (qs : List Quad) {s : St} (c : Nat), Good d s →
    Good d (removeAll s qs c).1
  | [], _, _, h => h
  | q :: qs, s, c, h => by
    rw [removeAll_cons]; exact good_removeAll qs _ (good_remove h q)

theorem good_removeMatching {d : StoreDesc} {s : St} (h : Good d s) (arms : List Arm) (p : Pat) :
    Good d (removeMatching arms s p).1 := good_removeAll _ _ h

theorem good_retainMatching {d : StoreDesc} {s : St} (h : Good d s) (p : Pat) :
    Good d (retainMatching s p) := good_removeAll _ _ h

/-! ## 5. `insert_all` -/

/-- **`insert_all`, success.** The final store holds the old quads plus all of `qs`; the count
returned is the count the specification computes (from any representation `t` of the old set), i.e.
the number of effective insertions. -/
theorem insertAll_spec {d : StoreDesc} : ∀ {qs : List Quad} {s s' : St} {c c' : Nat}, Good d s →
    (∀ q ∈ qs, QOK d q) → insertAll s qs c = (s', some c') →
    SameSet (abs s') (qs.reverse ++ abs s) ∧
    ∀ t, SameSet (abs s) t →
      c' = (specInsertAll t qs c).2 ∧ SameSet (abs s') (specInsertAll t qs c).1
  | [], s, s', c, c', _, _, h => by
    rw [insertAll_nil] at h
    simp only [Prod.mk.injEq, Option.some.injEq] at h
    obtain ⟨rfl, rfl⟩ := h
    exact ⟨SameSet.refl _, fun t ht => ⟨rfl, ht⟩⟩
  | q :: qs, s, s', c, c', hG, hq, h => by
    have hG1 := good_insert hG q
    have hqq := hG.qok (hq q (by simp))
    cases hi : Store.insert s q with
    | mk s1 r =>
      rw [hi] at hG1
      cases r with
      | none => rw [insertAll_cons_none qs c hi] at h; simp at h
      | some b =>
        rw [insertAll_cons_some qs c hi] at h
        have hab := insert_abs hG.2.2.1 hG.2.2.2 hqq hi
        have hfl := insert_flag hG.2.2.1 hG.2.2.2 hqq hi
        obtain ⟨ih1, ih2⟩ := insertAll_spec hG1 (fun x hx => hq x (by simp [hx])) h
        refine ⟨?_, fun t ht => ?_⟩
        · rw [List.reverse_cons, List.append_assoc]
          exact ih1.trans (SameSet.append_left _ hab)
        · rw [specInsertAll_cons, spec_insert_snd ht q, ← hfl]
          exact ih2 _ (hab.trans (spec_insert_fst ht q))

/-- the count form asked for: `c' - c` = number of effective insertions -/
theorem insertAll_count {d : StoreDesc} {qs : List Quad} {s s' : St} {c c' : Nat} (hG : Good d s)
    (hq : ∀ q ∈ qs, QOK d q) (h : insertAll s qs c = (s', some c')) :
    c' = c + (specInsertAll (abs s) qs 0).2 := by
  rw [((insertAll_spec hG hq h).2 _ (SameSet.refl _)).1, (specInsertAll_count _ qs c).2]

/-- **`insert_all`, index full.** Exactly the quads before the failing one were added. -/
theorem insertAll_full {d : StoreDesc} : ∀ {qs : List Quad} {s s' : St} {c : Nat}, Good d s →
    (∀ q ∈ qs, QOK d q) → insertAll s qs c = (s', none) →
    ∃ k, k < qs.length ∧ SameSet (abs s') ((qs.take k).reverse ++ abs s)
  | [], s, s', c, _, _, h => by rw [insertAll_nil] at h; simp at h
  | q :: qs, s, s', c, hG, hq, h => by
    have hG1 := good_insert hG q
    have hqq := hG.qok (hq q (by simp))
    cases hi : Store.insert s q with
    | mk s1 r =>
      rw [hi] at hG1
      cases r with
      | none =>
        rw [insertAll_cons_none qs c hi] at h
        simp only [Prod.mk.injEq, and_true] at h
        subst h
        exact ⟨0, by simp, SameSet.of_eq (insert_full_abs hG.2.2.1 hG.2.2.2 hi)⟩
      | some b =>
        rw [insertAll_cons_some qs c hi] at h
        have hab := insert_abs hG.2.2.1 hG.2.2.2 hqq hi
        obtain ⟨k, hk, ih⟩ := insertAll_full hG1 (fun x hx => hq x (by simp [hx])) h
        refine ⟨k + 1, by simp; omega, ?_⟩
        rw [List.take_succ_cons, List.reverse_cons, List.append_assoc]
        exact ih.trans (SameSet.append_left _ hab)

/-! ## 6. `remove_all` -/

/-- **`remove_all`.** The final store holds the old quads minus every quad `Term::eq` to a member of
`qs`; the count is the one the specification computes: the number of quads of `qs` present at their
turn. -/
theorem removeAll_spec {d : StoreDesc} : ∀ (qs : List Quad) {s : St} (c : Nat), Good d s →
    (∀ q ∈ qs, QOK d q) →
    SameSet (abs (removeAll s qs c).1) ((abs s).filter (fun x => !qmem x qs)) ∧
    ∀ t, SameSet (abs s) t →
      (removeAll s qs c).2 = (specRemoveAll t qs c).2 ∧
      SameSet (abs (removeAll s qs c).1) (specRemoveAll t qs c).1
  | [], s, c, _, _ => by
    refine ⟨SameSet.of_eq ?_, fun t ht => ⟨rfl, ht⟩⟩
    show abs s = _
    rw [List.filter_eq_self.2]
    intro x _; rfl
  | q :: qs, s, c, hG, hq => by
    have hG1 := good_remove hG q
    have hqq := hG.qok (hq q (by simp))
    have hab := remove_abs hG.2.2.1 hG.2.2.2 hqq (rfl : Store.remove s q = ((Store.remove s q).1, (Store.remove s q).2))
    have hfl := remove_flag hG.2.2.1 hG.2.2.2 hqq (rfl : Store.remove s q = ((Store.remove s q).1, (Store.remove s q).2))
    obtain ⟨ih1, ih2⟩ := removeAll_spec qs (if (Store.remove s q).2 then c + 1 else c) hG1
      (fun x hx => hq x (by simp [hx]))
    rw [removeAll_cons]
    refine ⟨?_, fun t ht => ?_⟩
    · refine ih1.trans ((SameSet.filter (resp_not_qmem qs) hab).trans ?_)
      intro y
      rw [qmem_filter (resp_not_qmem qs), qmem_filter (resp_not_quadEq q),
        qmem_filter (resp_not_qmem (q :: qs)), qmem_cons, quadEq_symm q y]
      cases quadEq y q <;> cases qmem y qs <;> cases qmem y (abs s) <;> rfl
    · rw [specRemoveAll_cons, spec_remove_snd ht q, ← hfl]
      exact ih2 _ (hab.trans (spec_remove_fst ht q))

theorem removeAll_count {d : StoreDesc} {qs : List Quad} {s : St} (c : Nat) (hG : Good d s)
    (hq : ∀ q ∈ qs, QOK d q) :
    (removeAll s qs c).2 = c + (specRemoveAll (abs s) qs 0).2 := by
  rw [((removeAll_spec qs c hG hq).2 _ (SameSet.refl _)).1, (specRemoveAll_count _ qs c).2]

/-- removing a `Term::eq`-duplicate-free list of stored quads removes every one of them -/
theorem specRemoveAll_nodup : ∀ (qs : List Quad) (t : List Quad) (c : Nat), NodupQ qs →
    (∀ q ∈ qs, qmem q t = true) → (specRemoveAll t qs c).2 = c + qs.length
  | [], _, _, _, _ => rfl
  | q :: qs, t, c, hnd, hin => by
    rw [specRemoveAll_cons, spec_remove_snd (SameSet.refl t) q, hin q (by simp)]
    simp only [if_true]
    rw [specRemoveAll_nodup qs _ (c + 1) hnd.2]
    · simp only [List.length_cons]; omega
    · intro x hx
      have h1 := spec_remove_fst (SameSet.refl t) q x
      rw [← h1, qmem_filter (resp_not_quadEq q), hin x (by simp [hx]),
        qmem_false_iff.1 hnd.1 x hx]
      rfl

/-! ## 7. `remove_matching`, `retain_matching` -/

theorem nodupQ_eq_of_quadEq : ∀ {l : List Quad}, NodupQ l → ∀ {x y : Quad}, x ∈ l → y ∈ l →
    quadEq x y = true → x = y
  | [], _, _, _, hx, _, _ => by cases hx
  | q :: l, h, x, y, hx, hy, he => by
    rcases List.mem_cons.1 hx with rfl | hx'
    · rcases List.mem_cons.1 hy with rfl | hy'
      · rfl
      · have := qmem_false_iff.1 h.1 y hy'
        rw [quadEq_symm, he] at this; cases this
    · rcases List.mem_cons.1 hy with rfl | hy'
      · have := qmem_false_iff.1 h.1 x hx'
        rw [he] at this; cases this
      · exact nodupQ_eq_of_quadEq h.2 hx' hy' he

/-- **`remove_matching`** ("collect the matches, then `remove_all`"): the non-matching quads
remain, and the count is the number of stored quads that match. -/
theorem removeMatching_spec {d : StoreDesc} {s s' : St} {p : Pat} {c : Nat} (hG : Good d s)
    (hp : p.ms.length = d.n) (h : removeMatching d.arms s p = (s', c)) :
    SameSet (abs s') ((abs s).filter (fun q => !quadMatched d.n p q)) ∧
    c = ((abs s).filter (quadMatched d.n p)).length := by
  obtain ⟨hd, hs, hI, hlo⟩ := hG
  have hG : Good d s := ⟨hd, hs, hI, hlo⟩
  obtain ⟨hmem, hnd⟩ := quadsMatching_mem hd hs hI p
  have hss := (quadsMatching_spec hd hs hI p hp).1
  have hqok : ∀ q ∈ quadsMatching d.arms s p, QOK d q :=
    fun q hq => hG.abs_qok (List.mem_filter.1 ((hmem q).1 hq)).1
  obtain ⟨h1, h2⟩ := removeAll_spec (quadsMatching d.arms s p) 0 hG hqok
  have hs' : s' = (removeAll s (quadsMatching d.arms s p) 0).1 := by
    have := congrArg Prod.fst h; exact this.symm
  have hc : c = (removeAll s (quadsMatching d.arms s p) 0).2 := by
    have := congrArg Prod.snd h; exact this.symm
  refine ⟨?_, ?_⟩
  · rw [hs']
    refine h1.trans ?_
    intro y
    rw [qmem_filter (resp_not_qmem _), qmem_filter (quadMatched_resp d.n p).not, hss y,
      qmem_filter (quadMatched_resp d.n p)]
    cases quadMatched d.n p y <;> cases qmem y (abs s) <;> rfl
  · rw [hc, (h2 _ (SameSet.refl _)).1, specRemoveAll_nodup _ _ 0 hnd]
    · rw [Nat.zero_add]
      apply List.Perm.length_eq
      rw [List.perm_ext_iff_of_nodup hnd.nodup ((abs_nodup hI).filter _).nodup]
      exact hmem
    · intro q hq
      exact qmem_iff.2 ⟨q, (List.mem_filter.1 ((hmem q).1 hq)).1, quadEq_refl q⟩

/-- **`retain_matching`** ("collect the non-matching quads from `quads()`, then `remove_all`") -/
theorem retainMatching_spec {d : StoreDesc} {s : St} (p : Pat) (hG : Good d s) :
    SameSet (abs (retainMatching s p)) ((abs s).filter (quadMatched d.n p)) := by
  have hn := hG.n_eq
  have hqok : ∀ q ∈ (abs s).filter (fun q => !quadMatched d.n p q), QOK d q :=
    fun q hq => hG.abs_qok (List.mem_filter.1 hq).1
  have h1 := (removeAll_spec _ 0 hG hqok).1
  have : retainMatching s p =
      (removeAll s ((abs s).filter (fun q => !quadMatched d.n p q)) 0).1 := by
    unfold retainMatching; rw [hn]; rfl
  rw [this]
  refine h1.trans ?_
  intro y
  rw [qmem_filter (resp_not_qmem _), qmem_filter (quadMatched_resp d.n p).not,
    qmem_filter (quadMatched_resp d.n p)]
  cases quadMatched d.n p y <;> cases qmem y (abs s) <;> rfl

/-! ## 8. operation histories -/

inductive Op where
  | ins (q : Quad)
  | rem (q : Quad)
  | insAll (qs : List Quad)
  | remAll (qs : List Quad)
  | remM (p : Pat)
  | retM (p : Pat)

/-- one operation on the model (results ignored) -/
def stepM (d : StoreDesc) (s : St) : Op → St
  | .ins q => (Store.insert s q).1
  | .rem q => (Store.remove s q).1
  | .insAll qs => (insertAll s qs 0).1
  | .remAll qs => (removeAll s qs 0).1
  | .remM p => (removeMatching d.arms s p).1
  | .retM p => retainMatching s p

/-- one operation on the specification: a plain list of quads (`n` = arity, 3 for graphs) -/
def stepS (n : Nat) (t : List Quad) : Op → List Quad
  | .ins q => (Spec.insert t q).1
  | .rem q => (Spec.remove t q).1
  | .insAll qs => (specInsertAll t qs 0).1
  | .remAll qs => (specRemoveAll t qs 0).1
  | .remM p => t.filter (fun q => !quadMatched n p q)
  | .retM p => Spec.matching n t p

/-- well-formed operations: graphs get no graph names, patterns have one matcher per position -/
def OpOK (d : StoreDesc) : Op → Prop
  | .ins q => QOK d q
  | .rem q => QOK d q
  | .insAll qs => ∀ q ∈ qs, QOK d q
  | .remAll qs => ∀ q ∈ qs, QOK d q
  | .remM p => p.ms.length = d.n
  | .retM p => p.ms.length = d.n

/-- does the operation hit `TermIndexFullError` in state `s`? -/
def opFull (s : St) : Op → Bool
  | .ins q => (Store.insert s q).2.isNone
  | .insAll qs => (insertAll s qs 0).2.isNone
  | _ => false

/-- no operation of the history, run from `s`, hits `TermIndexFullError` -/
def noFull (d : StoreDesc) : St → List Op → Bool
  | _, [] => true
  | s, op :: ops => !opFull s op && noFull d (stepM d s op) ops

def NoFull (d : StoreDesc) (s : St) (ops : List Op) : Prop := noFull d s ops = true

instance (d : StoreDesc) (s : St) (ops : List Op) : Decidable (NoFull d s ops) := by
  unfold NoFull; infer_instance

theorem good_step {d : StoreDesc} {s : St} (hG : Good d s) (op : Op) : Good d (stepM d s op) := by
  cases op with
  | ins q => exact good_insert hG q
  | rem q => exact good_remove hG q
  | insAll qs => exact good_insertAll qs 0 hG
  | remAll qs => exact good_removeAll qs 0 hG
  | remM p => exact good_removeMatching hG d.arms p
  | retM p => exact good_retainMatching hG p

/-- one step of the model refines one step of the specification, unless it hits index-full -/
theorem step_refines {d : StoreDesc} {s : St} {t : List Quad} {op : Op} (hG : Good d s)
    (ht : SameSet (abs s) t) (hop : OpOK d op) (hnf : opFull s op = false) :
    SameSet (abs (stepM d s op)) (stepS d.n t op) := by
  cases op with
  | ins q =>
    cases hi : Store.insert s q with
    | mk s1 r =>
      cases r with
      | none => simp [opFull, hi] at hnf
      | some b =>
        show SameSet (abs (Store.insert s q).1) _
        rw [hi]
        exact (insert_abs hG.2.2.1 hG.2.2.2 (hG.qok hop) hi).trans (spec_insert_fst ht q)
  | rem q =>
    exact (remove_abs hG.2.2.1 hG.2.2.2 (hG.qok hop)
      (rfl : Store.remove s q = ((Store.remove s q).1, (Store.remove s q).2))).trans
      (spec_remove_fst ht q)
  | insAll qs =>
    cases hi : insertAll s qs 0 with
    | mk s1 r =>
      cases r with
      | none => simp [opFull, hi] at hnf
      | some c' =>
        show SameSet (abs (insertAll s qs 0).1) _
        rw [hi]
        exact ((insertAll_spec hG hop hi).2 t ht).2
  | remAll qs => exact ((removeAll_spec qs 0 hG hop).2 t ht).2
  | remM p =>
    exact (removeMatching_spec hG hop
      (rfl : removeMatching d.arms s p = ((removeMatching d.arms s p).1, (removeMatching d.arms s p).2))).1.trans
      (SameSet.filter (quadMatched_resp d.n p).not ht)
  | retM p =>
    exact (retainMatching_spec p hG).trans (SameSet.filter (quadMatched_resp d.n p) ht)

/-- an operation that hits index-full adds exactly a prefix of its quads (none for `insert`) -/
theorem step_full {d : StoreDesc} {s : St} {op : Op} (hG : Good d s) (hop : OpOK d op)
    (hf : opFull s op = true) :
    (∃ q, op = .ins q ∧ abs (stepM d s op) = abs s) ∨
    (∃ qs k, op = .insAll qs ∧ k < qs.length ∧
      SameSet (abs (stepM d s op)) ((qs.take k).reverse ++ abs s)) := by
  cases op with
  | ins q =>
    left
    refine ⟨q, rfl, ?_⟩
    cases hi : Store.insert s q with
    | mk s1 r =>
      cases r with
      | some b => simp [opFull, hi] at hf
      | none =>
        show abs (Store.insert s q).1 = _
        rw [hi]; exact insert_full_abs hG.2.2.1 hG.2.2.2 hi
  | insAll qs =>
    right
    cases hi : insertAll s qs 0 with
    | mk s1 r =>
      cases r with
      | some b => simp [opFull, hi] at hf
      | none =>
        obtain ⟨k, hk, h⟩ := insertAll_full hG hop hi
        refine ⟨qs, k, rfl, hk, ?_⟩
        show SameSet (abs (insertAll s qs 0).1) _
        rw [hi]; exact h
  | rem q => simp [opFull] at hf
  | remAll qs => simp [opFull] at hf
  | remM p => simp [opFull] at hf
  | retM p => simp [opFull] at hf

theorem run_refines_from {d : StoreDesc} : ∀ (ops : List Op) {s : St} {t : List Quad}, Good d s →
    SameSet (abs s) t → (∀ op ∈ ops, OpOK d op) → NoFull d s ops →
    Good d (ops.foldl (stepM d) s) ∧ SameSet (abs (ops.foldl (stepM d) s)) (ops.foldl (stepS d.n) t)
  | [], _, _, hG, ht, _, _ => ⟨hG, ht⟩
  | op :: ops, s, t, hG, ht, hop, hnf => by
    simp only [NoFull, noFull, Bool.and_eq_true, Bool.not_eq_true'] at hnf
    exact run_refines_from ops (good_step hG op)
      (step_refines hG ht (hop op (by simp)) hnf.1) (fun o ho => hop o (by simp [ho])) hnf.2

theorem descOK_shape {d : StoreDesc} (hd : descOK d = true) :
    d.insertLayouts.all (IsPerm d.n) = true ∧ d.insertLayouts.head? = some (List.range d.n) ∧
    (d.n = 3 ∨ d.n = 4) ∧ IsPerm d.n d.insertOrder = true ∧
    ((d.n = 4 ∧ d.insertOrder = [1, 2, 3, 0]) ∨ (d.n = 3 ∧ d.insertOrder = [0, 1, 2])) := by
  simp only [descOK, Bool.and_eq_true, Bool.or_eq_true, beq_iff_eq] at hd
  obtain ⟨⟨⟨⟨⟨⟨⟨⟨⟨⟨hn, hl⟩, hh⟩, _⟩, _⟩, _⟩, hio⟩, hord⟩, _⟩, _⟩, _⟩ := hd
  refine ⟨hl, hh, hn, hio, ?_⟩
  rcases hn with h3 | h4
  · right; rw [h3] at hord; exact ⟨h3, by simpa using hord⟩
  · left; rw [h4] at hord; exact ⟨h4, by simpa using hord⟩

theorem abs_new (sh : Shape) (max : Nat) : abs (St.new sh max) = [] := by
  show List.filterMap _ ((St.new sh max).idx.getD 0 []) = []
  have : (St.new sh max).idx.getD 0 [] = [] := by
    simp only [St.new]; cases sh.perms <;> rfl
  rw [this]; rfl

theorem good_new {d : StoreDesc} (hd : descOK d = true) (max : Nat) : Good d (St.new d.shape max) := by
  obtain ⟨h1, h2, h3, h4, _⟩ := descOK_shape hd
  exact ⟨hd, rfl, inv_new d.shape max h1 h2 h3, lookupOrderOK_new h4⟩

/-- **Histories refine the specification.** For every store description passing the decidable
table obligations, from a fresh store of any capacity, after any history of well-formed operations
none of which hits `TermIndexFullError`, the model is in a good state and holds exactly (modulo
`Term::eq`, each quad once) the quads the specification holds. -/
theorem run_refines (d : StoreDesc) (hd : descOK d = true) (max : Nat) (ops : List Op)
    (hq : ∀ op ∈ ops, OpOK d op) (hnf : NoFull d (St.new d.shape max) ops) :
    let s := ops.foldl (stepM d) (St.new d.shape max)
    let t := ops.foldl (stepS d.n) []
    Good d s ∧ SameSet (abs s) t ∧ NodupQ (abs s) := by
  intro s t
  have hG0 := good_new hd max
  have h0 : SameSet (abs (St.new d.shape max)) [] := SameSet.of_eq (abs_new _ _)
  obtain ⟨hG, hS⟩ := run_refines_from ops hG0 h0 hq hnf
  exact ⟨hG, hS, abs_nodup hG.2.2.1⟩

/-- observable corollary: `contains` answers as the specification does -/
theorem run_contains (d : StoreDesc) (hd : descOK d = true) (max : Nat) (ops : List Op)
    (hq : ∀ op ∈ ops, OpOK d op) (hnf : NoFull d (St.new d.shape max) ops) (q : Quad) (hqq : QOK d q) :
    contains d.arms (ops.foldl (stepM d) (St.new d.shape max)) q =
      qmem q (ops.foldl (stepS d.n) []) := by
  obtain ⟨hG, hS, _⟩ := run_refines d hd max ops hq hnf
  rw [contains_spec hG.1 hG.2.1 hG.2.2.1 q hqq]
  exact hS q

/-- observable corollary: `quads_matching` answers as the specification does (each quad once) -/
theorem run_quadsMatching (d : StoreDesc) (hd : descOK d = true) (max : Nat) (ops : List Op)
    (hq : ∀ op ∈ ops, OpOK d op) (hnf : NoFull d (St.new d.shape max) ops) (p : Pat)
    (hp : p.ms.length = d.n) :
    SameSet (quadsMatching d.arms (ops.foldl (stepM d) (St.new d.shape max)) p)
      (Spec.matching d.n (ops.foldl (stepS d.n) []) p) ∧
    NodupQ (quadsMatching d.arms (ops.foldl (stepM d) (St.new d.shape max)) p) := by
  obtain ⟨hG, hS, _⟩ := run_refines d hd max ops hq hnf
  obtain ⟨h1, h2⟩ := quadsMatching_spec hG.1 hG.2.1 hG.2.2.1 p hp
  exact ⟨h1.trans (SameSet.filter (quadMatched_resp d.n p) hS), h2⟩

/-! ## 9. histories with `TermIndexFullError`

`TermIndexFullError` depends on something the quad list does not show: the terms ever interned
(the term index never forgets a term, not even when the last quad using it is removed). The
specification below therefore also tracks the list of terms seen so far; it is still independent
of the index layouts, rows and arm tables. An operation that hits index-full keeps the quads it has
added so far and changes nothing from the failing quad on, on both sides. -/

/-- `ensure_index` for the terms of one quad, on the abstract term index (the list of terms seen so
far): the new list, and whether every term found a place -/
def internTerms (max : Nat) : List Term → List Term → List Term × Bool
  | seen, [] => (seen, true)
  | seen, t :: ts =>
    if seen.any (termEq · t) then internTerms max seen ts
    else if seen.length ≥ max then (seen, false)
    else internTerms max (seen ++ [t]) ts

theorem ensureAll_intern {max n : Nat} {names : List GName} :
    ∀ (order : List Nat) (terms : List Term) (acc : List (Nat × Nat)),
      ((ensureAll max n names order terms acc).1, (ensureAll max n names order terms acc).2.isSome) =
        internTerms max terms (order.filterMap (fun c => names.getD c none))
  | [], _, _ => rfl
  | c :: cs, terms, acc => by
    cases hn : names.getD c none with
    | none =>
      rw [List.filterMap_cons_none (f := fun c => names.getD c none) hn]
      simp only [ensureAll, hn]
      exact ensureAll_intern cs terms _
    | some t =>
      rw [List.filterMap_cons_some (f := fun c => names.getD c none) hn]
      have hany : terms.any (termEq · t) = (getIndex terms t).isSome := by
        unfold getIndex; rw [List.findIdx?_isSome]
      cases hg : getIndex terms t with
      | some i =>
        rw [hg] at hany
        simp only [ensureAll, hn, ensureIndex, hg, internTerms, hany, Option.isSome_some, if_true]
        exact ensureAll_intern cs terms _
      | none =>
        rw [hg] at hany
        by_cases hfull : terms.length ≥ max
        · simp only [ensureAll, hn, ensureIndex, hg, internTerms, hany, Option.isSome_none,
            Bool.false_eq_true, if_false, hfull, if_true]
        · simp only [ensureAll, hn, ensureIndex, hg, internTerms, hany, Option.isSome_none,
            Bool.false_eq_true, if_false, hfull]
          exact ensureAll_intern cs _ _

/-- while the index has room, interning succeeds -/
theorem internTerms_ok (max : Nat) : ∀ (ts seen : List Term), seen.length + ts.length ≤ max →
    (internTerms max seen ts).2 = true
  | [], _, _ => rfl
  | t :: ts, seen, h => by
    simp only [List.length_cons] at h
    unfold internTerms
    split
    · exact internTerms_ok max ts seen (by omega)
    · rw [if_neg (by omega)]
      exact internTerms_ok max ts _ (by simp only [List.length_append, List.length_singleton]; omega)

theorem insert_terms (s : St) (q : Quad) :
    (Store.insert s q).1.terms =
      (ensureAll s.max s.shape.n (quadNames s.shape.n q) s.shape.lookupOrder s.terms []).1 ∧
    (Store.insert s q).2.isSome =
      (ensureAll s.max s.shape.n (quadNames s.shape.n q) s.shape.lookupOrder s.terms []).2.isSome := by
  obtain ⟨⟨n, perms, lo⟩, max, terms, idx⟩ := s
  simp only [Store.insert]
  cases ensureAll max n (quadNames n q) lo terms [] with
  | mk t r =>
    cases r <;> cases idx <;> cases perms <;> (try exact ⟨rfl, rfl⟩)
    simp only [oinsert]
    split <;> exact ⟨rfl, rfl⟩

theorem remove_terms (s : St) (q : Quad) : (Store.remove s q).1.terms = s.terms := by
  obtain ⟨⟨n, perms, lo⟩, max, terms, idx⟩ := s
  simp only [Store.remove]
  cases lookupAll max terms (quadNames n q) lo [] with
  | none => rfl
  | some a =>
    cases idx <;> cases perms <;> (try rfl)
    simp only [oremove]
    split <;> rfl

theorem removeAll_terms : ∀ (qs : List Quad) (s : St) (c : Nat),
    (removeAll s qs c).1.terms = s.terms ∧ (removeAll s qs c).1.max = s.max
  | [], _, _ => ⟨rfl, rfl⟩
  | q :: qs, s, c => by
    rw [removeAll_cons]
    obtain ⟨h1, h2⟩ := removeAll_terms qs (Store.remove s q).1 (if (Store.remove s q).2 then c + 1 else c)
    exact ⟨h1.trans (remove_terms s q), h2.trans (remove_max s q)⟩

/-- the terms looked up by `insert`, in lookup order: subject, predicate, object, graph name -/
theorem order_terms {d : StoreDesc} {s : St} (hG : Good d s) {q : Quad} (hq : QOK d q) :
    s.shape.lookupOrder.filterMap (fun c => (quadNames s.shape.n q).getD c none) = spog q := by
  obtain ⟨_, _, _, _, hord⟩ := descOK_shape hG.1
  rw [hG.2.1]
  show d.insertOrder.filterMap (fun c => (quadNames d.n q).getD c none) = spog q
  rcases hord with ⟨h4, ho⟩ | ⟨h3, ho⟩
  · rw [h4, ho]
    cases hg : q.g <;> simp [quadNames, spog, hg]
  · rw [h3, ho]
    simp [quadNames, spog, hq h3]

/-- `insert` interns the terms of the quad exactly as `internTerms` does -/
theorem insert_intern {d : StoreDesc} {s : St} (hG : Good d s) {q : Quad} (hq : QOK d q) :
    internTerms s.max s.terms (spog q) = ((Store.insert s q).1.terms, (Store.insert s q).2.isSome) := by
  rw [← order_terms hG hq, ← ensureAll_intern, (insert_terms s q).1, (insert_terms s q).2]

/-- state of the specification: the quads held and the terms ever interned -/
structure SSt where
  quads : List Quad
  seen : List Term

/-- `insert` on the specification: `none` = `TermIndexFullError` (the quads are unchanged, some of
the terms may have been interned) -/
def specInsertF (max : Nat) (σ : SSt) (q : Quad) : SSt × Option Bool :=
  if (internTerms max σ.seen (spog q)).2 then
    (⟨(Spec.insert σ.quads q).1, (internTerms max σ.seen (spog q)).1⟩, some (Spec.insert σ.quads q).2)
  else (⟨σ.quads, (internTerms max σ.seen (spog q)).1⟩, none)

/-- `insert_all` on the specification: stops at the first error -/
def specInsertAllF (max : Nat) (σ : SSt) : List Quad → Nat → SSt × Option Nat
  | [], c => (σ, some c)
  | q :: qs, c =>
    match specInsertF max σ q with
    | (σ', none) => (σ', none)
    | (σ', some b) => specInsertAllF max σ' qs (if b then c + 1 else c)

/-- one operation on the specification with a term index of capacity `max` -/
def stepSF (max n : Nat) (σ : SSt) : Op → SSt
  | .ins q => (specInsertF max σ q).1
  | .insAll qs => (specInsertAllF max σ qs 0).1
  | .rem q => ⟨stepS n σ.quads (.rem q), σ.seen⟩
  | .remAll qs => ⟨stepS n σ.quads (.remAll qs), σ.seen⟩
  | .remM p => ⟨stepS n σ.quads (.remM p), σ.seen⟩
  | .retM p => ⟨stepS n σ.quads (.retM p), σ.seen⟩

/-- the refinement relation: same quads (modulo `Term::eq`), same terms interned, same capacity -/
structure Rel (max : Nat) (s : St) (σ : SSt) : Prop where
  quads : SameSet (abs s) σ.quads
  seen : s.terms = σ.seen
  max : s.max = max

/-- **`insert` refines the specification including `TermIndexFullError`**, result included -/
theorem insert_refines {d : StoreDesc} {s : St} {σ : SSt} {max : Nat} (hG : Good d s) {q : Quad}
    (hq : QOK d q) (hR : Rel max s σ) :
    (Store.insert s q).2 = (specInsertF max σ q).2 ∧
    Rel max (Store.insert s q).1 (specInsertF max σ q).1 := by
  have hkey := insert_intern hG hq
  rw [hR.seen, hR.max] at hkey
  have hmax : (Store.insert s q).1.max = max := (insert_max s q).trans hR.max
  unfold specInsertF
  rw [hkey]
  cases hi : Store.insert s q with
  | mk s1 r =>
    rw [hi] at hmax
    cases r with
    | none =>
      simp only [Option.isSome_none, Bool.false_eq_true, if_false]
      exact ⟨trivial, ⟨(SameSet.of_eq (insert_full_abs hG.2.2.1 hG.2.2.2 hi)).trans hR.quads, rfl, hmax⟩⟩
    | some b =>
      simp only [Option.isSome_some, if_true]
      have hab := insert_abs hG.2.2.1 hG.2.2.2 (hG.qok hq) hi
      have hfl := insert_flag hG.2.2.1 hG.2.2.2 (hG.qok hq) hi
      refine ⟨?_, ⟨hab.trans (spec_insert_fst hR.quads q), rfl, hmax⟩⟩
      rw [spec_insert_snd hR.quads q, hfl]

/-- **`insert_all` refines the specification including `TermIndexFullError`**, result included -/
theorem insertAll_refines {d : StoreDesc} {max : Nat} : ∀ (qs : List Quad) {s : St} {σ : SSt} (c : Nat),
    Good d s → (∀ q ∈ qs, QOK d q) → Rel max s σ →
    (insertAll s qs c).2 = (specInsertAllF max σ qs c).2 ∧
    Rel max (insertAll s qs c).1 (specInsertAllF max σ qs c).1
  | [], _, _, _, _, _, hR => ⟨rfl, hR⟩
  | q :: qs, s, σ, c, hG, hq, hR => by
    obtain ⟨h1, h2⟩ := insert_refines hG (hq q (by simp)) hR
    have hG1 := good_insert hG q
    cases hi : Store.insert s q with
    | mk s1 r =>
      cases hj : specInsertF max σ q with
      | mk σ1 r' =>
        rw [hi, hj] at h1 h2
        rw [hi] at hG1
        simp only at h1 h2
        subst h1
        cases r with
        | none =>
          rw [insertAll_cons_none qs c hi]
          simp only [specInsertAllF, hj]
          exact ⟨trivial, h2⟩
        | some b =>
          rw [insertAll_cons_some qs c hi]
          simp only [specInsertAllF, hj]
          exact insertAll_refines qs _ hG1 (fun x hx => hq x (by simp [hx])) h2

theorem step_refines_full {d : StoreDesc} {s : St} {σ : SSt} {max : Nat} {op : Op} (hG : Good d s)
    (hR : Rel max s σ) (hop : OpOK d op) : Rel max (stepM d s op) (stepSF max d.n σ op) := by
  cases op with
  | ins q => exact (insert_refines hG hop hR).2
  | insAll qs => exact (insertAll_refines qs 0 hG hop hR).2
  | rem q =>
    exact ⟨step_refines hG hR.quads hop rfl, (remove_terms s q).trans hR.seen,
      (remove_max s q).trans hR.max⟩
  | remAll qs =>
    exact ⟨step_refines hG hR.quads hop rfl, (removeAll_terms qs s 0).1.trans hR.seen,
      (removeAll_terms qs s 0).2.trans hR.max⟩
  | remM p =>
    exact ⟨step_refines hG hR.quads hop rfl, (removeAll_terms _ s 0).1.trans hR.seen,
      (removeAll_terms _ s 0).2.trans hR.max⟩
  | retM p =>
    exact ⟨step_refines hG hR.quads hop rfl, (removeAll_terms _ s 0).1.trans hR.seen,
      (removeAll_terms _ s 0).2.trans hR.max⟩

theorem run_refines_full_from {d : StoreDesc} {max : Nat} : ∀ (ops : List Op) {s : St} {σ : SSt},
    Good d s → Rel max s σ → (∀ op ∈ ops, OpOK d op) →
    Good d (ops.foldl (stepM d) s) ∧ Rel max (ops.foldl (stepM d) s) (ops.foldl (stepSF max d.n) σ)
  | [], _, _, hG, hR, _ => ⟨hG, hR⟩
  | op :: ops, _, _, hG, hR, hop =>
    run_refines_full_from ops (good_step hG op) (step_refines_full hG hR (hop op (by simp)))
      (fun o ho => hop o (by simp [ho]))

/-- **Histories refine the specification, `TermIndexFullError` included** (no `NoFull`
hypothesis): from a fresh store of capacity `max`, after any history of well-formed operations, the
model is in a good state, holds exactly (modulo `Term::eq`, each quad once) the quads the
specification holds, and has interned exactly the terms the specification has seen. -/
theorem run_refines_full (d : StoreDesc) (hd : descOK d = true) (max : Nat) (ops : List Op)
    (hq : ∀ op ∈ ops, OpOK d op) :
    let s := ops.foldl (stepM d) (St.new d.shape max)
    let σ := ops.foldl (stepSF max d.n) ⟨[], []⟩
    Good d s ∧ SameSet (abs s) σ.quads ∧ NodupQ (abs s) ∧ s.terms = σ.seen := by
  intro s σ
  have h0 : Rel max (St.new d.shape max) ⟨[], []⟩ := ⟨SameSet.of_eq (abs_new _ _), rfl, rfl⟩
  obtain ⟨hG, hR⟩ := run_refines_full_from ops (good_new hd max) h0 hq
  exact ⟨hG, hR.quads, abs_nodup hG.2.2.1, hR.seen⟩

theorem run_contains_full (d : StoreDesc) (hd : descOK d = true) (max : Nat) (ops : List Op)
    (hq : ∀ op ∈ ops, OpOK d op) (q : Quad) (hqq : QOK d q) :
    contains d.arms (ops.foldl (stepM d) (St.new d.shape max)) q =
      qmem q (ops.foldl (stepSF max d.n) ⟨[], []⟩).quads := by
  obtain ⟨hG, hS, _⟩ := run_refines_full d hd max ops hq
  rw [contains_spec hG.1 hG.2.1 hG.2.2.1 q hqq]
  exact hS q

theorem run_quadsMatching_full (d : StoreDesc) (hd : descOK d = true) (max : Nat) (ops : List Op)
    (hq : ∀ op ∈ ops, OpOK d op) (p : Pat) (hp : p.ms.length = d.n) :
    SameSet (quadsMatching d.arms (ops.foldl (stepM d) (St.new d.shape max)) p)
      (Spec.matching d.n (ops.foldl (stepSF max d.n) ⟨[], []⟩).quads p) ∧
    NodupQ (quadsMatching d.arms (ops.foldl (stepM d) (St.new d.shape max)) p) := by
  obtain ⟨hG, hS, _⟩ := run_refines_full d hd max ops hq
  obtain ⟨h1, h2⟩ := quadsMatching_spec hG.1 hG.2.1 hG.2.2.1 p hp
  exact ⟨h1.trans (SameSet.filter (quadMatched_resp d.n p) hS), h2⟩

/-! ## 10. a model-independent sufficient condition for "no index-full"

Every quad interns at most four terms, so a history inserting at most `max / 4` quads never hits
`TermIndexFullError`; for such histories the two specifications agree and the hypothesis `NoFull`
(which mentions the model) can be replaced by a bound on the history. -/

theorem internTerms_len (max : Nat) : ∀ (ts seen : List Term),
    (internTerms max seen ts).1.length ≤ seen.length + ts.length
  | [], _ => Nat.le_refl _
  | t :: ts, seen => by
    simp only [List.length_cons]
    unfold internTerms
    split
    · have := internTerms_len max ts seen; omega
    · split
      · show seen.length ≤ _; omega
      · have := internTerms_len max ts (seen ++ [t])
        simp only [List.length_append, List.length_singleton] at this
        omega

theorem spog_len (q : Quad) : (spog q).length ≤ 4 := by
  cases hg : q.g <;> simp [spog, hg]

/-- number of quads an operation tries to insert -/
def opSize : Op → Nat
  | .ins _ => 1
  | .insAll qs => qs.length
  | _ => 0

def histSize : List Op → Nat
  | [] => 0
  | op :: ops => opSize op + histSize ops

theorem specInsertF_room {max : Nat} {σ : SSt} (q : Quad) (h : σ.seen.length + 4 ≤ max) :
    (specInsertF max σ q).1.quads = (Spec.insert σ.quads q).1 ∧
    (specInsertF max σ q).2 = some (Spec.insert σ.quads q).2 ∧
    (specInsertF max σ q).1.seen.length ≤ σ.seen.length + 4 := by
  have hl := spog_len q
  have hok := internTerms_ok max (spog q) σ.seen (by omega)
  have hlen := internTerms_len max (spog q) σ.seen
  unfold specInsertF
  rw [hok]
  exact ⟨rfl, rfl, by show (internTerms max σ.seen (spog q)).1.length ≤ _; omega⟩

theorem specInsertAllF_room {max : Nat} : ∀ (qs : List Quad) (σ : SSt) (c : Nat),
    σ.seen.length + 4 * qs.length ≤ max →
    (specInsertAllF max σ qs c).1.quads = (specInsertAll σ.quads qs c).1 ∧
    (specInsertAllF max σ qs c).2 = some (specInsertAll σ.quads qs c).2 ∧
    (specInsertAllF max σ qs c).1.seen.length ≤ σ.seen.length + 4 * qs.length
  | [], _, _, _ => ⟨rfl, rfl, Nat.le_refl _⟩
  | q :: qs, σ, c, h => by
    simp only [List.length_cons] at h ⊢
    obtain ⟨h1, h2, h3⟩ := specInsertF_room (max := max) (σ := σ) q (by omega)
    cases hj : specInsertF max σ q with
    | mk σ1 r =>
      rw [hj] at h1 h2 h3
      simp only at h1 h2 h3
      subst h2
      obtain ⟨i1, i2, i3⟩ := specInsertAllF_room (max := max) qs σ1 (if (Spec.insert σ.quads q).2 then c + 1 else c)
        (by omega)
      simp only [specInsertAllF, hj]
      rw [specInsertAll_cons, ← h1]
      exact ⟨i1, i2, Nat.le_trans i3 (by omega)⟩

theorem stepSF_room {max n : Nat} {σ : SSt} (op : Op) (h : σ.seen.length + 4 * opSize op ≤ max) :
    (stepSF max n σ op).quads = stepS n σ.quads op ∧
    (stepSF max n σ op).seen.length ≤ σ.seen.length + 4 * opSize op := by
  cases op with
  | ins q =>
    obtain ⟨h1, _, h3⟩ := specInsertF_room (max := max) (σ := σ) q (by simpa [opSize] using h)
    exact ⟨h1, by simpa [opSize, stepSF] using h3⟩
  | insAll qs =>
    obtain ⟨h1, _, h3⟩ := specInsertAllF_room (max := max) qs σ 0 (by simpa [opSize] using h)
    exact ⟨h1, by simpa [opSize, stepSF] using h3⟩
  | rem q => exact ⟨rfl, Nat.le_add_right _ _⟩
  | remAll qs => exact ⟨rfl, Nat.le_add_right _ _⟩
  | remM p => exact ⟨rfl, Nat.le_add_right _ _⟩
  | retM p => exact ⟨rfl, Nat.le_add_right _ _⟩

theorem run_room {max n : Nat} : ∀ (ops : List Op) (σ : SSt),
    σ.seen.length + 4 * histSize ops ≤ max →
    (ops.foldl (stepSF max n) σ).quads = ops.foldl (stepS n) σ.quads
  | [], _, _ => rfl
  | op :: ops, σ, h => by
    simp only [histSize] at h
    obtain ⟨h1, h2⟩ := stepSF_room (max := max) (n := n) (σ := σ) op (by omega)
    simp only [List.foldl_cons]
    rw [run_room ops _ (by omega), h1]

/-- **Histories within the capacity of the term index refine the plain quad-list specification**
— no hypothesis mentions the model. -/
theorem run_refines_small (d : StoreDesc) (hd : descOK d = true) (max : Nat) (ops : List Op)
    (hq : ∀ op ∈ ops, OpOK d op) (hsz : 4 * histSize ops ≤ max) :
    let s := ops.foldl (stepM d) (St.new d.shape max)
    let t := ops.foldl (stepS d.n) []
    Good d s ∧ SameSet (abs s) t ∧ NodupQ (abs s) := by
  intro s t
  obtain ⟨hG, hS, hN, _⟩ := run_refines_full d hd max ops hq
  refine ⟨hG, ?_, hN⟩
  have := run_room (max := max) (n := d.n) ops ⟨[], []⟩ (by simpa using hsz)
  rw [this] at hS
  exact hS

/-! ## 11. the hypotheses are satisfiable -/

section examples
open SophiaModel.Gen

theorem opOK_pair {d : StoreDesc} {a b : Op} (ha : OpOK d a) (hb : OpOK d b) :
    ∀ op ∈ [a, b], OpOK d op := by
  intro op h
  simp only [List.mem_cons, List.not_mem_nil, or_false] at h
  rcases h with rfl | rfl <;> assumption

example : descOK genericLightDataset = true := by decide
example : descOK genericFastDataset = true := by decide
example : descOK genericLightGraph = true := by decide
example : descOK genericFastGraph = true := by decide

/-- `run_refines` (hypothesis `NoFull` checked by evaluation) on concrete two-operation histories of
each generated store -/
example :
    let a : Term := .iri ['a']; let l : Term := .lang ['x'] ['e', 'n']
    let ops : List Op := [.ins ⟨a, a, l, some a⟩, .remM ⟨[.any, .any, .any, .gn (.lang ['E', 'N'])]⟩]
    let s := ops.foldl (stepM genericLightDataset) (St.new genericLightDataset.shape maxU32)
    Good genericLightDataset s ∧ SameSet (abs s) (ops.foldl (stepS 4) []) ∧ NodupQ (abs s) := by
  intro a l ops
  exact run_refines genericLightDataset (by decide) maxU32 ops
    (opOK_pair (fun h => by cases h) rfl) (by decide)

example :
    let a : Term := .iri ['a']; let b : Term := .bnode ['b']
    let ops : List Op := [.insAll [⟨a, a, b, none⟩, ⟨b, a, a, some b⟩], .rem ⟨a, a, b, none⟩]
    let s := ops.foldl (stepM genericFastDataset) (St.new genericFastDataset.shape maxU16)
    Good genericFastDataset s ∧ SameSet (abs s) (ops.foldl (stepS 4) []) ∧ NodupQ (abs s) := by
  intro a b ops
  exact run_refines genericFastDataset (by decide) maxU16 ops
    (opOK_pair (fun q _ h => by cases h) (fun h => by cases h)) (by decide)

example :
    let a : Term := .iri ['a']; let b : Term := .bnode ['b']
    let ops : List Op := [.ins ⟨a, a, b, none⟩, .retM ⟨[.any, .gn (.kind .iri), .any]⟩]
    let s := ops.foldl (stepM genericLightGraph) (St.new genericLightGraph.shape maxU32)
    Good genericLightGraph s ∧ SameSet (abs s) (ops.foldl (stepS 3) []) ∧ NodupQ (abs s) := by
  intro a b ops
  exact run_refines genericLightGraph (by decide) maxU32 ops
    (opOK_pair (fun _ => rfl) rfl) (by decide)

example :
    let a : Term := .iri ['a']; let b : Term := .bnode ['b']
    let ops : List Op := [.ins ⟨a, a, b, none⟩, .remAll [⟨b, a, a, none⟩, ⟨a, a, b, none⟩]]
    let s := ops.foldl (stepM genericFastGraph) (St.new genericFastGraph.shape maxU16)
    Good genericFastGraph s ∧ SameSet (abs s) (ops.foldl (stepS 3) []) ∧ NodupQ (abs s) := by
  intro a b ops
  exact run_refines genericFastGraph (by decide) maxU16 ops
    (opOK_pair (fun _ => rfl) (fun q hq _ => by
      simp only [List.mem_cons, List.not_mem_nil, or_false] at hq
      rcases hq with rfl | rfl <;> rfl)) (by decide)

/-- index-full is reachable and handled: a store of capacity 2 refuses the third term, keeps the
quads it has, and `run_refines_full` applies -/
example :
    let a : Term := .iri ['a']; let b : Term := .bnode ['b']; let c : Term := .iri ['c']
    let ops : List Op := [.ins ⟨a, a, b, none⟩, .insAll [⟨b, a, a, none⟩, ⟨a, c, a, none⟩, ⟨b, b, b, none⟩]]
    noFull genericFastGraph (St.new genericFastGraph.shape 2) ops = false ∧
    abs (ops.foldl (stepM genericFastGraph) (St.new genericFastGraph.shape 2)) =
      [⟨b, a, a, none⟩, ⟨a, a, b, none⟩] ∧
    (ops.foldl (stepSF 2 3) ⟨[], []⟩).quads = [⟨a, a, b, none⟩, ⟨b, a, a, none⟩] := by decide

/-- `run_refines_small` for arbitrary quads / patterns, for each generated store -/
example (q₁ q₂ : Quad) (p : Pat) (hp : p.ms.length = 4) :
    let ops : List Op := [.insAll [q₁, q₂], .remM p]
    let s := ops.foldl (stepM genericLightDataset) (St.new genericLightDataset.shape maxU16)
    Good genericLightDataset s ∧ SameSet (abs s) (ops.foldl (stepS 4) []) ∧ NodupQ (abs s) :=
  run_refines_small genericLightDataset (by decide) maxU16 _
    (opOK_pair (fun _ _ h => by cases h) hp) (by simp [histSize, opSize, maxU16])

example (q₁ q₂ : Quad) :
    let ops : List Op := [.ins q₁, .rem q₂]
    let s := ops.foldl (stepM genericFastDataset) (St.new genericFastDataset.shape maxU32)
    Good genericFastDataset s ∧ SameSet (abs s) (ops.foldl (stepS 4) []) ∧ NodupQ (abs s) :=
  run_refines_small genericFastDataset (by decide) maxU32 _
    (opOK_pair (fun h => by cases h) (fun h => by cases h)) (by simp [histSize, opSize, maxU32])

example (q₁ : Quad) (h₁ : q₁.g = none) (p : Pat) (hp : p.ms.length = 3) :
    let ops : List Op := [.ins q₁, .retM p]
    let s := ops.foldl (stepM genericLightGraph) (St.new genericLightGraph.shape maxU16)
    Good genericLightGraph s ∧ SameSet (abs s) (ops.foldl (stepS 3) []) ∧ NodupQ (abs s) :=
  run_refines_small genericLightGraph (by decide) maxU16 _
    (opOK_pair (fun _ => h₁) hp) (by simp [histSize, opSize, maxU16])

example (q₁ q₂ : Quad) (h₁ : q₁.g = none) (h₂ : q₂.g = none) :
    let ops : List Op := [.ins q₁, .remAll [q₂]]
    let s := ops.foldl (stepM genericFastGraph) (St.new genericFastGraph.shape maxU32)
    Good genericFastGraph s ∧ SameSet (abs s) (ops.foldl (stepS 3) []) ∧ NodupQ (abs s) ∧
      contains genericFastGraph.arms s q₁ = qmem q₁ (ops.foldl (stepS 3) []) := by
  intro ops s
  have hok : ∀ op ∈ ops, OpOK genericFastGraph op :=
    opOK_pair (fun _ => h₁) (fun q hq _ => by
      simp only [List.mem_cons, List.not_mem_nil, or_false] at hq
      rw [hq]; exact h₂)
  obtain ⟨h1, h2, h3⟩ := run_refines_small genericFastGraph (by decide) maxU32 ops hok (by simp [ops, histSize, opSize, maxU32])
  refine ⟨h1, h2, h3, ?_⟩
  rw [contains_spec h1.1 h1.2.1 h1.2.2.1 q₁ (fun _ => h₁)]
  exact h2 q₁

end examples

end SophiaProofs.StoreP
