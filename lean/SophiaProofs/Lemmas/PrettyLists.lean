/- `build_lists` / `list_item` of `SophiaModel.Pretty`: every collection found is a well-formed chain. -/
import SophiaModel.Model.Pretty
import SophiaProofs.Lemmas.TermOrder

namespace SophiaProofs.Lemmas.PrettyLists
open SophiaModel Pretty Term

/-! ### blank nodes: `Term::cmp = Equal` is equality -/

theorem bnode_cmp_eq {a b : Term} (ha : isBnode a = true) (hb : isBnode b = true)
    (h : termCmp a b = .eq) : a = b := by
  cases a <;> cases b <;> simp [isBnode] at ha hb
  rename_i x y
  simp only [termCmp] at h
  by_cases hxy : x = y
  · rw [hxy]
  · exact absurd h (SophiaProofs.strCmp_ne_of_ne hxy)

/-! ### `list_item` -/

def isFirst (q : Quad) : Bool := isIriOf rdfFirst q.p && !isIriOf rdfRest q.p
def isRest (q : Quad) : Bool := isIriOf rdfRest q.p

theorem go_spec (l : List Quad) (ret : Option Term) (rs : Bool) (v : Term)
    (h : listItemGo l ret rs = some v) :
    (∀ q ∈ l, isFirst q = true ∨ isRest q = true) ∧
    (match ret with
     | some r => r = v ∧ (l.filter isFirst).length = 0
     | none => (l.filter isFirst).length = 1 ∧ ∃ q ∈ l, isFirst q = true ∧ q.o = v) ∧
    (Gen.PrettyFlags.singleRest = true → (l.filter isRest).length + (if rs then 1 else 0) ≤ 1) := by
  induction l generalizing ret rs with
  | nil =>
    simp only [listItemGo] at h
    subst h
    refine ⟨by simp, by simp, ?_⟩
    intro _
    cases rs <;> simp
  | cons q qs ih =>
    unfold listItemGo at h
    by_cases hr : isIriOf rdfRest q.p = true
    · simp only [hr, ↓reduceIte] at h
      by_cases hfl : (Gen.PrettyFlags.singleRest && rs) = true
      · simp [hfl] at h
      · simp only [hfl, Bool.false_eq_true, ↓reduceIte] at h
        obtain ⟨h1, h2, h3⟩ := ih ret true h
        have hnf : isFirst q = false := by simp [isFirst, hr]
        have hrq : isRest q = true := hr
        refine ⟨?_, ?_, ?_⟩
        · intro x hx
          rcases List.mem_cons.mp hx with rfl | hx
          · exact Or.inr hrq
          · exact h1 x hx
        · cases ret with
          | some r =>
            simp only [List.filter_cons, hnf, Bool.false_eq_true, ↓reduceIte]
            exact h2
          | none =>
            simp only [List.filter_cons, hnf, Bool.false_eq_true, ↓reduceIte]
            obtain ⟨ha, x, hx, hb⟩ := h2
            exact ⟨ha, x, List.mem_cons_of_mem _ hx, hb⟩
        · intro hf
          have h3' := h3 hf
          simp only [↓reduceIte] at h3'
          simp only [Bool.and_eq_true, not_and, Bool.not_eq_true] at hfl
          have hrs : rs = false := hfl hf
          simp only [List.filter_cons, hrq, ↓reduceIte, List.length_cons, hrs, Bool.false_eq_true]
          omega
    · simp only [hr, Bool.false_eq_true, ↓reduceIte] at h
      by_cases hf : (isIriOf rdfFirst q.p && ret.isNone) = true
      · simp only [hf, ↓reduceIte] at h
        simp only [Bool.and_eq_true] at hf
        obtain ⟨h1, h2, h3⟩ := ih (some q.o) rs h
        have hfq : isFirst q = true := by simp [isFirst, hf.1, hr]
        have hnr : isRest q = false := by simpa [isRest] using hr
        have hret : ret = none := by cases ret <;> simp at hf ⊢
        subst hret
        simp only at h2
        refine ⟨?_, ?_, ?_⟩
        · intro x hx
          rcases List.mem_cons.mp hx with rfl | hx
          · exact Or.inl hfq
          · exact h1 x hx
        · simp only [List.filter_cons, hfq, ↓reduceIte, List.length_cons, h2.2, Nat.zero_add, true_and]
          exact ⟨q, List.mem_cons_self, hfq, h2.1⟩
        · intro hfl
          have := h3 hfl
          simpa [List.filter_cons, hnr] using this
      · simp [hf] at h

/-- what `list_item(c, d) = Some(v)` says about the quads of `c` -/
structure ItemSpec (d : List Quad) (c v : Term) : Prop where
  /-- `c` has no property besides rdf:first and rdf:rest (in any graph) -/
  onlyFirstRest : ∀ q ∈ d, termEq q.s c = true → isFirst q = true ∨ isRest q = true
  /-- exactly one rdf:first … -/
  uniqueFirst : (d.filter (fun q => termEq q.s c && isFirst q)).length = 1
  /-- … whose object is the item -/
  hasFirst : ∃ q ∈ d, termEq q.s c = true ∧ isFirst q = true ∧ q.o = v
  /-- with the fix C04-single-rest: at most one rdf:rest.  (Shipped code: any number — finding C04-multi-rest.) -/
  singleRest : Gen.PrettyFlags.singleRest = true → (d.filter (fun q => termEq q.s c && isRest q)).length ≤ 1

theorem listItem_spec (d : List Quad) (c v : Term) (h : listItem c d = some v) : ItemSpec d c v := by
  unfold listItem at h
  obtain ⟨h1, h2, h3⟩ := go_spec _ none false v h
  simp only at h2
  refine ⟨?_, ?_, ?_, ?_⟩
  · intro q hq hs
    exact h1 q (List.mem_filter.mpr ⟨hq, hs⟩)
  · have : d.filter (fun q => termEq q.s c && isFirst q) = (d.filter (fun q => termEq q.s c)).filter isFirst := by
      rw [List.filter_filter]; congr; funext q; exact Bool.and_comm _ _
    rw [this]; exact h2.1
  · obtain ⟨q, hq, hf, ho⟩ := h2.2
    have := List.mem_filter.mp hq
    exact ⟨q, this.1, this.2, hf, ho⟩
  · intro hf
    have h3' := h3 hf
    have : d.filter (fun q => termEq q.s c && isRest q) = (d.filter (fun q => termEq q.s c)).filter isRest := by
      rw [List.filter_filter]; congr; funext q; exact Bool.and_comm _ _
    rw [this]
    simpa using h3'

/-! ### chains -/

/-- a link `s --rdf:rest--> o` of the dataset -/
def RestLink (d : List Quad) (s o : Term) : Prop := ∃ q ∈ d, q.s = s ∧ isIriOf rdfRest q.p = true ∧ q.o = o

/-- a well-formed collection read from its head: every cell satisfies `ok`, carries its item as the unique
rdf:first, is linked by rdf:rest to the next cell, the last one to rdf:nil -/
def WfList (d : List Quad) (ok : Term → Prop) : Term → List Term → Prop
  | _, [] => False
  | c, [v] => ok c ∧ listItem c d = some v ∧ RestLink d c (.iri rdfNil)
  | c, v :: w :: vs => ok c ∧ listItem c d = some v ∧ ∃ c', RestLink d c c' ∧ WfList d ok c' (w :: vs)

/-- the same chain in the order `build_lists` discovers it (from the seed towards the head) -/
inductive ChainRev (d : List Quad) (ok : Term → Prop) : Term → List Term → Prop
  | seed {s v} : ok s → listItem s d = some v → RestLink d s (.iri rdfNil) → ChainRev d ok s [v]
  | step {bn items pred val} : ChainRev d ok bn items → ok pred → listItem pred d = some val →
      RestLink d pred bn → ChainRev d ok pred (items ++ [val])

theorem chainRev_wf {d ok c its} (h : ChainRev d ok c its) : WfList d ok c its.reverse := by
  induction h with
  | seed hok hli hl => exact ⟨hok, hli, hl⟩
  | @step bn items pred val _ hok hli hl ih =>
    rw [List.reverse_append]
    simp only [List.reverse_cons, List.reverse_nil, List.nil_append, List.cons_append]
    cases hr : items.reverse with
    | nil => rw [hr] at ih; exact ih.elim
    | cons w vs =>
      rw [hr] at ih
      exact ⟨hok, hli, bn, hl, ih⟩

/-! ### first loop of `build_lists` -/

/-- the cell was classified `SubTree` by `build_subject_types` -/
def WasSubTree (sts0 : List STEntry) (c : Term) : Prop :=
  ∃ e ∈ sts0, e.st = .subTree ∧ termCmp e.s c = .eq

def CellOk (sts0 : List STEntry) (c : Term) : Prop := isBnode c = true ∧ WasSubTree sts0 c

def PredsOk (d : List Quad) (sts0 : List STEntry) (ps : Preds) : Prop :=
  ∀ e ∈ ps, isBnode e.1 = true ∧ RestLink d e.2 e.1 ∧ CellOk sts0 e.2

def SeedsOk (d : List Quad) (sts0 : List STEntry) (ss : List Seed) : Prop :=
  ∀ sd ∈ ss, ChainRev d (CellOk sts0) sd.s sd.items

theorem stGet_subTree {sts : List STEntry} {g : GName} {s : Term} (h : stGet sts g s = some .subTree) :
    ∃ e ∈ sts, e.st = .subTree ∧ termCmp e.s s = .eq := by
  unfold stGet at h
  cases hf : sts.find? (fun e => gCmp e.g g == .eq && termCmp e.s s == .eq) with
  | none => rw [hf] at h; cases h
  | some e =>
    rw [hf] at h
    simp only [Option.map_some, Option.some.injEq] at h
    have hp := List.find?_some hf
    simp only [Bool.and_eq_true, beq_iff_eq] at hp
    exact ⟨e, List.mem_of_find?_eq_some hf, h, hp.2⟩

theorem stRemove_sub (sts : List STEntry) (g : GName) (s : Term) : ∀ e ∈ stRemove sts g s, e ∈ sts := by
  intro e he
  exact (List.mem_filter.mp he).1

structure P1Inv (d : List Quad) (sts0 : List STEntry) (acc : ListsAcc) : Prop where
  preds : PredsOk d sts0 acc.preds
  seeds : SeedsOk d sts0 acc.seeds
  sub : ∀ e ∈ acc.sts, e ∈ sts0

theorem predsToggle_ok (d : List Quad) (sts0 : List STEntry) (ps : Preds) (o s : Term)
    (h : PredsOk d sts0 ps) (ho : isBnode o = true) (hl : RestLink d s o) (hc : CellOk sts0 s) :
    PredsOk d sts0 (predsToggle ps o s) := by
  unfold predsToggle
  split
  · intro e he
    exact h e (List.mem_filter.mp he).1
  · intro e he
    rcases List.mem_append.mp he with he | he
    · exact h e he
    · simp only [List.mem_singleton] at he
      subst he
      exact ⟨ho, hl, hc⟩

theorem phase1_step (d : List Quad) (sts0 : List STEntry) (acc : ListsAcc) (q : Quad)
    (hq : q ∈ d) (hqs : isBnode q.s = true) (hqp : isIriOf rdfRest q.p = true)
    (h : P1Inv d sts0 acc) :
    P1Inv d sts0
      (if stGet acc.sts q.g q.s != some .subTree then acc
       else if isIriOf rdfNil q.o then
         (match listItem q.s d with
          | some val => { acc with seeds := acc.seeds ++ [⟨q.g, q.s, [val]⟩], sts := stRemove acc.sts q.g q.s }
          | none => acc)
       else if isBnode q.o then { acc with preds := predsToggle acc.preds q.o q.s }
       else acc) := by
  by_cases hst : stGet acc.sts q.g q.s = some .subTree
  · have hne : (stGet acc.sts q.g q.s != some .subTree) = false := by simp [hst]
    simp only [hne, Bool.false_eq_true, ↓reduceIte]
    obtain ⟨e, he, hest, hecmp⟩ := stGet_subTree hst
    have hcell : CellOk sts0 q.s := ⟨hqs, e, h.sub e he, hest, hecmp⟩
    by_cases hnil : isIriOf rdfNil q.o = true
    · simp only [hnil, ↓reduceIte]
      cases hli : listItem q.s d with
      | none => exact h
      | some val =>
        refine ⟨h.preds, ?_, ?_⟩
        · intro sd hsd
          rcases List.mem_append.mp hsd with hsd | hsd
          · exact h.seeds sd hsd
          · simp only [List.mem_singleton] at hsd
            subst hsd
            have ho : q.o = .iri rdfNil := by
              cases hqo : q.o <;> simp [isIriOf, hqo] at hnil ⊢
              exact hnil
            exact ChainRev.seed hcell hli ⟨q, hq, rfl, hqp, ho⟩
        · intro x hx
          exact h.sub x (stRemove_sub _ _ _ x hx)
    · simp only [hnil, Bool.false_eq_true, ↓reduceIte]
      by_cases hbo : isBnode q.o = true
      · simp only [hbo, ↓reduceIte]
        exact ⟨predsToggle_ok d sts0 acc.preds q.o q.s h.preds hbo ⟨q, hq, rfl, hqp, rfl⟩ hcell, h.seeds, h.sub⟩
      · simp only [hbo, Bool.false_eq_true, ↓reduceIte]
        exact h
  · have hne : (stGet acc.sts q.g q.s != some .subTree) = true := by simp [hst]
    simp only [hne, ↓reduceIte]
    exact h

theorem phase1_fold (d : List Quad) (sts0 : List STEntry) (l : List Quad)
    (hl : ∀ q ∈ l, q ∈ d ∧ isBnode q.s = true ∧ isIriOf rdfRest q.p = true)
    (acc : ListsAcc) (h : P1Inv d sts0 acc) :
    P1Inv d sts0 (l.foldl (fun acc q =>
      if stGet acc.sts q.g q.s != some .subTree then acc
      else if isIriOf rdfNil q.o then
        (match listItem q.s d with
         | some val => { acc with seeds := acc.seeds ++ [⟨q.g, q.s, [val]⟩], sts := stRemove acc.sts q.g q.s }
         | none => acc)
      else if isBnode q.o then { acc with preds := predsToggle acc.preds q.o q.s }
      else acc) acc) := by
  induction l generalizing acc with
  | nil => exact h
  | cons q qs ih =>
    simp only [List.foldl_cons]
    obtain ⟨h1, h2, h3⟩ := hl q List.mem_cons_self
    exact ih (fun x hx => hl x (List.mem_cons_of_mem _ hx)) _ (phase1_step d sts0 acc q h1 h2 h3 h)

theorem phase1_inv (d : List Quad) (sts0 : List STEntry) : P1Inv d sts0 (listsPhase1 d sts0) := by
  unfold listsPhase1
  apply phase1_fold
  · intro q hq
    have := List.mem_filter.mp hq
    simp only [Bool.and_eq_true] at this
    exact ⟨this.1, this.2.1, this.2.2⟩
  · exact ⟨(by intro e he; cases he), (by intro e he; cases he), (fun e he => he)⟩

/-! ### second loop -/

theorem predsGet_mem {ps : Preds} {k v : Term} (h : predsGet ps k = some v) :
    ∃ e ∈ ps, e.2 = v ∧ termCmp e.1 k = .eq := by
  unfold predsGet at h
  cases hf : ps.find? (fun e => termCmp e.1 k == .eq) with
  | none => rw [hf] at h; cases h
  | some e =>
    rw [hf] at h
    simp only [Option.map_some, Option.some.injEq] at h
    have hp := List.find?_some hf
    simp only [beq_iff_eq] at hp
    exact ⟨e, List.mem_of_find?_eq_some hf, h, hp⟩

theorem chain_head_bnode {d sts0 c its} (h : ChainRev d (CellOk sts0) c its) : isBnode c = true := by
  cases h with
  | seed hok _ _ => exact hok.1
  | step _ hok _ _ => exact hok.1

theorem walkBack_chain (d : List Quad) (sts0 : List STEntry) (preds : Preds) (g : GName)
    (hp : PredsOk d sts0 preds) (fuel : Nat) (bn : Term) (items : List Term) (sts : List STEntry)
    (hc : ChainRev d (CellOk sts0) bn items)
    (head : Term) (its : List Term) (sts' : List STEntry)
    (h : walkBack d preds g fuel bn items sts = some (head, its, sts')) :
    ChainRev d (CellOk sts0) head its := by
  induction fuel generalizing bn items sts with
  | zero => simp [walkBack] at h
  | succ f ih =>
    unfold walkBack at h
    cases hpg : predsGet preds bn with
    | none =>
      rw [hpg] at h
      simp only [Option.some.injEq, Prod.mk.injEq] at h
      obtain ⟨rfl, rfl, _⟩ := h
      exact hc
    | some pred =>
      rw [hpg] at h
      simp only at h
      cases hli : listItem pred d with
      | none =>
        rw [hli] at h
        simp only [Option.some.injEq, Prod.mk.injEq] at h
        obtain ⟨rfl, rfl, _⟩ := h
        exact hc
      | some val =>
        rw [hli] at h
        simp only at h
        obtain ⟨e, he, he2, hecmp⟩ := predsGet_mem hpg
        obtain ⟨hb1, hlink, hcell⟩ := hp e he
        have heq : e.1 = bn := bnode_cmp_eq hb1 (chain_head_bnode hc) hecmp
        rw [he2, heq] at hlink
        rw [he2] at hcell
        exact ih pred (items ++ [val]) _ (ChainRev.step hc hcell hli hlink) h

def ListsOk (d : List Quad) (sts0 : List STEntry) (ls : Lists) : Prop :=
  ∀ e ∈ ls, ChainRev d (CellOk sts0) e.1 e.2.reverse

theorem listsInsert_ok (d : List Quad) (sts0 : List STEntry) (ls : Lists) (k : Term) (v : List Term)
    (h : ListsOk d sts0 ls) (hk : ChainRev d (CellOk sts0) k v.reverse) :
    ListsOk d sts0 (listsInsert ls k v) := by
  unfold listsInsert
  split
  · intro e he
    obtain ⟨x, hx, rfl⟩ := List.mem_map.mp he
    by_cases hcmp : (termCmp x.1 k == .eq) = true
    · simp only [hcmp, ↓reduceIte]
      have hxb : isBnode x.1 = true := chain_head_bnode (h x hx)
      have : x.1 = k := bnode_cmp_eq hxb (chain_head_bnode hk) (by simpa using hcmp)
      rw [this]
      exact hk
    · simp only [hcmp, Bool.false_eq_true, ↓reduceIte]
      exact h x hx
  · intro e he
    rcases List.mem_append.mp he with he | he
    · exact h e he
    · simp only [List.mem_singleton] at he
      subst he
      exact hk

theorem phase2_fold (d : List Quad) (sts0 : List STEntry) (preds : Preds) (hp : PredsOk d sts0 preds)
    (seeds : List Seed) (hs : SeedsOk d sts0 seeds)
    (st : Option (Lists × List STEntry)) (hst : ∀ ls sts, st = some (ls, sts) → ListsOk d sts0 ls)
    (ls : Lists) (sts : List STEntry)
    (h : seeds.foldl (fun (st : Option (Lists × List STEntry)) seed =>
      match st with
      | none => none
      | some (ls, sts) =>
        match walkBack d preds seed.g (preds.length + 1) seed.s seed.items sts with
        | none => none
        | some (head, items, sts') => some (listsInsert ls head items.reverse, sts')) st = some (ls, sts)) :
    ListsOk d sts0 ls := by
  induction seeds generalizing st with
  | nil =>
    simp only [List.foldl_nil] at h
    exact hst ls sts h
  | cons sd sds ih =>
    simp only [List.foldl_cons] at h
    apply ih (fun x hx => hs x (List.mem_cons_of_mem _ hx)) _ _ h
    intro ls' sts' heq
    cases st with
    | none => simp at heq
    | some p =>
      obtain ⟨ls0, sts0'⟩ := p
      simp only at heq
      cases hw : walkBack d preds sd.g (preds.length + 1) sd.s sd.items sts0' with
      | none => rw [hw] at heq; simp at heq
      | some r =>
        obtain ⟨head, items, sts''⟩ := r
        rw [hw] at heq
        simp only [Option.some.injEq, Prod.mk.injEq] at heq
        obtain ⟨rfl, _⟩ := heq
        have hch := walkBack_chain d sts0 preds sd.g hp _ _ _ _ (hs sd List.mem_cons_self) head items sts'' hw
        apply listsInsert_ok d sts0 ls0 head items.reverse (hst ls0 sts0' rfl)
        rw [List.reverse_reverse]
        exact hch

theorem buildLists_ok (d : List Quad) (sts0 : List STEntry) (ls : Lists) (sts : List STEntry)
    (h : buildLists d sts0 = some (ls, sts)) : ListsOk d sts0 ls := by
  unfold buildLists at h
  have hinv := phase1_inv d sts0
  apply phase2_fold d sts0 _ hinv.preds _ hinv.seeds _ _ ls sts h
  intro ls' sts' heq
  simp only [Option.some.injEq, Prod.mk.injEq] at heq
  obtain ⟨rfl, _⟩ := heq
  intro e he
  cases he

/-! ### `build_subject_types` -/

theorem subTree_spec (d : List Quad) (lab : List Str) (e : STEntry)
    (he : e ∈ buildSubjectTypes d lab) (hst : e.st = .subTree) :
    isBnode e.s = true ∧ isLabelled lab e.s = false ∧ inArcs d e.s e.g = 1 := by
  unfold buildSubjectTypes at he
  obtain ⟨gs, _, rfl⟩ := List.mem_map.mp he
  simp only at hst ⊢
  unfold classify at hst
  cases hs : gs.2 with
  | bnode l =>
    rw [hs] at hst
    simp only at hst
    split at hst
    · rename_i hc
      simp only [Bool.and_eq_true, Bool.not_eq_true', beq_iff_eq] at hc
      exact ⟨rfl, hc.1, hc.2⟩
    · cases hst
  | triple a b c =>
    rw [hs] at hst
    simp only at hst
    split at hst <;> cases hst
  | iri _ => rw [hs] at hst; cases hst
  | lit _ _ => rw [hs] at hst; cases hst
  | lang _ _ => rw [hs] at hst; cases hst
  | var _ => rw [hs] at hst; cases hst

end SophiaProofs.Lemmas.PrettyLists
