/-
Lemmas about the heap primitives of `SophiaModel.Heap` (property C10): allocation, release,
dereferencing, and the term-level operations built from them (`allocTerm` = `from_term`,
`copyTerm`, `cloneTermRef`, `asSimple`).
-/
import SophiaModel.Model.Heap

namespace SophiaProofs.HeapP
open SophiaModel SophiaModel.Term SophiaModel.Heap

/-! ## A. cells -/

/-- allocation `a` exists and has not been released -/
def Live (h : Heap) (a : Nat) : Prop := ∃ al, h.cells[a]? = some al ∧ al.live = true

/-- `h'` has every cell of `h`, unchanged (nothing that existed in `h` was released) -/
def Ext (h h' : Heap) : Prop :=
  h.cells.size ≤ h'.cells.size ∧ ∀ a, a < h.cells.size → h'.cells[a]? = h.cells[a]?

theorem Ext.refl (h : Heap) : Ext h h := ⟨Nat.le_refl _, fun _ _ => rfl⟩

theorem Ext.trans {h1 h2 h3 : Heap} (a : Ext h1 h2) (b : Ext h2 h3) : Ext h1 h3 :=
  ⟨Nat.le_trans a.1 b.1, fun x hx => by rw [b.2 x (Nat.lt_of_lt_of_le hx a.1), a.2 x hx]⟩

theorem Live.lt {h : Heap} {a : Nat} (l : Live h a) : a < h.cells.size := by
  obtain ⟨al, h1, _⟩ := l
  exact (Array.getElem?_eq_some_iff.1 h1).1

theorem Live.ext {h h' : Heap} {a : Nat} (l : Live h a) (e : Ext h h') : Live h' a := by
  obtain ⟨al, h1, h2⟩ := l
  exact ⟨al, by rw [e.2 a (Live.lt ⟨al, h1, h2⟩)]; exact h1, h2⟩

/-- the cells `ids` are the same in both heaps -/
def Same (h h' : Heap) (ids : List Nat) : Prop := ∀ a ∈ ids, h'.cells[a]? = h.cells[a]?

theorem Same.of_ext {h h' : Heap} {ids : List Nat} (e : Ext h h') (hl : ∀ a ∈ ids, a < h.cells.size) :
    Same h h' ids := fun a ha => e.2 a (hl a ha)

theorem Live.same {h h' : Heap} {a : Nat} (l : Live h a) (s : h'.cells[a]? = h.cells[a]?) : Live h' a := by
  obtain ⟨al, h1, h2⟩ := l
  exact ⟨al, by rw [s]; exact h1, h2⟩

/-! ### alloc -/

@[simp] theorem alloc_ub (h : Heap) (s : Str) : (h.alloc s).1.ub = h.ub := rfl
@[simp] theorem alloc_size (h : Heap) (s : Str) : (h.alloc s).1.cells.size = h.cells.size + 1 := by
  simp [Heap.alloc]
@[simp] theorem alloc_ref (h : Heap) (s : Str) : (h.alloc s).2 = ⟨true, h.cells.size, s.length⟩ := rfl

theorem alloc_get (h : Heap) (s : Str) (a : Nat) :
    (h.alloc s).1.cells[a]? = if a = h.cells.size then some ⟨true, s⟩ else h.cells[a]? := by
  simp [Heap.alloc, Array.getElem?_push]

theorem alloc_ext (h : Heap) (s : Str) : Ext h (h.alloc s).1 :=
  ⟨by simp, fun a ha => by rw [alloc_get]; simp [Nat.ne_of_lt ha]⟩

theorem alloc_live (h : Heap) (s : Str) : Live (h.alloc s).1 h.cells.size :=
  ⟨⟨true, s⟩, by rw [alloc_get]; simp, rfl⟩

/-! ### deref / read -/

theorem deref_same {h h' : Heap} {r : StrRef} (hs : r.len = 0 ∨ h'.cells[r.a]? = h.cells[r.a]?) :
    h'.deref r = h.deref r := by
  unfold Heap.deref
  rcases hs with h0 | h1
  · simp [h0]
  · rw [h1]

theorem deref_of_live {h : Heap} {r : StrRef} (l : Live h r.a) : ∃ s, h.deref r = some s := by
  obtain ⟨al, h1, h2⟩ := l
  unfold Heap.deref
  by_cases h0 : r.len = 0
  · exact ⟨[], by simp [h0]⟩
  · exact ⟨al.bytes.take r.len, by simp [h0, h1, h2]⟩

theorem deref_ext {h h' : Heap} {r : StrRef} {s : Str} (e : Ext h h') (hd : h.deref r = some s) :
    h'.deref r = some s := by
  by_cases h0 : r.len = 0
  · rw [deref_same (h := h) (Or.inl h0)]; exact hd
  · have : r.a < h.cells.size := by
      unfold Heap.deref at hd
      simp only [h0, if_false] at hd
      cases hc : h.cells[r.a]? with
      | none => simp [hc] at hd
      | some al => exact (Array.getElem?_eq_some_iff.1 hc).1
    rw [deref_same (h := h) (Or.inr (e.2 _ this))]; exact hd

theorem read_of_deref {h : Heap} {r : StrRef} {s : Str} (hd : h.deref r = some s) : h.read r = (h, s) := by
  simp [Heap.read, hd]

theorem deref_of_cell {h : Heap} {r : StrRef} {s : Str} (hc : h.cells[r.a]? = some ⟨true, s⟩)
    (hl : r.len = s.length) : h.deref r = some s := by
  unfold Heap.deref
  by_cases h0 : r.len = 0
  · rw [if_pos h0]
    rw [h0] at hl
    rw [List.eq_nil_of_length_eq_zero hl.symm]
  · rw [if_neg h0, hc]
    simp [hl]

theorem deref_alloc (h : Heap) (s : Str) : (h.alloc s).1.deref (h.alloc s).2 = some s :=
  deref_of_cell (r := ⟨true, h.cells.size, s.length⟩) (by rw [alloc_get]; simp) rfl

theorem deref_borrowOf (h : Heap) (r : StrRef) : h.deref (borrowOf r) = h.deref r := rfl

/-! ### free -/

theorem free_size (h : Heap) (a : Nat) : (h.free a).cells.size = h.cells.size := by
  unfold Heap.free
  split
  · split <;> simp
  · rfl

theorem free_get_other (h : Heap) {a b : Nat} (hab : a ≠ b) : (h.free a).cells[b]? = h.cells[b]? := by
  unfold Heap.free
  split
  · split
    · simp [Array.getElem?_modify, hab]
    · rfl
  · rfl

theorem free_ub_of_live {h : Heap} {a : Nat} (l : Live h a) : (h.free a).ub = h.ub := by
  obtain ⟨al, h1, h2⟩ := l
  simp [Heap.free, h1, h2]

theorem free_not_live (h : Heap) (a : Nat) : ¬ Live (h.free a) a := by
  rintro ⟨al, h1, h2⟩
  unfold Heap.free at h1
  split at h1
  · next c hc =>
    split at h1
    · simp [Array.getElem?_modify, hc] at h1
      rw [← h1] at h2
      simp at h2
    · next hl =>
      rw [hc] at h1
      cases h1
      exact hl h2
  · next hc => simp [hc] at h1

theorem freeAll_size (h : Heap) (ids : List Nat) : (h.freeAll ids).cells.size = h.cells.size := by
  induction ids generalizing h with
  | nil => rfl
  | cons a r ih => simp only [Heap.freeAll, List.foldl_cons] at *; rw [ih, free_size]

theorem freeAll_get_other (h : Heap) {ids : List Nat} {b : Nat} (hb : b ∉ ids) :
    (h.freeAll ids).cells[b]? = h.cells[b]? := by
  induction ids generalizing h with
  | nil => rfl
  | cons a r ih =>
    simp only [List.mem_cons, not_or] at hb
    simp only [Heap.freeAll, List.foldl_cons] at *
    rw [ih _ hb.2, free_get_other _ (Ne.symm hb.1)]

/-- releasing distinct live allocations is not UB -/
theorem freeAll_ub {h : Heap} {ids : List Nat} (nd : ids.Nodup) (hl : ∀ a ∈ ids, Live h a) :
    (h.freeAll ids).ub = h.ub := by
  induction ids generalizing h with
  | nil => rfl
  | cons a r ih =>
    simp only [Heap.freeAll, List.foldl_cons]
    have nd' := List.nodup_cons.1 nd
    have : (Heap.freeAll (h.free a) r).ub = (h.free a).ub := by
      apply ih nd'.2
      intro b hb
      have hne : a ≠ b := fun e => nd'.1 (e ▸ hb)
      exact (hl b (List.mem_cons_of_mem _ hb)).same (free_get_other h hne)
    simp only [Heap.freeAll] at this
    rw [this, free_ub_of_live (hl a (List.mem_cons_self ..))]

/-- releasing only fresh allocations (ids ≥ the size of `h0`) keeps every cell of `h0` -/
theorem freeAll_ext {h0 h : Heap} {ids : List Nat} (e : Ext h0 h) (hf : ∀ a ∈ ids, h0.cells.size ≤ a) :
    Ext h0 (h.freeAll ids) :=
  ⟨by rw [freeAll_size]; exact e.1, fun a ha => by
    rw [freeAll_get_other _ (fun hm => Nat.lt_irrefl _ (Nat.lt_of_lt_of_le ha (hf a hm)))]
    exact e.2 a ha⟩

/-! ## B. fresh blocks of allocations -/

/-- `ids` are allocations that did not exist in `h`, exist and are live in `h'`, pairwise distinct; nothing
that existed in `h` was touched.  (Other new cells may exist in `h'` — temporaries that were released again.) -/
structure Fresh (h h' : Heap) (ids : List Nat) : Prop where
  ext : Ext h h'
  nd : ids.Nodup
  new : ∀ a ∈ ids, h.cells.size ≤ a ∧ a < h'.cells.size
  live : ∀ a ∈ ids, Live h' a

theorem Fresh.nil (h : Heap) : Fresh h h [] where
  ext := Ext.refl h
  nd := List.nodup_nil
  new := fun _ ha => by simp at ha
  live := fun _ ha => by simp at ha

/-- (kept in the shape `f.mem.1` of an earlier, stricter definition) -/
theorem Fresh.mem {h h' : Heap} {ids : List Nat} (f : Fresh h h' ids) {a : Nat} :
    (a ∈ ids → h.cells.size ≤ a ∧ a < h'.cells.size) ∧ True := ⟨f.new a, trivial⟩

theorem Fresh.nodup {h h' : Heap} {ids : List Nat} (f : Fresh h h' ids) : ids.Nodup := f.nd

theorem Fresh.live_mem {h h' : Heap} {ids : List Nat} (f : Fresh h h' ids) {a : Nat} (ha : a ∈ ids) : Live h' a :=
  f.live a ha

theorem Fresh.append {h1 h2 h3 : Heap} {a b : List Nat} (f : Fresh h1 h2 a) (g : Fresh h2 h3 b) :
    Fresh h1 h3 (a ++ b) where
  ext := f.ext.trans g.ext
  nd := by
    rw [List.nodup_append]
    refine ⟨f.nd, g.nd, fun x hx y hy hxy => ?_⟩
    have := (f.new x hx).2; have := (g.new y hy).1; omega
  new := fun x hx => by
    rcases List.mem_append.1 hx with hx | hx
    · exact ⟨(f.new x hx).1, Nat.lt_of_lt_of_le (f.new x hx).2 g.ext.1⟩
    · exact ⟨Nat.le_trans f.ext.1 (g.new x hx).1, (g.new x hx).2⟩
  live := fun x hx => by
    rcases List.mem_append.1 hx with hx | hx
    · exact (f.live x hx).ext g.ext
    · exact g.live x hx

theorem Fresh.alloc (h : Heap) (s : Str) : Fresh h (h.alloc s).1 [h.cells.size] where
  ext := alloc_ext h s
  nd := by simp
  new := fun a ha => by simp at ha; subst ha; simp
  live := fun a ha => by simp at ha; subst ha; exact alloc_live h s

/-! ## C. lists of strings -/

def AllOwned (rs : List StrRef) : Prop := ∀ r ∈ rs, r.owned = true

theorem derefs_same {h h' : Heap} {rs : List StrRef}
    (hs : ∀ r ∈ rs, r.len = 0 ∨ h'.cells[r.a]? = h.cells[r.a]?) : h'.derefs rs = h.derefs rs := by
  induction rs with
  | nil => rfl
  | cons r rs ih =>
    simp only [Heap.derefs]
    rw [deref_same (hs r (List.mem_cons_self ..)), ih (fun x hx => hs x (List.mem_cons_of_mem _ hx))]

theorem derefs_ext {h h' : Heap} {rs : List StrRef} {ss : List Str} (e : Ext h h')
    (hd : h.derefs rs = some ss) : h'.derefs rs = some ss := by
  induction rs generalizing ss with
  | nil => exact hd
  | cons r rs ih =>
    simp only [Heap.derefs] at hd ⊢
    cases h1 : h.deref r with
    | none => simp [h1] at hd
    | some x =>
      cases h2 : h.derefs rs with
      | none => simp [h1, h2] at hd
      | some xs =>
        simp [h1, h2] at hd
        simp [deref_ext e h1, ih h2, hd]

theorem reads_of_derefs {h : Heap} {rs : List StrRef} {ss : List Str} (hd : h.derefs rs = some ss) :
    h.reads rs = (h, ss) := by
  induction rs generalizing ss with
  | nil => simp [Heap.derefs] at hd; simp [Heap.reads, hd]
  | cons r rs ih =>
    simp only [Heap.derefs] at hd
    cases h1 : h.deref r with
    | none => simp [h1] at hd
    | some x =>
      cases h2 : h.derefs rs with
      | none => simp [h1, h2] at hd
      | some xs =>
        simp [h1, h2] at hd
        simp [Heap.reads, read_of_deref h1, ih h2, hd]

theorem derefs_map_borrowOf (h : Heap) (rs : List StrRef) : h.derefs (rs.map borrowOf) = h.derefs rs := by
  induction rs with
  | nil => rfl
  | cons r rs ih => simp only [List.map_cons, Heap.derefs, deref_borrowOf, ih]

theorem derefs_cons_some {h : Heap} {r : StrRef} {rs : List StrRef} {ss : List Str}
    (hd : h.derefs (r :: rs) = some ss) : ∃ x xs, h.deref r = some x ∧ h.derefs rs = some xs ∧ ss = x :: xs := by
  simp only [Heap.derefs] at hd
  cases h1 : h.deref r with
  | none => simp [h1] at hd
  | some x =>
    cases h2 : h.derefs rs with
    | none => simp [h1, h2] at hd
    | some xs => simp [h1, h2] at hd; exact ⟨x, xs, rfl, rfl, hd.symm⟩

/-- what `allocs` / `copyRefs` produce: a fresh block of owned strings with the given content -/
structure NewStrs (h h' : Heap) (rs : List StrRef) (ss : List Str) : Prop where
  fresh : Fresh h h' (rs.map (·.a))
  owned : AllOwned rs
  ub : h'.ub = h.ub
  content : h'.derefs rs = some ss

/-- `ensure_owned`: whichever branch is taken, the returned string OWNS a buffer that did not exist before the
call, that buffer is live and holds the argument's bytes; the `transmute` branch (`m.is_owned()`) is only
reached after the deep `clone`, and dropping the argument afterwards releases a DIFFERENT buffer -/
theorem ensureOwned_spec (h : Heap) (m : StrRef) (s : Str) (hm : h.deref m = some s)
    (hl : m.owned = true → Live h m.a) :
    let r := ensureOwned h m
    r.2.owned = true ∧ r.2.a = h.cells.size ∧ (m.owned = true → r.2.a ≠ m.a) ∧ Live r.1 r.2.a ∧
    r.1.deref r.2 = some s ∧ r.1.ub = h.ub := by
  have hne : m.owned = true → h.cells.size ≠ m.a := fun ho e => by
    have := (hl ho).lt; omega
  simp only [ensureOwned, read_of_deref hm]
  cases ho : m.owned with
  | true =>
    simp only [if_true]
    have hl' : Live (h.alloc s).1 m.a := (hl ho).ext (alloc_ext h s)
    refine ⟨rfl, rfl, fun _ => hne ho, ?_, ?_, ?_⟩
    · exact (alloc_live h s).same (free_get_other _ (Ne.symm (hne ho)))
    · rw [deref_same (h := (h.alloc s).1) (Or.inr (free_get_other _ (Ne.symm (hne ho))))]
      exact deref_alloc h s
    · rw [free_ub_of_live hl']; rfl
  | false =>
    simp only [Bool.false_eq_true, if_false]
    exact ⟨rfl, rfl, fun h1 => False.elim h1, alloc_live h s, deref_alloc h s, rfl⟩

/-- both branches of `ensure_owned`, fed by an accessor whose string owns resp. borrows its buffer, end in the
same heap: the buffer `b` the accessor's string lived in is released, the `'static` string owns the next cell -/
theorem feedStr_eq (own : Bool) (h : Heap) (s : Str) :
    feedStr own h s = (((h.alloc s).1.alloc s).1.free h.cells.size, ⟨true, h.cells.size + 1, s.length⟩) := by
  have hd : (h.alloc s).1.deref (h.alloc s).2 = some s := deref_alloc h s
  have hd' : (h.alloc s).1.deref (borrowOf (h.alloc s).2) = some s := by rw [deref_borrowOf]; exact hd
  cases own with
  | true =>
    simp only [feedStr, if_true, ensureOwned, read_of_deref hd]
    simp [Heap.alloc]
  | false =>
    simp only [feedStr, Bool.false_eq_true, if_false, ensureOwned, read_of_deref hd']
    simp [Heap.alloc, borrowOf]

theorem feedStr_spec (own : Bool) (h : Heap) (s : Str) :
    Fresh h (feedStr own h s).1 [(feedStr own h s).2.a] ∧ (feedStr own h s).2.owned = true ∧
    (feedStr own h s).1.ub = h.ub ∧ (feedStr own h s).1.deref (feedStr own h s).2 = some s := by
  rw [feedStr_eq]
  have e1 : Ext h ((h.alloc s).1.alloc s).1 := (alloc_ext h s).trans (alloc_ext _ s)
  have hne : h.cells.size ≠ h.cells.size + 1 := by omega
  have hl2 : Live ((h.alloc s).1.alloc s).1 (h.cells.size + 1) := by
    have := alloc_live (h.alloc s).1 s
    simpa using this
  have hl1 : Live ((h.alloc s).1.alloc s).1 h.cells.size := (alloc_live h s).ext (alloc_ext _ s)
  refine ⟨⟨?_, by simp, ?_, ?_⟩, rfl, ?_, ?_⟩
  · have := freeAll_ext (h0 := h) (ids := [h.cells.size]) e1 (by simp)
    simpa [Heap.freeAll] using this
  · intro a ha
    simp only [List.mem_singleton] at ha
    subst ha
    simp [free_size]
  · intro a ha
    simp only [List.mem_singleton] at ha
    subst ha
    exact hl2.same (free_get_other _ hne)
  · rw [free_ub_of_live hl1]; rfl
  · rw [deref_same (h := ((h.alloc s).1.alloc s).1) (Or.inr (free_get_other _ hne))]
    have := deref_alloc (h.alloc s).1 s
    simpa using this

theorem feedStrs_spec (own : Bool) (h : Heap) (ss : List Str) :
    NewStrs h (feedStrs own h ss).1 (feedStrs own h ss).2 ss := by
  induction ss generalizing h with
  | nil => exact ⟨Fresh.nil h, fun _ hr => by simp [feedStrs] at hr, rfl, rfl⟩
  | cons s ss ih =>
    have i := ih (feedStr own h s).1
    obtain ⟨f1, o1, u1, d1⟩ := feedStr_spec own h s
    simp only [feedStrs]
    refine ⟨?_, ?_, ?_, ?_⟩
    · have := f1.append i.fresh
      simpa using this
    · intro r hr
      simp only [List.mem_cons] at hr
      rcases hr with rfl | hr
      · exact o1
      · exact i.owned r hr
    · rw [i.ub, u1]
    · simp only [Heap.derefs]
      rw [deref_ext i.fresh.ext d1, i.content]; rfl

theorem copyRefs_spec {h : Heap} {rs : List StrRef} {ss : List Str} (hd : h.derefs rs = some ss) :
    NewStrs h (copyRefs h rs).1 (copyRefs h rs).2 ss := by
  induction rs generalizing h ss with
  | nil =>
    simp [Heap.derefs] at hd
    subst hd
    exact ⟨Fresh.nil h, fun _ hr => by simp [copyRefs] at hr, rfl, rfl⟩
  | cons r rs ih =>
    obtain ⟨x, xs, h1, h2, rfl⟩ := derefs_cons_some hd
    have i := ih (h := (h.alloc x).1) (derefs_ext (alloc_ext h x) h2)
    simp only [copyRefs, read_of_deref h1]
    refine ⟨?_, ?_, ?_, ?_⟩
    · have := (Fresh.alloc h x).append i.fresh
      simpa using this
    · intro r' hr
      simp only [List.mem_cons] at hr
      rcases hr with rfl | hr
      · rfl
      · exact i.owned r' hr
    · rw [i.ub]; rfl
    · simp only [Heap.derefs]
      rw [deref_ext i.fresh.ext (deref_alloc h x), i.content]; rfl

theorem cloneRefs_eq_copyRefs {rs : List StrRef} (ho : AllOwned rs) (h : Heap) : cloneRefs h rs = copyRefs h rs := by
  induction rs generalizing h with
  | nil => rfl
  | cons r rs ih =>
    have hr : r.owned = true := ho r (List.mem_cons_self ..)
    simp only [cloneRefs, copyRefs, cloneRef, hr, if_true]
    rw [ih (fun x hx => ho x (List.mem_cons_of_mem _ hx))]

/-! ## D. terms -/

theorem ownedIds_triple (a b c : TermRef) :
    (TermRef.triple a b c).ownedIds = a.ownedIds ++ b.ownedIds ++ c.ownedIds := by
  simp [TermRef.ownedIds, TermRef.refs]

theorem ownedIds_of_allOwned {t : TermRef} (ho : AllOwned t.refs) : t.ownedIds = t.refs.map (·.a) := by
  unfold TermRef.ownedIds
  rw [List.filter_eq_self.2 (fun r hr => ho r hr)]

theorem mem_ownedIds {t : TermRef} {a : Nat} : a ∈ t.ownedIds ↔ ∃ r ∈ t.refs, r.owned = true ∧ r.a = a := by
  simp [TermRef.ownedIds, and_assoc]

theorem allOwned_triple {a b c : TermRef} (ha : AllOwned a.refs) (hb : AllOwned b.refs) (hc : AllOwned c.refs) :
    AllOwned (TermRef.triple a b c).refs := by
  intro r hr
  simp only [TermRef.refs, List.mem_append] at hr
  rcases hr with (hr | hr) | hr
  · exact ha r hr
  · exact hb r hr
  · exact hc r hr

theorem readTerm?_same {h h' : Heap} {t : TermRef}
    (hs : ∀ r ∈ t.refs, r.len = 0 ∨ h'.cells[r.a]? = h.cells[r.a]?) : readTerm? h' t = readTerm? h t := by
  induction t with
  | atom k ss => simp only [readTerm?]; rw [derefs_same (rs := ss) hs]
  | triple s p o ihs ihp iho =>
    simp only [readTerm?]
    rw [ihs (fun r hr => hs r (by simp [TermRef.refs, hr])),
      ihp (fun r hr => hs r (by simp [TermRef.refs, hr])),
      iho (fun r hr => hs r (by simp [TermRef.refs, hr]))]

theorem readTerm?_triple_some {h : Heap} {s p o : TermRef} {x : Term}
    (hr : readTerm? h (.triple s p o) = some x) :
    ∃ a b c, readTerm? h s = some a ∧ readTerm? h p = some b ∧ readTerm? h o = some c ∧ x = .triple a b c := by
  simp only [readTerm?] at hr
  cases h1 : readTerm? h s with
  | none => simp [h1] at hr
  | some a =>
    cases h2 : readTerm? h p with
    | none => simp [h1, h2] at hr
    | some b =>
      cases h3 : readTerm? h o with
      | none => simp [h1, h2, h3] at hr
      | some c => simp [h1, h2, h3] at hr; exact ⟨a, b, c, rfl, rfl, rfl, hr.symm⟩

theorem readTerm?_ext {h h' : Heap} {t : TermRef} {x : Term} (e : Ext h h') (hr : readTerm? h t = some x) :
    readTerm? h' t = some x := by
  induction t generalizing x with
  | atom k ss =>
    simp only [readTerm?] at hr ⊢
    cases hd : h.derefs ss with
    | none => simp [hd] at hr
    | some xs => rw [derefs_ext e hd]; rw [hd] at hr; exact hr
  | triple s p o ihs ihp iho =>
    obtain ⟨a, b, c, h1, h2, h3, rfl⟩ := readTerm?_triple_some hr
    simp [readTerm?, ihs h1, ihp h2, iho h3]

theorem readTermU_of_read {h : Heap} {t : TermRef} {x : Term} (hr : readTerm? h t = some x) :
    readTermU h t = (h, x) := by
  induction t generalizing x with
  | atom k ss =>
    simp only [readTerm?] at hr
    cases hd : h.derefs ss with
    | none => simp [hd] at hr
    | some xs =>
      rw [hd] at hr
      simp only [Option.bind_some] at hr
      simp [readTermU, reads_of_derefs hd, hr]
  | triple s p o ihs ihp iho =>
    obtain ⟨a, b, c, h1, h2, h3, rfl⟩ := readTerm?_triple_some hr
    simp [readTermU, ihs h1, ihp h2, iho h3]

/-- what `allocTerm` / `copyTerm` produce: a term owning a fresh block of strings, with the given content -/
structure NewTerm (h h' : Heap) (t : TermRef) (x : Term) : Prop where
  fresh : Fresh h h' t.ownedIds
  owned : AllOwned t.refs
  ub : h'.ub = h.ub
  content : readTerm? h' t = some x

theorem NewTerm.triple {h0 h1 h2 h3 : Heap} {a b c : TermRef} {x y z : Term}
    (na : NewTerm h0 h1 a x) (nb : NewTerm h1 h2 b y) (nc : NewTerm h2 h3 c z) :
    NewTerm h0 h3 (.triple a b c) (.triple x y z) where
  fresh := by rw [ownedIds_triple]; exact (na.fresh.append nb.fresh).append nc.fresh
  owned := allOwned_triple na.owned nb.owned nc.owned
  ub := by rw [nc.ub, nb.ub, na.ub]
  content := by
    simp [readTerm?, readTerm?_ext (nb.fresh.ext.trans nc.fresh.ext) na.content,
      readTerm?_ext nc.fresh.ext nb.content, nc.content]

theorem atomAlloc_spec (own : Bool) (h : Heap) (k : AKind) (ss : List Str) (x : Term) (hm : mkTerm k ss = some x) :
    NewTerm h (atomAlloc own h k ss).1 (atomAlloc own h k ss).2 x := by
  have i := feedStrs_spec own h ss
  simp only [atomAlloc]
  refine ⟨?_, i.owned, i.ub, ?_⟩
  · rw [ownedIds_of_allOwned (t := .atom k _) i.owned]; exact i.fresh
  · simp [readTerm?, i.content, hm]

theorem allocTerm_spec (own : Bool) (h : Heap) (t : Term) :
    NewTerm h (allocTerm own h t).1 (allocTerm own h t).2 t := by
  induction t generalizing h with
  | iri s => exact atomAlloc_spec own h .iri [s] _ rfl
  | bnode s => exact atomAlloc_spec own h .bnode [s] _ rfl
  | var s => exact atomAlloc_spec own h .var [s] _ rfl
  | lit l d => exact atomAlloc_spec own h .lit [l, d] _ rfl
  | lang l g => exact atomAlloc_spec own h .lang [l, g] _ rfl
  | triple s p o ihs ihp iho =>
    simp only [allocTerm]
    exact NewTerm.triple (ihs h) (ihp _) (iho _)

theorem copyTerm_spec {h : Heap} {t : TermRef} {x : Term} (hr : readTerm? h t = some x) :
    NewTerm h (copyTerm h t).1 (copyTerm h t).2 x := by
  induction t generalizing h x with
  | atom k ss =>
    simp only [readTerm?] at hr
    cases hd : h.derefs ss with
    | none => simp [hd] at hr
    | some xs =>
      rw [hd] at hr
      simp only [Option.bind_some] at hr
      have i := copyRefs_spec hd
      simp only [copyTerm]
      refine ⟨?_, i.owned, i.ub, ?_⟩
      · rw [ownedIds_of_allOwned (t := .atom k _) i.owned]; exact i.fresh
      · simp [readTerm?, i.content, hr]
  | triple s p o ihs ihp iho =>
    obtain ⟨a, b, c, h1, h2, h3, rfl⟩ := readTerm?_triple_some hr
    simp only [copyTerm]
    have na := ihs h1
    have nb := ihp (readTerm?_ext na.fresh.ext h2)
    have nc := iho (readTerm?_ext (na.fresh.ext.trans nb.fresh.ext) h3)
    exact NewTerm.triple na nb nc

theorem cloneTermRef_eq_copyTerm {t : TermRef} (ho : AllOwned t.refs) (h : Heap) :
    cloneTermRef h t = copyTerm h t := by
  induction t generalizing h with
  | atom k ss => simp only [cloneTermRef, copyTerm]; rw [cloneRefs_eq_copyRefs (rs := ss) ho]
  | triple s p o ihs ihp iho =>
    simp only [cloneTermRef, copyTerm]
    rw [ihs (fun r hr => ho r (by simp [TermRef.refs, hr])),
      ihp (fun r hr => ho r (by simp [TermRef.refs, hr])),
      iho (fun r hr => ho r (by simp [TermRef.refs, hr]))]

/-- `as_simple` + `transmute`: what `i2t` gets for the key `k` -/
structure Borrowed (h h' : Heap) (k t : TermRef) (x : Term) : Prop where
  fresh : Fresh h h' t.ownedIds
  ub : h'.ub = h.ub
  content : readTerm? h' t = some x
  /-- every string of `t` is owned by `t` or lies in a buffer owned by `k` -/
  inKey : ∀ r ∈ t.refs, r.owned = true ∨ r.a ∈ k.ownedIds

theorem asSimple_spec {h : Heap} {k : TermRef} {x : Term} (ho : AllOwned k.refs) (hr : readTerm? h k = some x) :
    Borrowed h (asSimple h k).1 k (asSimple h k).2 x := by
  cases k with
  | atom kd ss =>
    simp only [asSimple]
    refine ⟨?_, rfl, ?_, ?_⟩
    · have : (TermRef.atom kd (ss.map borrowOf)).ownedIds = [] := by
        simp [TermRef.ownedIds, TermRef.refs, borrowOf]
      rw [this]; exact Fresh.nil h
    · simpa [readTerm?, derefs_map_borrowOf] using hr
    · intro r hm
      simp only [TermRef.refs, List.mem_map] at hm
      obtain ⟨r0, h0, rfl⟩ := hm
      right
      exact mem_ownedIds.2 ⟨r0, h0, ho r0 h0, rfl⟩
  | triple s p o =>
    obtain ⟨a, b, c, h1, h2, h3, rfl⟩ := readTerm?_triple_some hr
    simp only [asSimple]
    have na := copyTerm_spec h1
    have nb := copyTerm_spec (readTerm?_ext na.fresh.ext h2)
    have nc := copyTerm_spec (readTerm?_ext (na.fresh.ext.trans nb.fresh.ext) h3)
    have n := NewTerm.triple na nb nc
    exact ⟨n.fresh, n.ub, n.content, fun r hm => Or.inl (n.owned r hm)⟩

/-! ### shape and provenance of what `as_simple` hands to `i2t` (structural: no heap reasoning) -/

theorem copyRefs_length (h : Heap.Heap) (rs : List StrRef) : (copyRefs h rs).2.length = rs.length := by
  induction rs generalizing h with
  | nil => rfl
  | cons r rs ih => simp only [copyRefs, List.length_cons]; rw [ih]

theorem copyRefs_allOwned (h : Heap.Heap) (rs : List StrRef) : AllOwned (copyRefs h rs).2 := by
  induction rs generalizing h with
  | nil => intro r hr; simp [copyRefs] at hr
  | cons r0 rs ih =>
    intro r hr
    simp only [copyRefs, List.mem_cons] at hr
    rcases hr with rfl | hr
    · rfl
    · exact ih _ r hr

theorem copyTerm_sameShape (h : Heap.Heap) (t : TermRef) : t.sameShape (copyTerm h t).2 = true := by
  induction t generalizing h with
  | atom k ss => simp [copyTerm, TermRef.sameShape, copyRefs_length]
  | triple s p o ihs ihp iho => simp only [copyTerm, TermRef.sameShape, ihs, ihp, iho, Bool.and_self]

theorem copyTerm_allOwned (h : Heap.Heap) (t : TermRef) : AllOwned (copyTerm h t).2.refs := by
  induction t generalizing h with
  | atom k ss => simpa [copyTerm, TermRef.refs] using copyRefs_allOwned h ss
  | triple s p o ihs ihp iho =>
    simp only [copyTerm]
    exact allOwned_triple (ihs _) (ihp _) (iho _)

/-- what `ensure_index` puts into `i2t` for the key `k` has the key's shape and borrows only from it -/
theorem asSimple_paired (h : Heap.Heap) {k : TermRef} (ho : AllOwned k.refs) :
    k.sameShape (asSimple h k).2 = true ∧ insideKey k (asSimple h k).2 = true := by
  cases k with
  | atom kd ss =>
    refine ⟨by simp [asSimple, TermRef.sameShape], ?_⟩
    simp only [asSimple, insideKey, TermRef.refs, List.all_eq_true, List.mem_map, Bool.or_eq_true, beq_iff_eq,
      List.contains_eq_mem, decide_eq_true_eq]
    rintro r ⟨r0, h0, rfl⟩
    exact Or.inr (mem_ownedIds.2 ⟨r0, h0, ho r0 h0, rfl⟩)
  | triple s p o =>
    refine ⟨by simp only [asSimple, TermRef.sameShape, copyTerm_sameShape, Bool.and_self], ?_⟩
    have hall : AllOwned (asSimple h (.triple s p o)).2.refs := by
      simp only [asSimple]
      exact allOwned_triple (copyTerm_allOwned _ _) (copyTerm_allOwned _ _) (copyTerm_allOwned _ _)
    simp only [insideKey, List.all_eq_true, Bool.or_eq_true]
    intro r hr
    exact Or.inl (Or.inl (hall r hr))


end SophiaProofs.HeapP
