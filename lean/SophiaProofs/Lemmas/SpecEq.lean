/-
Steps 3–6 of the transcription of the Recommendation when all first-degree hashes are distinct,
related to the implementation model's.
-/
import SophiaProofs.Lemmas.SpecSteps

namespace SophiaProofs.SpecL
open SophiaModel SophiaModel.Rdfc10 SophiaProofs.Rdfc10L SophiaProofs.CnqL
open Rdfc10Spec (lookup addTo blankLabel isRdfQuad Deviations IdIssuer issueId State sortBy)

/-! ### step 3 -/

theorem addTo_fresh {β : Type} (k : Str) (x : β) : ∀ m : List (Str × List β), k ∉ m.map (·.1) → addTo k x m = m ++ [(k, [x])]
  | [], _ => rfl
  | (k0, v) :: r, h => by
    simp only [List.map_cons, List.mem_cons, not_or] at h
    unfold addTo
    simp only [h.1, if_false, List.cons_append]
    rw [addTo_fresh k x r h.2]

theorem addTo_fresh_fold (h : Str → Str) : ∀ (ks : List Str) (m : List (Str × List Str)),
    (m.map (·.1) ++ ks.map h).Nodup →
    ks.foldl (fun m k => addTo (h k) k m) m = m ++ ks.map (fun k => (h k, [k]))
  | [], m, _ => by simp
  | k :: ks, m, hnd => by
    have hfresh : h k ∉ m.map (·.1) := by
      intro hm
      exact (List.nodup_append.mp hnd).2.2 _ hm (h k) (by simp) rfl
    rw [List.foldl_cons, addTo_fresh _ _ _ hfresh, addTo_fresh_fold h ks]
    · simp
    · have : ((m ++ [(h k, [k])]).map (·.1) ++ ks.map h).Perm (m.map (·.1) ++ (k :: ks).map h) := by
        simp only [List.map_append, List.map_cons, List.map_nil, List.append_assoc, List.singleton_append]
        exact List.Perm.refl _
      exact (List.Perm.nodup_iff this).mpr hnd

theorem hfdq_congr (H : Str → Str) {st st' : State} (h : st'.bnodeToQuads = st.bnodeToQuads) (b : Str) :
    Rdfc10Spec.hashFirstDegreeQuads H st' b = Rdfc10Spec.hashFirstDegreeQuads H st b := by
  unfold Rdfc10Spec.hashFirstDegreeQuads
  rw [h]

/-- the step function of the transcription's step 3 -/
def spec3F (H : Str → Str) (st : State) (e : Str × List Quad) : State :=
  { st with hashToBnodes := addTo (Rdfc10Spec.hashFirstDegreeQuads H st e.1) e.1 st.hashToBnodes }

theorem spec_step3_eq (H : Str → Str) (st : State) :
    Rdfc10Spec.step3 H st = st.bnodeToQuads.foldl (spec3F H) st := rfl

theorem spec_step3_fold (H : Str → Str) (st0 : State) : ∀ (l : List (Str × List Quad)) (st : State),
    st.bnodeToQuads = st0.bnodeToQuads → st.canonicalIssuer = st0.canonicalIssuer →
    (l.foldl (spec3F H) st).bnodeToQuads = st0.bnodeToQuads ∧
    (l.foldl (spec3F H) st).canonicalIssuer = st0.canonicalIssuer ∧
    (l.foldl (spec3F H) st).hashToBnodes =
      (l.map (·.1)).foldl (fun m k => addTo (Rdfc10Spec.hashFirstDegreeQuads H st0 k) k m) st.hashToBnodes
  | [], st, h1, h2 => ⟨h1, h2, rfl⟩
  | e :: l, st, h1, h2 => by
    have := spec_step3_fold H st0 l (spec3F H st e) h1 h2
    rw [List.foldl_cons]
    refine ⟨this.1, this.2.1, ?_⟩
    rw [this.2.2]
    simp only [List.map_cons, List.foldl_cons, spec3F, hfdq_congr H h1]

/-! ### identifier issuers of the two models -/

structure SRel (s : IdIssuer) (i : Issuer) : Prop where
  pfx : s.pfx = i.pfx
  counter : s.counter = i.order.length
  wf : IssuerWF i
  look : ∀ x, lookup x s.issued = i.get x

theorem lookup_append_single {β : Type} (x k : Str) (v : β) : ∀ m : List (Str × β),
    lookup x (m ++ [(k, v)]) = match lookup x m with
      | some y => some y
      | none => if x = k then some v else none
  | [] => by simp [lookup]
  | (k0, v0) :: r => by
    simp only [List.cons_append, lookup]
    by_cases h : x = k0
    · simp [h]
    · simp only [h, if_false]
      exact lookup_append_single x k v r

theorem srel_issue {s : IdIssuer} {i : Issuer} (h : SRel s i) (b : Str) :
    SRel (issueId s b).2 (i.issue' b) := by
  have hl := h.look b
  unfold issueId Issuer.issue' Issuer.issue
  unfold Issuer.get at hl
  cases hg : i.issued.get b with
  | some id =>
    rw [hg] at hl
    rw [hl]
    exact h
  | none =>
    rw [hg] at hl
    rw [hl]
    simp only []
    refine ⟨h.pfx, by simp [h.counter], ?_, ?_⟩
    · have := wf_issue i b h.wf
      unfold Issuer.issue' Issuer.issue at this
      rw [hg] at this
      exact this
    · intro x
      rw [lookup_append_single]
      simp only [Issuer.get]
      by_cases hx : x = b
      · subst hx
        rw [hl, get_upsert_self_none _ _ _ hg]
        simp only [if_true]
        rw [h.pfx, h.counter]
        simp only [decimal, Nat.toString_eq_repr]
      · rw [get_upsert_ne _ _ _ hx]
        have := h.look x
        unfold Issuer.get at this
        rw [this]
        cases i.issued.get x <;> simp [hx]

/-! ### step 4 -/

/-- state after a singleton entry `(hash, [b])` in the transcription's step 4 -/
def specStep4Upd (st : State) (k b : Str) : State :=
  { st with canonicalIssuer := (issueId st.canonicalIssuer b).2,
            hashToBnodes := st.hashToBnodes.filter (fun x => x.1 ≠ k) }

/-- the step function of the transcription's step 4 -/
def specStep4F (st : State) (e : Str × List Str) : State :=
  match e.2 with
  | [identifier] =>
    { st with canonicalIssuer := (issueId st.canonicalIssuer identifier).2,
              hashToBnodes := st.hashToBnodes.filter (fun x => x.1 ≠ e.1) }
  | _ => st

theorem spec_step4_eq (st : State) :
    Rdfc10Spec.step4 st = (sortBy (·.1) st.hashToBnodes).foldl specStep4F st := rfl

/-- the implementation model's step 4, issuer component -/
theorem impl_step4_issuer : ∀ (m : SMap (List Str)) (acc : SMap (List Str) × Issuer),
    (m.foldl (fun (acc : SMap (List Str) × Issuer) (e : Str × List Str) =>
        if e.2.length > 1 then (acc.1 ++ [e], acc.2)
        else match e.2 with
          | b :: _ => (acc.1, acc.2.issue' b)
          | [] => acc) acc).2 =
      m.foldl (fun (i : Issuer) (e : Str × List Str) =>
        if e.2.length > 1 then i else match e.2 with | b :: _ => i.issue' b | [] => i) acc.2
  | [], _ => rfl
  | e :: m, acc => by
    rw [List.foldl_cons, List.foldl_cons, impl_step4_issuer m]
    congr 1
    split
    · rfl
    · split <;> rfl

theorem step4_joint : ∀ (L : List (Str × List Str)) (st : State) (i : Issuer),
    (∀ e ∈ L, ∃ b, e.2 = [b]) → SRel st.canonicalIssuer i →
    SRel (L.foldl specStep4F st).canonicalIssuer
      (L.foldl (fun (i : Issuer) (e : Str × List Str) =>
        if e.2.length > 1 then i else match e.2 with | b :: _ => i.issue' b | [] => i) i) ∧
    (L.foldl specStep4F st).hashToBnodes = st.hashToBnodes.filter (fun x => x.1 ∉ L.map (·.1))
  | [], st, i, _, h => ⟨h, by
    simp only [List.foldl_nil, List.map_nil, List.not_mem_nil, not_false_eq_true, decide_true]
    exact (List.filter_eq_self.mpr (fun _ _ => rfl)).symm⟩
  | e :: L, st, i, hL, h => by
    obtain ⟨b, hb⟩ := hL e List.mem_cons_self
    have hstep : specStep4F st e = specStep4Upd st e.1 b := by
      unfold specStep4F specStep4Upd; rw [hb]
    have hi : (if e.2.length > 1 then i else match e.2 with | b :: _ => i.issue' b | [] => i) = i.issue' b := by
      rw [hb]; rfl
    rw [List.foldl_cons, List.foldl_cons, hstep, hi]
    have ih := step4_joint L (specStep4Upd st e.1 b) (i.issue' b)
      (fun e' he' => hL e' (List.mem_cons_of_mem _ he')) (srel_issue h b)
    refine ⟨ih.1, ?_⟩
    rw [ih.2]
    simp only [specStep4Upd, List.filter_filter, List.map_cons, List.mem_cons, not_or]
    apply List.filter_congr
    intro x _
    by_cases h1 : x.1 = e.1 <;> by_cases h2 : x.1 ∈ L.map (·.1) <;> simp [h1, h2]

/-! ### step 6 -/

theorem relabelTerm_eq {issued : List (Str × Str)} {m : SMap Str} (h : ∀ x, lookup x issued = m.get x) (t : Term) :
    Rdfc10Spec.relabelTerm issued t = renameTerm (fun b => (m.get b).getD b) t := by
  cases t with
  | bnode b =>
    simp only [Rdfc10Spec.relabelTerm, blankLabel, renameTerm, h b]
    cases m.get b <;> rfl
  | iri _ => rfl
  | lit _ _ => rfl
  | lang _ _ => rfl
  | triple _ _ _ => rfl
  | var _ => rfl

theorem relabelQuad_eq {issued : List (Str × Str)} {m : SMap Str} (h : ∀ x, lookup x issued = m.get x)
    {q : Quad} (hq : isRdfQuad q = true) :
    Rdfc10Spec.relabelQuad issued q = renameQuad (fun b => (m.get b).getD b) q := by
  have hp : ∃ p, q.p = .iri p := by
    unfold isRdfQuad at hq
    cases hqp : q.p <;> simp [hqp] at hq
    exact ⟨_, rfl⟩
  obtain ⟨p, hp⟩ := hp
  unfold Rdfc10Spec.relabelQuad renameQuad
  simp only [relabelTerm_eq h, hp, renameTerm]
  cases q.g <;> simp [relabelTerm_eq h]

end SophiaProofs.SpecL

namespace SophiaProofs.SpecL
open SophiaModel SophiaModel.Rdfc10 SophiaProofs.Rdfc10L SophiaProofs.CnqL
open Rdfc10Spec (lookup addTo blankLabel isRdfQuad Deviations IdIssuer issueId State sortBy)

/-! ### the transcription on datasets with distinct first-degree hashes -/

theorem srel_fresh : SRel (IdIssuer.fresh "c14n".toList) (Issuer.new "c14n".toList) :=
  ⟨rfl, rfl, wf_new _, fun _ => rfl⟩

theorem strict_imp_le {α : Type} {m : SMap α} (h : Sorted m) :
    m.Pairwise (fun a b => strLe a.1 b.1 = true) := by
  refine h.imp ?_
  intro a b hab
  unfold strLe
  rw [hab]
  rfl

/-- **steps 1–6 of the transcription** on an RDF dataset without self-referencing quads whose
first-degree hashes are pairwise distinct: it succeeds, and its issued identifiers map agrees,
label by label, with the canonical issuer of the implementation model after step 4 -/
theorem spec_distinct (H : Str → Str) {D : List Quad} {b2q : SMap (List Quad)}
    (hrdf : ∀ q ∈ D, isRdfQuad q = true ∧ NoSelfRef q) (h2 : step2 D = .ok b2q)
    (hdist : (SMap.keys (hashEntries H b2q)).Nodup) :
    ∃ issued, Rdfc10Spec.canonicalize Deviations.none H D = some (issued, D.map (Rdfc10Spec.relabelQuad issued)) ∧
      ∀ x, lookup x issued = (canon4 H b2q).2.issued.get x := by
  -- the implementation side
  have S1 := step3_h2b H b2q hdist
  -- the transcription, step by step
  let st0 : State := ⟨Rdfc10Spec.step2 Deviations.none D, [], IdIssuer.fresh "c14n".toList⟩
  have h3 := spec_step3_fold H st0 st0.bnodeToQuads st0 rfl rfl
  have hS : ∀ k, Rdfc10Spec.hashFirstDegreeQuads H st0 k = (hashEntryOf H b2q k).1 := by
    intro k
    exact spec_hash_eq hrdf h2 H st0 rfl k
  have hkeys := spec_keys_perm hrdf h2
  have hEq : hashEntries H b2q = (SMap.keys b2q).map (hashEntryOf H b2q) := hashEntries_eq_keys H (step2_spec h2).1
  have hnd3 : (([] : List (Str × List Str)).map (·.1) ++
      (st0.bnodeToQuads.map (·.1)).map (Rdfc10Spec.hashFirstDegreeQuads H st0)).Nodup := by
    simp only [List.map_nil, List.nil_append]
    have hp : ((st0.bnodeToQuads.map (·.1)).map (Rdfc10Spec.hashFirstDegreeQuads H st0)).Perm
        (SMap.keys (hashEntries H b2q)) := by
      rw [hEq]
      have e : SMap.keys ((SMap.keys b2q).map (hashEntryOf H b2q)) =
          (SMap.keys b2q).map (fun k => (hashEntryOf H b2q k).1) := by
        simp only [SMap.keys, List.map_map]
        rfl
      rw [e]
      refine (hkeys.map _).trans (List.Perm.of_eq ?_)
      apply List.map_congr_left
      intro k _
      exact hS k
    exact (List.Perm.nodup_iff hp).mpr hdist
  have hES : (st0.bnodeToQuads.foldl (spec3F H) st0).hashToBnodes =
      (st0.bnodeToQuads.map (·.1)).map (fun k => (Rdfc10Spec.hashFirstDegreeQuads H st0 k, [k])) := by
    rw [h3.2.2, addTo_fresh_fold _ _ _ hnd3]
    rfl
  have hESperm : ((st0.bnodeToQuads.map (·.1)).map (fun k => (Rdfc10Spec.hashFirstDegreeQuads H st0 k, [k]))).Perm
      (hashEntries H b2q) := by
    rw [hEq]
    refine (hkeys.map _).trans (List.Perm.of_eq ?_)
    apply List.map_congr_left
    intro k _
    simp only [hS, hashEntryOf]
  -- the sorted entries are the implementation's `h2b`
  have hL : sortBy (·.1) ((st0.bnodeToQuads.map (·.1)).map (fun k => (Rdfc10Spec.hashFirstDegreeQuads H st0 k, [k]))) =
      (step3 H b2q).1 := by
    apply sorted_by_key_unique (fun e : Str × List Str => e.1) (sortBy_sorted _ _) (strict_imp_le S1.1)
    · exact (sortBy_perm _ _).trans (hESperm.trans S1.2.symm)
    · have : ((sortBy (·.1) ((st0.bnodeToQuads.map (·.1)).map (fun k => (Rdfc10Spec.hashFirstDegreeQuads H st0 k, [k])))).map
          (fun e : Str × List Str => e.1)).Perm (SMap.keys (hashEntries H b2q)) :=
        ((sortBy_perm _ _).trans hESperm).map _
      exact (List.Perm.nodup_iff this).mpr hdist
  have hsing : ∀ e ∈ (step3 H b2q).1, ∃ b, e.2 = [b] := by
    intro e he
    have he' := S1.2.mem_iff.mp he
    unfold hashEntries at he'
    obtain ⟨e0, _, rfl⟩ := List.mem_map.mp he'
    exact ⟨e0.1, rfl⟩
  -- step 4 of both
  have hst3ci : (st0.bnodeToQuads.foldl (spec3F H) st0).canonicalIssuer = IdIssuer.fresh "c14n".toList := h3.2.1
  have h4 := step4_joint (step3 H b2q).1 (st0.bnodeToQuads.foldl (spec3F H) st0) (Issuer.new "c14n".toList) hsing
    (by rw [hst3ci]; exact srel_fresh)
  have himpl : (canon4 H b2q).2 = (step3 H b2q).1.foldl (fun (i : Issuer) (e : Str × List Str) =>
      if e.2.length > 1 then i else match e.2 with | b :: _ => i.issue' b | [] => i) (Issuer.new "c14n".toList) := by
    unfold canon4 step4
    exact impl_step4_issuer _ _
  have hst4 : Rdfc10Spec.step4 (Rdfc10Spec.step3 H st0) = (step3 H b2q).1.foldl specStep4F (st0.bnodeToQuads.foldl (spec3F H) st0) := by
    rw [spec_step4_eq, spec_step3_eq, hES, hL]
  have hempty : (Rdfc10Spec.step4 (Rdfc10Spec.step3 H st0)).hashToBnodes = [] := by
    rw [hst4, h4.2, hES]
    apply List.filter_eq_nil_iff.mpr
    intro x hx
    have : x.1 ∈ (step3 H b2q).1.map (·.1) := by
      rw [← hL]
      exact List.mem_map.mpr ⟨x, (sortBy_perm _ _).mem_iff.mpr hx, rfl⟩
    simp [this]
  refine ⟨(Rdfc10Spec.step4 (Rdfc10Spec.step3 H st0)).canonicalIssuer.issued, ?_, ?_⟩
  · have hall : D.all isRdfQuad = true := List.all_eq_true.mpr (fun q hq => (hrdf q hq).1)
    unfold Rdfc10Spec.canonicalize
    simp only [hall, Bool.not_true, Bool.false_eq_true, if_false]
    have h5 : Rdfc10Spec.step5 Deviations.none H ((Rdfc10Spec.step4 (Rdfc10Spec.step3 H st0)).bnodeToQuads.length + 2)
        (Rdfc10Spec.step4 (Rdfc10Spec.step3 H st0)) = some (Rdfc10Spec.step4 (Rdfc10Spec.step3 H st0)) := by
      unfold Rdfc10Spec.step5
      rw [hempty]
      rfl
    show (match Rdfc10Spec.step5 Deviations.none H ((Rdfc10Spec.step4 (Rdfc10Spec.step3 H st0)).bnodeToQuads.length + 2)
        (Rdfc10Spec.step4 (Rdfc10Spec.step3 H st0)) with
      | none => none
      | some st => some (st.canonicalIssuer.issued, D.map (Rdfc10Spec.relabelQuad st.canonicalIssuer.issued))) = _
    rw [h5]
  · intro x
    have := h4.1.look x
    rw [← hst4, ← himpl] at this
    exact this

end SophiaProofs.SpecL
