import SophiaProofs.Lemmas.JsonLd

/-!
What the engine state *denotes*: the quads held by the node maps (every key except `@graph`,
`@type` read as `rdf:type`), and the proof that after `process_quads` these are exactly the
expressible quads of the input — nothing dropped, nothing invented — for well-formed IRIs.
-/
namespace SophiaProofs.JsonLdLemmas
open SophiaModel SophiaModel.JsonLd
open SophiaModel.JsonLd.RdfObject (startsBn)

/-- predicate a key stands for -/
def keyPred (k : Id) : Term := if k == kType then .iri rdfType else .iri k

/-- object a stored value stands for -/
def objTerm : RdfObject → Term
  | .langString l t => .lang l t
  | .typed l d => .lit l d
  | .node _ id => idTerm id

/-- graph name a graph id stands for -/
def graphTerm (g : Id) : Option Term := if g == dflt then none else some (idTerm g)

def mkQuad (gs : Id × Id) (k : Id) (v : RdfObject) : Quad :=
  ⟨idTerm gs.2, keyPred k, objTerm v, graphTerm gs.1⟩

/-- quads held by one slot -/
def slotQuads (gs : Id × Id) : NodeMap → List Quad
  | [] => []
  | (k, vs) :: rest => (if k == kGraph then [] else vs.map (mkQuad gs k)) ++ slotQuads gs rest

/-- `q` is held by some slot of the engine -/
def Denotes (E : Engine) (q : Quad) : Prop :=
  ∃ (i : Nat) (gs : Id × Id) (m : NodeMap), E.gsId[i]? = some gs ∧ E.node[i]? = some m ∧ q ∈ slotQuads gs m

/-- IRIs as RDF has them: they begin with a letter (the scheme).  Excludes the strings the engine uses
for other purposes: ids beginning with `_:`, the graph id `" "`, the keys `@type` / `@graph`. -/
def iriOk : Str → Bool
  | c :: _ => c.isAlpha
  | [] => false

def termOk : Term → Bool
  | .iri s => iriOk s
  | _ => true

def quadOk (q : Quad) : Bool :=
  termOk q.s && termOk q.p && termOk q.o && (match q.g with | none => true | some g => termOk g)

/-! ### membership after `push_if_new` -/

theorem mem_vecPushIfNew_iff (v : List RdfObject) (x y : RdfObject) :
    y ∈ vecPushIfNew v x ↔ y ∈ v ∨ y = x := by
  unfold vecPushIfNew
  split
  · rename_i h
    have hx : x ∈ v := by simpa using h
    constructor
    · exact Or.inl
    · rintro (h | rfl) <;> assumption
  · simp

theorem mem_slotQuads_push (gs : Id × Id) (k : Id) (x : RdfObject) (q : Quad) :
    ∀ m : NodeMap, q ∈ slotQuads gs (mapPushIfNew k x m) ↔
      q ∈ slotQuads gs m ∨ ((k == kGraph) = false ∧ q = mkQuad gs k x)
  | [] => by
    cases hk : (k == kGraph) <;> simp [mapPushIfNew, slotQuads, hk]
  | (k', vs) :: rest => by
    by_cases h : (k' == k) = true
    · have hkk : k' = k := by simpa using h
      subst hkk
      cases hk : (k' == kGraph)
      · simp only [mapPushIfNew, h, if_true, slotQuads, hk, Bool.false_eq_true, if_false, List.mem_append,
          List.mem_map, mem_vecPushIfNew_iff]
        constructor
        · rintro (⟨y, (hy | rfl), rfl⟩ | h2)
          · exact Or.inl (Or.inl ⟨y, hy, rfl⟩)
          · exact Or.inr ⟨trivial, rfl⟩
          · exact Or.inl (Or.inr h2)
        · rintro ((⟨y, hy, rfl⟩ | h2) | ⟨_, rfl⟩)
          · exact Or.inl ⟨y, Or.inl hy, rfl⟩
          · exact Or.inr h2
          · exact Or.inl ⟨x, Or.inr rfl, rfl⟩
      · simp [mapPushIfNew, slotQuads, hk]
    · have hne : (k' == k) = false := by simpa using h
      simp only [mapPushIfNew, hne, Bool.false_eq_true, if_false, slotQuads, List.mem_append,
        mem_slotQuads_push gs k x q rest]
      exact or_assoc.symm

/-! ### the engine's elementary steps -/

/-- `gs_id` and `node` have the same length -/
def Aligned (E : Engine) : Prop := E.node.length = E.gsId.length

theorem index_aligned {E : Engine} (h : Aligned E) (g s : Id) : Aligned (E.index g s).1 := by
  unfold Engine.index
  split
  · exact h
  · simp [Aligned] at h ⊢; exact h

theorem push_aligned {E : Engine} (h : Aligned E) (i : Nat) (k : Id) (x : RdfObject) :
    Aligned (E.push i k x) := by
  simp [Aligned, Engine.push] at h ⊢; exact h

theorem denotes_index {E : Engine} (h : Aligned E) (g s : Id) (q : Quad) :
    Denotes (E.index g s).1 q ↔ Denotes E q := by
  unfold Engine.index
  split
  · rfl
  · constructor
    · rintro ⟨i, gs, m, h1, h2, h3⟩
      simp only at h1 h2
      by_cases hi : i < E.node.length
      · have hi' : i < E.gsId.length := h ▸ hi
        rw [List.getElem?_append_left hi'] at h1
        rw [List.getElem?_append_left hi] at h2
        exact ⟨i, gs, m, h1, h2, h3⟩
      · have hi2 : E.node.length ≤ i := Nat.le_of_not_lt hi
        rw [List.getElem?_append_right hi2] at h2
        cases hd : i - E.node.length with
        | zero =>
          rw [hd] at h2
          have : m = [] := by simpa using h2.symm
          subst this
          simp [slotQuads] at h3
        | succ n => rw [hd] at h2; simp at h2
    · rintro ⟨i, gs, m, h1, h2, h3⟩
      exact ⟨i, gs, m, getElem?_append_some _ _ _ _ h1, getElem?_append_some _ _ _ _ h2, h3⟩

theorem denotes_push {E : Engine} (h : Aligned E) (i : Nat) (k : Id) (x : RdfObject) (gs : Id × Id)
    (hgs : E.gsId[i]? = some gs) (q : Quad) :
    Denotes (E.push i k x) q ↔ Denotes E q ∨ ((k == kGraph) = false ∧ q = mkQuad gs k x) := by
  have hi : i < E.node.length := h ▸ (List.getElem?_eq_some_iff.mp hgs).1
  constructor
  · rintro ⟨j, gs', m, h1, h2, h3⟩
    simp only [Engine.push] at h1 h2
    rw [List.getElem?_modify] at h2
    by_cases hij : i = j
    · subst hij
      simp only [if_true] at h2
      cases hm : E.node[i]? with
      | none => rw [hm] at h2; simp at h2
      | some m0 =>
        rw [hm] at h2
        have : m = mapPushIfNew k x m0 := by simpa using h2.symm
        subst this
        have hgs' : gs' = gs := by rw [hgs] at h1; exact (Option.some.inj h1).symm
        subst hgs'
        rcases (mem_slotQuads_push gs' k x q m0).mp h3 with h4 | h4
        · exact Or.inl ⟨i, gs', m0, hgs, hm, h4⟩
        · exact Or.inr h4
    · simp only [hij, if_false] at h2
      exact Or.inl ⟨j, gs', m, h1, by simpa using h2, h3⟩
  · rintro (⟨j, gs', m, h1, h2, h3⟩ | h4)
    · by_cases hij : i = j
      · subst hij
        refine ⟨i, gs', mapPushIfNew k x m, h1, ?_, (mem_slotQuads_push gs' k x q m).mpr (Or.inl h3)⟩
        simp [Engine.push, h2]
      · refine ⟨j, gs', m, h1, ?_, h3⟩
        simp [Engine.push, hij, h2]
    · have ⟨m0, hm0⟩ : ∃ m0, E.node[i]? = some m0 := ⟨E.node[i], List.getElem?_eq_getElem hi⟩
      refine ⟨i, gs, mapPushIfNew k x m0, hgs, ?_, (mem_slotQuads_push gs k x q m0).mpr (Or.inr h4)⟩
      simp [Engine.push, hm0]

theorem denotes_noteSeed (o : Opts) (q0 : Quad) (i : Nat) (E : Engine) (q : Quad) :
    Denotes (noteSeed o q0 i E) q ↔ Denotes E q := by
  unfold noteSeed Denotes; repeat (first | rfl | split)

theorem denotes_noteParent (q0 : Quad) (i : Nat) (E : Engine) (q : Quad) :
    Denotes (noteParent q0 i E) q ↔ Denotes E q := by
  unfold noteParent Denotes; repeat (first | rfl | split)

theorem noteSeed_aligned (o : Opts) (q0 : Quad) (i : Nat) {E : Engine} (h : Aligned E) :
    Aligned (noteSeed o q0 i E) := by
  unfold noteSeed Aligned at *; repeat (first | exact h | split)

theorem noteParent_aligned (q0 : Quad) (i : Nat) {E : Engine} (h : Aligned E) :
    Aligned (noteParent q0 i E) := by
  unfold noteParent Aligned at *; repeat (first | exact h | split)

/-! ### the terms come back from their ids -/

theorem iriOk_not_bn {s : Str} (h : iriOk s = true) : idTerm s = .iri s := by
  match s, h with
  | c :: rest, h =>
    have hc : c ≠ '_' := by
      intro hc; subst hc
      have h0 : Char.isAlpha '_' = false := by decide
      simp [iriOk, h0] at h
    unfold idTerm
    split
    · rename_i b heq
      have : c = '_' := by injection heq
      exact absurd this hc
    · rfl

theorem idTerm_asId_subject {t : Term} (hs : isSubject t = true) (hok : termOk t = true) :
    idTerm (asId t) = t := by
  cases t <;> simp_all [isSubject, asId, idTerm, termOk]
  exact iriOk_not_bn hok

theorem iriOk_ne_of_head {s c : Str} (h : iriOk s = true) (hc : iriOk c = false) : (s == c) = false := by
  cases hsc : s == c
  · rfl
  · have : s = c := by simpa using hsc
    rw [this, hc] at h; cases h

theorem graphTerm_graphId {q : Quad} (hj : isJsonLd q = true) (hok : quadOk q = true) :
    graphTerm (graphId q) = q.g := by
  unfold graphId graphTerm
  cases hg : q.g with
  | none => simp
  | some g =>
    have hsub : isSubject g = true := by
      simp only [isJsonLd, hg, Bool.and_eq_true] at hj; exact hj.2
    have hgok : termOk g = true := by
      simp only [quadOk, hg, Bool.and_eq_true] at hok; exact hok.2
    have hne : (asId g == dflt) = false := by
      cases g with
      | iri s => exact iriOk_ne_of_head (s := s) (c := dflt) (by simpa [termOk] using hgok) (by decide)
      | bnode b =>
        cases hb : (asId (Term.bnode b) == dflt)
        · rfl
        · have := eq_of_beq hb
          simp [asId, dflt] at this
      | lit _ _ => simp [isSubject] at hsub
      | lang _ _ => simp [isSubject] at hsub
      | triple _ _ _ => simp [isSubject] at hsub
      | var _ => simp [isSubject] at hsub
    simp only [hne, Bool.false_eq_true, if_false]
    rw [idTerm_asId_subject hsub hgok]

theorem objTerm_makeRdfObject (E : Engine) {t : Term} (g : Id) (hobj : isObject t = true)
    (hok : termOk t = true) : objTerm (E.makeRdfObject t g).2 = t := by
  cases t <;> simp_all [isObject, Engine.makeRdfObject, objTerm, asId, idTerm, termOk]
  exact iriOk_not_bn hok

theorem keyPred_predKey (o : Opts) {q : Quad} (obj : RdfObject) (hp : isIri q.p = true)
    (hok : termOk q.p = true) :
    keyPred (predKey o q obj) = q.p ∧ (predKey o q obj == kGraph) = false := by
  cases hq : q.p <;> simp_all [isIri]
  rename_i p
  have hpk : iriOk p = true := by simpa [termOk] using hok
  have h1 : (p == kType) = false := iriOk_ne_of_head (c := kType) hpk (by decide)
  have h2 : (p == kGraph) = false := iriOk_ne_of_head (c := kGraph) hpk (by decide)
  unfold predKey
  split
  · rename_i hc
    simp only [Bool.and_eq_true, hq, isIriC, beq_iff_eq] at hc
    refine ⟨?_, by decide⟩
    simp [keyPred, hc.1.1]
  · simp [asId, keyPred, hq, h1]
    intro hk; rw [hk] at h2; simp at h2

/-! ### the main invariant -/

theorem aligned_linkGraph {E : Engine} (h : Aligned E) (q : Quad) : Aligned (linkGraph E q).1 := by
  unfold linkGraph
  cases q.g with
  | none => exact index_aligned h _ _
  | some g => exact push_aligned (index_aligned (index_aligned h _ _) _ _) _ _ _

theorem denotes_linkGraph {E : Engine} (h : Aligned E) (q0 q : Quad) :
    Denotes (linkGraph E q0).1 q ↔ Denotes E q := by
  unfold linkGraph
  cases q0.g with
  | none => exact denotes_index h _ _ q
  | some g =>
    simp only
    have ha1 := index_aligned h (graphId q0) (asId q0.s)
    have ha2 := index_aligned ha1 dflt (graphId q0)
    rw [denotes_push ha2 _ _ _ _ (index_get _ _ _) q, denotes_index ha1, denotes_index h]
    simp

theorem aligned_makeRdfObject {E : Engine} (h : Aligned E) (t : Term) (g : Id) :
    Aligned (E.makeRdfObject t g).1 := by
  cases t <;> simp only [Engine.makeRdfObject] <;> first | exact h | exact index_aligned h _ _

theorem denotes_makeRdfObject {E : Engine} (h : Aligned E) (t : Term) (g : Id) (q : Quad) :
    Denotes (E.makeRdfObject t g).1 q ↔ Denotes E q := by
  cases t <;> simp only [Engine.makeRdfObject] <;> first | rfl | exact denotes_index h _ _ q

theorem denotes_step (o : Opts) {E : Engine} (ha : Aligned E) (q0 : Quad) (hok : quadOk q0 = true) :
    Aligned (processQuad o E q0) ∧
    ∀ q, Denotes (processQuad o E q0) q ↔ Denotes E q ∨ (isJsonLd q0 = true ∧ q = q0) := by
  by_cases hj : isJsonLd q0 = true
  · have hE : processQuad o E q0 =
        noteParent q0 (linkGraph E q0).2 (noteSeed o q0 (linkGraph E q0).2
          (((linkGraph E q0).1.makeRdfObject q0.o (graphId q0)).1.push (linkGraph E q0).2
            (predKey o q0 ((linkGraph E q0).1.makeRdfObject q0.o (graphId q0)).2)
            ((linkGraph E q0).1.makeRdfObject q0.o (graphId q0)).2)) := by
      simp [processQuad, hj]
    have ha1 := aligned_linkGraph ha q0
    have ha2 := aligned_makeRdfObject ha1 q0.o (graphId q0)
    have hget : ((linkGraph E q0).1.makeRdfObject q0.o (graphId q0)).1.gsId[(linkGraph E q0).2]? =
        some (graphId q0, asId q0.s) := (makeRdfObject_ext _ _ _).get (linkGraph_get E q0)
    have hparts : isSubject q0.s = true ∧ isIri q0.p = true ∧ isObject q0.o = true := by
      simp only [isJsonLd, Bool.and_eq_true] at hj; exact ⟨hj.1.1.1, hj.1.1.2, hj.1.2⟩
    have hoks : termOk q0.s = true ∧ termOk q0.p = true ∧ termOk q0.o = true := by
      simp only [quadOk, Bool.and_eq_true] at hok; exact ⟨hok.1.1.1, hok.1.1.2, hok.1.2⟩
    rw [hE]
    refine ⟨noteParent_aligned _ _ (noteSeed_aligned _ _ _ (push_aligned ha2 _ _ _)), fun q => ?_⟩
    rw [denotes_noteParent, denotes_noteSeed, denotes_push ha2 _ _ _ _ hget, denotes_makeRdfObject ha1,
      denotes_linkGraph ha]
    have hk := keyPred_predKey o ((linkGraph E q0).1.makeRdfObject q0.o (graphId q0)).2 hparts.2.1 hoks.2.1
    have hmk : mkQuad (graphId q0, asId q0.s)
        (predKey o q0 ((linkGraph E q0).1.makeRdfObject q0.o (graphId q0)).2)
        ((linkGraph E q0).1.makeRdfObject q0.o (graphId q0)).2 = q0 := by
      unfold mkQuad
      simp only [hk.1, idTerm_asId_subject hparts.1 hoks.1, objTerm_makeRdfObject _ _ hparts.2.2 hoks.2.2,
        graphTerm_graphId hj hok]
    rw [hmk]
    simp [hk.2, hj]
  · have hE : processQuad o E q0 = E := by simp [processQuad, hj]
    rw [hE]
    exact ⟨ha, fun q => by simp [hj]⟩

theorem denotes_foldl (o : Opts) : ∀ (D : List Quad) (E : Engine), Aligned E →
    (∀ q ∈ D, quadOk q = true) →
    ∀ q, Denotes (D.foldl (processQuad o) E) q ↔ Denotes E q ∨ q ∈ D.filter isJsonLd
  | [], E, _, _, q => by simp
  | q0 :: D, E, ha, hok, q => by
    have hs := denotes_step o ha q0 (hok q0 List.mem_cons_self)
    rw [List.foldl_cons, denotes_foldl o D _ hs.1 (fun x hx => hok x (List.mem_cons_of_mem _ hx)) q, hs.2 q]
    by_cases hj : isJsonLd q0 = true
    · simp [List.filter, hj, or_assoc]
    · simp [List.filter, hj]

/-- after `process_quads`, the node maps hold exactly the expressible quads of the input -/
theorem denotes_processQuads (o : Opts) (D : List Quad) (hok : ∀ q ∈ D, quadOk q = true) (q : Quad) :
    Denotes (processQuads o D) q ↔ q ∈ D.filter isJsonLd := by
  unfold processQuads
  rw [denotes_foldl o D {} rfl hok q]
  constructor
  · rintro (⟨i, gs, m, h1, _, _⟩ | h)
    · simp at h1
    · exact h
  · exact Or.inr

end SophiaProofs.JsonLdLemmas
