import SophiaProofs.Lemmas.JsonLdDenote

/-!
Rendering half of the C12 round trip, up to the node-object level: with no list node marked and
rdf_direction unset, `convert_rdf_object` / `make_node_object` followed by the reader give back the
terms / triples the node maps hold.
-/
namespace SophiaProofs.JsonLdLemmas
open SophiaModel SophiaModel.JsonLd

theorem idTerm_rdfNil : idTerm rdfNil = .iri rdfNil := by decide

/-! ### base direction options -/

theorem startsWith_eq : ∀ (a b : Str), startsWith a b = true → a = b ++ a.drop b.length
  | _, [], _ => rfl
  | [], _ :: _, h => by simp [startsWith] at h
  | x :: xs, y :: ys, h => by
    simp only [startsWith, Bool.and_eq_true, beq_iff_eq] at h
    obtain ⟨rfl, h2⟩ := h
    simp only [List.cons_append, List.length_cons, List.drop_succ_cons]
    rw [← startsWith_eq xs ys h2]

theorem splitUnderscore_join : ∀ (s a b : Str), splitUnderscore s = (a, some b) → s = a ++ '_' :: b
  | [], a, b, h => by simp [splitUnderscore] at h
  | c :: cs, a, b, h => by
    unfold splitUnderscore at h
    split at h
    · rename_i hc
      have : c = '_' := by simpa using hc
      subst this
      simp only [Prod.mk.injEq, Option.some.injEq] at h
      obtain ⟨rfl, rfl⟩ := h
      rfl
    · simp only [Prod.mk.injEq] at h
      obtain ⟨rfl, h2⟩ := h
      have := splitUnderscore_join cs (splitUnderscore cs).1 b (by rw [← h2])
      simp only [List.cons_append]
      rw [← this]

/-- the stored value survives the `rdf_direction` option: anything but a typed literal; with `i18n-datatype`, a typed
literal whose datatype is outside the i18n namespace or is a well-formed `https://www.w3.org/ns/i18n#<lang>_<dir>`
(both parts non-empty; `…#_rtl` is NOT: finding C12-i18n-datatype-without-language) -/
def LitOk (o : Opts) : RdfObject → Prop
  | .typed _ dt => o.dir = .i18n → startsWith dt nsI18n = true →
      ∃ tag d, tag ≠ [] ∧ d ≠ [] ∧ splitUnderscore (dt.drop nsI18n.length) = (tag, some d)
  | _ => True

/-- value level of the round trip: with no list node marked and no compound-literal candidate, every stored object value
(plain / typed / language-tagged / rdf:JSON literal, well-formed i18n-datatype literal when that option is on, IRI,
blank node, rdf:nil) is rendered to a JSON value that the reader maps back to the same term, without auxiliary triples -/
theorem value_roundtrip (o : Opts) (E : Engine) (fuel : Nat) (v : RdfObject) (base : Str) (n : Nat)
    (hc : o.dir = .compound → E.compound = []) (hln : E.listNode = []) (hlit : LitOk o v)
    (hid : ∀ i id, v = .node i id → (prefix2 id).isSome = true) :
    ∃ val, convert o E fuel v = .ok val ∧ valRdf o base val n = (objTerm v, [], n) := by
  cases v with
  | langString lex tag =>
    refine ⟨_, by unfold convert; rfl, ?_⟩
    cases hdir : o.dir <;> simp [valRdf, hdir, objTerm]
  | typed lex dt =>
    refine ⟨_, by unfold convert; rfl, ?_⟩
    unfold convertLiteral
    by_cases hi : (o.dir == .i18n && startsWith dt nsI18n) = true
    · simp only [Bool.and_eq_true, beq_iff_eq] at hi
      obtain ⟨tag, d, ht, hdn, hsp⟩ := hlit hi.1 hi.2
      have hdt : dt = nsI18n ++ (tag ++ '_' :: d) := by
        have h1 := startsWith_eq dt nsI18n hi.2
        rw [splitUnderscore_join _ _ _ hsp] at h1
        exact h1
      have ht' : tag.isEmpty = false := by cases tag <;> simp_all
      have hd' : d.isEmpty = false := by cases d <;> simp_all
      simp only [hi.1, hi.2, beq_self_eq_true, Bool.and_self, if_true, hsp, ht', hd', Bool.false_eq_true, if_false]
      simp [valRdf, hi.1, objTerm, hdt]
    · have hi' : (o.dir == .i18n && startsWith dt nsI18n) = false := by simpa using hi
      simp only [hi', Bool.false_eq_true, if_false]
      by_cases hj : dt = rdfJson
      · subst hj; simp [valRdf, objTerm]
      · by_cases hx : dt = xsdString
        · subst hx; cases hdir : o.dir <;> simp [valRdf, objTerm, hdir, hj]
        · cases hdir : o.dir <;> simp [valRdf, objTerm, hdir, hj, hx]
  | node i id =>
    have hp := hid i id rfl
    unfold convert
    by_cases hn : id = rdfNil
    · subst hn
      refine ⟨.list [], by simp, ?_⟩
      simp [valRdf, listRdf, objTerm, idTerm_rdfNil]
    · cases hpp : prefix2 id with
      | none => rw [hpp] at hp; cases hp
      | some p =>
        refine ⟨.ref id, ?_, by simp [valRdf, objTerm]⟩
        simp only [beq_iff_eq, hn, if_false]
        by_cases hpb : p = ['_', ':']
        · have hcc : ¬ (o.dir = .compound ∧ i ∈ E.compound) := fun ⟨h1, h2⟩ => by
            rw [hc h1] at h2; cases h2
          simp [hpb, hln, lookup, hcc]
        · simp [hpb]

/-- the same for all the values of one key: `subject key [v₁ … vₙ]` reads back as the n triples -/
theorem values_roundtrip (o : Opts) (E : Engine) (base : Str) (s p : Term)
    (hc : o.dir = .compound → E.compound = []) (hln : E.listNode = []) :
    ∀ (vals : List RdfObject) (n : Nat),
      (∀ v ∈ vals, LitOk o v ∧ ∀ i id, v = .node i id → (prefix2 id).isSome = true) →
      ∃ vs, convertAll o E vals = .ok vs ∧
        valsRdf o base s p vs n = (vals.map (fun v => (s, p, objTerm v)), n)
  | [], n, _ => ⟨[], by simp [convertAll], by simp [valsRdf]⟩
  | v :: rest, n, hid => by
    obtain ⟨val, h1, h2⟩ := value_roundtrip o E (convFuel E) v base n hc hln (hid v List.mem_cons_self).1
      (hid v List.mem_cons_self).2
    obtain ⟨vs, h3, h4⟩ := values_roundtrip o E base s p hc hln rest n
      (fun w hw => hid w (List.mem_cons_of_mem _ hw))
    refine ⟨val :: vs, by simp [convertAll, h1, h3], ?_⟩
    simp [valsRdf, h2, h4]

/-- triples held by one node map for subject `s` (cf. `slotQuads`) -/
def slotTriples (s : Term) : NodeMap → List Triple
  | [] => []
  | (k, vs) :: rest =>
    (if k == kGraph then [] else vs.map (fun v => (s, keyPred k, objTerm v))) ++ slotTriples s rest

theorem typeIds_ok : ∀ (vals : List RdfObject), (∀ v ∈ vals, v.isNode = true) →
    ∃ ids, typeIds vals = .ok ids ∧
      ∀ s : Term, ids.map (fun t => (s, Term.iri rdfType, idTerm t)) = vals.map (fun v => (s, keyPred kType, objTerm v))
  | [], _ => ⟨[], rfl, fun _ => rfl⟩
  | v :: rest, h => by
    obtain ⟨ids, h1, h2⟩ := typeIds_ok rest (fun w hw => h w (List.mem_cons_of_mem _ hw))
    have hv := h v List.mem_cons_self
    cases v with
    | node i id =>
      refine ⟨id :: ids, by simp [typeIds, h1], fun s => ?_⟩
      simp [h2 s, keyPred, objTerm]
    | langString _ _ => simp [RdfObject.isNode] at hv
    | typed _ _ => simp [RdfObject.isNode] at hv

/-- node-object level: `make_node_object` followed by the reader gives back the triples the slot holds -/
theorem entries_roundtrip (o : Opts) (E : Engine) (base : Str) (s : Term)
    (hc : o.dir = .compound → E.compound = []) (hln : E.listNode = []) :
    ∀ (m : NodeMap) (n : Nat),
      (∀ k vs, (k, vs) ∈ m → ∀ v ∈ vs, (k = kType → v.isNode = true) ∧
        (∀ i id, v = .node i id → (prefix2 id).isSome = true) ∧ (k ≠ kGraph → LitOk o v)) →
      ∃ es, makeEntries o E m = .ok es ∧ entriesRdf o base s es n = (slotTriples s m, n)
  | [], n, _ => ⟨[], rfl, rfl⟩
  | (k, vals) :: rest, n, h => by
    obtain ⟨es, h1, h2⟩ := entries_roundtrip o E base s hc hln rest n
      (fun k' vs' hm => h k' vs' (List.mem_cons_of_mem _ hm))
    have hk := h k vals List.mem_cons_self
    by_cases hg : k = kGraph
    · subst hg
      exact ⟨es, by simp [makeEntries, h1], by simp [slotTriples, h2]⟩
    · by_cases ht : k = kType
      · subst ht
        obtain ⟨ids, h3, h4⟩ := typeIds_ok vals (fun v hv => (hk v hv).1 rfl)
        refine ⟨(kType, .types ids) :: es, ?_, ?_⟩
        · have : (kType == kGraph) = false := by decide
          simp [makeEntries, this, h3, h1]
        · have : (kType == kGraph) = false := by decide
          simp [entriesRdf, slotTriples, this, h2, h4 s]
      · obtain ⟨vs, h3, h4⟩ := values_roundtrip o E base s (.iri k) hc hln vals n
          (fun v hv => ⟨(hk v hv).2.2 hg, (hk v hv).2.1⟩)
        refine ⟨(k, .vals vs) :: es, ?_, ?_⟩
        · simp [makeEntries, hg, ht, h3, h1]
        · simp [entriesRdf, slotTriples, hg, h4, h2, keyPred, ht]

end SophiaProofs.JsonLdLemmas
