/-
Lemmas about the std-collection stores (`Vec` with `swap_remove`), the enumerations and
`from_quad_source` of `SophiaModel.StdStore`.
-/
import SophiaProofs.Lemmas.StoreBulk
import SophiaModel.Model.StoreStd
import Std.Data.String.ToNat

namespace SophiaProofs.StdP
open SophiaModel SophiaModel.Term SophiaModel.Store SophiaModel.StdStore SophiaProofs.StoreP
open SophiaProofs.C02 (termEq_refl termEq_symm termEq_trans)

/-! ## `Vec::swap_remove` and the removal loops -/

theorem swapRemove_append_cons {α : Type} (a : List α) (x : α) (b : List α) :
    swapRemove (a ++ x :: b) a.length =
      match b.getLast? with
      | none => a
      | some y => a ++ y :: b.dropLast := by
  unfold swapRemove
  cases hb : b.getLast? with
  | none =>
    have : b = [] := by simpa using hb
    subst this
    simp [List.getLast?_append]
  | some y =>
    have hne : b ≠ [] := by intro h; simp [h] at hb
    have hl : (a ++ x :: b).getLast? = some y := by
      simp [List.getLast?_append]
      cases b with
      | nil => exact absurd rfl hne
      | cons c cs => simpa [List.getLast?_cons_cons] using hb
    simp only [hl]
    rw [List.set_append_right _ _ (Nat.le_refl _)]
    simp only [Nat.sub_self, List.set_cons_zero]
    rw [List.dropLast_append_of_ne_nil (by simp)]
    cases b with
    | nil => exact absurd rfl hne
    | cons c cs => simp [List.dropLast_cons_of_ne_nil]

theorem perm_getLast_dropLast {α : Type} (b : List α) (y : α) (h : b.getLast? = some y) :
    (y :: b.dropLast).Perm b := by
  have hne : b ≠ [] := by intro hb; simp [hb] at h
  have h2 : b.getLast hne = y := by
    rw [List.getLast?_eq_some_getLast hne] at h; exact Option.some.inj h
  have : b = b.dropLast ++ [y] := by
    have := List.dropLast_concat_getLast hne
    rw [h2] at this; exact this.symm
  conv => rhs; rw [this]
  exact (List.perm_append_singleton y b.dropLast).symm

/-- the state of the loop after any number of iterations: the prefix before `i` is final, the rest
is some permutation of what remains to be examined -/
theorem vecRemoveLoop_perm {α : Type} (p : α → Bool) : ∀ (fuel i : Nat) (l : List α),
    l.length - i ≤ fuel →
    (vecRemoveLoop p fuel i l).Perm (l.take i ++ (l.drop i).filter (fun x => !p x)) := by
  intro fuel
  induction fuel with
  | zero =>
    intro i l h
    have hi : l.length ≤ i := by omega
    simp [vecRemoveLoop, List.take_of_length_le hi, List.drop_of_length_le hi]
  | succ fuel ih =>
    intro i l h
    unfold vecRemoveLoop
    cases hx : l[i]? with
    | none =>
      have hi : l.length ≤ i := by simpa using hx
      simp [List.take_of_length_le hi, List.drop_of_length_le hi]
    | some x =>
      have hi : i < l.length := by
        rcases Nat.lt_or_ge i l.length with h' | h'
        · exact h'
        · simp [List.getElem?_eq_none h'] at hx
      have hsplit : l = l.take i ++ x :: l.drop (i + 1) := by
        have hx' : l[i] = x := by
          have := List.getElem?_eq_getElem hi
          rw [this] at hx; exact Option.some.inj hx
        rw [← hx', List.getElem_cons_drop hi, List.take_append_drop]
      have hlen : (l.take i).length = i := by simp [Nat.min_eq_left (Nat.le_of_lt hi)]
      have hdrop : l.drop i = x :: l.drop (i + 1) := by
        have hx' : l[i] = x := by
          have := List.getElem?_eq_getElem hi
          rw [this] at hx; exact Option.some.inj hx
        rw [← hx', List.getElem_cons_drop hi]
      by_cases hp : p x = true
      · simp only [hp, if_true]
        -- one element fewer; position `i` now holds the former last element (not examined yet)
        have hsr : swapRemove l i =
            match (l.drop (i + 1)).getLast? with
            | none => l.take i
            | some y => l.take i ++ y :: (l.drop (i + 1)).dropLast := by
          have := swapRemove_append_cons (l.take i) x (l.drop (i + 1))
          rw [hlen, ← hsplit] at this
          exact this
        cases hb : (l.drop (i + 1)).getLast? with
        | none =>
          have hnil : l.drop (i + 1) = [] := by simpa using hb
          rw [hb] at hsr
          simp only at hsr
          have hl' : (swapRemove l i).length = i := by rw [hsr, hlen]
          have := ih i (swapRemove l i) (by omega)
          rw [hsr] at this ⊢
          have ht : (l.take i).take i = l.take i := by
            rw [List.take_take]; simp
          have hd : (l.take i).drop i = [] := by
            apply List.drop_of_length_le; omega
          rw [ht, hd] at this
          rw [hdrop, hnil]
          simpa [hp] using this
        | some y =>
          rw [hb] at hsr
          simp only at hsr
          have hl' : (swapRemove l i).length = l.length - 1 := by
            rw [hsr]
            have h1 : (l.drop (i + 1)).length = l.length - (i + 1) := by simp
            have hne : l.drop (i + 1) ≠ [] := by intro h0; simp [h0] at hb
            have h2 : (l.drop (i + 1)).length > 0 := List.length_pos_iff.mpr hne
            simp [hlen]
            omega
          have := ih i (swapRemove l i) (by omega)
          refine this.trans ?_
          rw [hsr]
          have ht : (l.take i ++ y :: (l.drop (i + 1)).dropLast).take i = l.take i := by
            rw [List.take_append_of_le_length (by omega)]
            rw [List.take_take]; simp
          have hd : (l.take i ++ y :: (l.drop (i + 1)).dropLast).drop i = y :: (l.drop (i + 1)).dropLast := by
            rw [List.drop_append_of_le_length (by omega)]
            have : (l.take i).drop i = [] := by apply List.drop_of_length_le; omega
            rw [this]; rfl
          rw [ht, hd, hdrop]
          apply List.Perm.append_left
          have hf : List.filter (fun x => !p x) (x :: l.drop (i + 1)) = List.filter (fun x => !p x) (l.drop (i + 1)) := by
            simp [hp]
          rw [hf]
          exact (perm_getLast_dropLast _ y hb).filter _
      · have hp' : p x = false := by simpa using hp
        simp only [hp', Bool.false_eq_true, if_false]
        have := ih (i + 1) l (by omega)
        refine this.trans ?_
        have ht : l.take (i + 1) = l.take i ++ [x] := by
          rw [List.take_add_one, hx]; rfl
        rw [ht, hdrop]
        simp [hp']


/-- `Vec<Spog<T>>::remove` / `Vec<[T;3]>::remove` leave exactly the entries that are not the quad
(every occurrence goes, nothing else does, multiplicities of the others are kept) -/
theorem vecRemoveAll_perm (d : List Quad) (q : Quad) :
    (vecRemoveAll d q).1.Perm (d.filter (fun x => !quadEq x q)) := by
  have := vecRemoveLoop_perm (fun x => quadEq x q) d.length 0 d (by omega)
  simpa [vecRemoveAll] using this

theorem swapRemove_perm_eraseIdx {α : Type} (l : List α) (i : Nat) (hi : i < l.length) :
    (swapRemove l i).Perm (l.eraseIdx i) := by
  have hsplit : l = l.take i ++ l[i] :: l.drop (i + 1) := by
    rw [List.getElem_cons_drop hi, List.take_append_drop]
  have hlen : (l.take i).length = i := by simp [Nat.min_eq_left (Nat.le_of_lt hi)]
  have h1 := swapRemove_append_cons (l.take i) l[i] (l.drop (i + 1))
  rw [hlen, ← hsplit] at h1
  have h2 : l.eraseIdx i = l.take i ++ l.drop (i + 1) := List.eraseIdx_eq_take_drop_succ l i
  rw [h1, h2]
  cases hb : (l.drop (i + 1)).getLast? with
  | none =>
    have hnil : l.drop (i + 1) = [] := by simpa using hb
    simp [hnil]
  | some y =>
    exact List.Perm.append_left _ (perm_getLast_dropLast _ y hb)

/-- `Vec<Gspo<T>>::remove`: absent ⇒ unchanged and `false`; present ⇒ `true` and exactly one
occurrence (the first) is gone -/
theorem vecRemoveFirst_spec (d : List Quad) (q : Quad) :
    (qmem q d = false → vecRemoveFirst d q = (d, false)) ∧
    (qmem q d = true → (vecRemoveFirst d q).2 = true ∧
      (vecRemoveFirst d q).1.Perm (d.eraseP (fun x => quadEq x q))) := by
  unfold vecRemoveFirst
  cases hf : d.findIdx? (fun x => quadEq x q) with
  | none =>
    have hall : ∀ x ∈ d, quadEq x q = false := by
      simpa [List.findIdx?_eq_none_iff] using hf
    have hq : qmem q d = false := by
      simp only [qmem, List.any_eq_false]
      intro x hx; simp [hall x hx]
    simp [hq]
  | some i =>
    have hi := (List.findIdx?_eq_some_iff_getElem.mp hf)
    obtain ⟨hlt, hpi, hbefore⟩ := hi
    have hq : qmem q d = true := by
      simp only [qmem, List.any_eq_true]
      exact ⟨d[i], List.getElem_mem hlt, hpi⟩
    refine ⟨by simp [hq], fun _ => ⟨rfl, ?_⟩⟩
    have he : d.eraseP (fun x => quadEq x q) = d.eraseIdx i := by
      rw [List.eraseP_eq_eraseIdx, hf]
    rw [he]
    exact swapRemove_perm_eraseIdx d i hlt


/-! ## histories on a `Vec<Spog<T>>` / `Vec<[T;3]>`: the vector is "the corresponding list" -/

/-- one operation on the literal vector model (`all` = which `remove`; results ignored) -/
def vecStep (all : Bool) (n : Nat) (d : List Quad) : Op → List Quad
  | .ins q => (vecInsert d q).1
  | .rem q => (vecRemove all d q).1
  | .insAll qs => (vecInsertAll d qs 0).1
  | .remAll qs => (vecRemoveAllOf all d qs 0).1
  | .remM p => (vecRemoveMatching all n d p).1
  | .retM p => vecRetainMatching all n d p

/-- the corresponding list: insertion appends, removal drops every occurrence (modulo `Term::eq`) -/
def listStep (n : Nat) (t : List Quad) : Op → List Quad
  | .ins q => t ++ [q]
  | .rem q => t.filter (fun x => !quadEq x q)
  | .insAll qs => t ++ qs
  | .remAll qs => t.filter (fun x => !qmem x qs)
  | .remM p => t.filter (fun q => !quadMatched n p q)
  | .retM p => t.filter (quadMatched n p)

theorem vecInsertAll_fst (d : List Quad) : ∀ (qs : List Quad) (c : Nat), (vecInsertAll d qs c).1 = d ++ qs := by
  intro qs
  induction qs generalizing d with
  | nil => intro c; simp [vecInsertAll]
  | cons q qs ih => intro c; simp [vecInsertAll, vecInsert, ih]

theorem vecRemoveAllOf_perm : ∀ (qs d : List Quad) (c : Nat),
    (vecRemoveAllOf true d qs c).1.Perm (d.filter (fun x => !qmem x qs)) := by
  intro qs
  induction qs with
  | nil =>
    intro d c
    have : d.filter (fun x => !qmem x []) = d := by
      apply List.filter_eq_self.mpr; intro x _; rfl
    rw [this]; exact List.Perm.refl _
  | cons q qs ih =>
    intro d c
    simp only [vecRemoveAllOf, vecRemove, if_true]
    refine (ih _ _).trans ?_
    refine ((vecRemoveAll_perm d q).filter _).trans ?_
    rw [List.filter_filter]
    apply List.Perm.of_eq
    apply List.filter_congr
    intro x _
    simp [qmem, quadEq_symm q x, Bool.and_comm]

theorem qmem_filter_self {f : Quad → Bool} (hf : Resp f) (d : List Quad) {x : Quad} (hx : x ∈ d) :
    qmem x (d.filter f) = f x := by
  rw [Bool.eq_iff_iff]
  constructor
  · intro h
    obtain ⟨y, hy, hyx⟩ := List.any_eq_true.mp h
    rw [← hf y x hyx]
    exact (List.mem_filter.mp hy).2
  · intro h
    exact List.any_eq_true.mpr ⟨x, List.mem_filter.mpr ⟨hx, h⟩, quadEq_refl x⟩

/-- one step: a vector that is a permutation of the list stays one -/
theorem vecStep_perm (n : Nat) {d t : List Quad} (h : d.Perm t) (op : Op) :
    (vecStep true n d op).Perm (listStep n t op) := by
  cases op with
  | ins q => exact h.append_right [q]
  | rem q =>
    simp only [vecStep, vecRemove, if_true, listStep]
    exact (vecRemoveAll_perm d q).trans (h.filter _)
  | insAll qs => simp only [vecStep, listStep, vecInsertAll_fst]; exact h.append_right qs
  | remAll qs => exact (vecRemoveAllOf_perm qs d 0).trans (h.filter _)
  | remM p =>
    simp only [vecStep, vecRemoveMatching, listStep]
    refine (vecRemoveAllOf_perm _ d 0).trans ?_
    have : d.filter (fun x => !qmem x (d.filter (quadMatched n p))) = d.filter (fun q => !quadMatched n p q) := by
      apply List.filter_congr
      intro x hx
      rw [qmem_filter_self (quadMatched_resp n p) d hx]
    rw [this]; exact h.filter _
  | retM p =>
    simp only [vecStep, vecRetainMatching, listStep]
    refine (vecRemoveAllOf_perm _ d 0).trans ?_
    have : d.filter (fun x => !qmem x (d.filter (fun q => !quadMatched n p q))) = d.filter (quadMatched n p) := by
      apply List.filter_congr
      intro x hx
      rw [qmem_filter_self (Resp.not (quadMatched_resp n p)) d hx]
      simp
    rw [this]; exact h.filter _

/-- **After any history, `Vec<Spog<T>>` / `Vec<[T;3]>` hold the corresponding list** (as a multiset:
`swap_remove` reorders, nothing else): every entry of the list with its multiplicity, nothing more. -/
theorem vec_run_perm (n : Nat) (ops : List Op) :
    (ops.foldl (vecStep true n) []).Perm (ops.foldl (listStep n) []) := by
  suffices ∀ (ops : List Op) (d t : List Quad), d.Perm t →
      (ops.foldl (vecStep true n) d).Perm (ops.foldl (listStep n) t) from this ops [] [] (List.Perm.refl _)
  intro ops
  induction ops with
  | nil => intro d t h; exact h
  | cons op ops ih => intro d t h; exact ih _ _ (vecStep_perm n h op)

/-! ## enumerations -/


/-- membership of a term in an enumeration, modulo `Term::eq` -/
def tmem (t : Term) (l : List Term) : Bool := l.any (fun x => termEq x t)

theorem tmem_append (t : Term) (a b : List Term) : tmem t (a ++ b) = (tmem t a || tmem t b) := by
  simp [tmem]

theorem tmem_cons (t x : Term) (l : List Term) : tmem t (x :: l) = (termEq x t || tmem t l) := by
  simp [tmem]

theorem termEq_congr_left {a b : Term} (x : Term) (h : termEq a b = true) : termEq a x = termEq b x := by
  rw [termEq_symm a x, termEq_symm b x]; exact termEq_congr_right x h

/-- a predicate on quads that respects `Term::eq` has the same `any` on two lists denoting the same set -/
theorem any_sameset {g : Quad → Bool} (hg : Resp g) {a b : List Quad} (h : SameSet a b) :
    a.any g = b.any g := by
  have key : ∀ {a b : List Quad}, SameSet a b → a.any g = true → b.any g = true := by
    intro a b h ha
    obtain ⟨x, hx, hgx⟩ := List.any_eq_true.mp ha
    have h1 : qmem x a = true := List.any_eq_true.mpr ⟨x, hx, quadEq_refl x⟩
    rw [h x] at h1
    obtain ⟨y, hy, hyx⟩ := List.any_eq_true.mp h1
    exact List.any_eq_true.mpr ⟨y, hy, by rw [hg y x hyx]; exact hgx⟩
  rw [Bool.eq_iff_iff]; exact ⟨key h, key h.symm⟩

theorem tmem_filter_kind (k : Kind) (t : Term) : ∀ l : List Term,
    tmem t (l.filter (fun x => x.kind == k)) = (t.kind == k && tmem t l)
  | [] => by simp [tmem]
  | x :: l => by
    have ih := tmem_filter_kind k t l
    simp only [List.filter_cons]
    by_cases hxk : (x.kind == k) = true
    · simp only [hxk, if_true, tmem_cons, ih]
      cases hx : termEq x t
      · simp
      · have : (t.kind == k) = true := by rw [← termEq_kind hx]; exact hxk
        simp [this]
    · simp only [hxk, Bool.false_eq_true, if_false, tmem_cons, ih]
      cases hx : termEq x t
      · simp
      · have : (t.kind == k) = false := by rw [← termEq_kind hx]; simpa using hxk
        simp [this]

theorem atoms_of_not_triple {a : Term} (h : a.kind ≠ .triple) : atoms a = [a] := by
  cases a <;> simp_all [atoms, Term.kind]

theorem constituents_of_not_triple {a : Term} (h : a.kind ≠ .triple) : constituents a = [a] := by
  cases a <;> simp_all [constituents, Term.kind]

/-- `Term::eq`-equal terms have the same atoms / constituents, modulo `Term::eq` -/
theorem tmem_atoms_congr : ∀ {a b : Term}, termEq a b = true → ∀ t, tmem t (atoms a) = tmem t (atoms b) := by
  intro a
  induction a with
  | triple s p o ihs ihp iho =>
    intro b h t
    cases b <;> simp [termEq] at h
    obtain ⟨⟨h1, h2⟩, h3⟩ := h
    simp only [atoms, tmem_append, ihs h1 t, ihp h2 t, iho h3 t]
  | _ =>
    intro b h t
    have hk := termEq_kind h
    rw [atoms_of_not_triple (by simp [Term.kind]), atoms_of_not_triple (a := b) (by rw [← hk]; simp [Term.kind])]
    simp [tmem, termEq_congr_left t h]

theorem tmem_constituents_congr : ∀ {a b : Term}, termEq a b = true →
    ∀ t, tmem t (constituents a) = tmem t (constituents b) := by
  intro a
  induction a with
  | triple s p o ihs ihp iho =>
    intro b h t
    have h0 := h
    cases b <;> simp [termEq] at h
    obtain ⟨⟨h1, h2⟩, h3⟩ := h
    simp only [constituents, tmem_cons, tmem_append, ihs h1 t, ihp h2 t, iho h3 t, termEq_congr_left t h0]
  | _ =>
    intro b h t
    have hk := termEq_kind h
    rw [constituents_of_not_triple (by simp [Term.kind]),
      constituents_of_not_triple (a := b) (by rw [← hk]; simp [Term.kind])]
    simp [tmem, termEq_congr_left t h]

theorem tmem_flatMap {α : Type} (t : Term) (f : α → List Term) (l : List α) :
    tmem t (l.flatMap f) = l.any (fun x => tmem t (f x)) := by
  simp [tmem, List.any_flatMap]

/-- the terms of a quad, seen through a `Term::eq`-respecting expansion, respect `Term::eq` of quads -/
theorem comps_resp (n : Nat) (F : Term → List Term)
    (hF : ∀ {a b : Term}, termEq a b = true → ∀ t, tmem t (F a) = tmem t (F b)) (t : Term) :
    Resp (fun q => (comps n q).any (fun c => tmem t (F c))) := by
  intro a b h
  simp only [quadEq, Bool.and_eq_true] at h
  obtain ⟨⟨⟨hs, hp⟩, ho⟩, hg⟩ := h
  have hgg : (a.g.toList).any (fun c => tmem t (F c)) = (b.g.toList).any (fun c => tmem t (F c)) := by
    cases ha : a.g <;> cases hb : b.g <;> simp_all [gnameEq]
    exact hF hg t
  by_cases h4 : n = 4
  · simp only [comps, h4, if_true, Store.spog, List.any_append, List.any_cons, List.any_nil, Bool.or_false,
      hF hs t, hF hp t, hF ho t, hgg]
  · simp only [comps, h4, if_false, List.any_cons, List.any_nil, Bool.or_false, hF hs t, hF hp t, hF ho t]

/-- **Every enumeration is a function of the SET of quads**: two quad lists that denote the same
set (modulo `Term::eq`) enumerate the same subjects / predicates / objects / graph names / IRIs /
blank nodes / literals / variables / quoted triples (modulo `Term::eq`). -/
theorem enumTerms_sameset (n : Nat) (k : EnumKind) {a b : List Quad} (h : SameSet a b) (t : Term) :
    tmem t (enumTerms n k a) = tmem t (enumTerms n k b) := by
  have hmap : ∀ (f : Quad → Term), (∀ x y, quadEq x y = true → termEq (f x) (f y) = true) →
      tmem t (a.map f) = tmem t (b.map f) := by
    intro f hf
    have : ∀ l : List Quad, tmem t (l.map f) = l.any (fun q => termEq (f q) t) := by
      intro l; simp [tmem, List.any_map, Function.comp_def]
    rw [this a, this b]
    exact any_sameset (fun x y hxy => termEq_congr_left t (hf x y hxy)) h
  have hq : ∀ {x y : Quad}, quadEq x y = true →
      termEq x.s y.s = true ∧ termEq x.p y.p = true ∧ termEq x.o y.o = true ∧ gnameEq x.g y.g = true := by
    intro x y hxy
    simp only [quadEq, Bool.and_eq_true] at hxy
    exact ⟨hxy.1.1.1, hxy.1.1.2, hxy.1.2, hxy.2⟩
  have hatoms : ∀ kd : Kind, tmem t (((a.flatMap (comps n)).flatMap atoms).filter (fun t => t.kind == kd)) =
      tmem t (((b.flatMap (comps n)).flatMap atoms).filter (fun t => t.kind == kd)) := by
    intro kd
    rw [tmem_filter_kind, tmem_filter_kind, List.flatMap_assoc, List.flatMap_assoc, tmem_flatMap, tmem_flatMap]
    congr 1
    have : ∀ l : List Quad, l.any (fun q => tmem t ((comps n q).flatMap atoms)) =
        l.any (fun q => (comps n q).any (fun c => tmem t (atoms c))) := by
      intro l; simp [tmem_flatMap]
    rw [this a, this b]
    exact any_sameset (comps_resp n atoms (fun h => tmem_atoms_congr h) t) h
  cases k with
  | subjects => exact hmap (·.s) (fun x y hxy => (hq hxy).1)
  | predicates => exact hmap (·.p) (fun x y hxy => (hq hxy).2.1)
  | objects => exact hmap (·.o) (fun x y hxy => (hq hxy).2.2.1)
  | graphs =>
    have : ∀ l : List Quad, tmem t (l.filterMap (·.g)) =
        l.any (fun q => match q.g with | some x => termEq x t | none => false) := by
      intro l
      induction l with
      | nil => simp [tmem]
      | cons q l ih =>
        cases hg : q.g with
        | none => simp [hg, ih]
        | some x => simp [hg, tmem_cons, ih]
    simp only [enumTerms]
    rw [this a, this b]
    refine any_sameset (fun x y hxy => ?_) h
    have hg := (hq hxy).2.2.2
    cases hx : x.g <;> cases hy : y.g <;> simp_all [gnameEq]
    exact termEq_congr_left t hg
  | iris => exact hatoms .iri
  | bnodes => exact hatoms .bnode
  | literals => exact hatoms .literal
  | vars => exact hatoms .variable
  | qtriples =>
    simp only [enumTerms]
    rw [tmem_filter_kind, tmem_filter_kind, List.flatMap_assoc, List.flatMap_assoc, tmem_flatMap, tmem_flatMap]
    congr 1
    have : ∀ l : List Quad, l.any (fun q => tmem t ((comps n q).flatMap constituents)) =
        l.any (fun q => (comps n q).any (fun c => tmem t (constituents c))) := by
      intro l; simp [tmem_flatMap]
    rw [this a, this b]
    exact any_sameset (comps_resp n constituents (fun h => tmem_constituents_congr h) t) h


/-! ## `from_quad_source` / `from_triple_source` -/

/-- a store collected from a source holds exactly the set of the source's quads, each once -/
theorem collect_spec (d : StoreDesc) (hd : descOK d = true) (max : Nat) (qs : List Quad)
    (hq : ∀ q ∈ qs, QOK d q) {s : St} (h : collect d.shape max qs = some s) :
    Good d s ∧ SameSet (abs s) qs ∧ NodupQ (abs s) := by
  unfold collect at h
  cases hi : insertAll (St.new d.shape max) qs 0 with
  | mk s' r =>
    rw [hi] at h
    cases r with
    | none => simp at h
    | some c =>
      simp only [Option.some.injEq] at h
      subst h
      have hG0 := good_new hd max
      have hG : Good d s' := by
        have := good_insertAll qs 0 hG0; rw [hi] at this; exact this
      obtain ⟨h1, _⟩ := insertAll_spec hG0 hq hi
      rw [abs_new, List.append_nil] at h1
      refine ⟨hG, h1.trans ?_, abs_nodup hG.2.2.1⟩
      intro q; simp [qmem, List.any_reverse]

/-- it fails exactly when inserting the quads one by one into a fresh store hits the full index -/
theorem collect_none_iff (sh : Shape) (max : Nat) (qs : List Quad) :
    collect sh max qs = none ↔ (insertAll (St.new sh max) qs 0).2 = none := by
  unfold collect
  cases insertAll (St.new sh max) qs 0 with
  | mk s r => cases r <;> simp

/-! ## histories on a `Vec<Gspo<T>>` (remove = first occurrence): bags modulo `Term::eq` -/

/-- how many entries of `l` are the quad `x` (modulo `Term::eq`) -/
def countQ (x : Quad) (l : List Quad) : Nat := l.countP (fun y => quadEq y x)

/-- the same bag of quads modulo `Term::eq`: every quad occurs equally often -/
def SameBag (a b : List Quad) : Prop := ∀ x, countQ x a = countQ x b

theorem SameBag.of_perm {a b : List Quad} (h : a.Perm b) : SameBag a b := fun _ => h.countP_eq _

theorem countQ_append (x : Quad) (a b : List Quad) : countQ x (a ++ b) = countQ x a + countQ x b := by
  simp [countQ, List.countP_append]

theorem countQ_cons (x y : Quad) (l : List Quad) :
    countQ x (y :: l) = countQ x l + (if quadEq y x = true then 1 else 0) := by
  simp [countQ, List.countP_cons]

theorem countQ_zero_of_not_mem {x : Quad} {l : List Quad} (h : qmem x l = false) : countQ x l = 0 := by
  simp only [countQ, List.countP_eq_zero]
  intro y hy hyx
  have : qmem x l = true := List.any_eq_true.mpr ⟨y, hy, hyx⟩
  rw [h] at this; exact Bool.noConfusion this

theorem countQ_eraseP (x q : Quad) : ∀ l : List Quad,
    countQ x (l.eraseP (fun y => quadEq y q)) = countQ x l - (if quadEq q x = true then 1 else 0)
  | [] => by simp [countQ]
  | y :: l => by
    have ih := countQ_eraseP x q l
    by_cases hyq : quadEq y q = true
    · rw [List.eraseP_cons_of_pos (p := fun y => quadEq y q) (by simpa using hyq), countQ_cons]
      have : quadEq y x = quadEq q x := quadEq_congr_left x hyq
      rw [this]
      split <;> omega
    · rw [List.eraseP_cons_of_neg (p := fun y => quadEq y q) (by simpa using hyq), countQ_cons, countQ_cons, ih]
      by_cases hqx : quadEq q x = true
      · have hyx : quadEq y x = false := by
          cases h : quadEq y x with
          | false => rfl
          | true =>
            exfalso; apply hyq
            exact quadEq_trans y x q h (by rw [quadEq_symm]; exact hqx)
        simp [hqx, hyx]
      · simp [hqx]

theorem countQ_filter {f : Quad → Bool} (hf : Resp f) (x : Quad) (l : List Quad) :
    countQ x (l.filter f) = if f x = true then countQ x l else 0 := by
  simp only [countQ, List.countP_filter]
  by_cases hx : f x = true
  · simp only [hx, if_true]
    apply List.countP_congr
    intro y _
    constructor
    · intro h; simp only [Bool.and_eq_true] at h; exact h.1
    · intro h; simp only [Bool.and_eq_true]; exact ⟨h, by rw [hf y x h]; exact hx⟩
  · simp only [hx, if_false, Bool.false_eq_true]
    rw [List.countP_eq_zero]
    intro y _ h
    simp only [Bool.and_eq_true] at h
    apply hx; rw [← hf y x h.1]; exact h.2

/-- `Vec<Gspo<T>>::remove` takes exactly one copy of the quad out of the bag (if there is one) -/
theorem countQ_vecRemoveFirst (x q : Quad) (d : List Quad) :
    countQ x (vecRemoveFirst d q).1 = countQ x d - (if quadEq q x = true then 1 else 0) := by
  obtain ⟨h0, h1⟩ := vecRemoveFirst_spec d q
  cases hm : qmem q d with
  | false =>
    rw [h0 hm]
    by_cases hqx : quadEq q x = true
    · have : qmem x d = false := by rw [← qmem_congr d hqx]; exact hm
      simp [countQ_zero_of_not_mem this]
    · simp [hqx]
  | true =>
    rw [(SameBag.of_perm (h1 hm).2) x, countQ_eraseP]

theorem countQ_vecRemoveAllOf_first (x : Quad) : ∀ (qs d : List Quad) (c : Nat),
    countQ x (vecRemoveAllOf false d qs c).1 = countQ x d - countQ x qs := by
  intro qs
  induction qs with
  | nil => intro d c; simp [vecRemoveAllOf, countQ]
  | cons q qs ih =>
    intro d c
    simp only [vecRemoveAllOf, vecRemove, Bool.false_eq_true, if_false]
    rw [ih, countQ_vecRemoveFirst, countQ_cons]
    omega

theorem countQ_foldl_eraseP (x : Quad) : ∀ (qs t : List Quad),
    countQ x (qs.foldl (fun t q => t.eraseP (fun y => quadEq y q)) t) = countQ x t - countQ x qs := by
  intro qs
  induction qs with
  | nil => intro t; simp [countQ]
  | cons q qs ih =>
    intro t
    simp only [List.foldl_cons]
    rw [ih, countQ_eraseP, countQ_cons]
    omega

/-- the corresponding list for `Vec<Gspo<T>>`: insertion appends, removal drops the first occurrence -/
def listStepFirst (n : Nat) (t : List Quad) : Op → List Quad
  | .ins q => t ++ [q]
  | .rem q => t.eraseP (fun y => quadEq y q)
  | .insAll qs => t ++ qs
  | .remAll qs => qs.foldl (fun t q => t.eraseP (fun y => quadEq y q)) t
  | .remM p => t.filter (fun q => !quadMatched n p q)
  | .retM p => t.filter (quadMatched n p)

theorem vecStepFirst_bag (n : Nat) {d t : List Quad} (h : SameBag d t) (op : Op) :
    SameBag (vecStep false n d op) (listStepFirst n t op) := by
  intro x
  cases op with
  | ins q => simp only [vecStep, vecInsert, listStepFirst, countQ_append, h x]
  | rem q =>
    simp only [vecStep, vecRemove, Bool.false_eq_true, if_false, listStepFirst]
    rw [countQ_vecRemoveFirst, countQ_eraseP, h x]
  | insAll qs => simp only [vecStep, listStepFirst, vecInsertAll_fst, countQ_append, h x]
  | remAll qs =>
    simp only [vecStep, listStepFirst]
    rw [countQ_vecRemoveAllOf_first, countQ_foldl_eraseP, h x]
  | remM p =>
    simp only [vecStep, vecRemoveMatching, listStepFirst]
    rw [countQ_vecRemoveAllOf_first, countQ_filter (quadMatched_resp n p),
      countQ_filter (Resp.not (quadMatched_resp n p)), h x]
    cases quadMatched n p x <;> simp
  | retM p =>
    simp only [vecStep, vecRetainMatching, listStepFirst]
    rw [countQ_vecRemoveAllOf_first, countQ_filter (Resp.not (quadMatched_resp n p)),
      countQ_filter (quadMatched_resp n p), h x]
    cases quadMatched n p x <;> simp

/-- **After any history a `Vec<Gspo<T>>` holds the corresponding list as a bag modulo `Term::eq`**:
every quad as often as the list that appends on insertion and drops one occurrence on removal. -/
theorem vec_first_run_bag (n : Nat) (ops : List Op) :
    SameBag (ops.foldl (vecStep false n) []) (ops.foldl (listStepFirst n) []) := by
  suffices ∀ (ops : List Op) (d t : List Quad), SameBag d t →
      SameBag (ops.foldl (vecStep false n) d) (ops.foldl (listStepFirst n) t) from this ops [] [] (fun _ => rfl)
  intro ops
  induction ops with
  | nil => intro d t h; exact h
  | cons op ops ih => intro d t h; exact ih _ _ (vecStepFirst_bag n h op)

/-! ## the bulk pre-load is `insert_all` -/

theorem getIndex_append_of_some {terms : List Term} {t : Term} {i : Nat} (h : getIndex terms t = some i)
    (ext : List Term) : getIndex (terms ++ ext) t = some i := by
  unfold getIndex at h ⊢
  rw [List.findIdx?_append, h]; rfl

theorem getIndex_snoc_none {terms : List Term} {t x : Term} (h : getIndex terms t = none)
    (hx : termEq x t = false) : getIndex (terms ++ [x]) t = none := by
  unfold getIndex at h ⊢
  rw [List.findIdx?_append, h]
  simp [List.findIdx?_cons, hx]

/-- zipping the image of a zip with the same second list again -/
theorem zip_map_zip {α β : Type} (G : β → α → α) : ∀ (l : List α) (ps : List β),
    ((l.zip ps).map (fun x => G x.2 x.1)).zip ps = (l.zip ps).map (fun x => (G x.2 x.1, x.2))
  | [], _ => by simp
  | _ :: _, [] => by simp
  | a :: l, p :: ps => by simp [zip_map_zip G l ps]

/-- one insertion of `(sT, pT, t, default graph)` with `sT`, `pT` known and `t` new: the new term is
appended, the flag is `true`, and every index gets exactly one new row at its head -/
theorem insert_fresh_obj {d : StoreDesc} {s : St} (hG : Good d s) {sT pT t : Term} {is ip : Nat}
    (hs : getIndex s.terms sT = some is) (hp : getIndex s.terms pT = some ip)
    (ht : getIndex s.terms t = none) (hroom : s.terms.length < s.max) :
    Store.insert s ⟨sT, pT, t, none⟩ =
      ({ s with terms := s.terms ++ [t],
                idx := (s.idx.zip s.shape.perms).map (fun x =>
                  layout x.2 (freshRow s.shape.n s.max is ip s.terms.length) :: x.1) }, some true) := by
  obtain ⟨hd, hshape, hinv, hlo⟩ := hG
  obtain ⟨prim, rest, ps, hP⟩ := hinv.parts
  obtain ⟨_, _, _, _, hord⟩ := descOK_shape hd
  have hnlt : ¬ (s.terms.length ≥ s.max) := by omega
  have hlo' : s.shape.lookupOrder = d.insertOrder := by rw [hshape]; rfl
  have hn' : s.shape.n = d.n := by rw [hshape]; rfl
  -- the canonical row
  have hrow : ∀ c, c ∈ prim → c ≠ freshRow s.shape.n s.max is ip s.terms.length := by
    intro c hc heq
    have hr := hP.rows c hc
    rcases hP.hn with h3 | h4
    · have := hr.2 2 s.terms.length (by rw [heq]; simp [freshRow, h3])
      rcases this with h | ⟨h, _⟩
      · omega
      · simp [isGPos, h3] at h
    · have := hr.2 3 s.terms.length (by rw [heq]; simp [freshRow, h4])
      rcases this with h | ⟨h, _⟩
      · omega
      · simp [isGPos, h4] at h
  have hlenrow : (freshRow s.shape.n s.max is ip s.terms.length).length = s.shape.n := by
    rcases hP.hn with h3 | h4
    · simp [freshRow, h3]
    · simp [freshRow, h4]
  -- what `ensureAll` computes
  have hE : ensureAll s.max s.shape.n (quadNames s.shape.n ⟨sT, pT, t, none⟩) s.shape.lookupOrder s.terms [] =
      (s.terms ++ [t], some (if s.shape.n = 4 then [(0, s.max), (3, s.terms.length), (2, ip), (1, is)]
        else [(2, s.terms.length), (1, ip), (0, is)])) := by
    rcases hord with ⟨h4, ho⟩ | ⟨h3, ho⟩
    · have h4' : s.shape.n = 4 := by rw [hn']; exact h4
      rw [hlo', ho, h4']
      simp [ensureAll, quadNames, ensureIndex, hs, hp, ht, hnlt]
    · have h3' : s.shape.n = 3 := by rw [hn']; exact h3
      rw [hlo', ho, h3']
      simp [ensureAll, quadNames, ensureIndex, hs, hp, ht, hnlt]
  have hrowOf : rowOfAssoc s.shape.n (if s.shape.n = 4 then [(0, s.max), (3, s.terms.length), (2, ip), (1, is)]
        else [(2, s.terms.length), (1, ip), (0, is)]) = freshRow s.shape.n s.max is ip s.terms.length := by
    rcases hP.hn with h3 | h4
    · simp [h3, rowOfAssoc, freshRow, range3, List.lookup]
    · simp [h4, rowOfAssoc, freshRow, range4, List.lookup]
  unfold Store.insert
  simp only [hE, hrowOf]
  rw [hP.hidx, hP.hperms]
  simp only []
  rw [layout_range hlenrow]
  have hnot : prim.contains (freshRow s.shape.n s.max is ip s.terms.length) = false := by
    rw [Bool.eq_false_iff]; intro hc
    exact hrow _ (List.contains_iff_mem.1 hc) rfl
  simp only [oinsert, hnot, Bool.false_eq_true, if_false, if_true]
  congr 2
  simp only [List.zip_cons_cons, List.map_cons, layout_range hlenrow]
  congr 1
  apply List.map_congr_left
  rintro ⟨ix, p⟩ hmem
  -- the new row is in no secondary index
  have hnm : ¬ (layout p (freshRow s.shape.n s.max is ip s.terms.length) ∈ ix) := by
    intro hc'
    obtain ⟨k, hk1⟩ := List.mem_iff_getElem?.1 hmem
    rw [List.getElem?_zip_eq_some] at hk1
    obtain ⟨c', hc'mem, hlay⟩ := (hP.same k ix p hk1.1 hk1.2 _).1 hc'
    have hpperm : IsPerm s.shape.n p = true := hP.hps p (List.mem_of_getElem? hk1.2)
    have := layout_inj hpperm (hP.rows c' hc'mem).1 hlenrow hlay
    exact hrow c' hc'mem this
  simp [hnm]


/-- terms the index has never seen, pairwise different (modulo `Term::eq`) -/
def FreshList (terms : List Term) : List Term → Prop
  | [] => True
  | t :: ts => getIndex terms t = none ∧ (∀ x ∈ ts, termEq t x = false) ∧ FreshList terms ts

theorem FreshList.snoc {terms : List Term} {t : Term} : ∀ {ts : List Term},
    (∀ x ∈ ts, termEq t x = false) → FreshList terms ts → FreshList (terms ++ [t]) ts
  | [], _, _ => trivial
  | x :: ts, h, hf =>
    ⟨getIndex_snoc_none hf.1 (h x (by simp)), hf.2.1, FreshList.snoc (fun y hy => h y (by simp [hy])) hf.2.2⟩

theorem zip_map_fst {α β : Type} : ∀ (l : List α) (ps : List β), l.length = ps.length →
    (l.zip ps).map (fun x => x.1) = l
  | [], [], _ => rfl
  | a :: l, p :: ps, h => by simp [zip_map_fst l ps (by simpa using h)]
  | [], _ :: _, h => by simp at h
  | _ :: _, [], h => by simp at h

theorem bulkFresh_nil {s : St} (hlen : s.idx.length = s.shape.perms.length) (is ip : Nat) :
    bulkFresh s is ip [] = s := by
  obtain ⟨sh, mx, terms, idx⟩ := s
  simp only [bulkFresh, List.append_nil, List.length_nil, List.range_zero, List.map_nil, List.reverse_nil,
    List.nil_append]
  congr
  exact zip_map_fst idx sh.perms hlen

/-- **the bulk pre-load IS `insert_all`**: for a store in a good state, `sT`/`pT` interned at
`is`/`ip`, never-seen pairwise different objects `ts` and enough room, inserting the quads
`(sT, pT, t, default graph)` one after the other yields exactly the state `bulkFresh` writes down,
and every insertion reports a change -/
theorem bulkFresh_eq_insertAll {d : StoreDesc} {sT pT : Term} {is ip : Nat} : ∀ (ts : List Term) {s : St} (c : Nat),
    Good d s → getIndex s.terms sT = some is → getIndex s.terms pT = some ip → FreshList s.terms ts →
    s.terms.length + ts.length ≤ s.max →
    insertAll s (ts.map (fun t => (⟨sT, pT, t, none⟩ : Quad))) c = (bulkFresh s is ip ts, some (c + ts.length))
  | [], s, c, hG, _, _, _, _ => by
    rw [bulkFresh_nil hG.2.2.1.idx_len]; rfl
  | t :: ts, s, c, hG, hs, hp, hf, hroom => by
    have hi := insert_fresh_obj hG hs hp hf.1 (by simp at hroom; omega)
    have hG1 := good_insert hG (⟨sT, pT, t, none⟩ : Quad)
    rw [hi] at hG1
    simp only [List.map_cons]
    rw [insertAll_cons_some _ c hi]
    simp only [if_true]
    have ih := bulkFresh_eq_insertAll (sT := sT) (pT := pT) (is := is) (ip := ip) ts (c + 1) hG1
      (getIndex_append_of_some hs [t]) (getIndex_append_of_some hp [t]) (FreshList.snoc hf.2.1 hf.2.2)
      (by simp at hroom ⊢; omega)
    rw [ih]
    congr 1
    · -- the two ways of writing the state down agree
      simp only [bulkFresh, List.append_assoc, List.singleton_append, List.length_cons, List.length_append,
        List.length_nil]
      congr 1
      rw [zip_map_zip (fun p ix => layout p (freshRow s.shape.n s.max is ip s.terms.length) :: ix)]
      rw [List.map_map]
      apply List.map_congr_left
      rintro ⟨ix, p⟩ _
      simp only [Function.comp]
      rw [List.range_succ_eq_map, List.map_cons, List.map_map, List.reverse_cons, List.append_assoc,
        List.singleton_append]
      congr 2
      apply List.map_congr_left
      intro j _
      simp only [Function.comp]
      congr 2
      omega
    · simp only [List.length_cons]; congr 1; omega


/-- pairwise different (modulo `Term::eq`) -/
def PairwiseNe : List Term → Prop
  | [] => True
  | t :: ts => (∀ x ∈ ts, termEq t x = false) ∧ PairwiseNe ts

theorem freshList_of {terms : List Term} : ∀ {ts : List Term},
    ts.all (fun t => (getIndex terms t).isNone) = true → PairwiseNe ts → FreshList terms ts
  | [], _, _ => trivial
  | t :: ts, h, hp => by
    simp only [List.all_cons, Bool.and_eq_true, Option.isNone_iff_eq_none] at h
    exact ⟨h.1, hp.1, freshList_of h.2 hp.2⟩

/-- **both paths of `bulkInsert` are `insert_all`** (pairwise different objects, store in a good state) -/
theorem bulkInsert_eq_insertAll {d : StoreDesc} {s : St} (hG : Good d s) (sT pT : Term) {ts : List Term}
    (hp : PairwiseNe ts) : bulkInsert s sT pT ts = insertAll s (objQuads sT pT ts) 0 := by
  unfold bulkInsert
  cases hs : getIndex s.terms sT with
  | none => rfl
  | some is =>
    cases hpp : getIndex s.terms pT with
    | none => rfl
    | some ip =>
      simp only
      split
      · rename_i hc
        simp only [Bool.and_eq_true, decide_eq_true_eq] at hc
        have := bulkFresh_eq_insertAll (sT := sT) (pT := pT) ts 0 hG hs hpp (freshList_of hc.1 hp) hc.2
        rw [objQuads, this]; simp
      · rfl

theorem fillTerm_ne {a b : Nat} (h : a ≠ b) : termEq (fillTerm a) (fillTerm b) = false := by
  simp only [fillTerm, termEq, Bool.and_eq_false_iff, beq_eq_false_iff_ne, ne_eq]
  left
  intro he
  apply h
  exact Nat.repr_injective (String.toList_injective he)

theorem fillTerms_pairwise (off : Nat) : ∀ m, PairwiseNe (fillTerms off m) := by
  intro m
  unfold fillTerms
  suffices ∀ (l : List Nat), l.Nodup → PairwiseNe (l.map (fun j => fillTerm (off + j))) from
    this _ List.nodup_range
  intro l
  induction l with
  | nil => intro _; trivial
  | cons a l ih =>
    intro hnd
    rw [List.nodup_cons] at hnd
    refine ⟨?_, ih hnd.2⟩
    intro x hx
    obtain ⟨b, hb, rfl⟩ := List.mem_map.1 hx
    exact fillTerm_ne (by intro h; apply hnd.1; have : a = b := by omega
                          rw [this]; exact hb)

/-! ## witness for the lookup-order clause of `descOK` -/

/-- a LightDataset whose `insert`/`remove` look the graph name up FIRST (a reordering that keeps the
property) -/
def gFirst : StoreDesc := { Gen.genericLightDataset with insertOrder := [0, 1, 2, 3], removeOrder := [0, 1, 2, 3] }

end SophiaProofs.StdP
