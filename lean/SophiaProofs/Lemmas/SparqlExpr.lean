/-
C13 — the two expression evaluators (expression.rs / value.rs / function.rs as transcribed in
Model/Sparql.lean, and SPARQL 1.1 §17 in Model/SparqlSpec.lean) agree on the whole modelled core
except `IN`, on rows and constants whose literals are "regular" (`Agree`).
-/
import SophiaProofs.Lemmas.Sparql

namespace SophiaProofs.SparqlL
open SophiaModel SophiaModel.Term SophiaModel.SparqlSpec SophiaModel.Sparql
open SophiaProofs.C02 (termEq_refl termEq_symm termEq_trans)

/-! ### integer lexical forms -/

theorem isDigit_of_core {c : Char} (h : c.isDigit = true) : SparqlSpec.isDigit c = true := by
  simp only [Char.isDigit, Bool.and_eq_true, decide_eq_true_eq] at h
  simp only [SparqlSpec.isDigit, Bool.and_eq_true, decide_eq_true_eq]
  constructor
  · show '0'.val ≤ c.val; exact h.1
  · show c.val ≤ '9'.val; exact h.2

theorem digitsVal_eq (ds : List Char) : digitsVal ds = Nat.ofDigitChars 10 ds 0 := rfl

theorem parseInteger_digits (n : Nat) : parseInteger (Nat.toDigits 10 n) = some (Int.ofNat n) := by
  have hall : (Nat.toDigits 10 n).all SparqlSpec.isDigit = true := by
    rw [List.all_eq_true]; intro c hc
    exact isDigit_of_core (Nat.isDigit_of_mem_toDigits (by decide) (by decide) hc)
  have hne : Nat.toDigits 10 n ≠ [] := Nat.toDigits_ne_nil
  have hval : digitsVal (Nat.toDigits 10 n) = n := by rw [digitsVal_eq]; exact Nat.ofDigitChars_ten_toDigits
  cases hd : Nat.toDigits 10 n with
  | nil => exact absurd hd hne
  | cons c cs =>
    have hc : SparqlSpec.isDigit c = true := by
      have := List.all_eq_true.1 hall c (by rw [hd]; exact List.mem_cons_self)
      exact this
    have h1 : c ≠ '-' := by intro h; subst h; revert hc; decide
    have h2 : c ≠ '+' := by intro h; subst h; revert hc; decide
    rw [hd] at hall hval
    unfold parseInteger
    split
    · rename_i ds heq; cases heq; exact absurd rfl h1
    · rename_i ds heq; cases heq; exact absurd rfl h2
    · simp [hall, hval]

theorem parseInteger_toString (k : Int) : parseInteger (toString k).toList = some k := by
  cases k with
  | ofNat n =>
    have : (toString (Int.ofNat n)).toList = Nat.toDigits 10 n := by
      show (Int.repr (Int.ofNat n)).toList = _
      simp [Int.repr, Nat.toList_repr]
    rw [this]; exact parseInteger_digits n
  | negSucc n =>
    have : (toString (Int.negSucc n)).toList = '-' :: Nat.toDigits 10 (n + 1) := by
      show (Int.repr (Int.negSucc n)).toList = _
      simp [Int.repr, Nat.toList_repr]
    rw [this]
    have hall : (Nat.toDigits 10 (n + 1)).all SparqlSpec.isDigit = true := by
      rw [List.all_eq_true]; intro c hc
      exact isDigit_of_core (Nat.isDigit_of_mem_toDigits (by decide) (by decide) hc)
    have hval : digitsVal (Nat.toDigits 10 (n + 1)) = n + 1 := by rw [digitsVal_eq]; exact Nat.ofDigitChars_ten_toDigits
    simp [parseInteger, hall, hval, Nat.toDigits_ne_nil, Int.negSucc_eq]


theorem isDigit_model_of_spec {c : Char} (h : SparqlSpec.isDigit c = true) : Sparql.isDigit c = true := by
  simp only [SparqlSpec.isDigit, Bool.and_eq_true, decide_eq_true_eq] at h
  simp only [Sparql.isDigit, Bool.and_eq_true, decide_eq_true_eq]
  exact ⟨h.1, h.2⟩

theorem native_digits_fold (ds : List Char) (h : ds.all SparqlSpec.isDigit = true) (a : Nat) :
    ds.foldl (fun acc c => acc.bind (fun n => if Sparql.isDigit c then some (n * 10 + digitVal c) else none)) (some a) =
      some (ds.foldl (fun n c => 10 * n + (c.toNat - 48)) a) := by
  induction ds generalizing a with
  | nil => rfl
  | cons c cs ih =>
    simp only [List.all_cons, Bool.and_eq_true] at h
    simp only [List.foldl_cons, Option.bind_some, isDigit_model_of_spec h.1, if_true]
    rw [ih h.2]
    simp [digitVal, Nat.mul_comm]

theorem nativeDigits_valid (ds : List Char) (hne : ds ≠ []) (hall : ds.all SparqlSpec.isDigit = true) :
    nativeDigits ds = some (digitsVal ds) := by
  have : ds.isEmpty = false := by cases ds <;> simp_all
  simp only [nativeDigits, this, Bool.false_eq_true, if_false]
  exact native_digits_fold ds hall 0

theorem pi_body (ds : List Char) (neg : Bool) (i : Int)
    (h : (if (ds ≠ [] && ds.all SparqlSpec.isDigit) = true then
        some (if neg = true then -(digitsVal ds : Int) else (digitsVal ds : Int)) else none) = some i) :
    ds ≠ [] ∧ ds.all SparqlSpec.isDigit = true ∧ i = (if neg = true then -(digitsVal ds : Int) else (digitsVal ds : Int)) := by
  by_cases hd : (ds ≠ [] && ds.all SparqlSpec.isDigit) = true
  · simp only [hd, if_true, Option.some.injEq] at h
    simp only [Bool.and_eq_true, decide_eq_true_eq] at hd
    exact ⟨hd.1, hd.2, h.symm⟩
  · rw [if_neg hd] at h; cases h

/-- every lexical form of xsd:integer is read by `isize::from_str` / `BigInt::from_str` with the same value -/
theorem rustParseInt_of_valid (lex : Str) (i : Int) (h : parseInteger lex = some i) : rustParseInt lex = some i := by
  cases lex with
  | nil => simp [parseInteger] at h
  | cons c cs =>
    by_cases hm : c = '-'
    · subst hm
      obtain ⟨hne, hall, hi⟩ := pi_body cs true i (by simpa [parseInteger] using h)
      cases cs with
      | nil => exact absurd rfl hne
      | cons d ds => simp [rustParseInt, parseNative, nativeDigits_valid _ hne hall, hi]
    · by_cases hp : c = '+'
      · subst hp
        obtain ⟨hne, hall, hi⟩ := pi_body cs false i (by simpa [parseInteger] using h)
        cases cs with
        | nil => exact absurd rfl hne
        | cons d ds => simp [rustParseInt, parseNative, nativeDigits_valid _ hne hall, hi]
      · have h' : parseInteger (c :: cs) = (if ((c :: cs) ≠ [] && (c :: cs).all SparqlSpec.isDigit) = true then
            some (if false = true then -(digitsVal (c :: cs) : Int) else (digitsVal (c :: cs) : Int)) else none) := by
          unfold parseInteger
          split
          · rename_i heq; cases heq; exact absurd rfl hm
          · rename_i heq; cases heq; exact absurd rfl hp
          · rfl
        rw [h'] at h
        obtain ⟨hne, hall, hi⟩ := pi_body (c :: cs) false i h
        have hn : parseNative (c :: cs) = (nativeDigits (c :: cs)).map Int.ofNat := by
          unfold parseNative
          split
          · rename_i heq; cases heq
          · rename_i heq; cases heq; exact absurd rfl hp
          · rename_i heq; cases heq; exact absurd rfl hm
          · rename_i heq; cases heq; exact absurd rfl hp
          · rename_i heq; cases heq; exact absurd rfl hm
          · rfl
        simp [rustParseInt, hn, nativeDigits_valid _ hne hall, hi]


theorem rustParseInt_toString (k : Int) : rustParseInt (toString k).toList = some k :=
  rustParseInt_of_valid _ _ (parseInteger_toString k)

/-! ### values: model view and specification view of a term -/

def toValue : Val → Value
  | .int i => .num i
  | .str s => .str s none
  | .bool b => .bool (some b)
  | .lstr s t => .str s (some t)

/-- the term is read alike by `SparqlValue::try_from_literal` / `is_truthy` and by §17: every term
except literals with an invalid xsd:integer / xsd:boolean lexical form (and xsd:boolean `"1"`, `"0"`) -/
def Agree (t : Term) : Prop :=
  valueOf t = (valOf t).map toValue ∧ (valueOf t).bind Value.isTruthy = ebv t

/-- an `EvalResult` and the term §17 computes stand for the same thing -/
def Rel (r : ER) (t : Term) : Prop :=
  r.asTerm = t ∧ r.asValue = (valOf t).map toValue ∧ r.isTruthy = ebv t

theorem rel_term {t : Term} (h : Agree t) : Rel (.term t) t := ⟨rfl, h.1, h.2⟩

theorem xsd_ne : xsdInteger ≠ xsdString ∧ xsdInteger ≠ xsdBoolean ∧ xsdString ≠ xsdBoolean := by decide

theorem agree_nonlit (t : Term) (h : isLiteral t = false) : Agree t := by
  cases t <;> simp_all [Agree, valueOf, valOf, ebv, isLiteral]

theorem agree_lang (l tag : Str) : Agree (.lang l tag) := by
  simp [Agree, valueOf, valOf, ebv, toValue, Value.isTruthy]

/-- a typed literal is regular when its lexical form is valid for xsd:integer resp. is `true`/`false`
for xsd:boolean; every other datatype is regular -/
theorem agree_lit (lex dt : Str)
    (hi : dt = xsdInteger → ∃ i, parseInteger lex = some i)
    (hb : dt = xsdBoolean → lex = "true".toList ∨ lex = "false".toList) : Agree (.lit lex dt) := by
  obtain ⟨n1, n2, n3⟩ := xsd_ne
  by_cases h1 : dt = xsdInteger
  · subst h1
    obtain ⟨i, hp⟩ := hi rfl
    simp [Agree, valueOf, valOf, ebv, hp, rustParseInt_of_valid _ _ hp, toValue, Value.isTruthy, n1, n2]
  · by_cases h2 : dt = xsdString
    · subst h2
      simp [Agree, valueOf, valOf, ebv, toValue, Value.isTruthy, n1.symm, n3]
    · by_cases h3 : dt = xsdBoolean
      · subst h3
        rcases hb rfl with h | h <;> subst h <;> simp [Agree, valueOf, valOf, ebv, h1, h2] <;> decide
      · simp [Agree, valueOf, valOf, ebv, h1, h2, h3]

theorem rel_bool (v : Bool) : Rel (erBool v) (boolTerm v) := by
  cases v <;> exact ⟨rfl, by decide, by decide⟩

theorem rel_str (lex : Str) : Rel (.value (.str lex none)) (.lit lex xsdString) := by
  obtain ⟨n1, _, n3⟩ := xsd_ne
  refine ⟨rfl, ?_, ?_⟩
  · simp [ER.asValue, valOf, n1.symm, toValue]
  · simp [ER.isTruthy, ER.asValue, Value.isTruthy, ebv, n1.symm, n3]

theorem rel_int (k : Int) : Rel (.value (.num k)) (intTerm k) := by
  obtain ⟨n1, n2, _⟩ := xsd_ne
  have hp : parseInteger k.repr.toList = some k := parseInteger_toString k
  refine ⟨rfl, ?_, ?_⟩
  · simp [ER.asValue, intTerm, valOf, hp, toValue]
  · simp [ER.isTruthy, ER.asValue, Value.isTruthy, intTerm, ebv, hp, n1, n2]

theorem agree_of_rel {r : ER} {t : Term} (h : Rel r t) : r.asTerm = t := h.1

/-! ### operators -/

def sameClass : Val → Val → Bool
  | .int _, .int _ | .str _, .str _ | .bool _, .bool _ | .lstr _ _, .lstr _ _ => true
  | _, _ => false

theorem isLiteral_of_valOf {t : Term} {v : Val} (h : valOf t = some v) : isLiteral t = true := by
  cases t <;> simp_all [valOf, isLiteral]

theorem termIsLiteral_eq (t : Term) : termIsLiteral t = isLiteral t := by cases t <;> rfl

theorem sameClass_of_termEq {a b : Term} {va vb : Val} (ha : valOf a = some va) (hb : valOf b = some vb)
    (h : termEq a b = true) : sameClass va vb = true := by
  obtain ⟨n1, n2, n3⟩ := xsd_ne
  cases a with
  | lit l d =>
    cases b with
    | lit l' d' =>
      simp only [termEq, Bool.and_eq_true, beq_iff_eq] at h
      obtain ⟨_, rfl⟩ := h
      simp only [valOf] at ha hb
      by_cases h1 : d = xsdInteger
      · subst h1
        simp only [if_true] at ha hb
        cases hp : parseInteger l <;> cases hp' : parseInteger l' <;> simp_all [sameClass]
        subst ha; subst hb; rfl
      · by_cases h2 : d = xsdString
        · subst h2; simp [n1.symm] at ha hb; subst ha; subst hb; rfl
        · by_cases h3 : d = xsdBoolean
          · subst h3
            simp only [h1, h2, if_false, if_true] at ha hb
            cases hp : parseBoolean l <;> cases hp' : parseBoolean l' <;> simp_all [sameClass]
            subst ha; subst hb; rfl
          · simp [h1, h2, h3] at ha
    | _ => simp [termEq] at h
  | lang l t =>
    cases b with
    | lang l' t' => simp [valOf] at ha hb; subst ha; subst hb; rfl
    | _ => simp [termEq] at h
  | _ => simp [valOf] at ha

/-- `=`: `EvalResult::sparql_eq` is §17.3 / RDFterm-equal on related operands -/
theorem eq_agree {a b : ER} {x y : Term} (ha : Rel a x) (hb : Rel b y) : a.sparqlEq b = opEq x y := by
  obtain ⟨a1, a2, _⟩ := ha
  obtain ⟨b1, b2, _⟩ := hb
  unfold ER.sparqlEq opEq
  rw [a1, b1, a2, b2]
  simp only [termIsLiteral_eq]
  cases hx : valOf x with
  | none => simp
  | some vx =>
    cases hy : valOf y with
    | none => simp
    | some vy =>
      have hl1 := isLiteral_of_valOf hx
      have hl2 := isLiteral_of_valOf hy
      have hne : sameClass vx vy = false → termEq x y = false := by
        intro hs
        cases ht : termEq x y with
        | false => rfl
        | true => rw [sameClass_of_termEq hx hy ht] at hs; cases hs
      cases vx <;> cases vy <;> (try (have ht := hne rfl)) <;>
        simp_all [toValue, Value.sparqlEq, sameClass, Bool.and_comm]


/-- `<`, `>`, `<=`, `>=`: `EvalResult::sparql_cmp` is the order of §17.3 (with the two adopted extensions) -/
theorem cmp_agree {a b : ER} {x y : Term} (ha : Rel a x) (hb : Rel b y) : a.sparqlCmp b = opOrd x y := by
  obtain ⟨a1, a2, _⟩ := ha
  obtain ⟨b1, b2, _⟩ := hb
  unfold ER.sparqlCmp opOrd
  rw [a1, b1, a2, b2]
  simp only [termIsLiteral_eq]
  cases hx : valOf x with
  | none => simp
  | some vx =>
    cases hy : valOf y with
    | none => simp
    | some vy => cases vx <;> cases vy <;> simp [toValue, Value.partialCmp]

theorem int_lt_compare (x y : Int) : (compare x y == Ordering.lt) = decide (x < y) := by
  by_cases h : x < y
  · simp [h, Int.compare_eq_lt.2 h]
  · have : compare x y ≠ .lt := fun hc => h (Int.compare_eq_lt.1 hc)
    cases hc : compare x y <;> simp_all

theorem opLt_eq_opOrd (x y : Term) : opLt x y = (opOrd x y).map (fun o => o == Ordering.lt) := by
  unfold opLt opOrd
  cases hx : valOf x with
  | none => simp
  | some vx =>
    cases hy : valOf y with
    | none => simp
    | some vy =>
      cases vx <;> cases vy <;> simp [int_lt_compare]
      rename_i p q; cases p <;> cases q <;> decide


/-- both evaluations raise an error, or both succeed with related results -/
def OptRel : Option ER → Option Term → Prop
  | none, none => True
  | some r, some t => Rel r t
  | _, _ => False

theorem toTerm_isLiteral (v : Value) : isLiteral v.toTerm = true := by
  cases v with
  | num i => rfl
  | str l t => cases t <;> rfl
  | bool o => cases o with
    | none => rfl
    | some b => cases b <;> rfl

theorem rel_iri (s : Str) : Rel (.term (.iri s)) (.iri s) := rel_term (agree_nonlit _ rfl)

/-- STR, LANG, DATATYPE, isIRI, isBlank, isLiteral: `call_function` is §17.4 on related arguments -/
theorem call_agree (f : Func) {a : ER} {x : Term} (ha : Rel a x) : OptRel (callFunction f a) (callFunc f x) := by
  obtain ⟨a1, _, _⟩ := ha
  cases a with
  | term t =>
    simp only [ER.asTerm] at a1; subst a1
    cases f <;> cases t <;>
      simp [callFunction, callFunc, OptRel, ER.asTerm, rel_str, rel_iri, rel_bool, termIsLiteral, isLiteral] <;>
      exact rel_bool _
  | value v =>
    simp only [ER.asTerm] at a1
    have hl := toTerm_isLiteral v
    rw [a1] at hl
    cases x with
    | lit l d =>
      cases f <;> simp [callFunction, callFunc, OptRel, ER.asTerm, a1, rel_str, rel_iri, isLiteral] <;> exact rel_bool _
    | lang l t =>
      cases f <;> simp [callFunction, callFunc, OptRel, ER.asTerm, a1, rel_str, rel_iri, isLiteral] <;> exact rel_bool _
    | _ => simp [isLiteral] at hl


/-! ### the evaluators agree -/

theorem optRel_cases {r : Option ER} {t : Option Term} (h : OptRel r t) :
    (r = none ∧ t = none) ∨ ∃ r' t', r = some r' ∧ t = some t' ∧ Rel r' t' := by
  cases r <;> cases t <;> simp_all [OptRel]

theorem optRel_truthy {r : Option ER} {t : Option Term} (h : OptRel r t) : r.bind ER.isTruthy = t.bind ebv := by
  rcases optRel_cases h with ⟨rfl, rfl⟩ | ⟨r', t', rfl, rfl, hr⟩
  · rfl
  · exact hr.2.2

theorem optRel_bool (o : Option Bool) : OptRel (o.map erBool) (o.map boolTerm) := by
  cases o with
  | none => trivial
  | some v => exact rel_bool v

theorem optRel_int (o : Option Int) : OptRel (o.map (fun k => ER.value (.num k))) (o.map intTerm) := by
  cases o with
  | none => trivial
  | some k => exact rel_int k

theorem asNumber_rel {a : ER} {x : Term} (h : Rel a x) :
    a.asNumber = (match valOf x with | some (.int i) => some i | _ => none) := by
  unfold ER.asNumber
  rw [h.2.1]
  cases hx : valOf x with
  | none => rfl
  | some v => cases v <;> rfl

/-- the expressions of the modelled core except IN (whose evaluation deviates: finding C13-in-first-error) -/
def noIn : Expr → Bool
  | .inl _ _ _ => false
  | .or a b | .and a b | .eq a b | .sameTerm a b | .lt a b | .cmp _ a b | .arith _ a b | .coalesce a b => noIn a && noIn b
  | .not a | .call _ a | .neg a | .pos a => noIn a
  | .ite a b c => noIn a && noIn b && noIn c
  | _ => true

/-- every constant of the expression is a regular term -/
def ConstsAgree : Expr → Prop
  | .const t => Agree t
  | .or a b | .and a b | .eq a b | .sameTerm a b | .lt a b | .cmp _ a b | .arith _ a b | .coalesce a b =>
    ConstsAgree a ∧ ConstsAgree b
  | .not a | .call _ a | .neg a | .pos a => ConstsAgree a
  | .ite a b c | .inl a b c => ConstsAgree a ∧ ConstsAgree b ∧ ConstsAgree c
  | _ => True

/-- every term the row binds is regular -/
def RowAgree (b : Binding) : Prop := ∀ x t, b.v.get x = some t → Agree t

theorem ifEbvStrict_true : Gen.SparqlDispatch.ifEbvStrict = true := rfl

/-- **the two expression evaluators agree** on the whole modelled core except IN — variables, constants,
BOUND, `=`, sameTerm, `<` `>` `<=` `>=`, `+ - *`, unary ±, `! && ||`, IF, COALESCE, STR, LANG, DATATYPE,
isIRI, isBlank, isLiteral, arbitrarily nested — on every row that binds regular terms: both raise an
error, or both succeed with the same term, the same value and the same effective boolean value. -/
theorem expr_agree {b : Binding} {μ : Mu} (hr : RelRow b μ) (hb : RowAgree b) :
    ∀ e : Expr, noIn e = true → ConstsAgree e → OptRel (Sparql.evalExpr b e) (SparqlSpec.evalExpr μ e) := by
  intro e
  induction e with
  | const t => intro _ hc; exact rel_term hc
  | var x =>
    intro _ _
    simp only [Sparql.evalExpr, SparqlSpec.evalExpr, ← hr x]
    cases hg : b.v.get x with
    | none => trivial
    | some t => exact rel_term (hb x t hg)
  | bound x =>
    intro _ _
    simp only [Sparql.evalExpr, SparqlSpec.evalExpr, ← hr x]
    exact rel_bool _
  | err => intro _ _; trivial
  | inl a e r _ _ _ => intro h; simp [noIn] at h
  | or a c iha ihc =>
    intro hn hc
    simp only [noIn, Bool.and_eq_true] at hn
    have h1 := optRel_truthy (iha hn.1 hc.1)
    have h2 := optRel_truthy (ihc hn.2 hc.2)
    simp only [Sparql.evalExpr, SparqlSpec.evalExpr, orAndLenient_true, if_true, orTable_eq_or3, h1, h2]
    exact optRel_bool _
  | and a c iha ihc =>
    intro hn hc
    simp only [noIn, Bool.and_eq_true] at hn
    have h1 := optRel_truthy (iha hn.1 hc.1)
    have h2 := optRel_truthy (ihc hn.2 hc.2)
    simp only [Sparql.evalExpr, SparqlSpec.evalExpr, orAndLenient_true, if_true, andTable_eq_and3, h1, h2]
    exact optRel_bool _
  | not a iha =>
    intro hn hc
    simp only [noIn] at hn
    have h1 := optRel_truthy (iha hn hc)
    simp only [Sparql.evalExpr, SparqlSpec.evalExpr]
    rcases optRel_cases (iha hn hc) with ⟨h1', h2'⟩ | ⟨r1, t1, h1', h2', hr1⟩
    · rw [h1', h2']; trivial
    · rw [h1', h2']
      simp only [Option.bind_eq_bind, Option.bind_some, hr1.2.2]
      cases ebv t1 with
      | none => trivial
      | some v => exact rel_bool _
  | eq a c iha ihc =>
    intro hn hc
    simp only [noIn, Bool.and_eq_true] at hn
    simp only [Sparql.evalExpr, SparqlSpec.evalExpr]
    rcases optRel_cases (iha hn.1 hc.1) with ⟨h1, h2⟩ | ⟨r1, t1, h1, h2, hr1⟩
    · rw [h1, h2]; trivial
    · rcases optRel_cases (ihc hn.2 hc.2) with ⟨g1, g2⟩ | ⟨r2, t2, g1, g2, hr2⟩
      · rw [h1, h2, g1, g2]; trivial
      · rw [h1, h2, g1, g2]
        simp only [Option.bind_eq_bind, Option.bind_some, eq_agree hr1 hr2]
        exact optRel_bool _
  | sameTerm a c iha ihc =>
    intro hn hc
    simp only [noIn, Bool.and_eq_true] at hn
    simp only [Sparql.evalExpr, SparqlSpec.evalExpr]
    rcases optRel_cases (iha hn.1 hc.1) with ⟨h1, h2⟩ | ⟨r1, t1, h1, h2, hr1⟩
    · rw [h1, h2]; trivial
    · rcases optRel_cases (ihc hn.2 hc.2) with ⟨g1, g2⟩ | ⟨r2, t2, g1, g2, hr2⟩
      · rw [h1, h2, g1, g2]; trivial
      · rw [h1, h2, g1, g2]
        simp only [Option.bind_eq_bind, Option.bind_some, ER.intoTerm, hr1.1, hr2.1]
        exact rel_bool _
  | lt a c iha ihc =>
    intro hn hc
    simp only [noIn, Bool.and_eq_true] at hn
    simp only [Sparql.evalExpr, SparqlSpec.evalExpr]
    rcases optRel_cases (iha hn.1 hc.1) with ⟨h1, h2⟩ | ⟨r1, t1, h1, h2, hr1⟩
    · rw [h1, h2]; trivial
    · rcases optRel_cases (ihc hn.2 hc.2) with ⟨g1, g2⟩ | ⟨r2, t2, g1, g2, hr2⟩
      · rw [h1, h2, g1, g2]; trivial
      · rw [h1, h2, g1, g2]
        simp only [Option.bind_eq_bind, Option.bind_some, cmp_agree hr1 hr2, opLt_eq_opOrd, Option.map_map]
        cases opOrd t1 t2 with
        | none => trivial
        | some o => exact rel_bool _
  | cmp op a c iha ihc =>
    intro hn hc
    simp only [noIn, Bool.and_eq_true] at hn
    simp only [Sparql.evalExpr, SparqlSpec.evalExpr]
    rcases optRel_cases (iha hn.1 hc.1) with ⟨h1, h2⟩ | ⟨r1, t1, h1, h2, hr1⟩
    · rw [h1, h2]; trivial
    · rcases optRel_cases (ihc hn.2 hc.2) with ⟨g1, g2⟩ | ⟨r2, t2, g1, g2, hr2⟩
      · rw [h1, h2, g1, g2]; trivial
      · rw [h1, h2, g1, g2]
        simp only [Option.bind_eq_bind, Option.bind_some, cmp_agree hr1 hr2]
        cases opOrd t1 t2 with
        | none => trivial
        | some o => cases op <;> exact rel_bool _
  | arith op a c iha ihc =>
    intro hn hc
    simp only [noIn, Bool.and_eq_true] at hn
    simp only [Sparql.evalExpr, SparqlSpec.evalExpr]
    rcases optRel_cases (iha hn.1 hc.1) with ⟨h1, h2⟩ | ⟨r1, t1, h1, h2, hr1⟩
    · rw [h1, h2]; trivial
    · rcases optRel_cases (ihc hn.2 hc.2) with ⟨g1, g2⟩ | ⟨r2, t2, g1, g2, hr2⟩
      · rw [h1, h2, g1, g2]; trivial
      · rw [h1, h2, g1, g2]
        simp only [Option.bind_eq_bind, Option.bind_some, asNumber_rel hr1, asNumber_rel hr2, opArith]
        cases hx : valOf t1 with
        | none => trivial
        | some v1 =>
          cases hy : valOf t2 with
          | none => cases v1 <;> trivial
          | some v2 => cases v1 <;> cases v2 <;> first | trivial | exact rel_int _
  | neg a iha =>
    intro hn hc
    simp only [noIn] at hn
    simp only [Sparql.evalExpr, SparqlSpec.evalExpr]
    rcases optRel_cases (iha hn hc) with ⟨h1, h2⟩ | ⟨r1, t1, h1, h2, hr1⟩
    · rw [h1, h2]; trivial
    · rw [h1, h2]
      simp only [Option.bind_eq_bind, Option.bind_some, asNumber_rel hr1, opNeg]
      cases hx : valOf t1 with
      | none => trivial
      | some v1 => cases v1 <;> first | trivial | exact rel_int _
  | pos a iha =>
    intro hn hc
    simp only [noIn] at hn
    simp only [Sparql.evalExpr, SparqlSpec.evalExpr]
    rcases optRel_cases (iha hn hc) with ⟨h1, h2⟩ | ⟨r1, t1, h1, h2, hr1⟩
    · rw [h1, h2]; trivial
    · rw [h1, h2]
      simp only [Option.bind_eq_bind, Option.bind_some, asNumber_rel hr1, opPos]
      cases hx : valOf t1 with
      | none => trivial
      | some v1 => cases v1 <;> first | trivial | exact rel_int _
  | call f a iha =>
    intro hn hc
    simp only [noIn] at hn
    simp only [Sparql.evalExpr, SparqlSpec.evalExpr]
    rcases optRel_cases (iha hn hc) with ⟨h1, h2⟩ | ⟨r1, t1, h1, h2, hr1⟩
    · rw [h1, h2]; trivial
    · rw [h1, h2]
      simp only [Option.bind_eq_bind, Option.bind_some]
      exact call_agree f hr1
  | coalesce a c iha ihc =>
    intro hn hc
    simp only [noIn, Bool.and_eq_true] at hn
    simp only [Sparql.evalExpr, SparqlSpec.evalExpr]
    rcases optRel_cases (iha hn.1 hc.1) with ⟨h1, h2⟩ | ⟨r1, t1, h1, h2, hr1⟩
    · rw [h1, h2]; simpa using ihc hn.2 hc.2
    · rw [h1, h2]; exact hr1
  | ite c t e ihc iht ihe =>
    intro hn hc
    simp only [noIn, Bool.and_eq_true] at hn
    simp only [Sparql.evalExpr, SparqlSpec.evalExpr, ifEbvStrict_true, if_true]
    rcases optRel_cases (ihc hn.1.1 hc.1) with ⟨h1, h2⟩ | ⟨r1, t1, h1, h2, hr1⟩
    · rw [h1, h2]; trivial
    · rw [h1, h2]
      simp only [Option.bind_eq_bind, Option.bind_some, hr1.2.2]
      cases ebv t1 with
      | none => trivial
      | some v =>
        cases v with
        | true => simpa using iht hn.1.2 hc.2.1
        | false => simpa using ihe hn.2 hc.2.2


/-! ### consequences for FILTER and BIND -/

theorem agree_of_rel' {r : ER} {t : Term} (h : Rel r t) : Agree t := by
  obtain ⟨h1, h2, h3⟩ := h
  cases r with
  | term t' =>
    simp only [ER.asTerm] at h1; subst h1
    exact ⟨h2, h3⟩
  | value v =>
    simp only [ER.asTerm] at h1
    simp only [ER.asValue] at h2
    simp only [ER.isTruthy, ER.asValue, Option.bind_some] at h3
    obtain ⟨n1, n2, n3⟩ := xsd_ne
    have hv : valueOf v.toTerm = some v := by
      cases v with
      | num k =>
        have hp : rustParseInt k.repr.toList = some k := rustParseInt_toString k
        simp [Value.toTerm, intLex, valueOf, hp]
      | str l tg => cases tg <;> simp [Value.toTerm, valueOf, n1.symm]
      | bool o =>
        cases o with
        | some bb => cases bb <;> simp [Value.toTerm, valueOf, n2.symm, n3.symm]
        | none =>
          subst h1
          cases hx : valOf (Value.bool none).toTerm with
          | none => rw [hx] at h2; cases h2
          | some vv => rw [hx] at h2; cases vv <;> simp [toValue] at h2
    subst h1
    exact ⟨by rw [hv, h2], by rw [hv]; exact h3⟩

/-- FILTER decides alike, and BIND binds the same term (or leaves the variable unbound alike), for every
expression of the core without IN whose constants are regular, on every row binding regular terms;
the extended row again binds regular terms only -/
theorem filter_bind_agree {b : Binding} {μ : Mu} (hr : RelRow b μ) (hb : RowAgree b) (e : Expr)
    (hn : noIn e = true) (hc : ConstsAgree e) (x : Str) :
    filterKeeps e b = holds e μ ∧
    (Sparql.evalExpr b e).map ER.intoTerm = SparqlSpec.evalExpr μ e ∧
    RowAgree (extendRow x e b) := by
  have h := expr_agree hr hb e hn hc
  rcases optRel_cases h with ⟨h1, h2⟩ | ⟨r, t, h1, h2, hrel⟩
  · refine ⟨by simp [filterKeeps, holds, h1, h2], by simp [h1, h2], ?_⟩
    simp only [extendRow, h1]; exact hb
  · refine ⟨?_, by simp [h1, h2, ER.intoTerm, hrel.1], ?_⟩
    · simp only [filterKeeps, holds, h1, h2, Option.bind_some, hrel.2.2]
      cases ebv t with
      | none => rfl
      | some v => cases v <;> rfl
    · simp only [extendRow, h1]
      intro y u hy
      simp only [BMap.insert, BMap.get, lookup_cons_str] at hy
      by_cases hyx : y = x
      · simp only [hyx, if_true, Option.some.injEq] at hy
        subst hy
        rw [ER.intoTerm, hrel.1]
        exact agree_of_rel' hrel
      · simp only [hyx, if_false] at hy
        exact hb y u hy

/-- regular terms, through quoted triples -/
def Regular : Term → Prop
  | .lit lex dt => (dt = xsdInteger → ∃ i, parseInteger lex = some i) ∧
      (dt = xsdBoolean → lex = "true".toList ∨ lex = "false".toList)
  | .triple s p o => Regular s ∧ Regular p ∧ Regular o
  | _ => True

theorem regular_agree {t : Term} (h : Regular t) : Agree t := by
  cases t with
  | lit l d => exact agree_lit l d h.1 h.2
  | lang l tg => exact agree_lang l tg
  | iri s => exact agree_nonlit _ rfl
  | bnode s => exact agree_nonlit _ rfl
  | var s => exact agree_nonlit _ rfl
  | triple s p o => exact agree_nonlit _ rfl

/-! ### regular data -/

def RegMu (μ : Mu) : Prop := ∀ kt ∈ μ, Regular kt.2

theorem constraints_regular (pat : Term) : ∀ (t : Term) (cs : List (Key × Term)),
    constraints pat t = some cs → Regular t → ∀ kt ∈ cs, Regular kt.2 := by
  induction pat with
  | var x => intro t cs h hr kt hk; simp [constraints] at h; subst h; simp at hk; subst hk; exact hr
  | bnode l => intro t cs h hr kt hk; simp [constraints] at h; subst h; simp at hk; subst hk; exact hr
  | iri s => intro t cs h _ kt hk; simp only [constraints] at h; split at h <;> simp at h; subst h; cases hk
  | lit l d => intro t cs h _ kt hk; simp only [constraints] at h; split at h <;> simp at h; subst h; cases hk
  | lang l d => intro t cs h _ kt hk; simp only [constraints] at h; split at h <;> simp at h; subst h; cases hk
  | triple ps pp po ihs ihp iho =>
    intro t cs h hr kt hk
    cases t with
    | triple s p o =>
      simp only [constraints] at h
      cases c1 : constraints ps s with
      | none => simp [c1] at h
      | some a =>
        cases c2 : constraints pp p with
        | none => simp [c1, c2] at h
        | some c =>
          cases c3 : constraints po o with
          | none => simp [c1, c2, c3] at h
          | some e =>
            simp only [c1, c2, c3, Option.some.injEq] at h; subst h
            simp only [List.mem_append] at hk
            rcases hk with (hk | hk) | hk
            · exact ihs s a c1 hr.1 kt hk
            · exact ihp p c c2 hr.2.1 kt hk
            · exact iho o e c3 hr.2.2 kt hk
    | _ => simp [constraints] at h

theorem addC_regular {μ μ' : Mu} {c : Key × Term} (hμ : RegMu μ) (hc : Regular c.2) (h : addC μ c = some μ') : RegMu μ' := by
  unfold addC at h
  cases hg : Mu.get μ c.1 with
  | some t => rw [hg] at h; by_cases ht : termEq t c.2 = true <;> simp [ht] at h; subst h; exact hμ
  | none =>
    rw [hg] at h; simp at h; subst h
    intro kt hk
    rcases List.mem_cons.1 hk with rfl | hk
    · exact hc
    · exact hμ kt hk

theorem solve_regular (cs : List (Key × Term)) : ∀ (μ μ' : Mu), RegMu μ → (∀ kt ∈ cs, Regular kt.2) →
    solve μ cs = some μ' → RegMu μ' := by
  induction cs with
  | nil => intro μ μ' hμ _ h; simp [solve] at h; subst h; exact hμ
  | cons c cs ih =>
    intro μ μ' hμ hcs h
    simp only [solve, List.foldlM_cons] at h
    cases ha : addC μ c with
    | none => simp [ha] at h
    | some μ₁ =>
      simp [ha] at h
      exact ih μ₁ μ' (addC_regular hμ (hcs c List.mem_cons_self) ha)
        (fun kt hk => hcs kt (List.mem_cons_of_mem _ hk)) h

def RegTriple (t : Triple) : Prop := Regular t.1 ∧ Regular t.2.1 ∧ Regular t.2.2

theorem constraintsTP_regular (tp : TP) (t : Triple) (cs : List (Key × Term)) (h : constraintsTP tp t = some cs)
    (hr : RegTriple t) : ∀ kt ∈ cs, Regular kt.2 := by
  rw [constraintsTP_eq] at h
  exact constraints_regular _ _ cs h ⟨hr.1, hr.2.1, hr.2.2⟩

theorem allConstraints_regular : ∀ (ps : List TP) (ts : List Triple) (cs : List (Key × Term)),
    allConstraints ps ts = some cs → (∀ t ∈ ts, RegTriple t) → ∀ kt ∈ cs, Regular kt.2 := by
  intro ps
  induction ps with
  | nil => intro ts cs h _ kt hk; cases ts <;> simp [allConstraints] at h; subst h; cases hk
  | cons tp ps ih =>
    intro ts cs h hts kt hk
    cases ts with
    | nil => simp [allConstraints] at h
    | cons t ts =>
      simp only [allConstraints] at h
      cases c1 : constraintsTP tp t with
      | none => simp [c1] at h
      | some a =>
        cases c2 : allConstraints ps ts with
        | none => simp [c1, c2] at h
        | some c =>
          simp only [c1, c2, Option.some.injEq] at h; subst h
          rcases List.mem_append.1 hk with hk | hk
          · exact constraintsTP_regular tp t a c1 (hts t List.mem_cons_self) kt hk
          · exact ih ts c c2 (fun u hu => hts u (List.mem_cons_of_mem _ hu)) kt hk

theorem choices_mem (G : Graph) : ∀ (n : Nat) (ts : List Triple), ts ∈ choices G n → ∀ t ∈ ts, t ∈ G := by
  intro n
  induction n with
  | zero => intro ts h t ht; simp [choices] at h; subst h; cases ht
  | succ n ih =>
    intro ts h t ht
    simp only [choices, List.mem_flatMap, List.mem_map] at h
    obtain ⟨t0, ht0, ts', hts', rfl⟩ := h
    rcases List.mem_cons.1 ht with rfl | ht
    · exact ht0
    · exact ih ts' hts' t ht

/-- solutions of a BGP over a graph of regular triples bind regular terms only -/
theorem instancesFrom_regular (μ₀ : Mu) (G : Graph) (ps : List TP) (h₀ : RegMu μ₀) (hG : ∀ t ∈ G, RegTriple t) :
    ∀ μ ∈ instancesFrom μ₀ G ps, RegMu μ := by
  intro μ hμ
  simp only [instancesFrom, List.mem_filterMap] at hμ
  obtain ⟨ts, hts, hs⟩ := hμ
  cases hc : allConstraints ps ts with
  | none => simp [hc] at hs
  | some cs =>
    simp only [hc, Option.bind_some] at hs
    exact solve_regular cs μ₀ μ h₀
      (allConstraints_regular ps ts cs hc (fun t ht => hG t (choices_mem G _ ts hts t ht))) hs

/-- the dataset holds regular terms only -/
def RegularData (D : List Quad) : Prop := ∀ q ∈ D, Regular q.s ∧ Regular q.p ∧ Regular q.o

theorem activeGraph_regular (D : List Quad) (hD : RegularData D) (gm : List (Option Term)) :
    ∀ t ∈ activeGraph D gm, RegTriple t := by
  intro t ht
  simp only [activeGraph, graphOf, List.mem_map, List.mem_filter] at ht
  obtain ⟨q, ⟨hq, _⟩, rfl⟩ := ht
  exact hD q hq

/-- the rows of a BGP over regular data bind regular terms -/
theorem bgp_rows_agree (D : List Quad) (hD : RegularData D) (gm : List (Option Term))
    (hG : TripleNodup (activeGraph D gm)) (ps : List TP) :
    ∃ r, Sparql.bgp D ps gm none = .ok r ∧
      List.Forall₂ (fun b μ => RelRow b μ ∧ RowAgree b) r.rows (specBgp (activeGraph D gm) ps) := by
  obtain ⟨r, h1, _, h3⟩ := bgp_correct_from D gm hG ps none [] semB_empty
  refine ⟨r, h1, ?_⟩
  have hreg := instancesFrom_regular [] (activeGraph D gm) ps (fun _ h => by cases h) (activeGraph_regular D hD gm)
  have h3' := List.forall₂_map_right_iff.1 h3
  apply List.forall₂_map_right_iff.2
  have : ∀ {l₁ : List Binding} {l₂ : List Mu}, List.Forall₂ (fun b μ => RelRow b (dropBn μ)) l₁ l₂ →
      (∀ μ ∈ l₂, RegMu μ) → List.Forall₂ (fun b μ => RelRow b (dropBn μ) ∧ RowAgree b) l₁ l₂ := by
    intro l₁ l₂ h
    induction h with
    | nil => intro _; exact List.Forall₂.nil
    | @cons b μ l₁ l₂ hbμ _ ih =>
      intro hall
      refine List.Forall₂.cons ⟨hbμ, ?_⟩ (ih (fun ν hν => hall ν (List.mem_cons_of_mem _ hν)))
      intro x t hx
      rw [hbμ x, dropBn_get] at hx
      exact regular_agree (hall μ List.mem_cons_self (Key.var x, t) (mem_of_lookup μ _ _ hx))
  exact this h3' hreg


theorem relRow_extend_of {b : Binding} {μ : Mu} (h : RelRow b μ) (x : Str) (e : Expr)
    (heq : (Sparql.evalExpr b e).map ER.intoTerm = SparqlSpec.evalExpr μ e) :
    RelRow (extendRow x e b) (match SparqlSpec.evalExpr μ e with
      | some t => (Key.var x, t) :: μ
      | none => μ) := by
  have := heq
  unfold extendRow
  cases hv : Sparql.evalExpr b e with
  | none => rw [hv] at this; simp at this; rw [← this]; exact h
  | some val =>
    rw [hv] at this; simp at this; rw [← this]
    intro y
    simp only [BMap.insert, BMap.get, Mu.get, lookup_cons_str, lookup_cons_key]
    by_cases hy : y = x
    · simp [hy]
    · have : Key.var y ≠ Key.var x := by intro h; cases h; exact hy rfl
      simp [hy, this]; exact h y

/-- BGP, then FILTERs and BINDs over the expression core without IN, constants regular -/
inductive Simple : GP → Prop
  | bgp (ps : List TP) : Simple (.bgp ps)
  | filter {p : GP} (e : Expr) : noIn e = true → ConstsAgree e → Simple p → Simple (.filter e p)
  | extend {p : GP} (x : Str) (e : Expr) : noIn e = true → ConstsAgree e → x ∉ inScope p → Simple p →
      Simple (.extend p x e)

/-- **FILTER and BIND with value-level expressions, unconditionally on the expressions**: over a
duplicate-free dataset of regular terms, `{ BGP FILTER(e₁) BIND(e₂ AS ?x) … }` evaluates to exactly the
algebra's solutions — no `ExprOK` hypothesis: the agreement of the two expression evaluators is
*proved* (`expr_agree`) for every row that can arise. -/
theorem simple_correct (D : List Quad) (hN : DataNodup D) (hR : RegularData D) {p : GP} (hp : Simple p) :
    ∀ g : Option Term, ∃ r Ω, select D p [g] none = .ok r ∧ eval D p (activeGraph D [g]) = .ok Ω ∧
      List.Forall₂ (fun b μ => RelRow b μ ∧ RowAgree b) r.rows Ω ∧ ∀ y, y ∈ r.vars → y ∈ inScope p := by
  induction hp with
  | bgp ps =>
    intro g
    obtain ⟨r, h1, h2⟩ := bgp_rows_agree D hR [g] (activeGraph_single_nodup D hN g) ps
    refine ⟨r, _, by simpa [select] using h1, rfl, h2, ?_⟩
    intro y hy
    simp only [Sparql.bgp] at h1
    split at h1
    · cases h1
    · cases h1; simpa [populateVariables, inScope] using hy
  | @filter p e hn hc _ ih =>
    intro g
    obtain ⟨r, Ω, a1, a2, a3, a4⟩ := ih g
    refine ⟨_, _, select_filter_ok e a1, eval_filter_ok e a2, ?_, a4⟩
    exact List.rel_filter (p := filterKeeps e) (q := holds e)
      (fun b μ h => by
        show filterKeeps e b = true ↔ holds e μ = true
        rw [(filter_bind_agree h.1 h.2 e hn hc []).1]) a3
  | @extend p x e hn hc hx _ ih =>
    intro g
    obtain ⟨r, Ω, a1, a2, a3, a4⟩ := ih g
    have c1 : r.vars.contains x = false := by
      simp only [List.contains_eq_mem, decide_eq_false_iff_not]
      exact fun h => hx (a4 x h)
    have c2 : (inScope p).contains x = false := by simpa using hx
    refine ⟨_, _, by rw [select_extend_ok x e a1, c1]; rfl, by rw [eval_extend_ok x e a2, c2]; rfl, ?_, ?_⟩
    · apply List.forall₂_map_left_iff.2
      apply List.forall₂_map_right_iff.2
      refine List.Forall₂.imp ?_ a3
      intro b μ h
      have hh := filter_bind_agree h.1 h.2 e hn hc x
      exact ⟨relRow_extend_of h.1 x e hh.2.1, hh.2.2⟩
    · intro y hy
      simp only [List.mem_append, List.mem_singleton] at hy
      simp only [inScope, List.mem_cons]
      rcases hy with hy | hy
      · exact Or.inr (a4 y hy)
      · exact Or.inl hy

end SophiaProofs.SparqlL
