/-
Lemmas about the scan machinery of `SophiaModel.Store` (model of `sophia_inmem`):

A. the contract of `constant()` for every matcher constructor;
B. the caching iterators of `_iter.rs` compute a plain filter;
C. lexicographic ranges `lo..=hi` select exactly the rows carrying the bound prefix;
D. layouts are injective on rows of the right length and `to_gspo` closures invert them.
-/
import SophiaProofs.Lemmas.StoreDefs
import SophiaProofs.Props.C02

namespace SophiaProofs.StoreP
open SophiaModel SophiaModel.Term SophiaModel.Store

/-! ## A. `constant()` -/

/-- a term matcher exposing a constant matches exactly the terms `Term::eq` to it -/
theorem tm_constant_sound {m : TM} {t : Term} (h : m.constant = some t) :
    ∀ x, m.matches x = termEq t x := by
  intro x
  cases m with
  | opt o =>
    simp only [TM.constant] at h; subst h; simp [TM.matches]
  | arr ts =>
    rcases ts with _ | ⟨a, _ | ⟨b, l⟩⟩
    · simp [TM.constant] at h
    · simp only [TM.constant, Option.some.injEq] at h; subst h; simp [TM.matches]
    · simp [TM.constant] at h
  | _ => simp [TM.constant] at h

/-- a graph-name matcher exposing a constant matches exactly the names `graph_name_eq` to it -/
theorem gm_constant_sound {m : GM} {g : GName} (h : m.constant = some g) :
    ∀ x, m.matches x = gnameEq g x := by
  intro x
  cases m with
  | opt o =>
    simp only [GM.constant] at h; subst h; simp [GM.matches]
  | arr gs =>
    rcases gs with _ | ⟨a, _ | ⟨b, l⟩⟩
    · simp [GM.constant] at h
    · simp only [GM.constant, Option.some.injEq] at h; subst h; simp [GM.matches]
    · simp [GM.constant] at h
  | gn m =>
    simp only [GM.constant, Option.map_eq_some_iff] at h
    obtain ⟨t, ht, rfl⟩ := h
    cases x with
    | none => simp [GM.matches, gnameEq]
    | some y => simp [GM.matches, gnameEq, tm_constant_sound ht]
  | _ => simp [GM.constant] at h

-- non-vacuity: every constructor that can expose a constant does so
example : (TM.opt (some (.iri ['a']))).constant = some (.iri ['a']) := rfl
example : (TM.arr [.lang ['x'] ['E', 'N']]).constant = some (.lang ['x'] ['E', 'N']) := rfl
example : (GM.opt (some none)).constant = some none := rfl
example : (GM.arr [some (.bnode ['b'])]).constant = some (some (.bnode ['b'])) := rfl
example : (GM.gn (TM.arr [.iri ['a']])).constant = some (some (.iri ['a'])) := rfl
-- … and the conclusion is not plain equality (case-insensitive tags)
example : (TM.arr [.lang ['x'] ['E', 'N']]).matches (.lang ['x'] ['e', 'n']) = true := by decide

/-! ## B. the caching iterators compute a filter -/

/-- the row passes every matcher: matcher `j` looks at layout position `skip + j` -/
def allMatch (name : Nat → GName) (ms : List GM) (skip : Nat) (r : Row) : Bool :=
  (ms.zipIdx).all (fun (m, j) => m.matches (name (r.getD (skip + j) 0)))

/-- cache consistency: every non-last position `j` holds a pair `(i, ms[j].matches (name i))`;
nothing is required of the last position (always recomputed). Stated with `[j]?`, so it also says
that the cache is long enough for `List.set` to take effect on the non-last positions. -/
def CacheOK (name : Nat → GName) (ms : List GM) (cache : List (Nat × Bool)) : Prop :=
  ∀ (j : Nat) (m : GM), j + 1 < ms.length → ms[j]? = some m →
    ∃ i, cache[j]? = some (i, m.matches (name i))

/-- the invariant is needed: with a too-short (here: empty) cache the default entry `(0, true)` is
taken for a cached verdict on index 0 and the first matcher is never evaluated -/
example : scanRows (fun _ => none) [GM.opt none, GM.any] 0 [[0, 0]] [] = [[0, 0]] ∧
    [[0, 0]].filter (allMatch (fun _ => none) [GM.opt none, GM.any] 0) = [] := by decide

theorem stepRow_spec (name : Nat → GName) (r : Row) (skip : Nat) (ms : List GM) :
    ∀ (rest : List GM) (j : Nat) (cache : List (Nat × Bool)),
      ms.drop j = rest → CacheOK name ms cache →
      CacheOK name ms (stepRow name r skip rest j cache).1 ∧
      (stepRow name r skip rest j cache).2 =
        (rest.zipIdx j).all (fun (m, j') => m.matches (name (r.getD (skip + j') 0))) := by
  intro rest
  induction rest with
  | nil => intro j cache _ hc; exact ⟨by simpa [stepRow] using hc, by simp [stepRow]⟩
  | cons m rest ih =>
    intro j cache hdrop hc
    have hlen : ms.length - j = rest.length + 1 := by
      have := congrArg List.length hdrop; simpa using this
    have hmj : ms[j]? = some m := by
      have := congrArg (fun l => l[0]?) hdrop; simpa using this
    have hdrop' : ms.drop (j + 1) = rest := by
      have := congrArg (fun l => l.drop 1) hdrop; simpa [List.drop_drop, Nat.add_comm] using this
    -- whatever branch is taken, the new entry is the freshly computed one
    have hc' : ∀ i : Nat, (if (rest.isEmpty || i != (cache.getD j (0, true)).1) = true
          then (i, m.matches (name i)) else cache.getD j (0, true)) = (i, m.matches (name i)) := by
      intro i
      cases rest with
      | nil => simp
      | cons m2 rest2 =>
        obtain ⟨i0, hi0⟩ := hc j m (by simp at hlen; omega) hmj
        have hg : cache.getD j (0, true) = (i0, m.matches (name i0)) := by
          simp [List.getD_eq_getElem?_getD, hi0]
        rw [hg]
        by_cases hii : i = i0
        · subst hii; simp
        · simp [hii]
    have hset : ∀ i : Nat, CacheOK name ms (cache.set j (i, m.matches (name i))) := by
      intro i j' m' hj' hm'
      by_cases hjj : j' = j
      · subst hjj
        obtain ⟨i0, hi0⟩ := hc j' m' hj' hm'
        have hlt : j' < cache.length := by
          rcases Nat.lt_or_ge j' cache.length with h | h
          · exact h
          · rw [List.getElem?_eq_none h] at hi0; cases hi0
        rw [hmj] at hm'; cases hm'
        exact ⟨i, by simp [hlt]⟩
      · obtain ⟨i0, hi0⟩ := hc j' m' hj' hm'
        exact ⟨i0, by rw [List.getElem?_set_ne (Ne.symm hjj)]; exact hi0⟩
    simp only [stepRow, hc', List.zipIdx_cons, List.all_cons]
    by_cases hb : m.matches (name (r.getD (skip + j) 0)) = true
    · rw [if_pos hb]
      obtain ⟨h1, h2⟩ := ih (j + 1) _ hdrop' (hset (r.getD (skip + j) 0))
      refine ⟨h1, ?_⟩
      rw [h2, hb, Bool.true_and]
    · rw [if_neg hb]
      refine ⟨hset _, ?_⟩
      have hb' : m.matches (name (r.getD (skip + j) 0)) = false := by simpa using hb
      rw [hb', Bool.false_and]

/-- `scanRows` from any consistent cache is the plain filter -/
theorem scanRows_eq_filter (name : Nat → GName) (ms : List GM) (skip : Nat) :
    ∀ (rows : List Row) (cache : List (Nat × Bool)), CacheOK name ms cache →
      scanRows name ms skip rows cache = rows.filter (allMatch name ms skip) := by
  intro rows
  induction rows with
  | nil => intro cache _; simp [scanRows]
  | cons r rs ih =>
    intro cache hc
    obtain ⟨h1, h2⟩ := stepRow_spec name r skip ms ms 0 cache (by simp) hc
    rw [scanRows]
    rcases hs : stepRow name r skip ms 0 cache with ⟨cache', ok⟩
    rw [hs] at h1 h2
    simp only at h1 h2 ⊢
    have hok : ok = allMatch name ms skip r := h2
    rw [ih cache' h1, List.filter_cons, ← hok]

theorem initCache_getElem? (name : Nat → GName) (first : Row) (skip : Nat) :
    ∀ (rest : List GM) (j k : Nat) (m : GM), k + 1 < rest.length → rest[k]? = some m →
      (initCache name first skip rest j)[k]? =
        some (first.getD (skip + (j + k)) 0, m.matches (name (first.getD (skip + (j + k)) 0))) := by
  intro rest
  induction rest with
  | nil => intro j k m h; simp at h
  | cons m0 rest ih =>
    intro j k m hk hm
    cases k with
    | zero =>
      simp only [List.getElem?_cons_zero, Option.some.injEq] at hm; subst hm
      cases rest with
      | nil => simp at hk
      | cons m1 rest1 => simp [initCache]
    | succ k =>
      simp only [List.getElem?_cons_succ] at hm
      have := ih (j + 1) k m (by simpa using hk) hm
      simp only [initCache, List.getElem?_cons_succ, this]
      have e : j + 1 + k = j + (k + 1) := by omega
      rw [e]

theorem initCache_ok (name : Nat → GName) (first : Row) (skip : Nat) (ms : List GM) :
    CacheOK name ms (initCache name first skip ms 0) := by
  intro j m hj hm
  exact ⟨_, initCache_getElem? name first skip ms 0 j m hj hm⟩

/-- the matching iterators return exactly the rows of the range that pass every matcher, in order -/
theorem cachedScan_eq_filter (max : Nat) (terms : List Term) (ms : List GM) (skip : Nat)
    (rows : List Row) :
    cachedScan max terms ms skip rows = rows.filter (allMatch (getName max terms) ms skip) := by
  cases rows with
  | nil => simp [cachedScan]
  | cons first rs =>
    simp only [cachedScan]
    exact scanRows_eq_filter _ ms skip _ _ (initCache_ok _ first skip ms)

-- non-vacuity: the initial cache is consistent for a 3-matcher iterator; a scan where rows pass and fail
example : CacheOK (getName 9 [.iri ['a'], .bnode ['b']]) [GM.kind (some .iri), GM.any, GM.opt none]
    (initCache (getName 9 [.iri ['a'], .bnode ['b']]) [9, 0, 1, 0] 1 [GM.kind (some .iri), GM.any, GM.opt none] 0) :=
  initCache_ok _ _ _ _
example : cachedScan 9 [.iri ['a'], .bnode ['b']] [GM.kind (some .iri), GM.kind (some .bnode)] 1
    [[9, 0, 1], [9, 0, 0], [9, 1, 1], [0, 0, 1]] = [[9, 0, 1], [0, 0, 1]] := by decide

/-! ## C. lexicographic ranges -/

theorem lexLe_refl : ∀ a : Row, lexLe a a = true := by
  intro a
  induction a with
  | nil => rfl
  | cons x xs ih => simp [lexLe, ih]

theorem lexLe_antisymm : ∀ a b : Row, lexLe a b = true → lexLe b a = true → a = b := by
  intro a
  induction a with
  | nil => intro b _ h2; cases b with
    | nil => rfl
    | cons y ys => simp [lexLe] at h2
  | cons x xs ih =>
    intro b h1 h2
    cases b with
    | nil => simp [lexLe] at h1
    | cons y ys =>
      simp only [lexLe] at h1 h2
      by_cases hxy : x < y
      · have : ¬ y < x := by omega
        simp [hxy, this] at h2
      · by_cases hyx : y < x
        · simp [hxy, hyx] at h1
        · simp only [hxy, hyx, if_false] at h1 h2
          have : x = y := by omega
          rw [this, ih ys h1 h2]

theorem lexLe_trans : ∀ a b c : Row, lexLe a b = true → lexLe b c = true → lexLe a c = true := by
  intro a
  induction a with
  | nil => intro b c _ _; rfl
  | cons x xs ih =>
    intro b c h1 h2
    cases b with
    | nil => simp [lexLe] at h1
    | cons y ys =>
      cases c with
      | nil => simp [lexLe] at h2
      | cons z zs =>
        simp only [lexLe] at h1 h2 ⊢
        by_cases hxy : x < y
        · by_cases hyz : y < z
          · have : x < z := by omega
            simp [this]
          · by_cases hzy : z < y
            · simp [hyz, hzy] at h2
            · have : x < z := by omega
              simp [this]
        · by_cases hyx : y < x
          · simp [hxy, hyx] at h1
          · simp only [hxy, hyx, if_false] at h1
            have hxy' : x = y := by omega
            subst hxy'
            by_cases hxz : x < z
            · simp [hxz]
            · by_cases hzx : z < x
              · simp [hxz, hzx] at h2
              · simp only [hxz, hzx, if_false] at h2 ⊢
                exact ih ys zs h1 h2

theorem lexLe_total : ∀ a b : Row, (lexLe a b || lexLe b a) = true := by
  intro a
  induction a with
  | nil => intro b; simp [lexLe]
  | cons x xs ih =>
    intro b
    cases b with
    | nil => simp [lexLe]
    | cons y ys =>
      simp only [lexLe]
      by_cases hxy : x < y
      · simp [hxy]
      · by_cases hyx : y < x
        · simp [hyx]
        · simpa [hxy, hyx] using ih ys

/-- the all-`ZERO` padding is below every row that is at least as long -/
theorem lexLe_zeros : ∀ (k : Nat) (r : Row), k ≤ r.length → lexLe (List.replicate k 0) r = true := by
  intro k
  induction k with
  | zero => intro r _; simp [lexLe]
  | succ k ih =>
    intro r hr
    cases r with
    | nil => simp at hr
    | cons b bs =>
      simp only [List.replicate_succ, lexLe]
      by_cases hb : 0 < b
      · simp [hb]
      · simpa [hb] using ih bs (by simpa using hr)

/-- the all-`MAX` padding is above every row that is at most as long and stays within `max` -/
theorem lexLe_maxes (max : Nat) : ∀ (r : Row) (k : Nat), r.length ≤ k → (∀ v ∈ r, v ≤ max) →
    lexLe r (List.replicate k max) = true := by
  intro r
  induction r with
  | nil => intro k _ _; rfl
  | cons b bs ih =>
    intro k hk hv
    cases k with
    | zero => simp at hk
    | succ k =>
      simp only [List.replicate_succ, lexLe]
      have hb : b ≤ max := hv b (by simp)
      by_cases hlt : b < max
      · simp [hlt]
      · have : ¬ max < b := by omega
        simp only [hlt, this, if_false]
        exact ih k (by simpa using hk) (fun v hv' => hv v (by simp [hv']))

/-- a common prefix of both bounds must be carried by the row; the rest of the bounds applies to
the rest of the row (no length condition at all) -/
theorem lexLe_prefix_split : ∀ (pre loT hiT r : Row),
    (lexLe (pre ++ loT) r && lexLe r (pre ++ hiT)) =
      (r.take pre.length == pre &&
        (lexLe loT (r.drop pre.length) && lexLe (r.drop pre.length) hiT)) := by
  intro pre
  induction pre with
  | nil => intro loT hiT r; simp
  | cons a pre ih =>
    intro loT hiT r
    cases r with
    | nil => simp [lexLe]
    | cons b bs =>
      simp only [List.cons_append, lexLe, List.length_cons, List.take_succ_cons, List.drop_succ_cons]
      by_cases hab : a < b
      · have h1 : ¬ b < a := by omega
        have h2 : ¬ b = a := by omega
        simp [hab, h1, h2]
      · by_cases hba : b < a
        · have h2 : ¬ b = a := by omega
          simp [hab, hba, h2]
        · have h2 : b = a := by omega
          subst h2
          simp only [hab, if_false]
          rw [ih]
          simp

/-- regular bounds `[consts.., ZERO..]..=[consts.., MAX..]` select exactly the rows with the bound prefix -/
theorem range_prefix (pre : List Nat) (k max : Nat) (ix : List Row)
    (hrows : ∀ r ∈ ix, r.length = pre.length + k ∧ ∀ v ∈ r, v ≤ max) :
    range (pre ++ List.replicate k 0) (pre ++ List.replicate k max) ix =
      ix.filter (fun r => r.take pre.length == pre) := by
  unfold range
  apply List.filter_congr
  intro r hr
  obtain ⟨hl, hv⟩ := hrows r hr
  rw [lexLe_prefix_split,
    lexLe_zeros k _ (by simp [hl]),
    lexLe_maxes max _ k (by simp [hl]) (fun v hv' => hv v (List.mem_of_mem_drop hv'))]
  simp

/-- irregular upper bound (`[gi, MAX, MAX, ZERO]`): when every row is STRICTLY below `max` at the
first padded position, the components of the upper bound after it are irrelevant.
(`hlen` and the bound `∀ v ∈ r, v ≤ max` of the requested statement are not needed; kept out of
this general form, see `range_prefix_strict` below for the requested signature.) -/
theorem range_prefix_strict' (pre : List Nat) (max : Nat) (hiTail : List Nat) (k : Nat) (ix : List Row)
    (hrows : ∀ r ∈ ix, pre.length + 1 + k ≤ r.length ∧ r.getD pre.length 0 < max) :
    range (pre ++ 0 :: List.replicate k 0) (pre ++ max :: hiTail) ix =
      ix.filter (fun r => r.take pre.length == pre) := by
  unfold range
  apply List.filter_congr
  intro r hr
  obtain ⟨hl, hlt⟩ := hrows r hr
  have hn : pre.length < r.length := by omega
  have hd : r.drop pre.length = r[pre.length] :: r.drop (pre.length + 1) :=
    List.drop_eq_getElem_cons hn
  have hlt' : r[pre.length] < max := by
    simpa [List.getD_eq_getElem?_getD, List.getElem?_eq_getElem hn] using hlt
  rw [lexLe_prefix_split, ← List.replicate_succ,
    lexLe_zeros (k + 1) _ (by simp; omega), hd]
  simp [lexLe, hlt']

theorem range_prefix_strict (pre : List Nat) (max : Nat) (hiTail : List Nat) (k : Nat) (ix : List Row)
    (_hlen : hiTail.length = k)
    (hrows : ∀ r ∈ ix, r.length = pre.length + 1 + k ∧ (∀ v ∈ r, v ≤ max) ∧
      r.getD pre.length 0 < max) :
    range (pre ++ 0 :: List.replicate k 0) (pre ++ max :: hiTail) ix =
      ix.filter (fun r => r.take pre.length == pre) :=
  range_prefix_strict' pre max hiTail k ix
    (fun r hr => ⟨Nat.le_of_eq (hrows r hr).1.symm, (hrows r hr).2.2⟩)

/-- fully bound pattern: `lo..=lo` holds the row itself at most -/
theorem range_exact (lo : Row) (ix : List Row) :
    range lo lo ix = ix.filter (fun r => r == lo) := by
  unfold range
  apply List.filter_congr
  intro r _
  rw [Bool.eq_iff_iff]
  simp only [Bool.and_eq_true, beq_iff_eq]
  constructor
  · rintro ⟨h1, h2⟩; exact lexLe_antisymm r lo h2 h1
  · rintro rfl; exact ⟨lexLe_refl r, lexLe_refl r⟩

theorem contains_iff_mem (lo : Row) (ix : List Row) : ix.contains lo = true ↔ lo ∈ ix := by
  simp

/-- the `contains` + `once` arm is the same filter on a duplicate-free index -/
theorem once_eq_filter (lo : Row) : ∀ (ix : List Row), ix.Nodup →
    (if ix.contains lo then [lo] else []) = ix.filter (fun r => r == lo) := by
  intro ix
  induction ix with
  | nil => intro _; simp
  | cons a ix ih =>
    intro hnd
    rw [List.nodup_cons] at hnd
    by_cases ha : a = lo
    · subst ha
      have : ix.filter (fun r => r == a) = [] := by
        rw [List.filter_eq_nil_iff]
        intro r hr; simp; rintro rfl; exact hnd.1 hr
      simp [this]
    · have ha' : ¬ lo = a := fun h => ha h.symm
      have := ih hnd.2
      simp only [List.contains_cons, List.filter_cons, beq_iff_eq, ha, if_false] at this ⊢
      simpa [ha'] using this

-- non-vacuity
example : range ([1] ++ List.replicate 2 0) ([1] ++ List.replicate 2 5) [[0, 5, 5], [1, 0, 0], [1, 5, 5], [2, 0, 0]]
    = [[1, 0, 0], [1, 5, 5]] := by decide
example : ∀ r ∈ [[0, 5, 5], [1, 0, 0], [1, 5, 5], [2, 0, 0]], r.length = [1].length + 2 ∧ ∀ v ∈ r, v ≤ 5 := by
  decide
-- `[gi, MAX, MAX, ZERO]`: rows never reach MAX at the subject position
example : range ([1] ++ 0 :: List.replicate 2 0) ([1] ++ 5 :: [5, 0]) [[0, 4, 5, 5], [1, 0, 0, 0], [1, 4, 4, 4], [2, 0, 0, 0]]
    = [[1, 0, 0, 0], [1, 4, 4, 4]] := by decide
example : ∀ r ∈ [[0, 4, 5, 5], [1, 0, 0, 0], [1, 4, 4, 4], [2, 0, 0, 0]],
    r.length = [1].length + 1 + 2 ∧ (∀ v ∈ r, v ≤ 5) ∧ r.getD [1].length 0 < 5 := by decide
/-- … and strictness is necessary: a row reaching MAX there would be cut off by the trailing ZERO -/
example : range ([1] ++ 0 :: List.replicate 2 0) ([1] ++ 5 :: [5, 0]) [[1, 5, 5, 1]] = [] := by decide

/-! ## D. layouts -/

theorem layout_length (p : List Nat) (c : Row) : (layout p c).length = p.length := by
  simp [layout]

theorem isPerm_mem {n : Nat} {p : List Nat} (hp : IsPerm n p = true) : ∀ i, i < n → i ∈ p := by
  intro i hi
  simp only [IsPerm, Bool.and_eq_true, List.all_eq_true, List.mem_range] at hp
  simpa using hp.2 i hi

theorem isPerm_length {n : Nat} {p : List Nat} (hp : IsPerm n p = true) : p.length = n := by
  simp only [IsPerm, Bool.and_eq_true, beq_iff_eq] at hp
  exact hp.1

/-- a layout loses nothing of a row of the right length -/
theorem layout_injective {n : Nat} {p : List Nat} {c₁ c₂ : Row} (hp : IsPerm n p = true)
    (h : layout p c₁ = layout p c₂) (h₁ : c₁.length = n) (h₂ : c₂.length = n) : c₁ = c₂ := by
  unfold layout at h
  rw [List.map_inj_left] at h
  apply List.ext_getElem (by omega)
  intro i hi1 hi2
  have := h i (isPerm_mem hp i (by omega))
  simpa [List.getD_eq_getElem?_getD, List.getElem?_eq_getElem hi1, List.getElem?_eq_getElem hi2]
    using this

/-- bridge from the Bool checked by `armOK` to the hypothesis of `toCanon_layout` -/
theorem out_inverts_of_check {n : Nat} {perm out : List Nat}
    (hlen : (out.length == n) = true)
    (h : (List.range n).all (fun c => perm.getD (out.getD c n) n == c) = true) :
    out.length = n ∧ ∀ j, j < n → perm.getD (out.getD j n) n = j := by
  refine ⟨by simpa using hlen, fun j hj => ?_⟩
  simp only [List.all_eq_true, List.mem_range, beq_iff_eq] at h
  exact h j hj

/-- the `to_gspo` closure of an arm undoes the layout of the index the arm scans
(`IsPerm` is not needed for this direction; see `toCanon_layout` for the requested signature) -/
theorem toCanon_layout' (out p : List Nat) (n : Nat) (c : Row) (hc : c.length = n)
    (hout : out.length = n ∧ ∀ j, j < n → p.getD (out.getD j n) n = j) :
    toCanon out (layout p c) = c := by
  obtain ⟨hol, hinv⟩ := hout
  apply List.ext_getElem (by simp [toCanon, hol, hc])
  intro j hj1 hj2
  have hjn : j < n := by omega
  have hjo : j < out.length := by omega
  have h := hinv j hjn
  have ho : out.getD j n = out[j] := by simp [hjo]
  rw [ho] at h
  -- `out[j]` is a valid position of `p`, else `getD` would have returned `n ≠ j`
  have hop : out[j] < p.length := by
    rcases Nat.lt_or_ge out[j] p.length with h' | h'
    · exact h'
    · rw [List.getD_eq_getElem?_getD, List.getElem?_eq_none h'] at h
      simp at h; omega
  rw [List.getD_eq_getElem?_getD, List.getElem?_eq_getElem hop, Option.getD_some] at h
  simp [toCanon, layout, List.getD_eq_getElem?_getD, List.getElem?_eq_getElem hop, h,
    List.getElem?_eq_getElem (show j < c.length by omega)]

theorem toCanon_layout (out p : List Nat) (n : Nat) (c : Row) (hc : c.length = n)
    (_hp : IsPerm n p = true)
    (hout : out.length = n ∧ ∀ j, j < n → p.getD (out.getD j n) n = j) :
    toCanon out (layout p c) = c :=
  toCanon_layout' out p n c hc hout

-- non-vacuity: the `ospg`-like layout [3, 1, 2, 0] with its inverse closure
example : IsPerm 4 [3, 1, 2, 0] = true := by decide
example : ([3, 1, 2, 0].length == 4) = true ∧
    (List.range 4).all (fun c => [3, 1, 2, 0].getD ([3, 1, 2, 0].getD c 4) 4 == c) = true := by decide
example : toCanon [3, 1, 2, 0] (layout [3, 1, 2, 0] [10, 11, 12, 13]) = [10, 11, 12, 13] := by decide
/-- a non-involutive one: layout [1, 2, 3, 0] (spog), closure [3, 0, 1, 2] -/
example : (List.range 4).all (fun c => [1, 2, 3, 0].getD ([3, 0, 1, 2].getD c 4) 4 == c) = true ∧
    toCanon [3, 0, 1, 2] (layout [1, 2, 3, 0] [10, 11, 12, 13]) = [10, 11, 12, 13] := by decide

end SophiaProofs.StoreP
