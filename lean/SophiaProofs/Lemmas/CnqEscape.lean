/-
The escape table regenerated from `_cnq.rs` (Gen/CnqEscapes.lean) equals the canonical N-Quads
rule transcribed in `Rdfc10Spec.escapeChar`; consequences used for the injectivity of the rendering.
-/
import SophiaModel.Model.Cnq
import SophiaModel.Model.Rdfc10Spec

namespace SophiaProofs.CnqL
open SophiaModel

theorem fixedArm_none (tbl : List (Nat × List Char)) (bound n : Nat) (hb : ∀ p ∈ tbl, p.1 < bound)
    (hn : bound ≤ n) : Cnq.fixedArm tbl n = none := by
  induction tbl with
  | nil => rfl
  | cons p rest ih =>
    obtain ⟨k, s⟩ := p
    have hk : k < bound := hb (k, s) List.mem_cons_self
    have hne : ¬ k = n := by omega
    simp only [Cnq.fixedArm, hne, if_false]
    exact ih (fun p hp => hb p (List.mem_cons_of_mem _ hp))

theorem escapes_low : ∀ n : Fin 128, Cnq.escChar (Char.ofNat n.val) = Rdfc10Spec.escapeChar (Char.ofNat n.val) := by
  decide

theorem spec_high (c : Char) (hn : 128 ≤ c.toNat) : Rdfc10Spec.escapeChar c = [c] := by
  unfold Rdfc10Spec.escapeChar
  have e1 : ¬ c.toNat = 0x08 := by omega
  have e2 : ¬ c.toNat = 0x09 := by omega
  have e3 : ¬ c.toNat = 0x0A := by omega
  have e4 : ¬ c.toNat = 0x0C := by omega
  have e5 : ¬ c.toNat = 0x0D := by omega
  have e6 : ¬ c.toNat = 0x22 := by omega
  have e7 : ¬ c.toNat = 0x5C := by omega
  have e8 : ¬ (c.toNat ≤ 0x1F ∨ c.toNat = 0x7F) := by omega
  simp only [e1, e2, e3, e4, e5, e6, e7, e8, if_false]

theorem escChar_eq_spec (c : Char) : Cnq.escChar c = Rdfc10Spec.escapeChar c := by
  by_cases h : c.toNat < 128
  · have := escapes_low ⟨c.toNat, h⟩
    simpa [Char.ofNat_toNat] using this
  · have hn : 128 ≤ c.toNat := Nat.le_of_not_lt h
    have h1 : Cnq.fixedArm Gen.cnqEscapes c.toNat = none :=
      fixedArm_none _ 128 _ (by decide) hn
    have h2 : ¬ c.toNat ≤ Gen.cnqCtlMax := by
      have : Gen.cnqCtlMax < 128 := by decide
      omega
    rw [spec_high c hn]
    unfold Cnq.escChar
    rw [h1]
    simp only [h2, if_false]

end SophiaProofs.CnqL
