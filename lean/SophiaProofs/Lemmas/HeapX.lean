/-
Lemmas about `XWorld` (property C10): worlds of stores plus the terms safe code has cloned out of
them and keeps (`esc`), `Debug` formatting, and the frame facts about moves used by the C10 theorems.
-/
import SophiaProofs.Lemmas.HeapWorld

namespace SophiaProofs.HeapP
open SophiaModel SophiaModel.Term SophiaModel.Store SophiaModel.Heap

/-- `Debug` formatting of a store the invariant holds for reads live memory only -/
theorem debuggable_of_inv {h : Heap.Heap} {s : HStore} (inv : IxInv h s.ix) : s.debuggable h = true := by
  simp only [HStore.debuggable, Bool.and_eq_true, List.all_eq_true]
  refine ⟨fun e he => ?_, fun t ht => ?_⟩
  · obtain ⟨x, hx⟩ := inv.keysRead e he
    simp [dangles, hx]
  · obtain ⟨_, _, x, _, hx⟩ := inv.sync t ht
    simp [dangles, hx]

/-- no lent term is being kept, and the stores satisfy the world invariant -/
structure XInv (xw : XWorld) : Prop where
  w : WInv xw.w
  none : xw.esc = []

theorem XInv.init : XInv {} := ⟨WInv.init, rfl⟩

/-- an operation that keeps no lent term -/
def escFree : XOp → Bool
  | .esc _ _ _ => false
  | _ => true

/-- as long as no lent term is kept — because the term type does not allow it (`te = false`) or because
the history does not try (`escFree`) — every operation of `XWorld` preserves the invariant -/
theorem XInv.step {xw : XWorld} (inv : XInv xw) (te : Bool) (op : XOp) (h : te = false ∨ escFree op = true) :
    XInv (XWorld.step .manual te xw op).1 := by
  cases op with
  | base op => exact ⟨inv.w.step op, inv.none⟩
  | esc a t x =>
    rcases h with rfl | h
    · simp only [XWorld.step]
      split
      · split
        · exact inv
        · simpa using inv
      · exact inv
    · cases h
  | readEsc x =>
    simp only [XWorld.step, XWorld.getEsc, inv.none, List.find?_nil, Option.map_none]
    exact inv
  | dropEsc x =>
    simp only [XWorld.step, XWorld.getEsc, inv.none, List.find?_nil, Option.map_none]
    exact inv
  | dbg a =>
    simp only [XWorld.step]
    cases hg : xw.w.get a with
    | none => exact inv
    | some s =>
      simp only [debuggable_of_inv (inv.w.ix _ (get_mem hg)), if_true]
      exact inv

theorem XInv.run {xw : XWorld} (inv : XInv xw) (te : Bool) (ops : List XOp)
    (h : te = false ∨ ops.all escFree = true) : XInv (XWorld.run .manual te xw ops) := by
  induction ops generalizing xw with
  | nil => exact inv
  | cons op ops ih =>
    have h1 : te = false ∨ escFree op = true := by
      rcases h with h | h
      · exact Or.inl h
      · simp only [List.all_cons, Bool.and_eq_true] at h; exact Or.inr h.1
    have h2 : te = false ∨ ops.all escFree = true := by
      rcases h with h | h
      · exact Or.inl h
      · simp only [List.all_cons, Bool.and_eq_true] at h; exact Or.inr h.2
    exact ih (inv.step te op h1) h2

/-- a run of base operations is the run of `World` -/
theorem xrun_base (ck : CloneKind) (te : Bool) (xw : XWorld) (ops : List Op) :
    XWorld.run ck te xw (ops.map .base) = { xw with w := World.run ck xw.w ops } := by
  induction ops generalizing xw with
  | nil => rfl
  | cons op ops ih =>
    simp only [List.map_cons, XWorld.run, List.foldl_cons, World.run] at ih ⊢
    exact ih _

end SophiaProofs.HeapP
