/-
C17 lemma library, part 6: UTF-8 shape and char boundaries.

`relativize` slices the IRI at offsets computed on the BASE.  Every such offset lies inside the common byte
prefix and is the position of, or one past, an ASCII delimiter of the base (or the end of the base) - with the
single exception `pseudoroot - 1` when the base is `scheme://authority` with an empty path.  For two strings that
have the shape of UTF-8, a char boundary of one inside the common prefix is a char boundary of the other
(`icb_transfer`): this discharges the hypothesis of `no_panic`.
-/
import SophiaProofs.Lemmas.RelativizeSlashes
import SophiaProofs.Lemmas.RelativizeSameDoc

namespace SophiaProofs.Relativize
open SophiaModel SophiaModel.Rfc3986 SophiaModel.Relativize

/-- octet `k` of `s` does not continue a character (or there is no octet `k`) -/
def bnd (s : Octets) (k : Nat) : Bool :=
  match s[k]? with
  | none => true
  | some c => !isCont c

theorem bnd_cons_succ (c : Char) (s : Octets) (k : Nat) : bnd (c :: s) (k + 1) = bnd s k := by
  simp [bnd]

theorem isCharBoundary_eq {s : Octets} {k : Nat} (hk : k ≤ s.length) :
    isCharBoundary s k = (k == 0 || bnd s k) := by
  unfold isCharBoundary bnd
  by_cases h0 : k = 0
  · simp [h0]
  · simp only [h0, if_false]
    cases h : s[k]? with
    | none =>
      have := List.getElem?_eq_none_iff.mp h
      have : k = s.length := by omega
      simp [this]
    | some c => simp [h0]

theorem contCount_not_cont {c : Char} {m : Nat} (h : contCount c = some m) : isCont c = false := by
  unfold contCount at h
  unfold isCont
  split at h
  · simp; omega
  · split at h
    · cases h
    · simp; omega

theorem ascii_not_cont {c : Char} (h : c.toNat < 0x80) : isCont c = false := by
  unfold isCont; simp; omega

theorem contCount_ascii {c : Char} (h : c.toNat < 0x80) : contCount c = some 0 := by
  unfold contCount; simp [h]

/-- at the start of a shaped string an octet continues a character iff continuation octets are pending -/
theorem bnd_zero {p : Nat} {s : Octets} (h : utf8Shaped p s = true) : bnd s 0 = (p == 0) := by
  cases s with
  | nil => simpa [utf8Shaped, bnd] using h
  | cons c r =>
    unfold utf8Shaped at h
    cases p with
    | zero =>
      simp only [utf8Next] at h
      cases hc : contCount c with
      | none => simp [hc] at h
      | some m => simp [bnd, contCount_not_cont hc]
    | succ m =>
      simp only [utf8Next] at h
      by_cases hi : isCont c = true
      · simp [bnd, hi]
      · simp [hi] at h

theorem lcp_cons_pos {x y : Char} {a b : Octets} {k : Nat} (h : k + 1 ≤ lcp (x :: a) (y :: b)) :
    x = y ∧ k ≤ lcp a b := by
  unfold lcp at h
  split at h
  · rename_i heq; exact ⟨heq, by omega⟩
  · omega

/-- inside the common prefix, two strings of the same UTF-8 shape have the same character starts -/
theorem bnd_transfer : ∀ (k p : Nat) (a b : Octets), utf8Shaped p a = true → utf8Shaped p b = true →
    k ≤ lcp a b → bnd a k = bnd b k := by
  intro k
  induction k with
  | zero => intro p a b ha hb _; rw [bnd_zero ha, bnd_zero hb]
  | succ k ih =>
    intro p a b ha hb hk
    cases a with
    | nil => simp [lcp] at hk
    | cons x a' =>
      cases b with
      | nil => simp [lcp] at hk
      | cons y b' =>
        obtain ⟨hxy, hk'⟩ := lcp_cons_pos hk
        subst hxy
        rw [bnd_cons_succ, bnd_cons_succ]
        unfold utf8Shaped at ha hb
        cases hn : utf8Next p x with
        | none => simp [hn] at ha
        | some p' =>
          simp only [hn] at ha hb
          exact ih p' a' b' ha hb hk'

/-- one past an ASCII octet of a shaped string a character starts -/
theorem bnd_after_ascii : ∀ (k p : Nat) (s : Octets) (c : Char), utf8Shaped p s = true → s[k]? = some c →
    c.toNat < 0x80 → bnd s (k + 1) = true := by
  intro k
  induction k with
  | zero =>
    intro p s c hs hc hascii
    cases s with
    | nil => simp at hc
    | cons d r =>
      simp at hc; subst hc
      rw [bnd_cons_succ]
      unfold utf8Shaped at hs
      cases p with
      | zero =>
        simp only [utf8Next, contCount_ascii hascii] at hs
        rw [bnd_zero hs]; rfl
      | succ m =>
        simp [utf8Next, ascii_not_cont hascii] at hs
  | succ k ih =>
    intro p s c hs hc hascii
    cases s with
    | nil => simp at hc
    | cons d r =>
      rw [bnd_cons_succ]
      simp at hc
      unfold utf8Shaped at hs
      cases hn : utf8Next p d with
      | none => simp [hn] at hs
      | some p' =>
        simp only [hn] at hs
        exact ih p' r c hs hc hascii

/-! ### `isCharBoundary` -/

theorem icb_zero (s : Octets) : isCharBoundary s 0 = true := by simp [isCharBoundary]

theorem icb_length (s : Octets) : isCharBoundary s s.length = true := by
  unfold isCharBoundary
  split
  · rfl
  · simp

theorem icb_at_ascii {s : Octets} {k : Nat} {c : Char} (hc : s[k]? = some c) (hascii : c.toNat < 0x80) :
    isCharBoundary s k = true := by
  unfold isCharBoundary
  split
  · rfl
  · simp [hc, ascii_not_cont hascii]

theorem icb_after_ascii {s : Octets} {k : Nat} {c : Char} (hs : utf8Shaped 0 s = true) (hc : s[k]? = some c)
    (hascii : c.toNat < 0x80) : isCharBoundary s (k + 1) = true := by
  have hlt : k < s.length := by
    have := List.getElem?_eq_some_iff.mp hc
    obtain ⟨h, _⟩ := this; exact h
  rw [isCharBoundary_eq (by omega), bnd_after_ascii k 0 s c hs hc hascii]
  simp

/-- a char boundary of `a` inside the common prefix of `a` and `b` is a char boundary of `b` -/
theorem icb_transfer {a b : Octets} {k : Nat} (ha : utf8Shaped 0 a = true) (hb : utf8Shaped 0 b = true)
    (hk : k ≤ lcp a b) (h : isCharBoundary a k = true) : isCharBoundary b k = true := by
  have h1 := lcp_le_left a b
  have h2 := lcp_le_right a b
  rw [isCharBoundary_eq (by omega)] at h
  rw [isCharBoundary_eq (by omega), ← bnd_transfer k 0 a b ha hb hk]
  exact h

/-- the position right after a prefix `X` is a boundary when what follows is empty or starts with an ASCII octet -/
theorem icb_append {X Y : Octets} (h : Y = [] ∨ ∃ c r, Y = c :: r ∧ c.toNat < 0x80) :
    isCharBoundary (X ++ Y) X.length = true := by
  rcases h with rfl | ⟨c, r, rfl, hc⟩
  · simpa using icb_length X
  · exact icb_at_ascii (c := c) (by simp) hc

/-! ### the slice indices of `new base n` are char boundaries of the base -/

theorem icb_at_noncont {s : Octets} {k : Nat} {c : Char} (hc : s[k]? = some c) (hn : isCont c = false) :
    isCharBoundary s k = true := by
  unfold isCharBoundary
  split
  · rfl
  · simp [hc, hn]

theorem startsQH_ascii {t : Octets} (h : startsQH t = true) : ∃ c r, t = c :: r ∧ c.toNat < 0x80 := by
  unfold startsQH at h
  split at h
  · exact ⟨'?', _, rfl, by decide⟩
  · exact ⟨'#', _, rfl, by decide⟩
  · cases h

/-- with an authority, the path is empty or starts with '/' -/
theorem split_auth_path {s : Str} {a : Str} (h : (split s).authority = some a) :
    (split s).path = [] ∨ ∃ r, (split s).path = '/' :: r := by
  rw [split_eq] at h ⊢
  simp only at h ⊢
  generalize (stage1 s).2 = s1 at h ⊢
  unfold stage2 at h ⊢
  split at h
  · rename_i r
    simp only
    rcases spanNot_snd ['/', '?', '#'] r with he | ⟨c, r', he, hc⟩
    · rw [he]; left; simp [spanNot]
    · rw [he]
      simp at hc
      rcases hc with rfl | rfl | rfl
      · right; simp [spanNot]
      · left; simp [spanNot]
      · left; simp [spanNot]
  · cases h

theorem get_path (S P T : Octets) (j : Nat) (c : Char) (h : P[j]? = some c) :
    (S ++ P ++ T)[S.length + j]? = some c := by
  have hj : j < P.length := (List.getElem?_eq_some_iff.mp h).1
  rw [List.append_assoc, List.getElem?_append_right (by omega)]
  simp [List.getElem?_append_left hj, h]

theorem get_last_pre (X T : Octets) (c : Char) : ((X ++ [c]) ++ T)[(X ++ [c]).length - 1]? = some c := by
  simp

/-- `pseudoroot` is never before the path; it is the start of the path only when the path is rootless -/
theorem new_pseudoroot_cases (base : Octets) (n : Nat) (hs : (split base).scheme.isSome) :
    (new base n).pseudoroot > (preStr (split base)).length ∨
    ((new base n).pseudoroot = (preStr (split base)).length ∧
      startsSlash (base.drop (preStr (split base)).length) = false) := by
  have hd := base_decomp base
  rw [List.append_assoc] at hd
  have spec := slashLoop_spec (preStr (split base)) (split base).path (queryStr (split base) ++ fragStr (split base))
    (n + 1) (split base).path.length [] (Nat.le_refl _) (by intro h; exact List.length_eq_zero_iff.mp h) (by simp) (by simp)
  rw [← hd] at spec
  rw [new_eq base n hs]
  generalize slashLoop base (preStr (split base)).length (n + 1)
    ((preStr (split base)).length + (split base).path.length) [] = sl at *
  obtain ⟨sp1, _⟩ := spec
  unfold finish
  simp only
  split
  · rename_i hgt
    left
    have hpos : 0 < sl.length := by omega
    have hlast : sl.getLast? = sl[sl.length - 1]? := List.getLast?_eq_getElem? 
    have hn : sl.length - 1 < sl.length := by omega
    rw [hlast, List.getElem?_eq_getElem hn]
    have := sp1 (sl.length - 1) sl[sl.length - 1] (List.getElem?_eq_getElem hn)
    obtain ⟨a, _⟩ := this
    simp only [Option.getD_some]
    omega
  · split
    · left; simp
    · rename_i hroot
      right
      exact ⟨rfl, by simpa using hroot⟩


theorem preStr_last (p : Parts) (hs : p.scheme.isSome)
    (hx : ∀ a, p.authority = some a → ∀ c, a.getLast? = some c → isCont c = false) :
    ∃ X c, preStr p = X ++ [c] ∧ isCont c = false := by
  unfold preStr schemeStr authStr schemeO authO
  cases hsc : p.scheme with
  | none => simp [hsc] at hs
  | some sc =>
    cases hau : p.authority with
    | none => exact ⟨sc, ':', by simp, by decide⟩
    | some a =>
      cases hl : a.getLast? with
      | none =>
        have : a = [] := by simpa using hl
        subst this
        exact ⟨sc ++ [':', '/'], '/', by simp, by decide⟩
      | some c =>
        have hc := hx a hau c hl
        have ha : a = a.dropLast ++ [c] := by
          have hne : a ≠ [] := by intro h0; subst h0; simp at hl
          have h1 := List.dropLast_concat_getLast hne
          rw [List.getLast?_eq_some_getLast hne] at hl
          injection hl with hl
          rw [hl] at h1
          exact h1.symm
        refine ⟨sc ++ [':'] ++ '/' :: '/' :: a.dropLast, c, ?_, hc⟩
        conv => lhs; rw [ha]
        simp

/-- every index at which `relativize` may slice the IRI is a char boundary of the BASE, unless the base is an
authority ending in a multi-byte character followed by an empty path -/
theorem new_slices_boundary (base : Octets) (n : Nat) (hs : (split base).scheme.isSome)
    (hb : utf8Shaped 0 base = true) (hx : authEndsMultibyteNoPath base = false) :
    ∀ k ∈ sliceIndices (new base n), isCharBoundary base k = true := by
  have hd := base_decomp base
  have hqe : isCharBoundary base (new base n).query_end = true := by
    rw [new_query_end base n hs]
    conv => lhs; arg 1; rw [hd]
    apply icb_append
    unfold fragStr fragO
    cases (split base).fragment with
    | none => left; rfl
    | some f => right; exact ⟨'#', f, rfl, by decide⟩
  have hpe : isCharBoundary base (new base n).path_end = true := by
    rw [new_path_end base n hs]
    conv => lhs; arg 1; rw [hd, List.append_assoc]
    apply icb_append
    rcases queryO_fragO_starts (split base).query (split base).fragment with he | he
    · left; exact he
    · right; exact startsQH_ascii he
  obtain ⟨hc1, hc2⟩ := new_cuts base n hs
  -- a cut right after a '/' of the path: both the cut and the position of the '/' are boundaries
  have hcut : ∀ c k, CutOK (preStr (split base)) (split base).path c k →
      isCharBoundary base c = true ∧ isCharBoundary base (c - 1) = true := by
    intro c k ⟨h1, h2, h3, _⟩
    have hg := get_path (preStr (split base)) (split base).path (queryStr (split base) ++ fragStr (split base))
      (c - (preStr (split base)).length - 1) '/' h3
    rw [← List.append_assoc, ← hd] at hg
    have he : (preStr (split base)).length + (c - (preStr (split base)).length - 1) = c - 1 := by omega
    rw [he] at hg
    constructor
    · have := icb_after_ascii hb hg (by decide)
      rwa [show c - 1 + 1 = c by omega] at this
    · exact icb_at_ascii hg (by decide)
  intro k hk
  simp only [sliceIndices, List.mem_append, List.mem_cons, List.mem_map, List.not_mem_nil, or_false] at hk
  rcases hk with (rfl | rfl | hk | hk) | ⟨e, he, rfl⟩
  · exact hqe
  · exact hpe
  · -- pseudoroot
    subst hk
    rcases new_pseudoroot_cases base n hs with hgt | ⟨heq, hroot⟩
    · exact (hcut _ _ (hc2 hgt)).1
    · -- rootless: pseudoroot = path_begin
      rw [heq]
      cases hau : (split base).authority with
      | none =>
        cases hsc : (split base).scheme with
        | none => simp [hsc] at hs
        | some sc =>
          have hS : preStr (split base) = sc ++ [':'] := by
            simp [preStr, schemeStr, authStr, schemeO, authO, hau, hsc]
          have hg := get_last_pre sc ((split base).path ++ queryStr (split base) ++ fragStr (split base)) ':'
          rw [← hS] at hg
          simp only [← List.append_assoc] at hg
          rw [← hd] at hg
          have hpos : 0 < (preStr (split base)).length := by rw [hS]; simp
          have := icb_after_ascii hb hg (by decide)
          rwa [show (preStr (split base)).length - 1 + 1 = (preStr (split base)).length by omega] at this
      | some a =>
        -- the path is empty (rootless with an authority): pseudoroot = path_end
        have hP : (split base).path = [] := by
          rcases split_auth_path hau with h | ⟨r, h⟩
          · exact h
          · rw [List.append_assoc, List.append_assoc] at hd
            rw [drop_of_decomp hd, h] at hroot
            simp [startsSlash] at hroot
        have : (new base n).path_end = (preStr (split base)).length := by
          rw [new_path_end base n hs, hP]; simp
        rw [← this]; exact hpe
  · -- pseudoroot - 1
    subst hk
    rcases new_pseudoroot_cases base n hs with hgt | ⟨heq, hroot⟩
    · exact (hcut _ _ (hc2 hgt)).2
    · rw [heq]
      have hX : ∀ a, (split base).authority = some a → ∀ c, a.getLast? = some c → isCont c = false := by
        intro a hau c hl
        have hP : (split base).path = [] := by
          rcases split_auth_path hau with h | ⟨r, h⟩
          · exact h
          · rw [List.append_assoc, List.append_assoc] at hd
            rw [drop_of_decomp hd, h] at hroot
            simp [startsSlash] at hroot
        unfold authEndsMultibyteNoPath at hx
        simp only [hau, hP, hl] at hx
        simpa using hx
      obtain ⟨X, c, hXe, hc⟩ := preStr_last (split base) hs hX
      have hg := get_last_pre X ((split base).path ++ queryStr (split base) ++ fragStr (split base)) c
      rw [← hXe] at hg
      simp only [← List.append_assoc] at hg
      rw [← hd] at hg
      exact icb_at_noncont hg hc
  · -- one past a recorded slash
    obtain ⟨i, hi⟩ := List.mem_iff_getElem?.mp he
    exact (hcut _ _ (hc1 i e hi)).1


/-! ### no panic / same-document IRIs, for inputs that have the shape of UTF-8 -/

/-- `relativize` does not panic on UTF-8 inputs, except (possibly) when the base is an authority ending in a
multi-byte character followed by an empty path -/
theorem no_panic_utf8 {base iri : Octets} {n : Nat} (hs : (split base).scheme.isSome)
    (hb : utf8Shaped 0 base = true) (hi : utf8Shaped 0 iri = true) (hx : authEndsMultibyteNoPath base = false) :
    relativize (new base n) iri ≠ .panic := by
  apply no_panic
  intro k hk hle
  rw [new_base] at hle
  exact icb_transfer hb hi hle (new_slices_boundary base n hs hb hx k hk)

theorem withSlice_of_boundary {iri : Octets} {k : Nat} {f : Octets → Outcome} (h : isCharBoundary iri k = true) :
    withSlice iri k f = f (iri.drop k) := by
  simp [withSlice, sliceFrom, h]

/-- `query_end` and `path_end` are char boundaries of any base (they are the position of '?' / '#' or the end) -/
theorem new_qe_pe_boundary (base : Octets) (n : Nat) (hs : (split base).scheme.isSome) :
    isCharBoundary base (new base n).query_end = true ∧ isCharBoundary base (new base n).path_end = true := by
  have hd := base_decomp base
  constructor
  · rw [new_query_end base n hs]
    conv => lhs; arg 1; rw [hd]
    apply icb_append
    unfold fragStr fragO
    cases (split base).fragment with
    | none => left; rfl
    | some f => right; exact ⟨'#', f, rfl, by decide⟩
  · rw [new_path_end base n hs]
    conv => lhs; arg 1; rw [hd, List.append_assoc]
    apply icb_append
    rcases queryO_fragO_starts (split base).query (split base).fragment with he | he
    · left; exact he
    · right; exact startsQH_ascii he

/-- an IRI with the scheme, authority and path of the base is ALWAYS relativised, to a slice of the IRI with nothing
inserted (UTF-8 inputs; no exception: the same-document branches never look at `pseudoroot`) -/
theorem same_doc_some {base : Octets} {n : Nat} {iri : Octets}
    (hs : (split base).scheme.isSome) (hb : utf8Shaped 0 base = true) (hi : utf8Shaped 0 iri = true)
    (h1 : (split iri).scheme = (split base).scheme) (h2 : (split iri).authority = (split base).authority)
    (h3 : (split iri).path = (split base).path) :
    ∃ t, relativize (new base n) iri = .some .nothing t := by
  have hbase := new_base base n
  have hpe := new_path_end base n hs
  obtain ⟨bqe, bpe⟩ := new_qe_pe_boundary base n hs
  have hd := base_decomp base
  have hdi := base_decomp iri
  have hpre : preStr (split iri) = preStr (split base) := by
    simp [preStr, schemeStr, authStr, h1, h2]
  rw [hpre, h3] at hdi
  have hl : lcp base iri ≥ (new base n).path_end := by
    rw [hpe]
    conv => lhs; rw [hd, hdi]
    rw [List.append_assoc, List.append_assoc _ _ (fragStr (split iri)), lcp_append_left]
    omega
  have hdrop : iri.drop (new base n).path_end = queryStr (split iri) ++ fragStr (split iri) := by
    rw [hpe]
    conv => lhs; rw [hdi]
    rw [List.append_assoc, List.drop_left]
  have hlen : iri.length = (new base n).path_end + (queryStr (split iri) ++ fragStr (split iri)).length := by
    rw [hpe]
    conv => lhs; rw [hdi]
    simp [List.length_append]; omega
  have ipe : isCharBoundary iri (new base n).path_end = true := icb_transfer hb hi hl bpe
  unfold relativize
  simp only [hbase]
  split
  · rename_i hq
    rw [withSlice_of_boundary (icb_transfer hb hi hq bqe)]
    exact ⟨_, rfl⟩
  · split
    · rw [withSlice_of_boundary ipe]
      exact ⟨_, rfl⟩
    · split
      · rw [withSlice_of_boundary ipe, hdrop]
        rcases queryO_fragO_starts (split iri).query (split iri).fragment with he | he
        · have : iri.length = (new base n).path_end := by
            rw [hlen]; simp [queryStr, fragStr, he]
          simp [this]
        · have : startsQH (queryStr (split iri) ++ fragStr (split iri)) = true := he
          simp [this]
      · omega

/-! ### `None` is answered only outside the pseudoroot directory -/

/-- inside the pseudoroot directory (common prefix reaching `pseudoroot`) the answer is never `None` -/
theorem some_inside {R : Relativizer} {iri : Octets} (hge : lcp R.base iri ≥ R.pseudoroot) :
    relativize R iri ≠ .none := by
  have hp : pathBranch R iri (lcp R.base iri) ≠ .none := by
    unfold pathBranch
    simp only [hge, if_true]
    split
    · split
      · apply withSlice_ne_none; intro u; split <;> simp
      · apply withSlice_ne_none; intro u; simp
    · split
      · apply withSlice_ne_none; intro u
        apply withSlice_ne_none; intro v; split <;> simp
      · apply withSlice_ne_none; intro u; simp
  unfold relativize
  simp only
  split
  · apply withSlice_ne_none; intro u; simp
  · split
    · apply withSlice_ne_none; intro u; simp
    · split
      · apply withSlice_ne_none; intro u
        split
        · simp
        · exact hp
      · exact hp

theorem none_outside {R : Relativizer} {iri : Octets} (h : relativize R iri = .none) :
    lcp R.base iri < R.pseudoroot := by
  apply Nat.lt_of_not_ge
  intro hge
  exact some_inside hge h

end SophiaProofs.Relativize
