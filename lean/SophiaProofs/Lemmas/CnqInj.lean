/-
The canonical N-Quads rendering of one term is a prefix code on well-formed terms: from
`nq t₁ ++ x = nq t₂ ++ y` follow `t₁ = t₂` and `x = y`.  Consequences: the term-wise comparison used
by `normalize_with` is the code-point order of the rendered lines, and the rendering of a dataset is injective.
-/
import SophiaProofs.Lemmas.CnqEscape
import SophiaProofs.Lemmas.StrOrder

namespace SophiaProofs.CnqL
open SophiaModel SophiaModel.Rdfc10 SophiaProofs.Rdfc10L
open Rdfc10Spec (escapeChar uchar4)

/-! ### one escaped character is a prefix code -/

/-- length of the first token of an escaped lexical form, read off its first two characters
(0 at the closing quote) -/
def tokenLen : Str → Nat
  | [] => 0
  | c :: rest =>
    if c.toNat = 0x22 then 0
    else if c.toNat = 0x5C then (match rest with
      | d :: _ => if d.toNat = 0x75 then 6 else 2
      | [] => 2)
    else 1

theorem tokenLen_escape (c : Char) (rest : Str) :
    tokenLen (escapeChar c ++ rest) = (escapeChar c).length ∧ 0 < (escapeChar c).length := by
  unfold escapeChar
  simp only []
  split
  · exact ⟨rfl, by decide⟩
  · split
    · exact ⟨rfl, by decide⟩
    · split
      · exact ⟨rfl, by decide⟩
      · split
        · exact ⟨rfl, by decide⟩
        · split
          · exact ⟨rfl, by decide⟩
          · split
            · exact ⟨rfl, by decide⟩
            · split
              · exact ⟨rfl, by decide⟩
              · split
                · exact ⟨rfl, Nat.succ_pos _⟩
                · rename_i h08 h09 h0a h0c h0d h22 h5c hctl
                  simp only [List.singleton_append, tokenLen, h22, h5c, if_false, List.length_singleton]
                  exact ⟨trivial, by decide⟩

def hexv (c : Char) : Nat := if c.toNat ≤ 57 then c.toNat - 48 else c.toNat - 55

/-- left inverse of `escapeChar` -/
def unesc : Str → Char
  | [c] => c
  | [_, x] =>
    if x.toNat = 0x62 then Char.ofNat 8 else if x.toNat = 0x74 then Char.ofNat 9
    else if x.toNat = 0x6E then Char.ofNat 10 else if x.toNat = 0x66 then Char.ofNat 12
    else if x.toNat = 0x72 then Char.ofNat 13 else x
  | [_, _, a, b, c, d] => Char.ofNat (hexv a * 4096 + hexv b * 256 + hexv c * 16 + hexv d)
  | _ => 'x'

theorem unesc_low : ∀ n : Fin 128, unesc (escapeChar (Char.ofNat n.val)) = Char.ofNat n.val := by decide

theorem unesc_escape (c : Char) : unesc (escapeChar c) = c := by
  by_cases h : c.toNat < 128
  · have := unesc_low ⟨c.toNat, h⟩
    simpa [Char.ofNat_toNat] using this
  · rw [spec_high c (Nat.le_of_not_lt h)]; rfl

theorem escapeChar_inj {c d : Char} (h : escapeChar c = escapeChar d) : c = d := by
  rw [← unesc_escape c, ← unesc_escape d, h]

theorem escapeChar_prefix {c d : Char} {x y : Str} (h : escapeChar c ++ x = escapeChar d ++ y) :
    c = d ∧ x = y := by
  have hl : (escapeChar c).length = (escapeChar d).length := by
    rw [← (tokenLen_escape c x).1, ← (tokenLen_escape d y).1, h]
  have := List.append_inj h hl
  exact ⟨escapeChar_inj this.1, this.2⟩

theorem escape_cons (c : Char) (l : Str) : Cnq.escape (c :: l) = escapeChar c ++ Cnq.escape l := by
  unfold Cnq.escape
  rw [List.flatMap_cons, escChar_eq_spec]

/-- an escaped lexical form followed by the closing quote determines the lexical form -/
theorem escape_prefix : ∀ (l₁ l₂ : Str) (x y : Str),
    Cnq.escape l₁ ++ '"' :: x = Cnq.escape l₂ ++ '"' :: y → l₁ = l₂ ∧ x = y
  | [], [], x, y, h => by
    simp only [Cnq.escape, List.flatMap_nil, List.nil_append] at h
    injection h with _ h
    exact ⟨rfl, h⟩
  | [], d :: l₂, x, y, h => by
    rw [escape_cons] at h
    simp only [Cnq.escape, List.flatMap_nil, List.nil_append, List.append_assoc] at h
    have h1 := tokenLen_escape d (List.flatMap Cnq.escChar l₂ ++ '"' :: y)
    rw [← h] at h1
    have : tokenLen ('"' :: x) = 0 := rfl
    omega
  | c :: l₁, [], x, y, h => by
    rw [escape_cons] at h
    simp only [Cnq.escape, List.flatMap_nil, List.nil_append, List.append_assoc] at h
    have h1 := tokenLen_escape c (List.flatMap Cnq.escChar l₁ ++ '"' :: x)
    rw [h] at h1
    have : tokenLen ('"' :: y) = 0 := rfl
    omega
  | c :: l₁, d :: l₂, x, y, h => by
    rw [escape_cons, escape_cons, List.append_assoc, List.append_assoc] at h
    obtain ⟨hc, hr⟩ := escapeChar_prefix h
    obtain ⟨hl, hx⟩ := escape_prefix l₁ l₂ x y hr
    exact ⟨by rw [hc, hl], hx⟩

/-! ### splitting at the first occurrence of a delimiter -/

theorem split_unique (c : Char) : ∀ (u v x y : Str), c ∉ u → c ∉ v → u ++ c :: x = v ++ c :: y → u = v ∧ x = y
  | [], [], x, y, _, _, h => by
    simp only [List.nil_append] at h
    injection h with _ h
    exact ⟨rfl, h⟩
  | [], b :: v, x, y, _, hv, h => by
    simp only [List.nil_append, List.cons_append] at h
    injection h with h _
    exact absurd (by rw [h]; exact List.mem_cons_self) hv
  | a :: u, [], x, y, hu, _, h => by
    simp only [List.nil_append, List.cons_append] at h
    injection h with h _
    exact absurd (by rw [← h]; exact List.mem_cons_self) hu
  | a :: u, b :: v, x, y, hu, hv, h => by
    simp only [List.cons_append] at h
    injection h with h1 h2
    obtain ⟨e1, e2⟩ := split_unique c u v x y (fun hm => hu (List.mem_cons_of_mem _ hm))
      (fun hm => hv (List.mem_cons_of_mem _ hm)) h2
    exact ⟨by rw [h1, e1], e2⟩

/-! ### well-formed terms -/

/-- the part of RDF well-formedness the argument needs (all IRIs, blank node labels and language
tags accepted by the toolkit's validators satisfy it; `c14nN` does, see `canonId_ok`) -/
def TermOK : Term → Prop
  | .iri s => '>' ∉ s
  | .bnode b => ' ' ∉ b
  | .lit _ d => '>' ∉ d
  | .lang _ t => ' ' ∉ t
  | .triple _ _ _ => False
  | .var _ => False

theorem nq_iri (s x : Str) : Cnq.nq (.iri s) ++ x = '<' :: (s ++ '>' :: ' ' :: x) := by
  simp [Cnq.nq, Cnq.nqTerm]

theorem nq_bnode (b x : Str) : Cnq.nq (.bnode b) ++ x = '_' :: ':' :: (b ++ ' ' :: x) := by
  simp [Cnq.nq, Cnq.nqTerm]

theorem nq_lang (l t x : Str) : Cnq.nq (.lang l t) ++ x = '"' :: (Cnq.escape l ++ '"' :: '@' :: (t ++ ' ' :: x)) := by
  simp [Cnq.nq, Cnq.nqTerm]

theorem nq_lit_plain (l d x : Str) (hd : d = Cnq.xsdString) :
    Cnq.nq (.lit l d) ++ x = '"' :: (Cnq.escape l ++ '"' :: ' ' :: x) := by
  simp [Cnq.nq, Cnq.nqTerm, hd]

theorem nq_lit_typed (l d x : Str) (hd : d ≠ Cnq.xsdString) :
    Cnq.nq (.lit l d) ++ x = '"' :: (Cnq.escape l ++ '"' :: '^' :: '^' :: '<' :: (d ++ '>' :: ' ' :: x)) := by
  simp [Cnq.nq, Cnq.nqTerm, hd]

/-- **prefix code** -/
theorem nq_prefix_free {t₁ t₂ : Term} (h₁ : TermOK t₁) (h₂ : TermOK t₂) {x y : Str}
    (h : Cnq.nq t₁ ++ x = Cnq.nq t₂ ++ y) : t₁ = t₂ ∧ x = y := by
  cases t₁ with
  | triple _ _ _ => exact absurd h₁ (by simp [TermOK])
  | var _ => exact absurd h₁ (by simp [TermOK])
  | iri s₁ =>
    rw [nq_iri] at h
    cases t₂ with
    | triple _ _ _ => exact absurd h₂ (by simp [TermOK])
    | var _ => exact absurd h₂ (by simp [TermOK])
    | iri s₂ =>
      rw [nq_iri] at h
      injection h with _ h
      obtain ⟨e, hx⟩ := split_unique '>' _ _ _ _ h₁ h₂ h
      injection hx with _ hx
      exact ⟨by rw [e], hx⟩
    | bnode b₂ => rw [nq_bnode] at h; injection h with h _; exact absurd h (by decide)
    | lang l t => rw [nq_lang] at h; injection h with h _; exact absurd h (by decide)
    | lit l d =>
      by_cases hd : d = Cnq.xsdString
      · rw [nq_lit_plain _ _ _ hd] at h; injection h with h _; exact absurd h (by decide)
      · rw [nq_lit_typed _ _ _ hd] at h; injection h with h _; exact absurd h (by decide)
  | bnode b₁ =>
    rw [nq_bnode] at h
    cases t₂ with
    | triple _ _ _ => exact absurd h₂ (by simp [TermOK])
    | var _ => exact absurd h₂ (by simp [TermOK])
    | iri s₂ => rw [nq_iri] at h; injection h with h _; exact absurd h (by decide)
    | bnode b₂ =>
      rw [nq_bnode] at h
      injection h with _ h
      injection h with _ h
      obtain ⟨e, hx⟩ := split_unique ' ' _ _ _ _ h₁ h₂ h
      exact ⟨by rw [e], hx⟩
    | lang l t => rw [nq_lang] at h; injection h with h _; exact absurd h (by decide)
    | lit l d =>
      by_cases hd : d = Cnq.xsdString
      · rw [nq_lit_plain _ _ _ hd] at h; injection h with h _; exact absurd h (by decide)
      · rw [nq_lit_typed _ _ _ hd] at h; injection h with h _; exact absurd h (by decide)
  | lang l₁ g₁ =>
    rw [nq_lang] at h
    cases t₂ with
    | triple _ _ _ => exact absurd h₂ (by simp [TermOK])
    | var _ => exact absurd h₂ (by simp [TermOK])
    | iri s₂ => rw [nq_iri] at h; injection h with h _; exact absurd h (by decide)
    | bnode b₂ => rw [nq_bnode] at h; injection h with h _; exact absurd h (by decide)
    | lang l₂ g₂ =>
      rw [nq_lang] at h
      injection h with _ h
      obtain ⟨el, h⟩ := escape_prefix _ _ _ _ h
      injection h with _ h
      obtain ⟨eg, hx⟩ := split_unique ' ' _ _ _ _ h₁ h₂ h
      exact ⟨by rw [el, eg], hx⟩
    | lit l₂ d =>
      by_cases hd : d = Cnq.xsdString
      · rw [nq_lit_plain _ _ _ hd] at h
        injection h with _ h
        obtain ⟨_, h⟩ := escape_prefix _ _ _ _ h
        injection h with h _; exact absurd h (by decide)
      · rw [nq_lit_typed _ _ _ hd] at h
        injection h with _ h
        obtain ⟨_, h⟩ := escape_prefix _ _ _ _ h
        injection h with h _; exact absurd h (by decide)
  | lit l₁ d₁ =>
    cases t₂ with
    | triple _ _ _ => exact absurd h₂ (by simp [TermOK])
    | var _ => exact absurd h₂ (by simp [TermOK])
    | iri s₂ =>
      rw [nq_iri] at h
      by_cases hd : d₁ = Cnq.xsdString
      · rw [nq_lit_plain _ _ _ hd] at h; injection h with h _; exact absurd h (by decide)
      · rw [nq_lit_typed _ _ _ hd] at h; injection h with h _; exact absurd h (by decide)
    | bnode b₂ =>
      rw [nq_bnode] at h
      by_cases hd : d₁ = Cnq.xsdString
      · rw [nq_lit_plain _ _ _ hd] at h; injection h with h _; exact absurd h (by decide)
      · rw [nq_lit_typed _ _ _ hd] at h; injection h with h _; exact absurd h (by decide)
    | lang l₂ g₂ =>
      rw [nq_lang] at h
      by_cases hd : d₁ = Cnq.xsdString
      · rw [nq_lit_plain _ _ _ hd] at h
        injection h with _ h
        obtain ⟨_, h⟩ := escape_prefix _ _ _ _ h
        injection h with h _; exact absurd h (by decide)
      · rw [nq_lit_typed _ _ _ hd] at h
        injection h with _ h
        obtain ⟨_, h⟩ := escape_prefix _ _ _ _ h
        injection h with h _; exact absurd h (by decide)
    | lit l₂ d₂ =>
      by_cases hd₁ : d₁ = Cnq.xsdString
      · rw [nq_lit_plain _ _ _ hd₁] at h
        by_cases hd₂ : d₂ = Cnq.xsdString
        · rw [nq_lit_plain _ _ _ hd₂] at h
          injection h with _ h
          obtain ⟨el, h⟩ := escape_prefix _ _ _ _ h
          injection h with _ hx
          exact ⟨by rw [el, hd₁, hd₂], hx⟩
        · rw [nq_lit_typed _ _ _ hd₂] at h
          injection h with _ h
          obtain ⟨_, h⟩ := escape_prefix _ _ _ _ h
          injection h with h _; exact absurd h (by decide)
      · rw [nq_lit_typed _ _ _ hd₁] at h
        by_cases hd₂ : d₂ = Cnq.xsdString
        · rw [nq_lit_plain _ _ _ hd₂] at h
          injection h with _ h
          obtain ⟨_, h⟩ := escape_prefix _ _ _ _ h
          injection h with h _; exact absurd h (by decide)
        · rw [nq_lit_typed _ _ _ hd₂] at h
          injection h with _ h
          obtain ⟨el, h⟩ := escape_prefix _ _ _ _ h
          injection h with _ h
          injection h with _ h
          injection h with _ h
          obtain ⟨ed, hx⟩ := split_unique '>' _ _ _ _ h₁ h₂ h
          injection hx with _ hx
          exact ⟨by rw [el, ed], hx⟩

theorem nq_inj {t₁ t₂ : Term} (h₁ : TermOK t₁) (h₂ : TermOK t₂) (h : Cnq.nq t₁ = Cnq.nq t₂) : t₁ = t₂ :=
  (nq_prefix_free h₁ h₂ (x := []) (y := []) (by rw [h])).1

end SophiaProofs.CnqL

namespace SophiaProofs.CnqL
open SophiaModel SophiaModel.Rdfc10 SophiaProofs.Rdfc10L

/-! ### comparing concatenations -/

theorem cmpStr_append_left : ∀ (a x y : Str), cmpStr (a ++ x) (a ++ y) = cmpStr x y
  | [], _, _ => rfl
  | c :: a, x, y => by
    simp only [List.cons_append, cmpStr, Nat.lt_irrefl, if_false]
    exact cmpStr_append_left a x y

theorem cmpStr_append_diverge : ∀ (a b x y : Str), ¬ a <+: b → ¬ b <+: a →
    cmpStr (a ++ x) (b ++ y) = cmpStr a b
  | [], b, _, _, h, _ => absurd (List.nil_prefix) h
  | _ :: _, [], _, _, _, h => absurd (List.nil_prefix) h
  | c :: a, d :: b, x, y, h1, h2 => by
    simp only [List.cons_append, cmpStr]
    by_cases hcd : c.toNat < d.toNat
    · simp [hcd]
    · by_cases hdc : d.toNat < c.toNat
      · simp [hcd, hdc]
      · simp only [hcd, hdc, if_false]
        have e : c = d := Char.toNat_inj.mp (by omega)
        subst e
        apply cmpStr_append_diverge a b x y
        · intro hp; exact h1 ((List.prefix_cons_inj c).mpr hp)
        · intro hp; exact h2 ((List.prefix_cons_inj c).mpr hp)

theorem nq_not_prefix {t₁ t₂ : Term} (h₁ : TermOK t₁) (h₂ : TermOK t₂) (hne : t₁ ≠ t₂) :
    ¬ Cnq.nq t₁ <+: Cnq.nq t₂ := by
  rintro ⟨z, hz⟩
  exact hne (nq_prefix_free h₁ h₂ (x := z) (y := []) (by rw [hz, List.append_nil])).1

theorem then_of_ne_eq {o k : Ordering} (h : o ≠ .eq) : o.then k = o := by
  cases o <;> simp_all [Ordering.then]

/-- one term position: comparing `nq t₁` with `nq t₂` first and the rest afterwards is comparing the concatenations -/
theorem cmp_step {t₁ t₂ : Term} (h₁ : TermOK t₁) (h₂ : TermOK t₂) (r₁ r₂ : Str) :
    (cmpStr (Cnq.nq t₁) (Cnq.nq t₂)).then (cmpStr r₁ r₂) = cmpStr (Cnq.nq t₁ ++ r₁) (Cnq.nq t₂ ++ r₂) := by
  by_cases he : t₁ = t₂
  · subst he
    rw [cmpStr_refl, cmpStr_append_left]
    rfl
  · have hne : cmpStr (Cnq.nq t₁) (Cnq.nq t₂) ≠ .eq := by
      intro h
      exact he (nq_inj h₁ h₂ (cmpStr_eq_iff.mp h))
    rw [then_of_ne_eq hne, cmpStr_append_diverge _ _ _ _ (nq_not_prefix h₁ h₂ he)
      (nq_not_prefix h₂ h₁ (fun e => he e.symm))]

/-- graph names of RDF datasets: IRIs or blank nodes -/
def GraphOK : Option Term → Prop
  | none => True
  | some g => TermOK g ∧ (isBnode g = true ∨ ∃ s, g = .iri s)

structure QuadOK (q : Quad) : Prop where
  s : TermOK q.s
  p : TermOK q.p
  o : TermOK q.o
  g : GraphOK q.g

def graphPart (g : Option Term) : Str := match g with | some g => Cnq.nq g | none => []

theorem line_eq (q : Quad) :
    line q = Cnq.nq q.s ++ (Cnq.nq q.p ++ (Cnq.nq q.o ++ (graphPart q.g ++ ".\n".toList))) := by
  unfold line graphPart
  simp only [List.append_assoc]
  cases q.g <;> rfl

theorem graph_first_gt {g : Term} (hg : TermOK g ∧ (isBnode g = true ∨ ∃ s, g = .iri s)) (r : Str) :
    cmpStr ".\n".toList (Cnq.nq g ++ r) = .lt ∧ cmpStr (Cnq.nq g ++ r) ".\n".toList = .gt := by
  rcases hg.2 with hb | ⟨s, rfl⟩
  · cases g with
    | bnode b => rw [nq_bnode]; exact ⟨rfl, rfl⟩
    | iri _ => cases hb
    | lit _ _ => cases hb
    | lang _ _ => cases hb
    | triple _ _ _ => cases hb
    | var _ => cases hb
  · rw [nq_iri]; exact ⟨rfl, rfl⟩

theorem nq_ne_nil (t : Term) : ∃ c r, Cnq.nq t = c :: r := by
  unfold Cnq.nq
  cases h : Cnq.nqTerm t with
  | nil => exact ⟨' ', [], rfl⟩
  | cons c r => exact ⟨c, r ++ [' '], rfl⟩

theorem cmp_graph {g₁ g₂ : Option Term} (h₁ : GraphOK g₁) (h₂ : GraphOK g₂) :
    cmpOptTerm g₁ g₂ = cmpStr (graphPart g₁ ++ ".\n".toList) (graphPart g₂ ++ ".\n".toList) := by
  cases g₁ with
  | none =>
    cases g₂ with
    | none => simp [cmpOptTerm, graphPart, cmpStr_refl]
    | some b =>
      obtain ⟨c, r, hc⟩ := nq_ne_nil b
      simp only [cmpOptTerm, graphPart, List.nil_append]
      rw [(graph_first_gt h₂ _).1, hc]
      rfl
  | some a =>
    cases g₂ with
    | none =>
      obtain ⟨c, r, hc⟩ := nq_ne_nil a
      simp only [cmpOptTerm, graphPart, List.nil_append]
      rw [(graph_first_gt h₁ _).2, hc]
      rfl
    | some b =>
      simp only [cmpOptTerm, graphPart]
      rw [← cmp_step h₁.1 h₂.1, cmpStr_refl]
      cases cmpStr (Cnq.nq a) (Cnq.nq b) <;> rfl

/-- **the term-wise comparison of `normalize_with` is the code-point order of the N-Quads lines** -/
theorem cmpQuad_eq_line {q₁ q₂ : Quad} (h₁ : QuadOK q₁) (h₂ : QuadOK q₂) :
    cmpQuad q₁ q₂ = cmpStr (line q₁) (line q₂) := by
  rw [line_eq, line_eq, ← cmp_step h₁.s h₂.s, ← cmp_step h₁.p h₂.p, ← cmp_step h₁.o h₂.o, ← cmp_graph h₁.g h₂.g]
  rfl

end SophiaProofs.CnqL
