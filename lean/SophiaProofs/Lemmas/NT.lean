/-
Lemmas about the N-Triples / N-Quads writer and reader of `SophiaModel/Model/NT.lean`
(used by `SophiaProofs/Props/C03.lean`).
-/
import SophiaModel.Model.NT
set_option linter.unusedSimpArgs false
set_option linter.unnecessarySimpa false

namespace SophiaProofs.NTL
open SophiaModel SophiaModel.NT

/-! ### generic list facts -/

theorem takeWhile_all {α} (p : α → Bool) (l : List α) (h : ∀ x ∈ l, p x = true) : l.takeWhile p = l := by
  induction l with
  | nil => rfl
  | cons a l ih =>
    have ha := h a (by simp)
    simp [List.takeWhile_cons, ha, ih (fun x hx => h x (by simp [hx]))]

theorem takeWhile_app {α} (p : α → Bool) (l r : List α) (h : ∀ x ∈ l, p x = true) :
    (l ++ r).takeWhile p = l ++ r.takeWhile p := by
  induction l with
  | nil => rfl
  | cons a l ih =>
    have ha := h a (by simp)
    simp [List.takeWhile_cons, ha, ih (fun x hx => h x (by simp [hx]))]

theorem dropWhile_app {α} (p : α → Bool) (l r : List α) (h : ∀ x ∈ l, p x = true) :
    (l ++ r).dropWhile p = r.dropWhile p := by
  induction l with
  | nil => rfl
  | cons a l ih =>
    have ha := h a (by simp)
    simp [List.dropWhile_cons, ha, ih (fun x hx => h x (by simp [hx]))]

theorem drop_len_app {α} (l r : List α) : (l ++ r).drop l.length = r := by
  induction l with
  | nil => rfl
  | cons a l ih => simpa using ih

/-! ### the escape table

Everything below is proved from three decidable facts about the *generated* table
(`tableOk`), not from its literal contents: every arm writes a backslash followed by the ECHAR
code of the byte it replaces; the four characters STRING_LITERAL_QUOTE forbids are cut bytes;
every cut byte has an arm.  An edit of `quoted_string` that keeps these facts (say, a new
`\t` arm) keeps the theorems; one that breaks them breaks `tableOk_holds`. -/

def armOk (a : Char × List Char) : Bool :=
  match a.2 with
  | [b, x] => b == '\\' && echar x == some a.1 && x != 'u' && x != 'U'
  | _ => false

def tableOk : Bool :=
  Gen.ntEscapeArms.all armOk &&
  ['"', '\\', '\n', '\r'].all isCut &&
  Gen.ntCutChars.all (fun c => !(decide (c.toNat ≤ Gen.ntCutBound)) || (escArm c).isSome)

theorem tableOk_holds : tableOk = true := by decide

theorem mem_of_lookup {α β} [BEq α] [LawfulBEq α] (k : α) (v : β) (l : List (α × β))
    (h : l.lookup k = some v) : (k, v) ∈ l := by
  induction l with
  | nil => simp at h
  | cons a l ih =>
    obtain ⟨k', v'⟩ := a
    rw [List.lookup_cons] at h
    by_cases e : k == k'
    · simp only [e] at h
      have : k = k' := by simpa using e
      subst this
      simp only [Option.some.injEq] at h
      subst h
      simp
    · simp only [e] at h
      exact List.mem_cons_of_mem _ (ih h)

theorem quotedString_cons (c : Char) (s : Str) : quotedString (c :: s) = escChar c ++ quotedString s := by
  simp [quotedString]

/-- every cut byte has an arm -/
theorem escArm_isSome (c : Char) (h : isCut c = true) : (escArm c).isSome = true := by
  have t := tableOk_holds
  simp only [tableOk, Bool.and_eq_true, List.all_eq_true] at t
  simp only [isCut, Bool.and_eq_true, decide_eq_true_eq, List.contains_iff_mem] at h
  have := t.2 c h.2
  simpa [h.1] using this

theorem escArm_of_cut (c : Char) (h : isCut c = true) : escArm c = some (escChar c) := by
  have := escArm_isSome c h
  cases e : escArm c with
  | none => rw [e] at this; cases this
  | some v => simp [escChar, h, e]

/-- what one character is turned into: itself (and then it is none of the four characters the
grammar forbids), or a backslash and an ECHAR code that decodes to it -/
theorem escChar_cases (c : Char) :
    (c ≠ '\n' ∧ c ≠ '\r' ∧ c ≠ '\\' ∧ c ≠ '"' ∧ escChar c = [c]) ∨
    (∃ x, escChar c = ['\\', x] ∧ echar x = some c ∧ x ≠ 'u' ∧ x ≠ 'U') := by
  have t := tableOk_holds
  simp only [tableOk, Bool.and_eq_true, List.all_eq_true] at t
  by_cases hc : isCut c = true
  · right
    have e := escArm_of_cut c hc
    have hm := mem_of_lookup c (escChar c) Gen.ntEscapeArms e
    have ha := t.1.1 _ hm
    simp only [armOk] at ha
    split at ha
    · next b x hx =>
      simp only [Bool.and_eq_true, beq_iff_eq, bne_iff_ne, ne_eq] at ha
      obtain ⟨⟨⟨hb, he⟩, hu⟩, hU⟩ := ha
      subst hb
      exact ⟨x, hx, he, hu, hU⟩
    · cases ha
  · left
    have hc' : isCut c = false := by simpa using hc
    have hne : ∀ d ∈ ['"', '\\', '\n', '\r'], c ≠ d := by
      intro d hd e; subst e; rw [t.1.2 c hd] at hc'; cases hc'
    exact ⟨hne _ (by simp), hne _ (by simp), hne _ (by simp), hne _ (by simp), by simp [escChar, hc']⟩

/-! ### STRING_LITERAL_QUOTE -/

theorem readStrBody_quote (r : Str) : readStrBody ('"' :: r) = some ([], r) := by
  rw [readStrBody.eq_def]; simp

theorem readStrBody_plain (c : Char) (r : Str) (h1 : c ≠ '\n') (h2 : c ≠ '\r') (h3 : c ≠ '\\') (h4 : c ≠ '"') :
    readStrBody (c :: r) = pushFst c (readStrBody r) := by
  rw [readStrBody.eq_def]; simp [h1, h2, h3, h4]

theorem readStrBody_echar (x c : Char) (r : Str) (hx : echar x = some c) (hu : x ≠ 'u') (hU : x ≠ 'U') :
    readStrBody ('\\' :: x :: r) = pushFst c (readStrBody r) := by
  rw [readStrBody.eq_def]
  simp only [show ('\\' : Char) ≠ '"' by decide, if_false, if_true]
  split
  · next e => simp only [List.cons.injEq] at e; exact absurd e.1 hu
  · next e => simp only [List.cons.injEq] at e; exact absurd e.1 hU
  · next e' r' _ _ e => simp only [List.cons.injEq] at e; obtain ⟨rfl, rfl⟩ := e; simp [hx]
  · next e => simp at e

theorem read_quoted (s r : Str) : readStrBody (quotedString s ++ '"' :: r) = some (s, r) := by
  induction s with
  | nil => simp [quotedString, readStrBody_quote]
  | cons c s ih =>
    rw [quotedString_cons]
    rcases escChar_cases c with ⟨h1, h2, h3, h4, e⟩ | ⟨x, e, hx, hu, hU⟩
    · rw [e]; simp [readStrBody_plain c _ h1 h2 h3 h4, ih, pushFst]
    · rw [e]; simp [readStrBody_echar x c _ hx hu hU, ih, pushFst]

/-! ### IRIREF -/

theorem readIriBody_close (r : Str) : readIriBody ('>' :: r) = some ([], r) := by
  rw [readIriBody.eq_def]; simp

theorem readIriBody_plain (c : Char) (r : Str) (h : iriCharOk c = true) :
    readIriBody (c :: r) = pushFst c (readIriBody r) := by
  have h2 : c ≠ '>' := by intro e; subst e; exact absurd h (by decide)
  have h3 : c ≠ '\\' := by intro e; subst e; exact absurd h (by decide)
  rw [readIriBody.eq_def]; simp [h2, h3, h]

theorem read_iri (s r : Str) (h : iriOk s = true) : readIriBody (s ++ '>' :: r) = some (s, r) := by
  induction s with
  | nil => simp [readIriBody_close]
  | cons c s ih =>
    simp only [iriOk, List.all_cons, Bool.and_eq_true] at h
    have ih' := ih (by simpa [iriOk] using h.2)
    simp [readIriBody_plain c _ h.1, ih', pushFst]

/-! ### BLANK_NODE_LABEL -/

theorem stripDots_self (body : Str) (h : body.getLast? ≠ some '.') : stripDots body = body := by
  unfold stripDots
  cases hb : body.reverse with
  | nil =>
    have : body = [] := by simpa using hb
    simp [this]
  | cons x xs =>
    have hl : body.getLast? = some x := by
      rw [List.getLast?_eq_head?_reverse, hb]; rfl
    have hx : x ≠ '.' := by intro e; apply h; rw [hl, e]
    have : body = (x :: xs).reverse := by rw [← hb, List.reverse_reverse]
    simp [List.dropWhile_cons, hx, this]

theorem stripDots_dot (body : Str) (h : body.getLast? ≠ some '.') : stripDots (body ++ ['.']) = body := by
  have := stripDots_self body h
  unfold stripDots at *
  simp [List.dropWhile_cons, this]

theorem isLabelCh_sp : isLabelCh ' ' = false := by decide
theorem isLabelCh_gt : isLabelCh '>' = false := by decide

/-- the label run stops where the delimiter starts (keeping at most the final dot) -/
theorem delim_label (r : Str) (h : delim0 r = true) :
    (r.takeWhile isLabelCh = [] ∧ r.dropWhile isLabelCh = r) ∨
    (r.takeWhile isLabelCh = ['.'] ∧ '.' :: r.dropWhile isLabelCh = r) := by
  cases r with
  | nil => simp
  | cons c t =>
    simp only [delim0, Bool.or_eq_true, decide_eq_true_eq, Bool.and_eq_true] at h
    rcases h with (h | h) | ⟨h, h2⟩
    · subst h; left; simp [List.takeWhile_cons, List.dropWhile_cons, isLabelCh_sp]
    · subst h; left; simp [List.takeWhile_cons, List.dropWhile_cons, isLabelCh_gt]
    · subst h; right
      have hd : isLabelCh '.' = true := by decide
      cases t with
      | nil => simp [List.takeWhile_cons, List.dropWhile_cons, hd]
      | cons d t' =>
        have hd' : isLabelCh d = false := by simpa using h2
        simp [List.takeWhile_cons, List.dropWhile_cons, hd, hd']

theorem read_label (l r : Str) (hl : labelOk l = true) (hr : delim0 r = true) :
    readLabel (l ++ r) = some (l, r) := by
  cases l with
  | nil => simp [labelOk] at hl
  | cons c body =>
    simp only [labelOk, Bool.and_eq_true, List.all_eq_true, bne_iff_ne, ne_eq] at hl
    obtain ⟨⟨hc, hall⟩, hlast⟩ := hl
    simp only [List.cons_append, readLabel, hc, if_true]
    rw [takeWhile_app _ _ _ hall, dropWhile_app _ _ _ hall]
    rcases delim_label r hr with ⟨h1, h2⟩ | ⟨h1, h2⟩
    · rw [h1, h2, List.append_nil, stripDots_self _ hlast]
      simp
    · rw [h1, stripDots_dot _ hlast, drop_len_app]
      simp [h2]

/-! ### LANGTAG -/

theorem splitDash_ne_nil (s : Str) : splitDash s ≠ [] := by
  induction s with
  | nil => simp [splitDash]
  | cons c s ih =>
    simp only [splitDash]
    split
    · simp
    · split <;> simp

theorem joinDash_cons_cons (a : Str) (l : List Str) (h : l ≠ []) : joinDash (a :: l) = a ++ '-' :: joinDash l := by
  cases l with
  | nil => exact absurd rfl h
  | cons b t => rfl

theorem joinDash_push (c : Char) (h : Str) (t : List Str) : joinDash ((c :: h) :: t) = c :: joinDash (h :: t) := by
  cases t with
  | nil => rfl
  | cons b t => rfl

theorem join_split (s : Str) : joinDash (splitDash s) = s := by
  induction s with
  | nil => rfl
  | cons c s ih =>
    simp only [splitDash]
    split
    · next h => subst h; rw [joinDash_cons_cons _ _ (splitDash_ne_nil s), ih]; rfl
    · split
      · next h t e => rw [joinDash_push, ← e, ih]
      · next e => exact absurd e (splitDash_ne_nil s)

theorem mem_splitDash (s : Str) (c : Char) (hc : c ∈ s) : c = '-' ∨ ∃ p ∈ splitDash s, c ∈ p := by
  induction s with
  | nil => cases hc
  | cons d s ih =>
    simp only [splitDash]
    rcases List.mem_cons.1 hc with rfl | hc'
    · by_cases h : c = '-'
      · exact .inl h
      · right
        simp only [h, if_false]
        split
        · next hh tt _ => exact ⟨c :: hh, by simp, by simp⟩
        · exact ⟨[c], by simp, by simp⟩
    · rcases ih hc' with h | ⟨p, hp, hcp⟩
      · exact .inl h
      · right
        split
        · exact ⟨p, by simp [hp], hcp⟩
        · split
          · next h t e =>
            rw [e] at hp
            rcases List.mem_cons.1 hp with rfl | hp'
            · exact ⟨d :: p, by simp, by simp [hcp]⟩
            · exact ⟨p, by simp [hp'], hcp⟩
          · next e => exact absurd e (splitDash_ne_nil s)

theorem isAlpha_isAlnum (c : Char) (h : isAlpha c = true) : isAlnum c = true := by
  simp only [isAlpha, isAlnum, alnumR, Re.inCls, List.any_append, Bool.or_eq_true] at *
  exact .inr h
theorem isAlnum_isTagCh (c : Char) (h : isAlnum c = true) : isTagCh c = true := by simp [isTagCh, h]

theorem tagOk_chars (t : Str) (h : tagOk t = true) : ∀ c ∈ t, isTagCh c = true := by
  intro c hc
  unfold tagOk at h
  rcases mem_splitDash t c hc with rfl | ⟨p, hp, hcp⟩
  · decide
  · cases hs : splitDash t with
    | nil => exact absurd hs (splitDash_ne_nil t)
    | cons a subs =>
      rw [hs] at h hp
      simp only [Bool.and_eq_true, List.all_eq_true] at h
      rcases List.mem_cons.1 hp with rfl | hp'
      · exact isAlnum_isTagCh _ (isAlpha_isAlnum _ (h.1.2 c hcp))
      · have := h.2 p hp'
        simp only [subtagOk, Bool.and_eq_true, List.all_eq_true] at this
        exact isAlnum_isTagCh _ (this.2 c hcp)

/-- the tag run stops where the delimiter starts -/
theorem delim_tag (r : Str) (h : delim0 r = true) : r.takeWhile isTagCh = [] ∧ r.dropWhile isTagCh = r := by
  cases r with
  | nil => simp
  | cons c t =>
    simp only [delim0, Bool.or_eq_true, decide_eq_true_eq, Bool.and_eq_true] at h
    have hc : isTagCh c = false := by
      rcases h with (h | h) | ⟨h, _⟩ <;> subst h <;> decide
    simp [List.takeWhile_cons, List.dropWhile_cons, hc]

theorem read_langtag (t r : Str) (ht : tagOk t = true) (hr : delim0 r = true) :
    readLangtag (t ++ r) = some (t, r) := by
  have hch := tagOk_chars t ht
  obtain ⟨h1, h2⟩ := delim_tag r hr
  unfold readLangtag
  simp only [takeWhile_app _ _ _ hch, dropWhile_app _ _ _ hch, h1, h2, List.append_nil]
  unfold tagOk at ht
  cases hs : splitDash t with
  | nil => exact absurd hs (splitDash_ne_nil t)
  | cons a subs =>
    rw [hs] at ht
    simp only [Bool.and_eq_true, List.all_eq_true, Bool.not_eq_true', List.isEmpty_eq_false_iff] at ht
    obtain ⟨⟨ha, haa⟩, hsubs⟩ := ht
    have e1 : a.takeWhile isAlpha = a := takeWhile_all _ _ haa
    have e2 : subs.takeWhile subtagOk = subs := takeWhile_all _ _ hsubs
    have e3 : joinDash (a :: subs) = t := by rw [← hs, join_split]
    have e4 : a.isEmpty = false := by cases a with | nil => exact absurd rfl ha | cons _ _ => rfl
    simp [e1, e2, e3, e4]

/-! ### terms -/

theorem skipWs_nonws (c : Char) (r : Str) (h : isWs c = false) : skipWs (c :: r) = c :: r := by
  simp [skipWs, List.dropWhile_cons, h]

theorem skipWs_sp (r : Str) : skipWs (' ' :: r) = skipWs r := by
  simp [skipWs, List.dropWhile_cons, isWs]

def depth : Term → Nat
  | .triple s p o => 1 + max (depth s) (max (depth p) (depth o))
  | _ => 0

/-- first character of a written term -/
theorem writeTerm_head (t : Term) : ∃ c rest, writeTerm t = c :: rest ∧ (c = '<' ∨ c = '_' ∨ c = '"' ∨ c = '?') := by
  cases t <;> simp [writeTerm]

theorem head_nonws (c : Char) (h : c = '<' ∨ c = '_' ∨ c = '"' ∨ c = '?') : isWs c = false := by
  rcases h with h | h | h | h <;> subst h <;> decide

theorem skipWs_writeTerm (t : Term) (r : Str) : skipWs (writeTerm t ++ r) = writeTerm t ++ r := by
  obtain ⟨c, rest, e, hc⟩ := writeTerm_head t
  rw [e, List.cons_append, skipWs_nonws _ _ (head_nonws c hc)]

theorem delim_delim0 {r : Str} (h : delim r = true) : delim0 r = true := by
  simp only [delim, Bool.and_eq_true] at h; exact h.1

theorem readLiteral_plain (lex r : Str) (hr : delim r = true) :
    readLiteral (quotedString lex ++ '"' :: r) = some (.lit lex xsdString, r) := by
  simp only [readLiteral, read_quoted, Option.bind_some, readAnnot]
  simp only [delim, noAnnot, Bool.and_eq_true] at hr
  have h2 := hr.2
  cases hs : skipWs r with
  | nil => simp
  | cons c t =>
    rw [hs] at h2
    simp only [Bool.and_eq_true, bne_iff_ne, ne_eq] at h2
    simp [h2.1, h2.2]

theorem readLiteral_lang (lex tag r : Str) (ht : tagOk tag = true) (hr : delim r = true) :
    readLiteral (quotedString lex ++ '"' :: '@' :: (tag ++ r)) = some (.lang lex tag, r) := by
  simp [readLiteral, read_quoted, readAnnot, skipWs_nonws '@' _ (by decide),
    read_langtag tag r ht (delim_delim0 hr)]

theorem readLiteral_typed (lex dt r : Str) (hd : iriOk dt = true) :
    readLiteral (quotedString lex ++ '"' :: '^' :: '^' :: '<' :: (dt ++ '>' :: r)) = some (.lit lex dt, r) := by
  simp [readLiteral, read_quoted, readAnnot, skipWs_nonws '^' _ (by decide), skipWs_nonws '<' _ (by decide),
    read_iri dt r hd]

theorem readTerm_triple (n : Nat) (r : Str) :
    readTerm (n + 1) ('<' :: '<' :: r) =
      (readTerm n (skipWs r)).bind fun x1 =>
      (readTerm n (skipWs x1.2)).bind fun x2 =>
      (readTerm n (skipWs x2.2)).bind fun x3 =>
      closeQuoted x1.1 x2.1 x3.1 (skipWs x3.2) := by
  simp [readTerm]

theorem readTerm_iri (n : Nat) (r : Str) (h : r.head? ≠ some '<') :
    readTerm (n + 1) ('<' :: r) = (readIriBody r).map fun x => (.iri x.1, x.2) := by
  simp [readTerm, h]

theorem readTerm_bnode (n : Nat) (r : Str) :
    readTerm (n + 1) ('_' :: ':' :: r) = (readLabel r).map fun x => (.bnode x.1, x.2) := by
  simp [readTerm]

theorem readTerm_lit (n : Nat) (r : Str) : readTerm (n + 1) ('"' :: r) = readLiteral r := by
  simp [readTerm]

theorem iriOk_head (s r : Str) (h : iriOk s = true) : (s ++ '>' :: r).head? ≠ some '<' := by
  cases s with
  | nil => simp
  | cons c s =>
    simp only [iriOk, List.all_cons, Bool.and_eq_true] at h
    have : c ≠ '<' := by
      intro e; subst e; exact absurd h.1 (by decide)
    simpa using this

theorem delim_sp (r : Str) (h : ∃ c rest, r = c :: rest ∧ (c = '<' ∨ c = '_' ∨ c = '"' ∨ c = '?')) :
    delim (' ' :: r) = true := by
  obtain ⟨c, rest, rfl, hc⟩ := h
  simp only [delim, delim0, noAnnot, skipWs_sp, skipWs_nonws _ _ (head_nonws c hc), Bool.and_eq_true]
  refine ⟨by simp, ?_⟩
  rcases hc with h | h | h | h <;> subst h <;> decide

theorem delim_gt (r : Str) : delim ('>' :: r) = true := by
  simp [delim, delim0, noAnnot, skipWs_nonws '>' _ (by decide)]

theorem read_write_term (t : Term) (ht : termOk t = true) :
    ∀ (n : Nat) (r : Str), depth t < n → delim r = true → readTerm n (writeTerm t ++ r) = some (t, r) := by
  induction t with
  | iri s =>
    intro n r hn hr
    obtain ⟨m, rfl⟩ : ∃ m, n = m + 1 := ⟨n - 1, by omega⟩
    simp only [termOk] at ht
    simp only [writeTerm, List.cons_append, List.append_assoc, List.nil_append]
    rw [readTerm_iri _ _ (iriOk_head s r ht), read_iri s r ht]; rfl
  | bnode l =>
    intro n r hn hr
    obtain ⟨m, rfl⟩ : ∃ m, n = m + 1 := ⟨n - 1, by omega⟩
    simp only [termOk] at ht
    simp only [writeTerm, List.cons_append]
    rw [readTerm_bnode, read_label l r ht (delim_delim0 hr)]; rfl
  | var v => simp [termOk] at ht
  | lit lex dt =>
    intro n r hn hr
    obtain ⟨m, rfl⟩ : ∃ m, n = m + 1 := ⟨n - 1, by omega⟩
    simp only [termOk] at ht
    simp only [writeTerm, List.cons_append, List.append_assoc]
    rw [readTerm_lit]
    by_cases hx : xsdString = dt
    · subst hx
      simp only [ne_eq, not_true_eq_false, if_false, List.cons_append, List.nil_append]
      exact readLiteral_plain lex r hr
    · simp only [ne_eq, hx, not_false_eq_true, if_true, List.cons_append, List.append_assoc, List.nil_append]
      exact readLiteral_typed lex dt r ht
  | lang lex tag =>
    intro n r hn hr
    obtain ⟨m, rfl⟩ : ∃ m, n = m + 1 := ⟨n - 1, by omega⟩
    simp only [termOk] at ht
    simp only [writeTerm, List.cons_append, List.append_assoc]
    rw [readTerm_lit]
    exact readLiteral_lang lex tag r ht hr
  | triple s p o ihs ihp iho =>
    intro n r hn hr
    obtain ⟨m, rfl⟩ : ∃ m, n = m + 1 := ⟨n - 1, by omega⟩
    simp only [termOk, Bool.and_eq_true] at ht
    obtain ⟨⟨hs, hp⟩, ho⟩ := ht
    simp only [depth] at hn
    simp only [writeTerm, List.cons_append, List.append_assoc, List.nil_append]
    rw [readTerm_triple, skipWs_writeTerm]
    rw [ihs hs m _ (by omega) (delim_sp _ (by
      obtain ⟨c, rest, e, hc⟩ := writeTerm_head p
      exact ⟨c, rest ++ _, by rw [e]; rfl, hc⟩))]
    simp only [Option.bind_some, skipWs_sp, skipWs_writeTerm]
    rw [ihp hp m _ (by omega) (delim_sp _ (by
      obtain ⟨c, rest, e, hc⟩ := writeTerm_head o
      exact ⟨c, rest ++ _, by rw [e]; rfl, hc⟩))]
    simp only [Option.bind_some, skipWs_sp, skipWs_writeTerm]
    rw [iho ho m _ (by omega) (delim_gt _)]
    simp [skipWs_nonws '>' _ (by decide), closeQuoted]

/-! ### no CR / LF inside a written statement -/

def noEol (l : Str) : Bool := l.all (fun c => !isEol c)

theorem noEol_append (a b : Str) : noEol (a ++ b) = (noEol a && noEol b) := by simp [noEol]
theorem noEol_cons (c : Char) (a : Str) : noEol (c :: a) = (!isEol c && noEol a) := by simp [noEol]
theorem noEol_nil : noEol [] = true := rfl

theorem noEol_of {p : Char → Bool} (hp : ∀ c, p c = true → isEol c = false) (l : Str)
    (h : l.all p = true) : noEol l = true := by
  simp only [noEol, List.all_eq_true, Bool.not_eq_true'] at *
  exact fun c hc => hp c (h c hc)

theorem eol_cases (c : Char) (h : isEol c = true) : c = '\n' ∨ c = '\r' := by
  simpa [isEol] using h

theorem iriCharOk_noEol (c : Char) (h : iriCharOk c = true) : isEol c = false := by
  rw [Bool.eq_false_iff]; intro e
  rcases eol_cases c e with rfl | rfl <;> exact absurd h (by decide)

theorem isLabelCh_noEol (c : Char) (h : isLabelCh c = true) : isEol c = false := by
  rw [Bool.eq_false_iff]; intro e
  rcases eol_cases c e with rfl | rfl <;> exact absurd h (by decide)

theorem isLabelFirst_noEol (c : Char) (h : isLabelFirst c = true) : isEol c = false := by
  rw [Bool.eq_false_iff]; intro e
  rcases eol_cases c e with rfl | rfl <;> exact absurd h (by decide)

theorem isTagCh_noEol (c : Char) (h : isTagCh c = true) : isEol c = false := by
  rw [Bool.eq_false_iff]; intro e
  rcases eol_cases c e with rfl | rfl <;> exact absurd h (by decide)

theorem echar_noEol (x c : Char) (h : echar x = some c) : isEol x = false := by
  rw [Bool.eq_false_iff]; intro e
  have h' : (echar x).isSome = true := by rw [h]; rfl
  rcases eol_cases x e with rfl | rfl <;> exact absurd h' (by decide)

theorem noEol_escChar (c : Char) : noEol (escChar c) = true := by
  rcases escChar_cases c with ⟨h1, h2, _, _, e⟩ | ⟨x, e, hx, _, _⟩
  · rw [e]; simp [noEol, isEol, h1, h2]
  · rw [e]; simp [noEol, echar_noEol x c hx]; decide

/-- `quoted_string` never lets a raw CR or LF through -/
theorem noEol_quoted (s : Str) : noEol (quotedString s) = true := by
  induction s with
  | nil => rfl
  | cons c s ih => rw [quotedString_cons, noEol_append, noEol_escChar, ih]; rfl

theorem noEol_iri (s : Str) (h : iriOk s = true) : noEol s = true := noEol_of iriCharOk_noEol s h

theorem noEol_label (l : Str) (h : labelOk l = true) : noEol l = true := by
  cases l with
  | nil => rfl
  | cons c body =>
    simp only [labelOk, Bool.and_eq_true] at h
    rw [noEol_cons, isLabelFirst_noEol c h.1.1, noEol_of isLabelCh_noEol body h.1.2]; rfl

theorem noEol_tag (t : Str) (h : tagOk t = true) : noEol t = true :=
  noEol_of isTagCh_noEol t (by simpa [List.all_eq_true] using tagOk_chars t h)

theorem noEol_writeTerm (t : Term) (ht : termOk t = true) : noEol (writeTerm t) = true := by
  induction t with
  | iri s =>
    simp only [termOk] at ht
    simp [writeTerm, noEol_cons, noEol_append, noEol_iri s ht, isEol, noEol_nil]
  | bnode l =>
    simp only [termOk] at ht
    simp [writeTerm, noEol_cons, noEol_label l ht, isEol]
  | var v => simp [termOk] at ht
  | lit lex dt =>
    simp only [termOk] at ht
    simp only [writeTerm]
    split <;> simp [noEol_cons, noEol_append, noEol_quoted, noEol_iri dt ht, isEol, noEol_nil]
  | lang lex tag =>
    simp only [termOk] at ht
    simp [writeTerm, noEol_cons, noEol_append, noEol_quoted, noEol_tag tag ht, isEol]
  | triple s p o ihs ihp iho =>
    simp only [termOk, Bool.and_eq_true] at ht
    simp [writeTerm, noEol_cons, noEol_append, ihs ht.1.1, ihp ht.1.2, iho ht.2, isEol, noEol_nil]

/-- a written quad is `body ++ ".\n"` -/
def quadBody (q : Quad) : Str :=
  writeTriple q.s q.p q.o ++ (match q.g with | none => [] | some t => ' ' :: writeTerm t)

theorem writeQuad_eq (q : Quad) : writeQuad q = quadBody q ++ ['.', '\n'] := by
  unfold writeQuad quadBody
  cases q.g <;> simp

theorem noEol_quadBody (q : Quad) (h : quadOk q = true) : noEol (quadBody q) = true := by
  simp only [quadOk, Bool.and_eq_true] at h
  obtain ⟨⟨⟨⟨hs, hp⟩, ho⟩, hg⟩, _⟩ := h
  unfold quadBody writeTriple
  cases hq : q.g with
  | none =>
    simp [noEol_append, noEol_cons, noEol_writeTerm _ hs, noEol_writeTerm _ hp, noEol_writeTerm _ ho, isEol, noEol_nil]
  | some g =>
    rw [hq] at hg
    simp [noEol_append, noEol_cons, noEol_writeTerm _ hs, noEol_writeTerm _ hp, noEol_writeTerm _ ho,
      noEol_writeTerm _ hg, isEol]

/-! ### statements and documents -/

theorem depth_lt (t : Term) : depth t < (writeTerm t).length := by
  induction t with
  | triple s p o ihs ihp iho =>
    simp only [depth, writeTerm, List.length_cons, List.length_append, List.length_nil]
    omega
  | iri s => simp [depth, writeTerm]
  | bnode s => simp [depth, writeTerm]
  | var s => simp [depth, writeTerm]
  | lit l d => simp [depth, writeTerm]
  | lang l d => simp [depth, writeTerm]

theorem delim_dot_end : delim ['.'] = true := by decide

theorem headOk_ne_hash (c : Char) (h : c = '<' ∨ c = '_' ∨ c = '"' ∨ c = '?') : c ≠ '#' ∧ c ≠ '.' := by
  rcases h with h | h | h | h <;> subst h <;> decide

theorem lineEndOk_nil : lineEndOk [] = true := by decide

def graphTail (g : Option Term) : Str :=
  match g with
  | none => ['.']
  | some t => ' ' :: (writeTerm t ++ ['.'])

/-- the line written for a well-formed quad (without its `\n`) reads back as that quad -/
theorem read_line (nq : Bool) (s p o : Term) (g : Option Term)
    (hs : termOk s = true) (hp : termOk p = true) (ho : termOk o = true)
    (hg : ∀ t, g = some t → termOk t = true ∧ nq = true)
    (hstrict : strictQuad ⟨s, p, o, g⟩ = true) (T L : Str)
    (hT : graphTail g = T)
    (hL : writeTerm s ++ ' ' :: (writeTerm p ++ ' ' :: (writeTerm o ++ T)) = L) :
    readLine nq L = some (some ⟨s, p, o, g⟩) := by
  have hsk : skipWs L = L := by rw [← hL]; exact skipWs_writeTerm s _
  obtain ⟨cp, restp, ep, hcp⟩ := writeTerm_head p
  obtain ⟨co, resto, eo, hco⟩ := writeTerm_head o
  have hne : ¬ (L.isEmpty = true ∨ L.head? = some '#') := by
    obtain ⟨c, rest, e, hc⟩ := writeTerm_head s
    rw [← hL, e]
    simp [(headOk_ne_hash c hc).1]
  have hlen : (writeTerm s).length + (writeTerm p).length + (writeTerm o).length + T.length < L.length := by
    rw [← hL]; simp only [List.length_append, List.length_cons]; omega
  have hds := depth_lt s
  have hdp := depth_lt p
  have hdo := depth_lt o
  have h1 : readTerm L.length L = some (s, ' ' :: (writeTerm p ++ ' ' :: (writeTerm o ++ T))) := by
    conv => lhs; arg 2; rw [← hL]
    exact read_write_term s hs _ _ (by omega) (delim_sp _ ⟨cp, restp ++ _, by rw [ep]; rfl, hcp⟩)
  have h2 : readTerm L.length (writeTerm p ++ ' ' :: (writeTerm o ++ T)) = some (p, ' ' :: (writeTerm o ++ T)) :=
    read_write_term p hp _ _ (by omega) (delim_sp _ ⟨co, resto ++ _, by rw [eo]; rfl, hco⟩)
  simp only [readLine, hsk, if_neg hne, h1, Option.bind_some, skipWs_sp, skipWs_writeTerm, h2]
  cases g with
  | none =>
    simp only [graphTail] at hT
    subst hT
    have h3 : readTerm L.length (writeTerm o ++ ['.']) = some (o, ['.']) :=
      read_write_term o ho _ _ (by omega) delim_dot_end
    simp [h3, skipWs_nonws '.' _ (by decide), finish, lineEndOk_nil, hstrict]
  | some t =>
    obtain ⟨htok, hnq⟩ := hg t rfl
    simp only [graphTail] at hT
    subst hT
    obtain ⟨ct, restt, et, hct⟩ := writeTerm_head t
    have h3 : readTerm L.length (writeTerm o ++ ' ' :: (writeTerm t ++ ['.'])) = some (o, ' ' :: (writeTerm t ++ ['.'])) :=
      read_write_term o ho _ _ (by omega) (delim_sp _ ⟨ct, restt ++ _, by rw [et]; rfl, hct⟩)
    have hdt := depth_lt t
    have h4 : readTerm L.length (writeTerm t ++ ['.']) = some (t, ['.']) :=
      read_write_term t htok _ _ (by simp only [List.length_cons, List.length_append] at hlen; omega) delim_dot_end
    have hhd : (writeTerm t ++ ['.']).head? ≠ some '.' := by
      rw [et]; simp [(headOk_ne_hash ct hct).2]
    have hhd' : ¬ (writeTerm t).head?.getD '.' = '.' := by
      rw [et]; simp [(headOk_ne_hash ct hct).2]
    simp [h3, skipWs_sp, skipWs_writeTerm, hhd, hhd', hnq, h4, skipWs_nonws '.' _ (by decide), finish, lineEndOk_nil, hstrict]

theorem quadLine (q : Quad) :
    quadBody q ++ ['.'] = writeTerm q.s ++ ' ' :: (writeTerm q.p ++ ' ' :: (writeTerm q.o ++ graphTail q.g)) := by
  unfold quadBody writeTriple graphTail
  cases q.g <;> simp

theorem read_write_line (nq : Bool) (q : Quad) (hq : quadOk q = true) (hnq : q.g ≠ none → nq = true) :
    readLine nq (quadBody q ++ ['.']) = some (some q) := by
  have hq' := hq
  simp only [quadOk, Bool.and_eq_true] at hq'
  obtain ⟨⟨⟨⟨hs, hp⟩, ho⟩, hg⟩, hst⟩ := hq'
  have := read_line nq q.s q.p q.o q.g hs hp ho
    (fun t ht => ⟨by rw [ht] at hg; exact hg, hnq (by rw [ht]; simp)⟩) hst _ _ rfl (quadLine q).symm
  exact this

theorem writeDoc_cons (q : Quad) (d : List Quad) :
    writeDoc (q :: d) = (quadBody q ++ ['.']) ++ '\n' :: writeDoc d := by
  simp [writeDoc, writeQuad_eq]

theorem noEol_line (q : Quad) (hq : quadOk q = true) : ∀ c ∈ quadBody q ++ ['.'], (!isEol c) = true := by
  have h : noEol (quadBody q ++ ['.']) = true := by
    rw [noEol_append, noEol_quadBody q hq]; decide
  intro c hc
  simp only [noEol, List.all_eq_true] at h
  exact h c hc

theorem read_doc_aux (nq : Bool) (d : List Quad)
    (h : ∀ q ∈ d, quadOk q = true ∧ (q.g ≠ none → nq = true)) :
    ∀ fuel, (writeDoc d).length < fuel → readDocAux nq fuel (writeDoc d) = some d := by
  induction d with
  | nil =>
    intro fuel hf
    obtain ⟨f, rfl⟩ : ∃ f, fuel = f + 1 := ⟨fuel - 1, by omega⟩
    simp [writeDoc, readDocAux]
  | cons q d ih =>
    intro fuel hf
    obtain ⟨f, rfl⟩ : ∃ f, fuel = f + 1 := ⟨fuel - 1, by omega⟩
    obtain ⟨hq, hnq⟩ := h q (by simp)
    have ihd := ih (fun q' hq' => h q' (by simp [hq'])) f (by
      rw [writeDoc_cons] at hf; simp only [List.length_append, List.length_cons] at hf; omega)
    have hline := noEol_line q hq
    have hne : (writeDoc (q :: d)).isEmpty = false := by rw [writeDoc_cons]; simp
    have e1 : (writeDoc (q :: d)).takeWhile (fun c => !isEol c) = quadBody q ++ ['.'] := by
      rw [writeDoc_cons, takeWhile_app _ _ _ hline]; simp [List.takeWhile_cons, isEol]
    have e2 : ((writeDoc (q :: d)).dropWhile (fun c => !isEol c)).drop 1 = writeDoc d := by
      rw [writeDoc_cons, dropWhile_app _ _ _ hline]; simp [List.dropWhile_cons, isEol]
    simp only [readDocAux, hne, e1, e2, read_write_line nq q hq hnq, ihd]
    simp

/-! ### the source's control flow (`quotedStringRs`) computes `quotedString` -/

theorem quotedString_append (a b : Str) : quotedString (a ++ b) = quotedString a ++ quotedString b := by
  simp [quotedString]

theorem quotedString_noncut (a : Str) (h : ∀ c ∈ a, (!isCut c) = true) : quotedString a = a := by
  induction a with
  | nil => rfl
  | cons c a ih =>
    have hc : isCut c = false := by simpa using h c (by simp)
    rw [quotedString_cons, ih (fun x hx => h x (by simp [hx]))]
    simp [escChar, hc]

theorem dropWhile_head {α} (p : α → Bool) (l : List α) (c : α) (tl : List α) (h : l.dropWhile p = c :: tl) :
    p c = false := by
  induction l with
  | nil => simp at h
  | cons a l ih =>
    rw [List.dropWhile_cons] at h
    by_cases ha : p a = true
    · rw [if_pos ha] at h; exact ih h
    · rw [if_neg ha] at h
      simp only [List.cons.injEq] at h
      rw [← h.1]; simpa using ha

theorem mem_takeWhile {α} (p : α → Bool) (l : List α) (x : α) (h : x ∈ l.takeWhile p) : p x = true := by
  induction l with
  | nil => simp at h
  | cons a l ih =>
    rw [List.takeWhile_cons] at h
    by_cases ha : p a = true
    · rw [if_pos ha] at h
      rcases List.mem_cons.1 h with rfl | h'
      · exact ha
      · exact ih h'
    · rw [if_neg ha] at h; simp at h

theorem quotedLoop_eq : ∀ (fuel : Nat) (w txt : Str), txt.length < fuel →
    quotedLoop fuel w txt = some (w ++ quotedString txt) := by
  intro fuel
  induction fuel with
  | zero => intro w txt h; omega
  | succ f ih =>
    intro w txt hlen
    have hsplit := List.takeWhile_append_dropWhile (p := fun c => !isCut c) (l := txt)
    have hpre : quotedString (txt.takeWhile (fun c => !isCut c)) = txt.takeWhile (fun c => !isCut c) :=
      quotedString_noncut _ (fun c hc => mem_takeWhile _ _ c hc)
    unfold quotedLoop
    cases hd : txt.dropWhile (fun c => !isCut c) with
    | nil =>
      rw [hd, List.append_nil] at hsplit
      rw [hsplit] at hpre
      simp [hsplit, hpre]
    | cons c tl =>
      have hc : isCut c = true := by simpa using dropWhile_head _ _ _ _ hd
      rw [hd] at hsplit
      have hq : quotedString txt = txt.takeWhile (fun c => !isCut c) ++ escChar c ++ quotedString tl := by
        conv => lhs; rw [← hsplit]
        rw [quotedString_append, hpre, quotedString_cons, List.append_assoc]
      simp only [escArm_of_cut c hc, Option.map_some, List.length_cons, List.drop_succ_cons, List.drop_zero]
      by_cases htl : tl = []
      · subst htl
        rw [hq]; simp [quotedString]
      · have hl : tl.length < f := by
          have : txt.length = (txt.takeWhile (fun c => !isCut c)).length + (tl.length + 1) := by
            conv => lhs; rw [← hsplit]
            simp
          omega
        have hpos : ¬ (tl.length + 1 ≤ 1) := by
          cases tl with
          | nil => exact absurd rfl htl
          | cons _ _ => simp
        rw [if_neg hpos, ih _ tl hl, hq]
        simp [List.append_assoc]

end SophiaProofs.NTL
