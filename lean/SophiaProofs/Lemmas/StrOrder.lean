/-
Order laws of `Rdfc10.cmpStr` (code-point lexicographic order on `List Char`) and what they give
for `List.mergeSort`: the sort of a permutation is the same list.
-/
import SophiaProofs.Lemmas.Rdfc10

namespace SophiaProofs.Rdfc10L
open SophiaModel SophiaModel.Rdfc10

theorem cmpStr_swap : ∀ a b : Str, cmpStr b a = (cmpStr a b).swap
  | [], [] => rfl
  | [], _ :: _ => rfl
  | _ :: _, [] => rfl
  | a :: as, b :: bs => by
    unfold cmpStr
    by_cases h1 : a.toNat < b.toNat
    · have h2 : ¬ b.toNat < a.toNat := by omega
      simp [h1, h2]
    · by_cases h2 : b.toNat < a.toNat
      · simp [h1, h2]
      · simp [h1, h2, cmpStr_swap as bs]

theorem cmpStr_lt_trans : ∀ a b c : Str, cmpStr a b = .lt → cmpStr b c = .lt → cmpStr a c = .lt
  | [], [], _, h, _ => by simp [cmpStr] at h
  | [], _ :: _, [], _, h => by simp [cmpStr] at h
  | [], _ :: _, _ :: _, _, _ => rfl
  | _ :: _, [], _, h, _ => by simp [cmpStr] at h
  | _ :: _, _ :: _, [], _, h => by simp [cmpStr] at h
  | a :: as, b :: bs, c :: cs, h1, h2 => by
    unfold cmpStr at h1 h2 ⊢
    by_cases ab : a.toNat < b.toNat
    · by_cases bc : b.toNat < c.toNat
      · have : a.toNat < c.toNat := by omega
        simp [this]
      · by_cases cb : c.toNat < b.toNat
        · simp [bc, cb] at h2
        · have : a.toNat < c.toNat := by omega
          simp [this]
    · by_cases ba : b.toNat < a.toNat
      · simp [ab, ba] at h1
      · simp only [ab, ba, if_false] at h1
        by_cases bc : b.toNat < c.toNat
        · have : a.toNat < c.toNat := by omega
          simp [this]
        · by_cases cb : c.toNat < b.toNat
          · simp [bc, cb] at h2
          · simp only [bc, cb, if_false] at h2
            have e1 : ¬ a.toNat < c.toNat := by omega
            have e2 : ¬ c.toNat < a.toNat := by omega
            simp only [e1, e2, if_false]
            exact cmpStr_lt_trans as bs cs h1 h2

theorem cmpStr_gt_iff {a b : Str} : cmpStr a b = .gt ↔ cmpStr b a = .lt := by
  rw [cmpStr_swap a b]
  cases cmpStr a b <;> simp [Ordering.swap]

theorem strLe_total (a b : Str) : (strLe a b || strLe b a) = true := by
  unfold strLe
  rw [cmpStr_swap a b]
  cases cmpStr a b <;> simp [Ordering.swap]

theorem strLe_antisymm {a b : Str} (h1 : strLe a b = true) (h2 : strLe b a = true) : a = b := by
  unfold strLe at h1 h2
  rw [cmpStr_swap a b] at h2
  cases h : cmpStr a b with
  | eq => exact cmpStr_eq_iff.mp h
  | lt => rw [h] at h2; simp [Ordering.swap] at h2
  | gt => rw [h] at h1; simp at h1

theorem strLe_trans {a b c : Str} (h1 : strLe a b = true) (h2 : strLe b c = true) : strLe a c = true := by
  unfold strLe at h1 h2 ⊢
  cases hab : cmpStr a b with
  | gt => rw [hab] at h1; simp at h1
  | eq =>
    have := cmpStr_eq_iff.mp hab
    subst this
    exact h2
  | lt =>
    cases hbc : cmpStr b c with
    | gt => rw [hbc] at h2; simp at h2
    | eq =>
      have := cmpStr_eq_iff.mp hbc
      subst this
      rw [hab]; rfl
    | lt => rw [cmpStr_lt_trans a b c hab hbc]; rfl

/-- `sort_unstable` of strings depends only on the multiset -/
theorem sortStrs_perm {l₁ l₂ : List Str} (h : l₁.Perm l₂) : sortStrs l₁ = sortStrs l₂ := by
  unfold sortStrs
  apply List.Perm.eq_of_pairwise (le := fun a b => strLe a b = true)
  · intro a b _ _ hab hba; exact strLe_antisymm hab hba
  · exact List.pairwise_mergeSort (le := strLe) (fun a b c => strLe_trans) strLe_total l₁
  · exact List.pairwise_mergeSort (le := strLe) (fun a b c => strLe_trans) strLe_total l₂
  · exact (List.mergeSort_perm l₁ _).trans (h.trans (List.mergeSort_perm l₂ _).symm)

end SophiaProofs.Rdfc10L
