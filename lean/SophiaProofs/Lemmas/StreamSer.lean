import SophiaModel.Model.StreamSer
namespace SophiaProofs.Lemmas.StreamSer
open SophiaModel StreamSer

mutual
/-- RDF-star subject: an IRI, a blank node, or a quoted triple -/
inductive SubjOk : Term → Prop
  | iri (i : Str) : SubjOk (.iri i)
  | bnode (b : Str) : SubjOk (.bnode b)
  | triple {s o : Term} (p : Str) : SubjOk s → ObjOk o → SubjOk (.triple s (.iri p) o)
/-- RDF-star object: an IRI, a blank node, a literal, or a quoted triple -/
inductive ObjOk : Term → Prop
  | iri (i : Str) : ObjOk (.iri i)
  | bnode (b : Str) : ObjOk (.bnode b)
  | lit (l d : Str) : ObjOk (.lit l d)
  | lang (l t : Str) : ObjOk (.lang l t)
  | triple {s o : Term} (p : Str) : SubjOk s → ObjOk o → ObjOk (.triple s (.iri p) o)
end

theorem isIri_iff (t : Term) : isIri t = true ↔ ∃ i, t = .iri i := by
  cases t <;> simp [isIri]

mutual
theorem subj_of_rio : ∀ t : Term, rioSubject t = true → SubjOk t
  | .iri i, _ => .iri i
  | .bnode b, _ => .bnode b
  | .triple s p o, h => by
    simp only [rioSubject, Bool.and_eq_true] at h
    obtain ⟨i, rfl⟩ := (isIri_iff p).mp h.1.2
    exact .triple i (subj_of_rio s h.1.1) (obj_of_rio o h.2)
  | .lit _ _, h => by simp [rioSubject] at h
  | .lang _ _, h => by simp [rioSubject] at h
  | .var _, h => by simp [rioSubject] at h
theorem obj_of_rio : ∀ t : Term, rioObject t = true → ObjOk t
  | .iri i, _ => .iri i
  | .bnode b, _ => .bnode b
  | .lit l d, _ => .lit l d
  | .lang l t, _ => .lang l t
  | .triple s p o, h => by
    simp only [rioObject, Bool.and_eq_true] at h
    obtain ⟨i, rfl⟩ := (isIri_iff p).mp h.1.2
    exact .triple i (subj_of_rio s h.1.1) (obj_of_rio o h.2)
  | .var _, h => by simp [rioObject] at h
end

mutual
theorem rio_of_subj : ∀ {t : Term}, SubjOk t → rioSubject t = true
  | _, .iri _ => by simp [rioSubject]
  | _, .bnode _ => by simp [rioSubject]
  | _, .triple p hs ho => by simp [rioSubject, isIri, rio_of_subj hs, rio_of_obj ho]
theorem rio_of_obj : ∀ {t : Term}, ObjOk t → rioObject t = true
  | _, .iri _ => by simp [rioObject]
  | _, .bnode _ => by simp [rioObject]
  | _, .lit _ _ => by simp [rioObject]
  | _, .lang _ _ => by simp [rioObject]
  | _, .triple p hs ho => by simp [rioObject, isIri, rio_of_subj hs, rio_of_obj ho]
end

/-- a strict RDF-star statement: what the Turtle / TriG formats can express -/
def StrictQuad (q : Quad) : Prop :=
  SubjOk q.s ∧ (∃ i, q.p = .iri i) ∧ ObjOk q.o ∧ (q.g = none ∨ (∃ i, q.g = some (.iri i)) ∨ ∃ b, q.g = some (.bnode b))

theorem rioGraph_iff (g : Option Term) : rioGraph g = true ↔ (g = none ∨ (∃ i, g = some (.iri i)) ∨ ∃ b, g = some (.bnode b)) := by
  cases g with
  | none => simp [rioGraph]
  | some t => cases t <;> simp [rioGraph]

theorem keep_iff (q : Quad) : (rioGraph q.g && rioTriple q.s q.p q.o) = true ↔ StrictQuad q := by
  simp only [rioTriple, Bool.and_eq_true, rioGraph_iff, isIri_iff, StrictQuad]
  constructor
  · rintro ⟨hg, ⟨hs, hp⟩, ho⟩
    exact ⟨subj_of_rio _ hs, hp, obj_of_rio _ ho, hg⟩
  · rintro ⟨hs, hp, ho, hg⟩
    exact ⟨hg, ⟨rio_of_subj hs, hp⟩, rio_of_obj ho⟩

end SophiaProofs.Lemmas.StreamSer
