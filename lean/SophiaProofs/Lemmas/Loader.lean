import SophiaModel.Model.Loader
namespace SophiaProofs.Loader
open SophiaModel SophiaModel.Loader

theorem splitSlash_ne_nil (s : Str) : splitSlash s ≠ [] := by
  cases s with
  | nil => simp [splitSlash]
  | cons c cs =>
    unfold splitSlash
    split
    · simp
    · cases splitSlash cs <;> simp [consHead]

theorem consHead_append (c : Char) (l m : List Str) (h : l ≠ []) :
    consHead c (l ++ m) = consHead c l ++ m := by
  cases l with
  | nil => exact absurd rfl h
  | cons x xs => simp [consHead]

theorem splitSlash_append_slash (a b : Str) :
    splitSlash (a ++ '/' :: b) = splitSlash a ++ splitSlash b := by
  induction a with
  | nil => simp [splitSlash]
  | cons c a ih =>
    by_cases hc : c = '/'
    · simp [splitSlash, hc, ih]
    · simp only [List.cons_append, splitSlash, hc, if_false, ih]
      exact consHead_append _ _ _ (splitSlash_ne_nil a)

theorem splitSlash_noslash (s : Str) (h : '/' ∉ s) : splitSlash s = [s] := by
  induction s with
  | nil => simp [splitSlash]
  | cons c s ih =>
    have hc : c ≠ '/' := fun e => h (by simp [e])
    have hs : '/' ∉ s := fun e => h (by simp [e])
    simp [splitSlash, hc, ih hs, consHead]

theorem splitSlash_append_noslash (a s : Str) (h : '/' ∉ s) :
    ∃ init last, splitSlash a = init ++ [last] ∧ splitSlash (a ++ s) = init ++ [last ++ s] := by
  induction a with
  | nil => exact ⟨[], [], by simp [splitSlash], by simpa using splitSlash_noslash s h⟩
  | cons c a ih =>
    obtain ⟨init, last, h1, h2⟩ := ih
    by_cases hc : c = '/'
    · exact ⟨[] :: init, last, by simp [splitSlash, hc, h1], by simp [splitSlash, hc, h2]⟩
    · cases init with
      | nil =>
        refine ⟨[], c :: last, ?_, ?_⟩
        · simp [splitSlash, hc, h1, consHead]
        · simp at h2; simp [splitSlash, hc, h2, consHead]
      | cons i is =>
        refine ⟨(c :: i) :: is, last, ?_, ?_⟩
        · simp [splitSlash, hc, h1, consHead]
        · simp at h2; simp [splitSlash, hc, h2, consHead]

/-! ### lexical resolution -/

theorem resolveFrom_append (cur : List Str) (a b : List Str) :
    resolveFrom cur (a ++ b) = resolveFrom (resolveFrom cur a) b := by
  simp [resolveFrom, List.foldl_append]

theorem prefix_rstep (cur : List Str) (c : Str) (h : c ≠ dotdot) : cur <+: rstep cur c := by
  unfold rstep
  by_cases h0 : c = [] ∨ c = dot
  · rw [if_pos h0]; exact List.prefix_refl _
  · rw [if_neg h0, if_neg h]; exact List.prefix_append _ _

theorem prefix_resolveFrom (comps : List Str) : ∀ (cur : List Str), dotdot ∉ comps →
    cur <+: resolveFrom cur comps := by
  induction comps with
  | nil => intro cur _; exact List.prefix_refl _
  | cons c cs ih =>
    intro cur h
    have hc : c ≠ dotdot := fun e => h (by simp [e])
    have hcs : dotdot ∉ cs := fun e => h (by simp [e])
    have := ih (rstep cur c) hcs
    exact (prefix_rstep cur c hc).trans (by simpa [resolveFrom] using this)

theorem safeRem_iff (rem : Str) :
    safeRem rem = true ↔ rem.head? ≠ some '/' ∧ dotdot ∉ splitSlash rem := by
  simp [safeRem]

/-- `dir.join(rem)` for a remainder that is not absolute: resolve `rem` from where `dir` is -/
theorem osResolve_join (dir rem : Str) (h1 : rem.head? ≠ some '/') :
    osResolve (joinPath dir rem) = resolveFrom (osResolve dir) (splitSlash rem) := by
  unfold joinPath
  rw [if_neg h1]
  cases hl : dir.getLast? with
  | none =>
    have : dir = [] := by simpa using hl
    subst this
    simp [osResolve, splitSlash, resolveFrom, rstep]
  | some c =>
    obtain ⟨d', hd⟩ := List.getLast?_eq_some_iff.1 hl
    by_cases hc : c = '/'
    · subst hc
      have e1 : osResolve dir = resolveFrom [] (splitSlash d') := by
        rw [hd]; unfold osResolve
        rw [show d' ++ ['/'] = d' ++ '/' :: [] from rfl, splitSlash_append_slash, resolveFrom_append]
        simp [splitSlash, resolveFrom, rstep]
      have e2 : osResolve (dir ++ rem) = resolveFrom (resolveFrom [] (splitSlash d')) (splitSlash rem) := by
        rw [hd]; unfold osResolve
        rw [show (d' ++ ['/']) ++ rem = d' ++ '/' :: rem by simp, splitSlash_append_slash, resolveFrom_append]
      simp only [bne_self_eq_false, Bool.false_eq_true, if_false]
      rw [e1, e2]
    · have : (c != '/') = true := by simpa using hc
      simp only [this, if_true]
      unfold osResolve
      rw [splitSlash_append_slash, resolveFrom_append]

/-- a remainder without `..` component that does not start with '/' stays below the directory -/
theorem inside_join (dir rem : Str) (h : safeRem rem = true) : Inside dir (joinPath dir rem) := by
  obtain ⟨h1, h2⟩ := (safeRem_iff rem).1 h
  unfold Inside
  rw [osResolve_join dir rem h1]
  exact prefix_resolveFrom _ _ h2

/-! ### the retry list -/

/-- what the proofs need from a retry extension: non-empty, no '/', '.', '#' -/
def extOk (ext : Str) : Bool := !ext.isEmpty && ext.all (fun c => c != '/' && c != '.' && c != '#')

theorem exts_ok : ∀ e ∈ Gen.LoaderExts.exts, extOk e.1 = true := by decide

theorem activeExts_ok (f : Features) : ∀ e ∈ activeExts f, extOk e = true := by
  intro e he
  simp only [activeExts, List.mem_map, List.mem_filter] at he
  obtain ⟨x, ⟨hx, _⟩, rfl⟩ := he
  exact exts_ok x hx

theorem extOk_spec {ext : Str} (h : extOk ext = true) :
    ext ≠ [] ∧ '/' ∉ ext ∧ '.' ∉ ext ∧ '#' ∉ ext := by
  simp only [extOk, Bool.and_eq_true, Bool.not_eq_true', List.isEmpty_eq_false_iff,
    List.all_eq_true, bne_iff_ne, ne_eq] at h
  refine ⟨h.1, ?_, ?_, ?_⟩ <;> intro hm <;> have := h.2 _ hm <;> simp at this

theorem safeRem_ext (rem ext : Str) (h : safeRem rem = true) (he : extOk ext = true) :
    safeRem (rem ++ '.' :: ext) = true := by
  obtain ⟨hne, hs, hd, _⟩ := extOk_spec he
  obtain ⟨h1, h2⟩ := (safeRem_iff rem).1 h
  rw [safeRem_iff]
  constructor
  · cases rem with
    | nil => simp
    | cons c cs => simpa using h1
  · have hns : '/' ∉ ('.' :: ext) := by simp [hs]
    obtain ⟨init, last, e1, e2⟩ := splitSlash_append_noslash rem ('.' :: ext) hns
    rw [e2]
    intro hm
    rcases List.mem_append.1 hm with hm | hm
    · exact h2 (by rw [e1]; exact List.mem_append_left _ hm)
    · have e : dotdot = last ++ '.' :: ext := by simpa using hm
      unfold dotdot at e
      match last, e with
      | [], e => simp at e; exact hd (by rw [← e]; simp)
      | [x], e => simp at e; exact hne e.2
      | x :: y :: r, e => simp at e

/-! ### the file system walk lands where the lexical resolution says -/

theorem walk_file (fs : FS) (comps : List Str) : ∀ (cur loc : List Str) (d : Str),
    walk fs cur comps = .ok (loc, .file d) →
    loc = resolveFrom cur comps ∧ fs.lookup loc = some (.file d) := by
  induction comps with
  | nil => intro cur loc d h; simp [walk] at h
  | cons c rest ih =>
    intro cur loc d h
    unfold walk at h
    by_cases h0 : c = [] ∨ c = dot
    · rw [if_pos h0] at h
      have := ih cur loc d h
      simpa [resolveFrom, rstep, h0] using this
    · rw [if_neg h0] at h
      by_cases h1 : c = dotdot
      · rw [if_pos h1] at h
        have := ih _ loc d h
        have hdd : ¬ (dotdot = [] ∨ dotdot = dot) := by decide
        subst h1
        simpa [resolveFrom, rstep, hdd] using this
      · rw [if_neg h1] at h
        split at h
        · cases h
        · split at h
          · cases h
          · have := ih _ loc d h
            simpa [resolveFrom, rstep, h0, h1] using this
          · rename_i d' hl
            split at h
            · rename_i hr
              injection h with h
              injection h with h2 h3
              injection h3 with h3
              subst hr; subst h2; subst h3
              simp [resolveFrom, rstep, h0, h1, hl]
            · cases h

/-! ### fragments, extensions, namespaces -/

theorem takeWhile_all {α} (p : α → Bool) (l : List α) (h : ∀ x ∈ l, p x = true) : l.takeWhile p = l := by
  induction l with
  | nil => rfl
  | cons x xs ih =>
    have hx := h x (by simp)
    simp [List.takeWhile, hx, ih (fun y hy => h y (by simp [hy]))]

theorem not_mem_takeWhile (l : Str) : '#' ∉ l.takeWhile (· ≠ '#') := by
  induction l with
  | nil => simp
  | cons x xs ih =>
    by_cases hx : x = '#'
    · simp [List.takeWhile, hx]
    · simp [List.takeWhile, hx]; exact ⟨fun e => hx e.symm, by simpa using ih⟩

theorem hash_not_mem_strip (iri : Str) : '#' ∉ stripFragment iri := not_mem_takeWhile iri

theorem strip_of_no_hash (s : Str) (h : '#' ∉ s) : stripFragment s = s := by
  apply takeWhile_all
  intro x hx
  have : x ≠ '#' := fun e => h (e ▸ hx)
  simpa using this

theorem strip_alt (iri ext : Str) (he : extOk ext = true) :
    stripFragment (stripFragment iri ++ '.' :: ext) = stripFragment iri ++ '.' :: ext := by
  apply strip_of_no_hash
  obtain ⟨_, _, _, h⟩ := extOk_spec he
  intro hm
  rcases List.mem_append.1 hm with hm | hm
  · exact hash_not_mem_strip iri hm
  · rcases List.mem_cons.1 hm with hm | hm
    · cases hm
    · exact h hm

theorem noExt_alt (iri ext : Str) (he : extOk ext = true) : noExt (iri ++ '.' :: ext) = false := by
  obtain ⟨_, hs, hd, _⟩ := extOk_spec he
  have hnone : ext.reverse.find? (fun c => c = '.' || c = '/') = none := by
    rw [List.find?_eq_none]
    intro x hx
    have hx' : x ∈ ext := by simpa using hx
    have h1 : x ≠ '.' := fun e => hd (e ▸ hx')
    have h2 : x ≠ '/' := fun e => hs (e ▸ hx')
    simp [h1, h2]
  unfold noExt
  rw [List.reverse_append, List.reverse_cons, List.append_assoc, List.find?_append, hnone]
  simp

theorem prefix_of_prefix_append {ns iri s : Str} (hl : ns.getLast? = some '/') (hs : '/' ∉ s)
    (h : ns <+: iri ++ s) : ns <+: iri := by
  rcases List.prefix_or_prefix_of_prefix h (List.prefix_append iri s) with h' | h'
  · exact h'
  · obtain ⟨t, ht⟩ := h'
    cases t with
    | nil => simp at ht; subst ht; exact List.prefix_refl _
    | cons x xs =>
      exfalso
      have h2 : (x :: xs) <+: s := by
        rw [← ht] at h
        exact (List.prefix_append_right_inj iri).1 h
      have h3 : (x :: xs).getLast? = some '/' := by
        rw [← ht, List.getLast?_append] at hl
        cases hg : (x :: xs).getLast? with
        | none => simp at hg
        | some y => rw [hg] at hl; simpa using hl
      exact hs (h2.subset (List.mem_of_getLast? h3))

theorem find?_congr' {α} (p q : α → Bool) (l : List α) (h : ∀ x ∈ l, p x = q x) : l.find? p = l.find? q := by
  induction l with
  | nil => rfl
  | cons x xs ih =>
    have hx := h x (by simp)
    simp [List.find?, hx, ih (fun y hy => h y (by simp [hy]))]

theorem findNs_alt (cfg : Cfg) (hc : CfgOk cfg) (iri s : Str) (hs : '/' ∉ s) :
    findNs cfg (iri ++ s) = findNs cfg iri := by
  apply find?_congr'
  intro nd hnd
  rw [Bool.eq_iff_iff, List.isPrefixOf_iff_prefix, List.isPrefixOf_iff_prefix]
  exact ⟨prefix_of_prefix_append (hc nd hnd).1 hs, fun h => h.trans (List.prefix_append _ _)⟩

theorem findNs_some {cfg : Cfg} {iri : Str} {nd : Str × Str} (h : findNs cfg iri = some nd) :
    nd ∈ cfg ∧ nd.1 <+: iri := by
  refine ⟨List.mem_of_find?_eq_some h, ?_⟩
  have := List.find?_some h
  exact List.isPrefixOf_iff_prefix.1 this

/-! ### inversion of `getStep` / `getG` -/

theorem firstOk_some {l : List Str} {f : Str → Outcome} {r : Outcome} (h : firstOk l f = some r) :
    ∃ e ∈ l, f e = r ∧ ∃ p d c, r = .ok p d c := by
  induction l with
  | nil => simp [firstOk] at h
  | cons e es ih =>
    unfold firstOk at h
    split at h
    · rename_i p d c hf
      injection h with h
      exact ⟨e, by simp, by rw [hf, h], p, d, c, h.symm⟩
    · obtain ⟨e', he', h'⟩ := ih h
      exact ⟨e', by simp [he'], h'⟩

theorem firstOk_congr {l : List Str} {f g : Str → Outcome} (h : ∀ e ∈ l, f e = g e) :
    firstOk l f = firstOk l g := by
  induction l with
  | nil => rfl
  | cons e es ih =>
    unfold firstOk
    rw [h e (by simp), ih (fun x hx => h x (by simp [hx]))]

/-- what `getStep` did when it returned `ok` -/
theorem getStep_ok {P : Params} {recur : Str → Outcome} {cfg : Cfg} {fs : FS} {iri0 p d ct : Str}
    (h : getStep P recur cfg fs iri0 = .ok p d ct) :
    ∃ ns dir, findNs cfg (stripFragment iri0) = some (ns, dir) ∧
      ((p = joinPath dir ((stripFragment iri0).drop ns.length) ∧ osRead fs p = .ok d ∧
          (P.guard = true → safeRem ((stripFragment iri0).drop ns.length) = true)) ∨
       (noExt (stripFragment iri0) = true ∧
          (P.guard = true → safeRem ((stripFragment iri0).drop ns.length) = true) ∧
          ∃ ext ∈ activeExts P.feats, recur (stripFragment iri0 ++ '.' :: ext) = .ok p d ct)) := by
  unfold getStep at h
  simp only at h
  split at h
  · cases h
  · rename_i ns dir hf
    refine ⟨ns, dir, hf, ?_⟩
    split at h
    · cases h
    · rename_i hg
      have hguard : P.guard = true → safeRem ((stripFragment iri0).drop ns.length) = true := by
        intro hgt
        simpa [hgt] using hg
      split at h
      · rename_i data hr
        injection h with h1 h2 h3
        subst h1; subst h2
        exact Or.inl ⟨rfl, hr, hguard⟩
      · split at h
        · rename_i hne
          split at h
          · rename_i r hfo
            obtain ⟨e, he, hfe, _⟩ := firstOk_some hfo
            subst h
            exact Or.inr ⟨hne, hguard, e, he, hfe⟩
          · cases h
        · cases h
      · cases h

/-! ### the nested `self.get(alt)` never recurses again -/

theorem getStep_congr {P : Params} {r1 r2 : Str → Outcome} {cfg : Cfg} {fs : FS} {iri0 : Str}
    (h : ∀ ext ∈ activeExts P.feats,
      r1 (stripFragment iri0 ++ '.' :: ext) = r2 (stripFragment iri0 ++ '.' :: ext)) :
    getStep P r1 cfg fs iri0 = getStep P r2 cfg fs iri0 := by
  unfold getStep
  simp only
  rw [firstOk_congr h]

theorem getStep_noRetry {P : Params} {r1 r2 : Str → Outcome} {cfg : Cfg} {fs : FS} {x : Str}
    (h : noExt (stripFragment x) = false) : getStep P r1 cfg fs x = getStep P r2 cfg fs x := by
  unfold getStep
  simp [h]

instance (cfg : Cfg) : Decidable (CfgOk cfg) := by unfold CfgOk; infer_instance

end SophiaProofs.Loader
