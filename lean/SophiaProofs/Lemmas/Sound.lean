/-
Soundness in the case where step 5 has nothing to do (all first-degree hashes distinct):
isomorphic datasets get the same canonical document.
-/
import SophiaProofs.Lemmas.Complete
import SophiaProofs.Lemmas.Total

namespace SophiaProofs.CnqL
open SophiaModel SophiaModel.Rdfc10 SophiaProofs.Rdfc10L

/-! ### the written document depends only on the multiset of quads -/

abbrev Key := Str × Str × Str × Str

def keyQ (q : Quad) : Key :=
  (Cnq.nq q.s, Cnq.nq q.p, Cnq.nq q.o, match q.g with | some t => Cnq.nq t | none => [])

def cmpK (a b : Key) : Ordering :=
  (cmpStr a.1 b.1).then ((cmpStr a.2.1 b.2.1).then ((cmpStr a.2.2.1 b.2.2.1).then (cmpStr a.2.2.2 b.2.2.2)))

theorem cmpQuad_eq_cmpK (a b : Quad) : cmpQuad a b = cmpK (keyQ a) (keyQ b) := rfl

theorem cmpK_good : GoodCmp cmpK :=
  (good_key (fun k : Key => k.1)).thenCmp ((good_key (fun k : Key => k.2.1)).thenCmp
    ((good_key (fun k : Key => k.2.2.1)).thenCmp (good_key (fun k : Key => k.2.2.2))))

theorem cmpK_eq {a b : Key} (h : cmpK a b = .eq) : a = b := by
  unfold cmpK at h
  obtain ⟨h1, h⟩ := GoodCmp.then_eq.mp h
  obtain ⟨h2, h⟩ := GoodCmp.then_eq.mp h
  obtain ⟨h3, h4⟩ := GoodCmp.then_eq.mp h
  obtain ⟨a1, a2, a3, a4⟩ := a
  obtain ⟨b1, b2, b3, b4⟩ := b
  simp only [] at h1 h2 h3 h4
  rw [cmpStr_eq_iff.mp h1, cmpStr_eq_iff.mp h2, cmpStr_eq_iff.mp h3, cmpStr_eq_iff.mp h4]

def lineK (k : Key) : Str := k.1 ++ k.2.1 ++ k.2.2.1 ++ k.2.2.2 ++ ".\n".toList

theorem line_eq_lineK (q : Quad) : line q = lineK (keyQ q) := by
  unfold line lineK keyQ
  cases q.g <;> rfl

theorem sorted_keys_perm {l₁ l₂ : List Quad} (h : l₁.Perm l₂) :
    (sortQuads l₁).map keyQ = (sortQuads l₂).map keyQ := by
  apply List.Perm.eq_of_pairwise (le := fun a b => (cmpK a b != .gt) = true)
  · intro a b _ _ hab hba
    apply cmpK_eq
    rw [cmpK_good.swap a b] at hba
    cases hc : cmpK a b with
    | eq => rfl
    | lt => rw [hc] at hba; simp [Ordering.swap] at hba
    | gt => rw [hc] at hab; simp at hab
  · rw [List.pairwise_map]; exact sortQuads_pairwise l₁
  · rw [List.pairwise_map]; exact sortQuads_pairwise l₂
  · exact ((sortQuads_perm l₁).trans (h.trans (sortQuads_perm l₂).symm)).map keyQ

/-- `normalize_with` writes the same bytes for any two orders of the same relabelled quads -/
theorem serialize_sort_perm {l₁ l₂ : List Quad} (h : l₁.Perm l₂) :
    serialize (sortQuads l₁) = serialize (sortQuads l₂) := by
  unfold serialize
  have e : ∀ l : List Quad, l.map line = (l.map keyQ).map lineK := by
    intro l; rw [List.map_map]; exact List.map_congr_left (fun q _ => line_eq_lineK q)
  rw [e, e, sorted_keys_perm h]

end SophiaProofs.CnqL

namespace SophiaProofs.Rdfc10L
open SophiaModel SophiaModel.Rdfc10

/-! ### sorted maps are determined by their entries -/

theorem upsert_perm_none {α : Type} (f : Option α → α) (k : Str) :
    ∀ m : SMap α, SMap.get m k = none → (m.upsert k f).Perm ((k, f none) :: m)
  | [], _ => by simp [SMap.upsert]
  | (k0, v) :: rest, h => by
    rw [get_cons] at h
    by_cases hk : k = k0
    · simp [hk] at h
    · simp only [hk, if_false] at h
      unfold SMap.upsert
      split
      · exact List.Perm.refl _
      · rename_i h'
        exact absurd (cmpStr_eq_iff.mp h') hk
      · exact ((upsert_perm_none f k rest h).cons (k0, v)).trans (List.Perm.swap _ _ _)

theorem sorted_eq_of_perm {α : Type} {m₁ m₂ : SMap α} (h₁ : Sorted m₁) (h₂ : Sorted m₂) (h : m₁.Perm m₂) : m₁ = m₂ := by
  refine List.Perm.eq_of_pairwise (le := fun (a b : Str × α) => cmpStr a.1 b.1 = .lt) ?_ h₁ h₂ h
  intro a b _ _ hab hba
  rw [cmpStr_swap a.1 b.1, hab] at hba
  cases hba

theorem get_none_of_not_mem_keys {α : Type} : ∀ (m : SMap α) (k : Str), k ∉ SMap.keys m → SMap.get m k = none
  | [], _, _ => rfl
  | (k0, v) :: rest, k, h => by
    simp only [SMap.keys, List.map_cons, List.mem_cons, not_or] at h
    rw [get_cons]
    simp only [h.1, if_false]
    exact get_none_of_not_mem_keys rest k h.2

theorem get_of_mem_sorted {α : Type} : ∀ (m : SMap α), Sorted m → ∀ e ∈ m, SMap.get m e.1 = some e.2
  | [], _, _, h => nomatch h
  | (k0, v) :: rest, hs, e, he => by
    have hh := List.pairwise_cons.mp hs
    rw [get_cons]
    rcases List.mem_cons.mp he with rfl | he
    · simp
    · have hlt := hh.1 e he
      have : e.1 ≠ k0 := by
        intro e'
        rw [e', cmpStr_refl] at hlt
        cases hlt
      simp only [this, if_false]
      exact get_of_mem_sorted rest hh.2 e he

theorem keys_nodup {α : Type} {m : SMap α} (h : Sorted m) : (SMap.keys m).Nodup := by
  unfold SMap.keys
  rw [List.Nodup, List.pairwise_map]
  refine h.imp ?_
  intro a b hab e
  rw [e, cmpStr_refl] at hab
  cases hab

/-! ### step 3 when all first-degree hashes are distinct -/

/-- the (hash, [label]) entries step 3 files, in label order -/
def hashEntries (H : Str → Str) (b2q : SMap (List Quad)) : SMap (List Str) :=
  b2q.map (fun e => (hashFirstDegree H e.1 e.2, [e.1]))

theorem step3_h2b_fold (H : Str → Str) : ∀ (l : SMap (List Quad)) (acc : SMap (List Str) × SMap Str),
    Sorted acc.1 → ((SMap.keys acc.1) ++ SMap.keys (hashEntries H l)).Nodup →
    let r := l.foldl (fun (acc : SMap (List Str) × SMap Str) (e : Str × List Quad) =>
        let h := hashFirstDegree H e.1 e.2
        (acc.1.upsert h (pushAt e.1), acc.2.upsert e.1 (fun _ => h))) acc
    Sorted r.1 ∧ r.1.Perm (acc.1 ++ hashEntries H l)
  | [], acc, hs, _ => by
    intro r
    exact ⟨hs, by simp [hashEntries, r]⟩
  | e :: l, acc, hs, hnd => by
    intro r
    have hfresh : SMap.get acc.1 (hashFirstDegree H e.1 e.2) = none := by
      apply get_none_of_not_mem_keys
      intro hm
      have := (List.nodup_append.mp hnd).2.2 _ hm (hashFirstDegree H e.1 e.2) (by simp [hashEntries, SMap.keys])
      exact this rfl
    have hp := upsert_perm_none (pushAt e.1) (hashFirstDegree H e.1 e.2) acc.1 hfresh
    have hnd' : ((SMap.keys (acc.1.upsert (hashFirstDegree H e.1 e.2) (pushAt e.1))) ++ SMap.keys (hashEntries H l)).Nodup := by
      have hk : (SMap.keys (acc.1.upsert (hashFirstDegree H e.1 e.2) (pushAt e.1))).Perm
          (hashFirstDegree H e.1 e.2 :: SMap.keys acc.1) := by
        have := hp.map (fun x : Str × List Str => x.1)
        simpa [SMap.keys] using this
      refine (List.Perm.nodup_iff (List.Perm.append_right _ hk)).mpr ?_
      have : ((SMap.keys acc.1) ++ SMap.keys (hashEntries H (e :: l))).Perm
          (hashFirstDegree H e.1 e.2 :: SMap.keys acc.1 ++ SMap.keys (hashEntries H l)) := by
        simp only [hashEntries, SMap.keys, List.map_cons, List.cons_append]
        exact List.perm_middle
      exact (List.Perm.nodup_iff this).mp hnd
    obtain ⟨ih1, ih2⟩ := step3_h2b_fold H l (acc.1.upsert (hashFirstDegree H e.1 e.2) (pushAt e.1),
      acc.2.upsert e.1 (fun _ => hashFirstDegree H e.1 e.2)) (upsert_sorted _ _ _ hs) hnd'
    refine ⟨ih1, ih2.trans ?_⟩
    simp only [hashEntries, List.map_cons]
    refine (List.Perm.append_right _ hp).trans ?_
    simp only [pushAt, List.cons_append]
    exact List.perm_middle.symm

/-- distinct first-degree hashes: `h2b` is the sorted list of singleton entries -/
theorem step3_h2b (H : Str → Str) (b2q : SMap (List Quad)) (hnd : (SMap.keys (hashEntries H b2q)).Nodup) :
    Sorted (step3 H b2q).1 ∧ (step3 H b2q).1.Perm (hashEntries H b2q) := by
  have := step3_h2b_fold H b2q ([], []) sorted_nil (by simpa [SMap.keys] using hnd)
  unfold step3
  exact ⟨this.1, by simpa using this.2⟩

end SophiaProofs.Rdfc10L

namespace SophiaProofs.Rdfc10L
open SophiaModel SophiaModel.Rdfc10

/-! ### issuers related by a renaming of the labels -/

structure IssRel (f : Str → Str) (i j : Issuer) : Prop where
  order : j.order = i.order.map f
  wfi : IssuerWF i
  wfj : IssuerWF j
  pfx : j.pfx = i.pfx

theorem issRel_get {f : Str → Str} (hf : ∀ a b, f a = f b → a = b) {i j : Issuer} (h : IssRel f i j) (b : Str) :
    j.get (f b) = i.get b := by
  have key : ∀ id, j.get (f b) = some id ↔ i.get b = some id := by
    intro id
    rw [h.wfj.get_iff, h.wfi.get_iff, h.order, h.pfx]
    constructor
    · rintro ⟨k, hk, hid⟩
      refine ⟨k, ?_, hid⟩
      rw [List.getElem?_map] at hk
      cases ho : i.order[k]? with
      | none => rw [ho] at hk; cases hk
      | some x =>
        rw [ho] at hk
        simp only [Option.map_some] at hk
        injection hk with hk
        rw [hf _ _ hk]
    · rintro ⟨k, hk, hid⟩
      exact ⟨k, by rw [List.getElem?_map, hk]; rfl, hid⟩
  cases hi : i.get b with
  | some id => exact (key id).mpr hi
  | none =>
    cases hj : j.get (f b) with
    | none => rfl
    | some id => rw [(key id).mp hj] at hi; cases hi

theorem issRel_issue {f : Str → Str} (hf : ∀ a b, f a = f b → a = b) {i j : Issuer} (h : IssRel f i j) (b : Str) :
    IssRel f (i.issue' b) (j.issue' (f b)) := by
  have hg := issRel_get hf h b
  refine ⟨?_, wf_issue _ _ h.wfi, wf_issue _ _ h.wfj, by rw [issue'_pfx, issue'_pfx, h.pfx]⟩
  unfold Issuer.issue' Issuer.issue
  unfold Issuer.get at hg
  cases hi : i.issued.get b with
  | some id =>
    rw [hi] at hg
    rw [hg]
    exact h.order
  | none =>
    rw [hi] at hg
    rw [hg]
    simp only [List.map_append, List.map_cons, List.map_nil, h.order]

/-- step 4 when no hash is shared: nothing is left for step 5, and the issuers stay related -/
theorem step4_singletons {f : Str → Str} (hf : ∀ a b, f a = f b → a = b) :
    ∀ (m : SMap (List Str)) (i j : Issuer), (∀ e ∈ m, e.2.length ≤ 1) → IssRel f i j →
      (step4 m i).1 = [] ∧ (step4 (m.map (fun e => (e.1, e.2.map f))) j).1 = [] ∧
      IssRel f (step4 m i).2 (step4 (m.map (fun e => (e.1, e.2.map f))) j).2 := by
  unfold step4
  have key : ∀ (m : SMap (List Str)) (i j : Issuer), (∀ e ∈ m, e.2.length ≤ 1) → IssRel f i j →
      let F := fun (acc : SMap (List Str) × Issuer) (e : Str × List Str) =>
        if e.2.length > 1 then (acc.1 ++ [e], acc.2)
        else match e.2 with
          | b :: _ => (acc.1, acc.2.issue' b)
          | [] => acc
      (m.foldl F ([], i)).1 = [] ∧ ((m.map (fun e => (e.1, e.2.map f))).foldl F ([], j)).1 = [] ∧
        IssRel f (m.foldl F ([], i)).2 ((m.map (fun e => (e.1, e.2.map f))).foldl F ([], j)).2 := by
    intro m
    induction m with
    | nil => intro i j _ h; exact ⟨rfl, rfl, h⟩
    | cons e m ih =>
      intro i j hlen h
      have he := hlen e List.mem_cons_self
      have hne : ¬ e.2.length > 1 := by omega
      have hne' : ¬ (e.2.map f).length > 1 := by rw [List.length_map]; omega
      simp only [List.map_cons, List.foldl_cons, hne, hne', if_false]
      cases he2 : e.2 with
      | nil =>
        simp only [List.map_nil]
        exact ih i j (fun e' he' => hlen e' (List.mem_cons_of_mem _ he')) h
      | cons b rest =>
        simp only [List.map_cons]
        exact ih _ _ (fun e' he' => hlen e' (List.mem_cons_of_mem _ he')) (issRel_issue hf h b)
  intro m i j hlen h
  exact key m i j hlen h

end SophiaProofs.Rdfc10L

namespace SophiaProofs.Rdfc10L
open SophiaModel SophiaModel.Rdfc10 SophiaProofs.CnqL

/-! ### `b2q` of a renamed, permuted dataset -/

theorem isSome_get_of_mem_keys {α : Type} : ∀ (m : SMap α) (k : Str), k ∈ SMap.keys m → (SMap.get m k).isSome
  | [], _, h => nomatch h
  | (k0, v) :: rest, k, h => by
    rw [get_cons]
    by_cases hk : k = k0
    · simp [hk]
    · simp only [hk, if_false]
      simp only [SMap.keys, List.map_cons, List.mem_cons, hk, false_or] at h
      exact isSome_get_of_mem_keys rest k h

theorem mem_keys_iff_refs {D : List Quad} {b2q : SMap (List Quad)} (h : step2 D = .ok b2q) (k : Str) :
    k ∈ SMap.keys b2q ↔ D.flatMap (refsOf k) ≠ [] := by
  have hg := step2_get h k
  constructor
  · intro hk hnil
    have := isSome_get_of_mem_keys b2q k hk
    rw [hg, if_pos hnil] at this
    cases this
  · intro hne
    rw [if_neg hne] at hg
    exact mem_keys_of_get b2q k _ hg

theorem refs_ne_nil_iff (D : List Quad) (k : Str) :
    D.flatMap (refsOf k) ≠ [] ↔ ∃ q ∈ D, ∃ c ∈ components q, c.1 = Term.bnode k := by
  constructor
  · intro h
    cases hl : D.flatMap (refsOf k) with
    | nil => exact absurd hl h
    | cons x xs =>
      have hx : x ∈ D.flatMap (refsOf k) := by rw [hl]; exact List.mem_cons_self
      obtain ⟨q, hq, hxq⟩ := List.mem_flatMap.mp hx
      unfold refsOf refsIn at hxq
      obtain ⟨c, hc, hcc⟩ := List.mem_filterMap.mp hxq
      refine ⟨q, hq, c, hc, ?_⟩
      by_cases hck : c.1 = Term.bnode k
      · exact hck
      · simp [hck] at hcc
  · rintro ⟨q, hq, c, hc, hck⟩ hnil
    have : q ∈ D.flatMap (refsOf k) := by
      refine List.mem_flatMap.mpr ⟨q, hq, ?_⟩
      unfold refsOf refsIn
      exact List.mem_filterMap.mpr ⟨c, hc, by simp [hck]⟩
    rw [hnil] at this
    cases this

theorem keys_perm_rename {f : Str → Str} (hf : ∀ a b, f a = f b → a = b) {D₁ D₂ : List Quad}
    (hperm : D₂.Perm (D₁.map (renameQuad f))) {b2q₁ b2q₂ : SMap (List Quad)}
    (h1 : step2 D₁ = .ok b2q₁) (h2 : step2 D₂ = .ok b2q₂) :
    (SMap.keys b2q₂).Perm ((SMap.keys b2q₁).map f) := by
  have nd1 : ((SMap.keys b2q₁).map f).Nodup := by
    rw [List.Nodup, List.pairwise_map]
    exact (keys_nodup (step2_spec h1).1).imp (fun hab e => hab (hf _ _ e))
  refine (List.perm_ext_iff_of_nodup (keys_nodup (step2_spec h2).1) nd1).mpr ?_
  intro k
  rw [mem_keys_iff_refs h2, List.mem_map]
  constructor
  · intro hne
    obtain ⟨q₂, hq₂, c, hc, hck⟩ := (refs_ne_nil_iff D₂ k).mp hne
    obtain ⟨q₁, hq₁, rfl⟩ := List.mem_map.mp (hperm.mem_iff.mp hq₂)
    rw [components_rename] at hc
    obtain ⟨c₁, hc₁, rfl⟩ := List.mem_map.mp hc
    simp only [] at hck
    cases ht : c₁.1 with
    | bnode b =>
      rw [ht] at hck
      simp only [renameTerm] at hck
      injection hck with hck
      refine ⟨b, ?_, hck⟩
      exact (mem_keys_iff_refs h1 b).mpr ((refs_ne_nil_iff D₁ b).mpr ⟨q₁, hq₁, c₁, hc₁, ht⟩)
    | iri _ => rw [ht] at hck; simp [renameTerm] at hck
    | lit _ _ => rw [ht] at hck; simp [renameTerm] at hck
    | lang _ _ => rw [ht] at hck; simp [renameTerm] at hck
    | triple _ _ _ => rw [ht] at hck; simp [renameTerm] at hck
    | var _ => rw [ht] at hck; simp [renameTerm] at hck
  · rintro ⟨b, hb, rfl⟩ hnil
    have hne := (mem_keys_iff_refs h1 b).mp hb
    have hl := (refs_perm hf hperm b).length_eq
    rw [hnil, List.length_map] at hl
    exact hne (List.length_eq_zero_iff.mp hl.symm)

/-- entry of `hashEntries` computed from the key alone -/
def hashEntryOf (H : Str → Str) (b2q : SMap (List Quad)) (k : Str) : Str × List Str :=
  (hashFirstDegree H k ((b2q.get k).getD []), [k])

theorem hashEntries_eq_keys (H : Str → Str) {b2q : SMap (List Quad)} (hs : Sorted b2q) :
    hashEntries H b2q = (SMap.keys b2q).map (hashEntryOf H b2q) := by
  unfold hashEntries SMap.keys
  rw [List.map_map]
  apply List.map_congr_left
  intro e he
  simp only [Function.comp, hashEntryOf, get_of_mem_sorted b2q hs e he, Option.getD_some]

theorem hashEntries_rename (H : Str → Str) {f : Str → Str} (hf : ∀ a b, f a = f b → a = b) {D₁ D₂ : List Quad}
    (hperm : D₂.Perm (D₁.map (renameQuad f))) {b2q₁ b2q₂ : SMap (List Quad)}
    (h1 : step2 D₁ = .ok b2q₁) (h2 : step2 D₂ = .ok b2q₂) :
    (hashEntries H b2q₂).Perm ((hashEntries H b2q₁).map (fun e => (e.1, e.2.map f))) := by
  rw [hashEntries_eq_keys H (step2_spec h2).1, hashEntries_eq_keys H (step2_spec h1).1, List.map_map]
  refine ((keys_perm_rename hf hperm h1 h2).map _).trans (List.Perm.of_eq ?_)
  rw [List.map_map]
  apply List.map_congr_left
  intro k _
  simp only [Function.comp, hashEntryOf, List.map_cons, List.map_nil]
  rw [(step2_spec h2).2 (f k), (step2_spec h1).2 k, hashFirstDegree_invariant H hf hperm k]

theorem badQuad_rename {f : Str → Str} {q : Quad} (h : BadQuad (renameQuad f q)) : BadQuad q := by
  have hb : ∀ t, isBnode (renameTerm f t) = isBnode t := by intro t; cases t <;> rfl
  have ht : ∀ t, isTriple (renameTerm f t) = isTriple t := by intro t; cases t <;> rfl
  have hv : ∀ t, isVar (renameTerm f t) = isVar t := by intro t; cases t <;> rfl
  have hi : ∀ t, isIri (renameTerm f t) = isIri t := by intro t; cases t <;> rfl
  rcases h with h | ⟨c, hc, hbad⟩
  · left
    have : (renameQuad f q).p = renameTerm f q.p := rfl
    rw [this] at h
    unfold predicateRejected at h ⊢
    rw [hb, hi] at h
    exact h
  · right
    rw [components_rename] at hc
    obtain ⟨c₁, hc₁, rfl⟩ := List.mem_map.mp hc
    simp only [ht, hv] at hbad
    exact ⟨c₁, hc₁, hbad⟩

theorem step2_rename_ok {f : Str → Str} {D₁ D₂ : List Quad} (hperm : D₂.Perm (D₁.map (renameQuad f)))
    {b2q₁ : SMap (List Quad)} (h1 : step2 D₁ = .ok b2q₁) : ∃ b2q₂, step2 D₂ = .ok b2q₂ := by
  cases h2 : step2 D₂ with
  | ok b => exact ⟨b, rfl⟩
  | error e =>
    obtain ⟨_, q₂, hq₂, hbad⟩ := step2_err h2
    obtain ⟨q₁, hq₁, rfl⟩ := List.mem_map.mp (hperm.mem_iff.mp hq₂)
    rw [step2_bad ⟨q₁, hq₁, badQuad_rename hbad⟩] at h1
    cases h1

/-- when no first-degree hash is shared, `relabel_with` is steps 2–4 followed by the relabelling:
it succeeds with the issuer of step 4, whatever the limits -/
theorem relabelWith_distinct {H : Str → Str} (td : Nat → Nat → Bool) (pl : Nat) {D : List Quad}
    {b2q : SMap (List Quad)} (h2 : step2 D = .ok b2q) (hnext : (canon4 H b2q).1 = []) :
    ∃ out, relabelWith H td pl D = .ok (out, (canon4 H b2q).2.issued) := by
  have h5 : step5 H b2q (step3 H b2q).2 td pl (b2q.length + 1) (canon4 H b2q).1 (canon4 H b2q).2 = .ok (canon4 H b2q).2 := by
    rw [hnext]; rfl
  cases hr : relabelWith H td pl D with
  | ok r =>
    obtain ⟨out, m⟩ := r
    obtain ⟨b2q', can, h2', h5', _, hm⟩ := relabelWith_ok hr
    rw [h2] at h2'
    injection h2' with h2'
    subst h2'
    rw [h5] at h5'
    injection h5' with h5'
    subst h5'
    exact ⟨out, by rw [hm]⟩
  | error e =>
    exfalso
    unfold relabelWith at hr
    rw [h2, bind_ok] at hr
    simp only [] at hr
    unfold canon4 at h5
    rw [h5] at hr
    simp only [liftH, bind_ok] at hr
    cases hm : D.mapM (convertQuad (step4 (step3 H b2q).1 (Issuer.new "c14n".toList)).2.issued) with
    | ok out => rw [hm, bind_ok] at hr; cases hr
    | error e' =>
      obtain ⟨q, hq, hqe⟩ := mapM_error _ _ _ hm
      -- a failing `convertQuad` is a missing label, which `canonical_total` excludes
      have hpanic := convertQuad_err hqe
      have htot := @canonical_total H td pl D b2q _ h2 (by unfold canon4; exact h5)
      unfold convertQuad at hqe
      have conv : ∀ t, (∃ c ∈ components q, c.1 = t) → ∀ e'', convert (step4 (step3 H b2q).1 (Issuer.new "c14n".toList)).2.issued t ≠ .error e'' := by
        intro t ⟨c, hc, hct⟩ e'' hconv
        cases t with
        | bnode b =>
          simp only [convert] at hconv
          have hne : D.flatMap (refsOf b) ≠ [] := (refs_ne_nil_iff D b).mpr ⟨q, hq, c, hc, hct⟩
          have hget := step2_get h2 b
          rw [if_neg hne] at hget
          have := htot b _ hget
          cases hg : (step4 (step3 H b2q).1 (Issuer.new "c14n".toList)).2.issued.get b with
          | none => rw [hg] at this; cases this
          | some c' => rw [hg] at hconv; cases hconv
        | iri _ => simp only [convert] at hconv; cases hconv
        | lit _ _ => simp only [convert] at hconv; cases hconv
        | lang _ _ => simp only [convert] at hconv; cases hconv
        | triple _ _ _ => simp only [convert] at hconv; cases hconv
        | var _ => simp only [convert] at hconv; cases hconv
      cases hs : convert (step4 (step3 H b2q).1 (Issuer.new "c14n".toList)).2.issued q.s with
      | error e1 => exact conv q.s ⟨(q.s, ['s']), by simp [components], rfl⟩ e1 hs
      | ok s =>
        rw [hs, bind_ok] at hqe
        cases hp : convert (step4 (step3 H b2q).1 (Issuer.new "c14n".toList)).2.issued q.p with
        | error e1 => exact conv q.p ⟨(q.p, ['p']), by simp [components], rfl⟩ e1 hp
        | ok p =>
          rw [hp, bind_ok] at hqe
          cases ho : convert (step4 (step3 H b2q).1 (Issuer.new "c14n".toList)).2.issued q.o with
          | error e1 => exact conv q.o ⟨(q.o, ['o']), by simp [components], rfl⟩ e1 ho
          | ok o =>
            rw [ho, bind_ok] at hqe
            cases hg : convertG (step4 (step3 H b2q).1 (Issuer.new "c14n".toList)).2.issued q.g with
            | ok g => rw [hg, bind_ok] at hqe; cases hqe
            | error e1 =>
              cases hqg : q.g with
              | none => rw [hqg] at hg; simp only [convertG] at hg; cases hg
              | some g =>
                rw [hqg] at hg
                simp only [convertG] at hg
                cases hc : convert (step4 (step3 H b2q).1 (Issuer.new "c14n".toList)).2.issued g with
                | ok g' => rw [hc] at hg; cases hg
                | error e2 => exact conv g ⟨(g, ['g']), by simp [components, hqg], rfl⟩ e2 hc

end SophiaProofs.Rdfc10L
