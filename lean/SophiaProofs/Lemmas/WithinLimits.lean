/-
"Never fails for a dataset within the limits": when no related-blank-node list can exceed the
permutation limit (`relatedBound`) and the depth guard does not trip up to depth = number of blank
nodes, `hash_n_degree_quads` succeeds (the recursion depth stays below the number of issued
identifiers, which is at most the number of blank nodes).
-/
import SophiaProofs.Lemmas.Outcomes

namespace SophiaProofs.Rdfc10L
open SophiaModel SophiaModel.Rdfc10

/-! ### the related lists are no longer than `relatedBound` -/

def total (hn : SMap (List Str)) : Nat := (hn.map (·.2.length)).sum

theorem total_upsert (k x : Str) : ∀ m : SMap (List Str), total (m.upsert k (pushAt x)) = total m + 1
  | [] => by simp [SMap.upsert, total, pushAt]
  | (k', v) :: rest => by
    unfold SMap.upsert
    split
    · simp [total, pushAt]; omega
    · simp [total, pushAt]; omega
    · have ih := total_upsert k x rest
      simp only [total, List.map_cons, List.sum_cons] at ih ⊢
      omega

theorem mem_le_total {hn : SMap (List Str)} {e : Str × List Str} (he : e ∈ hn) : e.2.length ≤ total hn := by
  induction hn with
  | nil => cases he
  | cons a l ih =>
    simp only [total, List.map_cons, List.sum_cons]
    rcases List.mem_cons.mp he with rfl | he
    · omega
    · have := ih he
      simp only [total] at this
      omega

/-- does this component push a related blank node? (the predicate inside `Rdfc10.relatedCount`) -/
def counted (ident : Str) (cp : Term × Str) : Bool := match cp.1 with | .bnode b => b != ident | _ => false

theorem relatedCount_eq (ident : Str) (q : Quad) :
    relatedCount ident q = ((components q).filter (counted ident)).length := rfl

theorem hnComp_total {c : Ctx} {ident : Str} {issuer : Issuer} {q : Quad} {hn hn' : SMap (List Str)} {cp : Term × Str}
    (h : hnComp c ident issuer q hn cp = .ok hn') :
    total hn' = total hn + (if counted ident cp = true then 1 else 0) := by
  unfold hnComp at h
  unfold counted
  cases ht : cp.1 with
  | bnode b =>
    rw [ht] at h
    simp only [] at h ⊢
    by_cases hb : b = ident
    · simp only [hb, if_true] at h
      injection h with h
      subst h
      simp [hb]
    · simp only [hb, if_false] at h
      cases hh : hashRelated c b q issuer cp.2 with
      | error e => rw [hh, bind_err] at h; cases h
      | ok hv =>
        rw [hh, bind_ok] at h
        injection h with h
        subst h
        rw [total_upsert]
        simp [hb]
  | iri _ => rw [ht] at h; injection h with h; subst h; simp
  | lit _ _ => rw [ht] at h; injection h with h; subst h; simp
  | lang _ _ => rw [ht] at h; injection h with h; subst h; simp
  | triple _ _ _ => rw [ht] at h; injection h with h; subst h; simp
  | var _ => rw [ht] at h; injection h with h; subst h; simp

theorem hnComps_total {c : Ctx} {ident : Str} {issuer : Issuer} {q : Quad} :
    ∀ (cs : List (Term × Str)) (hn hn' : SMap (List Str)), cs.foldlM (hnComp c ident issuer q) hn = .ok hn' →
      total hn' = total hn + (cs.filter (counted ident)).length
  | [], hn, hn', h => by rw [foldlM_nil] at h; cases h; simp
  | cp :: cs, hn, hn', h => by
    cases hc : hnComp c ident issuer q hn cp with
    | error e => rw [foldlM_cons_err _ _ _ _ _ hc] at h; cases h
    | ok hn1 =>
      rw [foldlM_cons_ok _ _ _ _ _ hc] at h
      rw [hnComps_total cs hn1 hn' h, hnComp_total hc, List.filter_cons]
      by_cases hcnt : counted ident cp = true
      · simp only [hcnt, if_true, List.length_cons]; omega
      · have hf : counted ident cp = false := by cases hv : counted ident cp <;> simp_all
        simp [hf]

theorem buildHn_total {c : Ctx} {ident : Str} {issuer : Issuer} {hn : SMap (List Str)}
    (h : buildHn c ident issuer = .ok hn) : total hn = relatedBound c.b2q ident := by
  unfold buildHn at h
  unfold relatedBound
  cases hq : c.b2q.get ident with
  | none => rw [hq] at h; cases h
  | some qs =>
    rw [hq] at h
    simp only [Option.getD_some] at h ⊢
    have key : ∀ (l : List Quad) (m m' : SMap (List Str)),
        l.foldlM (fun hn q => (components q).foldlM (hnComp c ident issuer q) hn) m = .ok m' →
        total m' = total m + (l.map (relatedCount ident)).sum := by
      intro l
      induction l with
      | nil => intro m m' h; rw [foldlM_nil] at h; cases h; simp
      | cons q l ih =>
        intro m m' h
        cases hc : (components q).foldlM (hnComp c ident issuer q) m with
        | error e =>
          rw [foldlM_cons_err (fun hn q => (components q).foldlM (hnComp c ident issuer q) hn) m e q l hc] at h
          cases h
        | ok m1 =>
          rw [foldlM_cons_ok (fun hn q => (components q).foldlM (hnComp c ident issuer q) hn) m m1 q l hc] at h
          rw [ih m1 m' h, hnComps_total _ _ _ hc]
          simp only [List.map_cons, List.sum_cons, relatedCount_eq]
          omega
    have := key qs [] hn h
    simpa [total] using this

/-! ### success under generous limits -/

structure Lim (c : Ctx) : Prop where
  depth : ∀ d, d ≤ c.b2q.length → c.tooDeep d c.b2q.length = false
  perms : ∀ x, IsKey c x → relatedBound c.b2q x ≤ c.permLimit

def RecOK' (c : Ctx) (recur : Str → Issuer → Except HErr (Str × Issuer)) (L : Nat) : Prop :=
  ∀ rel ic, Inv c ic → IsKey c rel → L < ic.order.length →
    ∃ x, recur rel ic = .ok x ∧ ic.order <+: x.2.order ∧ Inv c x.2

theorem step545_ok {c : Ctx} {recur : Str → Issuer → Except HErr (Str × Issuer)} {L : Nat} (hr : RecOK' c recur L)
    (ic0 : Issuer) (cp : Str) (acc : Option (Issuer × Str)) (rel : Str) (hk : IsKey c rel)
    (hacc : ∀ a, acc = some a → L < a.1.order.length ∧ Inv c a.1 ∧ ic0.order <+: a.1.order) :
    ∃ acc', step545 recur cp acc rel = .ok acc' ∧
        ∀ a, acc' = some a → L < a.1.order.length ∧ Inv c a.1 ∧ ic0.order <+: a.1.order := by
  unfold step545
  cases acc with
  | none => exact ⟨none, rfl, fun a ha => nomatch ha⟩
  | some a0 =>
    obtain ⟨ic, path⟩ := a0
    obtain ⟨hL, hinv, hpre⟩ := hacc (ic, path) rfl
    simp only []
    obtain ⟨x, hx, hxp, hxi⟩ := hr rel ic hinv hk hL
    rw [hx, bind_ok]
    split
    · exact ⟨none, rfl, fun a ha => nomatch ha⟩
    · refine ⟨_, rfl, ?_⟩
      intro a ha
      injection ha with ha
      subst ha
      refine ⟨?_, hxi, List.IsPrefix.trans hpre hxp⟩
      have hle := List.IsPrefix.length_le hxp
      have hL' : L < ic.order.length := hL
      show L < x.2.order.length
      omega

theorem permBody_ok {c : Ctx} {recur : Str → Issuer → Except HErr (Str × Issuer)} {L : Nat} (hr : RecOK' c recur L)
    (base : Issuer) (hbase : Inv c base) (hL : L ≤ base.order.length) (ch : Chosen) (p : List Str)
    (hp : ∀ r ∈ p, IsKey c r) (hch : ∀ i, ch.issuer = some i → base.order <+: i.order ∧ Inv c i) :
    ∃ ch', permBody c recur base ch p = .ok ch' ∧ ∀ i, ch'.issuer = some i → base.order <+: i.order ∧ Inv c i := by
  unfold permBody
  simp only []
  have h4 := step544_inv c base p (base, [], []) hp (List.prefix_refl _) hbase (fun _ h => nomatch h) (fun h => absurd rfl h)
  simp only [] at h4
  obtain ⟨hpre, hinv, hkeys, hlen⟩ := h4
  split
  · exact ⟨ch, rfl, hch⟩
  · by_cases hnil : (List.foldl (step544 c) (base, [], []) p).2.2 = []
    · rw [hnil, foldlM_nil, bind_ok]
      simp only []
      split
      · refine ⟨_, rfl, ?_⟩
        intro i hi
        injection hi with hi
        subst hi
        exact ⟨hpre, hinv⟩
      · exact ⟨ch, rfl, hch⟩
    · have hgt : L < (List.foldl (step544 c) (base, [], []) p).1.order.length := by
        have := hlen hnil
        omega
      obtain ⟨r, hr', hP⟩ := foldlM_ok_inv
        (fun (acc : Option (Issuer × Str)) => ∀ a, acc = some a → L < a.1.order.length ∧ Inv c a.1 ∧
          (List.foldl (step544 c) (base, [], []) p).1.order <+: a.1.order)
        (step545 recur ch.path) (List.foldl (step544 c) (base, [], []) p).2.2
        (some ((List.foldl (step544 c) (base, [], []) p).1, (List.foldl (step544 c) (base, [], []) p).2.1))
        (by
          intro a ha
          injection ha with ha
          subst ha
          exact ⟨hgt, hinv, List.prefix_refl _⟩)
        (fun s rel hrel hs => step545_ok hr _ ch.path s rel (hkeys rel hrel) hs)
      rw [hr', bind_ok]
      cases r with
      | none => exact ⟨ch, rfl, hch⟩
      | some a =>
        obtain ⟨ic, path⟩ := a
        simp only []
        obtain ⟨_, hi2, hp2⟩ := hP (ic, path) rfl
        split
        · refine ⟨_, rfl, ?_⟩
          intro i hi
          injection hi with hi
          subst hi
          exact ⟨List.IsPrefix.trans hpre hp2, hi2⟩
        · exact ⟨ch, rfl, hch⟩

theorem hnEntry_ok {c : Ctx} {recur : Str → Issuer → Except HErr (Str × Issuer)} (issuer : Issuer)
    (hiss : Inv c issuer) (hr : RecOK' c recur issuer.order.length) (acc : Str × Option Issuer) (e : Str × List Str)
    (he : ∀ r ∈ e.2, IsKey c r) (hlen : e.2.length ≤ c.permLimit)
    (hacc : issuer.order <+: (acc.2.getD issuer).order ∧ Inv c (acc.2.getD issuer)) :
    ∃ acc', hnEntry c recur issuer acc e = .ok acc' ∧
        issuer.order <+: (acc'.2.getD issuer).order ∧ Inv c (acc'.2.getD issuer) := by
  unfold hnEntry
  have hnot : ¬ e.2.length > c.permLimit := by omega
  rw [if_neg hnot]
  have hL : issuer.order.length ≤ (acc.2.getD issuer).order.length := List.IsPrefix.length_le hacc.1
  obtain ⟨ch, hch, hP⟩ := foldlM_ok_inv
      (fun (ch : Chosen) => ∀ i, ch.issuer = some i → (acc.2.getD issuer).order <+: i.order ∧ Inv c i)
      (permBody c recur (acc.2.getD issuer)) (heapPerms e.2) ⟨[], none⟩ (fun i hi => nomatch hi)
      (fun ch p hp hch => permBody_ok hr _ hacc.2 hL ch p
        (fun r hr' => he r (mem_heapPerms e.2 p hp r hr')) hch)
  rw [hch, bind_ok]
  refine ⟨_, rfl, ?_⟩
  simp only []
  cases hci : ch.issuer with
  | none => exact ⟨List.prefix_refl _, hiss⟩
  | some i =>
    obtain ⟨h1, h2⟩ := hP i hci
    exact ⟨List.IsPrefix.trans hacc.1 h1, h2⟩

/-- **Hash N-Degree Quads succeeds within the limits** -/
theorem hashNDegree_ok {c : Ctx} (hc : Closed c) (hl : Lim c) : ∀ (fuel : Nat) (ident : Str) (issuer : Issuer) (depth : Nat),
    IsKey c ident → Inv c issuer → c.b2q.length < fuel + issuer.order.length → depth < issuer.order.length →
    ∃ x, hashNDegree c fuel ident issuer depth = .ok x ∧ issuer.order <+: x.2.order ∧ Inv c x.2 := by
  intro fuel
  induction fuel with
  | zero =>
    intro ident issuer depth _ hinv hlen _
    have := inv_len hinv
    omega
  | succ fuel ih =>
    intro ident issuer depth hk hinv hlen hdepth
    simp only [hashNDegree]
    have hd : c.tooDeep depth c.b2q.length = false := hl.depth depth (by have := inv_len hinv; omega)
    rw [hd]
    simp only [Bool.false_eq_true, if_false]
    obtain ⟨hn, hb, hkeys⟩ := buildHn_ok hc hk issuer
    rw [hb, bind_ok]
    have htot := buildHn_total hb
    have hrec : RecOK' c (fun rel ic => hashNDegree c fuel rel ic (depth + 1)) issuer.order.length := by
      intro rel ic hic hrel hL
      exact ih rel ic (depth + 1) hrel hic (by omega) (by omega)
    obtain ⟨r, hr, hP⟩ := foldlM_ok_inv
        (fun (acc : Str × Option Issuer) => issuer.order <+: (acc.2.getD issuer).order ∧ Inv c (acc.2.getD issuer))
        (hnEntry c (fun rel ic => hashNDegree c fuel rel ic (depth + 1)) issuer) hn ([], none)
        ⟨List.prefix_refl _, hinv⟩
        (fun acc e he hacc => hnEntry_ok issuer hinv hrec acc e (hkeys e he)
          (by have := mem_le_total he; have := hl.perms ident hk; omega) hacc)
    rw [hr, bind_ok]
    exact ⟨_, rfl, hP.1, hP.2⟩

end SophiaProofs.Rdfc10L

namespace SophiaProofs.Rdfc10L
open SophiaModel SophiaModel.Rdfc10

theorem lim_of_withinLimits {H : Str → Str} {b2q : SMap (List Quad)} {b2h : SMap Str} {td : Nat → Nat → Bool} {pl : Nat}
    (hw : withinLimits td pl b2q = true) (can : Issuer) : Lim ⟨H, b2q, b2h, can, td, pl⟩ where
  depth := by
    intro d hd
    unfold withinLimits at hw
    have h2 := (Bool.and_eq_true _ _).mp hw |>.2
    have := List.all_eq_true.mp h2 d (List.mem_range.mpr (by show d < b2q.length + 1; have : d ≤ b2q.length := hd; omega))
    simpa using this
  perms := by
    intro x hx
    unfold withinLimits at hw
    have h1 := (Bool.and_eq_true _ _).mp hw |>.1
    have hx' : (b2q.get x).isSome = true := hx
    cases hg : b2q.get x with
    | none => rw [hg] at hx'; cases hx'
    | some qs =>
      have := List.all_eq_true.mp h1 (x, qs) (mem_of_get b2q x qs hg)
      show relatedBound b2q x ≤ pl
      simpa using this

theorem step5Group_ok' {H : Str → Str} {b2q : SMap (List Quad)} {b2h : SMap Str} {td : Nat → Nat → Bool} {pl : Nat}
    (hcl : ∀ can, Closed ⟨H, b2q, b2h, can, td, pl⟩) (hw : withinLimits td pl b2q = true)
    (can : Issuer) (hcan : CanonKeys b2q can) (e : Str × List Str) (he : ∀ n ∈ e.2, (b2q.get n).isSome = true) :
    ∃ can', step5Group H b2q b2h td pl (b2q.length + 1) can e = .ok can' ∧ CanonKeys b2q can' := by
  rcases step5Group_safe hcl can hcan e he with h | ⟨err, herr, _⟩
  · exact h
  · -- an error would have to come from one of the calls of Hash N-Degree Quads, which all succeed
    exfalso
    unfold step5Group at herr
    simp only [] at herr
    obtain ⟨hpl, hh, _⟩ := foldlM_ok_inv (fun (_ : List (Str × Issuer)) => True)
      (fun (acc : List (Str × Issuer)) n => do
        let r ← hashNDegree ⟨H, b2q, b2h, can, td, pl⟩ (b2q.length + 1) n ((Issuer.new ['b']).issue' n) 0
        Except.ok (acc ++ [r])) e.2 [] trivial
      (by
        intro acc n hn _
        have hk : IsKey ⟨H, b2q, b2h, can, td, pl⟩ n := he n hn
        have hinv := inv_new_issue (c := ⟨H, b2q, b2h, can, td, pl⟩) ['b'] hk
        have hone : 0 < ((Issuer.new ['b']).issue' n).order.length := by
          have := mem_issue (Issuer.new ['b']) n (wf_new _)
          exact List.length_pos_of_mem this
        obtain ⟨x, hx, _, _⟩ := hashNDegree_ok (hcl can) (lim_of_withinLimits hw can) (b2q.length + 1) n _ 0 hk hinv
          (by show b2q.length < _; omega) hone
        exact ⟨acc ++ [x], by rw [hx]; rfl, trivial⟩)
    rw [hh, bind_ok] at herr
    cases herr

theorem step5_ok' {H : Str → Str} {b2q : SMap (List Quad)} {b2h : SMap Str} {td : Nat → Nat → Bool} {pl : Nat}
    (hcl : ∀ can, Closed ⟨H, b2q, b2h, can, td, pl⟩) (hw : withinLimits td pl b2q = true) (h2b : SMap (List Str))
    (hh : ∀ e ∈ h2b, ∀ n ∈ e.2, (b2q.get n).isSome = true) (can : Issuer) (hcan : CanonKeys b2q can) :
    ∃ can', step5 H b2q b2h td pl (b2q.length + 1) h2b can = .ok can' ∧ CanonKeys b2q can' := by
  unfold step5
  exact foldlM_ok_inv (CanonKeys b2q) _ h2b can hcan
    (fun cn e he hcn => step5Group_ok' hcl hw cn hcn e (hh e he))

/-- **never fails within the limits**: after a successful step 2 (IRI predicates), a dataset that is
statically within the configured limits is relabelled successfully -/
theorem relabelWith_ok_within {H : Str → Str} {td : Nat → Nat → Bool} {pl : Nat} {D : List Quad}
    {b2q : SMap (List Quad)} (hflag : Gen.predicateMustBeIri = true) (h2 : step2 D = .ok b2q)
    (hw : withinLimits td pl b2q = true) : ∃ r, relabelWith H td pl D = .ok r := by
  have h4 := step4_keys b2q (step3 H b2q).1 (step3_lists_keys H (step2_spec h2).1) (Issuer.new "c14n".toList)
    (fun _ h => nomatch h)
  obtain ⟨can, h5, _⟩ := step5_ok' (H := H) (b2h := (step3 H b2q).2)
    (fun can => closed_of_step2 h2 hflag can td pl) hw _ h4.1 _ h4.2
  cases hr : relabelWith H td pl D with
  | ok r => exact ⟨r, rfl⟩
  | error e =>
    exfalso
    unfold relabelWith at hr
    rw [h2, bind_ok] at hr
    simp only [] at hr
    rw [h5] at hr
    simp only [liftH, bind_ok] at hr
    cases hm : D.mapM (convertQuad can.issued) with
    | ok out => rw [hm, bind_ok] at hr; cases hr
    | error e' =>
      obtain ⟨q, hq, hqe⟩ := mapM_error _ _ _ hm
      -- a failing conversion is a label without canonical identifier: excluded by `canonical_total`
      have htot := @canonical_total H td pl D b2q can h2 (by unfold canon4; exact h5)
      have hconv : ∀ t, (∃ c ∈ components q, c.1 = t) → ∀ e'', convert can.issued t ≠ .error e'' := by
        intro t ⟨c, hc, hct⟩ e'' hconv
        cases t with
        | bnode b =>
          simp only [convert] at hconv
          have hne : D.flatMap (refsOf b) ≠ [] := (refs_ne_nil_iff D b).mpr ⟨q, hq, c, hc, hct⟩
          have hget := step2_get h2 b
          rw [if_neg hne] at hget
          have := htot b _ hget
          cases hg : can.issued.get b with
          | none => rw [hg] at this; cases this
          | some c' => rw [hg] at hconv; cases hconv
        | iri _ => simp only [convert] at hconv; cases hconv
        | lit _ _ => simp only [convert] at hconv; cases hconv
        | lang _ _ => simp only [convert] at hconv; cases hconv
        | triple _ _ _ => simp only [convert] at hconv; cases hconv
        | var _ => simp only [convert] at hconv; cases hconv
      unfold convertQuad at hqe
      cases hs : convert can.issued q.s with
      | error e1 => exact hconv q.s ⟨(q.s, ['s']), by simp [components], rfl⟩ e1 hs
      | ok s =>
        rw [hs, bind_ok] at hqe
        cases hp : convert can.issued q.p with
        | error e1 => exact hconv q.p ⟨(q.p, ['p']), by simp [components], rfl⟩ e1 hp
        | ok p =>
          rw [hp, bind_ok] at hqe
          cases ho : convert can.issued q.o with
          | error e1 => exact hconv q.o ⟨(q.o, ['o']), by simp [components], rfl⟩ e1 ho
          | ok o =>
            rw [ho, bind_ok] at hqe
            cases hg : convertG can.issued q.g with
            | ok g => rw [hg, bind_ok] at hqe; cases hqe
            | error e1 =>
              cases hqg : q.g with
              | none => rw [hqg] at hg; simp only [convertG] at hg; cases hg
              | some g =>
                rw [hqg] at hg
                simp only [convertG] at hg
                cases hc : convert can.issued g with
                | ok g' => rw [hc] at hg; cases hg
                | error e2 => exact hconv g ⟨(g, ['g']), by simp [components, hqg], rfl⟩ e2 hc

end SophiaProofs.Rdfc10L
