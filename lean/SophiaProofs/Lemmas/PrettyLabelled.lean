/- `build_labelled` of `SophiaModel.Pretty`: once a profile is `bad` it stays bad, and the
occurrences that set it. -/
import SophiaModel.Model.Pretty
import SophiaProofs.Lemmas.TermOrder
import SophiaProofs.Props.C02

namespace SophiaProofs.Lemmas.PrettyLabelled
open SophiaModel Pretty Term

/-- the profile of label `l` exists and is marked `bad` -/
def Bad (ps : Profiles) (l : Str) : Prop := ∃ p, pGet ps l = some p ∧ p.bad = true

/-! ### the association list -/

theorem pGet_pModify (ps : Profiles) (k l : Str) (f : Profile → Profile) :
    pGet (pModify ps k f) l = if l == k then (pGet ps l).map f else pGet ps l := by
  induction ps with
  | nil => simp [pModify, pGet]
  | cons e rest ih =>
    obtain ⟨k', p'⟩ := e
    unfold pModify at ih ⊢
    simp only [List.map_cons]
    by_cases hk : (k' == k) = true
    · simp only [hk, ↓reduceIte]
      have hkk : k' = k := by simpa using hk
      subst hkk
      by_cases hl : (k' == l) = true
      · have : l = k' := by have := (beq_iff_eq.mp hl); exact this.symm
        subst this
        simp [pGet]
      · have hl' : (l == k') = false := by
          cases h : (l == k') with
          | false => rfl
          | true => exact absurd (by have := beq_iff_eq.mp h; simp [this]) hl
        simp only [pGet, hl, Bool.false_eq_true, ↓reduceIte, hl']
        rw [ih]
        simp [hl']
    · simp only [hk, Bool.false_eq_true, ↓reduceIte]
      by_cases hl : (k' == l) = true
      · have hkl : k' = l := by simpa using hl
        have hlk : (l == k) = false := by
          cases h : (l == k) with
          | false => rfl
          | true => exact absurd (by have := beq_iff_eq.mp h; rw [hkl, this]; simp) hk
        simp [pGet, hl, hlk]
      · simp only [pGet, hl, Bool.false_eq_true, ↓reduceIte]
        exact ih

theorem strCmp_eq_iff (a b : Str) : strCmp a b = .eq ↔ a = b := by
  constructor
  · intro h
    by_cases hab : a = b
    · exact hab
    · exact absurd h (SophiaProofs.strCmp_ne_of_ne hab)
  · intro h; rw [h]; exact SophiaProofs.strCmp_refl b

theorem pGet_pInsert (ps : Profiles) (k l : Str) (p : Profile) :
    pGet (pInsert ps k p) l = if k == l then some p else pGet ps l := by
  induction ps with
  | nil => simp [pInsert, pGet]
  | cons e rest ih =>
    obtain ⟨k', p'⟩ := e
    unfold pInsert
    cases hc : strCmp k k' with
    | lt =>
      simp only
      by_cases hl : (k == l) = true
      · simp [pGet, hl]
      · simp only [pGet, hl, Bool.false_eq_true, ↓reduceIte]
    | eq =>
      have hkk : k = k' := (strCmp_eq_iff k k').mp hc
      subst hkk
      simp only
      by_cases hl : (k == l) = true
      · simp [pGet, hl]
      · simp only [pGet, hl, Bool.false_eq_true, ↓reduceIte]
    | gt =>
      simp only
      have hne : k ≠ k' := by
        intro h; rw [h, SophiaProofs.strCmp_refl] at hc; cases hc
      by_cases hl' : (k' == l) = true
      · have : k' = l := by simpa using hl'
        subst this
        have : (k == k') = false := by simpa using hne
        simp [pGet, this]
      · simp only [pGet, hl', Bool.false_eq_true, ↓reduceIte]
        exact ih

/-! ### `bad` is never cleared -/

/-- a profile update that never clears `bad` -/
def Mono (f : Profile → Profile) : Prop := ∀ p, p.bad = true → (f p).bad = true

theorem bad_pModify (ps : Profiles) (k l : Str) (f : Profile → Profile) (hf : Mono f) (h : Bad ps l) :
    Bad (pModify ps k f) l := by
  obtain ⟨p, hp, hb⟩ := h
  rw [Bad, pGet_pModify]
  by_cases hl : (l == k) = true
  · simp only [hl, ↓reduceIte, hp, Option.map_some]
    exact ⟨f p, rfl, hf p hb⟩
  · simp only [hl, Bool.false_eq_true, ↓reduceIte]
    exact ⟨p, hp, hb⟩

theorem bad_pInsert_absent (ps : Profiles) (k l : Str) (p : Profile) (hk : pGet ps k = none) (h : Bad ps l) :
    Bad (pInsert ps k p) l := by
  obtain ⟨q, hq, hb⟩ := h
  rw [Bad, pGet_pInsert]
  by_cases hl : (k == l) = true
  · have : k = l := by simpa using hl
    subst this
    rw [hk] at hq; cases hq
  · simp only [hl, Bool.false_eq_true, ↓reduceIte]
    exact ⟨q, hq, hb⟩

theorem mono_seeBnode_f (i : Nat) (q : Quad) :
    Mono (fun p => if p.bad then p else updatePositions (addNamedGraph p q.g) i q) := by
  intro p hb
  simp [hb]

theorem bad_seeBnode (ps : Profiles) (i : Nat) (q : Quad) (k l : Str) (h : Bad ps l) :
    Bad (seeBnode ps i q k) l := by
  unfold seeBnode
  cases hk : pGet ps k with
  | some _ => exact bad_pModify ps k l _ (mono_seeBnode_f i q) h
  | none => exact bad_pInsert_absent ps k l _ hk h

theorem bad_seeQuoted (ps : Profiles) (k l : Str) (h : Bad ps l) : Bad (seeQuotedBnode ps k) l := by
  unfold seeQuotedBnode
  cases hk : pGet ps k with
  | some _ => exact bad_pModify ps k l _ (fun _ _ => rfl) h
  | none => exact bad_pInsert_absent ps k l _ hk h

/-- a blank node met inside a quoted triple is bad afterwards -/
theorem seeQuoted_sets (ps : Profiles) (l : Str) : Bad (seeQuotedBnode ps l) l := by
  unfold seeQuotedBnode
  cases hk : pGet ps l with
  | some p =>
    rw [Bad, pGet_pModify]
    simp only [beq_self_eq_true, ↓reduceIte, hk, Option.map_some]
    exact ⟨_, rfl, rfl⟩
  | none =>
    rw [Bad, pGet_pInsert]
    simp only [beq_self_eq_true, ↓reduceIte]
    exact ⟨_, rfl, rfl⟩

/-- a blank node met as predicate (1) or graph name (3) is bad afterwards -/
theorem seeBnode_sets (ps : Profiles) (i : Nat) (q : Quad) (l : Str) (hi : i = 1 ∨ i = 3) :
    Bad (seeBnode ps i q l) l := by
  unfold seeBnode
  cases hk : pGet ps l with
  | some p =>
    rw [Bad, pGet_pModify]
    simp only [beq_self_eq_true, ↓reduceIte, hk, Option.map_some]
    refine ⟨_, rfl, ?_⟩
    by_cases hb : p.bad = true
    · simp [hb]
    · simp only [hb, Bool.false_eq_true, ↓reduceIte]
      rcases hi with rfl | rfl <;> simp [updatePositions]
  | none =>
    rw [Bad, pGet_pInsert]
    simp only [beq_self_eq_true, ↓reduceIte]
    refine ⟨_, rfl, ?_⟩
    rcases hi with rfl | rfl <;> simp

/-! ### folds -/

theorem foldl_pres {α σ : Type} (P : σ → Prop) (f : σ → α → σ) (xs : List α)
    (pres : ∀ s x, P s → P (f s x)) (s0 : σ) (h : P s0) : P (xs.foldl f s0) := by
  induction xs generalizing s0 with
  | nil => exact h
  | cons y ys ih => exact ih (f s0 y) (pres s0 y h)

/-- a property preserved by every step and established by the step at some element holds at the end -/
theorem foldl_sets {α σ : Type} (P : σ → Prop) (f : σ → α → σ) (xs : List α) (x0 : α) (hx : x0 ∈ xs)
    (pres : ∀ s x, P s → P (f s x)) (sets : ∀ s, P (f s x0)) (s0 : σ) : P (xs.foldl f s0) := by
  induction xs generalizing s0 with
  | nil => cases hx
  | cons y ys ih =>
    simp only [List.foldl_cons]
    rcases List.mem_cons.mp hx with rfl | hx
    · exact foldl_pres P f ys pres _ (sets s0)
    · exact ih hx (f s0 y)

def atomStep (ps : Profiles) (a : Term) : Profiles :=
  match a with | .bnode l => seeQuotedBnode ps l | _ => ps

theorem bad_atomStep (ps : Profiles) (a : Term) (l : Str) (h : Bad ps l) : Bad (atomStep ps a) l := by
  unfold atomStep
  split
  · exact bad_seeQuoted ps _ l h
  · exact h

theorem bad_seeTerm (ps : Profiles) (i : Nat) (q : Quad) (t : Term) (l : Str) (h : Bad ps l) :
    Bad (seeTerm ps i q t) l := by
  unfold seeTerm
  split
  · exact bad_seeBnode ps i q _ l h
  · exact foldl_pres (fun s => Bad s l) _ _ (fun s a hs => bad_atomStep s a l hs) ps h
  · exact h

def quadStep (ps : Profiles) (q : Quad) : Profiles :=
  (spogEnum q).foldl (fun ps it => seeTerm ps it.1 q it.2) ps

theorem bad_quadStep (ps : Profiles) (q : Quad) (l : Str) (h : Bad ps l) : Bad (quadStep ps q) l :=
  foldl_pres (fun s => Bad s l) _ _ (fun s it hs => bad_seeTerm s it.1 q it.2 l hs) ps h

/-- the occurrences that force a label: predicate, graph name, or anywhere inside a quoted triple -/
def ForcedIn (l : Str) (q : Quad) : Prop :=
  ∃ it ∈ spogEnum q,
    (it.2 = .bnode l ∧ (it.1 = 1 ∨ it.1 = 3)) ∨
    ((∃ a b c, it.2 = .triple a b c) ∧ .bnode l ∈ atoms it.2)

theorem seeTerm_sets (ps : Profiles) (q : Quad) (it : Nat × Term) (l : Str)
    (h : (it.2 = .bnode l ∧ (it.1 = 1 ∨ it.1 = 3)) ∨ ((∃ a b c, it.2 = .triple a b c) ∧ .bnode l ∈ atoms it.2)) :
    Bad (seeTerm ps it.1 q it.2) l := by
  rcases h with ⟨ht, hi⟩ | ⟨⟨a, b, c, ht⟩, hmem⟩
  · rw [ht]
    exact seeBnode_sets ps it.1 q l hi
  · rw [ht] at hmem ⊢
    unfold seeTerm
    simp only
    exact foldl_sets (fun s => Bad s l) (fun ps a => match a with | .bnode l => seeQuotedBnode ps l | _ => ps)
      _ (.bnode l) hmem (fun s a hs => bad_atomStep s a l hs) (fun s => seeQuoted_sets s l) ps

theorem quadStep_sets (ps : Profiles) (q : Quad) (l : Str) (h : ForcedIn l q) : Bad (quadStep ps q) l := by
  obtain ⟨it, hit, hc⟩ := h
  exact foldl_sets (fun s => Bad s l) _ _ it hit (fun s x hs => bad_seeTerm s x.1 q x.2 l hs)
    (fun s => seeTerm_sets s q it l hc) ps

theorem buildProfiles_sets (d : List Quad) (q : Quad) (hq : q ∈ d) (l : Str) (h : ForcedIn l q) :
    Bad (buildProfiles d) l :=
  foldl_sets (fun s => Bad s l) quadStep d q hq (fun s x hs => bad_quadStep s x l hs)
    (fun s => quadStep_sets s q l h) []

/-! ### the cycle detection keeps `bad` -/

theorem bad_cycleWalk (key : Str) (n fuel : Nat) (ps : Profiles) (cur : Option Term) (l : Str) (h : Bad ps l) :
    Bad (cycleWalk key n fuel ps cur) l := by
  induction fuel generalizing ps cur with
  | zero => unfold cycleWalk; exact h
  | succ f ih =>
    unfold cycleWalk
    cases cur with
    | none => exact h
    | some t =>
      simp only
      cases t with
      | bnode k =>
        simp only
        cases hk : pGet ps k with
        | none => exact h
        | some p =>
          simp only
          split
          · exact bad_pModify ps k l _ (fun _ _ => rfl) h
          · split
            · exact h
            · split
              · split
                · exact bad_pModify ps k l _ (fun _ _ => rfl) h
                · exact h
              · exact ih _ _ (bad_pModify ps k l _ (fun _ hb => hb) h)
      | iri _ => exact h
      | lit _ _ => exact h
      | lang _ _ => exact h
      | triple _ _ _ => exact h
      | var _ => exact h

theorem bad_detectCycles (ps : Profiles) (l : Str) (h : Bad ps l) : Bad (detectCycles ps) l := by
  unfold detectCycles
  have : ∀ (keys : List Str) (acc : Profiles × Nat), Bad acc.1 l →
      Bad (keys.foldl (fun (acc : Profiles × Nat) key =>
        let (ps, n) := acc
        match pGet ps key with
        | none => (ps, n + 1)
        | some p =>
          if p.bad || p.visited != 0 then (ps, n + 1)
          else (cycleWalk key n (ps.length + 1) (pModify ps key (fun p => { p with visited := n })) p.pred, n + 1))
        acc).1 l := by
    intro keys
    induction keys with
    | nil => intro acc h; exact h
    | cons k ks ih =>
      intro acc hacc
      simp only [List.foldl_cons]
      apply ih
      obtain ⟨ps', n⟩ := acc
      simp only
      cases hk : pGet ps' k with
      | none => exact hacc
      | some p =>
        simp only
        split
        · exact hacc
        · exact bad_cycleWalk k n _ _ _ l (bad_pModify ps' k l _ (fun _ hb => hb) hacc)
  exact this _ (ps, 1) h

theorem pGet_mem {ps : Profiles} {l : Str} {p : Profile} (h : pGet ps l = some p) : (l, p) ∈ ps := by
  induction ps with
  | nil => simp [pGet] at h
  | cons e rest ih =>
    obtain ⟨k', p'⟩ := e
    unfold pGet at h
    by_cases hk : (k' == l) = true
    · simp only [hk, ↓reduceIte, Option.some.injEq] at h
      have : k' = l := by simpa using hk
      rw [this, h]
      exact List.mem_cons_self
    · simp only [hk, Bool.false_eq_true, ↓reduceIte] at h
      exact List.mem_cons_of_mem _ (ih h)

theorem labelled_of_bad (d : List Quad) (l : Str) (h : Bad (buildProfiles d) l) : l ∈ buildLabelled d := by
  obtain ⟨p, hp, hb⟩ := bad_detectCycles _ l h
  unfold buildLabelled
  exact List.mem_map.mpr ⟨(l, p), List.mem_filter.mpr ⟨pGet_mem hp, hb⟩, rfl⟩

theorem buildProfiles_eq (d : List Quad) : buildProfiles d = d.foldl quadStep [] := rfl

/-! ### counting incoming arcs: an unlabelled node is the object of at most one quad -/

/-- the occurrences `build_labelled` visits, in order: (position, quad, term) -/
def occs (d : List Quad) : List (Nat × Quad × Term) :=
  d.flatMap (fun q => (spogEnum q).map (fun it => (it.1, q, it.2)))

def occStep (ps : Profiles) (o : Nat × Quad × Term) : Profiles := seeTerm ps o.1 o.2.1 o.2.2

theorem buildProfiles_occs (d : List Quad) : buildProfiles d = (occs d).foldl occStep [] := by
  unfold buildProfiles occs
  generalize ([] : Profiles) = ps
  induction d generalizing ps with
  | nil => rfl
  | cons q qs ih =>
    simp only [List.foldl_cons, List.flatMap_cons, List.foldl_append]
    rw [ih]
    congr 1
    rw [List.foldl_map]
    rfl

def isObjOcc (l : Str) (o : Nat × Quad × Term) : Bool := o.1 == 2 && o.2.2 == Term.bnode l

def objCount (l : Str) (os : List (Nat × Quad × Term)) : Nat := (os.filter (isObjOcc l)).length

/-- profile of `l` vs number `n` of object occurrences processed so far -/
def ObjInv (l : Str) (ps : Profiles) (n : Nat) : Prop :=
  match pGet ps l with
  | none => n = 0
  | some p => p.bad = true ∨ (n = 0 ∧ p.pred = none) ∨ (n = 1 ∧ p.pred.isSome = true)

theorem objInv_of_same (l : Str) (ps ps' : Profiles) (n : Nat) (h : pGet ps' l = pGet ps l) (hi : ObjInv l ps n) :
    ObjInv l ps' n := by
  unfold ObjInv at hi ⊢
  rw [h]; exact hi

theorem objInv_of_bad (l : Str) (ps : Profiles) (n : Nat) (h : Bad ps l) : ObjInv l ps n := by
  obtain ⟨p, hp, hb⟩ := h
  unfold ObjInv
  rw [hp]
  exact Or.inl hb

theorem pGet_seeQuoted_other (ps : Profiles) (k l : Str) (h : k ≠ l) : pGet (seeQuotedBnode ps k) l = pGet ps l := by
  unfold seeQuotedBnode
  cases pGet ps k with
  | some _ =>
    rw [pGet_pModify]
    have : (l == k) = false := by simpa using (Ne.symm h)
    simp [this]
  | none =>
    rw [pGet_pInsert]
    have : (k == l) = false := by simpa using h
    simp [this]

theorem pGet_seeBnode_other (ps : Profiles) (i : Nat) (q : Quad) (k l : Str) (h : k ≠ l) :
    pGet (seeBnode ps i q k) l = pGet ps l := by
  unfold seeBnode
  cases pGet ps k with
  | some _ =>
    rw [pGet_pModify]
    have : (l == k) = false := by simpa using (Ne.symm h)
    simp [this]
  | none =>
    rw [pGet_pInsert]
    have : (k == l) = false := by simpa using h
    simp [this]

theorem objInv_atomStep (l : Str) (ps : Profiles) (a : Term) (n : Nat) (h : ObjInv l ps n) :
    ObjInv l (atomStep ps a) n := by
  unfold atomStep
  split
  · rename_i k
    by_cases hk : k = l
    · subst hk
      exact objInv_of_bad _ _ n (seeQuoted_sets ps k)
    · exact objInv_of_same l ps _ n (pGet_seeQuoted_other ps k l hk) h
  · exact h

theorem addNamedGraph_pred (p : Profile) (g : GName) : (addNamedGraph p g).pred = p.pred := rfl

theorem objInv_seeBnode_self (l : Str) (ps : Profiles) (i : Nat) (q : Quad) (n : Nat) (h : ObjInv l ps n) :
    ObjInv l (seeBnode ps i q l) (n + if i == 2 then 1 else 0) := by
  unfold ObjInv at h
  unfold seeBnode
  cases hk : pGet ps l with
  | none =>
    rw [hk] at h
    subst h
    unfold ObjInv
    rw [pGet_pInsert]
    simp only [beq_self_eq_true, ↓reduceIte]
    by_cases hi : (i == 2) = true
    · simp [hi]
    · simp [hi]
  | some p =>
    rw [hk] at h
    simp only at h
    unfold ObjInv
    rw [pGet_pModify]
    simp only [beq_self_eq_true, ↓reduceIte, hk, Option.map_some]
    by_cases hb : p.bad = true
    · simp [hb]
    · simp only [hb, Bool.false_eq_true, ↓reduceIte]
      have h' : (n = 0 ∧ p.pred = none) ∨ (n = 1 ∧ p.pred.isSome = true) := by
        rcases h with h | h
        · exact absurd h hb
        · exact h
      unfold updatePositions
      by_cases h0 : (i == 0) = true
      · have : (i == 2) = false := by
          have : i = 0 := by simpa using h0
          subst this; rfl
        simp only [h0, ↓reduceIte, this, Bool.false_eq_true, Nat.add_zero]
        by_cases hb1 : (addNamedGraph p q.g).bad = true
        · exact Or.inl hb1
        · exact Or.inr (by rw [addNamedGraph_pred]; exact h')
      · simp only [h0, Bool.false_eq_true, ↓reduceIte]
        by_cases h2 : (i == 2) = true
        · simp only [h2, ↓reduceIte, addNamedGraph_pred]
          rcases h' with ⟨hn, hp⟩ | ⟨hn, hp⟩
          · simp only [hp, Option.isNone_none, ↓reduceIte]
            right; right
            exact ⟨by omega, rfl⟩
          · have : p.pred.isNone = false := by
              cases hpp : p.pred <;> simp [hpp] at hp ⊢
            simp only [this, Bool.false_eq_true, ↓reduceIte]
            exact Or.inl trivial
        · simp only [h2, Bool.false_eq_true, ↓reduceIte]
          exact Or.inl trivial

theorem objInv_occStep (l : Str) (ps : Profiles) (o : Nat × Quad × Term) (n : Nat) (h : ObjInv l ps n) :
    ObjInv l (occStep ps o) (n + if isObjOcc l o then 1 else 0) := by
  obtain ⟨i, q, t⟩ := o
  unfold occStep seeTerm isObjOcc
  simp only
  cases t with
  | bnode k =>
    simp only
    by_cases hk : k = l
    · subst hk
      have := objInv_seeBnode_self k ps i q n h
      simpa using this
    · have hne : (Term.bnode k == Term.bnode l) = false := by
        simp only [beq_eq_false_iff_ne, ne_eq, Term.bnode.injEq]
        exact hk
      simp only [hne, Bool.and_false, Bool.false_eq_true, ↓reduceIte, Nat.add_zero]
      exact objInv_of_same l ps _ n (pGet_seeBnode_other ps i q k l hk) h
  | triple a b c =>
    have hne : (Term.triple a b c == Term.bnode l) = false := by simp
    simp only [hne, Bool.and_false, Bool.false_eq_true, ↓reduceIte, Nat.add_zero]
    exact foldl_pres (fun s => ObjInv l s n) _ _ (fun s x hs => objInv_atomStep l s x n hs) ps h
  | iri s =>
    have hne : (Term.iri s == Term.bnode l) = false := by simp
    simpa [hne] using h
  | lit a b =>
    have hne : (Term.lit a b == Term.bnode l) = false := by simp
    simpa [hne] using h
  | lang a b =>
    have hne : (Term.lang a b == Term.bnode l) = false := by simp
    simpa [hne] using h
  | var s =>
    have hne : (Term.var s == Term.bnode l) = false := by simp
    simpa [hne] using h

theorem objInv_fold (l : Str) (os : List (Nat × Quad × Term)) (ps : Profiles) (n : Nat) (h : ObjInv l ps n) :
    ObjInv l (os.foldl occStep ps) (n + objCount l os) := by
  induction os generalizing ps n with
  | nil => simpa [objCount] using h
  | cons o rest ih =>
    simp only [List.foldl_cons]
    have := ih _ _ (objInv_occStep l ps o n h)
    unfold objCount at this ⊢
    simp only [List.filter_cons]
    by_cases ho : isObjOcc l o = true
    · simp only [ho, ↓reduceIte, List.length_cons] at this ⊢
      rw [Nat.add_assoc, Nat.add_comm 1] at this
      exact this
    · simp only [ho, Bool.false_eq_true, ↓reduceIte, Nat.add_zero] at this ⊢
      exact this

theorem objCount_occs (l : Str) (d : List Quad) :
    objCount l (occs d) = (d.filter (fun q => q.o == Term.bnode l)).length := by
  unfold objCount occs
  induction d with
  | nil => rfl
  | cons q qs ih =>
    simp only [List.flatMap_cons, List.filter_append, List.length_append, ih, List.filter_cons]
    have : ((List.map (fun it => (it.1, q, it.2)) (spogEnum q)).filter (isObjOcc l)).length
        = if q.o == Term.bnode l then 1 else 0 := by
      unfold spogEnum isObjOcc
      cases q.g <;> by_cases ho : (q.o == Term.bnode l) = true <;> simp [ho]
    rw [this]
    by_cases ho : (q.o == Term.bnode l) = true
    · simp [ho]; omega
    · simp [ho]

theorem not_bad_of_unlabelled (d : List Quad) (l : Str) (hl : l ∉ buildLabelled d) : ¬ Bad (buildProfiles d) l :=
  fun hb => hl (labelled_of_bad d l hb)

/-- an unlabelled blank node is the object of at most one quad of the dataset -/
theorem unlabelled_obj_le_one (d : List Quad) (l : Str) (hl : l ∉ buildLabelled d) :
    (d.filter (fun q => q.o == Term.bnode l)).length ≤ 1 := by
  have hinv := objInv_fold l (occs d) [] 0 (by simp [ObjInv, pGet])
  rw [← buildProfiles_occs, objCount_occs, Nat.zero_add] at hinv
  have hnb := not_bad_of_unlabelled d l hl
  unfold ObjInv at hinv
  cases hp : pGet (buildProfiles d) l with
  | none => rw [hp] at hinv; simp only at hinv; omega
  | some p =>
    rw [hp] at hinv
    simp only at hinv
    rcases hinv with hb | ⟨h0, _⟩ | ⟨h1, _⟩
    · exact absurd ⟨p, hp, hb⟩ hnb
    · omega
    · omega

theorem termEq_bnode (t : Term) (l : Str) (h : termEq t (.bnode l) = true) : t = .bnode l := by
  cases t <;> simp [termEq] at h
  rw [h]

theorem filter_length_le_of_imp {α : Type} (p q : α → Bool) (h : ∀ x, p x = true → q x = true) (l : List α) :
    (l.filter p).length ≤ (l.filter q).length := by
  induction l with
  | nil => simp
  | cons x xs ih =>
    simp only [List.filter_cons]
    by_cases hp : p x = true
    · simp only [hp, h x hp, ↓reduceIte, List.length_cons]; omega
    · by_cases hq : q x = true
      · simp only [hp, hq, Bool.false_eq_true, ↓reduceIte, List.length_cons]; omega
      · simp only [hp, hq, Bool.false_eq_true, ↓reduceIte]; exact ih

theorem unlabelled_inArcs_le_one (d : List Quad) (l : Str) (hl : l ∉ buildLabelled d) (g : GName) :
    inArcs d (.bnode l) g ≤ 1 := by
  unfold inArcs
  refine Nat.le_trans (filter_length_le_of_imp _ (fun q => q.o == Term.bnode l) ?_ d) (unlabelled_obj_le_one d l hl)
  intro q hq
  simp only [Bool.and_eq_true] at hq
  simp [termEq_bnode q.o l hq.1]

/-! ### one graph: all top-level occurrences of an unlabelled node are in the same graph -/

theorem gEq_refl (g : GName) : gEq g g = true := by
  cases g with
  | none => rfl
  | some t => exact SophiaProofs.C02.termEq_refl t

theorem gEq_symm (a b : GName) : gEq a b = gEq b a := by
  cases a <;> cases b <;> simp [gEq]
  exact SophiaProofs.C02.termEq_symm _ _

theorem gEq_trans (a b c : GName) (h1 : gEq a b = true) (h2 : gEq b c = true) : gEq a c = true := by
  cases a <;> cases b <;> cases c <;> simp [gEq] at h1 h2 ⊢
  exact SophiaProofs.C02.termEq_trans _ _ _ h1 h2

def isTopOcc (l : Str) (o : Nat × Quad × Term) : Prop := o.2.2 = Term.bnode l

/-- profile of `l` vs the top-level occurrences processed so far -/
def GraphInv (l : Str) (ps : Profiles) (os : List (Nat × Quad × Term)) : Prop :=
  match pGet ps l with
  | none => ∀ o ∈ os, ¬ isTopOcc l o
  | some p => p.bad = true ∨
      (p.graphs.length ≤ 1 ∧ ∀ o ∈ os, isTopOcc l o → p.graphs.any (gEq o.2.1.g) = true)

theorem graphInv_of_bad (l : Str) (ps : Profiles) (os) (h : Bad ps l) : GraphInv l ps os := by
  obtain ⟨p, hp, hb⟩ := h
  unfold GraphInv
  rw [hp]
  exact Or.inl hb

theorem graphInv_same (l : Str) (ps ps' : Profiles) (os : List (Nat × Quad × Term)) (o : Nat × Quad × Term)
    (hsame : pGet ps' l = pGet ps l) (hno : ¬ isTopOcc l o) (h : GraphInv l ps os) :
    GraphInv l ps' (os ++ [o]) := by
  unfold GraphInv at h ⊢
  rw [hsame]
  cases hp : pGet ps l with
  | none =>
    rw [hp] at h
    intro x hx
    rcases List.mem_append.mp hx with hx | hx
    · exact h x hx
    · simp only [List.mem_singleton] at hx; subst hx; exact hno
  | some p =>
    rw [hp] at h
    simp only at h ⊢
    rcases h with hb | ⟨hl, hall⟩
    · exact Or.inl hb
    · refine Or.inr ⟨hl, ?_⟩
      intro x hx hto
      rcases List.mem_append.mp hx with hx | hx
      · exact hall x hx hto
      · simp only [List.mem_singleton] at hx; subst hx; exact absurd hto hno

theorem updatePositions_graphs (p : Profile) (i : Nat) (q : Quad) : (updatePositions p i q).graphs = p.graphs := by
  unfold updatePositions
  split
  · rfl
  · split
    · split <;> rfl
    · rfl

theorem updatePositions_bad (p : Profile) (i : Nat) (q : Quad) (h : p.bad = true) : (updatePositions p i q).bad = true := by
  unfold updatePositions
  split
  · exact h
  · split
    · split
      · exact h
      · rfl
    · rfl

theorem any_append_left {α : Type} (f : α → Bool) (a b : List α) (h : a.any f = true) : (a ++ b).any f = true := by
  simp only [List.any_append, h, Bool.true_or]

theorem graphInv_seeBnode_self (l : Str) (ps : Profiles) (i : Nat) (q : Quad) (os : List (Nat × Quad × Term))
    (h : GraphInv l ps os) : GraphInv l (seeBnode ps i q l) (os ++ [(i, q, Term.bnode l)]) := by
  unfold GraphInv at h
  unfold seeBnode
  cases hk : pGet ps l with
  | none =>
    rw [hk] at h
    unfold GraphInv
    rw [pGet_pInsert]
    simp only [beq_self_eq_true, ↓reduceIte]
    right
    refine ⟨by simp, ?_⟩
    intro x hx hto
    rcases List.mem_append.mp hx with hx | hx
    · exact absurd hto (h x hx)
    · simp only [List.mem_singleton] at hx
      subst hx
      simp [gEq_refl]
  | some p =>
    rw [hk] at h
    simp only at h
    unfold GraphInv
    rw [pGet_pModify]
    simp only [beq_self_eq_true, ↓reduceIte, hk, Option.map_some]
    by_cases hb : p.bad = true
    · simp [hb]
    · simp only [hb, Bool.false_eq_true, ↓reduceIte]
      have h' : p.graphs.length ≤ 1 ∧ ∀ o ∈ os, isTopOcc l o → p.graphs.any (gEq o.2.1.g) = true := by
        rcases h with h | h
        · exact absurd h hb
        · exact h
      by_cases hb1 : (addNamedGraph p q.g).bad = true
      · exact Or.inl (updatePositions_bad _ i q hb1)
      · by_cases hb2 : (updatePositions (addNamedGraph p q.g) i q).bad = true
        · exact Or.inl hb2
        · right
          rw [updatePositions_graphs]
          -- the graph set after `add_named_graph`
          have hgs : (addNamedGraph p q.g).graphs = if p.graphs.any (gEq q.g) then p.graphs else p.graphs ++ [q.g] := rfl
          have hlen : (addNamedGraph p q.g).graphs.length ≤ 1 := by
            have : (addNamedGraph p q.g).bad = (p.bad || decide ((addNamedGraph p q.g).graphs.length > 1)) := rfl
            rw [this] at hb1
            simp only [Bool.or_eq_true, decide_eq_true_eq, not_or] at hb1
            omega
          refine ⟨hlen, ?_⟩
          intro x hx hto
          rcases List.mem_append.mp hx with hx | hx
          · have := h'.2 x hx hto
            rw [hgs]
            split
            · exact this
            · exact any_append_left _ _ _ this
          · simp only [List.mem_singleton] at hx
            subst hx
            rw [hgs]
            simp only
            by_cases hany : p.graphs.any (gEq q.g) = true
            · simp only [hany, ↓reduceIte]
            · simp only [hany, Bool.false_eq_true, ↓reduceIte, List.any_append, List.any_cons, gEq_refl,
                List.any_nil, Bool.or_false, Bool.or_true]

theorem graphInv_atomStep (l : Str) (ps : Profiles) (a : Term) (os) (h : GraphInv l ps os) :
    GraphInv l (atomStep ps a) os := by
  unfold atomStep
  split
  · rename_i k
    by_cases hk : k = l
    · subst hk
      exact graphInv_of_bad _ _ os (seeQuoted_sets ps k)
    · unfold GraphInv at h ⊢
      rw [pGet_seeQuoted_other ps k l hk]
      exact h
  · exact h

theorem graphInv_occStep (l : Str) (ps : Profiles) (o : Nat × Quad × Term) (os) (h : GraphInv l ps os) :
    GraphInv l (occStep ps o) (os ++ [o]) := by
  obtain ⟨i, q, t⟩ := o
  unfold occStep seeTerm
  simp only
  cases t with
  | bnode k =>
    simp only
    by_cases hk : k = l
    · subst hk
      exact graphInv_seeBnode_self k ps i q os h
    · exact graphInv_same l ps _ os _ (pGet_seeBnode_other ps i q k l hk)
        (by intro hto; exact hk (by simpa [isTopOcc] using hto)) h
  | triple a b c =>
    have h1 : GraphInv l ((atoms (Term.triple a b c)).foldl
        (fun ps a => match a with | .bnode l => seeQuotedBnode ps l | _ => ps) ps) os :=
      foldl_pres (fun s => GraphInv l s os) _ _ (fun s x hs => graphInv_atomStep l s x os hs) ps h
    exact graphInv_same l _ _ os _ rfl (by intro hto; simp [isTopOcc] at hto) h1
  | iri s => exact graphInv_same l ps ps os _ rfl (by intro hto; simp [isTopOcc] at hto) h
  | lit a b => exact graphInv_same l ps ps os _ rfl (by intro hto; simp [isTopOcc] at hto) h
  | lang a b => exact graphInv_same l ps ps os _ rfl (by intro hto; simp [isTopOcc] at hto) h
  | var s => exact graphInv_same l ps ps os _ rfl (by intro hto; simp [isTopOcc] at hto) h

theorem graphInv_fold (l : Str) (os done : List (Nat × Quad × Term)) (ps : Profiles) (h : GraphInv l ps done) :
    GraphInv l (os.foldl occStep ps) (done ++ os) := by
  induction os generalizing ps done with
  | nil => simpa using h
  | cons o rest ih =>
    simp only [List.foldl_cons]
    have := ih (done ++ [o]) _ (graphInv_occStep l ps o done h)
    simpa using this

theorem mem_occs_s (d : List Quad) (q : Quad) (hq : q ∈ d) : (0, q, q.s) ∈ occs d := by
  unfold occs
  exact List.mem_flatMap.mpr ⟨q, hq, List.mem_map.mpr ⟨(0, q.s), by simp [spogEnum], rfl⟩⟩

theorem mem_occs_o (d : List Quad) (q : Quad) (hq : q ∈ d) : (2, q, q.o) ∈ occs d := by
  unfold occs
  exact List.mem_flatMap.mpr ⟨q, hq, List.mem_map.mpr ⟨(2, q.o), by simp [spogEnum], rfl⟩⟩

/-- all quads in which an unlabelled blank node is subject or object are in the same graph -/
theorem unlabelled_one_graph (d : List Quad) (l : Str) (hl : l ∉ buildLabelled d)
    (q1 q2 : Quad) (h1 : q1 ∈ d) (h2 : q2 ∈ d)
    (ho1 : q1.s = .bnode l ∨ q1.o = .bnode l) (ho2 : q2.s = .bnode l ∨ q2.o = .bnode l) :
    gEq q1.g q2.g = true := by
  have hinv := graphInv_fold l (occs d) [] [] (by simp [GraphInv, pGet])
  rw [← buildProfiles_occs, List.nil_append] at hinv
  have hnb := not_bad_of_unlabelled d l hl
  have occ : ∀ q ∈ d, (q.s = .bnode l ∨ q.o = .bnode l) → ∃ o ∈ occs d, isTopOcc l o ∧ o.2.1 = q := by
    intro q hq ho
    rcases ho with ho | ho
    · exact ⟨(0, q, q.s), mem_occs_s d q hq, ho, rfl⟩
    · exact ⟨(2, q, q.o), mem_occs_o d q hq, ho, rfl⟩
  obtain ⟨o1, ho1m, hto1, hq1⟩ := occ q1 h1 ho1
  obtain ⟨o2, ho2m, hto2, hq2⟩ := occ q2 h2 ho2
  unfold GraphInv at hinv
  cases hp : pGet (buildProfiles d) l with
  | none =>
    rw [hp] at hinv
    exact absurd hto1 (hinv o1 ho1m)
  | some p =>
    rw [hp] at hinv
    simp only at hinv
    rcases hinv with hb | ⟨hlen, hall⟩
    · exact absurd ⟨p, hp, hb⟩ hnb
    · have a1 := hall o1 ho1m hto1
      have a2 := hall o2 ho2m hto2
      rw [hq1] at a1
      rw [hq2] at a2
      match hg : p.graphs, hlen, a1, a2 with
      | [], _, a1, _ => simp at a1
      | [x], _, a1, a2 =>
        simp only [List.any_cons, List.any_nil, Bool.or_false] at a1 a2
        exact gEq_trans _ _ _ a1 (by rw [gEq_symm]; exact a2)
      | _ :: _ :: _, hlen, _, _ => simp at hlen

end SophiaProofs.Lemmas.PrettyLabelled
