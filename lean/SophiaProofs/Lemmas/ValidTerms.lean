/-
The well-formedness hypothesis `TermOK` of the C05 theorems is satisfied by everything the
toolkit's own validators accept: the regexes regenerated from /repo (Gen/Regexes.lean) for IRI
references, blank node labels and language tags exclude `>` resp. the space.
-/
import SophiaModel.Gen.Regexes
import SophiaModel.Regex.Comb
import SophiaProofs.Lemmas.CnqInj

namespace SophiaProofs.CnqL
open SophiaModel SophiaModel.Re

/-- any scalar value -/
def anyCp : Re := .cls [(0, 1114111)]

/-- words containing the code point of `c` -/
def containing (c : Char) : Re := .cat (.star anyCp) (.cat (chr c) (.star anyCp))

theorem star_any (w : Str) : Matches (.star anyCp) (w.map Char.toNat) := by
  induction w with
  | nil => exact .star0
  | cons c w ih =>
    have hc : Matches anyCp [c.toNat] := by
      apply Matches.cls
      have : c.toNat ≤ 1114111 := by
        have := c.valid
        rcases this with h | ⟨_, h⟩
        · show c.val.toNat ≤ 1114111; omega
        · show c.val.toNat ≤ 1114111; omega
      simp [inCls, this]
    exact Matches.starS (u := [c.toNat]) hc ih

theorem matches_containing {c : Char} {s : Str} (h : c ∈ s) : Matches (containing c) (s.map Char.toNat) := by
  obtain ⟨u, v, rfl⟩ := List.append_of_mem h
  rw [List.map_append, List.map_cons]
  refine Matches.cat (star_any u) ?_
  refine Matches.cat (u := [c.toNat]) ?_ (star_any v)
  apply Matches.cls
  simp [inCls]

theorem excluded_of_disj {r : Re} {c : Char} (hd : decideDisj r (containing c) = true) {s : Str}
    (hm : matchB r (s.map Char.toNat) = true) : c ∉ s := by
  intro hc
  exact decideDisj_sound r (containing c) hd _ ⟨(matchB_iff r _).mp hm, matches_containing hc⟩

/-- IRI references accepted by `IriRef::new` contain no `>` -/
theorem valid_iri_no_gt {s : Str} (h : matchB Gen.IRI_REF_REGEX (s.map Char.toNat) = true) : '>' ∉ s :=
  excluded_of_disj (by native_decide) h

/-- blank node labels accepted by `BnodeId::new` contain no space -/
theorem valid_bnode_no_space {s : Str} (h : matchB Gen.BNODE_ID (s.map Char.toNat) = true) : ' ' ∉ s :=
  excluded_of_disj (by native_decide) h

/-- language tags accepted by `LanguageTag::new` contain no space -/
theorem valid_tag_no_space {s : Str} (h : matchB Gen.LANG_TAG (s.map Char.toNat) = true) : ' ' ∉ s :=
  excluded_of_disj (by native_decide) h

/-- a term built from validated components (`IriRef::new`, `BnodeId::new`, `LanguageTag::new`; no quoted
triple, no variable) -/
def Validated : Term → Prop
  | .iri s => matchB Gen.IRI_REF_REGEX (s.map Char.toNat) = true
  | .bnode b => matchB Gen.BNODE_ID (b.map Char.toNat) = true
  | .lit _ d => matchB Gen.IRI_REF_REGEX (d.map Char.toNat) = true
  | .lang _ t => matchB Gen.LANG_TAG (t.map Char.toNat) = true
  | .triple _ _ _ => False
  | .var _ => False

theorem termOK_of_validated {t : Term} (h : Validated t) : TermOK t := by
  cases t with
  | iri s => exact valid_iri_no_gt h
  | bnode b => exact valid_bnode_no_space h
  | lit l d => exact valid_iri_no_gt h
  | lang l t => exact valid_tag_no_space h
  | triple _ _ _ => exact h
  | var _ => exact h

end SophiaProofs.CnqL
