/-
A regex-inclusion obligation that may be false on the checked tree is carried as a *verdict*:
the verified decision procedure either certifies the inclusion or produces a word, and the word
is then checked against both expressions by the (proved) matcher.  Either way the statement is
kernel-checked; which branch holds is reported by the driver (`witness`).
-/
import SophiaModel.Regex.Comb

namespace SophiaProofs
open SophiaModel Re

/-- evaluated by `native_decide` in Props files -/
def inclCheck (a b : Re) : Bool :=
  match witnessP okIncl a b with
  | none => decideIncl a b
  | some w => matchB a w && !matchB b w

/-- `L(a) ⊆ L(b)`, or the concrete word `witnessP okIncl a b` lies in `L(a) \ L(b)` -/
def InclVerdict (a b : Re) : Prop :=
  match witnessP okIncl a b with
  | none => ∀ w, Matches a w → Matches b w
  | some w => Matches a w ∧ ¬ Matches b w

theorem inclVerdict_of_check (a b : Re) (h : inclCheck a b = true) : InclVerdict a b := by
  unfold inclCheck at h
  unfold InclVerdict
  split
  · rename_i hw
    rw [hw] at h
    exact decideIncl_sound a b h
  · rename_i w hw
    rw [hw] at h
    simp only [Bool.and_eq_true, Bool.not_eq_true', matchB_iff] at h
    refine ⟨h.1, ?_⟩
    intro hm
    have := (matchB_iff b w).mpr hm
    rw [h.2] at this
    cases this

/-- when the procedure finds no witness the verdict *is* the inclusion -/
theorem incl_of_verdict (a b : Re) (h : InclVerdict a b) (hn : witnessP okIncl a b = none) :
    ∀ w, Matches a w → Matches b w := by
  unfold InclVerdict at h
  rw [hn] at h
  exact h

end SophiaProofs
