/-
Lemmas for C11: what "an implementation of Dataset / Graph behaves like a collection of quads" means
(`Lawful`, `LawfulSet`), the proof that the indexed stores of C01 (in every `Good` state), the std sets
and the std vectors satisfy it, and list facts about the projections used by the adapters.
-/
import SophiaProofs.Lemmas.StoreBulk
import SophiaModel.Model.Adapter

namespace SophiaProofs.AdapterP
open SophiaModel SophiaModel.Term SophiaModel.Store SophiaModel.Adapter SophiaProofs.StoreP

/-! ## 1. lawful implementations -/

/-- The READ part: pattern queries return the matching members of `quads()` with their multiplicity,
`contains` is membership. `Inv` is the implementation's own invariant (for the indexed stores: `Good`, which
holds in every reachable state by C01). Enough for every theorem about what a view SHOWS; also satisfied by
`Vec<Gspo<T>>`, whose `remove` (first match only) is not that of a `Lawful` collection. -/
structure LawfulRead {σ : Type} (I : Impl σ) where
  Inv : σ → Prop
  n_ok : I.n = 3 ∨ I.n = 4
  qm : ∀ {s : σ} (p : Pat), Inv s →
    List.Perm (I.quadsMatching s p) ((I.quads s).filter (quadMatched I.n p))
  contains_iff : ∀ {s : σ} (q : Quad), Inv s → (I.n = 3 → q.g = none) → I.contains s q = qmem q (I.quads s)
  g_none : ∀ {s : σ} {x : Quad}, Inv s → I.n = 3 → x ∈ I.quads s → x.g = none

/-- An implementation behaves like a COLLECTION of quads (possibly with repetitions: `Vec`):
pattern queries return the matching members with their multiplicity, `contains` is membership,
`insert` / `remove` add / remove the quad and nothing else. -/
structure Lawful {σ : Type} (I : Impl σ) extends LawfulRead I where
  ins_inv : ∀ {s : σ} (q : Quad), Inv s → (I.n = 3 → q.g = none) → Inv (I.insert s q).1
  rem_inv : ∀ {s : σ} (q : Quad), Inv s → Inv (I.remove s q).1
  ins_ok : ∀ {s s' : σ} {q : Quad} {b : Bool}, Inv s → (I.n = 3 → q.g = none) →
    I.insert s q = (s', some b) → SameSet (I.quads s') (q :: I.quads s)
  ins_err : ∀ {s s' : σ} {q : Quad}, Inv s → I.insert s q = (s', none) → I.quads s' = I.quads s
  rem_ok : ∀ {s : σ} (q : Quad), Inv s → (I.n = 3 → q.g = none) →
    SameSet (I.quads (I.remove s q).1) ((I.quads s).filter (fun x => !quadEq x q))

/-- … and like a SET (`SetDataset` / `SetGraph`): no repetitions, and the flags returned by `insert` /
`remove` say whether the set changed -/
structure LawfulSet {σ : Type} (I : Impl σ) extends Lawful I where
  nodup : ∀ {s : σ}, Inv s → NodupQ (I.quads s)
  ins_flag : ∀ {s s' : σ} {q : Quad} {b : Bool}, Inv s → (I.n = 3 → q.g = none) →
    I.insert s q = (s', some b) → b = !qmem q (I.quads s)
  rem_flag : ∀ {s : σ} (q : Quad), Inv s → (I.n = 3 → q.g = none) → (I.remove s q).2 = qmem q (I.quads s)

/-! ### the indexed stores (`sophia_inmem`), via C01 -/

/-- every generated store description whose tables pass `descOK`, in every `Good` state -/
def storeLawful (d : StoreDesc) (hd : descOK d = true) : LawfulSet (storeImpl d) where
  Inv := Good d
  n_ok := (descOK_spec hd).1
  qm := by
    intro s p hG
    obtain ⟨hm, hnd⟩ := quadsMatching_mem hd hG.2.1 hG.2.2.1 p
    exact (List.perm_ext_iff_of_nodup hnd.nodup ((abs_nodup hG.2.2.1).filter _).nodup).2 hm
  contains_iff := fun q hG hg => contains_spec hd hG.2.1 hG.2.2.1 q hg
  g_none := fun {s x} hG h3 hx => abs_g_none hG.2.2.1 hx (hG.n_eq.trans h3)
  ins_inv := fun q hG _ => good_insert hG q
  rem_inv := fun q hG => good_remove hG q
  ins_ok := fun hG hg hi => insert_abs hG.2.2.1 hG.2.2.2 (hG.qok hg) hi
  ins_err := fun hG hi => insert_full_abs hG.2.2.1 hG.2.2.2 hi
  rem_ok := fun q hG hg => remove_abs hG.2.2.1 hG.2.2.2 (hG.qok hg) rfl
  nodup := fun hG => abs_nodup hG.2.2.1
  ins_flag := fun hG hg hi => insert_flag hG.2.2.1 hG.2.2.2 (hG.qok hg) hi
  rem_flag := fun q hG hg => remove_flag hG.2.2.1 hG.2.2.2 (hG.qok hg) rfl

/-! ### std collections -/

theorem listContains_iff {n : Nat} (hn : n = 3 ∨ n = 4) (d : List Quad) (q : Quad)
    (hd : n = 3 → ∀ x ∈ d, x.g = none) (hq : n = 3 → q.g = none) :
    (!(d.filter (quadMatched n (exactPat n q))).isEmpty) = qmem q d := by
  have hex : ∀ x ∈ d, quadMatched n (exactPat n q) x = quadEq x q := by
    intro x hx
    rw [exact_matched hn q x (fun h3 => ⟨hq h3, hd h3 x hx⟩), quadEq_symm]
  rw [Bool.eq_iff_iff, qmem_iff]
  constructor
  · intro h
    cases hf : d.filter (quadMatched n (exactPat n q)) with
    | nil => rw [hf] at h; simp at h
    | cons x l =>
      have hx : x ∈ d.filter (quadMatched n (exactPat n q)) := by rw [hf]; simp
      obtain ⟨hxd, hxm⟩ := List.mem_filter.1 hx
      exact ⟨x, hxd, by rw [← hex x hxd]; exact hxm⟩
  · rintro ⟨x, hxd, he⟩
    have hx : x ∈ d.filter (quadMatched n (exactPat n q)) :=
      List.mem_filter.2 ⟨hxd, by rw [hex x hxd]; exact he⟩
    cases hf : d.filter (quadMatched n (exactPat n q)) with
    | nil => rw [hf] at hx; cases hx
    | cons y l => rfl

theorem nodupQ_snoc : ∀ {d : List Quad} {q : Quad}, NodupQ d → qmem q d = false → NodupQ (d ++ [q])
  | [], q, _, _ => ⟨rfl, trivial⟩
  | x :: d, q, h, hq => by
    rw [qmem_cons, Bool.or_eq_false_iff] at hq
    refine ⟨?_, nodupQ_snoc h.2 hq.2⟩
    show qmem x (d ++ [q]) = false
    rw [qmem_append, h.1, Bool.false_or, qmem_cons, qmem_nil, Bool.or_false, quadEq_symm]
    exact hq.1

theorem specInsert_eq (d : List Quad) (q : Quad) :
    Spec.insert d q = if qmem q d = true then (d, false) else (d ++ [q], true) := rfl

theorem specRemove_eq (d : List Quad) (q : Quad) :
    Spec.remove d q = if qmem q d = true then (d.filter (fun x => !quadEq x q), true) else (d, false) := rfl

theorem sameSet_snoc (d : List Quad) (q : Quad) : SameSet (d ++ [q]) (q :: d) := by
  intro x
  rw [qmem_append, qmem_cons, qmem_cons, qmem_nil, Bool.or_false, Bool.or_comm]

/-- the invariant of a std set of quads / triples: no repetitions; triples carry no graph name -/
def SetInv (n : Nat) (d : List Quad) : Prop := NodupQ d ∧ (n = 3 → ∀ x ∈ d, x.g = none)

/-- `HashSet` / `BTreeSet` of quads (`n = 4`) or triples (`n = 3`) -/
def setLawful (n : Nat) (hn : n = 3 ∨ n = 4) : LawfulSet (setImpl n) where
  Inv := SetInv n
  n_ok := hn
  qm := fun _ _ => List.Perm.refl _
  contains_iff := fun {d} q hI hq => listContains_iff hn d q hI.2 hq
  g_none := fun {d x} hI h3 hx => hI.2 h3 x hx
  ins_inv := by
    intro d q hI hq
    show SetInv n (Spec.insert d q).1
    rw [specInsert_eq]
    cases hm : qmem q d with
    | true => exact hI
    | false =>
      refine ⟨nodupQ_snoc hI.1 hm, fun h3 x hx => ?_⟩
      rcases List.mem_append.1 hx with hx | hx
      · exact hI.2 h3 x hx
      · rw [List.mem_singleton.1 hx]; exact hq h3
  rem_inv := by
    intro d q hI
    show SetInv n (Spec.remove d q).1
    rw [specRemove_eq]
    cases hm : qmem q d with
    | true => exact ⟨hI.1.filter _, fun h3 x hx => hI.2 h3 x (List.mem_filter.1 hx).1⟩
    | false => exact hI
  ins_ok := by
    intro d d' q b _ _ hi
    have hi' : ((Spec.insert d q).1, some (Spec.insert d q).2) = (d', some b) := hi
    have h1 : (Spec.insert d q).1 = d' := (Prod.mk.inj hi').1
    rw [← h1]
    exact (spec_insert_fst (SameSet.refl d) q).symm
  ins_err := by
    intro d d' q _ hi
    have hi' : ((Spec.insert d q).1, some (Spec.insert d q).2) = (d', none) := hi
    cases (Prod.mk.inj hi').2
  rem_ok := fun {d} q _ _ => (spec_remove_fst (SameSet.refl d) q).symm
  nodup := fun hI => hI.1
  ins_flag := by
    intro d d' q b _ _ hi
    have hi' : ((Spec.insert d q).1, some (Spec.insert d q).2) = (d', some b) := hi
    have h2 : some (Spec.insert d q).2 = some b := (Prod.mk.inj hi').2
    rw [← Option.some.inj h2]
    exact spec_insert_snd (SameSet.refl d) q
  rem_flag := fun {d} q _ _ => spec_remove_snd (SameSet.refl d) q

/-- `Vec` of quads / triples: a collection with repetitions (flags not significant) -/
def vecLawful (n : Nat) (hn : n = 3 ∨ n = 4) : Lawful (vecImpl n) where
  Inv := fun d => n = 3 → ∀ x ∈ d, x.g = none
  n_ok := hn
  qm := fun _ _ => List.Perm.refl _
  contains_iff := fun {d} q hI hq => listContains_iff hn d q hI hq
  g_none := fun {d x} hI h3 hx => hI h3 x hx
  ins_inv := by
    intro d q hI hq h3 x hx
    have hx' : x ∈ d ++ [q] := hx
    rcases List.mem_append.1 hx' with hx | hx
    · exact hI h3 x hx
    · rw [List.mem_singleton.1 hx]; exact hq h3
  rem_inv := by
    intro d q hI h3 x hx
    have hx' : x ∈ d.filter (fun x => !quadEq x q) := hx
    exact hI h3 x (List.mem_filter.1 hx').1
  ins_ok := by
    intro d d' q b _ _ hi
    have hi' : (d ++ [q], some true) = (d', some b) := hi
    rw [← (Prod.mk.inj hi').1]
    exact sameSet_snoc d q
  ins_err := by
    intro d d' q _ hi
    have hi' : (d ++ [q], some true) = (d', none) := hi
    cases (Prod.mk.inj hi').2
  rem_ok := fun {d} q _ _ => SameSet.refl _

/-- `Vec<Gspo<T>>`: lawful for READING only (its `remove` drops only the first match) -/
def vecFirstLawfulRead (n : Nat) (hn : n = 3 ∨ n = 4) : LawfulRead (vecFirstImpl n) where
  Inv := fun d => n = 3 → ∀ x ∈ d, x.g = none
  n_ok := hn
  qm := fun _ _ => List.Perm.refl _
  contains_iff := fun {d} q hI hq => listContains_iff hn d q hI hq
  g_none := fun {_ x} hI h3 hx => hI h3 x hx

/-! ## 2. patterns of the adapters -/

theorem quadMatched_dpat (gm : GM) (sm pm om : TM) (q : Quad) :
    quadMatched 4 (dpat gm sm pm om) q = (gm.matches q.g && Spec.tripleMatched sm pm om q) := by
  simp [quadMatched, quadNames, dpat, Pat.at, GM.matches, Spec.tripleMatched, Bool.and_assoc]

theorem quadMatched_gpat (sm pm om : TM) (q : Quad) :
    quadMatched 3 (gpat sm pm om) q = Spec.tripleMatched sm pm om q := by
  simp [quadMatched, quadNames, gpat, Pat.at, GM.matches, Spec.tripleMatched, Bool.and_assoc]

theorem tripleMatched_intoTriple (sm pm om : TM) (q : Quad) :
    Spec.tripleMatched sm pm om (intoTriple q) = Spec.tripleMatched sm pm om q := rfl

theorem tripleMatched_any (q : Quad) : Spec.tripleMatched .any .any .any q = true := rfl

theorem arr1_matches (g x : GName) : (GM.arr [g]).matches x = gnameEq g x := by
  simp [GM.matches]

theorem tripleMatched_exact (t q : Quad) :
    Spec.tripleMatched (.arr [t.s]) (.arr [t.p]) (.arr [t.o]) q = Spec.tripleEq t q := by
  simp [Spec.tripleMatched, Spec.tripleEq, TM.matches]

/-- the projection commutes with filtering by a triple pattern -/
theorem filter_map_intoTriple (f : Quad → Bool) (sm pm om : TM) (l : List Quad) :
    ((l.filter (fun q => f q && Spec.tripleMatched sm pm om q)).map intoTriple) =
      ((l.filter f).map intoTriple).filter (Spec.tripleMatched sm pm om) := by
  rw [List.filter_map, List.filter_filter]
  congr 1
  apply List.filter_congr
  intro q _
  simp [Function.comp, tripleMatched_intoTriple, Bool.and_comm]

theorem filter_congr_fun {α : Type} {f g : α → Bool} (l : List α) (h : ∀ x, f x = g x) :
    l.filter f = l.filter g := by
  have : f = g := funext h
  rw [this]

theorem isEmpty_perm {α : Type} {a b : List α} (h : a.Perm b) : a.isEmpty = b.isEmpty := by
  have := h.length_eq
  cases a <;> cases b <;> simp_all

theorem not_isEmpty_filter {α : Type} (l : List α) (f : α → Bool) : (!(l.filter f).isEmpty) = l.any f := by
  induction l with
  | nil => rfl
  | cons x l ih =>
    rw [List.filter_cons, List.any_cons]
    cases hx : f x with
    | true => simp
    | false => simpa using ih

/-! ## 3. `SameSet` through the projections -/

theorem gnameEq_resp_right {a b : GName} (g : GName) (h : gnameEq a b = true) : gnameEq g a = gnameEq g b :=
  gnameEq_congr_right g h

theorem resp_graphSel (g : GName) : Resp (fun q => gnameEq g q.g) := by
  intro a b h
  exact gnameEq_congr_right g (quadEq_parts h).2.2.2

theorem quadEq_intoTriple {a b : Quad} (h : quadEq a b = true) : quadEq (intoTriple a) (intoTriple b) = true := by
  simp only [quadEq, Bool.and_eq_true] at h
  simp [quadEq, intoTriple, gnameEq, h.1.1.1, h.1.1.2, h.1.2]

theorem qmem_map_intoTriple {a b : List Quad} (h : ∀ x ∈ a, ∃ y ∈ b, quadEq y x = true) (t : Quad) :
    qmem t (a.map intoTriple) = true → qmem t (b.map intoTriple) = true := by
  rw [qmem_iff, qmem_iff]
  rintro ⟨x', hx', he⟩
  obtain ⟨x, hx, rfl⟩ := List.mem_map.1 hx'
  obtain ⟨y, hy, hyx⟩ := h x hx
  exact ⟨intoTriple y, List.mem_map.2 ⟨y, hy, rfl⟩, quadEq_trans _ _ _ (quadEq_intoTriple hyx) he⟩

theorem sameSet_sub {a b : List Quad} (h : SameSet a b) : ∀ x ∈ a, ∃ y ∈ b, quadEq y x = true := by
  intro x hx
  have : qmem x a = true := qmem_iff.2 ⟨x, hx, quadEq_refl x⟩
  rw [h x] at this
  exact qmem_iff.1 this

/-- two stores holding the same set of quads show the same set of triples through a projection -/
theorem sameSet_map_intoTriple {a b : List Quad} (h : SameSet a b) :
    SameSet (a.map intoTriple) (b.map intoTriple) := by
  intro t
  rw [Bool.eq_iff_iff]
  exact ⟨qmem_map_intoTriple (sameSet_sub h) t, qmem_map_intoTriple (sameSet_sub (SameSet.symm h)) t⟩

theorem sameSet_graph {a b : List Quad} (g : GName) (h : SameSet a b) :
    SameSet (Spec.graph g a) (Spec.graph g b) :=
  sameSet_map_intoTriple (SameSet.filter (resp_graphSel g) h)

/-! ## 4. helpers for the mutation theorems -/

theorem map_intoQuad_id {σ : Type} {I : Impl σ} (L : LawfulRead I) {s : σ} (hs : L.Inv s) (h3 : I.n = 3) : (I.quads s).map intoQuad = I.quads s := by
  have : ∀ x ∈ I.quads s, intoQuad x = x := by
    intro x hx
    have hg := L.g_none hs h3 hx
    cases x with
    | mk a b c g => simp only at hg; subst hg; rfl
  exact (List.map_congr_left this).trans (List.map_id _)

theorem other_graph_untouched {l l' : List Quad} {q : Quad} (h : SameSet l' (q :: l)) (x : Quad)
    (hx : gnameEq q.g x.g = false) : qmem x l' = qmem x l := by
  rw [h x, qmem_cons]
  have : quadEq q x = false := by simp [quadEq, hx]
  rw [this, Bool.false_or]

theorem other_graph_untouched_rem {l l' : List Quad} {q : Quad}
    (h : SameSet l' (l.filter (fun y => !quadEq y q))) (x : Quad)
    (hx : gnameEq q.g x.g = false) : qmem x l' = qmem x l := by
  rw [h x, qmem_filter (resp_not_quadEq q)]
  have : quadEq x q = false := by rw [quadEq_symm]; simp [quadEq, hx]
  rw [this]; rfl

/-! ## 5. histories alternating direct operations and mutations through views -/

open SophiaModel.Gen.AdapterFlags

/-- an operation of a history on an indexed store: direct (any C01 operation), through
`graph_mut(g)`, or through `as_dataset_mut()` -/
inductive VOp where
  | direct (op : Op)
  | graphIns (g : GName) (t : Quad)
  | graphRem (g : GName) (t : Quad)
  | asdsIns (q : Quad)
  | asdsRem (q : Quad)

/-- one operation on the model, through the ADAPTER model where a view is used -/
def stepV (d : StoreDesc) (s : St) : VOp → St
  | .direct op => stepM d s op
  | .graphIns g t => (DatasetGraph.insert (storeImpl d) s g t).1
  | .graphRem g t => (DatasetGraph.remove (storeImpl d) s g t).1
  | .asdsIns q => (GraphAsDataset.insert (storeImpl d) s q).1
  | .asdsRem q => (GraphAsDataset.remove (storeImpl d) s q).1

/-- the direct operation(s) a view operation must amount to -/
def flatten : VOp → List Op
  | .direct op => [op]
  | .graphIns g t => [.ins ⟨t.s, t.p, t.o, g⟩]
  | .graphRem g t => [.rem ⟨t.s, t.p, t.o, g⟩]
  | .asdsIns q => if q.g.isNone then [.ins ⟨q.s, q.p, q.o, none⟩] else []
  | .asdsRem q => if q.g.isNone then [.rem ⟨q.s, q.p, q.o, none⟩] else []

/-- view operations make sense on the right kind of store -/
def VOpOK (d : StoreDesc) : VOp → Prop
  | .direct op => OpOK d op
  | .graphIns _ _ => d.n = 4
  | .graphRem _ _ => d.n = 4
  | .asdsIns _ => d.n = 3
  | .asdsRem _ => d.n = 3

/-- does the history use `as_dataset_mut().remove`? -/
def usesAsdsRem : List VOp → Bool
  | [] => false
  | .asdsRem _ :: _ => true
  | _ :: ops => usesAsdsRem ops

theorem stepV_flatten (d : StoreDesc) (hi : datasetGraphInsertCalls = .insert) (hr : datasetGraphRemoveCalls = .remove)
    (hgi : graphAsDatasetInsertCalls = .insert) (s : St) (op : VOp)
    (hgr : graphAsDatasetRemoveCalls = .remove ∨ ∀ q, op ≠ .asdsRem q) :
    stepV d s op = (flatten op).foldl (stepM d) s := by
  cases op with
  | direct op => rfl
  | graphIns g t =>
    show (DatasetGraph.insert (storeImpl d) s g t).1 = _
    unfold DatasetGraph.insert; rw [hi]; rfl
  | graphRem g t =>
    show (DatasetGraph.remove (storeImpl d) s g t).1 = _
    unfold DatasetGraph.remove; rw [hr]; rfl
  | asdsIns q =>
    show (GraphAsDataset.insert (storeImpl d) s q).1 = _
    cases q with
    | mk a b c g => cases g <;> simp [GraphAsDataset.insert, flatten, hgi, callMut, stepM, storeImpl]
  | asdsRem q =>
    rcases hgr with hgr | hgr
    · show (GraphAsDataset.remove (storeImpl d) s q).1 = _
      cases q with
      | mk a b c g => cases g <;> simp [GraphAsDataset.remove, flatten, hgr, callMut, stepM, storeImpl]
    · exact absurd rfl (hgr q)

theorem usesAsdsRem_false {op : VOp} {ops : List VOp} (h : usesAsdsRem (op :: ops) = false) :
    (∀ q, op ≠ .asdsRem q) ∧ usesAsdsRem ops = false := by
  cases op <;> simp_all [usesAsdsRem]

theorem run_flatten (d : StoreDesc) (hi : datasetGraphInsertCalls = .insert) (hr : datasetGraphRemoveCalls = .remove)
    (hgi : graphAsDatasetInsertCalls = .insert) :
    ∀ (ops : List VOp) (s : St), (graphAsDatasetRemoveCalls = .remove ∨ usesAsdsRem ops = false) →
      ops.foldl (stepV d) s = (ops.flatMap flatten).foldl (stepM d) s
  | [], _, _ => rfl
  | op :: ops, s, hgr => by
    have h1 : graphAsDatasetRemoveCalls = .remove ∨ ∀ q, op ≠ .asdsRem q :=
      hgr.imp id (fun h => (usesAsdsRem_false h).1)
    have h2 : graphAsDatasetRemoveCalls = .remove ∨ usesAsdsRem ops = false :=
      hgr.imp id (fun h => (usesAsdsRem_false h).2)
    rw [List.foldl_cons, List.flatMap_cons, List.foldl_append, stepV_flatten d hi hr hgi s op h1]
    exact run_flatten d hi hr hgi ops _ h2

theorem flatten_ok {d : StoreDesc} {op : VOp} (h : VOpOK d op) : ∀ o ∈ flatten op, OpOK d o := by
  cases op with
  | direct op => intro o ho; rw [List.mem_singleton.1 ho]; exact h
  | graphIns g t =>
    intro o ho; rw [List.mem_singleton.1 ho]
    intro h3; have h4 : d.n = 4 := h; omega
  | graphRem g t =>
    intro o ho; rw [List.mem_singleton.1 ho]
    intro h3; have h4 : d.n = 4 := h; omega
  | asdsIns q =>
    intro o ho
    have ho' : o ∈ (if q.g.isNone then [Op.ins ⟨q.s, q.p, q.o, none⟩] else []) := ho
    split at ho'
    · rw [List.mem_singleton.1 ho']; exact fun _ => rfl
    · cases ho'
  | asdsRem q =>
    intro o ho
    have ho' : o ∈ (if q.g.isNone then [Op.rem ⟨q.s, q.p, q.o, none⟩] else []) := ho
    split at ho'
    · rw [List.mem_singleton.1 ho']; exact fun _ => rfl
    · cases ho'

end SophiaProofs.AdapterP
