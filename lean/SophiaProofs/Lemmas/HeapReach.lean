/-
Property C10: every store value reachable in the value-semantics world — hence (by `vview_step`) every store of
every reachable world of the ownership model, read through the heap — satisfies C01's representation invariant
`StoreP.Inv`, provided the stores are created with well-formed shapes (the generated ones are).  This discharges
the hypothesis `Inv s` of `unwrap_unchecked_safe` for the worlds C10 is about.
-/
import SophiaProofs.Lemmas.HeapRefine
import SophiaProofs.Lemmas.StoreMut

namespace SophiaProofs.HeapP
open SophiaModel SophiaModel.Term SophiaModel.Store SophiaModel.Heap
open SophiaProofs.StoreP (Inv lookupOrderOK shapeOK shapeOK_spec inv_new inv_insert inv_remove TIInv RowOK)

/-- `ensure_index` alone (no row added) keeps C01's invariant -/
theorem inv_ens {s : St} {t : Term} {terms' : List Term} {i : Nat} (h : Inv s)
    (he : Store.ensureIndex s.max s.terms t = some (terms', i)) : Inv { s with terms := terms' } := by
  obtain ⟨hti, ⟨ext, hext⟩, _, _⟩ := StoreP.ensureIndex_some h.ti he
  exact {
    shape_ok := h.shape_ok
    n_ok := h.n_ok
    idx_len := h.idx_len
    ti := hti
    rows_ok := fun c hc => (h.rows_ok c hc).mono (by rw [hext]; simp)
    nodup := h.nodup
    same := h.same }

/-- a value is fine: a bare index (`n = 0`), or a graph / dataset satisfying C01's invariant -/
def VOK (s : St) : Prop := s.shape.n ≠ 0 → Inv s ∧ lookupOrderOK s

def VInv (v : VWorld) : Prop := ∀ e ∈ v, VOK e.2

/-- stores are created with a well-formed shape (or as a bare index) -/
def newOK : Op → Prop
  | .new _ sh _ => sh.n = 0 ∨ shapeOK sh = true
  | _ => True

theorem vget_mem {v : VWorld} {n : Nat} {s : St} (h : v.get n = some s) : ∃ e ∈ v, e.2 = s := by
  unfold VWorld.get at h
  cases hf : v.find? (·.1 == n) with
  | none => rw [hf] at h; cases h
  | some e =>
    rw [hf] at h
    exact ⟨e, List.mem_of_find?_eq_some hf, by simpa using h⟩

theorem VInv.set {v : VWorld} (hv : VInv v) {n : Nat} {s : St} (hs : VOK s) : VInv (v.set n s) := by
  intro e he
  simp only [VWorld.set, List.mem_map] at he
  obtain ⟨e0, he0, rfl⟩ := he
  by_cases h : (e0.1 == n) = true
  · rw [if_pos h]; exact hs
  · rw [if_neg h]; exact hv e0 he0

theorem VInv.add {v : VWorld} (hv : VInv v) {n : Nat} {s : St} (hs : VOK s) : VInv (v.add n s) := by
  intro e he
  simp only [VWorld.add, List.mem_append, List.mem_singleton] at he
  rcases he with he | rfl
  · exact hv e he
  · exact hs

theorem VInv.del {v : VWorld} (hv : VInv v) (n : Nat) : VInv (v.del n) := by
  intro e he
  simp only [VWorld.del, List.mem_filter] at he
  exact hv e he.1

theorem VOK.new_of {s : St} (h : VOK s) : VOK (St.new s.shape s.max) := by
  intro hn
  obtain ⟨hi, hlo⟩ := h hn
  exact ⟨inv_new s.shape s.max hi.shape_ok.1 hi.shape_ok.2 hi.n_ok, hlo⟩

theorem VInv.step {v : VWorld} (hv : VInv v) (op : Op) (hop : newOK op) : VInv (v.step op) := by
  have ofget : ∀ {n s}, v.get n = some s → VOK s := fun hg => by
    obtain ⟨e, he, rfl⟩ := vget_mem hg; exact hv e he
  cases op with
  | new a shape max =>
    simp only [VWorld.step]
    split
    · exact hv
    · refine hv.add (fun hn => ?_)
      rcases hop with h0 | hok
      · exact absurd h0 hn
      · obtain ⟨h1, h2, h3, h4⟩ := shapeOK_spec hok
        exact ⟨inv_new shape max h1 h2 h3, by simpa [lookupOrderOK, St.new] using h4⟩
  | ins a q =>
    simp only [VWorld.step]
    split
    · next s hg =>
      split
      · exact hv
      · refine hv.set (fun hn => ?_)
        rw [StoreP.insert_shape] at hn
        obtain ⟨hi, hlo⟩ := ofget hg hn
        exact ⟨inv_insert hi hlo, StoreP.lookupOrderOK_insert q hlo⟩
    · exact hv
  | ens a t =>
    simp only [VWorld.step]
    split
    · next s hg =>
      split
      · next terms i he =>
        refine hv.set (fun hn => ?_)
        obtain ⟨hi, hlo⟩ := ofget hg hn
        exact ⟨inv_ens hi he, hlo⟩
      · exact hv
    · exact hv
  | rem a q =>
    simp only [VWorld.step]
    split
    · next s hg =>
      split
      · exact hv
      · refine hv.set (fun hn => ?_)
        rw [StoreP.remove_shape] at hn
        obtain ⟨hi, hlo⟩ := ofget hg hn
        exact ⟨inv_remove hi hlo, StoreP.lookupOrderOK_remove q hlo⟩
    · exact hv
  | clone a b =>
    simp only [VWorld.step]
    split
    · next s hga hgb => exact hv.add (ofget hga)
    · exact hv
  | cloneFrom a b =>
    simp only [VWorld.step]
    split
    · next s old hga hgb =>
      split
      · exact hv
      · exact hv.set (ofget hga)
    · exact hv
  | drop a =>
    simp only [VWorld.step]
    split
    · exact hv.del a
    · exact hv
  | swap a b =>
    simp only [VWorld.step]
    split
    · next sa sb hga hgb =>
      split
      · exact hv
      · exact (hv.set (ofget hgb)).set (ofget hga)
    · exact hv
  | mv a b =>
    simp only [VWorld.step]
    split
    · next s hga hgb => exact (hv.del a).add (ofget hga)
    · exact hv
  | take a b =>
    simp only [VWorld.step]
    split
    · next s hga hgb => exact (hv.set (ofget hga).new_of).add (ofget hga)
    · exact hv
  | box a => exact hv
  | grow a => exact hv
  | readAll a => exact hv
  | via own => exact hv

theorem VInv.run {v : VWorld} (hv : VInv v) (ops : List Op) (hop : ∀ op ∈ ops, newOK op) :
    VInv (ops.foldl VWorld.step v) := by
  induction ops generalizing v with
  | nil => exact hv
  | cons op ops ih =>
    exact ih (hv.step op (hop op (List.mem_cons_self ..))) (fun o ho => hop o (List.mem_cons_of_mem _ ho))

end SophiaProofs.HeapP
