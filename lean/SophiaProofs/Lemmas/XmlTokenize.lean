/-
C18: the model tokeniser inverts the model renderer on the pieces the writer produces.
-/
import SophiaProofs.Lemmas.XmlRoundtrip

set_option linter.unusedSimpArgs false
namespace SophiaProofs.XmlTok
open SophiaModel SophiaModel.XmlGlue SophiaProofs.XmlGlueL SophiaProofs.XmlRT

/-- `(l ++ r).span q = (l, r)` when `q` holds on `l` and fails at the head of `r` -/
theorem span_split {α} (q : α → Bool) (l r : List α) (hl : ∀ x ∈ l, q x = true)
    (hr : ∀ x t, r = x :: t → q x = false) : (l ++ r).span q = (l, r) := by
  rw [span_eq]
  induction l with
  | nil =>
    cases r with
    | nil => rfl
    | cons x t => simp [List.takeWhile_cons, List.dropWhile_cons, hr x t rfl]
  | cons a l ih =>
    have ha := hl a (by simp)
    have := ih (fun x hx => hl x (by simp [hx]))
    simp only [Prod.mk.injEq] at this
    simp [List.takeWhile_cons, List.dropWhile_cons, ha, this.1, this.2]

def goodNameChar (c : Char) : Bool := !isWs c && c != '>' && c != '/' && c != '='
def goodName : Str → Bool
  | [] => false
  | c :: r => c != '?' && (c :: r).all goodNameChar
def goodKeyChar (c : Char) : Bool := c != '=' && c != '>'
def goodKey : Str → Bool
  | [] => false
  | c :: r => !isWs c && (c :: r).all goodKeyChar

theorem renderAttrs_cons (kv : Str × Str) (as : List (Str × Str)) :
    renderAttrs (kv :: as) = ' ' :: (kv.1 ++ '=' :: '"' :: (escape kv.2 ++ '"' :: renderAttrs as)) := by
  simp [renderAttrs]

theorem parseAttrs_step (f : Nat) (k v rest : Str) (hk : goodKey k = true) (hv : ∀ x ∈ v, x ≠ '"') :
    parseAttrs (f + 1) (' ' :: (k ++ '=' :: '"' :: (v ++ '"' :: rest))) = (parseAttrs f rest).map ((k, v) :: ·) := by
  cases k with
  | nil => simp [goodKey] at hk
  | cons c k' =>
    simp only [goodKey, Bool.and_eq_true, Bool.not_eq_true', List.all_eq_true] at hk
    obtain ⟨hc, hall⟩ := hk
    generalize hY : '=' :: '"' :: (v ++ '"' :: rest) = Y
    have hdw : List.dropWhile isWs (' ' :: c :: (k' ++ Y)) = c :: (k' ++ Y) := by
      rw [List.dropWhile_cons, show isWs ' ' = true from rfl, if_pos rfl, List.dropWhile_cons, hc]
      simp
    have hsp1 : List.span (fun c => c != '=') (c :: (k' ++ Y)) = (c :: k', Y) := by
      have := span_split (fun c => c != '=') (c :: k') Y (fun x hx => by
        have := hall x hx; simp only [goodKeyChar, Bool.and_eq_true] at this; exact this.1)
        (fun x t hxt => by rw [← hY] at hxt; simp at hxt; simp [← hxt.1])
      simpa using this
    have hsp2 : List.span (fun c => c != '"') (v ++ '"' :: rest) = (v, '"' :: rest) :=
      span_split _ _ _ (fun x hx => by simpa using hv x hx) (fun x t hxt => by simp at hxt; simp [← hxt.1])
    rw [parseAttrs]
    simp only [List.cons_append]
    rw [hdw]
    simp only [hsp1]
    rw [← hY]
    simp only [hsp2]

theorem parseAttrs_render (as : List (Str × Str)) (hk : ∀ kv ∈ as, goodKey kv.1 = true) :
    ∀ fuel, as.length < fuel → parseAttrs fuel (renderAttrs as) = some (rawAttrs as) := by
  induction as with
  | nil =>
    intro fuel hf
    cases fuel with
    | zero => omega
    | succ f => simp [parseAttrs, renderAttrs, rawAttrs]
  | cons kv as ih =>
    intro fuel hf
    cases fuel with
    | zero => omega
    | succ f =>
      rw [renderAttrs_cons, parseAttrs_step f _ _ _ (hk kv (by simp)) (fun x hx => (escape_clean _ x hx).2.2.1),
        ih (fun kv hkv => hk kv (by simp [hkv])) f (by simp at hf; omega)]
      simp [rawAttrs]

theorem renderAttrs_last (as : List (Str × Str)) (h : as ≠ []) : ∃ pre, renderAttrs as = pre ++ ['"'] := by
  induction as with
  | nil => exact absurd rfl h
  | cons kv as ih =>
    rw [renderAttrs_cons]
    cases as with
    | nil => exact ⟨' ' :: (kv.1 ++ '=' :: '"' :: escape kv.2), by simp [renderAttrs]⟩
    | cons kv' as' =>
      obtain ⟨pre, hpre⟩ := ih (by simp)
      exact ⟨' ' :: (kv.1 ++ '=' :: '"' :: (escape kv.2 ++ '"' :: pre)), by rw [hpre]; simp⟩

theorem renderAttrs_head (as : List (Str × Str)) : ∀ x t, renderAttrs as = x :: t → isWs x = true := by
  intro x t h
  cases as with
  | nil => simp [renderAttrs] at h
  | cons kv as => rw [renderAttrs_cons] at h; simp at h; rw [← h.1]; rfl

theorem renderAttrs_length (as : List (Str × Str)) : as.length ≤ (renderAttrs as).length := by
  induction as with
  | nil => simp
  | cons kv as ih => rw [renderAttrs_cons]; simp; omega

theorem dropLast_concat (l : Str) (x : Char) : dropLast (l ++ [x]) = l := by
  simp [dropLast]

theorem goodName_facts (n : Str) (h : goodName n = true) :
    ∃ c r, n = c :: r ∧ c ≠ '?' ∧ c ≠ '/' ∧ ∀ x ∈ n, isWs x = false ∧ x ≠ '>' ∧ x ≠ '/' := by
  cases n with
  | nil => simp [goodName] at h
  | cons c r =>
    simp only [goodName, Bool.and_eq_true, bne_iff_ne, ne_eq, List.all_eq_true] at h
    have hall : ∀ x ∈ c :: r, isWs x = false ∧ x ≠ '>' ∧ x ≠ '/' := by
      intro x hx
      have := h.2 x hx
      simp only [goodNameChar, Bool.and_eq_true, Bool.not_eq_true', bne_iff_ne, ne_eq] at this
      exact ⟨this.1.1.1, this.1.1.2, this.1.2⟩
    exact ⟨c, r, rfl, h.1, (hall c (by simp)).2.2, hall⟩

theorem parseTag_body (n : Str) (as : List (Str × Str)) (sc : Bool) (hn : goodName n = true)
    (hk : ∀ kv ∈ as, goodKey kv.1 = true) :
    (match (n ++ renderAttrs as).span (fun c => !isWs c) with
      | (name, rest) => (parseAttrs (rest.length + 1) rest).map (fun as => Tok.start name as sc))
    = some (.start n (rawAttrs as) sc) := by
  obtain ⟨c, r, rfl, _, _, hall⟩ := goodName_facts n hn
  rw [span_split (fun c => !isWs c) (c :: r) (renderAttrs as) (fun x hx => by simp [(hall x hx).1])
    (fun x t hxt => by simp [renderAttrs_head as x t hxt])]
  simp only
  rw [parseAttrs_render as hk _ (by have := renderAttrs_length as; omega)]
  rfl

theorem parseTag_start (n : Str) (as : List (Str × Str)) (hn : goodName n = true) (has : as ≠ [])
    (hk : ∀ kv ∈ as, goodKey kv.1 = true) : parseTag (n ++ renderAttrs as) = some (.start n (rawAttrs as) false) := by
  obtain ⟨c, r, rfl, h1, h2, _⟩ := goodName_facts n hn
  obtain ⟨pre, hpre⟩ := renderAttrs_last as has
  have hlast : ((c :: r) ++ renderAttrs as).getLast? = some '"' := by
    rw [hpre, ← List.append_assoc]; exact List.getLast?_concat
  have := parseTag_body (c :: r) as false hn hk
  unfold parseTag
  split
  · rename_i heq; simp at heq; exact absurd heq.1 h1
  · rename_i heq; simp at heq; exact absurd heq.1 h2
  · simp only [hlast]
    simpa using this

theorem parseTag_empty (n : Str) (as : List (Str × Str)) (hn : goodName n = true)
    (hk : ∀ kv ∈ as, goodKey kv.1 = true) :
    parseTag (n ++ renderAttrs as ++ ['/']) = some (.start n (rawAttrs as) true) := by
  obtain ⟨c, r, rfl, h1, h2, _⟩ := goodName_facts n hn
  have hlast : ((c :: r) ++ renderAttrs as ++ ['/']).getLast? = some '/' := List.getLast?_concat
  have := parseTag_body (c :: r) as true hn hk
  unfold parseTag
  split
  · rename_i heq; simp at heq; exact absurd heq.1 h1
  · rename_i heq; simp at heq; exact absurd heq.1 h2
  · simp only [hlast, dropLast_concat]
    simpa using this

theorem parseTag_close (n : Str) (hn : goodName n = true) : parseTag ('/' :: n) = some (.close n) := by
  obtain ⟨c, r, rfl, _, _, hall⟩ := goodName_facts n hn
  simp only [parseTag]
  rw [takeWhile_all _ _ (fun x hx => by simp [(hall x hx).1])]

/-! ## tokeniser -/

theorem tokenize_markup (fuel : Nat) (tag after : Str) (tok : Tok) (ts : List Tok)
    (hgt : ∀ x ∈ tag, x ≠ '>') (hp : parseTag tag = some tok) (ht : tokenize fuel after = some ts) :
    tokenize (fuel + 1) ('<' :: (tag ++ '>' :: after)) = some (tok :: ts) := by
  rw [tokenize]
  rw [span_split (fun c => c != '>') tag ('>' :: after) (fun x hx => by simpa using hgt x hx)
    (fun x t hxt => by simp at hxt; simp [← hxt.1])]
  simp only [hp, ht]

theorem tokenize_text (fuel : Nat) (txt after : Str) (ts : List Tok) (hne : txt ≠ [])
    (hlt : ∀ x ∈ txt, x ≠ '<') (hafter : ∀ x t, after = x :: t → x = '<')
    (ht : tokenize fuel after = some ts) :
    tokenize (fuel + 1) (txt ++ after) = some (.text txt :: ts) := by
  cases txt with
  | nil => exact absurd rfl hne
  | cons c r =>
    have hc : c ≠ '<' := hlt c (by simp)
    have hsp := span_split (fun d => d != '<') (c :: r) after (fun x hx => by simpa using hlt x hx)
      (fun x t hxt => by simp [hafter x t hxt])
    simp only [List.cons_append] at hsp ⊢
    rw [tokenize.eq_4 fuel c (r ++ after) (fun h => hc h)]
    simp only [hsp, ht]
    rfl

def isTexty : Piece → Bool
  | .ws _ => true
  | .ev (.text _) => true
  | _ => false

/-- after inserted whitespace or text comes markup (or the end) -/
def sepOK : List Piece → Bool
  | a :: b :: r => (!isTexty a || !isTexty b) && sepOK (b :: r)
  | _ => true

def goodEv : Ev → Bool
  | .decl => true
  | .start n as => goodName n && !as.isEmpty && as.all (fun kv => goodKey kv.1)
  | .empty n as => goodName n && as.all (fun kv => goodKey kv.1)
  | .text _ => true
  | .close n => goodName n

def goodPiece : Piece → Bool
  | .ws _ => true
  | .ev e => goodEv e

theorem render_cons (p : Piece) (ps : List Piece) : render (p :: ps) = renderPiece p ++ render ps := by
  simp [render]

theorem renderAttrs_no_gt (as : List (Str × Str)) (hk : ∀ kv ∈ as, goodKey kv.1 = true) :
    ∀ x ∈ renderAttrs as, x ≠ '>' := by
  induction as with
  | nil => simp [renderAttrs]
  | cons kv as ih =>
    rw [renderAttrs_cons]
    intro x hx
    simp only [List.mem_cons, List.mem_append] at hx
    rcases hx with rfl | hx | rfl | rfl | hx | rfl | hx
    · decide
    · have := hk kv (by simp)
      cases hkk : kv.1 with
      | nil => rw [hkk] at hx; simp at hx
      | cons c r =>
        rw [hkk] at this hx
        simp only [goodKey, Bool.and_eq_true, List.all_eq_true] at this
        have := this.2 x hx
        simp only [goodKeyChar, Bool.and_eq_true, bne_iff_ne, ne_eq] at this
        exact this.2
    · decide
    · decide
    · exact (escape_clean _ x hx).2.1
    · decide
    · exact ih (fun kv hkv => hk kv (by simp [hkv])) x hx

/-- a markup piece renders as `<tag>` and the tag parses back to the piece's token -/
theorem markup_piece (e : Ev) (hg : goodEv e = true) (hm : isTexty (.ev e) = false) :
    ∃ tag tok, renderEv e = '<' :: (tag ++ ['>']) ∧ (∀ x ∈ tag, x ≠ '>') ∧ parseTag tag = some tok ∧ evTok e = [tok] := by
  cases e with
  | decl =>
    refine ⟨"?xml version=\"1.0\" encoding=\"UTF-8\"?".toList, .decl, by decide, by decide, by rfl, rfl⟩
  | text s => simp [isTexty] at hm
  | start n as =>
    simp only [goodEv, Bool.and_eq_true, Bool.not_eq_true', List.isEmpty_eq_false_iff, List.all_eq_true] at hg
    obtain ⟨⟨hn, has⟩, hk⟩ := hg
    obtain ⟨c, r, rfl, _, _, hall⟩ := goodName_facts n hn
    refine ⟨(c :: r) ++ renderAttrs as, _, by simp [renderEv], ?_, parseTag_start _ as hn has hk, rfl⟩
    intro x hx
    simp only [List.mem_append] at hx
    rcases hx with hx | hx
    · exact (hall x hx).2.1
    · exact renderAttrs_no_gt as hk x hx
  | empty n as =>
    simp only [goodEv, Bool.and_eq_true, List.all_eq_true] at hg
    obtain ⟨hn, hk⟩ := hg
    obtain ⟨c, r, rfl, _, _, hall⟩ := goodName_facts n hn
    refine ⟨(c :: r) ++ renderAttrs as ++ ['/'], _, by simp [renderEv], ?_, parseTag_empty _ as hn hk, rfl⟩
    intro x hx
    simp only [List.mem_append, List.mem_singleton] at hx
    rcases hx with (hx | hx) | rfl
    · exact (hall x hx).2.1
    · exact renderAttrs_no_gt as hk x hx
    · decide
  | close n =>
    simp only [goodEv] at hg
    obtain ⟨c, r, rfl, _, _, hall⟩ := goodName_facts n hg
    refine ⟨'/' :: c :: r, _, by simp [renderEv], ?_, parseTag_close _ hg, rfl⟩
    intro x hx
    simp only [List.mem_cons] at hx
    rcases hx with rfl | hx
    · decide
    · exact (hall x (by simpa using hx)).2.1

theorem render_head_markup (p : Piece) (ps : List Piece) (hg : goodPiece p = true) (hm : isTexty p = false) :
    ∀ x t, render (p :: ps) = x :: t → x = '<' := by
  intro x t h
  cases p with
  | ws k => simp [isTexty] at hm
  | ev e =>
    obtain ⟨tag, tok, hr, _, _, _⟩ := markup_piece e hg hm
    rw [render_cons, renderPiece, hr] at h
    simp at h
    exact h.1.symm

theorem escape_ne_nil (s : Str) (h : s ≠ []) : escape s ≠ [] := by
  cases s with
  | nil => exact absurd rfl h
  | cons c r =>
    rw [escape_cons]
    rcases escChar_cases c with ⟨_, e⟩ | ⟨_, e⟩ | ⟨_, e⟩ | ⟨_, e⟩ | ⟨_, e⟩ | ⟨_, e⟩ <;> rw [e] <;> simp

/-- **the tokeniser inverts the renderer** on well-formed piece lists -/
theorem tokenize_render (ps : List Piece) :
    (∀ p ∈ ps, goodPiece p = true) → sepOK ps = true →
    ∀ fuel, (render ps).length < fuel → tokenize fuel (render ps) = some (toks ps) := by
  induction ps with
  | nil =>
    intro _ _ fuel hf
    cases fuel with
    | zero => omega
    | succ f => simp [render, toks, tokenize]
  | cons p ps ih =>
    intro hg hs fuel hf
    have hs' : sepOK ps = true := by
      cases ps with
      | nil => rfl
      | cons b r => simp only [sepOK, Bool.and_eq_true] at hs; exact hs.2
    have hg' : ∀ q ∈ ps, goodPiece q = true := fun q hq => hg q (by simp [hq])
    have hafter : isTexty p = true → ∀ x t, render ps = x :: t → x = '<' := by
      intro hp x t h
      cases ps with
      | nil => simp [render] at h
      | cons b r =>
        simp only [sepOK, Bool.and_eq_true, Bool.or_eq_true, Bool.not_eq_true'] at hs
        have hb : isTexty b = false := by
          rcases hs.1 with h1 | h1
          · rw [hp] at h1; exact absurd h1 (by decide)
          · exact h1
        exact render_head_markup b r (hg b (by simp)) hb x t h
    rw [render_cons] at hf ⊢
    cases hp : isTexty p with
    | false =>
      cases p with
      | ws k => simp [isTexty] at hp
      | ev e =>
        obtain ⟨tag, tok, hr, hgt, hpt, hev⟩ := markup_piece e (hg (.ev e) (by simp)) hp
        simp only [renderPiece, hr] at hf ⊢
        cases fuel with
        | zero => omega
        | succ f =>
          have := ih hg' hs' f (by simp at hf; omega)
          simp only [List.cons_append, List.append_assoc, List.nil_append]
          rw [tokenize_markup f tag (render ps) tok (toks ps) hgt hpt this]
          simp [toks, pieceToks, hev]
    | true =>
      cases p with
      | ws k =>
        simp only [renderPiece] at hf ⊢
        cases fuel with
        | zero => omega
        | succ f =>
          have := ih hg' hs' f (by simp at hf; omega)
          rw [show ('\n' :: List.replicate k ' ') = wsText k from rfl,
            tokenize_text f (wsText k) (render ps) (toks ps) (by simp [wsText])
              (fun x hx => by
                simp only [wsText, List.mem_cons, List.mem_replicate] at hx
                rcases hx with rfl | ⟨_, rfl⟩ <;> decide)
              (hafter rfl) this]
          simp [toks, pieceToks]
      | ev e =>
        cases e with
        | text s =>
          simp only [renderPiece, renderEv] at hf ⊢
          by_cases hs0 : s = []
          · subst hs0
            simp only [escape, List.flatMap_nil, List.nil_append] at hf ⊢
            rw [ih hg' hs' fuel hf]
            simp [toks, pieceToks, evTok]
          · cases fuel with
            | zero => omega
            | succ f =>
              have := ih hg' hs' f (by
                have h0 : 0 < (escape s).length := List.length_pos_iff.mpr (escape_ne_nil s hs0)
                simp at hf; omega)
              rw [tokenize_text f (escape s) (render ps) (toks ps) (escape_ne_nil s hs0)
                (fun x hx => (escape_clean s x hx).1) (hafter rfl) this]
              simp [toks, pieceToks, evTok, hs0]
        | _ => simp [isTexty] at hp

end SophiaProofs.XmlTok
