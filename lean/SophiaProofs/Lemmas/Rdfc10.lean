/-
Lemmas about the model of `rdfc10.rs` (SophiaModel/Model/Rdfc10.lean): string order, the sorted
association lists, the identifier issuer invariant, monadic folds.
-/
import SophiaModel.Model.Rdfc10
import Std.Data.String.ToNat

namespace SophiaProofs.Rdfc10L
open SophiaModel SophiaModel.Rdfc10

/-! ### `cmpStr` -/

theorem cmpStr_refl : ∀ a : Str, cmpStr a a = .eq
  | [] => rfl
  | c :: cs => by simp [cmpStr, cmpStr_refl cs]

theorem cmpStr_eq_iff : ∀ {a b : Str}, cmpStr a b = .eq ↔ a = b
  | [], [] => by simp [cmpStr]
  | [], _ :: _ => by simp [cmpStr]
  | _ :: _, [] => by simp [cmpStr]
  | a :: as, b :: bs => by
    unfold cmpStr
    by_cases h1 : a.toNat < b.toNat
    · simp only [h1, if_true]
      constructor
      · intro h; cases h
      · intro h; injection h with h _; subst h; omega
    · by_cases h2 : b.toNat < a.toNat
      · simp only [h1, h2, if_true, if_false]
        constructor
        · intro h; cases h
        · intro h; injection h with h _; subst h; omega
      · simp only [h1, h2, if_false]
        have : a = b := Char.toNat_inj.mp (by omega)
        subst this
        rw [cmpStr_eq_iff (a := as) (b := bs)]
        constructor
        · intro h; rw [h]
        · intro h; injection h

theorem decimal_inj {m n : Nat} (h : decimal m = decimal n) : m = n :=
  Nat.repr_inj.mp (String.toList_inj.mp h)

/-! ### `SMap` -/

theorem get_nil {α : Type} (k : Str) : SMap.get ([] : SMap α) k = none := rfl

theorem get_cons {α : Type} (k k' : Str) (v : α) (m : SMap α) :
    SMap.get ((k', v) :: m) k = if k = k' then some v else SMap.get m k := by
  unfold SMap.get
  rw [List.lookup_cons]
  by_cases h : k = k'
  · subst h; simp
  · have : (k == k') = false := by simpa using h
    simp [this, h]

theorem get_upsert_ne {α : Type} (f : Option α → α) (k k' : Str) (hne : k' ≠ k) :
    ∀ m : SMap α, SMap.get (m.upsert k f) k' = SMap.get m k'
  | [] => by simp [SMap.upsert, get_cons, hne, get_nil]
  | (k0, v) :: rest => by
    unfold SMap.upsert
    split
    · simp [get_cons, hne]
    · rename_i h
      have : k = k0 := cmpStr_eq_iff.mp h
      subst this
      simp [get_cons, hne]
    · simp [get_cons, get_upsert_ne f k k' hne rest]

theorem get_upsert_self_none {α : Type} (f : Option α → α) (k : Str) :
    ∀ m : SMap α, SMap.get m k = none → SMap.get (m.upsert k f) k = some (f none)
  | [], _ => by simp [SMap.upsert, get_cons]
  | (k0, v) :: rest, h => by
    rw [get_cons] at h
    by_cases hk : k = k0
    · simp [hk] at h
    · simp only [hk, if_false] at h
      unfold SMap.upsert
      split
      · simp [get_cons]
      · rename_i h'
        exact absurd (cmpStr_eq_iff.mp h') hk
      · simp [get_cons, hk, get_upsert_self_none f k rest h]

theorem get_upsert_self_some {α : Type} (f : Option α → α) (k : Str) :
    ∀ m : SMap α, (SMap.get (m.upsert k f) k).isSome
  | [] => by simp [SMap.upsert, get_cons]
  | (k0, v) :: rest => by
    unfold SMap.upsert
    split
    · simp [get_cons]
    · rename_i h
      have : k = k0 := cmpStr_eq_iff.mp h
      subst this
      simp [get_cons]
    · rw [get_cons]
      split
      · simp
      · exact get_upsert_self_some f k rest

theorem length_upsert_none {α : Type} (f : Option α → α) (k : Str) :
    ∀ m : SMap α, SMap.get m k = none → (m.upsert k f).length = m.length + 1
  | [], _ => by simp [SMap.upsert]
  | (k0, v) :: rest, h => by
    rw [get_cons] at h
    by_cases hk : k = k0
    · simp [hk] at h
    · simp only [hk, if_false] at h
      unfold SMap.upsert
      split
      · simp
      · rename_i h'
        exact absurd (cmpStr_eq_iff.mp h') hk
      · simp [length_upsert_none f k rest h]

/-! ### folds in `Except` -/

theorem foldlM_nil {ε σ α : Type} (f : σ → α → Except ε σ) (s : σ) :
    List.foldlM f s ([] : List α) = .ok s := rfl

theorem foldlM_cons_ok {ε σ α : Type} (f : σ → α → Except ε σ) (s s' : σ) (a : α) (l : List α)
    (h : f s a = .ok s') : List.foldlM f s (a :: l) = List.foldlM f s' l := by
  rw [List.foldlM_cons, h]; rfl

theorem foldlM_cons_err {ε σ α : Type} (f : σ → α → Except ε σ) (s : σ) (e : ε) (a : α) (l : List α)
    (h : f s a = .error e) : List.foldlM f s (a :: l) = .error e := by
  rw [List.foldlM_cons, h]; rfl

/-- an invariant preserved by every successful step holds at the end of a successful fold -/
theorem foldlM_inv {ε σ α : Type} (P : σ → Prop) (f : σ → α → Except ε σ)
    (hstep : ∀ s a s', P s → f s a = .ok s' → P s') :
    ∀ (l : List α) (s r : σ), P s → List.foldlM f s l = .ok r → P r
  | [], s, r, hs, h => by
    rw [foldlM_nil] at h; cases h; exact hs
  | a :: l, s, r, hs, h => by
    cases hf : f s a with
    | error e => rw [foldlM_cons_err f s e a l hf] at h; cases h
    | ok s' =>
      rw [foldlM_cons_ok f s s' a l hf] at h
      exact foldlM_inv P f hstep l s' r (hstep s a s' hs hf) h

/-- invariant with membership information about the element processed -/
theorem foldlM_inv_mem {ε σ α : Type} (P : σ → Prop) (f : σ → α → Except ε σ) :
    ∀ (l : List α) (s r : σ), (∀ s a s', a ∈ l → P s → f s a = .ok s' → P s') →
      P s → List.foldlM f s l = .ok r → P r
  | [], s, r, _, hs, h => by
    rw [foldlM_nil] at h; cases h; exact hs
  | a :: l, s, r, hstep, hs, h => by
    cases hf : f s a with
    | error e => rw [foldlM_cons_err f s e a l hf] at h; cases h
    | ok s' =>
      rw [foldlM_cons_ok f s s' a l hf] at h
      exact foldlM_inv_mem P f l s' r (fun s a s' ha => hstep s a s' (List.mem_cons_of_mem _ ha))
        (hstep s a s' (List.mem_cons_self) hs hf) h

/-- if `g` succeeds with the same value wherever `f` does, so do the folds -/
theorem foldlM_ok_mono {ε ε' σ α : Type} (f : σ → α → Except ε σ) (g : σ → α → Except ε' σ)
    (h : ∀ s a s', f s a = .ok s' → g s a = .ok s') :
    ∀ (l : List α) (s r : σ), List.foldlM f s l = .ok r → List.foldlM g s l = .ok r
  | [], s, r, hr => by rw [foldlM_nil] at hr ⊢; cases hr; rfl
  | a :: l, s, r, hr => by
    cases hf : f s a with
    | error e => rw [foldlM_cons_err f s e a l hf] at hr; cases hr
    | ok s' =>
      rw [foldlM_cons_ok f s s' a l hf] at hr
      rw [foldlM_cons_ok g s s' a l (h s a s' hf)]
      exact foldlM_ok_mono f g h l s' r hr

/-- every error of a fold is an error of some step -/
theorem foldlM_error {ε σ α : Type} (f : σ → α → Except ε σ) :
    ∀ (l : List α) (s : σ) (e : ε), List.foldlM f s l = .error e → ∃ s' a, a ∈ l ∧ f s' a = .error e
  | [], s, e, h => by rw [foldlM_nil] at h; cases h
  | a :: l, s, e, h => by
    cases hf : f s a with
    | error e' =>
      rw [foldlM_cons_err f s e' a l hf] at h
      cases h
      exact ⟨s, a, List.mem_cons_self, hf⟩
    | ok s' =>
      rw [foldlM_cons_ok f s s' a l hf] at h
      obtain ⟨s'', b, hb, hfb⟩ := foldlM_error f l s' e h
      exact ⟨s'', b, List.mem_cons_of_mem _ hb, hfb⟩

/-- if some element makes the step fail (whatever the state) and all failures are `e`, the fold fails with `e` -/
theorem foldlM_error_of_mem {ε σ α : Type} (f : σ → α → Except ε σ) (e : ε)
    (hall : ∀ s a e', f s a = .error e' → e' = e) :
    ∀ (l : List α) (s : σ), (∃ a, a ∈ l ∧ ∀ s, f s a = .error e) → List.foldlM f s l = .error e
  | [], _, ⟨_, ha, _⟩ => by cases ha
  | a :: l, s, ⟨b, hb, hfb⟩ => by
    cases hf : f s a with
    | error e' =>
      rw [foldlM_cons_err f s e' a l hf, hall s a e' hf]
    | ok s' =>
      rw [foldlM_cons_ok f s s' a l hf]
      rcases List.mem_cons.mp hb with h | h
      · subst h; rw [hfb s] at hf; cases hf
      · exact foldlM_error_of_mem f e hall l s' ⟨b, h, hfb⟩

/-! ### identifier issuer -/

/-- the counter invariant of `BnodeIssuer`: `issued` maps the k-th issued label to `prefix‖k` -/
structure IssuerWF (i : Issuer) : Prop where
  get_iff : ∀ b id, i.get b = some id ↔ ∃ k, i.order[k]? = some b ∧ id = i.pfx ++ decimal k
  len : i.issued.length = i.order.length

theorem wf_new (p : Str) : IssuerWF (Issuer.new p) where
  get_iff := by
    intro b id
    simp [Issuer.new, Issuer.get, get_nil]
  len := rfl

theorem issue_pfx (i : Issuer) (b : Str) : (i.issue b).2.pfx = i.pfx := by
  unfold Issuer.issue
  split <;> rfl

theorem issue'_pfx (i : Issuer) (b : Str) : (i.issue' b).pfx = i.pfx := issue_pfx i b

theorem wf_issue (i : Issuer) (b : Str) (h : IssuerWF i) : IssuerWF (i.issue' b) := by
  unfold Issuer.issue' Issuer.issue
  cases hg : i.issued.get b with
  | some id => simpa using h
  | none =>
    have hnot : ∀ k : Nat, i.order[k]? ≠ some b := by
      intro k hk
      have := (h.get_iff b (i.pfx ++ decimal k)).mpr ⟨k, hk, rfl⟩
      rw [Issuer.get, hg] at this
      cases this
    constructor
    · intro b' id
      simp only [Issuer.get]
      by_cases hb : b' = b
      · subst hb
        rw [get_upsert_self_none _ _ _ hg]
        constructor
        · intro hid
          injection hid with hid
          refine ⟨i.order.length, ?_, hid.symm⟩
          simp
        · rintro ⟨k, hk, hid⟩
          have hk' : k = i.order.length := by
            rcases Nat.lt_or_ge k i.order.length with hlt | hge
            · rw [List.getElem?_append_left hlt] at hk
              exact absurd hk (hnot k)
            · rcases Nat.lt_or_ge i.order.length k with hgt | hle
              · rw [List.getElem?_append_right (Nat.le_of_lt hgt)] at hk
                have : k - i.order.length ≠ 0 := by omega
                cases hkk : k - i.order.length with
                | zero => exact absurd hkk this
                | succ n => rw [hkk] at hk; simp at hk
              · omega
          subst hk'
          rw [hid]
      · rw [get_upsert_ne _ _ _ hb]
        have := h.get_iff b' id
        simp only [Issuer.get] at this
        rw [this]
        constructor
        · rintro ⟨k, hk, hid⟩
          have hlt : k < i.order.length := by
            rcases Nat.lt_or_ge k i.order.length with hlt | hge
            · exact hlt
            · rw [List.getElem?_eq_none_iff.mpr hge] at hk; cases hk
          exact ⟨k, by rw [List.getElem?_append_left hlt]; exact hk, hid⟩
        · rintro ⟨k, hk, hid⟩
          rcases Nat.lt_or_ge k i.order.length with hlt | hge
          · rw [List.getElem?_append_left hlt] at hk
            exact ⟨k, hk, hid⟩
          · rw [List.getElem?_append_right hge] at hk
            cases hkk : k - i.order.length with
            | zero =>
              rw [hkk] at hk
              simp at hk
              exact absurd hk.symm hb
            | succ n => rw [hkk] at hk; simp at hk
    · simp only []
      rw [length_upsert_none _ _ _ hg, List.length_append, h.len]
      rfl

theorem wf_issueAll (l : List Str) : ∀ (i : Issuer), IssuerWF i → IssuerWF (issueAll i l) := by
  induction l with
  | nil => intro i h; exact h
  | cons b l ih => intro i h; exact ih _ (wf_issue i b h)

theorem issueAll_pfx (l : List Str) : ∀ (i : Issuer), (issueAll i l).pfx = i.pfx := by
  induction l with
  | nil => intro i; rfl
  | cons b l ih => intro i; exact (ih _).trans (issue'_pfx i b)

end SophiaProofs.Rdfc10L

namespace SophiaProofs.Rdfc10L
open SophiaModel SophiaModel.Rdfc10

/-! ### decomposition of `relabelWith` -/

theorem bind_ok {ε α β : Type} (a : α) (f : α → Except ε β) : (Except.ok a >>= f) = f a := rfl
theorem bind_err {ε α β : Type} (e : ε) (f : α → Except ε β) : (Except.error e >>= f) = .error e := rfl

/-- the canonical issuer before step 5 -/
def canon4 (H : Str → Str) (b2q : SMap (List Quad)) : SMap (List Str) × Issuer :=
  step4 (step3 H b2q).1 (Issuer.new "c14n".toList)

theorem relabelWith_ok {H : Str → Str} {td : Nat → Nat → Bool} {pl : Nat} {D out : List Quad} {m : SMap Str}
    (h : relabelWith H td pl D = .ok (out, m)) :
    ∃ b2q canonical, step2 D = .ok b2q ∧
      step5 H b2q (step3 H b2q).2 td pl (b2q.length + 1) (canon4 H b2q).1 (canon4 H b2q).2 = .ok canonical ∧
      D.mapM (convertQuad canonical.issued) = .ok out ∧ m = canonical.issued := by
  unfold relabelWith at h
  cases h2 : step2 D with
  | error e => rw [h2, bind_err] at h; cases h
  | ok b2q =>
    rw [h2, bind_ok] at h
    simp only [] at h
    cases h5 : step5 H b2q (step3 H b2q).2 td pl (b2q.length + 1)
        (step4 (step3 H b2q).1 (Issuer.new "c14n".toList)).1 (step4 (step3 H b2q).1 (Issuer.new "c14n".toList)).2 with
    | error e => rw [h5] at h; simp only [liftH, bind_err] at h; cases h
    | ok canonical =>
      rw [h5] at h
      simp only [liftH, bind_ok] at h
      cases hm : D.mapM (convertQuad canonical.issued) with
      | error e => rw [hm, bind_err] at h; cases h
      | ok out' =>
        rw [hm, bind_ok] at h
        injection h with h
        injection h with h1 h2'
        subst h1
        exact ⟨b2q, canonical, rfl, h5, hm, h2'.symm⟩

/-! ### the canonical issuer stays well-formed -/

theorem step4_wf (h2b : SMap (List Str)) (c : Issuer) (hc : IssuerWF c) : IssuerWF (step4 h2b c).2 := by
  unfold step4
  have : ∀ (l : SMap (List Str)) (acc : SMap (List Str) × Issuer), IssuerWF acc.2 →
      IssuerWF (l.foldl (fun (acc : SMap (List Str) × Issuer) (e : Str × List Str) =>
        if e.2.length > 1 then (acc.1 ++ [e], acc.2)
        else match e.2 with
          | b :: _ => (acc.1, acc.2.issue' b)
          | [] => acc) acc).2 := by
    intro l
    induction l with
    | nil => intro acc h; exact h
    | cons e l ih =>
      intro acc h
      rw [List.foldl_cons]
      apply ih
      split
      · exact h
      · split
        · exact wf_issue _ _ h
        · exact h
  exact this h2b ([], c) hc

theorem step4_pfx (h2b : SMap (List Str)) (c : Issuer) : (step4 h2b c).2.pfx = c.pfx := by
  unfold step4
  have : ∀ (l : SMap (List Str)) (acc : SMap (List Str) × Issuer),
      (l.foldl (fun (acc : SMap (List Str) × Issuer) (e : Str × List Str) =>
        if e.2.length > 1 then (acc.1 ++ [e], acc.2)
        else match e.2 with
          | b :: _ => (acc.1, acc.2.issue' b)
          | [] => acc) acc).2.pfx = acc.2.pfx := by
    intro l
    induction l with
    | nil => intro acc; rfl
    | cons e l ih =>
      intro acc
      rw [List.foldl_cons, ih]
      split
      · rfl
      · split
        · exact issue'_pfx _ _
        · rfl
  exact this h2b ([], c)

theorem foldl_issueAll_wf (l : List (Str × Issuer)) :
    ∀ c : Issuer, IssuerWF c → IssuerWF (l.foldl (fun can r => issueAll can r.2.order) c) := by
  induction l with
  | nil => intro c h; exact h
  | cons r l ih => intro c h; exact ih _ (wf_issueAll _ _ h)

theorem foldl_issueAll_pfx (l : List (Str × Issuer)) :
    ∀ c : Issuer, (l.foldl (fun can r => issueAll can r.2.order) c).pfx = c.pfx := by
  induction l with
  | nil => intro c; rfl
  | cons r l ih => intro c; exact (ih _).trans (issueAll_pfx _ _)

theorem step5Group_ok {H b2q b2h td pl fuel} {c c' : Issuer} {e : Str × List Str}
    (h : step5Group H b2q b2h td pl fuel c e = .ok c') :
    ∃ hpl : List (Str × Issuer), c' = (sortByHash hpl).foldl (fun can r => issueAll can r.2.order) c := by
  unfold step5Group at h
  simp only [] at h
  cases hh : (e.2.foldlM (fun (acc : List (Str × Issuer)) n => do
      let r ← hashNDegree ⟨H, b2q, b2h, c, td, pl⟩ fuel n ((Issuer.new ['b']).issue' n) 0
      Except.ok (acc ++ [r])) []) with
  | error err => rw [hh, bind_err] at h; cases h
  | ok hpl =>
    rw [hh, bind_ok] at h
    injection h with h
    exact ⟨hpl, h.symm⟩

theorem step5_wf {H b2q b2h td pl fuel} (h2b : SMap (List Str)) (c c' : Issuer)
    (h : step5 H b2q b2h td pl fuel h2b c = .ok c') (hc : IssuerWF c) : IssuerWF c' ∧ c'.pfx = c.pfx := by
  unfold step5 at h
  refine foldlM_inv (fun x : Issuer => IssuerWF x ∧ x.pfx = c.pfx) _ ?_ h2b c c' ⟨hc, rfl⟩ h
  intro s e s' hs hstep
  obtain ⟨hpl, rfl⟩ := step5Group_ok hstep
  exact ⟨foldl_issueAll_wf _ _ hs.1, (foldl_issueAll_pfx _ _).trans hs.2⟩

theorem relabelWith_wf {H : Str → Str} {td : Nat → Nat → Bool} {pl : Nat} {D out : List Quad} {m : SMap Str}
    (h : relabelWith H td pl D = .ok (out, m)) :
    ∃ canonical : Issuer, IssuerWF canonical ∧ canonical.pfx = "c14n".toList ∧ m = canonical.issued ∧
      D.mapM (convertQuad canonical.issued) = .ok out := by
  obtain ⟨b2q, canonical, _, h5, hm, rfl⟩ := relabelWith_ok h
  have h4 : IssuerWF (canon4 H b2q).2 := step4_wf _ _ (wf_new _)
  have := step5_wf _ _ _ h5 h4
  refine ⟨canonical, this.1, ?_, rfl, hm⟩
  rw [this.2]
  exact step4_pfx _ _

end SophiaProofs.Rdfc10L

namespace SophiaProofs.Rdfc10L
open SophiaModel SophiaModel.Rdfc10

/-! ### `mapM` in `Except` -/

/-- pointwise relation between two lists of the same length -/
inductive AllRel {α β : Type} (P : α → β → Prop) : List α → List β → Prop
  | nil : AllRel P [] []
  | cons {a b l l'} : P a b → AllRel P l l' → AllRel P (a :: l) (b :: l')

theorem mapM_ok {ε α β : Type} (f : α → Except ε β) :
    ∀ (l : List α) (out : List β), l.mapM f = .ok out → AllRel (fun a b => f a = .ok b) l out
  | [], out, h => by
    rw [List.mapM_nil] at h
    cases h
    exact .nil
  | a :: l, out, h => by
    rw [List.mapM_cons] at h
    cases hf : f a with
    | error e => rw [hf, bind_err] at h; cases h
    | ok b =>
      rw [hf, bind_ok] at h
      cases hl : l.mapM f with
      | error e => rw [hl, bind_err] at h; cases h
      | ok bs =>
        rw [hl, bind_ok] at h
        cases h
        exact .cons hf (mapM_ok f l bs hl)

theorem mapM_error {ε α β : Type} (f : α → Except ε β) :
    ∀ (l : List α) (e : ε), l.mapM f = .error e → ∃ a ∈ l, f a = .error e
  | [], e, h => by rw [List.mapM_nil] at h; cases h
  | a :: l, e, h => by
    rw [List.mapM_cons] at h
    cases hf : f a with
    | error e' =>
      rw [hf, bind_err] at h
      cases h
      exact ⟨a, List.mem_cons_self, hf⟩
    | ok b =>
      rw [hf, bind_ok] at h
      cases hl : l.mapM f with
      | error e' =>
        rw [hl, bind_err] at h
        cases h
        obtain ⟨x, hx, hfx⟩ := mapM_error f l e hl
        exact ⟨x, List.mem_cons_of_mem _ hx, hfx⟩
      | ok bs => rw [hl, bind_ok] at h; cases h

theorem forall₂_eq_map {α β : Type} (P : α → β → Prop) (g : α → β) (hg : ∀ a b, P a b → b = g a) :
    ∀ (l : List α) (out : List β), AllRel P l out → out = l.map g
  | _, _, .nil => rfl
  | _, _, .cons h t => by
    rw [List.map_cons, hg _ _ h, forall₂_eq_map P g hg _ _ t]

end SophiaProofs.Rdfc10L

namespace SophiaProofs.Rdfc10L
open SophiaModel SophiaModel.Rdfc10

/-! ### step 2 and the `Unsupported` error -/

/-- the input features `relabel_with` rejects -/
def BadQuad (q : Quad) : Prop :=
  predicateRejected q.p = true ∨ ∃ c ∈ components q, (isTriple c.1 || isVar c.1) = true

theorem step2Comp_err {q : Quad} {m : SMap (List Quad)} {c : Term × Str} {e : Err}
    (h : step2Comp q m c = .error e) : e = .unsupported ∧ (isTriple c.1 || isVar c.1) = true := by
  unfold step2Comp at h
  split at h
  · rename_i hc; injection h with h; exact ⟨h.symm, hc⟩
  · split at h <;> cases h

theorem step2Comp_bad {q : Quad} (m : SMap (List Quad)) {c : Term × Str}
    (hc : (isTriple c.1 || isVar c.1) = true) : step2Comp q m c = .error .unsupported := by
  unfold step2Comp
  rw [if_pos hc]

theorem step2Quad_err {q : Quad} {m : SMap (List Quad)} {e : Err}
    (h : step2Quad m q = .error e) : e = .unsupported ∧ BadQuad q := by
  unfold step2Quad at h
  split at h
  · rename_i hp; injection h with h; exact ⟨h.symm, Or.inl hp⟩
  · obtain ⟨m', c, hc, hce⟩ := foldlM_error _ _ _ _ h
    obtain ⟨he, hb⟩ := step2Comp_err hce
    exact ⟨he, Or.inr ⟨c, hc, hb⟩⟩

theorem step2Quad_bad {q : Quad} (hq : BadQuad q) (m : SMap (List Quad)) :
    step2Quad m q = .error .unsupported := by
  unfold step2Quad
  by_cases hp : predicateRejected q.p = true
  · rw [if_pos hp]
  · rw [if_neg hp]
    rcases hq with hq | ⟨c, hc, hb⟩
    · exact absurd hq hp
    · exact foldlM_error_of_mem _ _ (fun s a e' he => (step2Comp_err he).1) _ _
        ⟨c, hc, fun s => step2Comp_bad s hb⟩

theorem step2_err {D : List Quad} {e : Err} (h : step2 D = .error e) :
    e = .unsupported ∧ ∃ q ∈ D, BadQuad q := by
  obtain ⟨m, q, hq, hqe⟩ := foldlM_error _ _ _ _ h
  obtain ⟨he, hb⟩ := step2Quad_err hqe
  exact ⟨he, q, hq, hb⟩

theorem step2_bad {D : List Quad} (h : ∃ q ∈ D, BadQuad q) : step2 D = .error .unsupported := by
  obtain ⟨q, hq, hb⟩ := h
  exact foldlM_error_of_mem _ _ (fun s a e' he => (step2Quad_err he).1) _ _ ⟨q, hq, fun s => step2Quad_bad hb s⟩

theorem convert_err {m : SMap Str} {t : Term} {e : Err} (h : convert m t = .error e) : e = .panic := by
  cases t with
  | bnode b =>
    simp only [convert] at h
    cases hg : m.get b with
    | none => rw [hg] at h; injection h with h; exact h.symm
    | some c => rw [hg] at h; cases h
  | iri s => simp only [convert] at h; cases h
  | lit l d => simp only [convert] at h; cases h
  | lang l d => simp only [convert] at h; cases h
  | triple s p o => simp only [convert] at h; cases h
  | var s => simp only [convert] at h; cases h

theorem convertQuad_err {m : SMap Str} {q : Quad} {e : Err} (h : convertQuad m q = .error e) : e = .panic := by
  unfold convertQuad at h
  cases hs : convert m q.s with
  | error e' => rw [hs, bind_err] at h; injection h with h; rw [← h]; exact convert_err hs
  | ok s =>
    rw [hs, bind_ok] at h
    cases hp : convert m q.p with
    | error e' => rw [hp, bind_err] at h; injection h with h; rw [← h]; exact convert_err hp
    | ok p =>
      rw [hp, bind_ok] at h
      cases ho : convert m q.o with
      | error e' => rw [ho, bind_err] at h; injection h with h; rw [← h]; exact convert_err ho
      | ok o =>
        rw [ho, bind_ok] at h
        cases hg : convertG m q.g with
        | error e' =>
          rw [hg, bind_err] at h
          injection h with h
          rw [← h]
          cases hq : q.g with
          | none => rw [hq] at hg; simp only [convertG] at hg; cases hg
          | some g =>
            rw [hq] at hg
            simp only [convertG] at hg
            cases hc : convert m g with
            | error e'' => rw [hc] at hg; injection hg with hg; rw [← hg]; exact convert_err hc
            | ok g' => rw [hc] at hg; cases hg
        | ok g => rw [hg, bind_ok] at h; cases h

/-- where an error of `relabelWith` comes from -/
theorem relabelWith_err {H : Str → Str} {td : Nat → Nat → Bool} {pl : Nat} {D : List Quad} {e : Err}
    (h : relabelWith H td pl D = .error e) :
    (e = .unsupported ∧ step2 D = .error .unsupported) ∨ (∃ he, e = .hnd he) ∨ e = .panic := by
  unfold relabelWith at h
  cases h2 : step2 D with
  | error e' =>
    rw [h2, bind_err] at h
    injection h with h
    have := (step2_err h2).1
    subst this
    exact Or.inl ⟨h.symm, rfl⟩
  | ok b2q =>
    rw [h2, bind_ok] at h
    simp only [] at h
    cases h5 : step5 H b2q (step3 H b2q).2 td pl (b2q.length + 1)
        (step4 (step3 H b2q).1 (Issuer.new "c14n".toList)).1 (step4 (step3 H b2q).1 (Issuer.new "c14n".toList)).2 with
    | error e' =>
      rw [h5] at h
      simp only [liftH, bind_err] at h
      injection h with h
      exact Or.inr (Or.inl ⟨e', h.symm⟩)
    | ok canonical =>
      rw [h5] at h
      simp only [liftH, bind_ok] at h
      cases hm : D.mapM (convertQuad canonical.issued) with
      | error e' =>
        rw [hm, bind_err] at h
        injection h with h
        obtain ⟨q, _, hq⟩ := mapM_error _ _ _ hm
        exact Or.inr (Or.inr (h ▸ convertQuad_err hq))
      | ok out' => rw [hm, bind_ok] at h; cases h

end SophiaProofs.Rdfc10L

namespace SophiaProofs.Rdfc10L
open SophiaModel SophiaModel.Rdfc10

/-! ### the safeguards only ever turn a result into an error -/

/-- `c` with other limits -/
def relax (c : Ctx) (td' : Nat → Nat → Bool) (pl' : Nat) : Ctx := { c with tooDeep := td', permLimit := pl' }

theorem step545_mono {recur recur' : Str → Issuer → Except HErr (Str × Issuer)}
    (hr : ∀ rel ic x, recur rel ic = .ok x → recur' rel ic = .ok x) (cp : Str)
    (acc : Option (Issuer × Str)) (rel : Str) (x : Option (Issuer × Str))
    (h : step545 recur cp acc rel = .ok x) : step545 recur' cp acc rel = .ok x := by
  unfold step545 at h ⊢
  cases acc with
  | none => exact h
  | some a =>
    obtain ⟨ic, path⟩ := a
    simp only [] at h ⊢
    cases hrec : recur rel ic with
    | error e => rw [hrec, bind_err] at h; cases h
    | ok res =>
      rw [hr rel ic res hrec, bind_ok]
      rw [hrec, bind_ok] at h
      exact h

theorem permBody_mono (c : Ctx) (td' : Nat → Nat → Bool) (pl' : Nat)
    {recur recur' : Str → Issuer → Except HErr (Str × Issuer)}
    (hr : ∀ rel ic x, recur rel ic = .ok x → recur' rel ic = .ok x) (base : Issuer)
    (ch : Chosen) (p : List Str) (x : Chosen)
    (h : permBody c recur base ch p = .ok x) : permBody (relax c td' pl') recur' base ch p = .ok x := by
  unfold permBody at h ⊢
  have e544 : step544 (relax c td' pl') = step544 c := rfl
  rw [e544]
  simp only [] at h ⊢
  split at h
  · rename_i hc; rw [if_pos hc]; exact h
  · rename_i hc
    rw [if_neg hc]
    cases hf : List.foldlM (step545 recur ch.path) (some ((List.foldl (step544 c) (base, [], []) p).1,
        (List.foldl (step544 c) (base, [], []) p).2.1)) (List.foldl (step544 c) (base, [], []) p).2.2 with
    | error e => rw [hf, bind_err] at h; cases h
    | ok r =>
      rw [foldlM_ok_mono _ _ (step545_mono hr ch.path) _ _ _ hf, bind_ok]
      rw [hf, bind_ok] at h
      exact h

theorem hnEntry_mono (c : Ctx) (td' : Nat → Nat → Bool) (pl' : Nat) (hpl : c.permLimit ≤ pl')
    {recur recur' : Str → Issuer → Except HErr (Str × Issuer)}
    (hr : ∀ rel ic x, recur rel ic = .ok x → recur' rel ic = .ok x) (issuer : Issuer)
    (acc : Str × Option Issuer) (e : Str × List Str) (x : Str × Option Issuer)
    (h : hnEntry c recur issuer acc e = .ok x) : hnEntry (relax c td' pl') recur' issuer acc e = .ok x := by
  unfold hnEntry at h ⊢
  split at h
  · cases h
  · rename_i hlen
    have : ¬ e.2.length > (relax c td' pl').permLimit := by
      show ¬ e.2.length > pl'
      omega
    rw [if_neg this]
    cases hf : List.foldlM (permBody c recur (acc.2.getD issuer)) ⟨[], none⟩ (heapPerms e.2) with
    | error err => rw [hf, bind_err] at h; cases h
    | ok ch =>
      rw [foldlM_ok_mono _ _ (permBody_mono c td' pl' hr (acc.2.getD issuer)) _ _ _ hf, bind_ok]
      rw [hf, bind_ok] at h
      exact h

theorem hashNDegree_mono (c : Ctx) (td' : Nat → Nat → Bool) (pl' : Nat)
    (htd : ∀ d n, td' d n = true → c.tooDeep d n = true) (hpl : c.permLimit ≤ pl') :
    ∀ (fuel : Nat) (ident : Str) (issuer : Issuer) (depth : Nat) (x : Str × Issuer),
      hashNDegree c fuel ident issuer depth = .ok x →
      hashNDegree (relax c td' pl') fuel ident issuer depth = .ok x := by
  intro fuel
  induction fuel with
  | zero => intro ident issuer depth x h; simp only [hashNDegree] at h; cases h
  | succ fuel ih =>
    intro ident issuer depth x h
    simp only [hashNDegree] at h ⊢
    split at h
    · cases h
    · rename_i hd
      have hd' : ¬ (relax c td' pl').tooDeep depth (relax c td' pl').b2q.length = true := by
        intro hh
        exact hd (htd _ _ hh)
      rw [if_neg hd']
      have eb : buildHn (relax c td' pl') ident issuer = buildHn c ident issuer := rfl
      rw [eb]
      cases hb : buildHn c ident issuer with
      | error e => rw [hb, bind_err] at h; cases h
      | ok hn =>
        rw [hb, bind_ok] at h
        rw [bind_ok]
        cases hf : List.foldlM (hnEntry c (fun rel ic => hashNDegree c fuel rel ic (depth + 1)) issuer) ([], none) hn with
        | error e => rw [hf, bind_err] at h; cases h
        | ok r =>
          rw [foldlM_ok_mono _ _ (hnEntry_mono c td' pl' hpl (fun rel ic x hx => ih rel ic (depth + 1) x hx) issuer) _ _ _ hf,
            bind_ok]
          rw [hf, bind_ok] at h
          exact h

theorem step5Group_mono {H : Str → Str} {b2q : SMap (List Quad)} {b2h : SMap Str} {td td' : Nat → Nat → Bool}
    {pl pl' : Nat} (htd : ∀ d n, td' d n = true → td d n = true) (hpl : pl ≤ pl') (fuel : Nat)
    (can : Issuer) (e : Str × List Str) (can' : Issuer)
    (h : step5Group H b2q b2h td pl fuel can e = .ok can') :
    step5Group H b2q b2h td' pl' fuel can e = .ok can' := by
  unfold step5Group at h ⊢
  simp only [] at h ⊢
  cases hf : (e.2.foldlM (fun (acc : List (Str × Issuer)) n => do
      let r ← hashNDegree ⟨H, b2q, b2h, can, td, pl⟩ fuel n ((Issuer.new ['b']).issue' n) 0
      Except.ok (acc ++ [r])) []) with
  | error err => rw [hf, bind_err] at h; cases h
  | ok hpl' =>
    rw [hf, bind_ok] at h
    have := foldlM_ok_mono
      (fun (acc : List (Str × Issuer)) n => do
        let r ← hashNDegree ⟨H, b2q, b2h, can, td, pl⟩ fuel n ((Issuer.new ['b']).issue' n) 0
        Except.ok (acc ++ [r]))
      (fun (acc : List (Str × Issuer)) n => do
        let r ← hashNDegree ⟨H, b2q, b2h, can, td', pl'⟩ fuel n ((Issuer.new ['b']).issue' n) 0
        Except.ok (acc ++ [r]))
      (by
        intro s a s' hs
        cases hh : hashNDegree ⟨H, b2q, b2h, can, td, pl⟩ fuel a ((Issuer.new ['b']).issue' a) 0 with
        | error err => rw [hh, bind_err] at hs; cases hs
        | ok r =>
          have := hashNDegree_mono ⟨H, b2q, b2h, can, td, pl⟩ td' pl' htd hpl fuel a _ 0 r hh
          show (hashNDegree ⟨H, b2q, b2h, can, td', pl'⟩ fuel a ((Issuer.new ['b']).issue' a) 0 >>= _) = _
          rw [show (⟨H, b2q, b2h, can, td', pl'⟩ : Ctx) = relax ⟨H, b2q, b2h, can, td, pl⟩ td' pl' from rfl, this, bind_ok]
          rw [hh, bind_ok] at hs
          exact hs)
      _ _ _ hf
    rw [this, bind_ok]
    exact h

theorem step5_mono {H : Str → Str} {b2q : SMap (List Quad)} {b2h : SMap Str} {td td' : Nat → Nat → Bool}
    {pl pl' : Nat} (htd : ∀ d n, td' d n = true → td d n = true) (hpl : pl ≤ pl') (fuel : Nat)
    (h2b : SMap (List Str)) (can can' : Issuer)
    (h : step5 H b2q b2h td pl fuel h2b can = .ok can') :
    step5 H b2q b2h td' pl' fuel h2b can = .ok can' := by
  unfold step5 at h ⊢
  exact foldlM_ok_mono _ _ (step5Group_mono htd hpl fuel) _ _ _ h

end SophiaProofs.Rdfc10L
