/-
C17 lemma library, part 2: `spanNot` / Appendix-B `split` / `recompose` facts and the fields of
`Relativizer.new` in terms of the components of the base.
-/
import SophiaProofs.Lemmas.Relativize

namespace SophiaProofs.Relativize
open SophiaModel SophiaModel.Rfc3986 SophiaModel.Relativize

/-- `rest` is empty or starts with one of `stops` -/
def StartsIn (stops : List Char) (rest : Str) : Prop := rest = [] ∨ ∃ c r, rest = c :: r ∧ c ∈ stops

theorem spanNot_fst_not_mem (stops : List Char) (s : Str) : ∀ c ∈ (spanNot stops s).1, c ∉ stops := by
  induction s with
  | nil => simp [spanNot]
  | cons x xs ih =>
    unfold spanNot
    split
    · simp
    · rename_i h
      intro c hc
      simp at hc
      rcases hc with rfl | hc
      · simpa using h
      · exact ih c hc

theorem spanNot_snd (stops : List Char) (s : Str) : StartsIn stops (spanNot stops s).2 := by
  induction s with
  | nil => simp [spanNot, StartsIn]
  | cons x xs ih =>
    unfold spanNot
    split
    · rename_i h
      right; exact ⟨x, xs, rfl, by simpa using h⟩
    · simpa using ih

theorem spanNot_eq (stops : List Char) (a rest : Str) (ha : ∀ c ∈ a, c ∉ stops)
    (hr : StartsIn stops rest) :
    spanNot stops (a ++ rest) = (a, rest) := by
  induction a with
  | nil =>
    rcases hr with rfl | ⟨c, r, rfl, hc⟩
    · simp [spanNot]
    · simp [spanNot, hc]
  | cons x xs ih =>
    have hx : x ∉ stops := ha x (by simp)
    have := ih (fun c hc => ha c (by simp [hc]))
    simp [spanNot, hx, this]

def schemeO : Option Str → Str | some s => s ++ [':'] | none => []
def authO : Option Str → Str | some a => '/' :: '/' :: a | none => []
def queryO : Option Str → Str | some q => '?' :: q | none => []
def fragO : Option Str → Str | some f => '#' :: f | none => []
def schemeStr (p : Parts) : Str := schemeO p.scheme
def authStr (p : Parts) : Str := authO p.authority
def queryStr (p : Parts) : Str := queryO p.query
def fragStr (p : Parts) : Str := fragO p.fragment

theorem recompose_eq (p : Parts) :
    recompose p = schemeStr p ++ authStr p ++ p.path ++ queryStr p ++ fragStr p := by
  unfold recompose schemeStr authStr queryStr fragStr schemeO authO queryO fragO
  cases p.scheme <;> cases p.authority <;> cases p.query <;> cases p.fragment <;> simp

/-- the Appendix-B split, as an explicit decomposition with the properties of each component -/
structure SplitSpec (s : Str) (p : Parts) : Prop where
  eq : s = schemeStr p ++ authStr p ++ p.path ++ queryStr p ++ fragStr p
  path_clean : ∀ c ∈ p.path, c ∉ ['?', '#']
  query_clean : ∀ q, p.query = some q → ∀ c ∈ q, c ≠ '#'
  auth_clean : ∀ a, p.authority = some a → ∀ c ∈ a, c ∉ ['/', '?', '#']


def stage1 (s : Str) : Option Str × Str :=
  match (spanNot [':', '/', '?', '#'] s).1, (spanNot [':', '/', '?', '#'] s).2 with
  | _ :: _, ':' :: r => (some (spanNot [':', '/', '?', '#'] s).1, r)
  | _, _ => (none, s)
def stage2 (s1 : Str) : Option Str × Str :=
  match s1 with
  | '/' :: '/' :: r => (some (spanNot ['/', '?', '#'] r).1, (spanNot ['/', '?', '#'] r).2)
  | _ => (none, s1)
def stage4 (s3 : Str) : Option Str × Str :=
  match s3 with
  | '?' :: r => (some (spanNot ['#'] r).1, (spanNot ['#'] r).2)
  | _ => (none, s3)
def stage5 (s4 : Str) : Option Str :=
  match s4 with
  | '#' :: r => some r
  | _ => none


theorem split_eq (s : Str) : split s =
    { scheme := (stage1 s).1,
      authority := (stage2 (stage1 s).2).1,
      path := (spanNot ['?', '#'] (stage2 (stage1 s).2).2).1,
      query := (stage4 (spanNot ['?', '#'] (stage2 (stage1 s).2).2).2).1,
      fragment := stage5 (stage4 (spanNot ['?', '#'] (stage2 (stage1 s).2).2).2).2 } := by
  unfold split stage1 stage2 stage4 stage5
  rfl

theorem stage1_spec {s : Str} {sch : Option Str} {s1 : Str} (h : stage1 s = (sch, s1)) :
    s = schemeO sch ++ s1 ∧
    (∀ x, sch = some x → x ≠ [] ∧ ∀ c ∈ x, c ∉ [':', '/', '?', '#']) := by
  unfold stage1 at h
  have happ := spanNot_append [':', '/', '?', '#'] s
  have hcl := spanNot_fst_not_mem [':', '/', '?', '#'] s
  split at h
  · rename_i hd tl r h1 h2
    injection h with ha hb
    subst ha; subst hb
    constructor
    · rw [h2] at happ
      simp only [schemeO, List.append_assoc, List.cons_append, List.nil_append]
      exact happ.symm
    · intro x hx
      injection hx with hx
      subst hx
      constructor
      · rw [h1]; simp
      · exact hcl
  · injection h with ha hb
    subst ha; subst hb
    simp [schemeO]

theorem stage2_spec {s1 : Str} {au : Option Str} {s2 : Str} (h : stage2 s1 = (au, s2)) :
    s1 = authO au ++ s2 ∧
    (∀ a, au = some a → ∀ c ∈ a, c ∉ ['/', '?', '#']) ∧
    (au = none → s2 = s1 ∧ ∀ r, s1 ≠ '/' :: '/' :: r) := by
  unfold stage2 at h
  split at h
  · rename_i r
    injection h with ha hb
    subst ha; subst hb
    refine ⟨?_, ?_, by simp⟩
    · have := spanNot_append ['/', '?', '#'] r
      simp [authO, this]
    · intro a ha
      injection ha with ha
      subst ha
      exact spanNot_fst_not_mem _ _
  · rename_i hne
    injection h with ha hb
    subst ha; subst hb
    simp [authO]
    exact fun r hr => hne r hr

theorem stage4_spec {s3 : Str} (h3 : StartsIn ['?', '#'] s3) {qu : Option Str} {s4 : Str}
    (h : stage4 s3 = (qu, s4)) :
    s3 = queryO qu ++ s4 ∧
    (∀ q, qu = some q → ∀ c ∈ q, c ≠ '#') ∧ StartsIn ['#'] s4 := by
  unfold stage4 at h
  split at h
  · rename_i r
    injection h with ha hb
    subst ha; subst hb
    refine ⟨?_, ?_, spanNot_snd _ _⟩
    · have := spanNot_append ['#'] r
      simp [queryO, this]
    · intro q hq
      injection hq with hq
      subst hq
      intro c hc
      have := spanNot_fst_not_mem ['#'] r c hc
      simpa using this
  · rename_i hne
    injection h with ha hb
    subst ha; subst hb
    refine ⟨by simp [queryO], by simp, ?_⟩
    rcases h3 with rfl | ⟨c, r, rfl, hc⟩
    · left; rfl
    · right
      refine ⟨c, r, rfl, ?_⟩
      simp at hc
      rcases hc with rfl | rfl
      · exact absurd rfl (hne r)
      · simp

theorem stage5_spec (s4 : Str) (h4 : StartsIn ['#'] s4) :
    s4 = fragO (stage5 s4) := by
  unfold stage5 fragO
  rcases h4 with rfl | ⟨c, r, rfl, hc⟩
  · rfl
  · simp at hc; subst hc; rfl

theorem split_spec (s : Str) : SplitSpec s (split s) := by
  rw [split_eq]
  obtain ⟨e1, c1⟩ := stage1_spec (s := s) (sch := (stage1 s).1) (s1 := (stage1 s).2) rfl
  obtain ⟨e2, c2, _⟩ := stage2_spec (s1 := (stage1 s).2) (au := (stage2 (stage1 s).2).1) (s2 := (stage2 (stage1 s).2).2) rfl
  have e3 := spanNot_append ['?', '#'] (stage2 (stage1 s).2).2
  have c3 := spanNot_fst_not_mem ['?', '#'] (stage2 (stage1 s).2).2
  obtain ⟨e4, c4, h4⟩ := stage4_spec (spanNot_snd ['?', '#'] (stage2 (stage1 s).2).2)
    (qu := (stage4 (spanNot ['?', '#'] (stage2 (stage1 s).2).2).2).1)
    (s4 := (stage4 (spanNot ['?', '#'] (stage2 (stage1 s).2).2).2).2) rfl
  have e5 := stage5_spec _ h4
  constructor
  · simp only [schemeStr, authStr, queryStr, fragStr]
    conv => lhs; rw [e1, e2, ← e3, e4, e5]
    simp [List.append_assoc]
  · exact c3
  · exact c4
  · exact c2


/-! ## `lcp`, `find` -/

theorem lcp_take {a b : Octets} {k : Nat} (h : lcp a b ≥ k) : a.take k = b.take k := by
  induction k generalizing a b with
  | zero => simp
  | succ k ih =>
    cases a with
    | nil => simp [lcp] at h
    | cons x xs =>
      cases b with
      | nil => simp [lcp] at h
      | cons y ys =>
        unfold lcp at h
        split at h
        · rename_i hxy
          subst hxy
          simp [ih (a := xs) (b := ys) (by omega)]
        · omega

theorem lcp_le_left (a b : Octets) : lcp a b ≤ a.length := by
  induction a generalizing b with
  | nil => simp [lcp]
  | cons x xs ih =>
    cases b with
    | nil => simp [lcp]
    | cons y ys =>
      unfold lcp
      split
      · have := ih ys; simp; omega
      · simp

theorem lcp_le_right (a b : Octets) : lcp a b ≤ b.length := by
  induction a generalizing b with
  | nil => simp [lcp]
  | cons x xs ih =>
    cases b with
    | nil => simp [lcp]
    | cons y ys =>
      unfold lcp
      split
      · have := ih ys; simp; omega
      · simp

theorem lcp_append_left (x a b : Octets) : lcp (x ++ a) (x ++ b) = x.length + lcp a b := by
  induction x with
  | nil => simp
  | cons c cs ih => simp [lcp, ih]; omega

/-- from a common prefix of length `k = |x|`: the IRI starts with `x` -/
theorem lcp_prefix {x a iri : Octets} (h : lcp (x ++ a) iri ≥ x.length) : iri = x ++ iri.drop x.length := by
  have := lcp_take h
  simp at this
  have h2 : iri = iri.take x.length ++ iri.drop x.length := (List.take_append_drop _ _).symm
  rw [← this] at h2
  exact h2

theorem find_append_of_not_mem (c : Char) (a rest : Octets) (ha : ∀ x ∈ a, x ≠ c) :
    find c (a ++ rest) = (find c rest).map (· + a.length) := by
  induction a with
  | nil => simp
  | cons x xs ih =>
    have hx : x ≠ c := ha x (by simp)
    simp [find, hx, ih (fun y hy => ha y (by simp [hy]))]
    cases find c rest <;> simp; omega

theorem find_none_of_not_mem (c : Char) (a : Octets) (ha : ∀ x ∈ a, x ≠ c) : find c a = none := by
  have := find_append_of_not_mem c a [] ha
  simpa [find] using this

/-! ## fields of `new` -/

/-- everything before the path: `scheme ":" ["//" authority]` -/
def preStr (p : Parts) : Str := schemeStr p ++ authStr p

theorem pathBegin_eq {p : Parts} (hs : p.scheme.isSome) : pathBegin p = (preStr p).length := by
  unfold pathBegin preStr schemeStr authStr schemeO authO
  cases h : p.scheme with
  | none => simp [h] at hs
  | some s => cases p.authority <;> simp <;> omega

theorem queryO_no_hash {q : Option Str} (h : ∀ x, q = some x → ∀ c ∈ x, c ≠ '#') : ∀ c ∈ queryO q, c ≠ '#' := by
  cases q with
  | none => simp [queryO]
  | some x =>
    intro c hc
    simp [queryO] at hc
    rcases hc with rfl | hc
    · decide
    · exact h x rfl c hc

theorem base_decomp (base : Octets) :
    base = preStr (split base) ++ (split base).path ++ queryStr (split base) ++ fragStr (split base) := by
  have := (split_spec base).eq
  simpa [preStr] using this

theorem find_hash_tail (Q : Str) (F : Option Str) (hQ : ∀ c ∈ Q, c ≠ '#') :
    find '#' (Q ++ fragO F) = (match F with | some _ => some Q.length | none => none) := by
  rw [find_append_of_not_mem '#' _ _ hQ]
  cases F <;> simp [fragO, find]

theorem queryEnd_decomp (S P Q : Str) (F : Option Str) (hQ : ∀ c ∈ Q, c ≠ '#') :
    queryEnd (S ++ P ++ Q ++ fragO F) (S.length + P.length) = (S ++ P ++ Q).length := by
  unfold queryEnd
  have hdrop : (S ++ P ++ Q ++ fragO F).drop (S.length + P.length) = Q ++ fragO F := by
    rw [List.append_assoc, ← List.length_append, List.drop_left]
  rw [hdrop, find_hash_tail Q F hQ]
  cases F with
  | none => simp [fragO]
  | some f => simp; omega

theorem pathEnd_decomp (S P : Str) (Qo : Option Str) (F : Str) :
    pathEnd (S ++ P ++ queryO Qo ++ F) (S.length + P.length) (S ++ P ++ queryO Qo).length = (S ++ P).length := by
  unfold pathEnd slice
  have htake : ((S ++ P ++ queryO Qo ++ F).take (S ++ P ++ queryO Qo).length).drop (S.length + P.length) = queryO Qo := by
    rw [List.take_left, ← List.length_append, List.drop_left]
  rw [htake]
  cases Qo <;> simp [queryO, find]

theorem queryEnd_eq (base : Octets) (hs : (split base).scheme.isSome) :
    queryEnd base (pathBegin (split base) + (split base).path.length) =
      (preStr (split base) ++ (split base).path ++ queryStr (split base)).length := by
  have sp := split_spec base
  have hd := base_decomp base
  rw [pathBegin_eq hs]
  have := queryEnd_decomp (preStr (split base)) (split base).path (queryStr (split base)) (split base).fragment
    (queryO_no_hash sp.query_clean)
  rw [show fragO (split base).fragment = fragStr (split base) from rfl, ← hd] at this
  exact this

theorem pathEnd_eq (base : Octets) (hs : (split base).scheme.isSome) :
    pathEnd base (pathBegin (split base) + (split base).path.length)
        (queryEnd base (pathBegin (split base) + (split base).path.length)) =
      (preStr (split base) ++ (split base).path).length := by
  have hd := base_decomp base
  rw [queryEnd_eq base hs, pathBegin_eq hs]
  have := pathEnd_decomp (preStr (split base)) (split base).path (split base).query (fragStr (split base))
  rw [show queryO (split base).query = queryStr (split base) from rfl, ← hd] at this
  exact this

theorem new_base (base : Octets) (n : Nat) : (new base n).base = base := by
  unfold new finish
  simp only
  split
  · rfl
  · split <;> rfl

theorem new_query_end (base : Octets) (n : Nat) (hs : (split base).scheme.isSome) :
    (new base n).query_end = (preStr (split base) ++ (split base).path ++ queryStr (split base)).length := by
  rw [← queryEnd_eq base hs]
  unfold new finish
  simp only
  split
  · rfl
  · split <;> rfl

theorem new_path_end (base : Octets) (n : Nat) (hs : (split base).scheme.isSome) :
    (new base n).path_end = (preStr (split base) ++ (split base).path).length := by
  rw [← pathEnd_eq base hs]
  unfold new finish
  simp only
  split
  · rfl
  · split <;> rfl

end SophiaProofs.Relativize
