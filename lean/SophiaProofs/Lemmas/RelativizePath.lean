/-
C17 lemma library, part 6: the path branches of `relativize` — a clean tail emitted at a cut position
of a rooted, dot-free base path resolves back to the IRI (`core`, `inverse_path`, `inverse_extension`).
-/
import SophiaProofs.Lemmas.RelativizeRds
import SophiaProofs.Lemmas.RelativizeSlashes
import SophiaProofs.Lemmas.RelativizeSameDoc

namespace SophiaProofs.Relativize
open SophiaModel SophiaModel.Rfc3986 SophiaModel.Relativize

theorem spanNot_append_left (stops : List Char) (a s : Str) (ha : ∀ c ∈ a, c ∉ stops) :
    spanNot stops (a ++ s) = (a ++ (spanNot stops s).1, (spanNot stops s).2) := by
  induction a with
  | nil => simp
  | cons x xs ih =>
    have hx : x ∉ stops := ha x (by simp)
    have := ih (fun c hc => ha c (by simp [hc]))
    simp [spanNot, hx, this]

/-- §5.2.3 merge for a base path "W/last": everything up to and including the last slash is kept -/
theorem merge_keep (b : Parts) (W last X : Str) (hP : b.path = W ++ '/' :: last)
    (hl : '/' ∉ last) : merge b X = W ++ '/' :: X := by
  unfold merge
  have hne : b.path.isEmpty = false := by rw [hP]; cases W <;> simp
  simp only [hne, Bool.and_false, Bool.false_eq_true, if_false]
  have hrev : b.path.reverse = last.reverse ++ '/' :: W.reverse := by rw [hP]; simp
  have : spanNot ['/'] b.path.reverse = (last.reverse, '/' :: W.reverse) := by
    rw [hrev]
    apply spanNot_slash_seg
    · simpa using hl
    · right; exact ⟨_, rfl⟩
  rw [this]
  simp

theorem dotdots_no_stop (k : Nat) : ∀ c ∈ dotdots k, c = '.' ∨ c = '/' := by
  induction k with
  | zero => simp [dotdots]
  | succ k ih =>
    intro c hc
    simp [dotdots] at hc
    rcases hc with h | h | h
    · left; exact h
    · right; exact h
    · exact ih c h


theorem stage1_none {r : Str} (h1 : startsWith ':' (spanNot [':', '/', '?', '#'] r).2 = false) :
    stage1 r = (none, r) := by
  unfold stage1
  split
  · rename_i hd tl r' ha hb
    rw [hb] at h1
    simp [startsWith] at h1
  · rfl

theorem stage2_none {r : Str} (h2 : ∀ x, r ≠ '/' :: '/' :: x) : stage2 r = (none, r) := by
  unfold stage2
  split
  · rename_i x
    exact absurd rfl (h2 x)
  · rfl

/-- a reference without scheme-like first segment and not starting with "//": plain path reference -/
theorem split_plain (r : Str) (h1 : startsWith ':' (spanNot [':', '/', '?', '#'] r).2 = false)
    (h2 : ∀ x, r ≠ '/' :: '/' :: x) :
    (split r).scheme = none ∧ (split r).authority = none ∧ (split r).path = (spanNot ['?', '#'] r).1 ∧
      r = (split r).path ++ queryStr (split r) ++ fragStr (split r) := by
  have hd := base_decomp r
  have e1 : (split r).scheme = none := by rw [split_eq]; simp [stage1_none h1]
  have e2 : (split r).authority = none := by rw [split_eq]; simp [stage1_none h1, stage2_none h2]
  have e3 : (split r).path = (spanNot ['?', '#'] r).1 := by
    rw [split_eq]; simp [stage1_none h1, stage2_none h2]
  refine ⟨e1, e2, e3, ?_⟩
  simpa [preStr, schemeStr, authStr, schemeO, authO, e1, e2] using hd


theorem transform_merge (b r : Parts) (hs : r.scheme = none) (ha : r.authority = none) (hp : r.path ≠ [])
    (hns : ∀ x, r.path ≠ '/' :: x) :
    transform b r = ⟨b.scheme, b.authority, removeDotSegments (merge b r.path), r.query, r.fragment⟩ := by
  unfold transform
  rw [hs, ha]
  simp only
  have : r.path.isEmpty = false := by cases h : r.path <;> simp_all
  simp only [this, Bool.false_eq_true, if_false]

/-- cutting a clean path (rooted: `Z = []`, or rootless with first segment `Z`) after one of its slashes -/
theorem path_cut {P : Octets} {j k : Nat} (hbd : noDotSegs P = true)
    (hj1 : 1 ≤ j) (_hj2 : j ≤ P.length) (hsl : P[j - 1]? = some '/') (hcnt : (P.drop j).count '/' = k) :
    ∃ (Z : Str) (A mid : List Str) (last : Str), P.take j = Z ++ (flat A ++ ['/']) ∧
      P = Z ++ (flat (A ++ mid) ++ '/' :: last) ∧
      mid.length = k ∧ '/' ∉ last ∧ CleanSeg Z ∧ (∀ s ∈ A, CleanSeg s) ∧ (∀ s ∈ mid, CleanSeg s) := by
  -- P = D' ++ '/' :: Rr
  have hsplit : P = P.take (j - 1) ++ '/' :: P.drop j := by
    have h1 : P = P.take (j - 1) ++ P.drop (j - 1) := (List.take_append_drop _ _).symm
    have h2 : P.drop (j - 1) = '/' :: P.drop j := by
      rw [List.drop_eq_getElem?_toList_append, hsl]
      simp; congr 1; omega
    rw [h2] at h1; exact h1
  have htake : P.take j = P.take (j - 1) ++ ['/'] := by
    have : j = (j - 1) + 1 := by omega
    conv => lhs; rw [this, List.take_add_one, hsl]
    simp
  have hclean := cleanSeg_of_noDotSegs hbd
  have hss : splitSlash P = splitSlash (P.take (j - 1)) ++ splitSlash (P.drop j) := by
    conv => lhs; rw [hsplit]
    exact splitSlash_append_slash _ _
  -- segments of the remainder
  have hne := splitSlash_ne_nil (P.drop j)
  have hdl := List.dropLast_concat_getLast hne
  have hlen := splitSlash_length (P.drop j)
  have hR : '/' :: P.drop j = flat ((splitSlash (P.drop j)).dropLast) ++ '/' :: (splitSlash (P.drop j)).getLast hne := by
    rw [← flat_splitSlash (P.drop j)]
    conv => lhs; rw [← hdl]
    rw [flat_append]; simp [flat]
  have hRclean : ∀ s ∈ splitSlash (P.drop j), CleanSeg s := fun s hs => hclean s (by rw [hss]; simp [hs])
  -- segments of the directory part
  obtain ⟨Z, A, hZA, hD⟩ := splitSlash_head_flat (P.take (j - 1))
  have hDclean : ∀ s ∈ Z :: A, CleanSeg s := fun s hs => hclean s (by rw [hss, hZA]; exact List.mem_append_left _ hs)
  refine ⟨Z, A, (splitSlash (P.drop j)).dropLast, (splitSlash (P.drop j)).getLast hne, ?_, ?_, ?_, ?_,
    hDclean Z (by simp), fun s hs => hDclean s (by simp [hs]), ?_⟩
  · rw [htake]; conv => lhs; rw [hD]
    simp [List.append_assoc]
  · rw [flat_append, List.append_assoc, ← hR]
    conv => lhs; rw [hsplit, hD]
    simp [List.append_assoc]
  · simp [hlen, hcnt]
  · exact splitSlash_no_slash _ _ (List.getLast_mem hne)
  · intro s hs
    exact hRclean s (List.dropLast_subset _ hs)

theorem spanNot_qh_of_starts {t : Octets} (h : t = [] ∨ startsQH t = true) : (spanNot ['?', '#'] t).1 = [] := by
  rcases h with rfl | h
  · rfl
  · cases t with
    | nil => rfl
    | cons x xs =>
      unfold startsQH at h
      split at h
      · rename_i heq; injection heq with h1 _; subst h1; simp [spanNot]
      · rename_i heq; injection heq with h1 _; subst h1; simp [spanNot]
      · cases h

/-- the shape of what `relativize` puts in front of the tail, for a cut with `k` base slashes after it -/
def InsOK (ins : Ins) (k : Nat) (t : Octets) : Prop :=
  (ins = .up k ∧ 1 ≤ k) ∨ (k = 0 ∧ ins = .dotSlash ∧ (t = [] ∨ startsQH t = true)) ∨ (k = 0 ∧ ins = .nothing)

/-- the heart of `rel_inverse_partial`: a clean tail emitted at a cut position of a rooted clean base path -/
theorem core {base iri : Octets} {c k : Nat} {ins : Ins} {t : Octets}
    (hbd : noDotSegs (split base).path = true)
    (hcut : CutOK (preStr (split base)) (split base).path c k)
    (hiri : iri = base.take c ++ t)
    (hins : InsOK ins k t)
    (hct : cleanTail ins t = true) :
    resolve base (ins.str ++ t) = iri ∧
      (split (ins.str ++ t)).scheme = none ∧ (split (ins.str ++ t)).authority = none ∧
      countDotDot (ins.str ++ t) = insUps ins := by
  obtain ⟨c1, c2, c3, c4⟩ := hcut
  have hd := base_decomp base
  obtain ⟨Z, A, mid, last, hA, hP, hmid, hlast, hZc, hAc, hmc⟩ :=
    path_cut hbd (j := c - (preStr (split base)).length) (by omega) (by omega) c3 c4
  -- base.take c = S ++ Z ++ flat A ++ "/"
  have htake : base.take c = preStr (split base) ++ (Z ++ (flat A ++ ['/'])) := by
    rw [← hA]
    have : c = (preStr (split base)).length + (c - (preStr (split base)).length) := by omega
    conv => lhs; rw [this]
    have hd' : base = preStr (split base) ++ ((split base).path ++ (queryStr (split base) ++ fragStr (split base))) := by
      simpa [List.append_assoc] using hd
    generalize preStr (split base) = S at *
    generalize (split base).path = P at *
    rw [hd', List.take_length_add_append, List.take_append_of_le_length (by omega)]
  -- the tail
  unfold cleanTail at hct
  simp only [Bool.and_eq_true] at hct
  obtain ⟨hnd, hct2⟩ := hct
  have htsegs := cleanSeg_of_noDotSegs hnd
  have hflat := flat_splitSlash (spanNot ['?', '#'] t).1
  have happ := spanNot_append ['?', '#'] t
  -- the reference is a plain path reference with path `ins.str ++ tp`
  have hplain : (split (ins.str ++ t)).scheme = none ∧ (split (ins.str ++ t)).authority = none ∧
      (split (ins.str ++ t)).path = ins.str ++ (spanNot ['?', '#'] t).1 ∧
      ins.str ++ t = (split (ins.str ++ t)).path ++ queryStr (split (ins.str ++ t)) ++ fragStr (split (ins.str ++ t)) ∧
      removeDotSegments (Z ++ (flat (A ++ mid) ++ '/' :: (ins.str ++ (spanNot ['?', '#'] t).1))) =
        Z ++ (flat A ++ '/' :: (spanNot ['?', '#'] t).1) ∧
      ins.str ++ (spanNot ['?', '#'] t).1 ≠ [] ∧ ∀ x, ins.str ++ (spanNot ['?', '#'] t).1 ≠ '/' :: x := by
    rcases hins with ⟨hi, hk⟩ | ⟨hk, hi, htq⟩ | ⟨hk, hi⟩
    · -- "../"^k
      subst hi
      obtain ⟨k', rfl⟩ : ∃ k', k = k' + 1 := ⟨k - 1, by omega⟩
      have hr : Ins.str (.up (k' + 1)) ++ t = '.' :: '.' :: '/' :: (dotdots k' ++ t) := by simp [Ins.str, dotdots]
      have hp := split_plain (Ins.str (.up (k' + 1)) ++ t) (by rw [hr]; simp [spanNot, startsWith])
        (by rw [hr]; intro x hx; injection hx with h1 _; exact absurd h1 (by decide))
      obtain ⟨p1, p2, p3, p4⟩ := hp
      have hpath : (spanNot ['?', '#'] (Ins.str (.up (k' + 1)) ++ t)).1 = Ins.str (.up (k' + 1)) ++ (spanNot ['?', '#'] t).1 := by
        rw [spanNot_append_left]
        intro ch hch
        rcases dotdots_no_stop _ ch hch with h | h <;> simp [h]
      refine ⟨p1, p2, by rw [p3, hpath], p4, ?_, by simp [Ins.str, dotdots], by simp [Ins.str, dotdots]⟩
      have := rds_main_Z Z A mid (splitSlash (spanNot ['?', '#'] t).1) (spanNot ['?', '#'] t).1 hZc hAc hmc htsegs hflat
      rw [hmid] at this
      exact this
    · -- "./" and an empty tail path
      subst hi; subst hk
      have htp := spanNot_qh_of_starts htq
      have hr : Ins.str .dotSlash ++ t = '.' :: '/' :: t := rfl
      have hp := split_plain (Ins.str .dotSlash ++ t) (by rw [hr]; simp [spanNot, startsWith])
        (by rw [hr]; intro x hx; injection hx with h1 _; exact absurd h1 (by decide))
      obtain ⟨p1, p2, p3, p4⟩ := hp
      have hpath : (spanNot ['?', '#'] (Ins.str .dotSlash ++ t)).1 = Ins.str .dotSlash ++ (spanNot ['?', '#'] t).1 := by
        rw [spanNot_append_left]
        intro ch hch
        simp [Ins.str] at hch
        rcases hch with h | h <;> simp [h]
      have hm0 : mid = [] := List.length_eq_zero_iff.mp hmid
      subst hm0
      refine ⟨p1, p2, by rw [p3, hpath], p4, ?_, by simp [Ins.str], by simp [Ins.str]⟩
      rw [htp]
      have := rds_dotSlash_Z Z A hZc hAc
      simpa [Ins.str] using this
    · -- nothing inserted
      subst hi; subst hk
      simp only [Bool.and_eq_true, Bool.not_eq_true', List.isEmpty_eq_false_iff] at hct2
      obtain ⟨⟨hne, hnsl⟩, hncol⟩ := hct2
      have hm0 : mid = [] := List.length_eq_zero_iff.mp hmid
      subst hm0
      have hns : ∀ x, (spanNot ['?', '#'] t).1 ≠ '/' :: x := by
        intro x hx; rw [hx] at hnsl; simp [startsWith] at hnsl
      have hp := split_plain (Ins.str .nothing ++ t) (by simpa [Ins.str] using hncol)
        (by
          intro x hx
          simp [Ins.str] at hx
          rw [hx] at hns
          simp [spanNot] at hns)
      obtain ⟨p1, p2, p3, p4⟩ := hp
      refine ⟨p1, p2, by rw [p3]; simp [Ins.str], p4, ?_, by simpa [Ins.str] using hne, by simpa [Ins.str] using hns⟩
      have := rds_main_Z Z A [] (splitSlash (spanNot ['?', '#'] t).1) (spanNot ['?', '#'] t).1 hZc hAc (by simp) htsegs hflat
      simpa [Ins.str, dotdots] using this
  obtain ⟨q1, q2, q3, q4, q5, q6, q7⟩ := hplain
  have hcdd : countDotDot (ins.str ++ t) = insUps ins := by
    have h0 := cdd_zero hnd
    cases ins with
    | nothing => simpa [Ins.str, insUps] using h0
    | dotSlash => simp [Ins.str, insUps, countDotDot]
    | up k' => simp [Ins.str, insUps, cdd_dotdots, h0]
  refine ⟨?_, q1, q2, hcdd⟩
  unfold resolve
  rw [transform_merge _ _ q1 q2 (by rw [q3]; exact q6) (by rw [q3]; exact q7), q3,
    merge_keep (split base) (Z ++ flat (A ++ mid)) last _ (by rw [hP]; simp [List.append_assoc]) hlast,
    List.append_assoc, q5, recompose_parts]
  -- t = tp ++ query ++ fragment of the reference
  have ht : t = (spanNot ['?', '#'] t).1 ++ queryStr (split (ins.str ++ t)) ++ fragStr (split (ins.str ++ t)) := by
    rw [q3] at q4
    simp only [List.append_assoc] at q4
    have := List.append_cancel_left q4
    simpa [List.append_assoc] using this
  rw [hiri, htake]
  conv => rhs; rw [ht]
  simp [preStr, schemeStr, authStr, queryStr, fragStr, List.append_assoc]


theorem drop_eq_nil_of_length {l : Octets} {k : Nat} (h : l.length = k) : l.drop k = [] := by
  subst h; simp

theorem length_sub_drop {iri : Octets} {c : Nat} (h : c ≤ iri.length) : iri.length - (iri.drop c).length = c := by
  simp; omega

/-- where `pathBranch` cuts, and what it inserts (`hpos`: the tail starts strictly inside the base path, which is
automatic for rooted base paths) -/
theorem pathBranch_cut {base : Octets} {n : Nat} {iri : Octets} {ins : Ins} {t : Octets}
    (hs : (split base).scheme.isSome)
    (h : pathBranch (new base n) iri (lcp base iri) = .some ins t)
    (hpos : iri.length - t.length > (preStr (split base)).length) :
    ∃ c k, CutOK (preStr (split base)) (split base).path c k ∧ c ≤ lcp base iri ∧ t = iri.drop c ∧ InsOK ins k t := by
  obtain ⟨cuts1, cuts2⟩ := new_cuts base n hs
  obtain ⟨hl, hc⟩ := pathBranch_cases h
  have hli := lcp_le_right base iri
  rcases hc with ⟨slash, hfb, hsl, hi⟩ | ⟨nb, slash, hnb, hfb, hsl, hi⟩ | ⟨_, hemp, t1, _, hsl, hi⟩ | ⟨_, hne, hsl, hi⟩
  · obtain ⟨_, _, hget, hgt, _⟩ := firstBelow_bounds hfb
    refine ⟨slash + 1, 0, cuts1 0 slash (by simpa using hget), by omega, sliceFrom_some hsl, ?_⟩
    have ht := sliceFrom_some hsl
    split at hi
    · rename_i hcond
      right; left
      refine ⟨rfl, hi, ?_⟩
      simp only [Bool.or_eq_true, decide_eq_true_eq] at hcond
      rcases hcond with hlen | hq
      · left; rw [ht]; exact drop_eq_nil_of_length hlen
      · right; exact hq
    · right; right; exact ⟨rfl, hi⟩
  · obtain ⟨_, _, hget, hgt, _⟩ := firstBelow_bounds hfb
    refine ⟨slash + 1, nb, cuts1 nb slash (by simpa using hget), by omega, sliceFrom_some hsl, ?_⟩
    left; exact ⟨hi, by omega⟩
  · have ht := sliceFrom_some hsl
    have hpr : (new base n).pseudoroot > (preStr (split base)).length := by
      rw [ht, length_sub_drop (by omega)] at hpos; exact hpos
    refine ⟨(new base n).pseudoroot, 0, by simpa [hemp] using cuts2 hpr, hl, ht, ?_⟩
    split at hi
    · rename_i hcond
      right; left
      refine ⟨rfl, hi, ?_⟩
      simp only [Bool.and_eq_true, Bool.or_eq_true, decide_eq_true_eq] at hcond
      rcases hcond.2 with hlen | hq
      · left; rw [ht]; exact drop_eq_nil_of_length hlen
      · right; exact hq
    · right; right; exact ⟨rfl, hi⟩
  · have ht := sliceFrom_some hsl
    have hpr : (new base n).pseudoroot > (preStr (split base)).length := by
      rw [ht, length_sub_drop (by omega)] at hpos; exact hpos
    refine ⟨(new base n).pseudoroot, (new base n).slashes.length, cuts2 hpr, hl, ht, ?_⟩
    left
    refine ⟨hi, ?_⟩
    cases hsl' : (new base n).slashes with
    | nil => exact absurd hsl' hne
    | cons a b => simp

theorem iri_of_cut {base iri : Octets} {c : Nat} (h : c ≤ lcp base iri) : iri = base.take c ++ iri.drop c := by
  rw [lcp_take h]; exact (List.take_append_drop c iri).symm

/-- the path branches (region P, first alternative) -/
theorem inverse_path {base : Octets} {n : Nat} {iri : Octets} {ins : Ins} {t : Octets}
    (hs : (split base).scheme.isSome)
    (hpos : iri.length - t.length > (preStr (split base)).length)
    (hbd : noDotSegs (split base).path = true)
    (h : relativize (new base n) iri = .some ins t)
    (hl1 : lcp base iri ≤ (new base n).path_end) (hl2 : lcp base iri < (new base n).query_end)
    (hct : cleanTail ins t = true) :
    resolve base (ins.str ++ t) = iri ∧
      (split (ins.str ++ t)).scheme = none ∧ (split (ins.str ++ t)).authority = none ∧
      countDotDot (ins.str ++ t) = insUps ins := by
  have hbase := new_base base n
  rcases relativize_cases h with ⟨_, h1, _⟩ | ⟨_, _, h2, _⟩ | ⟨hi, _, _, hsl, hq⟩ | ⟨_, _, _, hp⟩
  · rw [hbase] at h1; omega
  · rw [hbase] at h2; omega
  · -- same path, empty / query / fragment tail: not a CleanTail
    exfalso
    subst hi
    have ht := sliceFrom_some hsl
    have htp : (spanNot ['?', '#'] t).1 = [] := by
      apply spanNot_qh_of_starts
      rcases hq with hlen | hq
      · left; rw [ht]; exact drop_eq_nil_of_length hlen
      · right; exact hq
    unfold cleanTail at hct
    simp [htp] at hct
  · rw [hbase] at hp
    obtain ⟨c, k, hcut, hcl, ht, hins⟩ := pathBranch_cut hs hp hpos
    have hiri := iri_of_cut hcl
    rw [← ht] at hiri
    exact core hbd hcut hiri hins hct

/-- a query-less directory base extended by the IRI (region P, second alternative) -/
theorem inverse_extension {base : Octets} {n : Nat} {iri : Octets} {ins : Ins} {t : Octets}
    (hs : (split base).scheme.isSome)
    (hbd : noDotSegs (split base).path = true)
    (h : relativize (new base n) iri = .some ins t)
    (hl : lcp base iri ≥ (new base n).query_end) (hq : (split base).query = none)
    (hdir : (split base).path.getLast? = some '/')
    (hct : cleanTail ins t = true) :
    resolve base (ins.str ++ t) = iri ∧
      (split (ins.str ++ t)).scheme = none ∧ (split (ins.str ++ t)).authority = none ∧
      countDotDot (ins.str ++ t) = insUps ins := by
  have hbase := new_base base n
  have hqe := new_query_end base n hs
  have hqe' : (new base n).query_end = (preStr (split base)).length + (split base).path.length := by
    rw [hqe]; simp [queryStr, queryO, hq]
  rcases relativize_cases h with ⟨hi, _, hsl⟩ | ⟨_, h2, _⟩ | ⟨_, h2, _⟩ | ⟨h2, _⟩
  · subst hi
    have ht := sliceFrom_some hsl
    have hiri := iri_of_cut hl
    rw [← ht] at hiri
    have hne : (split base).path ≠ [] := by intro he; rw [he] at hdir; simp at hdir
    have hpos : 0 < (split base).path.length := List.length_pos_iff.mpr hne
    have hcut : CutOK (preStr (split base)) (split base).path (new base n).query_end 0 := by
      rw [hqe']
      refine ⟨by omega, by omega, ?_, ?_⟩
      · rw [List.getLast?_eq_getElem?] at hdir
        rw [show (preStr (split base)).length + (split base).path.length - (preStr (split base)).length - 1 =
          (split base).path.length - 1 by omega]
        exact hdir
      · rw [show (preStr (split base)).length + (split base).path.length - (preStr (split base)).length =
          (split base).path.length by omega]
        simp
    exact core hbd hcut hiri (Or.inr (Or.inr ⟨rfl, rfl⟩)) hct
  · rw [hbase] at h2; omega
  · rw [hbase] at h2; omega
  · rw [hbase] at h2; omega

/-! ## empty base path -/

theorem queryO_fragO_not_slash (q f : Option Str) : startsSlash (queryO q ++ fragO f) = false := by
  cases q <;> cases f <;> simp [queryO, fragO, startsSlash]

/-- base with an empty path: no slashes recorded, pseudoroot = path_begin = path_end -/
theorem new_empty_path (base : Octets) (n : Nat) (hs : (split base).scheme.isSome) (hp : (split base).path = []) :
    (new base n).slashes = [] ∧ (new base n).pseudoroot = (preStr (split base)).length ∧
    (new base n).path_end = (preStr (split base)).length := by
  have hd := base_decomp base
  rw [hp, List.append_nil, List.append_assoc] at hd
  have hpe := new_path_end base n hs
  rw [hp, List.append_nil] at hpe
  rw [new_eq base n hs] at *
  rw [hp] at *
  simp only [List.length_nil, Nat.add_zero, List.append_nil] at *
  have hsl : slashLoop base (preStr (split base)).length (n + 1) (preStr (split base)).length [] = [] := by
    unfold slashLoop
    simp [slice, rfind]
  rw [hsl] at *
  have hroot : startsSlash (base.drop (preStr (split base)).length) = false := by
    rw [drop_of_decomp hd]; exact queryO_fragO_not_slash _ _
  unfold finish
  simp [hroot]


theorem take_of_decomp {base S X : Octets} (h : base = S ++ X) : base.take S.length = S := by
  subst h; simp

theorem transform_abs (b r : Parts) (hs : r.scheme = none) (ha : r.authority = none) (x : Str)
    (hp : r.path = '/' :: x) :
    transform b r = ⟨b.scheme, b.authority, removeDotSegments r.path, r.query, r.fragment⟩ := by
  unfold transform
  rw [hs, ha]
  simp only [hp, List.isEmpty_cons, Bool.false_eq_true, if_false]

theorem rds_abs_clean (x : Str) (h : noDotSegs x = true) : removeDotSegments ('/' :: x) = '/' :: x := by
  have := rds_main [] [] (splitSlash x) x (by simp) (by simp) (cleanSeg_of_noDotSegs h) (flat_splitSlash x)
  simpa [flat, dotdots] using this

/-- region (E): the base path is empty and the tail is an absolute path ("/…", not "//…") without dot
segments -/
theorem inverse_empty_path {base : Octets} {n : Nat} {iri : Octets} {ins : Ins} {t : Octets}
    (hs : (split base).scheme.isSome) (hp : (split base).path = [])
    (h : relativize (new base n) iri = .some ins t)
    (hreg : (lcp base iri ≥ (new base n).query_end ∧ (split base).query = none) ∨
      (lcp base iri < (new base n).query_end ∧ lcp base iri ≤ (new base n).path_end))
    (t' : Octets) (ht : t = '/' :: t') (ht' : startsWith '/' t' = false)
    (hnd : noDotSegs ((spanNot ['?', '#'] t).1.drop 1) = true) :
    resolve base (ins.str ++ t) = iri ∧
      (split (ins.str ++ t)).scheme = none ∧ (split (ins.str ++ t)).authority = none ∧
      countDotDot (ins.str ++ t) = insUps ins := by
  have hbase := new_base base n
  obtain ⟨hsl0, hpr, hpe⟩ := new_empty_path base n hs hp
  have hqe := new_query_end base n hs
  -- in every possible branch: nothing inserted, t = iri.drop |S|, and iri = S ++ t
  have key : ins = .nothing ∧ iri = preStr (split base) ++ t := by
    have hd := base_decomp base
    rw [hp, List.append_nil, List.append_assoc] at hd
    have hfrom : ∀ c, c = (preStr (split base)).length → c ≤ lcp base iri → t = iri.drop c →
        iri = preStr (split base) ++ t := by
      intro c hc hle htd
      have := iri_of_cut hle
      rw [← htd, hc] at this
      rw [this, take_of_decomp hd]
    rcases relativize_cases h with ⟨hi, h1, hsl⟩ | ⟨_, h2a, h2, _⟩ | ⟨_, _, _, hsl, hq⟩ | ⟨_, _, _, hpb⟩
    · rw [hbase] at h1
      rcases hreg with ⟨_, hq⟩ | ⟨hlt, _⟩
      · have hqe' : (new base n).query_end = (preStr (split base)).length := by
          rw [hqe, hp]; simp [queryStr, queryO, hq]
        exact ⟨hi, hfrom _ hqe' h1 (sliceFrom_some hsl)⟩
      · omega
    · rw [hbase] at h2 h2a
      rcases hreg with ⟨hge, hq⟩ | ⟨_, hle⟩
      · have : (new base n).query_end = (new base n).path_end := by
          rw [hqe, hpe, hp]; simp [queryStr, queryO, hq]
        omega
      · omega
    · exfalso
      have htd := sliceFrom_some hsl
      rcases hq with hlen | hq
      · rw [htd, drop_eq_nil_of_length hlen] at ht; cases ht
      · rw [ht] at hq; simp [startsQH] at hq
    · rw [hbase] at hpb
      obtain ⟨hl, hc⟩ := pathBranch_cases hpb
      rw [hsl0] at hc
      rcases hc with ⟨slash, hfb, _⟩ | ⟨nb, slash, _, hfb, _⟩ | ⟨_, _, t1, _, hsl, hi⟩ | ⟨_, hne, _⟩
      · simp [firstBelow] at hfb
      · simp [firstBelow] at hfb
      · have htd := sliceFrom_some hsl
        refine ⟨?_, hfrom _ hpr hl htd⟩
        have hc1 : iri.length ≠ (new base n).pseudoroot := by
          intro hlen; rw [htd, drop_eq_nil_of_length hlen] at ht; cases ht
        have hc2 : startsQH t = false := by rw [ht]; rfl
        simp [hc1, hc2] at hi
        exact hi
      · exact absurd rfl hne
  obtain ⟨hi, hiri⟩ := key
  subst hi
  simp only [Ins.str, List.nil_append]
  -- the reference is an absolute-path reference
  have hspan : (spanNot ['?', '#'] t).1 = '/' :: (spanNot ['?', '#'] t').1 := by
    rw [ht]; simp [spanNot]
  have hplain := split_plain t (by rw [ht]; simp [spanNot, startsWith])
    (by
      intro x hx
      rw [ht] at hx
      injection hx with _ hx
      rw [hx] at ht'; simp [startsWith] at ht')
  obtain ⟨p1, p2, p3, p4⟩ := hplain
  rw [hspan] at p3 hnd
  simp only [List.drop_succ_cons, List.drop_zero] at hnd
  refine ⟨?_, p1, p2, ?_⟩
  · unfold resolve
    rw [transform_abs _ _ p1 p2 _ p3, p3, rds_abs_clean _ hnd, recompose_parts]
    rw [p3] at p4
    conv => rhs; rw [hiri, p4]
    simp [preStr, schemeStr, authStr, queryStr, fragStr, List.append_assoc]
  · rw [ht]; simp [countDotDot, insUps]

end SophiaProofs.Relativize
