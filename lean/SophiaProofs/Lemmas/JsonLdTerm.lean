import SophiaProofs.Lemmas.JsonLdMark
import SophiaProofs.Lemmas.JsonLdRoundTrip

/-!
Termination of `mark_list_node` (a `loop` in engine.rs, fuel-bounded recursion in the model): the walk from a seed
up the `unique_parent` links labelled `rdf:rest` passes every slot at most once, so the model's budget of
`gs_id.len() + 1` steps never runs out (`markAll_no_fuel`).

Why: every slot passed satisfied `is_list_node`, so it has exactly ONE `rdf:rest` value — the slot passed just
before it (`rdf:nil` for the seed), and (`PInv.parent`) the next slot holds the current one among its `rdf:rest`
values.  Were a slot reached twice, its single `rdf:rest` value would have to be two different things (`Trail.fresh`).
The pigeonhole principle bounds the number of distinct slots.  `PInv` is the invariant of `process_quads` behind it:
`index` is injective, a recorded unique parent really holds the child's slot (in the parent's graph) under the
recorded predicate, a seed really has `rdf:nil` among its `rdf:rest` values.
-/
namespace SophiaProofs.JsonLdLemmas
open SophiaModel SophiaModel.JsonLd
open SophiaModel.JsonLd.RdfObject (startsBn)

/-- pigeonhole: a duplicate-free list of numbers below `n` has at most `n` elements -/
theorem nodup_length_le : ∀ (n : Nat) (l : List Nat), l.Nodup → (∀ x ∈ l, x < n) → l.length ≤ n
  | 0, l, _, h => by
    cases l with
    | nil => simp
    | cons a _ => exact absurd (h a List.mem_cons_self) (Nat.not_lt_zero _)
  | n + 1, l, hd, h => by
    have hd' : (l.erase n).Nodup := hd.erase n
    have hlt : ∀ x ∈ l.erase n, x < n := by
      intro x hx
      have hxl : x ∈ l := List.mem_of_mem_erase hx
      have hne : x ≠ n := by
        intro he; subst he
        exact (List.Nodup.mem_erase_iff hd).mp hx |>.1 rfl
      have := h x hxl
      omega
    have ih := nodup_length_le n (l.erase n) hd' hlt
    have hlen : l.length ≤ (l.erase n).length + 1 := by
      by_cases hm : n ∈ l
      · rw [List.length_erase_of_mem hm]; omega
      · rw [List.erase_of_not_mem hm]; omega
    omega

/-! ### the trail of `mark_list_node` -/

/-- values of `rdf:rest` in slot `i` -/
def restVals (E : Engine) (i : Nat) : List RdfObject := (lookup rdfRest (E.node.getD i [])).getD []

/-- `t` is `rdf:nil` or one of the slots of `vis` -/
def IsTarget (vis : List Nat) (t : RdfObject) : Prop :=
  (∃ a, t = .node a rdfNil) ∨ ∃ y ∈ vis, ∃ s, t = .node y s

/-- the slots `mark_list_node` has passed (most recent first) and the `rdf:rest` value through which it climbed last:
each passed slot is a blank node whose ONLY `rdf:rest` value is the previous one (`rdf:nil` for the seed) -/
inductive Trail (E : Engine) : List Nat → RdfObject → Prop
  | seed (a : Nat) : Trail E [] (.node a rdfNil)
  | step {vis : List Nat} {tgt : RdfObject} (x : Nat) (sid : Id) :
      Trail E vis tgt → x < E.gsId.length → startsBn sid = true → restVals E x = [tgt] → x ∉ vis →
      Trail E (x :: vis) (.node x sid)

theorem IsTarget.mono {vis : List Nat} {t : RdfObject} (x : Nat) : IsTarget vis t → IsTarget (x :: vis) t
  | .inl h => .inl h
  | .inr ⟨y, hy, s, h⟩ => .inr ⟨y, List.mem_cons_of_mem _ hy, s, h⟩

theorem startsBn_rdfNil : startsBn rdfNil = false := by decide

theorem IsTarget.ne {vis : List Nat} {t : RdfObject} {x : Nat} {sid : Id} (h : IsTarget vis t) (hx : x ∉ vis)
    (hs : startsBn sid = true) : t ≠ .node x sid := by
  rintro rfl
  rcases h with ⟨a, ha⟩ | ⟨y, hy, s, hys⟩
  · cases ha
    rw [startsBn_rdfNil] at hs; cases hs
  · cases hys
    exact hx hy

theorem Trail.facts {E : Engine} {vis : List Nat} {tgt : RdfObject} (h : Trail E vis tgt) :
    vis.Nodup ∧ (∀ x ∈ vis, x < E.gsId.length) ∧ IsTarget vis tgt ∧
      ∀ y ∈ vis, ∃ t, restVals E y = [t] ∧ IsTarget vis t ∧ t ≠ tgt := by
  induction h with
  | seed a => exact ⟨List.nodup_nil, fun x hx => absurd hx List.not_mem_nil, Or.inl ⟨a, rfl⟩, fun y hy => absurd hy List.not_mem_nil⟩
  | @step vis tgt x sid _ hlt hs hr hx ih =>
    obtain ⟨hnd, hb, ht, hall⟩ := ih
    refine ⟨List.nodup_cons.mpr ⟨hx, hnd⟩, ?_, Or.inr ⟨x, List.mem_cons_self, sid, rfl⟩, ?_⟩
    · intro y hy
      rcases List.mem_cons.mp hy with rfl | hy
      · exact hlt
      · exact hb y hy
    · intro y hy
      rcases List.mem_cons.mp hy with rfl | hy
      · exact ⟨tgt, hr, ht.mono _, ht.ne hx hs⟩
      · obtain ⟨t, h1, h2, _⟩ := hall y hy
        exact ⟨t, h1, h2.mono _, h2.ne hx hs⟩

/-- a slot that has the last target among its `rdf:rest` values has not been passed yet -/
theorem Trail.fresh {E : Engine} {vis : List Nat} {tgt : RdfObject} (h : Trail E vis tgt) {cur : Nat}
    (hc : tgt ∈ restVals E cur) : cur ∉ vis := by
  intro hm
  obtain ⟨t, h1, _, h3⟩ := h.facts.2.2.2 cur hm
  rw [h1] at hc
  exact h3 (List.mem_singleton.mp hc).symm

theorem Trail.length_le {E : Engine} {vis : List Nat} {tgt : RdfObject} (h : Trail E vis tgt) :
    vis.length ≤ E.gsId.length :=
  nodup_length_le _ _ h.facts.1 h.facts.2.1


/-! ### what `unique_parent` and `list_seeds` promise about the node maps -/

theorem vals_mono (k k' : Id) (x : RdfObject) (m : NodeMap) {v : RdfObject} (hv : v ∈ (lookup k m).getD []) :
    v ∈ (lookup k (mapPushIfNew k' x m)).getD [] := by
  rw [lookup_mapPushIfNew]
  split
  · exact (mem_vecPushIfNew_iff _ _ _).mpr (Or.inl hv)
  · exact hv

theorem vals_pushed (k : Id) (x : RdfObject) (m : NodeMap) : x ∈ (lookup k (mapPushIfNew k x m)).getD [] := by
  rw [lookup_mapPushIfNew]
  simp only [beq_self_eq_true, if_true, Option.getD_some]
  exact (mem_vecPushIfNew_iff _ _ _).mpr (Or.inr rfl)

theorem findSlot_none (g s : Id) : ∀ (l : List (Id × Id)) (k : Nat), findSlot g s l k = none →
    ∀ i : Nat, l[i]? ≠ some (g, s)
  | [], _, _, i => by simp
  | (g', s') :: rest, k, h, i => by
    unfold findSlot at h
    split at h
    · cases h
    · rename_i hc
      cases i with
      | zero =>
        simp only [List.getElem?_cons_zero, ne_eq, Option.some.injEq, Prod.mk.injEq]
        rintro ⟨rfl, rfl⟩
        simp at hc
      | succ i =>
        simp only [List.getElem?_cons_succ]
        exact findSlot_none g s rest (k + 1) h i

theorem lookup_updParent_ne (key : Id) (par : Nat × Id) (k : Id) (hk : k ≠ key) :
    ∀ l, lookup k (updParent key par l) = lookup k l
  | [] => by
    have : (key == k) = false := by
      cases hc : key == k
      · rfl
      · exact absurd (eq_of_beq hc).symm hk
    simp [updParent, lookup, this]
  | (k', v) :: rest => by
    unfold updParent
    split
    · rename_i hkk
      have hkk' : k' = key := eq_of_beq hkk
      have : (k' == k) = false := by
        cases hc : k' == k
        · rfl
        · exact absurd ((eq_of_beq hc).symm.trans hkk') hk
      simp [lookup, this]
    · by_cases hc : (k' == k) = true
      · simp [lookup, hc]
      · simp [lookup, hc, lookup_updParent_ne key par k hk rest]

theorem lookup_updParent_some' (key : Id) (par : Nat × Id) (k : Id) (x : Nat × Id) (l : List (Id × Option (Nat × Id)))
    (h : lookup k (updParent key par l) = some (some x)) :
    lookup k l = some (some x) ∨ (k = key ∧ x = par) := by
  by_cases hk : k = key
  · subst hk
    rcases lookup_updParent_some k par k x l h with h | h
    · exact Or.inl h
    · exact Or.inr ⟨rfl, h⟩
  · rw [lookup_updParent_ne key par k hk] at h
    exact Or.inl h

structure PInv (E : Engine) : Prop where
  aligned : Aligned E
  /-- `index` is injective: a (graph id, node id) pair has one slot -/
  uniq : ∀ (i j : Nat) (x : Id × Id), E.gsId[i]? = some x → E.gsId[j]? = some x → i = j
  /-- a recorded parent `(ip, pp)` of `k` holds the slot of `k` in ITS graph among its `pp` values -/
  parent : ∀ (k : Id) (ip : Nat) (pp : Id), lookup k E.uniqueParent = some (some (ip, pp)) →
    ∃ (g s : Id) (j : Nat) (m : NodeMap), E.gsId[ip]? = some (g, s) ∧ E.gsId[j]? = some (g, k) ∧
      E.node[ip]? = some m ∧ RdfObject.node j k ∈ (lookup pp m).getD []
  /-- a seed has `rdf:nil` among its `rdf:rest` values -/
  seedNil : ∀ i ∈ E.listSeeds, ∃ (a : Nat) (m : NodeMap), E.node[i]? = some m ∧
    RdfObject.node a rdfNil ∈ (lookup rdfRest m).getD []

theorem pinv_init : PInv {} :=
  ⟨rfl, fun i j x h => by simp at h, fun k ip pp h => by simp [lookup] at h, fun i h => by simp at h⟩

theorem node_index_get {E : Engine} (g s : Id) {i : Nat} {m : NodeMap} (h : E.node[i]? = some m) :
    (E.index g s).1.node[i]? = some m := by
  unfold Engine.index
  split
  · exact h
  · exact getElem?_append_some _ _ _ _ h

theorem pinv_index {E : Engine} (h : PInv E) (g s : Id) : PInv (E.index g s).1 := by
  have hext := index_ext E g s
  refine ⟨index_aligned h.aligned _ _, ?_, ?_, ?_⟩
  · unfold Engine.index
    split
    · exact h.uniq
    · rename_i hnone
      have hfresh := findSlot_none g s E.gsId 0 hnone
      intro i j x hi hj
      simp only at hi hj
      by_cases hil : i < E.gsId.length <;> by_cases hjl : j < E.gsId.length
      · rw [List.getElem?_append_left hil] at hi
        rw [List.getElem?_append_left hjl] at hj
        exact h.uniq i j x hi hj
      · rw [List.getElem?_append_left hil] at hi
        rw [List.getElem?_append_right (Nat.le_of_not_lt hjl)] at hj
        cases hd : j - E.gsId.length with
        | zero => rw [hd] at hj; simp at hj; subst hj; exact absurd hi (hfresh i)
        | succ n => rw [hd] at hj; simp at hj
      · rw [List.getElem?_append_left hjl] at hj
        rw [List.getElem?_append_right (Nat.le_of_not_lt hil)] at hi
        cases hd : i - E.gsId.length with
        | zero => rw [hd] at hi; simp at hi; subst hi; exact absurd hj (hfresh j)
        | succ n => rw [hd] at hi; simp at hi
      · rw [List.getElem?_append_right (Nat.le_of_not_lt hil)] at hi
        rw [List.getElem?_append_right (Nat.le_of_not_lt hjl)] at hj
        cases hdi : i - E.gsId.length with
        | succ n => rw [hdi] at hi; simp at hi
        | zero =>
          cases hdj : j - E.gsId.length with
          | succ n => rw [hdj] at hj; simp at hj
          | zero => omega
  · intro k ip pp hl
    rw [hext.up] at hl
    obtain ⟨g', s', j, m, h1, h2, h3, h4⟩ := h.parent k ip pp hl
    exact ⟨g', s', j, m, hext.get h1, hext.get h2, node_index_get g s h3, h4⟩
  · intro i hi
    rw [hext.ls] at hi
    obtain ⟨a, m, h1, h2⟩ := h.seedNil i hi
    exact ⟨a, m, node_index_get g s h1, h2⟩

theorem pinv_push {E : Engine} (h : PInv E) (i : Nat) (k : Id) (x : RdfObject) : PInv (E.push i k x) := by
  refine ⟨push_aligned h.aligned _ _ _, h.uniq, ?_, ?_⟩
  · intro k' ip pp hl
    obtain ⟨g', s', j, m, h1, h2, h3, h4⟩ := h.parent k' ip pp hl
    by_cases hi : i = ip
    · subst hi
      exact ⟨g', s', j, mapPushIfNew k x m, h1, h2, by rw [node_push_get]; simp [h3], vals_mono _ _ _ _ h4⟩
    · exact ⟨g', s', j, m, h1, h2, by rw [node_push_get]; simp [hi, h3], h4⟩
  · intro i' hi'
    obtain ⟨a, m, h1, h2⟩ := h.seedNil i' hi'
    by_cases hi : i = i'
    · subst hi
      exact ⟨a, mapPushIfNew k x m, by rw [node_push_get]; simp [h1], vals_mono _ _ _ _ h2⟩
    · exact ⟨a, m, by rw [node_push_get]; simp [hi, h1], h2⟩


theorem noteSeed_node (o : Opts) (q : Quad) (i : Nat) (E : Engine) : (noteSeed o q i E).node = E.node := by
  unfold noteSeed; repeat (first | rfl | split)

theorem noteParent_node (q : Quad) (i : Nat) (E : Engine) : (noteParent q i E).node = E.node := by
  unfold noteParent; repeat (first | rfl | split)

theorem noteSeed_ls_mem (o : Opts) (q : Quad) (is : Nat) (E : Engine) {i : Nat} (hi : i ∈ (noteSeed o q is E).listSeeds) :
    i ∈ E.listSeeds ∨ (i = is ∧ isIriC rdfRest q.p = true ∧ isIriC rdfNil q.o = true) := by
  unfold noteSeed at hi
  split at hi
  · split at hi
    · rename_i hc
      simp only [Bool.and_eq_true] at hc
      rcases mem_vecPushIfNew _ _ _ hi with h1 | h1
      · exact Or.inl h1
      · exact Or.inr ⟨h1, hc.1, hc.2⟩
    · split at hi <;> exact Or.inl hi
  · exact Or.inl hi

theorem makeRdfObject_node (E : Engine) (t : Term) (g : Id) (j : Nat) (id : Id)
    (h : (E.makeRdfObject t g).2 = .node j id) : (E.makeRdfObject t g).1.gsId[j]? = some (g, id) := by
  cases t <;> simp only [Engine.makeRdfObject] at h ⊢ <;>
    first
    | (cases h; done)
    | (injection h with h1 h2; subst h1; subst h2; exact index_get _ _ _)

theorem pinv_step (o : Opts) {E : Engine} (h : PInv E) (q : Quad) : PInv (processQuad o E q) := by
  by_cases hj : isJsonLd q = true
  · have hE : processQuad o E q =
        noteParent q (linkGraph E q).2 (noteSeed o q (linkGraph E q).2
          (((linkGraph E q).1.makeRdfObject q.o (graphId q)).1.push (linkGraph E q).2
            (predKey o q ((linkGraph E q).1.makeRdfObject q.o (graphId q)).2)
            ((linkGraph E q).1.makeRdfObject q.o (graphId q)).2)) := by
      simp [processQuad, hj]
    rw [hE]
    have h1 : PInv (linkGraph E q).1 := by
      unfold linkGraph
      cases q.g with
      | none => exact pinv_index h _ _
      | some g => exact pinv_push (pinv_index (pinv_index h _ _) _ _) _ _ _
    have h2 : PInv ((linkGraph E q).1.makeRdfObject q.o (graphId q)).1 := by
      cases q.o <;> simp only [Engine.makeRdfObject] <;> first | exact h1 | exact pinv_index h1 _ _
    have hgetR : ((linkGraph E q).1.makeRdfObject q.o (graphId q)).1.gsId[(linkGraph E q).2]? =
        some (graphId q, asId q.s) := (makeRdfObject_ext _ _ _).get (linkGraph_get E q)
    have hF3 := makeRdfObject_node (linkGraph E q).1 q.o (graphId q)
    generalize hR : (linkGraph E q).1.makeRdfObject q.o (graphId q) = R at h2 hgetR hF3 ⊢
    generalize (linkGraph E q).2 = is at hgetR ⊢
    generalize hkey : predKey o q R.2 = key
    have h3 : PInv (R.1.push is key R.2) := pinv_push h2 _ _ _
    have hlt : is < R.1.node.length := h2.aligned ▸ (List.getElem?_eq_some_iff.mp hgetR).1
    have hF2 : (R.1.push is key R.2).node[is]? = some (mapPushIfNew key R.2 R.1.node[is]) := by
      rw [node_push_get]; simp [List.getElem?_eq_getElem hlt]
    have hgs : (noteParent q is (noteSeed o q is (R.1.push is key R.2))).gsId = R.1.gsId := by
      rw [noteParent_gsId, noteSeed_gsId]; rfl
    have hnd : (noteParent q is (noteSeed o q is (R.1.push is key R.2))).node = (R.1.push is key R.2).node := by
      rw [noteParent_node, noteSeed_node]
    refine ⟨?_, ?_, ?_, ?_⟩
    · exact noteParent_aligned _ _ (noteSeed_aligned _ _ _ h3.aligned)
    · rw [hgs]; exact h2.uniq
    · -- parents
      intro k ip pp hl
      rw [hgs, hnd]
      have hl' : lookup k (R.1.push is key R.2).uniqueParent = some (some (ip, pp)) ∨
          (isBnode q.o = true ∧ k = asId q.o ∧ (ip, pp) = (is, asId q.p)) := by
        unfold noteParent at hl
        split at hl
        · rename_i hb
          simp only [noteSeed_up] at hl
          rcases lookup_updParent_some' _ _ _ _ _ hl with hl | ⟨hk, hx⟩
          · exact Or.inl hl
          · exact Or.inr ⟨hb, hk, hx⟩
        · rw [noteSeed_up] at hl; exact Or.inl hl
      rcases hl' with hl' | ⟨hb, hk, hx⟩
      · exact h3.parent k ip pp hl'
      · have hip : ip = is := congrArg Prod.fst hx
        have hpp : pp = asId q.p := congrArg Prod.snd hx
        subst hip; subst hpp
        -- the object is a blank node: filed under the predicate's own id
        obtain ⟨b, hob⟩ : ∃ b, q.o = .bnode b := by
          cases ho : q.o <;> simp_all [isBnode]
        have hR2 : ∃ j, R.2 = .node j (asId q.o) := by
          rw [← hR, hob]; exact ⟨_, rfl⟩
        obtain ⟨j, hR2⟩ := hR2
        have hkeyp : key = asId q.p := by
          rw [← hkey, hR2]
          simp [predKey, hob, RdfObject.isIri, asId, startsBn]
        refine ⟨graphId q, asId q.s, j, _, hgetR, ?_, hF2, ?_⟩
        · rw [hk]; exact hF3 j _ hR2
        · rw [hk, ← hkeyp, ← hR2]; exact vals_pushed _ _ _
    · -- seeds
      intro i hi
      rw [hnd]
      rw [noteParent_ls] at hi
      rcases noteSeed_ls_mem o q is _ hi with hi | ⟨rfl, hr, hn⟩
      · exact h3.seedNil i hi
      · obtain ⟨hp, ho⟩ : q.p = .iri rdfRest ∧ q.o = .iri rdfNil := by
          constructor
          · cases hp : q.p <;> simp_all [isIriC]
          · cases ho : q.o <;> simp_all [isIriC]
        have hR2 : ∃ j, R.2 = .node j rdfNil := by
          rw [← hR, ho]; exact ⟨_, rfl⟩
        obtain ⟨j, hR2⟩ := hR2
        have hkeyp : key = rdfRest := by
          rw [← hkey]
          have : (rdfRest == rdfType) = false := by decide
          simp [predKey, hp, isIriC, this, asId]
        refine ⟨j, _, hF2, ?_⟩
        rw [← hkeyp, ← hR2]; exact vals_pushed _ _ _
  · have hE : processQuad o E q = E := by simp [processQuad, hj]
    rw [hE]; exact h

theorem pinv_foldl (o : Opts) : ∀ (D : List Quad) (E : Engine), PInv E → PInv (D.foldl (processQuad o) E)
  | [], _, h => h
  | q :: D, E, h => by rw [List.foldl_cons]; exact pinv_foldl o D _ (pinv_step o h q)

theorem pinv_processQuads (o : Opts) (D : List Quad) : PInv (processQuads o D) := pinv_foldl o D {} pinv_init


/-! ### `mark_list_node` terminates: the model's fuel never runs out -/

def isFuel {α : Type} : Res α → Bool
  | .error .fuel => true
  | _ => false

theorem isListNode_rest {m : NodeMap} (h : isListNode m = true) : ∃ x, lookup rdfRest m = some [x] := by
  unfold isListNode at h
  simp only [Bool.and_eq_true] at h
  have hr := h.1.2
  split at hr
  · exact ⟨_, by assumption⟩
  · cases hr

theorem markListNode_no_fuel (o : Opts) (E : Engine) (hp : PInv E) :
    ∀ (fuel inode : Nat) (ln : List (Id × Nat)) (vis : List Nat) (tgt : RdfObject),
      Trail E vis tgt → tgt ∈ restVals E inode → E.gsId.length + 1 ≤ vis.length + fuel →
      (∀ g s, E.gsId[inode]? = some (g, s) → startsBn s = true) →
      isFuel (markListNode o E fuel inode ln) = false
  | 0, _, _, vis, tgt, ht, _, hlen, _ => by
    have := ht.length_le
    omega
  | fuel + 1, inode, ln, vis, tgt, ht, hmem, hlen, hbn => by
    unfold markListNode
    cases hgs : E.gsId[inode]? with
    | none => simp [isFuel]
    | some gs =>
      obtain ⟨gId, sId⟩ := gs
      simp only
      cases hl : lookup sId E.uniqueParent with
      | none => simp only; split <;> simp [isFuel]
      | some v =>
        cases v with
        | none => simp [isFuel]
        | some par =>
          obtain ⟨iparent, pp⟩ := par
          simp only
          split
          · simp [isFuel]
          · cases hpg : E.gsId[iparent]? with
            | none => simp [isFuel]
            | some pgs =>
              obtain ⟨pgId, psId⟩ := pgs
              simp only
              split
              · rename_i hsame
                split
                · rename_i hlist
                  split
                  · rename_i hcont
                    simp only [Bool.and_eq_true, beq_iff_eq] at hcont
                    obtain ⟨hpbn, hpr⟩ := hcont
                    subst hpr
                    have hg : pgId = gId := eq_of_beq hsame
                    subst hg
                    have hilt : inode < E.gsId.length := (List.getElem?_eq_some_iff.mp hgs).1
                    have hnlt : inode < E.node.length := hp.aligned.symm ▸ hilt
                    -- the slot just passed has exactly one `rdf:rest` value: the one we came through
                    obtain ⟨x, hx⟩ := isListNode_rest hlist
                    have hrv : restVals E inode = [x] := by unfold restVals; rw [hx]; rfl
                    have hxt : x = tgt := by
                      rw [hrv] at hmem; exact (List.mem_singleton.mp hmem).symm
                    subst hxt
                    have hfresh := ht.fresh hmem
                    have ht' : Trail E (inode :: vis) (.node inode sId) :=
                      Trail.step inode sId ht hilt (hbn _ _ hgs) hrv hfresh
                    -- and its parent holds it among its `rdf:rest` values
                    obtain ⟨g, s, j, m, e1, e2, e3, e4⟩ := hp.parent sId iparent rdfRest hl
                    rw [hpg] at e1
                    have hgg : g = pgId := by injection e1 with e1; exact (congrArg Prod.fst e1).symm
                    subst hgg
                    have hj : j = inode := hp.uniq j inode _ e2 hgs
                    subst hj
                    have hmem' : RdfObject.node j sId ∈ restVals E iparent := by
                      simp only [restVals, getD_of_getElem? e3]; exact e4
                    exact markListNode_no_fuel o E hp fuel iparent _ (j :: vis) _ ht' hmem'
                      (by simp only [List.length_cons]; omega)
                      (fun g s hgs' => by rw [hpg] at hgs'; injection hgs' with hgs'; cases hgs'; exact hpbn)
                  · simp [isFuel]
                · simp [isFuel]
              · simp [isFuel]

theorem markAll_no_fuel (o : Opts) (E : Engine) (D : List Quad) (hp : PInv E) (hi : Inv E D) :
    ∀ (seeds : List Nat) (ln : List (Id × Nat)), (∀ i ∈ seeds, i ∈ E.listSeeds) →
      isFuel (markAll o E seeds ln) = false
  | [], _, _ => by simp [markAll, isFuel]
  | i :: rest, ln, h => by
    unfold markAll
    have him := h i List.mem_cons_self
    obtain ⟨a, m, hm1, hm2⟩ := hp.seedNil i him
    obtain ⟨g, s, hg1, hg2, _⟩ := hi.seeds i him
    have h1 := markListNode_no_fuel o E hp (E.gsId.length + 1) i ln [] _ (Trail.seed a)
      (by simp only [restVals, getD_of_getElem? hm1]; exact hm2) (by simp)
      (fun g' s' hgs' => by rw [hg1] at hgs'; injection hgs' with hgs'; cases hgs'; exact hg2)
    cases hm : markListNode o E (E.gsId.length + 1) i ln with
    | ok ln' => exact markAll_no_fuel o E D hp hi rest ln' (fun j hj => h j (List.mem_cons_of_mem _ hj))
    | error e =>
      rw [hm] at h1
      cases e <;> simp [isFuel] at h1 ⊢

end SophiaProofs.JsonLdLemmas
