import SophiaProofs.Props.C08
open SophiaProofs.C08
#print axioms rio_bnode_sub_validator
#print axioms rio_var_sub_validator
#print axioms rio_lang_sub_validator
#print axioms jsonld_bnode_sub_validator
#print axioms base_unwrap_safe
#print axioms oxiri_abs_sub_validator
#print axioms oxiri_ref_sub_validator
#print axioms gtrig_iri_sub_validator_refuted
#print axioms ttl_pname_sub_validator_refuted
#print axioms xml_qname_sub_validator_refuted
#print axioms xml_nodeid_sub_validator_refuted
#print axioms xml_nodeid_sub_validator_partial
#print axioms ttl_bnode_obj_sub_validator_refuted
#print axioms glue_no_unwrap
#print axioms glue_source_error
#print axioms glue_end
