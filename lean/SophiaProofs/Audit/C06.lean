import SophiaProofs.Props.C06
open SophiaProofs.C06
#print axioms impl_eq_spec_partial
#print axioms flag_smaller_path_is_spec_rule
#print axioms flag_predicate_must_be_iri
#print axioms skip_rule_as_specified
#print axioms unsupported_iff
#print axioms unsupported_iff_now
#print axioms normalize_unsupported_iff
#print axioms limits_only_fail
#print axioms normalize_limits_only_fail
#print axioms escapes_as_specified
#print axioms C06_witness_agrees
#print axioms C06_family_agrees
#print axioms fails_only_explicitly
#print axioms never_fails_within_limits
#print axioms hash_related_as_specified
#print axioms skip_rule_monotone
