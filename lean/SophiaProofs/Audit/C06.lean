import SophiaProofs.Props.C06
open SophiaProofs.C06
#print axioms unsupported_iff
#print axioms normalize_unsupported_iff
#print axioms limits_only_fail
#print axioms normalize_limits_only_fail
#print axioms C06_witness
#print axioms C06_witness_attributed
#print axioms not_implEqSpec
#print axioms escapes_as_specified
#print axioms impl_eq_spec_partial
#print axioms skip_rule_as_specified
#print axioms C06_witness_agrees
#print axioms C06_family_agrees
