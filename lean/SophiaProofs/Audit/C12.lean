import SophiaProofs.Props.C12
open SophiaProofs.C12
#print axioms unique_parent_lookup_is_get
#print axioms constants_as_in_source
#print axioms no_panic
#print axioms no_panic_partial
#print axioms no_panic_nolist
#print axioms no_panic_needs_absolute_iris
#print axioms suppressed_only_list_cells
#print axioms dropped_iff_not_jsonld
#print axioms isJsonLd_spec
#print axioms roundtrip_nolist
#print axioms roundtrip_nolist_closed
#print axioms roundtrip_nolist_partial
#print axioms node_object_roundtrip
#print axioms roundtrip_refuted_cross_graph
#print axioms roundtrip_refuted_self_list
#print axioms roundtrip_refuted_typed_list
#print axioms roundtrip_refuted_i18n
#print axioms roundtrip_refuted_compound
#print axioms suppressed_compensated_refuted
#print axioms roundtrip_all_refuted
