import SophiaProofs.Props.C12
open SophiaProofs.C12
#print axioms no_panic_witness
#print axioms no_panic_refuted
#print axioms no_panic_partial
#print axioms dropped_iff_not_jsonld
#print axioms isJsonLd_spec
#print axioms roundtrip_refuted_cross_graph
#print axioms roundtrip_refuted_self_list
#print axioms roundtrip_refuted_typed_list
#print axioms suppressed_compensated_refuted
#print axioms roundtrip_all_refuted
#print axioms roundtrip_nolist_partial
#print axioms node_object_roundtrip
