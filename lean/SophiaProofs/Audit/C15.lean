import SophiaProofs.Props.C15
open SophiaProofs.C15
#print axioms run_spec
#print axioms run_spec_iter
#print axioms fuel_suffices
#print axioms specSource_spec
#print axioms prefix_exact_source_fault_any_sink
#print axioms prefix_exact_source_fault
#print axioms prefix_exact_sink_fault
#print axioms prefix_exact_sink_fault_iter
#print axioms nothing_after_source_fault
#print axioms nothing_after_sink_fault
#print axioms nothing_after_iter
#print axioms blame_source
#print axioms blame_sink
#print axioms stepwise_eq_whole
#print axioms no_fault_all
#print axioms no_fault_all_log
#print axioms forEach_spec
#print axioms counts_insert_all
#print axioms counts_remove_all
