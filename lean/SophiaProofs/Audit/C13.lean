import SophiaProofs.Props.C13
open SophiaProofs.C13
#print axioms bgp_correct
#print axioms bgp_multiset
#print axioms single_graph_nodup
#print axioms body_correct
#print axioms graph_var_correct
#print axioms ask_graph_var_correct
#print axioms eval_correct_partial
#print axioms ask_correct
#print axioms slice_sound
#print axioms dispatch_total
#print axioms unsupported_err
#print axioms fragment_refused
#print axioms dispatch_model
#print axioms query_dispatch
#print axioms spec_refuses
#print axioms no_panic
#print axioms exprOK_termlevel
#print axioms or_and_tables
#print axioms evalD_none
#print axioms evalCorrectFull_refuted
#print axioms dev_graph_prebind
#print axioms dev_proj_leak
#print axioms dev_ebv_illtyped
#print axioms fixed_empty_named
#print axioms fixed_or_strict
