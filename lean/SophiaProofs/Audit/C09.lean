import SophiaProofs.Props.C09
open SophiaProofs.C09
#print axioms iri_regex_exact
#print axioms irel_regex_exact
#print axioms iriref_is_union
#print axioms abs_rel_disjoint
