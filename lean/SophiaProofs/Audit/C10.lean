import SophiaProofs.Props.C10
open SophiaProofs.C10
#print axioms winv_init
#print axioms sc_preserved
#print axioms winv_self_contained
#print axioms audit_clean_self_contained
#print axioms no_dangling
#print axioms read_after_history
#print axioms clone_same_content
#print axioms clone_same_quads
#print axioms clone_independent
#print axioms clone_independent_run
#print axioms derive_clone_dangles
#print axioms derive_not_safe
#print axioms no_dangling_partial
#print axioms c10_holds
#print axioms c10_verdict
#print axioms unwrap_unchecked_safe
#print axioms unwrap_unchecked_safe_gen
#print axioms ensure_owned_sound
