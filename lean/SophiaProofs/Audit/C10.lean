import SophiaProofs.Props.C10
