import SophiaProofs.Props.C16
open SophiaProofs.C16
#print axioms next_rec_eq_next_loop
#print axioms next_loop_depth_bounded
#print axioms next_rec_depth_exact
#print axioms next_rec_depth_linear
#print axioms quoted_rec_eq_loop
#print axioms quoted_loop_depth_bounded
#print axioms quoted_rec_depth_linear
#print axioms graph_rec_eq_graph_loop
#print axioms graph_loop_depth_bounded
#print axioms graph_rec_depth_exact
#print axioms graph_rec_depth_linear
#print axioms populate_rec_eq_loop
#print axioms populate_loop_depth_bounded
#print axioms populate_rec_depth_exact
#print axioms populate_rec_depth_linear
#print axioms mark_rec_eq_loop
#print axioms mark_loop_depth_bounded
#print axioms mark_rec_depth_linear
#print axioms term_depth_bounded
#print axioms nq_depth_bounded
#print axioms find_subject_depth_bounded
#print axioms bgp_rec_depth_bounded
#print axioms table_names_known
#print axioms table_verdict
#print axioms table_refuted
#print axioms table_status
