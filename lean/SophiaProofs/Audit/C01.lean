import SophiaProofs.Props.C01
open SophiaProofs.C01
#print axioms tables_ok
#print axioms shapes_ok
#print axioms inv_init
#print axioms inv_step_insert
#print axioms inv_step_remove
#print axioms holds_each_once
#print axioms insert_refines
#print axioms insert_index_full_no_change
#print axioms remove_refines
#print axioms constant_sound_tm
#print axioms constant_sound_gm
#print axioms cached_scan_is_filter
#print axioms range_is_prefix_filter
