import SophiaProofs.Props.C01
open SophiaProofs.C01
#print axioms tables_ok
#print axioms shapes_ok
#print axioms inv_init
#print axioms inv_step_insert
#print axioms inv_step_remove
#print axioms holds_each_once
#print axioms insert_refines
#print axioms insert_index_full_no_change
#print axioms remove_refines
#print axioms constant_sound_tm
#print axioms constant_sound_gm
#print axioms cached_scan_is_filter
#print axioms range_is_prefix_filter
#print axioms scan_eq_filter
#print axioms contains_is_membership
#print axioms matching_respects_term_eq
#print axioms insert_all_refines
#print axioms insert_all_full_prefix
#print axioms remove_all_refines
#print axioms remove_matching_refines
#print axioms retain_matching_refines
#print axioms run_refines_spec
#print axioms run_contains_spec
#print axioms run_query_spec
#print axioms run_refines_plain_set
