import SophiaProofs.Props.C02
open SophiaProofs.C02
#print axioms termEq_refl
#print axioms termEq_symm
#print axioms termEq_trans
#print axioms eq_hash
#print axioms cmp_eq_iff
#print axioms cmp_swap
#print axioms cmp_trans
#print axioms cmp_trans_lt
#print axioms cmp_kind
#print axioms nsterm_eq
