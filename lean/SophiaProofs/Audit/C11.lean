import SophiaProofs.Props.C11

#print axioms SophiaProofs.C11.store_types_lawful
#print axioms SophiaProofs.C11.union_view
#print axioms SophiaProofs.C11.partial_union_view
#print axioms SophiaProofs.C11.dataset_graph_view
#print axioms SophiaProofs.C11.dataset_graph_absent
#print axioms SophiaProofs.C11.view_query
#print axioms SophiaProofs.C11.view_contains
#print axioms SophiaProofs.C11.graph_as_dataset_view
#print axioms SophiaProofs.C11.union_enum_spo
#print axioms SophiaProofs.C11.union_enum_atoms
#print axioms SophiaProofs.C11.union_enum_atoms_defect
#print axioms SophiaProofs.C11.union_enum_verdict
#print axioms SophiaProofs.C11.view_insert
#print axioms SophiaProofs.C11.view_insert_flag
#print axioms SophiaProofs.C11.view_remove
#print axioms SophiaProofs.C11.view_remove_flag
#print axioms SophiaProofs.C11.as_dataset_mut_insert
#print axioms SophiaProofs.C11.as_dataset_mut_insert_flag
#print axioms SophiaProofs.C11.as_dataset_mut_remove
#print axioms SophiaProofs.C11.as_dataset_mut_remove_defect
#print axioms SophiaProofs.C11.as_dataset_mut_remove_refuted
#print axioms SophiaProofs.C11.as_dataset_mut_remove_verdict
#print axioms SophiaProofs.C11.run_coherent
#print axioms SophiaProofs.C11.forwarding_flags_now
