import SophiaProofs.Props.C03
open SophiaProofs.C03
#print axioms unescape_quoted
#print axioms quoted_clean
#print axioms quoted_no_panic
#print axioms quoted_rs_eq
#print axioms quoted_loop_inv
#print axioms one_line
#print axioms read_write_term
#print axioms read_write_quad
#print axioms read_write_doc
#print axioms read_write_doc_nt
#print axioms write_injective
#print axioms writeTerm_injective
#print axioms iri_regex_sub_iriref
#print axioms bnode_id_sub_label
#print axioms bcp47_sub_langtag
#print axioms bcp47_sub_lang_tag
#print axioms lang_tag_guard
#print axioms lang_tag_guard_excl
#print axioms lang_tag_wider
#print axioms valid_termOk
#print axioms domain_quadOk
#print axioms read_write_doc_valid
