import SophiaProofs.Props.C17
open SophiaProofs.C17
#print axioms rel_inverse_refuted_colon
#print axioms rel_inverse_refuted_empty_segment
#print axioms rel_inverse_refuted_extension
#print axioms rel_inverse_refuted_query_dropped
#print axioms rel_inverse_refuted_dot_segment
#print axioms rel_is_ref_refuted
#print axioms rel_is_ref_refuted_authority
#print axioms rel_parents_refuted
#print axioms rel_boundaries_refuted
#print axioms rel_parents_inserted
#print axioms rel_same_doc
#print axioms rel_boundaries_partial
#print axioms rel_partial_all
#print axioms rel_inverse_partial
#print axioms rel_is_ref_partial
#print axioms rel_parents_partial
#print axioms rel_boundaries_utf8_refuted
#print axioms rel_boundaries_utf8_partial
#print axioms rel_same_doc_some
#print axioms rel_none_only_outside
#print axioms rel_some_inside
#print axioms rel_same_doc_inverse_partial
#print axioms rel_path_input_partial
