import SophiaProofs.Props.C07
open SophiaProofs.C07
#print axioms iso_symm
#print axioms iso_false_size
#print axioms iso_false_bcount
#print axioms iso_false_ground
#print axioms iso_relabel
#print axioms repo_variant
#print axioms iso_relabel_repo
#print axioms iso_relabel_answers_true
#print axioms certOk_sound
#print axioms groundDiffers_sound
#print axioms iso_fuel_mono
#print axioms iso_relabel_partial
#print axioms iso_relabel_witness
#print axioms iso_relabel_fails_shallow
#print axioms gates_symm
#print axioms bcount_gate_subsumed
#print axioms SophiaProofs.Iso.colour_covered
#print axioms SophiaProofs.Iso.isort_spec
