import SophiaProofs.Props.C07
open SophiaProofs.C07
#print axioms iso_symm
#print axioms iso_false_size
#print axioms iso_false_bcount
#print axioms iso_false_ground
#print axioms iso_relabel
#print axioms iso_relabel_partial
#print axioms iso_relabel_witness
#print axioms iso_relabel_fails_shallow
#print axioms gates_symm
#print axioms bcount_gate_subsumed
#print axioms SophiaProofs.Iso.colour_covered
#print axioms SophiaProofs.Iso.isort_spec
