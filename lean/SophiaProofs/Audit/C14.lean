import SophiaProofs.Props.C14
open SophiaProofs.C14
#print axioms order_not_transitive
#print axioms order_not_transitive_welltyped
#print axioms numeric_ties_not_transitive
#print axioms not_order_total_preorder
#print axioms order_total_preorder_partial
#print axioms respects_lt
#print axioms kind_order
#print axioms desc_reverse
#print axioms lexicographic_keys
#print axioms bindings_total_preorder
#print axioms sorted_perm
#print axioms sorted_respects_lt
#print axioms refSort_contract
#print axioms repaired_total_preorder
#print axioms repaired_respects_cmp_partial
#print axioms repaired_kind_order
