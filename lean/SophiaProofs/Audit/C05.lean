import SophiaProofs.Props.C05
open SophiaProofs.C05
#print axioms issued_bij
#print axioms relabel_applies
#print axioms issued_total
#print axioms step6_never_panics
#print axioms relabel_outcomes
#print axioms first_degree_invariant
#print axioms sorted_is_line_order
#print axioms output_lines_sorted
#print axioms complete
#print axioms sound_distinct_partial
#print axioms flag_predicate_must_be_iri
#print axioms relabel_outcomes_explicit
#print axioms issued_dom_iff
#print axioms soundFull_refuted
#print axioms validated_terms_wellformed
#print axioms complete_validated
