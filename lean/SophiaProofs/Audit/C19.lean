import SophiaProofs.Props.C19
open SophiaProofs.C19
#print axioms read_reads_resolved
#print axioms new_ok_cfg
#print axioms getG_opened
#print axioms confined_partial
#print axioms retry_confined
#print axioms confined_repaired
#print axioms confined_of_guard
#print axioms guard_present
#print axioms confined_current
#print axioms current_status
#print axioms unguarded_refuted
#print axioms confined_files
#print axioms link_confined
#print axioms ctx_confined
#print axioms reads_only_in_get
#print axioms escape_dotdot
#print axioms escape_absolute
#print axioms escape_retry
#print axioms confined_refuted
#print axioms repaired_rejects_witnesses
#print axioms pct_not_decoded
#print axioms fuel_irrelevant
