import SophiaProofs.Props.C18
open SophiaProofs.C18
#print axioms representable_iff
#print axioms written_iff
#print axioms quoted_is_error
#print axioms xml_escape_roundtrip
#print axioms escape_no_markup
#print axioms xml_text_conformant
#print axioms xml_attr_conformant
#print axioms xml_text_roundtrip
#print axioms xml_text_roundtrip_iff
#print axioms xml_attr_roundtrip
#print axioms xml_text_cr_lost
#print axioms split_iri_valid
#print axioms split_iri_empty_iff
#print axioms split_iri_empty_keeps_iri
#print axioms split_iri_no_break
#print axioms writer_never_touches_text
#print axioms indent_never_touches_text
#print axioms roundtrip_partial
#print axioms indent_invariant
#print axioms roundtrip_ws_lost
#print axioms roundtrip_bnode_digit_rejected
#print axioms roundtrip_rdf_li_renumbered
#print axioms prop_name_not_qname
#print axioms prop_name_ncname
