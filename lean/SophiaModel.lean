import SophiaModel.Basic.Proto
import SophiaModel.Basic.Term
import SophiaModel.Regex.Re
import SophiaModel.Regex.Decide
import SophiaModel.Regex.Comb
import SophiaModel.Gen.Regexes
import SophiaModel.Model.Iri3987
