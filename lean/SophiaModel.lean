-- This module serves as the root of the `SophiaModel` library.
-- Import modules here that should be built as part of the library.
import SophiaModel.Basic
