import SophiaProofs.Props.C09
import SophiaProofs.Audit.C09
