import SophiaModel.Model.Rdfc10Run

namespace SophiaModel.Driver.C06

/-- see `Model/Rdfc10Run.lean` for the protocol; C06 adds the oracle field `o.out` (the transcription of the Recommendation) -/
abbrev State := Unit
def init : State := ()
def step (_ : State) (line : String) : State × String := ((), SophiaModel.Rdfc10Run.handle true line)

end SophiaModel.Driver.C06

def main : IO UInt32 := SophiaModel.Proto.runLoop SophiaModel.Driver.C06.init SophiaModel.Driver.C06.step
