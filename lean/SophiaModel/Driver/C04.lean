import SophiaModel.Basic.Proto
import SophiaModel.Basic.Term
import SophiaModel.Model.Pretty
import SophiaModel.Model.StreamSer
import SophiaModel.Model.TurtleTokens
import SophiaModel.Gen.Regexes

namespace SophiaModel.Driver.C04
open SophiaModel Proto Pretty

def parsePm (s : String) : Option (List (Str × Str)) :=
  if s == "d" then some defaultPrefixMap
  else if s == "-" then some []
  else (s.splitOn ",").mapM (fun pair =>
    match pair.splitOn ":" with
    | [p, n] => do
      let p ← charsOfHex p
      let n ← charsOfHex n
      pure (p, n)
    | _ => none)

def parseQuads : Nat → List String → Option (List Quad)
  | 0, _ => none
  | _, [] => some []
  | fuel + 1, toks => do
    let (q, rest) ← Quad.parse toks
    let qs ← parseQuads fuel rest
    pure (q :: qs)

/-- list cells swallowed by a collection although they carry more than one rdf:rest -/
def multiRest (d : List Quad) (before after : List STEntry) : Nat :=
  (before.filter (fun e =>
    (stGet after e.g e.s).isNone &&
    (d.filter (fun q => Term.termEq q.s e.s && isIriOf rdfRest q.p)).length > 1)).length

/-- follow `predecessor` pointers from `l` through unlabelled nodes; does the walk come back to `l`? -/
def backToSelf (ps : Profiles) (start : Str) : Nat → Str → Bool
  | 0, _ => false
  | fuel + 1, cur =>
    match pGet ps cur with
    | some p =>
      if p.bad then false
      else match p.pred with
        | some (.bnode l) => if l == start then !((pGet ps l).map (·.bad) |>.getD true) else backToSelf ps start fuel l
        | _ => false
    | none => false

/-- a cycle of blank nodes none of which `build_labelled` marks (the mechanism of finding C04-cycle-tail) -/
def unlabelledCycle (d : List Quad) : Bool :=
  let ps := detectCycles (buildProfiles d)
  ps.any (fun e => !e.2.bad && backToSelf ps e.1 (ps.length + 1) e.1)

/-- `ttl~` / `trig~`: the same serializer through its other entry points (streaming source, borrowed prefix map);
`gtrig`: generalized RDF through the pretty TriG writer; the model is the same function -/
def baseFmt (fmt : String) : String :=
  if fmt == "ttl~" then "ttl" else if fmt == "trig~" || fmt == "gtrig" then "trig" else fmt

def handle (line : String) : String :=
  match fields line with
  | "ser" :: fmt :: pretty :: ind :: pm :: rest =>
    match charsOfHex ind, parsePm pm, parseQuads (rest.length + 1) rest with
    | some ind, some pm, some quads =>
      let fmt := baseFmt fmt
      if fmt != "ttl" && fmt != "trig" then "bad-op"
      else if fmt == "ttl" && quads.any (fun q => q.g.isSome) then "bad-op"
      else
        -- what the property demands of the configuration: an indentation made of Turtle white space is accepted
        let demand := if ind.all isTurtleWs then [kv "o.cfg" "ok"] else []
        -- ghost: the indentation contains a character that does not separate Turtle tokens
        let indentBad := kvB "indent_bad" (!ind.all isTurtleWs)
        if !indentAccepted ind then reply ([kvN "n" quads.length, kv "cfg" "rejected"] ++ demand)
        else if pretty != "1" then
          -- streaming mode: which statements reach Rio's formatter (`convert_triple`); the text is Rio's
          let kept := if fmt == "ttl" then StreamSer.streamTriples quads else StreamSer.streamQuads quads
          reply ([kvN "n" quads.length, kv "cfg" "ok", kv "mode" "stream", kvN "o.kept" kept.length] ++ demand)
        else
          let cfg : Cfg := ⟨pm, ind⟩
          let d := mkDataset quads
          let lab := buildLabelled d
          let sts0 := buildSubjectTypes d lab
          match prettify cfg d with
          | .diverges => reply ([kvN "n" quads.length, kv "cfg" "ok", kv "diverges" "1", kvB "unlabelled_cycle" (unlabelledCycle d)] ++ demand)
          | .done w =>
            let undone := (w.sts.filter (fun e => e.st != .done)).length
            let mr := match buildLists d sts0 with
              | some (_, sts) => multiRest d sts0 sts
              | none => 0
            reply ([kvN "n" quads.length, kv "cfg" "ok", kv "out" (hexOfChars w.out), kvN "undone" undone, kvN "lists_left" w.lists.length,
                    kvB "unlabelled_cycle" (unlabelledCycle d), kvN "multi_rest" mr,
                    kvB "fault" w.fault, kvN "bare_bad" w.ghostBare, kvN "nil_bad" w.ghostNil, indentBad] ++ demand)
    | _, _, _ => "bad-hex"
  | "lit" :: rest =>
    match Term.parseAll rest with
    | some (t, []) =>
      let cfg : Cfg := ⟨defaultPrefixMap, [' ']⟩
      let w : W := ({ sts := [], lists := [] } : W).noteLit t
      reply [kv "out" (hexOfChars (writeLiteral cfg t)), kvN "bare_bad" w.ghostBare, kvN "nil_bad" w.ghostNil]
    | _ => "bad-hex"
  | ["iri", h, pm] =>
    match charsOfHex h, parsePm pm with
    | some i, some pm =>
      let cfg : Cfg := ⟨pm, [' ']⟩
      reply [kv "out" (hexOfChars (writeIri cfg .node i)), kv "bare_bad" "0", kv "nil_bad" "0"]
    | _, _ => "bad-hex"
  | ["witness"] =>
    let f := fun (o : Option (List Nat)) => match o with
      | none => "none"
      | some w => hexOfString (String.ofList (w.map Char.ofNat))
    let incl := fun (a b : Re) => f (Re.witnessP Re.okIncl a b)
    reply [kv "integer" (incl Gen.TTL_INTEGER TurtleTokens.INTEGER),
           kv "decimal" (incl Gen.TTL_DECIMAL TurtleTokens.DECIMAL),
           kv "double" (incl Gen.TTL_DOUBLE TurtleTokens.DOUBLE),
           kv "boolean" (incl Gen.TTL_BOOLEAN TurtleTokens.BOOLEAN),
           kv "pn_local" (incl Gen.PN_LOCAL TurtleTokens.PN_LOCAL),
           kv "pn_prefix" (incl Gen.PN_PREFIX TurtleTokens.PN_PREFIX),
           kv "bnode" (incl Gen.BNODE_ID TurtleTokens.BNODE_LABEL),
           kv "langtag" (incl Gen.LANG_TAG TurtleTokens.LANGTAG)]
  | _ => "bad-op"

abbrev State := Unit
def init : State := ()
def step (_ : State) (line : String) : State × String := ((), handle line)

end SophiaModel.Driver.C04

def main : IO UInt32 := SophiaModel.Proto.runLoop SophiaModel.Driver.C04.init SophiaModel.Driver.C04.step
