import SophiaModel.Basic.Proto
import SophiaModel.Model.Native

/-!
C20 driver.  Requests (see harness/props/c20/src/main.rs):

  i32|isize|usize <decimal>       native integer used as a term, and back
  bool 0|1
  str <hex>
  f64 <bits:16 hex> <hex L>        L = lexical form the real implementation produced at generation time
  parse <i32|isize|usize|bool|f64> <term>     `T::try_from_term(term)`
  lex <integer|boolean|double|decimal|string|rustFinite> <hex>   membership in the XSD lexical space
  h3                                what non-finite values print as / special spellings parse to; int widths
  wl                                the five datatype whitelists
  h12 <seed> <n>                    n random doubles in-process by the harness: demand = 0 invalid lexical forms, 0 failed
                                    round trips; H1 (a proof hypothesis, not a demand) is a plain field
  foreign <type> <hex lex|-> <hex dt|->   `T::try_from_term` on a harness-local `Term` impl answering exactly these
                                    `lexical_form()` / `datatype()` (any `kind()`): the unwrap is an explicit outcome
  bigf <type> <dtname> <hex pre> <z1> <hex mid> <z2> <hex post>
                                    `parse` on the literal pre ++ "0"*z1 ++ mid ++ "0"*z2 ++ post ^^ xsd:dtname
                                    (zero-padded forms of any length without megabyte request lines)

Plain fields mirror the implementation (model = code); `o.` fields are what the property demands.
-/
namespace SophiaModel.Driver.C20
open SophiaModel Proto Native

def hexS (s : Str) : String := hexOfChars s

def hex16 (n : Nat) : String :=
  let ds := Nat.toDigits 16 n
  String.ofList (List.replicate (16 - ds.length) '0' ++ ds)

def natOfHex (s : String) : Option Nat :=
  s.toList.foldl (fun acc c => do let a ← acc; let v ← hexVal c; pure (a * 16 + v)) (some 0)

def showF64 (x : F64) : String := if F64.isNaN x then "nan" else hex16 x

/-- marker used as demanded lexical form when the implementation's own is not acceptable and no
canonical one exists -/
def invalidMarker (dt : String) : Str := ("<no valid lexical form of xsd:" ++ dt ++ " denoting this value>").toList

def intReply (ty : IntTy) (term : Int → Term) (tryFrom : Term → Except IntErr Int) (arg : String) : String :=
  match arg.toInt? with
  | none => "bad-op"
  | some n =>
    if ¬ ty.InRange n then "bad-range" else
    let t := term n
    match t with
    | .lit lex dt =>
      let back := match tryFrom t with
        | .ok v => toString v
        | .error e => "err:" ++ e.name
      reply [kv "lex" (hexS lex), kv "dt" (hexS dt), kv "back" back, kv "o.back" (toString n),
             kvB "valid" (Xsd.matchesS Xsd.integer lex), kv "copy.drift" "0"]
    | _ => "bad-model"

def showIntRes : Except IntErr Int → List String
  | .ok v => [kv "ok" "1", kv "val" (toString v)]
  | .error e => [kv "ok" "0", kv "err" e.name]

/-- name of an xsd datatype IRI, if it is in the xsd namespace -/
def xsdNameOf (dt : Str) : Option Str :=
  if Gen.Native.xsdNs.isPrefixOf dt then some (dt.drop Gen.Native.xsdNs.length) else none

/-- the integer a term denotes, if it is a literal of a decimal-derived XSD type with an integer lexical form -/
def intDen (t : Term) : Option Int :=
  match t with
  | .lit lex dt =>
    match xsdNameOf dt with
    | some name =>
      if (Xsd.compatBoundsOf name).isSome && Xsd.matchesS Xsd.integer lex
      then some (Xsd.intVal lex) else none
    | none => none
  | _ => none

def boolDen (t : Term) : Option Bool :=
  match t with
  | .lit lex dt => if dt == xsdIri "boolean".toList then Xsd.boolVal lex else none
  | _ => none

/-- the double a term denotes (nearest binary64; NaN = `none` inside).  LENIENT reading, on purpose:
a literal of any real-valued XSD datatype is read through the lexical mapping of `xsd:double` (so
`"1e3"^^xsd:decimal`, an ill-typed literal, "denotes" 1000 — the same leniency as for integers, where
facets of the derived type are not checked), and the non-XSD spellings `inf` / `infinity` / `nan`
(ASCII case-insensitive, optional sign) that `f64::from_str` accepts are read as the special value
they spell.  Recorded as an observation in the report, not as a violation. -/
def f64Den (t : Term) : Option (Option F64) :=
  match t with
  | .lit lex dt =>
    match xsdNameOf dt with
    | some name =>
      if Xsd.realValued.contains name then
        match Dec.doubleVal lex with
        | some d => some d
        | none =>
          if Xsd.matchesS RustF64.infRe lex then
            some (some (if lex.head? == some '-' then F64.negInf else F64.posInf))
          else if Xsd.matchesS RustF64.nanRe lex then some none
          else none
      else none
    | none => none
  | _ => none

def oracleFields (den : Option String) : List String :=
  match den with
  | some v => [kv "o.val" v]
  | none => [kv "o.ok" "0"]

/-- reply of `parse <ty> t` (also used by `bigf`) -/
def parseReply (ty : String) (t : Term) : String :=
  match ty with
  | "i32" => reply (showIntRes (i32TryFromTerm t) ++ oracleFields ((intDen t).map toString))
  | "isize" => reply (showIntRes (isizeTryFromTerm t) ++ oracleFields ((intDen t).map toString))
  | "usize" => reply (showIntRes (usizeTryFromTerm t) ++ oracleFields ((intDen t).map toString))
  | "bool" =>
    let r := match boolTryFromTerm t with
      | .ok v => [kv "ok" "1", kv "val" (toString v)]
      | .error _ => [kv "ok" "0", kv "err" "invalid"]
    reply (r ++ oracleFields ((boolDen t).map toString))
  | "f64" =>
    let r := match RustF64.tryFromTerm t with
      | .ok v => [kv "ok" "1", kv "val" (showF64 v)]
      | .error .empty => [kv "ok" "0", kv "err" "empty"]
      | .error .invalid => [kv "ok" "0", kv "err" "invalid"]
    let den := (f64Den t).map (fun d => match d with | some b => hex16 b | none => "nan")
    reply (r ++ oracleFields den)
  | _ => "bad-op"

def showOutcome {ε α : Type} (val : α → String) (err : ε → String) : Outcome ε α → List String
  | .ok v => [kv "ok" "1", kv "val" (val v)]
  | .err e => [kv "ok" "0", kv "err" (err e)]
  | .panic => [kv "ok" "panic"]

/-- `foreign`: an arbitrary implementation of the `Term` trait, seen through `View`.  What the property
demands is stated only where the view is that of a literal (lexical form AND datatype): then it is the
demand on that literal; with no lexical form: an error.  A lexical form without a datatype breaks the
contract of the trait (`datatype()` is `Some` for every literal): the model says `panic`, no demand. -/
def foreignReply (ty : String) (v : View) : String :=
  let den (f : Term → Option String) : List String :=
    match v.lex, v.dt with
    | some l, some d => oracleFields (f (.lit l d))
    | none, _ => [kv "o.ok" "0"]
    | some _, none => []
  match ty with
  | "i32" => reply (showOutcome toString IntErr.name (tryFromViewWith Gen.Native.tryI32 (parseInt i32) v)
      ++ den (fun t => (intDen t).map toString))
  | "isize" => reply (showOutcome toString IntErr.name (tryFromViewWith Gen.Native.tryIsize (parseInt isize) v)
      ++ den (fun t => (intDen t).map toString))
  | "usize" => reply (showOutcome toString IntErr.name (tryFromViewWith Gen.Native.tryUsize (parseInt usize) v)
      ++ den (fun t => (intDen t).map toString))
  | "bool" => reply (showOutcome toString (fun _ => "invalid") (tryFromViewWith Gen.Native.tryBool parseBool v)
      ++ den (fun t => (boolDen t).map toString))
  | "f64" => reply (showOutcome showF64 (fun e => match e with | RustF64.Err.empty => "empty" | .invalid => "invalid")
        (tryFromViewWith Gen.Native.tryF64 RustF64.parse v)
      ++ den (fun t => (f64Den t).map (fun d => match d with | some b => hex16 b | none => "nan")))
  | _ => "bad-op"

def optHex (h : String) : Option (Option Str) :=
  if h == "-" then some none else (charsOfHex h).map some

def whitelistStr (cfg : Gen.Native.TryFrom) : String :=
  let names := (cfg.whitelist.map String.ofList).toArray.qsort (· < ·)
  ",".intercalate names.toList

def handle (line : String) : String :=
  match fields line with
  | ["i32", a] => intReply i32 i32Term i32TryFromTerm a
  | ["isize", a] => intReply isize isizeTerm isizeTryFromTerm a
  | ["usize", a] => intReply usize usizeTerm usizeTryFromTerm a
  | ["bool", a] =>
    if a ≠ "0" ∧ a ≠ "1" then "bad-op" else
    let b := a == "1"
    match boolTerm b with
    | .lit lex dt =>
      let back := match boolTryFromTerm (boolTerm b) with
        | .ok v => toString v
        | .error _ => "err:invalid"
      reply [kv "lex" (hexS lex), kv "dt" (hexS dt), kv "back" back, kv "o.back" (toString b),
             kvB "valid" (Xsd.matchesS Xsd.boolean lex), kv "copy.drift" "0"]
    | _ => "bad-model"
  | ["str", h] =>
    match charsOfHex h with
    | none => "bad-hex"
    | some s =>
      match strTerm s with
      | .lit lex dt =>
        let valid := Xsd.matchesS Xsd.string lex
        reply [kv "lex" (hexS lex), kv "dt" (hexS dt), kvB "valid" valid, kv "copy.drift" "0",
               kv "o.lex" (hexS (if valid then lex else invalidMarker "string")), kv "o.back" (hexS s)]
      | _ => "bad-model"
  | ["f64", hb, hl] =>
    match natOfHex hb, charsOfHex hl with
    | some x, some l =>
      if hb.length ≠ 16 then "bad-op" else
      let dt := xsdIri Gen.Native.asF64.datatype
      let valid := Xsd.matchesS Xsd.double l
      if F64.isFinite x then
        -- the lexical form the implementation produced must be valid AND denote x (exact arithmetic)
        let den := Dec.doubleVal l
        let good := valid && den == some (some x)
        -- `h1` is the proof hypothesis H1 (an ASSUMPTION about `core`, not a demand of the property): the
        -- model states it as a constant, the implementation reports what it saw; a difference is a broken tie
        -- ("H1 no longer holds: f64_finite_valid is not applicable"), not a violation with an input
        -- `lex`: what the Lean model of `Display for f64` prints (compared with the implementation's)
        let mlex := match RustF64.display x with | some s => hexS s | none => "model-display-failed"
        reply [kv "cls" "finite", kv "dt" (hexS dt), kv "lex" mlex, kvB "valid" valid,
               kv "h1" "1", kvB "h1.seen" (Xsd.matchesS Xsd.rustFiniteDisplay l), kv "copy.drift" "0",
               kv "o.lex" (hexS (if good then l else invalidMarker "double")),
               kv "o.back" (hex16 x)]
      else
        let cls := if F64.isNaN x then "nan" else if F64.signBit x then "ninf" else "inf"
        -- what the model says the code prints: H3 constants of `Display`, or the special-cased strings
        let mlex : Str := f64Lex Gen.Native.asF64
          (fun y => if F64.isNaN y then "NaN".toList else if F64.signBit y then "-inf".toList else "inf".toList) x
        let want : Xsd.Special := if F64.isNaN x then .nan else if F64.signBit x then .negInf else .posInf
        let canon : Str := match want with
          | .nan => "NaN".toList | .posInf => "INF".toList | .negInf => "-INF".toList
        let good := valid && Xsd.specialVal l == some want
        reply [kv "cls" cls, kv "dt" (hexS dt), kv "lex" (hexS mlex), kvB "valid" valid, kv "copy.drift" "0",
               kv "o.lex" (hexS (if good then l else canon)),
               kv "o.back" (showF64 x)]
    | _, _ => "bad-hex"
  | "parse" :: ty :: rest =>
    match Term.parseAll rest with
    | some (t, []) => parseReply ty t
    | _ => "bad-op"
  | ["foreign", ty, hl, hd] =>
    match optHex hl, optHex hd with
    | some l, some d => foreignReply ty ⟨l, d⟩
    | _, _ => "bad-hex"
  | ["bigf", ty, dtn, hpre, z1, hmid, z2, hpost] =>
    match charsOfHex hpre, z1.toNat?, charsOfHex hmid, z2.toNat?, charsOfHex hpost with
    | some pre, some n1, some mid, some n2, some post =>
      if n1 > 2000000 ∨ n2 > 2000000 then "bad-op" else
      let lex := pre ++ List.replicate n1 '0' ++ mid ++ List.replicate n2 '0' ++ post
      parseReply ty (.lit lex (xsdIri dtn.toList))
    | _, _, _, _, _ => "bad-hex"
  | ["lex", name, h] =>
    match charsOfHex h with
    | none => "bad-hex"
    | some s =>
      let re : Option Re := match name with
        | "integer" => some Xsd.integer
        | "boolean" => some Xsd.boolean
        | "double" => some Xsd.double
        | "decimal" => some Xsd.decimal
        | "string" => some Xsd.string
        | "rustFinite" => some Xsd.rustFiniteDisplay
        | _ => none
      match re with
      | some r => reply [kvB "member" (Xsd.matchesS r s)]
      | none => "bad-op"
  | ["h3"] =>
    let std : F64 → Str := fun y =>
      if F64.isNaN y then "NaN".toList else if F64.signBit y then "-inf".toList else "inf".toList
    let lx := fun x => hexS (f64Lex Gen.Native.asF64 std x)
    let p := fun (s : String) => match RustF64.parse s.toList with
      | .ok v => showF64 v
      | .error _ => "err"
    let shape := match Gen.Native.asF64.lex with
      | .display => "display" | .displaySpecial .. => "special" | .identity => "identity" | .boolTable .. => "bool"
    reply [kv "shape" shape, kv "inf" (lx F64.posInf), kv "ninf" (lx F64.negInf), kv "nan" (lx F64.qNaN),
           kv "nnan" (lx (F64.qNaN + 2 ^ 63)),
           kv "p.inf" (p "inf"), kv "p.-inf" (p "-inf"), kv "p.NaN" (p "NaN"), kv "p.INF" (p "INF"),
           kv "p.-INF" (p "-INF"), kv "p.+INF" (p "+INF"), kv "p.infinity" (p "infinity"), kv "p.nan" (p "nan"),
           kv "i32.min" (toString i32.min), kv "i32.max" (toString i32.max),
           kv "isize.min" (toString isize.min), kv "isize.max" (toString isize.max),
           kv "usize.min" (toString usize.min), kv "usize.max" (toString usize.max)]
  | ["h12", _, _] => reply [kv "h1fail" "0", kv "o.invalid" "0", kv "o.h2fail" "0"]
  | ["wl"] =>
    reply [kv "f64" (whitelistStr Gen.Native.tryF64), kv "i32" (whitelistStr Gen.Native.tryI32),
           kv "isize" (whitelistStr Gen.Native.tryIsize), kv "usize" (whitelistStr Gen.Native.tryUsize),
           kv "bool" (whitelistStr Gen.Native.tryBool)]
  | _ => "bad-op"

abbrev State := Unit
def init : State := ()
def step (_ : State) (line : String) : State × String := ((), handle line)

end SophiaModel.Driver.C20

def main : IO UInt32 := SophiaModel.Proto.runLoop SophiaModel.Driver.C20.init SophiaModel.Driver.C20.step
