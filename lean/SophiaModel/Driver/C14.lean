import SophiaModel.Basic.Proto
import SophiaModel.Model.OrderBy

/-!
Driver for C14 (protocol of harness/props/c14):
  T <n> <term>*n                     one ascending key, n rows
  K <dirs> <nrows> <nkeys> <cell>*   dirs ∈ {A,D}*, cell = term | `-` (unbound)
  S <A|D> <n> <term>*n               big sort
  M <dirs> <nrows> <nkeys> <limit|-> <offset> <cell>*   big multi-key sort (classification only)
  Q <dirs> <nrows> <nkeys> <cell>*   2..20 rows sorted together in the given input order: `out=` the EXACT output order predicted
                                     by `stdSmallSort` (std's insertion sort for <= 20 elements) with `cmpBindingsWith`
  X <P|B|S> <n> <term>*n             one key that is not a plain variable: `?k + 0`, BIND(?k * 1 AS ?b), STR(?k);
                                     reply `o.xv=`: the order SPARQL's `<` gives the key values (oracle only)
Replies: `m=` the rows×rows matrix of outcome letters predicted by `cmpBindingsWith` for the
observable of the harness (l/g/e/x, `?` when the comparison panics; `pp=` counts those cells), `hv=`/`vc=` the value probes
(`tryFromTerm`, `SparqlValue.partialCmp`), and a classification of the triples on which the
comparator is not a preorder (used by the known-finding predicates).
-/
namespace SophiaModel.Driver.C14
open SophiaModel Proto Term OrderBy

abbrev Row := List (Option Term)

def parseCells : Nat → List String → Option (List (Option Term) × List String)
  | 0, toks => some ([], toks)
  | n + 1, toks =>
    match toks with
    | "-" :: rest => (parseCells n rest).map (fun (cs, r) => (none :: cs, r))
    | _ =>
      match Term.parseAll toks with
      | none => none
      | some (t, rest) => (parseCells n rest).map (fun (cs, r) => (some t :: cs, r))

def varName (k : Nat) : Str := ("k" ++ toString k).toList

def rowBinding (r : Row) : Binding :=
  (r.zipIdx).filterMap (fun (c, k) => c.map (fun t => (varName k, t)))

def criteria (dirs : List Bool) : List (Str × Bool) := dirs.zipIdx.map (fun (d, k) => (varName k, d))

def rowPanics (r : Row) : Bool := r.any (fun c => match c with | some t => panics t | none => false)

/-- the observable of the harness for the ordered pair (x, y): is `cmp(x, y) = Less` with the given
flags, and with all flags flipped -/
def letter (dirs : List Bool) (x y : Row) : Char :=
  if rowPanics x || rowPanics y || cmpBindingsPanics (rowBinding x) (rowBinding y) (criteria dirs) then '?' else
  let c1 := cmpBindingsWith (rowBinding x) (rowBinding y) (criteria dirs)
  let c2 := cmpBindingsWith (rowBinding x) (rowBinding y) (criteria (dirs.map (!·)))
  match c1 == .lt, c2 == .lt with
  | true, false => 'l'
  | false, true => 'g'
  | false, false => 'e'
  | true, true => 'x'

def ordLetter : Option Ordering → Char
  | some .lt => 'l' | some .eq => 'e' | some .gt => 'g' | none => 'n'

def hvChar (t : Term) : Char :=
  if panics t then 'P' else if (tryFromTerm t).isSome then '1' else '0'

def vcChar (a b : Term) : Char :=
  if panics a || panics b || sparqlCmpPanics a b then 'P' else
  match tryFromTerm a, tryFromTerm b with
  | some x, some y => ordLetter (x.partialCmp y)
  | _, _ => '-'

/-- exactness class of a numeric value: 1 = integer/decimal (compared exactly), 2 = float/double
(compared exactly among themselves), 0 = not a number -/
def numClass (t : Term) : Nat :=
  match tryFromTerm t with
  | some (.number (.float _)) | some (.number (.double _)) => 2
  | some (.number _) => 1
  | _ => 0

structure Counts where
  cyc : Nat := 0
  tr : Nat := 0
  mixed : Nat := 0
  numtie : Nat := 0
  other : Nat := 0
  /-- rows taking part in some violating triple -/
  bad : Array Bool := #[]

def le (c : Char) : Bool := c == 'l' || c == 'e'

/-- same triple laws as `matrix_laws` of the harness, plus the classification:
`mixed`  – the three pairs are not all compared the same way (value vs `Term::cmp` fallback);
`numtie` – three numbers, all pairs compared by value, not all of one exactness class;
`other`  – anything else (never seen; would be a new defect) -/
def classify (n : Nat) (m : Array Char) (bv : Array Bool) (nc : Array Nat) : Counts := Id.run do
  let mut c : Counts := { bad := Array.replicate n false }
  let cell (i j : Nat) : Char := m[i * n + j]!
  for i in [0:n] do
    for j in [0:n] do
      for k in [0:n] do
        if i == j || j == k || i == k then continue
        let a := cell i j
        let b := cell j k
        let cc := cell i k
        let isCyc := a == 'l' && b == 'l' && cell k i == 'l'
        let isTr := !isCyc && le a && le b && (cc == 'g' || (cc == 'e' && (a == 'l' || b == 'l')))
        if isCyc && !(i < j && i < k) then continue
        if isCyc || isTr then
          if isCyc then c := { c with cyc := c.cyc + 1 } else c := { c with tr := c.tr + 1 }
          c := { c with bad := ((c.bad.set! i true).set! j true).set! k true }
          let v1 := bv[i * n + j]!
          let v2 := bv[j * n + k]!
          let v3 := bv[i * n + k]!
          if !(v1 == v2 && v2 == v3) then c := { c with mixed := c.mixed + 1 }
          else if v1 && nc[i]! != 0 && nc[j]! != 0 && nc[k]! != 0 && !(nc[i]! == nc[j]! && nc[j]! == nc[k]!) then
            c := { c with numtie := c.numtie + 1 }
          else c := { c with other := c.other + 1 }
  return c

/-- out-of-domain: a decimal whose float conversion is not modelled, next to a float/double -/
def oodDecimal (ts : List Term) : Bool :=
  ts.any (fun t => match tryFromTerm t with | some (.number n) => !n.floatConvertible | _ => false) &&
  ts.any (fun t => numClass t == 2)

def cellsOf (rows : List Row) : List Term := rows.flatten.filterMap id

def rowByValue (x y : Row) : Bool :=
  match x, y with
  | [some a], [some b] => byValue a b
  | _, _ => false

def matrixReply (dirs : List Bool) (rows : List Row) (probes : Bool) : String :=
  let ts := cellsOf rows
  if ts.any (fun t => !inDomain t) then "skip=domain"
  else if oodDecimal ts then "skip=ood"
  else
    let n := rows.length
    let ra := rows.toArray
    let m : Array Char := Id.run do
      let mut out := Array.mkEmpty (n * n)
      for i in [0:n] do
        for j in [0:n] do
          out := out.push (letter dirs ra[i]! ra[j]!)
      return out
    let bv : Array Bool := Id.run do
      let mut out := Array.mkEmpty (n * n)
      for i in [0:n] do
        for j in [0:n] do
          out := out.push (rowByValue ra[i]! ra[j]!)
      return out
    let nc : Array Nat := ra.map (fun r => match r with | [some t] => numClass t | _ => 0)
    let c := classify n m bv nc
    -- oracle: where the kind ranks of the first key differ, the lower rank comes first
    let first (r : Row) : Option Term := r.head?.join
    let ko : List Char := (List.range n).flatMap (fun i => (List.range n).map (fun j =>
      match kindRank (first ra[i]!), kindRank (first ra[j]!) with
      | some a, some b =>
        if a < b then
          (if m[i * n + j]! == '?' then '?' else if dirs.head? == some true then 'g' else 'l')
        else '.'
      | _, _ => '.'))
    let base := [kvN "n" n, kv "m" (String.ofList m.toList), kv "o.ko" (String.ofList ko)]
    let vc := ts.flatMap (fun a => ts.map (fun b => vcChar a b))
    -- oracle: where SPARQL's comparison of the two values is defined, ORDER BY uses that outcome
    -- (strict outcomes only: the property does not say how values that are `=` are arranged)
    let mv := vc.map (fun c => if c == 'l' || c == 'g' then c else '.')
    let pr := if probes then
        [kv "hv" (String.ofList (ts.map hvChar)), kv "vc" (String.ofList vc), kv "o.mv" (String.ofList mv)]
      else []
    let pp := (m.toList.filter (· == '?')).length
    reply (base ++ pr ++ [kvN "cyc" c.cyc, kvN "tr" c.tr, kvN "mixed" c.mixed, kvN "numtie" c.numtie,
      kvN "other" c.other, kvN "pp" pp, kv "badix" (String.ofList (c.bad.toList.map (fun b => if b then '1' else '0')))])

/-! ### X requests: keys that are not plain variables (oracle only) -/

def ordChar : Ordering → Char
  | .lt => 'l' | .eq => 'e' | .gt => 'g'

/-- the value of the key expression: `?k + 0` / `?k * 1` keep a number and are an error (unbound key) on
everything else; `STR(?k)` is the lexical form of a literal, the IRI of an IRI, an error otherwise -/
inductive XKey where
  | unbound
  | num (n : SparqlNumber)
  | str (s : Str)

def xkey (strMode : Bool) (t : Term) : XKey :=
  if strMode then
    match t with
    | .iri s => .str s
    | .lit lex _ => .str lex
    | .lang lex _ => .str lex
    | _ => .unbound
  else
    match tryFromTerm t with
    | some (.number n) => .num n
    | _ => .unbound

/-- what the property demands for the ordered pair: unbound first (all unbound equal), then SPARQL's `<` on
the values; `.` where `<`, `=`, `>` are all false (NaN) -/
def xExpected : XKey → XKey → Char
  | .unbound, .unbound => 'e'
  | .unbound, _ => 'l'
  | _, .unbound => 'g'
  | .num a, .num b => match a.partialCmp b with | some o => ordChar o | none => '.'
  | .str a, .str b => ordChar (strCmp a b)
  | _, _ => '.'

def xReply (strMode : Bool) (ts : List Term) : String :=
  let ks := ts.map (xkey strMode)
  if !strMode && oodDecimal ts then "skip=ood" else
  reply [kvN "n" ts.length, kv "o.xv" (String.ofList (ks.flatMap (fun a => ks.map (fun b => xExpected a b))))]

/-- output order (row indices) of `ORDER BY` over at most 20 rows fed in the given order -/
def sortOut (dirs : List Bool) (rows : List Row) : String :=
  let tagged : List (Nat × Binding) := rows.zipIdx.map (fun (r, i) => (i, rowBinding r))
  let sorted := stdSmallSort (fun a b => cmpBindingsWith a.2 b.2 (criteria dirs)) tagged
  ",".intercalate (sorted.map (fun p => toString p.1))

def parseDirs (s : String) : Option (List Bool) :=
  s.toList.mapM (fun c => if c == 'A' then some false else if c == 'D' then some true else none)

def handle (line : String) : String :=
  match fields line with
  | "T" :: ns :: rest =>
    match ns.toNat? with
    | none => "bad-op"
    | some n =>
      match parseCells n rest with
      | none => "bad-hex"
      | some (cells, _) =>
        if n < 2 || cells.any Option.isNone then "bad-op"
        else matrixReply [false] (cells.map (fun c => [c])) true
  | "K" :: ds :: nrs :: nks :: rest =>
    match parseDirs ds, nrs.toNat?, nks.toNat? with
    | some dirs, some nr, some nk =>
      if dirs.length != nk || nk == 0 || nr < 2 then "bad-op" else
      match parseCells (nr * nk) rest with
      | none => "bad-hex"
      | some (cells, _) =>
        let rows := (List.range nr).map (fun i => (cells.drop (i * nk)).take nk)
        matrixReply dirs rows false
    | _, _, _ => "bad-op"
  | "X" :: md :: ns :: rest =>
    match (if md == "P" || md == "B" then some false else if md == "S" then some true else none), ns.toNat? with
    | some strMode, some n =>
      match parseCells n rest with
      | none => "bad-hex"
      | some (cells, _) =>
        if n < 2 || cells.any Option.isNone then "bad-op" else xReply strMode (cells.filterMap id)
    | _, _ => "bad-op"
  | "Q" :: ds :: nrs :: nks :: rest =>
    match parseDirs ds, nrs.toNat?, nks.toNat? with
    | some dirs, some nr, some nk =>
      if dirs.length != nk || nk == 0 || nr < 2 || nr > smallSortMax then "bad-op" else
      match parseCells (nr * nk) rest with
      | none => "bad-hex"
      | some (cells, _) =>
        let rows := (List.range nr).map (fun i => (cells.drop (i * nk)).take nk)
        let ts := cellsOf rows
        if ts.any (fun t => !inDomain t) then "skip=domain"
        else if oodDecimal ts then "skip=ood"
        else if rows.any rowPanics then "skip=panic"
        else reply [kvN "n" nr, kv "out" (sortOut dirs rows), kv "outd" (sortOut (dirs.map (!·)) rows)]
    | _, _, _ => "bad-op"
  | "M" :: ds :: nrs :: nks :: lim :: offs :: rest =>
    match parseDirs ds, nrs.toNat?, nks.toNat?, offs.toNat? with
    | some dirs, some nr, some nk, some _ =>
      if dirs.length != nk || nk == 0 || nr < 2 || !(lim == "-" || lim.toNat?.isSome) then "bad-op" else
      match parseCells (nr * nk) rest with
      | none => "bad-hex"
      | some (cells, _) =>
        let rows := (List.range nr).map (fun i => (cells.drop (i * nk)).take nk)
        let r := matrixReply dirs rows false
        if r.startsWith "skip" then r else
        reply ((fields r).filter (fun f => !(f.startsWith "m=") && !(f.startsWith "o.")))
    | _, _, _, _ => "bad-op"
  | "S" :: d :: ns :: rest =>
    match (if d == "A" then some false else if d == "D" then some true else none), ns.toNat? with
    | some desc, some n =>
      match parseCells n rest with
      | none => "bad-hex"
      | some (cells, _) =>
        if cells.any Option.isNone then "bad-op"
        else
          let r := matrixReply [desc] (cells.map (fun c => [c])) false
          -- the matrix itself is not observable for a big sort: keep the classification only
          if r.startsWith "skip" then r else
          reply ((fields r).filter (fun f => !(f.startsWith "m=") && !(f.startsWith "o.")))
    | _, _ => "bad-op"
  | _ => "bad-op"

abbrev State := Unit
def init : State := ()
def step (_ : State) (line : String) : State × String := ((), handle line)

end SophiaModel.Driver.C14

def main : IO UInt32 := SophiaModel.Proto.runLoop SophiaModel.Driver.C14.init SophiaModel.Driver.C14.step
