import SophiaModel.Basic.Proto
import SophiaModel.Model.Depth
import SophiaModel.Gen.RecursionSites

namespace SophiaModel.Driver.C16
open SophiaModel Proto Depth
open SophiaModel.Gen.RecursionSites

/-- probe sizes of harness/props/c16 (`PROBES`) -/
def probes : List Nat := [100, 400, 1600]

/-- 2 MiB -/
def stackBytes : Nat := 2 * 1024 * 1024
/-- the smallest frame a non-inlined x86-64 call can have: return address + 16-byte alignment -/
def minFrame : Nat := 16

def className : SiteClass → String
  | .loop => "loop"
  | .recursiveOnNesting => "recursiveOnNesting"
  | .selfRecursiveOnData => "selfRecursiveOnData"

def fnName (f : Fn) : String :=
  match (sites.find? (fun s => Fn.ofName s.1 == some f)) with
  | some s => s.1
  | none => "?"

def rank : SiteClass → Nat
  | .loop => 0
  | .recursiveOnNesting => 1
  | .selfRecursiveOnData => 2

/-- classes (from the generated table) of the functions a harness site drives; `none` if the table
lacks one of them -/
def classesOf (fns : List (Fn × Shape)) : Option (List (Fn × Shape × SiteClass)) :=
  fns.mapM (fun fs => (classOf sites fs.1).map (fun c => (fs.1, fs.2, c)))

def worst (cs : List (Fn × Shape × SiteClass)) : SiteClass :=
  cs.foldl (fun w fc => if rank fc.2.2 > rank w then fc.2.2 else w) .loop

/-- model depth of a harness site at size `n`: the deepest of its functions -/
def depthAt (cs : List (Fn × Shape × SiteClass)) (n : Nat) : Nat :=
  cs.foldl (fun d fc => max d (siteDepth fc.1 fc.2.2 fc.2.1 n)) 1

/-- at least one more active call per additional element over both increments of the probe sizes ⇒
linear (the harness applies the same rule to the measured extents, with 16 bytes per call) -/
def isLinear (cs : List (Fn × Shape × SiteClass)) : Bool :=
  match probes.map (depthAt cs) with
  | [a, b, c] => b ≥ a + (400 - 100) && c ≥ b + (1600 - 400)
  | _ => false

def growthOf (cs : List (Fn × Shape × SiteClass)) : String := if isLinear cs then "linear" else "constant"

def handle (line : String) : String :=
  match fields line with
  | ["run", site, size, profile] =>
    match harnessFns site, (if size.startsWith "n=" then (size.drop 2).toNat? else none) with
    | some fns, some n =>
      if profile != "dev" && profile != "release" then "bad-op" else
      match classesOf fns with
      | none => reply [kv "site" site, kv "class" "missing"]
      | some cs =>
        let w := worst cs
        let dev := profile == "dev"
        let lin := isLinear cs
        -- the frame-per-call assumption is made for unoptimised builds only; release is observed
        let growth := if dev then [kv "growth" (growthOf cs)] else []
        let predicted := if dev && lin && minFrame * n > stackBytes then [kv "outcome" "abort"] else []
        -- the functions behind this site that the table classifies as data recursion
        let recs := (cs.filter (fun fc => isRec fc.2.2)).map (fun fc => fnName fc.1)
        reply ([kv "site" site, kv "buildfail" "0", kv "class" (className w),
                kv "rec" (if recs.isEmpty then "-" else ",".intercalate recs),
                -- the child came back (no CPU limit, no kill) and processed all `size` elements
                kv "completed" "yes"] ++ (if lin then [] else [kv "work" "ok"]) ++ growth ++
          (probes.zipIdx.map (fun (p, i) => kvN s!"depth{i + 1}" (depthAt cs p))) ++ predicted ++ [kv "o.outcome" "ok"])
    | _, _ => "bad-op"
  | ["site", name, n] =>
    match harnessFns name, n.toNat? with
    | some fns, some n =>
      match classesOf fns with
      | none => reply [kv "site" name, kv "class" "missing"]
      | some cs =>
        -- the recursive formulations are not tail calls: keep the model's own evaluation small
        let n := min n 5000
        reply [kv "site" name, kv "class" (className (worst cs)), kvN "depth" (depthAt cs n),
               kv "growth" (growthOf cs), kvB "any_data_recursion" (sites.any (fun s => isRec s.2))]
    | _, _ => "bad-op"
  | _ => "bad-op"

abbrev State := Unit
def init : State := ()
def step (_ : State) (line : String) : State × String := ((), handle line)

end SophiaModel.Driver.C16

def main : IO UInt32 := SophiaModel.Proto.runLoop SophiaModel.Driver.C16.init SophiaModel.Driver.C16.step
