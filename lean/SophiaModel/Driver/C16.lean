import SophiaModel.Basic.Proto
import SophiaModel.Model.Depth
import SophiaModel.Gen.RecursionSites

namespace SophiaModel.Driver.C16
open SophiaModel Proto Depth
open SophiaModel.Gen.RecursionSites

/-- probe sizes of harness/props/c16 (`PROBE_SMALL`, `PROBE_LARGE`) -/
def probeSmall : Nat := 100
def probeLarge : Nat := 1000

/-- 2 MiB -/
def stackBytes : Nat := 2 * 1024 * 1024
/-- the smallest frame a non-inlined x86-64 call can have: return address + 16-byte alignment -/
def minFrame : Nat := 16

def className : SiteClass → String
  | .loop => "loop"
  | .recursiveOnNesting => "recursiveOnNesting"
  | .selfRecursiveOnData => "selfRecursiveOnData"

def fnName (f : Fn) : String :=
  match (sites.find? (fun s => Fn.ofName s.1 == some f)) with
  | some s => s.1
  | none => "?"

def rank : SiteClass → Nat
  | .loop => 0
  | .recursiveOnNesting => 1
  | .selfRecursiveOnData => 2

/-- classes (from the generated table) of the functions a harness site drives; `none` if the table
lacks one of them -/
def classesOf (fns : List Fn) : Option (List (Fn × SiteClass)) :=
  fns.mapM (fun f => (classOf sites f).map (fun c => (f, c)))

def worst (cs : List (Fn × SiteClass)) : SiteClass :=
  cs.foldl (fun w fc => if rank fc.2 > rank w then fc.2 else w) .loop

/-- model depth of a harness site at size `n`: the deepest of its functions -/
def depthAt (cs : List (Fn × SiteClass)) (n : Nat) : Nat :=
  cs.foldl (fun d fc => max d (siteDepth fc.1 fc.2 n)) 1

/-- at least one more active call per additional element ⇒ linear -/
def growthOf (cs : List (Fn × SiteClass)) : String :=
  if depthAt cs probeLarge ≥ depthAt cs probeSmall + (probeLarge - probeSmall) then "linear" else "constant"

/-- canonical result of the operation (number of matches / escapes written / solutions / list items /
statements): the harness families are built so that it equals the size, except for the scans -/
def resultOf (site : String) (n : Nat) : Option Nat :=
  if site.startsWith "iter_" then some <|
    -- computed with the loop formulation (equal to the recursive one by `next_rec_eq_next_loop`):
    -- exactly one row is yielded
    let k := 2
    let r := nextLoop (famMs k n) (famCache k ⟨0, true⟩) (famRows k n)
    let r2 := nextLoop (famMs k n) r.cache r.rest
    (if r.item.isSome then 1 else 0) + (if r2.item.isSome then 1 else 0)
  else if site == "nt_literal" then some <|
    ((quotedStringLoop (List.replicate n '\n')).1.filter (· == '\\')).length
  -- `acc ++ r` makes the two list-valued loop models quadratic: evaluated for small sizes only
  else if site == "sparql_graph" then
    if n > 5000 then none else some <|
    match (graphLoop (fun g => (.ok [g] : Except Unit (List Nat))) (List.range n)).1 with
    | .ok l => l.length
    | .error _ => 0
  else if site == "jsonld_list" then
    if n > 5000 then none else some <|
    match (populateListLoop (fun i => (.ok i : Except Unit Nat)) [] (List.range n)).1 with
    | .ok l => l.length
    | .error _ => 0
  else some n

def handle (line : String) : String :=
  match fields line with
  | ["run", site, size, profile] =>
    match harnessFns site, size.toNat? with
    | some fns, some n =>
      if profile != "dev" && profile != "release" then "bad-op" else
      match classesOf fns with
      | none => reply [kv "site" site, kv "class" "missing"]
      | some cs =>
        let w := worst cs
        let dev := profile == "dev"
        -- the frame-per-call assumption is made for unoptimised builds only; release is observed
        let growth := if dev then [kv "growth" (growthOf cs)] else []
        let predicted :=
          if dev && w == .selfRecursiveOnData && minFrame * n > stackBytes then [kv "outcome" "abort"] else []
        -- the functions behind this site that the table classifies as data recursion
        let recs := (cs.filter (fun fc => isRec fc.2)).map (fun fc => fnName fc.1)
        reply ([kv "site" site, kv "buildfail" "0", kv "class" (className w),
                kv "rec" (if recs.isEmpty then "-" else ",".intercalate recs)] ++ growth ++
          [kvN "depth_small" (depthAt cs probeSmall), kvN "depth_large" (depthAt cs probeLarge)] ++ (match resultOf site n with | some r => [kvN "result" r] | none => []) ++ predicted ++ [kv "o.outcome" "ok"])
    | _, _ => "bad-op"
  | ["site", name, n] =>
    match harnessFns name, n.toNat? with
    | some fns, some n =>
      match classesOf fns with
      | none => reply [kv "site" name, kv "class" "missing"]
      | some cs =>
        -- the recursive formulations are not tail calls: keep the model's own evaluation small
        let n := min n 5000
        reply [kv "site" name, kv "class" (className (worst cs)), kvN "depth" (depthAt cs n),
               kv "growth" (growthOf cs), kvB "any_data_recursion" (sites.any (fun s => isRec s.2))]
    | _, _ => "bad-op"
  | _ => "bad-op"

abbrev State := Unit
def init : State := ()
def step (_ : State) (line : String) : State × String := ((), handle line)

end SophiaModel.Driver.C16

def main : IO UInt32 := SophiaModel.Proto.runLoop SophiaModel.Driver.C16.init SophiaModel.Driver.C16.step
