import SophiaModel.Basic.TermOrder
import SophiaModel.Model.NT

/-!
C03 driver.  Requests:

  ds <nt|nq> <quad>*   the model's serialisation of the dataset (`out=`, compared byte for byte with
                       NtSerializer / NqSerializer), what the property demands of the real parsers on
                       it (`o.rt=1 o.rt_gnq=1 o.lines=n o.nl_end=1`) when the dataset is in the
                       property's domain (toolkit-valid terms, strict positions, BCP 47 tags), and the
                       classification itself (`valid= bcp=`, compared with the real validators)
  p <nt|nq> <hexdoc>   the grammar reader on an arbitrary document: `ok=0`, or `ok=1 quads=<hex>`
                       (canonical rendering, tags lower-cased) — or `m.ok=… skip=<why>` where the
                       comparison with Rio is not meaningful (documented systematic differences)
  e <hex>              `quoted_string` alone: `q=<hex>`, `o.back=<hex>` (what must come back)
  search               model search for a shortest text that does not survive escape + unescape
-/
namespace SophiaModel.Driver.C03
open SophiaModel Proto NT

def parseQuads : Nat → List String → Option (List Quad)
  | 0, _ => none
  | _ + 1, [] => some []
  | n + 1, toks =>
    match Quad.parse toks with
    | none => none
    | some (q, r) => (parseQuads n r).map (q :: ·)

/-- language tags compare case-insensitively (RDF 1.1 Concepts §3.3; `LanguageTag::eq` folds
ASCII case, Rio lower-cases what it reads): the canonical rendering folds them -/
def canonT : Term → Term
  | .lang l t => .lang l (foldTag t)
  | .triple s p o => .triple (canonT s) (canonT p) (canonT o)
  | t => t

def canonQ (q : Quad) : Quad := ⟨canonT q.s, canonT q.p, canonT q.o, q.g.map canonT⟩

def renderQuads (qs : List Quad) : String := ";".intercalate (qs.map (fun q => (canonQ q).render))

/-- a CR that is not followed by LF -/
def hasLoneCr : Str → Bool
  | [] => false
  | c :: r => (c = '\r' && (match r with | '\n' :: _ => false | _ => true)) || hasLoneCr r

def handle (line : String) : String :=
  match fields line with
  | "ds" :: mode :: rest =>
    match parseQuads (rest.length + 1) rest with
    | none => "bad-op"
    | some d =>
      let nq := mode == "nq"
      if !nq && d.any (fun q => q.g.isSome) then "bad-op"
      else if d.any quadPanics then "out=panic"
      else
        let out := writeDoc d
        let valid := d.all (fun q => quadAll termValid q && strictQuad q)
        let bcp := d.all (quadAll termBcp)
        let wf := d.all quadOk
        reply ([kv "out" (hexOfChars out), kvB "valid" valid, kvB "bcp" bcp, kvB "wf" wf,
                kvB "mrt" (readDoc nq out == some d)]
          ++ (if wf then [kvN "o.lines" d.length, "o.nl_end=1"] else [])
          ++ (if valid && bcp then
                (if wf then ["o.rt=1", "o.rt_gnq=1"] else ["o.rt=model-wf-gap"])
              else []))
  | ["p", mode, h] =>
    match charsOfHex h with
    | none => "bad-hex"
    | some doc =>
      let nq := mode == "nq"
      let cr := hasLoneCr doc
      match readDoc nq doc with
      | none => if cr then "m.ok=0 skip=lone-cr" else "ok=0"
      | some qs =>
        if cr then "m.ok=1 skip=lone-cr"
        else if !(qs.all (quadAll termValid)) then "m.ok=1 skip=validators"
        else if !(qs.all (quadAll termBcp)) then "m.ok=1 skip=bcp47"
        else reply [kv "ok" "1", kvN "n" qs.length, kv "quads" (hexOfString (renderQuads qs))]
  | ["e", h] =>
    match charsOfHex h with
    | none => "bad-hex"
    | some s =>
      -- `q` is computed by the control-flow mirror of the source's loop (`quotedStringRs`), which
      -- `quoted_rs_eq` proves equal to the char-wise `quotedString` the other theorems are about
      match quotedStringRs s with
      | none => "q=panic"
      | some q => reply [kv "q" (hexOfChars q), kv "o.back" (hexOfChars s),
                         kvB "mback" (unescape (quotedString s) == some s), kvB "meq" (q == quotedString s)]
  | ["search"] =>
    -- model search: shortest strings over the critical alphabet whose escaped form does not read
    -- back (non-empty only if the regenerated escape table broke `unescape_quoted`)
    let alpha : List Char := ['"', '\\', '\n', '\r', 'a', '\t', Char.ofNat 0, 'n', 'u']
    let w1 := alpha.map (fun c => [c])
    let w2 := alpha.flatMap (fun c => w1.map (c :: ·))
    let w3 := alpha.flatMap (fun c => w2.map (c :: ·))
    let bad := ([] :: w1 ++ w2 ++ w3).filter (fun s => quotedPanics s || unescape (quotedString s) != some s)
    if bad.isEmpty then "bad=none" else reply [kv "bad" (",".intercalate ((bad.take 12).map hexOfChars))]
  | _ => "bad-op"

abbrev State := Unit
def init : State := ()
def step (_ : State) (line : String) : State × String := ((), handle line)

end SophiaModel.Driver.C03

def main : IO UInt32 := SophiaModel.Proto.runLoop SophiaModel.Driver.C03.init SophiaModel.Driver.C03.step
