import SophiaModel.Basic.TermOrder
import SophiaModel.Model.NT
import SophiaModel.Gen.NtAscii

/-!
C03 driver.  Requests:

  ds <nt|nq>[:opt,..] <quad>*
                       the model's serialisation of the dataset (`out=`, compared byte for byte with
                       NtSerializer / NqSerializer), what the property demands of the real parsers on
                       it (`o.rt=1 o.rt_gnq=1 o.rt_buf=1 o.rt_pipe=1 o.lines=n o.nl_end=1`) when the
                       dataset is in the property's domain (toolkit-valid terms, strict positions,
                       BCP 47 tags), and the classification itself (`valid= bcp=`, compared with the
                       real validators).  Options: `ascii` (`out=panic` as long as the source says
                       `todo!()` — generated flags `Gen.ntAsciiTodo/nqAsciiTodo` —, afterwards only
                       the oracles: what the option promises about the bytes is not C03's business); `set` (a set container: exact duplicates
                       collapse, `out` is the sorted sequence of lines); `fail<n>` (a sink that takes
                       n bytes: `out=err` iff the document is longer); `src coll vec bufw short<k>`
                       change nothing that is observable
  rd <nt|nq>[:s] <hexdoc> <quad>*
                       the grammar reader on bytes the REAL serializer wrote for these quads:
                       `o.reads=<hex>` must be exactly those quads (`:s`: as a sorted collection)
  nat <kind> <hex> <term>
                       `write_term` on a non-SimpleTerm value that shows itself as <term>
  p <nt|nq> <hexdoc>   the grammar reader on an arbitrary document: `ok=0`, or `ok=1 quads=<hex>`
                       (canonical rendering, tags lower-cased) — or `m.ok=… skip=<why>` where the
                       comparison with Rio is not meaningful (documented systematic differences)
  e <hex>              `quoted_string` alone: `q=<hex>`, `o.back=<hex>` (what must come back)
  search               model search for a shortest text that does not survive escape + unescape
-/
namespace SophiaModel.Driver.C03
open SophiaModel Proto NT

def parseQuads : Nat → List String → Option (List Quad)
  | 0, _ => none
  | _ + 1, [] => some []
  | n + 1, toks =>
    match Quad.parse toks with
    | none => none
    | some (q, r) => (parseQuads n r).map (q :: ·)

/-- language tags compare case-insensitively (RDF 1.1 Concepts §3.3; `LanguageTag::eq` folds
ASCII case, Rio lower-cases what it reads): the canonical rendering folds them -/
def canonT : Term → Term
  | .lang l t => .lang l (foldTag t)
  | .triple s p o => .triple (canonT s) (canonT p) (canonT o)
  | t => t

def canonQ (q : Quad) : Quad := ⟨canonT q.s, canonT q.p, canonT q.o, q.g.map canonT⟩

def renderQuads (qs : List Quad) : String := ";".intercalate (qs.map (fun q => (canonQ q).render))

/-- a CR that is not followed by LF -/
def hasLoneCr : Str → Bool
  | [] => false
  | c :: r => (c = '\r' && (match r with | '\n' :: _ => false | _ => true)) || hasLoneCr r

/-- split at every occurrence of `sep` -/
def splitAt (sep : Char) : Str → List Str
  | [] => [[]]
  | c :: s =>
    if c = sep then [] :: splitAt sep s
    else match splitAt sep s with
      | h :: t => (c :: h) :: t
      | [] => [[c]]

def natOfDigits (cs : Str) : Option Nat :=
  if cs.isEmpty || !cs.all Char.isDigit then none
  else some (cs.foldl (fun a c => a * 10 + (c.toNat - 48)) 0)

def stripPrefix (p : String) (s : Str) : Option Str :=
  if p.toList.isPrefixOf s then some (s.drop p.length) else none

structure Opts where
  nq : Bool
  ascii : Bool := false
  set : Bool := false
  fail : Option Nat := none

def applyOpt (o : Opts) (x : Str) : Option Opts :=
  if x = "ascii".toList then some { o with ascii := true }
  else if x = "set".toList then some { o with set := true }
  else if x = "src".toList || x = "coll".toList || x = "vec".toList || x = "bufw".toList then some o
  else match stripPrefix "short" x with
    | some k => (natOfDigits k).bind fun k => if k = 0 then none else some o
    | none =>
      match stripPrefix "fail" x with
      | some n => (natOfDigits n).map fun n => { o with fail := some n }
      | none => none

def parseOpts (tok : String) : Option Opts :=
  match splitAt ':' tok.toList with
  | m :: rest =>
    let base : Option Opts :=
      if m = "nq".toList then some { nq := true } else if m = "nt".toList then some { nq := false } else none
    match base, rest with
    | some o, [] => some o
    | some o, [r] => ((splitAt ',' r).filter (fun x => !x.isEmpty)).foldl (fun acc x => acc.bind (applyOpt · x)) (some o)
    | _, _ => none
  | [] => none

/-- code point order = byte order of the UTF-8 encodings -/
def strLe : Str → Str → Bool
  | [], _ => true
  | _ :: _, [] => false
  | a :: s, b :: t => a.toNat < b.toNat || (a == b && strLe s t)

def handleDs (o : Opts) (d0 : List Quad) : String :=
  let nq := o.nq
  let valid := d0.all (fun q => quadAll termValid q && strictQuad q)
  let bcp := d0.all (quadAll termBcp)
  let cls := [kvB "valid" valid, kvB "bcp" bcp]
  let todo := if nq then Gen.nqAsciiTodo else Gen.ntAsciiTodo
  if o.ascii && todo then reply ("out=panic" :: cls)        -- `todo!("Pure-ASCII … is not implemented yet")`
  else if d0.any quadPanics then reply ("out=panic" :: cls)
  else
    -- a set container holds each quad once
    let d := if o.set then d0.eraseDups else d0
    -- the bytes are those of the writer interpreted from the generated op tables (`writeDocT`), which
    -- `writeDocT_eq` proves equal to the `writeDoc` of the round-trip theorems
    let out := writeDocT nq d
    let shown := if o.set then ((d.map (writeQuadT nq)).mergeSort strLe).flatten else out
    let tooLong := match o.fail with
      | some n => (sinkRun n [utf8 out]).isNone      -- any chunking gives the same verdict (`sink_ok_iff`)
      | none => false
    if tooLong then reply ("out=err" :: cls)
    else if o.fail.isSome then
      -- whether the document fits depends on its length, i.e. on its spelling: bytes only, no oracle
      reply (kv "out" (hexOfChars shown) :: cls)
    else
      let wf := d.all quadOk
      reply ((if o.ascii then [] else [kv "out" (hexOfChars shown)])
        ++ cls ++ [kvB "wf" wf, kvB "mrt" (readDoc nq out == some d)]
        ++ (if wf then [kvN "o.lines" d.length, "o.nl_end=1"] else [])
        ++ (if valid && bcp then
              (if wf then ["o.rt=1", "o.rt_gnq=1", "o.rt_buf=1", "o.rt_pipe=1"]
               else ["o.rt=model-wf-gap"])
            else []))

def renderExact (sorted : Bool) (qs : List Quad) : String :=
  let v := qs.map (fun q => q.render.toList)
  let v := if sorted then v.mergeSort strLe else v
  ";".intercalate (v.map String.ofList)

def handle (line : String) : String :=
  match fields line with
  | "ds" :: mode :: rest =>
    match parseOpts mode, parseQuads (rest.length + 1) rest with
    | some o, some d =>
      if !o.nq && d.any (fun q => q.g.isSome) then "bad-op" else handleDs o d
    | _, _ => "bad-op"
  | "rd" :: mode :: h :: rest =>
    match charsOfHex h, parseQuads (rest.length + 1) rest with
    | some doc, some d =>
      let nq := mode.startsWith "nq"
      let sorted := mode.endsWith ":s"
      let inDomain := d.all (fun q => quadAll termValid q && strictQuad q && quadAll termBcp q)
      let got := match readDoc nq doc with
        | none => "reject"
        | some qs => hexOfString (renderExact sorted qs)
      reply [kv (if inDomain then "o.reads" else "m.reads") got, kvB "same" (got == hexOfString (renderExact sorted d))]
    | _, _ => "bad-op"
  | "nat" :: _kind :: _h :: rest =>
    match Term.parseAll rest with
    | some (t, []) =>
      if termPanics t then "out=panic"
      else reply ([kv "out" (hexOfChars (writeTermT t)), kv "seen" (hexOfString t.render)]
        ++ (if termOk t && posOk .obj t then ["o.rt=1"] else []))
    | _ => "bad-op"
  | ["p", mode, h] =>
    match charsOfHex h with
    | none => "bad-hex"
    | some doc =>
      let nq := mode == "nq"
      let cr := hasLoneCr doc
      match readDoc nq doc with
      | none => if cr then "m.ok=0 skip=lone-cr" else "ok=0"
      | some qs =>
        if cr then "m.ok=1 skip=lone-cr"
        else if !(qs.all (quadAll termValid)) then "m.ok=1 skip=validators"
        else if !(qs.all (quadAll termBcp)) then "m.ok=1 skip=bcp47"
        else reply [kv "ok" "1", kvN "n" qs.length, kv "quads" (hexOfString (renderQuads qs))]
  | ["e", h] =>
    match charsOfHex h with
    | none => "bad-hex"
    | some s =>
      -- `q` is computed by the control-flow mirror of the source's loop run on the UTF-8 BYTES of the
      -- text (`quotedBytesRs`), which `quoted_bytes_eq` proves equal to the encoding of the char-wise
      -- `quotedString` the other theorems are about (`quoted_rs_eq`: same for the scalar-value loop)
      match quotedBytesRs (utf8 s), quotedStringRs s with
      | some q, some q' =>
        reply [kv "q" (hexOfBytes q.toByteArray), kv "o.back" (hexOfChars s),
               kvB "mback" (unescape (quotedString s) == some s),
               kvB "meq" (q == utf8 (quotedString s) && q' == quotedString s)]
      | _, _ => "q=panic"
  | ["search"] =>
    -- model search: shortest strings over the critical alphabet whose escaped form does not read
    -- back (non-empty only if the regenerated escape table broke `unescape_quoted`)
    let alpha : List Char := ['"', '\\', '\n', '\r', 'a', '\t', Char.ofNat 0, 'n', 'u']
    let w1 := alpha.map (fun c => [c])
    let w2 := alpha.flatMap (fun c => w1.map (c :: ·))
    let w3 := alpha.flatMap (fun c => w2.map (c :: ·))
    let bad := ([] :: w1 ++ w2 ++ w3).filter (fun s => quotedPanics s || unescape (quotedString s) != some s)
    if bad.isEmpty then "bad=none" else reply [kv "bad" (",".intercalate ((bad.take 12).map hexOfChars))]
  | _ => "bad-op"

abbrev State := Unit
def init : State := ()
def step (_ : State) (line : String) : State × String := ((), handle line)

end SophiaModel.Driver.C03

def main : IO UInt32 := SophiaModel.Proto.runLoop SophiaModel.Driver.C03.init SophiaModel.Driver.C03.step
