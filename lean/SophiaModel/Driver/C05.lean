import SophiaModel.Model.Rdfc10Run

namespace SophiaModel.Driver.C05

/-- see `Model/Rdfc10Run.lean` for the protocol; C05 compares the implementation with its model only (the metamorphic oracle runs on the Rust side) -/
abbrev State := Unit
def init : State := ()
def step (_ : State) (line : String) : State × String := ((), SophiaModel.Rdfc10Run.handle false line)

end SophiaModel.Driver.C05

def main : IO UInt32 := SophiaModel.Proto.runLoop SophiaModel.Driver.C05.init SophiaModel.Driver.C05.step
