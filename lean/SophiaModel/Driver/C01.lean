import SophiaModel.Model.Store
import SophiaModel.Gen.IndexTable

/-!
Line protocol for C01 (reused by C10/C11): a history of operations on one in-memory store.
The reply carries the implementation-model's answer (`k=v`) and the specification's (`o.k=v`).
-/
namespace SophiaModel.Driver.C01
open SophiaModel Proto Term Store

/-! ### parsing matchers (prefix notation) -/

def parseKind : String → Option Kind
  | "iri" => some .iri | "bnode" => some .bnode | "literal" => some .literal
  | "triple" => some .triple | "variable" => some .variable | _ => none

def parseTerms (fuel : Nat) : Nat → List String → Option (List Term × List String)
  | 0, toks => some ([], toks)
  | k + 1, toks => do
    let (t, r) ← Term.parse fuel toks
    let (ts, r') ← parseTerms fuel k r
    pure (t :: ts, r')

def parseTM : Nat → List String → Option (TM × List String)
  | 0, _ => none
  | fuel + 1, toks =>
    match toks with
    | "A" :: r => some (.any, r)
    | "N" :: r => some (.opt none, r)
    | "O" :: r => do let (t, r') ← Term.parse (fuel + 1) r; pure (.opt (some t), r')
    | "S" :: k :: r => do
      let n ← k.toNat?
      let (ts, r') ← parseTerms (fuel + 1) n r
      pure (.arr ts, r')
    | "R" :: k :: r => do          -- fixed-size array: same matcher semantics as a slice
      let n ← k.toNat?
      let (ts, r') ← parseTerms (fuel + 1) n r
      pure (.arr ts, r')
    | "K" :: k :: r => do let kk ← parseKind k; pure (.kind kk, r)
    | "!" :: r => do let (m, r') ← parseTM fuel r; pure (.not m, r')
    | "D" :: h :: r => do let s ← charsOfHex h; pure (.dt s, r)
    | "L" :: h :: r => do let s ← charsOfHex h; pure (.lang s, r)
    | "T" :: r => do
      let (a, r1) ← parseTM fuel r
      let (b, r2) ← parseTM fuel r1
      let (c, r3) ← parseTM fuel r2
      pure (.tri a b c, r3)
    | "F" :: p :: r => do let n ← p.toNat?; pure (.fn n, r)
    | _ => none

def parseGName (fuel : Nat) : List String → Option (GName × List String)
  | "-" :: r => some (none, r)
  | toks => do let (t, r) ← Term.parse fuel toks; pure (some t, r)

def parseGNames (fuel : Nat) : Nat → List String → Option (List GName × List String)
  | 0, toks => some ([], toks)
  | k + 1, toks => do
    let (g, r) ← parseGName fuel toks
    let (gs, r') ← parseGNames fuel k r
    pure (g :: gs, r')

def parseGM : Nat → List String → Option (GM × List String)
  | 0, _ => none
  | fuel + 1, toks =>
    match toks with
    | "GA" :: r => some (.any, r)
    | "GN" :: r => some (.opt none, r)
    | "GO" :: r => do let (g, r') ← parseGName (fuel + 1) r; pure (.opt (some g), r')
    | "GS" :: k :: r => do
      let n ← k.toNat?
      let (gs, r') ← parseGNames (fuel + 1) n r
      pure (.arr gs, r')
    | "GR" :: k :: r => do
      let n ← k.toNat?
      let (gs, r') ← parseGNames (fuel + 1) n r
      pure (.arr gs, r')
    | "GK" :: "none" :: r => some (.kind none, r)
    | "GK" :: k :: r => do let kk ← parseKind k; pure (.kind (some kk), r)
    | "G!" :: r => do let (m, r') ← parseGM fuel r; pure (.not m, r')
    | "GT" :: "none" :: r => some (.tri none, r)
    | "GT" :: r => do
      let (a, r1) ← parseTM (fuel + 1) r
      let (b, r2) ← parseTM (fuel + 1) r1
      let (c, r3) ← parseTM (fuel + 1) r2
      pure (.tri (some (a, b, c)), r3)
    | "GF" :: p :: r => do let n ← p.toNat?; pure (.fn n, r)
    | "Gm" :: r => do let (m, r') ← parseTM (fuel + 1) r; pure (.gn m, r')
    | _ => none

/-- pattern in API order `s p o [g]`; canonical order is `[g, s, p, o]` resp. `[s, p, o]` -/
def parsePat (n : Nat) (toks : List String) : Option Pat := do
  let fuel := toks.length + 2
  let (sm, r1) ← parseTM fuel toks
  let (pm, r2) ← parseTM fuel r1
  let (om, r3) ← parseTM fuel r2
  if n = 4 then
    let (gm, r4) ← parseGM fuel r3
    if r4.isEmpty then pure ⟨[gm, .gn sm, .gn pm, .gn om]⟩ else none
  else
    if r3.isEmpty then pure ⟨[.gn sm, .gn pm, .gn om]⟩ else none

def parseQuads (toks : List String) : Option (List Quad) :=
  let groups := toks.foldr (fun t acc => if t == "|" then [] :: acc else
    match acc with
    | [] => [[t]]
    | x :: xs => (t :: x) :: xs) [[]]
  (groups.filter (fun g => !g.isEmpty)).mapM (fun g => match Quad.parse g with
    | some (q, []) => some q
    | _ => none)

/-! ### rendering -/

def sortStrings (l : List String) : List String := (l.toArray.qsort (· < ·)).toList

def renderQuad (n : Nat) (q : Quad) : String :=
  let s := if n = 4 then q.render else (q.s.render ++ " " ++ q.p.render ++ " " ++ q.o.render)
  s.map (fun c => if c == ' ' then ',' else c)

def renderQuads (n : Nat) (qs : List Quad) : String :=
  match sortStrings (qs.map (renderQuad n)) with
  | [] => "_"
  | l => ";".intercalate l

def dedupStrings : List String → List String
  | a :: b :: r => if a == b then dedupStrings (b :: r) else a :: dedupStrings (b :: r)
  | l => l

def renderTerms (ts : List Term) : String :=
  match dedupStrings (sortStrings (ts.map (fun t => t.render.map (fun c => if c == ' ' then ',' else c)))) with
  | [] => "_"
  | l => ";".intercalate l

/-! ### state: implementation model + specification side by side -/

/-- `model`: indexed store model + spec side by side; `specSet`: std `HashSet`/`BTreeSet` of quads
(the specification itself, given lawful `Eq/Hash/Ord` of the element type: property C02);
`specVec`: `Vec<Spog<T>>` = the corresponding list (push; remove = drop every occurrence;
flags "not significant": the shipped impl always answers `true`) -/
inductive Mode | model | specSet | specVec
  deriving Inhabited, DecidableEq

structure State where
  mode : Mode := .model
  desc : StoreDesc
  st : St
  spec : List Quad
  deriving Inhabited

def init : State := { desc := Gen.genericLightDataset, st := St.new Gen.genericLightDataset.shape Gen.maxU32, spec := [] }

def normQ (n : Nat) (q : Quad) : Quad := if n = 4 then q else { q with g := none }

/-- enumerations of `api/src/{dataset,graph}.rs`, as images of a quad list -/
def enumOf (n : Nat) (which : String) (qs : List Quad) : Option (List Term) :=
  let comps (q : Quad) : List Term := if n = 4 then Store.spog q else [q.s, q.p, q.o]
  match which with
  | "subjects" => some (qs.map (·.s))
  | "predicates" => some (qs.map (·.p))
  | "objects" => some (qs.map (·.o))
  | "graphs" => some (qs.filterMap (·.g))
  | "iris" => some ((qs.flatMap comps).flatMap atoms |>.filter (fun t => t.kind == .iri))
  | "bnodes" => some ((qs.flatMap comps).flatMap atoms |>.filter (fun t => t.kind == .bnode))
  | "literals" => some ((qs.flatMap comps).flatMap atoms |>.filter (fun t => t.kind == .literal))
  | "vars" => some ((qs.flatMap comps).flatMap atoms |>.filter (fun t => t.kind == .variable))
  | "qtriples" => some ((qs.flatMap comps).flatMap constituents |>.filter (fun t => t.kind == .triple))
  | _ => none

/-- terms are compared up to `Term::eq`: render a canonical representative (folded tags) so that
both sides print the same text for equal terms -/
def canonTerm : Term → Term
  | .lang l t => .lang l (foldTag t)
  | .triple s p o => .triple (canonTerm s) (canonTerm p) (canonTerm o)
  | t => t

def canonQuad (q : Quad) : Quad := ⟨canonTerm q.s, canonTerm q.p, canonTerm q.o, q.g.map canonTerm⟩

def specRemoveAll (d : List Quad) : List Quad → Nat → List Quad × Nat
  | [], c => (d, c)
  | q :: qs, c =>
    let (d', b) := Spec.remove d q
    specRemoveAll d' qs (if b then c + 1 else c)

/-- `insert_all` on model and specification in lockstep; stops where the model reports index-full -/
def insertAllBoth (st : St) (d : List Quad) : List Quad → Nat → Nat → St × List Quad × Option (Nat × Nat)
  | [], c, sc => (st, d, some (c, sc))
  | q :: qs, c, sc =>
    match Store.insert st q with
    | (st', none) => (st', d, none)
    | (st', some b) =>
      let (d', sb) := Spec.insert d q
      insertAllBoth st' d' qs (if b then c + 1 else c) (if sb then sc + 1 else sc)

/-- std collections: answers come from the specification only -/
def stepSpec (s : State) (line : String) : State × String :=
  let n := 4
  let vec := s.mode == .specVec
  let ins (d : List Quad) (q : Quad) : List Quad × Bool := if vec then (d ++ [q], true) else Spec.insert d q
  let rem (d : List Quad) (q : Quad) : List Quad × Bool :=
    if vec then (d.filter (fun x => !quadEq x q), true) else Spec.remove d q
  match fields line with
  | "ins" :: rest =>
    match Quad.parse rest with
    | some (q, []) => let (d, b) := ins s.spec q; ({ s with spec := d }, reply [kvB "r" b, kvB "o.r" b])
    | _ => (s, "bad-op")
  | "rem" :: rest =>
    match Quad.parse rest with
    | some (q, []) => let (d, b) := rem s.spec q; ({ s with spec := d }, reply [kvB "r" b, kvB "o.r" b])
    | _ => (s, "bad-op")
  | "has" :: rest =>
    match Quad.parse rest with
    | some (q, []) => let b := s.spec.any (quadEq · q); (s, reply [kvB "r" b, kvB "o.r" b])
    | _ => (s, "bad-op")
  | "insall" :: rest =>
    match parseQuads rest with
    | some qs =>
      let (d, c) := qs.foldl (fun (acc : List Quad × Nat) q =>
        let (d, b) := ins acc.1 q; (d, if b then acc.2 + 1 else acc.2)) (s.spec, 0)
      ({ s with spec := d }, reply [kvN "n" c, kvN "o.n" c])
    | none => (s, "bad-op")
  | "remall" :: rest =>
    match parseQuads rest with
    | some qs =>
      let (d, c) := qs.foldl (fun (acc : List Quad × Nat) q =>
        let (d, b) := rem acc.1 q; (d, if b then acc.2 + 1 else acc.2)) (s.spec, 0)
      ({ s with spec := d }, reply [kvN "n" c, kvN "o.n" c])
    | none => (s, "bad-op")
  | "remm" :: rest =>
    match parsePat n rest with
    | some p =>
      let victims := Spec.matching n s.spec p
      ({ s with spec := s.spec.filter (fun q => !quadMatched n p q) },
        reply [kvN "n" victims.length, kvN "o.n" victims.length])
    | none => (s, "bad-op")
  | "retm" :: rest =>
    match parsePat n rest with
    | some p => ({ s with spec := Spec.matching n s.spec p }, "ok=1")
    | none => (s, "bad-op")
  | ["all"] =>
    let sq := s.spec.map canonQuad
    (s, reply [kvN "n" sq.length, kv "quads" (renderQuads n sq), kvN "o.n" sq.length, kv "o.quads" (renderQuads n sq)])
  | ["len"] => (s, reply [kvN "n" s.spec.length, kvN "o.n" s.spec.length])
  | "qm" :: rest =>
    match parsePat n rest with
    | some p =>
      let sq := (Spec.matching n s.spec p).map canonQuad
      (s, reply [kvN "n" sq.length, kv "quads" (renderQuads n sq), kvN "o.n" sq.length, kv "o.quads" (renderQuads n sq)])
    | none => (s, "bad-op")
  | ["enum", which] =>
    match enumOf n which s.spec with
    | some b => let t := renderTerms (b.map canonTerm); (s, reply [kv "terms" t, kv "o.terms" t])
    | none => (s, "bad-op")
  | _ => (s, "bad-op")

def stepModel (s : State) (line : String) : State × String :=
  let n := s.desc.n
  let arms := s.desc.arms
  match fields line with
  | ["new", kind, width] =>
    let d := match kind with
      | "LD" => some Gen.genericLightDataset | "FD" => some Gen.genericFastDataset
      | "LG" => some Gen.genericLightGraph | "FG" => some Gen.genericFastGraph | _ => none
    let mx := match width with | "16" => some Gen.maxU16 | "32" => some Gen.maxU32 | _ => none
    match d, mx with
    | some d, some mx => ({ desc := d, st := St.new d.shape mx, spec := [] }, "ok=1")
    | _, _ => (s, "bad-op")
  | "ins" :: rest =>
    match Quad.parse rest with
    | some (q, []) =>
      let q := normQ n q
      match Store.insert s.st q with
      | (st', none) => ({ s with st := st' }, "r=full")
      | (st', some b) =>
        let (spec', sb) := Spec.insert s.spec q
        ({ s with st := st', spec := spec' }, reply [kvB "r" b, kvB "o.r" sb])
    | _ => (s, "bad-op")
  | "rem" :: rest =>
    match Quad.parse rest with
    | some (q, []) =>
      let q := normQ n q
      let (st', b) := Store.remove s.st q
      let (spec', sb) := Spec.remove s.spec q
      ({ s with st := st', spec := spec' }, reply [kvB "r" b, kvB "o.r" sb])
    | _ => (s, "bad-op")
  | "has" :: rest =>
    match Quad.parse rest with
    | some (q, []) =>
      let q := normQ n q
      (s, reply [kvB "r" (Store.contains arms s.st q), kvB "o.r" (s.spec.any (quadEq · q))])
    | _ => (s, "bad-op")
  | "insall" :: rest =>
    match parseQuads rest with
    | some qs =>
      let qs := qs.map (normQ n)
      match insertAllBoth s.st s.spec qs 0 0 with
      | (st', spec', none) => ({ s with st := st', spec := spec' }, "n=full")
      | (st', spec', some (c, sc)) => ({ s with st := st', spec := spec' }, reply [kvN "n" c, kvN "o.n" sc])
    | none => (s, "bad-op")
  | "remall" :: rest =>
    match parseQuads rest with
    | some qs =>
      let qs := qs.map (normQ n)
      let (st', c) := Store.removeAll s.st qs 0
      let (spec', sc) := specRemoveAll s.spec qs 0
      ({ s with st := st', spec := spec' }, reply [kvN "n" c, kvN "o.n" sc])
    | none => (s, "bad-op")
  | "remm" :: rest =>
    match parsePat n rest with
    | some p =>
      let (st', c) := Store.removeMatching arms s.st p
      let victims := Spec.matching n s.spec p
      let spec' := s.spec.filter (fun q => !quadMatched n p q)
      ({ s with st := st', spec := spec' }, reply [kvN "n" c, kvN "o.n" victims.length])
    | none => (s, "bad-op")
  | "retm" :: rest =>
    match parsePat n rest with
    | some p =>
      let st' := Store.retainMatching s.st p
      let spec' := Spec.matching n s.spec p
      ({ s with st := st', spec := spec' }, "ok=1")
    | none => (s, "bad-op")
  | ["all"] =>
    let qs := (Store.quads s.st).map canonQuad
    let sq := s.spec.map canonQuad
    (s, reply [kvN "n" qs.length, kv "quads" (renderQuads n qs), kvN "o.n" sq.length, kv "o.quads" (renderQuads n sq)])
  | ["len"] => (s, reply [kvN "n" (s.st.idx.getD 0 []).length, kvN "o.n" s.spec.length])
  | "qm" :: rest =>
    match parsePat n rest with
    | some p =>
      let qs := (Store.quadsMatching arms s.st p).map canonQuad
      let sq := (Spec.matching n s.spec p).map canonQuad
      (s, reply [kvN "n" qs.length, kv "quads" (renderQuads n qs), kvN "o.n" sq.length, kv "o.quads" (renderQuads n sq)])
    | none => (s, "bad-op")
  | ["enum", which] =>
    match enumOf n which (Store.quads s.st), enumOf n which s.spec with
    | some a, some b =>
      (s, reply [kv "terms" (renderTerms (a.map canonTerm)), kv "o.terms" (renderTerms (b.map canonTerm))])
    | _, _ => (s, "bad-op")
  | ["fill", k, off] =>
    -- bulk pre-load with FRESH literal terms (the harness never uses the datatype x:fill elsewhere):
    -- the state after k real insertions is constructed directly (appending k new terms and rows), so
    -- that histories filling a 16-bit index stay cheap; every later operation goes through the model.
    match k.toNat?, off.toNat? with
    | some k, some off =>
      let sT : Term := .iri "x:s".toList
      let pT : Term := .iri "x:p".toList
      let mk (i : Nat) : Term := .lit (toString i).toList "x:fill".toList
      match Store.insert s.st ⟨sT, pT, mk off, none⟩ with
      | (st1, none) => ({ s with st := st1 }, "n=full")
      | (st1, some b0) =>
        let spec1 := (Spec.insert s.spec ⟨sT, pT, mk off, none⟩).1
        let is := (getIndex st1.terms sT).getD 0
        let ip := (getIndex st1.terms pT).getD 0
        let base := st1.terms.length
        let room := st1.max - base
        let m := min (k - 1) room
        let newTerms := (List.range m).map (fun j => mk (off + 1 + j))
        let canon (j : Nat) : Row := if n = 4 then [st1.max, is, ip, base + j] else [is, ip, base + j]
        let idx' := (st1.idx.zip st1.shape.perms).map (fun (ix, perm) =>
          ((List.range m).map (fun j => layout perm (canon j))).reverse ++ ix)
        let st2 : St := { st1 with terms := st1.terms ++ newTerms, idx := idx' }
        let spec2 := spec1 ++ newTerms.map (fun t => (⟨sT, pT, t, none⟩ : Quad))
        if m < k - 1 then ({ s with st := st2, spec := spec2 }, "n=full")
        else ({ s with st := st2, spec := spec2 },
          reply [kvN "n" (m + (if b0 then 1 else 0)), kvN "o.n" (m + (if b0 then 1 else 0))])
    | _, _ => (s, "bad-op")
  | ["nterms"] => (s, kvN "nterms" s.st.terms.length)
  | _ => (s, "bad-op")

def step (s : State) (line : String) : State × String :=
  match fields line with
  | ["new", kind, _] =>
    if kind == "HD" || kind == "BD" then ({ s with mode := .specSet, spec := [] }, "ok=1")
    else if kind == "VD" then ({ s with mode := .specVec, spec := [] }, "ok=1")
    else stepModel { s with mode := .model } line
  | _ => if s.mode == .model then stepModel s line else stepSpec s line

end SophiaModel.Driver.C01

def main : IO UInt32 := SophiaModel.Proto.runLoop SophiaModel.Driver.C01.init SophiaModel.Driver.C01.step
