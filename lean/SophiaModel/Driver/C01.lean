import SophiaModel.Model.Store
import SophiaModel.Model.StoreStd
import SophiaModel.Gen.IndexTable

/-!
Line protocol for C01 (reused by C10/C11): a history of operations on one in-memory store.
The reply carries the implementation-model's answer (`k=v`) and the specification's (`o.k=v`).
-/
namespace SophiaModel.Driver.C01
open SophiaModel Proto Term Store StdStore

/-! ### parsing matchers (prefix notation) -/

def parseKind : String → Option Kind
  | "iri" => some .iri | "bnode" => some .bnode | "literal" => some .literal
  | "triple" => some .triple | "variable" => some .variable | _ => none

def parseTerms (fuel : Nat) : Nat → List String → Option (List Term × List String)
  | 0, toks => some ([], toks)
  | k + 1, toks => do
    let (t, r) ← Term.parse fuel toks
    let (ts, r') ← parseTerms fuel k r
    pure (t :: ts, r')

def parseTM : Nat → List String → Option (TM × List String)
  | 0, _ => none
  | fuel + 1, toks =>
    match toks with
    | "A" :: r => some (.any, r)
    | "N" :: r => some (.opt none, r)
    | "O" :: r => do let (t, r') ← Term.parse (fuel + 1) r; pure (.opt (some t), r')
    | "S" :: k :: r => do
      let n ← k.toNat?
      let (ts, r') ← parseTerms (fuel + 1) n r
      pure (.arr ts, r')
    | "R" :: k :: r => do          -- fixed-size array: same matcher semantics as a slice
      let n ← k.toNat?
      let (ts, r') ← parseTerms (fuel + 1) n r
      pure (.arr ts, r')
    | "K" :: k :: r => do let kk ← parseKind k; pure (.kind kk, r)
    | "!" :: r => do let (m, r') ← parseTM fuel r; pure (.not m, r')
    | "D" :: h :: r => do let s ← charsOfHex h; pure (.dt s, r)
    | "L" :: h :: r => do let s ← charsOfHex h; pure (.lang s, r)
    | "T" :: r => do
      let (a, r1) ← parseTM fuel r
      let (b, r2) ← parseTM fuel r1
      let (c, r3) ← parseTM fuel r2
      pure (.tri a b c, r3)
    | "F" :: p :: r => do let n ← p.toNat?; pure (.fn n, r)
    | _ => none

def parseGName (fuel : Nat) : List String → Option (GName × List String)
  | "-" :: r => some (none, r)
  | toks => do let (t, r) ← Term.parse fuel toks; pure (some t, r)

def parseGNames (fuel : Nat) : Nat → List String → Option (List GName × List String)
  | 0, toks => some ([], toks)
  | k + 1, toks => do
    let (g, r) ← parseGName fuel toks
    let (gs, r') ← parseGNames fuel k r
    pure (g :: gs, r')

def parseGM : Nat → List String → Option (GM × List String)
  | 0, _ => none
  | fuel + 1, toks =>
    match toks with
    | "GA" :: r => some (.any, r)
    | "GN" :: r => some (.opt none, r)
    | "GO" :: r => do let (g, r') ← parseGName (fuel + 1) r; pure (.opt (some g), r')
    | "GS" :: k :: r => do
      let n ← k.toNat?
      let (gs, r') ← parseGNames (fuel + 1) n r
      pure (.arr gs, r')
    | "GR" :: k :: r => do
      let n ← k.toNat?
      let (gs, r') ← parseGNames (fuel + 1) n r
      pure (.arr gs, r')
    | "GK" :: "none" :: r => some (.kind none, r)
    | "GK" :: k :: r => do let kk ← parseKind k; pure (.kind (some kk), r)
    | "G!" :: r => do let (m, r') ← parseGM fuel r; pure (.not m, r')
    | "GT" :: "none" :: r => some (.tri none, r)
    | "GT" :: r => do
      let (a, r1) ← parseTM (fuel + 1) r
      let (b, r2) ← parseTM (fuel + 1) r1
      let (c, r3) ← parseTM (fuel + 1) r2
      pure (.tri (some (a, b, c)), r3)
    | "GF" :: p :: r => do let n ← p.toNat?; pure (.fn n, r)
    | "Gm" :: r => do let (m, r') ← parseTM (fuel + 1) r; pure (.gn m, r')
    | _ => none

/-- pattern in API order `s p o [g]`; canonical order is `[g, s, p, o]` resp. `[s, p, o]` -/
def parsePat (n : Nat) (toks : List String) : Option Pat := do
  let fuel := toks.length + 2
  let (sm, r1) ← parseTM fuel toks
  let (pm, r2) ← parseTM fuel r1
  let (om, r3) ← parseTM fuel r2
  if n = 4 then
    let (gm, r4) ← parseGM fuel r3
    if r4.isEmpty then pure ⟨[gm, .gn sm, .gn pm, .gn om]⟩ else none
  else
    if r3.isEmpty then pure ⟨[.gn sm, .gn pm, .gn om]⟩ else none

def parseQuads (toks : List String) : Option (List Quad) :=
  let groups := toks.foldr (fun t acc => if t == "|" then [] :: acc else
    match acc with
    | [] => [[t]]
    | x :: xs => (t :: x) :: xs) [[]]
  (groups.filter (fun g => !g.isEmpty)).mapM (fun g => match Quad.parse g with
    | some (q, []) => some q
    | _ => none)

/-! ### rendering -/

def sortStrings (l : List String) : List String := (l.toArray.qsort (· < ·)).toList

def renderQuad (n : Nat) (q : Quad) : String :=
  let s := if n = 4 then q.render else (q.s.render ++ " " ++ q.p.render ++ " " ++ q.o.render)
  s.map (fun c => if c == ' ' then ',' else c)

def renderQuads (n : Nat) (qs : List Quad) : String :=
  match sortStrings (qs.map (renderQuad n)) with
  | [] => "_"
  | l => ";".intercalate l

def dedupStrings : List String → List String
  | a :: b :: r => if a == b then dedupStrings (b :: r) else a :: dedupStrings (b :: r)
  | l => l

def renderTerms (ts : List Term) : String :=
  match dedupStrings (sortStrings (ts.map (fun t => t.render.map (fun c => if c == ' ' then ',' else c)))) with
  | [] => "_"
  | l => ";".intercalate l

/-! ### state: implementation model + specification side by side -/

/-- `model`: indexed store model + spec side by side; `specSet`: std `HashSet`/`BTreeSet` of quads or
triples (the specification itself, given lawful `Eq/Hash/Ord` of the element type: property C02);
`specVec all`: a `Vec` store, modelled literally (`State.vec`: push / swap_remove loops) next to
"the corresponding list" (`State.spec`); `all` = `remove` drops every occurrence (`Vec<Spog<T>>`,
`Vec<[T;3]>`) rather than the first one (`Vec<Gspo<T>>`). Flags and counts of `Vec` stores are
"not significant" (trait docs): they are model fields only, never oracle fields. -/
inductive Mode | model | specSet | specVec (all : Bool)
  deriving Inhabited, DecidableEq

structure State where
  mode : Mode := .model
  /-- positions of the std-collection stores (4 = dataset, 3 = graph) -/
  n : Nat := 4
  desc : StoreDesc
  st : St
  spec : List Quad
  vec : List Quad := []
  /-- set when an insertion failed with `TermIndexFullError` while the index still had room for
  some term: WHICH terms were interned before the failure is the implementation's business (the
  property only demands that the quad sets are untouched), so from then on the model's answers are
  compared as model answers only — no oracle (`o.`) fields until the next `new` / `collect` -/
  tainted : Bool := false
  deriving Inhabited

def init : State := { desc := Gen.genericLightDataset, st := St.new Gen.genericLightDataset.shape Gen.maxU32, spec := [] }

def normQ (n : Nat) (q : Quad) : Quad := if n = 4 then q else { q with g := none }

/-- terms are compared up to `Term::eq`: render a canonical representative (folded tags) so that
both sides print the same text for equal terms -/
def canonTerm : Term → Term
  | .lang l t => .lang l (foldTag t)
  | .triple s p o => .triple (canonTerm s) (canonTerm p) (canonTerm o)
  | t => t

def canonQuad (q : Quad) : Quad := ⟨canonTerm q.s, canonTerm q.p, canonTerm q.o, q.g.map canonTerm⟩

def specRemoveAll (d : List Quad) : List Quad → Nat → List Quad × Nat
  | [], c => (d, c)
  | q :: qs, c =>
    let (d', b) := Spec.remove d q
    specRemoveAll d' qs (if b then c + 1 else c)

/-- `insert_all` on model and specification in lockstep; stops where the model reports index-full -/
def insertAllBoth (st : St) (d : List Quad) : List Quad → Nat → Nat → St × List Quad × Option (Nat × Nat)
  | [], c, sc => (st, d, some (c, sc))
  | q :: qs, c, sc =>
    match Store.insert st q with
    | (st', none) => (st', d, none)
    | (st', some b) =>
      let (d', sb) := Spec.insert d q
      insertAllBoth st' d' qs (if b then c + 1 else c) (if sb then sc + 1 else sc)

def replyQuads (n : Nat) (qs sq : List Quad) : String :=
  let qs := qs.map canonQuad
  let sq := sq.map canonQuad
  reply [kvN "n" qs.length, kv "quads" (renderQuads n qs), kvN "o.n" sq.length, kv "o.quads" (renderQuads n sq)]

/-- std sets: answers come from the specification only -/
def stepSpec (s : State) (line : String) : State × String :=
  let n := s.n
  match fields line with
  | "ins" :: rest =>
    match Quad.parse rest with
    | some (q, []) => let (d, b) := Spec.insert s.spec (normQ n q); ({ s with spec := d }, reply [kvB "r" b, kvB "o.r" b])
    | _ => (s, "bad-op")
  | "rem" :: rest =>
    match Quad.parse rest with
    | some (q, []) => let (d, b) := Spec.remove s.spec (normQ n q); ({ s with spec := d }, reply [kvB "r" b, kvB "o.r" b])
    | _ => (s, "bad-op")
  | "has" :: rest =>
    match Quad.parse rest with
    | some (q, []) => let b := s.spec.any (quadEq · (normQ n q)); (s, reply [kvB "r" b, kvB "o.r" b])
    | _ => (s, "bad-op")
  | "insall" :: rest =>
    match parseQuads rest with
    | some qs =>
      let (d, c) := qs.foldl (fun (acc : List Quad × Nat) q =>
        let (d, b) := Spec.insert acc.1 (normQ n q); (d, if b then acc.2 + 1 else acc.2)) (s.spec, 0)
      ({ s with spec := d }, reply [kvN "n" c, kvN "o.n" c])
    | none => (s, "bad-op")
  | "remall" :: rest =>
    match parseQuads rest with
    | some qs =>
      let (d, c) := specRemoveAll s.spec (qs.map (normQ n)) 0
      ({ s with spec := d }, reply [kvN "n" c, kvN "o.n" c])
    | none => (s, "bad-op")
  | "remm" :: rest =>
    match parsePat n rest with
    | some p =>
      let victims := Spec.matching n s.spec p
      ({ s with spec := s.spec.filter (fun q => !quadMatched n p q) },
        reply [kvN "n" victims.length, kvN "o.n" victims.length])
    | none => (s, "bad-op")
  | "retm" :: rest =>
    match parsePat n rest with
    | some p => ({ s with spec := Spec.matching n s.spec p }, "ok=1")
    | none => (s, "bad-op")
  | ["all"] => (s, replyQuads n s.spec s.spec)
  | ["len"] => (s, reply [kvN "n" s.spec.length, kvN "o.n" s.spec.length])
  | "qm" :: rest =>
    match parsePat n rest with
    | some p => let r := Spec.matching n s.spec p; (s, replyQuads n r r)
    | none => (s, "bad-op")
  | ["enum", which] =>
    match enumOf n which s.spec with
    | some b => let t := renderTerms (b.map canonTerm); (s, reply [kv "terms" t, kv "o.terms" t])
    | none => (s, "bad-op")
  | _ => (s, "bad-op")

/-- `Vec` stores: `s.vec` is the literal model (push / swap_remove), `s.spec` the corresponding
list (append / drop every resp. the first occurrence). Contents are oracle fields, flags are not. -/
def stepVec (all : Bool) (s : State) (line : String) : State × String :=
  let n := s.n
  let specRem (d : List Quad) (q : Quad) : List Quad :=
    if all then d.filter (fun x => !quadEq x q) else d.eraseP (fun x => quadEq x q)
  match fields line with
  | "ins" :: rest =>
    match Quad.parse rest with
    | some (q, []) =>
      let q := normQ n q
      let (v, b) := vecInsert s.vec q
      ({ s with vec := v, spec := s.spec ++ [q] }, kvB "r" b)
    | _ => (s, "bad-op")
  | "rem" :: rest =>
    match Quad.parse rest with
    | some (q, []) =>
      let q := normQ n q
      let (v, b) := vecRemove all s.vec q
      ({ s with vec := v, spec := specRem s.spec q }, kvB "r" b)
    | _ => (s, "bad-op")
  | "has" :: rest =>
    match Quad.parse rest with
    | some (q, []) =>
      let q := normQ n q
      (s, reply [kvB "r" (s.vec.any (quadEq · q)), kvB "o.r" (s.spec.any (quadEq · q))])
    | _ => (s, "bad-op")
  | "insall" :: rest =>
    match parseQuads rest with
    | some qs =>
      let qs := qs.map (normQ n)
      let (v, c) := vecInsertAll s.vec qs 0
      ({ s with vec := v, spec := s.spec ++ qs }, kvN "n" c)
    | none => (s, "bad-op")
  | "remall" :: rest =>
    match parseQuads rest with
    | some qs =>
      let qs := qs.map (normQ n)
      let (v, c) := vecRemoveAllOf all s.vec qs 0
      ({ s with vec := v, spec := qs.foldl specRem s.spec }, kvN "n" c)
    | none => (s, "bad-op")
  | "remm" :: rest =>
    match parsePat n rest with
    | some p =>
      let (v, c) := vecRemoveMatching all n s.vec p
      ({ s with vec := v, spec := s.spec.filter (fun q => !quadMatched n p q) }, kvN "n" c)
    | none => (s, "bad-op")
  | "retm" :: rest =>
    match parsePat n rest with
    | some p => ({ s with vec := vecRetainMatching all n s.vec p, spec := Spec.matching n s.spec p }, "ok=1")
    | none => (s, "bad-op")
  | ["all"] => (s, replyQuads n s.vec s.spec)
  | ["len"] => (s, reply [kvN "n" s.vec.length, kvN "o.n" s.spec.length])
  | "qm" :: rest =>
    match parsePat n rest with
    | some p => (s, replyQuads n (Spec.matching n s.vec p) (Spec.matching n s.spec p))
    | none => (s, "bad-op")
  | ["enum", which] =>
    match enumOf n which s.vec, enumOf n which s.spec with
    | some a, some b =>
      (s, reply [kv "terms" (renderTerms (a.map canonTerm)), kv "o.terms" (renderTerms (b.map canonTerm))])
    | _, _ => (s, "bad-op")
  | _ => (s, "bad-op")

def descOfKind : String → Option StoreDesc
  | "LD" => some Gen.genericLightDataset | "FD" => some Gen.genericFastDataset
  | "LG" => some Gen.genericLightGraph | "FG" => some Gen.genericFastGraph | _ => none

def maxOfWidth : String → Option Nat
  | "16" => some Gen.maxU16 | "32" => some Gen.maxU32 | "64" => some StdStore.maxUsize | _ => none

def stepModel (s : State) (line : String) : State × String :=
  let n := s.desc.n
  let arms := s.desc.arms
  match fields line with
  | "ins" :: rest =>
    match Quad.parse rest with
    | some (q, []) =>
      let q := normQ n q
      match Store.insert s.st q with
      | (st', none) =>
        -- untainted ⇒ the set of interned terms is determined ⇒ "more new terms than room" is too
        ({ s with st := st', tainted := s.tainted || decide (s.st.terms.length < s.st.max) }, "r=full o.r=full")
      | (st', some b) =>
        let (spec', sb) := Spec.insert s.spec q
        ({ s with st := st', spec := spec' }, reply [kvB "r" b, kvB "o.r" sb])
    | _ => (s, "bad-op")
  | "rem" :: rest =>
    match Quad.parse rest with
    | some (q, []) =>
      let q := normQ n q
      let (st', b) := Store.remove s.st q
      let (spec', sb) := Spec.remove s.spec q
      ({ s with st := st', spec := spec' }, reply [kvB "r" b, kvB "o.r" sb])
    | _ => (s, "bad-op")
  | "has" :: rest =>
    match Quad.parse rest with
    | some (q, []) =>
      let q := normQ n q
      (s, reply [kvB "r" (Store.contains arms s.st q), kvB "o.r" (s.spec.any (quadEq · q))])
    | _ => (s, "bad-op")
  | "insall" :: rest =>
    match parseQuads rest with
    | some qs =>
      let qs := qs.map (normQ n)
      match insertAllBoth s.st s.spec qs 0 0 with
      | (st', spec', none) =>
        ({ s with st := st', spec := spec', tainted := s.tainted || decide (s.st.terms.length < s.st.max) }, "n=full o.n=full")
      | (st', spec', some (c, sc)) => ({ s with st := st', spec := spec' }, reply [kvN "n" c, kvN "o.n" sc])
    | none => (s, "bad-op")
  | "remall" :: rest =>
    match parseQuads rest with
    | some qs =>
      let qs := qs.map (normQ n)
      let (st', c) := Store.removeAll s.st qs 0
      let (spec', sc) := specRemoveAll s.spec qs 0
      ({ s with st := st', spec := spec' }, reply [kvN "n" c, kvN "o.n" sc])
    | none => (s, "bad-op")
  | "remm" :: rest =>
    match parsePat n rest with
    | some p =>
      let (st', c) := Store.removeMatching arms s.st p
      let victims := Spec.matching n s.spec p
      let spec' := s.spec.filter (fun q => !quadMatched n p q)
      ({ s with st := st', spec := spec' }, reply [kvN "n" c, kvN "o.n" victims.length])
    | none => (s, "bad-op")
  | "retm" :: rest =>
    match parsePat n rest with
    | some p =>
      let st' := Store.retainMatching s.st p
      let spec' := Spec.matching n s.spec p
      ({ s with st := st', spec := spec' }, "ok=1")
    | none => (s, "bad-op")
  | ["all"] => (s, replyQuads n (Store.quads s.st) s.spec)
  | ["len"] => (s, reply [kvN "n" (s.st.idx.getD 0 []).length, kvN "o.n" s.spec.length])
  | "qm" :: rest =>
    match parsePat n rest with
    | some p => (s, replyQuads n (Store.quadsMatching arms s.st p) (Spec.matching n s.spec p))
    | none => (s, "bad-op")
  | ["enum", which] =>
    match enumOf n which (Store.quads s.st), enumOf n which s.spec with
    | some a, some b =>
      (s, reply [kv "terms" (renderTerms (a.map canonTerm)), kv "o.terms" (renderTerms (b.map canonTerm))])
    | _, _ => (s, "bad-op")
  | ["fill", k, off] =>
    -- bulk pre-load with FRESH literal terms (the harness never uses the datatype x:fill elsewhere):
    -- the state after k real insertions is constructed directly (appending k new terms and rows), so
    -- that histories filling a 16-bit index stay cheap; every later operation goes through the model.
    match k.toNat?, off.toNat? with
    | some k, some off =>
      let sT : Term := .iri "x:s".toList
      let pT : Term := .iri "x:p".toList
      let mk (i : Nat) : Term := StdStore.fillTerm i
      match Store.insert s.st ⟨sT, pT, mk off, none⟩ with
      | (st1, none) => ({ s with st := st1, tainted := true }, "n=full")
      | (st1, some b0) =>
        let spec1 := (Spec.insert s.spec ⟨sT, pT, mk off, none⟩).1
        let room := st1.max - st1.terms.length
        let m := min (k - 1) room
        let newTerms := StdStore.fillTerms (off + 1) m
        -- = `insertAll st1 (objQuads sT pT newTerms) 0` (theorem `fill_is_insert_all`)
        let st2 : St := (StdStore.bulkInsert st1 sT pT newTerms).1
        let spec2 := spec1 ++ newTerms.map (fun t => (⟨sT, pT, t, none⟩ : Quad))
        if m < k - 1 then ({ s with st := st2, spec := spec2 }, "n=full")
        else ({ s with st := st2, spec := spec2 },
          reply [kvN "n" (m + (if b0 then 1 else 0)), kvN "o.n" (m + (if b0 then 1 else 0))])
    | _, _ => (s, "bad-op")
  | ["nterms"] => (s, kvN "nterms" s.st.terms.length)
  | _ => (s, "bad-op")

/-- `new <kind> <width>`: a fresh store of the given type -/
def newStore (s : State) (kind width : String) : Option State :=
  let setOf (n : Nat) : Option State := some { s with mode := .specSet, n := n, spec := [], vec := [], tainted := false }
  let vecOf (all : Bool) (n : Nat) : Option State := some { s with mode := .specVec all, n := n, spec := [], vec := [], tainted := false }
  match kind with
  | "HD" | "BD" | "HE" | "BE" => setOf 4
  | "HG" | "BG" => setOf 3
  | "VD" => vecOf true 4
  | "VE" => vecOf false 4
  | "VG" => vecOf true 3
  | _ =>
    match descOfKind kind, maxOfWidth width with
    | some d, some mx => some { mode := .model, n := d.n, desc := d, st := St.new d.shape mx, spec := [], vec := [] }
    | _, _ => none

def step1 (s : State) (line : String) : State × String :=
  match s.mode with
  | .model => stepModel s line
  | .specSet => stepSpec s line
  | .specVec all => stepVec all s line

/-- tokens of the first `k` `|`-separated groups -/
def takeGroups : Nat → List String → List String
  | 0, _ => []
  | _, [] => []
  | k + 1, t :: ts =>
    if t == "|" then (if k = 0 then [] else t :: takeGroups k ts) else t :: takeGroups (k + 1) ts

/-- an ordinary operation on the current store; a tainted history answers without oracle fields -/
def stepOp (s : State) (line : String) : State × String :=
  let (s', r) := step1 s line
  if s.tainted then (s', " ".intercalate ((fields r).filter (fun t => !t.startsWith "o."))) else (s', r)

/-- `insert_all` / `remove_all` from a source that yields `k` quads and then fails: the quads before
the failure are processed, then the source's error is reported (unless the sink failed first) -/
def stepBulkX (s : State) (op : String) (k : Nat) (rest : List String) : State × String :=
  match parseQuads rest with
  | none => (s, "bad-op")
  | some all =>
    let (s', r) := stepOp s (" ".intercalate (op :: takeGroups k rest))
    if r == "bad-op" then (s, "bad-op")
    else if r.startsWith "n=full" then (s', r)
    else if k < all.length then (s', if s.tainted then "n=srcerr" else "n=srcerr o.n=srcerr")
    else (s', r)

/-- `from_quad_source` / `from_triple_source`: a fresh store, then every quad of the source inserted
in turn (`k` = how many quads the source yields before it fails; `none` = it does not fail).
`Err` (term index full, or the source's error) drops the half-built store: the current store is then
a fresh empty one -/
def stepCollect (s : State) (kind width : String) (k : Option Nat) (rest : List String) : State × String :=
  match newStore s kind width, parseQuads rest with
  | some s0, some all =>
    let toks := match k with | some k => takeGroups k rest | none => rest
    let srcFails := match k with | some k => decide (k < all.length) | none => false
    if s0.mode == .model then
      -- the in-memory stores: `StdStore.collect` (the function the `from_source_*` theorems are about)
      match parseQuads toks with
      | none => (s, "bad-op")
      | some qs =>
        let qs := qs.map (normQ s0.desc.n)
        match StdStore.collect s0.desc.shape s0.st.max qs with
        | none => (s0, "n=full o.n=full")
        | some st =>
          if srcFails then (s0, "n=srcerr o.n=srcerr")
          else
            let spec := qs.foldl (fun d q => (Spec.insert d q).1) []
            ({ s0 with st := st, spec := spec }, reply [kvN "n" (st.idx.getD 0 []).length, kvN "o.n" spec.length])
    else
      let (s1, r1) := step1 s0 (" ".intercalate ("insall" :: toks))
      if r1 == "bad-op" then (s, "bad-op")
      else if srcFails then (s0, "n=srcerr o.n=srcerr")
      else step1 s1 "len"
  | _, _ => (s, "bad-op")

/-- the `via` token of `new` / `collect…` says through which forwarding impl (`&T`, `&mut T`, `[Q]`)
the harness calls the store: irrelevant to model and specification -/
def step (s : State) (line : String) : State × String :=
  match fields line with
  | "new" :: kind :: width :: _ =>
    match newStore s kind width with
    | some s' => (s', "ok=1")
    | none => (s, "bad-op")
  | "collect" :: kind :: width :: _via :: rest => stepCollect s kind width none rest
  | "collectx" :: kind :: width :: _via :: k :: rest =>
    match k.toNat? with
    | some k => stepCollect s kind width (some k) rest
    | none => (s, "bad-op")
  | ["collectfill", kind, width, _via, k] =>
    match newStore s kind width with
    | none => (s, "bad-op")
    | some s0 =>
      let (s1, r1) := step1 s0 (" ".intercalate ["fill", k, "0"])
      if r1 == "bad-op" then (s, "bad-op")
      else if r1 == "n=full" then (s0, "n=full o.n=full")
      else step1 s1 "len"
  | "insallx" :: k :: rest =>
    match k.toNat? with
    | some k => stepBulkX s "insall" k rest
    | none => (s, "bad-op")
  | "remallx" :: k :: rest =>
    match k.toNat? with
    | some k => stepBulkX s "remall" k rest
    | none => (s, "bad-op")
  | _ => stepOp s line

end SophiaModel.Driver.C01

def main : IO UInt32 := SophiaModel.Proto.runLoop SophiaModel.Driver.C01.init SophiaModel.Driver.C01.step
