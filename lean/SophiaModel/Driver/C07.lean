import SophiaModel.Basic.Proto
import SophiaModel.Model.Iso
import SophiaModel.Model.IsoOracle
import SophiaModel.Gen.IsoVariant

namespace SophiaModel.Driver.C07
open SophiaModel Proto Iso
open SophiaModel.IsoOracle (certOk groundDiffers wfQ)

/-- quads up to the next `|` (or the end) -/
def parseQuads : Nat → List String → Option (List Quad × List String)
  | 0, _ => none
  | _, [] => some ([], [])
  | _, "|" :: rest => some ([], rest)
  | fuel + 1, toks => do
    let (q, r) ← Quad.parse toks
    let (qs, r') ← parseQuads fuel r
    pure (q :: qs, r')

/-- `-` or `hex:hex,hex:hex,…` -/
def parseBeta (s : String) : Option (List (Str × Str)) :=
  if s == "-" then some [] else
  (s.splitOn ",").mapM (fun pr =>
    match pr.splitOn ":" with
    | [a, b] => do let x ← charsOfHex a; let y ← charsOfHex b; pure (x, y)
    | _ => none)

def fuel : Nat := 256

def parseFail (s : String) : Option (Option Nat) :=
  if s == "-" then some none else s.toNat?.map some

def renderOutcome : Outcome → String
  | .answer (some true) => "1"
  | .answer (some false) => "0"
  | .answer none => "fuel"
  | .sourceError => "source"
  | .sinkError => "sink"

/-- `isoerr <d|g> <f1> <f2> <quad>* | <quad>*`: both argument orders on fallible containers -/
def handleErr (f1s f2s : String) (rest : List String) : String :=
  match parseFail f1s, parseFail f2s, parseQuads (rest.length + 1) rest with
  | some f1, some f2, some (D1, rest2) =>
    match parseQuads (rest2.length + 1) rest2 with
    | some (D2, []) =>
      let deep := Gen.IsoVariant.deep
      reply [kv "r12" (renderOutcome (isoE deep (isort deep) mixHash fuel f1 f2 D1 D2)),
             kv "r21" (renderOutcome (isoE deep (isort deep) mixHash fuel f2 f1 D2 D1))]
    | _ => "bad-op"
  | _, _, _ => "bad-op"

def handle (line : String) : String :=
  match fields line with
  | "isoerr" :: _kind :: f1 :: f2 :: rest => handleErr f1 f2 rest
  | "iso" :: _kind :: _c1 :: _c2 :: beta :: rest =>
    match parseBeta beta, parseQuads (rest.length + 1) rest with
    | some β, some (D1, rest2) =>
      match parseQuads (rest2.length + 1) rest2 with
      | some (D2, []) =>
        let deep := Gen.IsoVariant.deep
        let srt := isort deep
        -- the three gates one by one (diagnostics); `sg && zg && bg` is `gates deep srt D1 D2` unfolded, with
        -- the two sorts shared (theorem `gates_unfold` in Props/C07.lean)
        let s1 := srt D1
        let s2 := srt D2
        let sg := sizeGate D1 D2
        let zg := zipGate deep s1 s2
        let bg := bcountGate (makeB2q s1) (makeB2q s2)
        let g := sg && zg && bg
        let adv := iso deep srt mixHash fuel D1 D2
        let advS := match adv with | some true => "1" | some false => "0" | none => "fuel"
        -- diagnostics (model only): does the sufficient condition for termination of `iso_relabel_total_partial`
        -- hold on this request (class counts of the first argument never decrease during 2n+1 rounds), and how
        -- many rounds does the loop take
        let b1 := makeB2q s1
        let b2 := makeB2q s2
        let mono := g && monoRun mixHash s1 b1 (2 * b1.length + 1) (initMap b1) 0
        let rnds := if g then (match roundsUsed mixHash s1 s2 b1 b2 fuel (initMap b1) (initMap b2) 0 0 with
                               | some n => toString n | none => "fuel") else "0"
        -- the oracle (Model/IsoOracle.lean; `certOk_sound` / `groundDiffers_sound` in Props/C07.lean)
        let cert := certOk β D1 D2
        let gd := groundDiffers D1 D2
        let wf := D1.all wfQ
        -- the implementation's answer is determined (for every hash function) when a gate fails, and when
        -- the pair is a certified relabelling (theorems iso_false_*, iso_relabel*).  Otherwise it is what colour
        -- refinement computes: a function of the structure alone unless two different event traces collide in
        -- 64 bits (SipHash there, `mixHash` here), so it is compared as a *model* field (a difference is a
        -- model/implementation disagreement, never a "failing input"): this ties makeB2q / evQuad / makeMap /
        -- eqClasses / refine to dataset.rs and hash.rs, not only the gates.
        reply ([kvN "n1" D1.length, kvN "n2" D2.length, kvB "size_gate" sg, kvB "zip_gate" zg,
                kvB "bcount_gate" bg, kvB "gates" g, kv "adv_iso" advS, kvB "cert" cert, kvB "ground_differs" gd]
               ++ [kv "iso" (if !g then "0" else advS), kvB "mono" mono, kv "rounds" rnds]
               ++ (if cert && wf then [kv "o.iso" "1"] else if gd then [kv "o.iso" "0"] else []))
      | _ => "bad-op"
    | _, _ => "bad-op"
  | _ => "bad-op"

abbrev State := Unit
def init : State := ()
def step (_ : State) (line : String) : State × String := ((), handle line)

end SophiaModel.Driver.C07

def main : IO UInt32 := SophiaModel.Proto.runLoop SophiaModel.Driver.C07.init SophiaModel.Driver.C07.step
