import SophiaModel.Driver.C09

open SophiaModel

/-- generic loop: one request per line, one reply per line -/
partial def runLoop {σ : Type} (h : IO.FS.Stream) (out : IO.FS.Stream) (st : σ)
    (step : σ → String → σ × String) : IO Unit := do
  let line ← h.getLine
  if line.isEmpty then return ()
  let (st', r) := step st line
  out.putStrLn r
  runLoop h out st' step

def stateless (f : String → String) : Unit → String → Unit × String := fun _ l => ((), f l)

def main (args : List String) : IO UInt32 := do
  let i ← IO.getStdin
  let o ← IO.getStdout
  match args with
  | ["C09"] => runLoop i o () (stateless Driver.C09.handle); o.flush; return 0
  | _ => IO.eprintln "usage: smdriver <property>"; return 2
