import SophiaModel.Model.Heap
import SophiaModel.Gen.IndexTable
import SophiaModel.Gen.CloneKind

/-!
Line protocol for C10.  ONE LINE = ONE SELF-CONTAINED HISTORY over any number of named stores:

  H <op> ; <op> ; …        with <op> =
    new <n> <LD|FD|LG|FG|TI> <6|16|32|64> ins <n> <quad>     ens <n> <term>     rem <n> <quad>
    fill <n> <k> <off> <lit|iri|qt|lang> clone <a> <b>      cfrom <a> <b>      drop <n>
    swap <a> <b>   mv <a> <b>   box <n>  take <a> <b>       all <n>            dbg <n>
    esc <n> <x> <term>   resc <x>   desc <x>                via <own|ref>      gt <n> <i>

(width `64`: `impl Index for usize`; width `6`: an `Index` type of the harness with `MAX = 6`, so that "index full" is reached by every
history; `esc`: clone the term `Term::eq` to <term> that store <n> lends and keep it as <x>; `via`:
how the harness hands terms to the stores — accessors returning owned or borrowed `MownStr`s —: which
branch of `ensure_owned` the model runs for every string, see `Heap.feedStr`.)

The model runs `XWorld.step Gen.cloneKind Gen.termEscapes` (`.base op` = `World.step Gen.cloneKind`) —
`clone` and the term type are what the SOURCE defines (generated).
Reply: for step `k` (0-based) `k.r=<result>`, and after every step for every live store `n`
(sorted by name): `k.A.n=<audit, run-length coded>` (`1` = key found and all pointers inside it,
`x` = found but a pointer lies outside, `n` = no such key), `k.D.n=<0|1>` (1 = not self-contained),
`k.C.n=<count>:<fnv1a-64 of the sorted rendering>` (content read through the heap; `DANGLING` when
the read would touch released memory) and the oracle `o.k.C.n` (content of a plain value-semantics
specification: a set of quads / a duplicate-free list of terms per store, `clone` = copy); for every
term kept by `esc`: `k.E.x=<0|1>` (1 = one of its strings points into released memory).
-/
namespace SophiaModel.Driver.C10
open SophiaModel Proto Term Store Heap

/-! ### names -/

def nameId (s : String) : Nat := s.foldl (fun a c => a * 256 + c.toNat) 0

partial def nameOfAux (n : Nat) (acc : List Char) : List Char :=
  if n = 0 then acc else nameOfAux (n / 256) (Char.ofNat (n % 256) :: acc)

def nameOf (n : Nat) : String := String.ofList (nameOfAux n [])

/-! ### rendering (as in Driver/C01) -/

def sortStrings (l : List String) : List String := (l.toArray.qsort (· < ·)).toList

def canonTerm : Term → Term
  | .lang l t => .lang l (foldTag t)
  | .triple s p o => .triple (canonTerm s) (canonTerm p) (canonTerm o)
  | t => t

def canonQuad (q : Quad) : Quad := ⟨canonTerm q.s, canonTerm q.p, canonTerm q.o, q.g.map canonTerm⟩

def renderQuad (n : Nat) (q : Quad) : String :=
  let s := if n = 4 then q.render else (q.s.render ++ " " ++ q.p.render ++ " " ++ q.o.render)
  s.map (fun c => if c == ' ' then ',' else c)

def renderTerm (t : Term) : String := t.render.map (fun c => if c == ' ' then ',' else c)

def fnv (s : String) : UInt64 :=
  s.toUTF8.foldl (fun h b => (h ^^^ b.toUInt64) * 0x100000001b3) 0xcbf29ce484222325

def hex64 (x : UInt64) : String :=
  String.ofList ((List.range 16).map (fun i => hexDigit ((x >>> (UInt64.ofNat (4 * (15 - i)))).toNat % 16)))

def digest (items : List String) : String :=
  toString items.length ++ ":" ++ hex64 (fnv (";".intercalate items))

def quadsDigest (n : Nat) (qs : List Quad) : String :=
  digest (sortStrings (qs.map (fun q => renderQuad n (canonQuad q))))

def termsDigest (ts : List Term) : String := digest (ts.map renderTerm)

def rle (l : List Char) : String :=
  let rec go : List Char → Option (Char × Nat) → List String → List String
    | [], none, acc => acc.reverse
    | [], some (c, k), acc => ((String.singleton c ++ "*" ++ toString k) :: acc).reverse
    | x :: r, none, acc => go r (some (x, 1)) acc
    | x :: r, some (c, k), acc =>
      if x == c then go r (some (c, k + 1)) acc
      else go r (some (x, 1)) ((String.singleton c ++ "*" ++ toString k) :: acc)
  match go l none [] with
  | [] => "_"
  | parts => ",".intercalate parts

def auditChar : Bool × Bool → Char
  | (true, true) => '1'
  | (true, false) => 'x'
  | (false, false) => 'n'
  | (false, true) => '?'

/-! ### the value-semantics specification (oracle) -/

structure SpecStore where
  n : Nat
  quads : List Quad := []
  terms : List Term := []
  deriving Inhabited

def SpecStore.ensure (s : SpecStore) (t : Term) : SpecStore :=
  if s.terms.any (fun x => termEq x t) then s else { s with terms := s.terms ++ [t] }

def SpecStore.content (s : SpecStore) : String :=
  if s.n = 0 then termsDigest s.terms else quadsDigest s.n s.quads

structure HState where
  w : World := {}
  /-- terms cloned out of stores (`XWorld.esc`) -/
  esc : List (Nat × TermRef) := []
  spec : List (Nat × SpecStore) := []
  deriving Inhabited

def specGet (sp : List (Nat × SpecStore)) (n : Nat) : Option SpecStore := (sp.find? (·.1 == n)).map (·.2)
def specSet (sp : List (Nat × SpecStore)) (n : Nat) (s : SpecStore) : List (Nat × SpecStore) :=
  if (sp.any (·.1 == n)) then sp.map (fun e => if e.1 == n then (n, s) else e) else sp ++ [(n, s)]
def specDel (sp : List (Nat × SpecStore)) (n : Nat) : List (Nat × SpecStore) := sp.filter (·.1 != n)

def tiShape : Shape := { n := 0, perms := [], lookupOrder := [] }

def normQ (n : Nat) (q : Quad) : Quad := if n = 4 then q else { q with g := none }

def resStr : Res → String
  | .ok => "ok" | .flag b => if b then "1" else "0" | .idx i => "i" ++ toString i
  | .full => "full" | .panic => "panic" | .bad => "bad"

/-- content of a store as read through the heap -/
def content (h : Heap.Heap) (s : HStore) : String :=
  if !s.readable h then "DANGLING"
  else if s.shape.n = 0 then termsDigest (s.ix.i2t.map (keyTerm h))
  else quadsDigest s.shape.n (Store.quads (s.view h))

def fillTerm (mode : String) (i : Nat) : Term :=
  let lit : Term := .lit (toString i).toList "x:fill".toList
  match mode with
  | "iri" => .iri ("x:n" ++ toString i).toList
  | "qt" => .triple (.iri "x:s".toList) (.iri "x:p".toList) lit
  | "lang" => .lang (toString i).toList "en".toList
  | _ => lit

/-- one model op + the same op on the specification -/
def apply1 (st : HState) (op : Op) (specOp : List (Nat × SpecStore) → List (Nat × SpecStore)) : HState × Res :=
  match XWorld.step Gen.cloneKind Gen.termEscapes ⟨st.w, st.esc⟩ (.base op) with
  | (xw, .res r) =>
    if r == .bad then (st, r)
    else if r == .panic || r == .full then ({ st with w := xw.w }, r)
    else ({ st with w := xw.w, spec := specOp st.spec }, r)
  | _ => (st, .bad)

/-- an op of `XWorld` that leaves the specification alone -/
def applyX (st : HState) (op : XOp) : HState × String :=
  let (xw, r) := XWorld.step Gen.cloneKind Gen.termEscapes ⟨st.w, st.esc⟩ op
  let rs := match r with
    | .res r => resStr r | .escaped => "escaped" | .bounded => "bounded" | .absent => "absent" | .bad => "bad"
  if r == .bad then (st, rs) else ({ st with w := xw.w, esc := xw.esc }, rs)

def insSpec (a : Nat) (q : Quad) (sp : List (Nat × SpecStore)) : List (Nat × SpecStore) :=
  match specGet sp a with
  | some s => specSet sp a { s with quads := (Spec.insert s.quads q).1 }
  | none => sp

def ensSpec (a : Nat) (t : Term) (sp : List (Nat × SpecStore)) : List (Nat × SpecStore) :=
  match specGet sp a with
  | some s => specSet sp a (s.ensure t)
  | none => sp

def fillLoop (a : Nat) (isTI : Bool) (mode : String) : Nat → Nat → HState → Nat → HState × String
  | 0, _, st, cnt => (st, toString cnt)
  | k + 1, i, st, cnt =>
    let t := fillTerm mode i
    if isTI then
      match apply1 st (.ens a t) (ensSpec a t) with
      | (st', .idx _) => fillLoop a isTI mode k (i + 1) st' (cnt + 1)
      | (st', .full) => (st', "full")
      | (st', r) => (st', resStr r)
    else
      let q : Quad := ⟨.iri "x:s".toList, .iri "x:p".toList, t, none⟩
      match apply1 st (.ins a q) (insSpec a q) with
      | (st', .flag b) => fillLoop a isTI mode k (i + 1) st' (if b then cnt + 1 else cnt)
      | (st', .full) => (st', "full")
      | (st', r) => (st', resStr r)

def exec1 (st : HState) (toks : List String) : HState × String :=
  match toks with
  | ["new", n, kind, width] =>
    let sh : Option Shape := match kind with
      | "LD" => some Gen.genericLightDataset.shape | "FD" => some Gen.genericFastDataset.shape
      | "LG" => some Gen.genericLightGraph.shape | "FG" => some Gen.genericFastGraph.shape
      | "TI" => some tiShape | _ => none
    let mx := match width with
      | "16" => some Gen.maxU16 | "32" => some Gen.maxU32 | "6" => some 6
      | "64" => some 18446744073709551615 | _ => none
    match sh, mx with
    | some sh, some mx =>
      let a := nameId n
      let (st', r) := apply1 st (.new a sh mx) (fun sp => specSet sp a { n := sh.n })
      (st', resStr r)
    | _, _ => (st, "bad")
  | "ins" :: n :: rest =>
    let a := nameId n
    match Quad.parse rest, st.w.get a with
    | some (q, []), some s =>
      let q := normQ s.shape.n q
      let (st', r) := apply1 st (.ins a q) (insSpec a q)
      (st', resStr r)
    | _, _ => (st, "bad")
  | "rem" :: n :: rest =>
    let a := nameId n
    match Quad.parse rest, st.w.get a with
    | some (q, []), some s =>
      let q := normQ s.shape.n q
      let (st', r) := apply1 st (.rem a q) (fun sp =>
        match specGet sp a with
        | some x => specSet sp a { x with quads := (Spec.remove x.quads q).1 }
        | none => sp)
      (st', resStr r)
    | _, _ => (st, "bad")
  | "ens" :: n :: rest =>
    let a := nameId n
    match Term.parseAll rest, st.w.get a with
    | some (t, []), some s =>
      if s.shape.n != 0 then (st, "bad")
      else
        let (st', r) := apply1 st (.ens a t) (ensSpec a t)
        (st', resStr r)
    | _, _ => (st, "bad")
  | ["fill", n, k, off, mode] =>
    let a := nameId n
    match k.toNat?, off.toNat?, st.w.get a with
    | some k, some off, some s =>
      let (st', r) := fillLoop a (s.shape.n == 0) mode k off st 0
      -- the hash table and the vector have (possibly) reallocated on the way: no effect on buffers
      ((apply1 st' (.grow a) id).1, r)
    | _, _, _ => (st, "bad")
  | ["clone", x, y] =>
    let (a, b) := (nameId x, nameId y)
    let (st', r) := apply1 st (.clone a b) (fun sp =>
      match specGet sp a with | some s => specSet sp b s | none => sp)
    (st', resStr r)
  | ["cfrom", x, y] =>
    let (a, b) := (nameId x, nameId y)
    match st.w.get a, st.w.get b with
    | some sa, some sb =>
      -- `clone_from` needs two stores of the same type
      if sa.shape.n != sb.shape.n || sa.shape.perms != sb.shape.perms || sa.max != sb.max then (st, "bad")
      else
        let (st', r) := apply1 st (.cloneFrom a b) (fun sp =>
          match specGet sp a with | some s => specSet sp b s | none => sp)
        (st', resStr r)
    | _, _ => (st, "bad")
  | ["drop", x] =>
    let a := nameId x
    let (st', r) := apply1 st (.drop a) (fun sp => specDel sp a)
    (st', resStr r)
  | ["swap", x, y] =>
    let (a, b) := (nameId x, nameId y)
    match st.w.get a, st.w.get b with
    | some sa, some sb =>
      if sa.shape.n != sb.shape.n || sa.shape.perms != sb.shape.perms || sa.max != sb.max then (st, "bad")
      else
        let (st', r) := apply1 st (.swap a b) (fun sp =>
          match specGet sp a, specGet sp b with
          | some s, some t => specSet (specSet sp a t) b s
          | _, _ => sp)
        (st', resStr r)
    | _, _ => (st, "bad")
  | ["mv", x, y] =>
    let (a, b) := (nameId x, nameId y)
    let (st', r) := apply1 st (.mv a b) (fun sp =>
      match specGet sp a with | some s => specSet (specDel sp a) b s | none => sp)
    (st', resStr r)
  | ["box", x] =>
    let (st', r) := apply1 st (.box (nameId x)) id
    (st', resStr r)
  | ["take", x, y] =>
    let (a, b) := (nameId x, nameId y)
    let (st', r) := apply1 st (.take a b) (fun sp =>
      match specGet sp a with | some s => specSet (specSet sp b s) a { n := s.n } | none => sp)
    (st', resStr r)
  | ["all", x] =>
    let (st', r) := apply1 st (.readAll (nameId x)) id
    (st', resStr r)
  | ["gt", n, i] =>
    -- `get_term(i)` with a raw index (bare index only): a term is lent iff `i < len()`, otherwise the call must
    -- panic (`refused`) — it must not read beyond `i2t`
    match st.w.get (nameId n), i.toNat? with
    | some s, some i => if s.shape.n != 0 then (st, "bad") else (st, if i < s.ix.i2t.length then "ok" else "refused")
    | _, _ => (st, "bad")
  | ["dbg", x] => applyX st (.dbg (nameId x))
  | "esc" :: n :: x :: rest =>
    match Term.parseAll rest with
    | some (t, []) => applyX st (.esc (nameId n) t (nameId x))
    | _ => (st, "bad")
  | ["resc", x] => applyX st (.readEsc (nameId x))
  | ["desc", x] => applyX st (.dropEsc (nameId x))
  | ["via", m] =>
    if m == "own" || m == "ref" then
      let (st', r) := apply1 st (.via (m == "own")) id
      (st', resStr r)
    else (st, "bad")
  | _ => (st, "bad")

def splitOps (toks : List String) : List (List String) :=
  (toks.foldr (fun t acc => if t == ";" then [] :: acc else
    match acc with
    | [] => [[t]]
    | x :: xs => (t :: x) :: xs) [[]]).filter (fun g => !g.isEmpty)

def report (k : Nat) (st : HState) : List String :=
  let names := sortStrings (st.w.stores.map (fun e => nameOf e.1))
  names.flatMap (fun nm =>
    let a := nameId nm
    match st.w.get a with
    | none => []
    | some s =>
      let au := s.ix.audit
      let pre := toString k ++ "."
      [kv (pre ++ "A." ++ nm) (rle (au.map auditChar)),
       kvB (pre ++ "D." ++ nm) (au.any (fun p => !(p.1 && p.2))),
       kv (pre ++ "C." ++ nm) (content st.w.heap s)] ++
      (match specGet st.spec a with
       | some sp => [kv ("o." ++ pre ++ "C." ++ nm) sp.content]
       | none => [])) ++
  (sortStrings (st.esc.map (fun e => nameOf e.1))).flatMap (fun nm =>
    match (XWorld.getEsc ⟨st.w, st.esc⟩ (nameId nm)) with
    | some e => [kvB (toString k ++ ".E." ++ nm) (dangles st.w.heap e)]
    | none => [])

def runHistory (ops : List (List String)) : String :=
  let rec go : List (List String) → Nat → HState → List String → List String
    | [], _, _, acc => acc.reverse
    | op :: rest, k, st, acc =>
      let (st', r) := exec1 st op
      let ub := if st'.w.heap.ub && !st.w.heap.ub then [kv (toString k ++ ".ub") "1"] else []
      -- for `gt` the result IS what the property demands (oracle)
      let orc := if op.head? == some "gt" && r != "bad" then [kv ("o." ++ toString k ++ ".r") r] else []
      go rest (k + 1) st' ((report k st').reverse ++ ub ++ orc ++ [kv (toString k ++ ".r") r] ++ acc)
  reply (go ops 0 {} [])

def handle (line : String) : String :=
  match fields line with
  | "H" :: toks =>
    let ops := splitOps toks
    if ops.isEmpty then "bad-op" else runHistory ops
  | ["F", _, "16"] =>
    -- a real 16-bit index grown to exactly 65535 terms, two more new terms, a known one.  NOT evaluated (the
    -- list-based model needs minutes for 65535 terms): the answer is the instance `max = 65535` of
    -- `ensure_index_full_refused`, `ensure_index_known`, `index_sized`, `audit_clean` (Props/C10.lean), which
    -- hold for every `max`: filled without refusal, both new terms refused, the known one answered, exactly
    -- `max` entries, every entry tied to its key.
    reply [kv "o.filled" "1", kv "o.refused" "1", kv "o.known" "1", kv "o.n" (toString Gen.maxU16), kv "o.clean" "1"]
  | ["kind"] => kv "clone" (match Gen.cloneKind with | .derived => "derived" | .manual => "manual") ++ " " ++
      kvB "term_escapes" Gen.termEscapes
  | _ => "bad-op"

abbrev State := Unit
def init : State := ()
def step (_ : State) (line : String) : State × String := ((), handle line)

end SophiaModel.Driver.C10

def main : IO UInt32 := SophiaModel.Proto.runLoop SophiaModel.Driver.C10.init SophiaModel.Driver.C10.step
