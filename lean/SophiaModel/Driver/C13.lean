/-
C13 driver.  Request:

  q <quad> | <quad> | ... ; <query>

`<quad>` as `Quad.render`; `<query>` is the algebra produced by the real spargebra, in prefix
notation (see `parseGP` / `parseExpr`).  Reply: the implementation model's answer
(`errclass= err= vars= rows= ask= n= full=`) and the spec model's answer as oracle fields `o.*`.
-/
import SophiaModel.Basic.Proto
import SophiaModel.Model.Sparql
import SophiaModel.Model.SparqlDev
import SophiaModel.Gen.SparqlDispatch

namespace SophiaModel.Driver.C13
open SophiaModel Proto
open SophiaModel.SparqlSpec (TP Func Expr CmpOp AOp GName GP QDataset Query Key Mu)

/-! ### request parsing -/

def parseFunc : String → Option Func
  | "str" => some .str | "lang" => some .lang | "dt" => some .datatype
  | "isiri" => some .isIri | "isblank" => some .isBlank | "islit" => some .isLiteral
  | _ => none

def parseN {α : Type} (p : List String → Option (α × List String)) : Nat → List String → Option (List α × List String)
  | 0, toks => some ([], toks)
  | n + 1, toks => do
    let (a, r) ← p toks
    let (l, r') ← parseN p n r
    pure (a :: l, r')

def parseExpr : Nat → List String → Option (Expr × List String)
  | 0, _ => none
  | fuel + 1, toks =>
    let bin (mk : Expr → Expr → Expr) (rest : List String) : Option (Expr × List String) := do
      let (a, r1) ← parseExpr fuel rest
      let (b, r2) ← parseExpr fuel r1
      pure (mk a b, r2)
    match toks with
    | "c" :: rest => do let (t, r) ← Term.parseAll rest; pure (.const t, r)
    | "var" :: h :: rest => (charsOfHex h).map (fun x => (.var x, rest))
    | "bound" :: h :: rest => (charsOfHex h).map (fun x => (.bound x, rest))
    | "or" :: rest => bin .or rest
    | "and" :: rest => bin .and rest
    | "eq" :: rest => bin .eq rest
    | "same" :: rest => bin .sameTerm rest
    | "lt" :: rest => bin .lt rest
    | "not" :: rest => do let (a, r) ← parseExpr fuel rest; pure (.not a, r)
    | "gt" :: rest => bin (.cmp .gt) rest
    | "le" :: rest => bin (.cmp .le) rest
    | "ge" :: rest => bin (.cmp .ge) rest
    | "add" :: rest => bin (.arith .add) rest
    | "sub" :: rest => bin (.arith .sub) rest
    | "mul" :: rest => bin (.arith .mul) rest
    | "neg" :: rest => do let (a, r) ← parseExpr fuel rest; pure (.neg a, r)
    | "pos" :: rest => do let (a, r) ← parseExpr fuel rest; pure (.pos a, r)
    | "if" :: rest => do
      let (c, r1) ← parseExpr fuel rest
      let (t, r2) ← parseExpr fuel r1
      let (e, r3) ← parseExpr fuel r2
      pure (.ite c t e, r3)
    -- `in A n e₁ … eₙ` (n ≥ 1): the chain `inl A e₁ (inl A e₂ (… (const false)))`
    | "in" :: rest => do
      let (a, r1) ← parseExpr fuel rest
      match r1 with
      | n :: r2 => do
        let k ← n.toNat?
        if k == 0 then none
        let (es, r3) ← parseN (parseExpr fuel) k r2
        pure (es.foldr (fun e acc => .inl a e acc) (.const (SparqlSpec.boolTerm false)), r3)
      | [] => none
    -- `coalesce n e₁ … eₙ`: the chain ending in `err`
    | "coalesce" :: n :: r2 => do
      let k ← n.toNat?
      let (es, r3) ← parseN (parseExpr fuel) k r2
      pure (es.foldr (fun e acc => .coalesce e acc) .err, r3)
    | f :: rest => do
      let fn ← parseFunc f
      let (a, r) ← parseExpr fuel rest
      pure (.call fn a, r)
    | [] => none

def parseTP (toks : List String) : Option (TP × List String) := do
  let (s, r1) ← Term.parseAll toks
  let (p, r2) ← Term.parseAll r1
  let (o, r3) ← Term.parseAll r2
  pure (⟨s, p, o⟩, r3)

def parseHexStr : List String → Option (Str × List String)
  | h :: rest => (charsOfHex h).map (fun s => (s, rest))
  | [] => none

def parseGP : Nat → List String → Option (GP × List String)
  | 0, _ => none
  | fuel + 1, toks =>
    let un (mk : GP → GP) (rest : List String) : Option (GP × List String) := do
      let (a, r) ← parseGP fuel rest
      pure (mk a, r)
    let bin (mk : GP → GP → GP) (rest : List String) : Option (GP × List String) := do
      let (a, r1) ← parseGP fuel rest
      let (b, r2) ← parseGP fuel r1
      pure (mk a b, r2)
    match toks with
    | "bgp" :: n :: rest => do
      let k ← n.toNat?
      let (ps, r) ← parseN parseTP k rest
      pure (.bgp ps, r)
    | "path" :: rest => some (.path, rest)
    | "values" :: rest => some (.values, rest)
    | "join" :: rest => bin .join rest
    | "leftjoin" :: rest => bin .leftJoin rest
    | "minus" :: rest => bin .minus rest
    | "union" :: rest => bin .union rest
    | "filter" :: rest => do
      let (e, r1) ← parseExpr (rest.length + 1) rest
      let (p, r2) ← parseGP fuel r1
      pure (.filter e p, r2)
    | "fexists" :: n :: rest => do
      let neg ← (if n == "1" then some true else if n == "0" then some false else none)
      let (pat, r1) ← parseGP fuel rest
      let (p, r2) ← parseGP fuel r1
      pure (.filterExists neg pat p, r2)
    | "graph" :: rest => do
      let (g, r1) ← Term.parseAll rest
      let (p, r2) ← parseGP fuel r1
      match g with
      | .iri s => pure (.graph (.iri s) p, r2)
      | .var x => pure (.graph (.var x) p, r2)
      | _ => none
    | "extend" :: rest => do
      let (p, r1) ← parseGP fuel rest
      let (x, r2) ← parseHexStr r1
      let (e, r3) ← parseExpr (r2.length + 1) r2
      pure (.extend p x e, r3)
    | "orderby" :: rest => un .orderBy rest
    | "distinct" :: rest => un .distinct rest
    | "reduced" :: rest => un .reduced rest
    | "group" :: rest => un .group rest
    | "service" :: rest => un .service rest
    | "project" :: rest => do
      let (p, r1) ← parseGP fuel rest
      match r1 with
      | n :: r2 => do
        let k ← n.toNat?
        let (xs, r3) ← parseN parseHexStr k r2
        pure (.project p xs, r3)
      | [] => none
    | "slice" :: rest => do
      let (p, r1) ← parseGP fuel rest
      match r1 with
      | s :: l :: r2 => do
        let start ← s.toNat?
        let len ← (if l == "-" then some none else l.toNat?.map some)
        pure (.slice p start len, r2)
      | _ => none
    | _ => none

def parseDS : List String → Option (Option QDataset × List String)
  | "nods" :: rest => some (none, rest)
  | "ds" :: n :: rest => do
    let k ← n.toNat?
    let (d, r1) ← parseN parseHexStr k rest
    match r1 with
    | "nonamed" :: r2 => pure (some ⟨d, none⟩, r2)
    | "named" :: m :: r2 => do
      let j ← m.toNat?
      let (nm, r3) ← parseN parseHexStr j r2
      pure (some ⟨d, some nm⟩, r3)
    | _ => none
  | _ => none

def parseQuery : List String → Option Query
  | ["construct"] => some .construct
  | ["describe"] => some .describe
  | "select" :: rest => do
    let (ds, r1) ← parseDS rest
    let (p, r2) ← parseGP (r1.length + 1) r1
    if r2.isEmpty then pure (.select ds p) else none
  | "ask" :: rest => do
    let (ds, r1) ← parseDS rest
    let (p, r2) ← parseGP (r1.length + 1) r1
    if r2.isEmpty then pure (.ask ds p) else none
  | _ => none

def parseQuads : Nat → List String → Option (List Quad × List String)
  | 0, _ => none
  | fuel + 1, toks =>
    match toks with
    | ";" :: rest => some ([], rest)
    | _ => do
      let (q, r1) ← Quad.parse toks
      match r1 with
      | "|" :: r2 => do
        let (qs, r3) ← parseQuads fuel r2
        pure (q :: qs, r3)
      | _ => none

/-! ### canonical rendering -/

def termC : Term → String
  | .iri s => "i:" ++ hexOfChars s
  | .bnode s => "b:" ++ hexOfChars s
  | .lit l d => "l:" ++ hexOfChars l ++ ":" ++ hexOfChars d
  | .lang l t => "g:" ++ hexOfChars l ++ ":" ++ hexOfChars (foldTag t)
  | .triple s p o => "t(" ++ termC s ++ "," ++ termC p ++ "," ++ termC o ++ ")"
  | .var s => "v:" ++ hexOfChars s

def rowC (cells : List (Option Term)) : String :=
  "[" ++ ",".intercalate (cells.map (fun c => match c with | some t => termC t | none => "-")) ++ "]"

def fnv (s : String) : Nat :=
  s.toUTF8.foldl (fun h b => ((h ^^^ b.toNat) * 0x100000001b3) % 0x10000000000000000) 0xcbf29ce484222325

def rowsC (table : List (List (Option Term))) : String :=
  let rs := (table.map rowC).mergeSort (fun a b => a ≤ b)
  let body := String.join rs
  let body := if body.length > 6000 then "#" ++ toString (fnv body) else body
  toString rs.length ++ "/" ++ body

def varsC (xs : List Str) : String :=
  if xs.isEmpty then "_" else ",".intercalate (xs.map hexOfChars)

def specTable (xs : List Str) (Ω : List Mu) : List (List (Option Term)) :=
  Ω.map (fun μ => xs.map (fun x => μ.get (.var x)))

/-! ### scope of the expression model -/

def unmodelledXsd : List String :=
  ["decimal", "float", "double", "dateTime", "nonPositiveInteger", "negativeInteger", "long", "int", "short",
   "byte", "nonNegativeInteger", "unsignedLong", "unsignedInt", "unsignedShort", "unsignedByte", "positiveInteger"]

def termUnmodelled : Term → Bool
  | .lit lex dt =>
    unmodelledXsd.any (fun n => dt = SparqlSpec.xsd n) || (dt = SparqlSpec.xsdInteger && lex.contains '_') ||
      -- `"1"^^xsd:boolean`, `"0"^^xsd:boolean`: valid lexical forms that `str::parse::<bool>` rejects
      -- (value.rs; reported, belongs to the literal/value mapping of C20)
      (dt = SparqlSpec.xsdBoolean && lex ≠ "true".toList && lex ≠ "false".toList)
  | .triple s p o => termUnmodelled s || termUnmodelled p || termUnmodelled o
  | _ => false

def exprTerms : Expr → List Term
  | .const t => [t]
  | .or a b | .and a b | .eq a b | .sameTerm a b | .lt a b | .cmp _ a b | .arith _ a b | .coalesce a b =>
    exprTerms a ++ exprTerms b
  | .not a | .call _ a | .neg a | .pos a => exprTerms a
  | .ite a b c | .inl a b c => exprTerms a ++ exprTerms b ++ exprTerms c
  | _ => []

def gpExprs : GP → List Expr
  | .filter e p => e :: gpExprs p
  | .filterExists _ pat p => gpExprs pat ++ gpExprs p
  | .extend p _ e => e :: gpExprs p
  | .join l r | .leftJoin l r | .union l r | .minus l r => gpExprs l ++ gpExprs r
  | .graph _ p | .orderBy p | .project p _ | .distinct p | .reduced p | .slice p _ _ | .group p | .service p => gpExprs p
  | _ => []

def gpTerms : GP → List Term
  | .bgp ps => ps.flatMap (fun tp => [tp.s, tp.p, tp.o])
  | .filter _ p => gpTerms p
  | .filterExists _ pat p => gpTerms pat ++ gpTerms p
  | .extend p _ _ => gpTerms p
  | .join l r | .leftJoin l r | .union l r | .minus l r => gpTerms l ++ gpTerms r
  | .graph _ p | .orderBy p | .project p _ | .distinct p | .reduced p | .slice p _ _ | .group p | .service p => gpTerms p
  | _ => []

/-- some EXISTS pattern uses an operator that the engine evaluates but for which the oracle has no
substitution semantics (BIND, sub-select, DISTINCT … inside EXISTS): not compared -/
def existsUnmodelled : GP → Bool
  | .filterExists _ pat p =>
    (!SparqlSpec.existsFragment pat && SparqlSpec.inFragment pat) || existsUnmodelled pat || existsUnmodelled p
  | .filter _ p | .extend p _ _ | .graph _ p | .orderBy p | .project p _ | .distinct p | .reduced p
  | .slice p _ _ | .group p | .service p => existsUnmodelled p
  | .join l r | .leftJoin l r | .union l r | .minus l r => existsUnmodelled l || existsUnmodelled r
  | _ => false

def hasInnerModifier : GP → Bool
  | .distinct _ | .slice _ _ _ | .reduced _ => true
  | .filter _ p | .filterExists _ _ p | .graph _ p | .extend p _ _ | .orderBy p | .project p _ | .group p | .service p =>
    hasInnerModifier p
  | .join l r | .leftJoin l r | .union l r | .minus l r => hasInnerModifier l || hasInnerModifier r
  | _ => false

/-- a DISTINCT / OFFSET-LIMIT below the outermost `Slice? (Distinct? (Project (OrderBy? ..)))`: it keeps the
first of several rows, the store's iteration order decides which, and through finding
C13-subselect-leak the hidden variables of that row are visible outside.  Not compared (the harness
answers `skip=1` for the same requests). -/
def orderSensitive (p : GP) : Bool :=
  let p := match p with | .slice q _ _ => q | q => q
  let p := match p with | .distinct q => q | q => q
  let p := match p with | .project q _ => q | q => q
  let p := match p with | .orderBy q => q | q => q
  hasInnerModifier p

/-- a value-level expression meets a datatype whose value space is not modelled -/
def outOfScope (D : List Quad) (p : GP) : Bool :=
  let es := gpExprs p
  !es.isEmpty &&
    (D.any (fun q => termUnmodelled q.s || termUnmodelled q.o) ||
     (es.flatMap exprTerms).any termUnmodelled || (gpTerms p).any termUnmodelled)

/-! ### replies -/

abbrev Fields := List (String × String)

def implErr : Sparql.Err → Fields
  | .notImplemented w => [("errclass", "notimpl"), ("err", "notimpl:" ++ w.replace " " "_")]
  | .override x => [("errclass", "override"), ("err", "override:" ++ hexOfChars x)]
  | .panic => [("errclass", "panic"), ("panic", "model")]

def specErr : SparqlSpec.Err → Fields
  | .unsupported => [("errclass", "notimpl")]
  | .rebind _ => [("errclass", "override")]

/-- the outermost Slice, if any: the query without it -/
def topSlice : Query → Option Query
  | .select ds (.slice p _ _) => some (.select ds p)
  | _ => none

def implFields (D : List Quad) (q : Query) : Fields :=
  match Sparql.query D q with
  | .err e => implErr e
  | .bool b => [("errclass", "none"), ("ask", if b then "1" else "0")]
  | .rows r =>
    match topSlice q with
    | some q' =>
      [("errclass", "none"), ("vars", varsC r.vars), ("n", toString r.rows.length)] ++
        (match Sparql.query D q' with
         | .rows r' => [("full", rowsC r'.table)]
         | _ => [])
    | none => [("errclass", "none"), ("vars", varsC r.vars), ("rows", rowsC r.table)]

/-- the fields demanded by an algebra evaluator `ev` (the specification, or one of its deviations) -/
def specFields (ev : Query → SparqlSpec.Answer) (q : Query) : Fields :=
  match ev q with
  | .err e => specErr e
  | .bool b => [("errclass", "none"), ("ask", if b then "1" else "0")]
  | .rows xs Ω =>
    match topSlice q with
    | some q' =>
      [("errclass", "none"), ("vars", varsC xs), ("n", toString Ω.length), ("sub", "1")] ++
        (match ev q' with
         | .rows xs' Ω' => [("full", rowsC (specTable xs' Ω'))]
         | _ => [])
    | none => [("errclass", "none"), ("vars", varsC xs), ("rows", rowsC (specTable xs Ω))]

/-- every field of `want` that `have` reports has the same value there -/
def agrees (want have_ : Fields) : Bool :=
  want.all (fun kv => match have_.lookup kv.1 with | some v => v == kv.2 | none => true)

/-- the smallest set of known deviations under which the algebra gives the implementation model's
answer (`none` = the specification itself does) -/
def attributeDev (D : List Quad) (q : Query) (impl : Fields) : String :=
  match SparqlDev.Dev.all.find? (fun d => agrees (specFields (SparqlDev.evalQueryD d D) q) impl) with
  | some d => if d.names.isEmpty then "none" else "+".intercalate d.names
  | none => "unexplained"

def exprHasNeg : Expr → Bool
  | .neg _ => true
  | .or a b | .and a b | .eq a b | .sameTerm a b | .lt a b | .cmp _ a b | .arith _ a b | .coalesce a b =>
    exprHasNeg a || exprHasNeg b
  | .not a | .call _ a | .pos a => exprHasNeg a
  | .ite a b c | .inl a b c => exprHasNeg a || exprHasNeg b || exprHasNeg c
  | _ => false

def termHugeInt : Term → Bool
  | .lit lex dt => dt = SparqlSpec.xsdInteger &&
      (match SparqlSpec.parseInteger lex with | some i => i.natAbs ≥ 2 ^ 62 | none => false)
  | .triple s p o => termHugeInt s || termHugeInt p || termHugeInt o
  | _ => false

/-- diagnostic for finding C13-neg-overflow-panic: the query negates and an integer of magnitude
≥ 2^62 is around (`-isize::MIN` overflows; the model's integers are unbounded and do not panic) -/
def negMin (D : List Quad) (p : GP) : Bool :=
  !Gen.SparqlDispatch.negChecked && (gpExprs p).any exprHasNeg &&
    (D.any (fun q => termHugeInt q.s || termHugeInt q.o) || ((gpExprs p).flatMap exprTerms).any termHugeInt ||
     (gpTerms p).any termHugeInt)

def answer (D : List Quad) (q : Query) : String :=
  let gp : Option GP := match q with | .select _ p => some p | .ask _ p => some p | _ => none
  if (gp.map (fun p => outOfScope D p || existsUnmodelled p || orderSensitive p)).getD false then
    (if (gp.map (negMin D)).getD false then "skip=1 k.negmin=1" else "skip=1") else
  let impl := implFields D q
  -- a dataset clause without `named` list may be refused or answered (SparqlSpec.evalQuery): a refusal
  -- is accepted as such
  let programmaticFrom := match q with
    | .select (some ⟨_, none⟩) _ | .ask (some ⟨_, none⟩) _ => true
    | _ => false
  let spec := if programmaticFrom && impl.lookup "errclass" == some "notimpl" then [("errclass", "notimpl")]
    else specFields (SparqlSpec.evalQuery D) q
  let dev := if agrees spec impl then "none" else attributeDev D q impl
  reply (impl.map (fun kv => kv.1 ++ "=" ++ kv.2) ++ spec.map (fun kv => "o." ++ kv.1 ++ "=" ++ kv.2) ++ [kv "k.dev" dev] ++
    (if (gp.map (negMin D)).getD false then [kv "k.negmin" "1"] else []))

/-! ### model-level search (used by check.py when a tie or a proof broke without a failing input):
all datasets of ≤ 3 quads and BGPs of ≤ 2 triple patterns over a tiny vocabulary, bare and under
`GRAPH ?x` / `GRAPH <g>`, on which the implementation model and the specification differ -/

def renderTP (tp : TP) : String := tp.s.render ++ " " ++ tp.p.render ++ " " ++ tp.o.render

def renderSmall (ps : List TP) (wrap : Nat) (xs : List Str) : String :=
  let b := "bgp " ++ toString ps.length ++ String.join (ps.map (fun tp => " " ++ renderTP tp))
  let inner := match wrap with
    | 0 => b
    | 1 => "graph " ++ (Term.var "x".toList).render ++ " " ++ b
    | _ => "graph " ++ (Term.iri "g".toList).render ++ " " ++ b
  "select nods project " ++ inner ++ " " ++ toString xs.length ++ String.join (xs.map (fun x => " " ++ hexOfChars x))

def smallGP (ps : List TP) (wrap : Nat) (xs : List Str) : GP :=
  let inner : GP := match wrap with
    | 0 => .bgp ps
    | 1 => .graph (.var "x".toList) (.bgp ps)
    | _ => .graph (.iri "g".toList) (.bgp ps)
  .project inner xs

def sublistsUpTo {α : Type} : Nat → List α → List (List α)
  | 0, _ => [[]]
  | _, [] => [[]]
  | n + 1, a :: l => (sublistsUpTo n l).map (a :: ·) ++ sublistsUpTo (n + 1) l

def searchAll : List String :=
  let a : Term := .iri "a".toList
  let b : Term := .iri "b".toList
  let p : Term := .iri "p".toList
  let g : Term := .iri "g".toList
  let vx : Term := .var "x".toList
  let vy : Term := .var "y".toList
  let u : Term := .bnode "u".toList
  let triples := [a, b].flatMap fun s => [a, b].map fun o => (s, p, o)
  let quads : List Quad := triples.flatMap fun t => [⟨t.1, t.2.1, t.2.2, none⟩, ⟨t.1, t.2.1, t.2.2, some g⟩]
  let tps : List TP := [vx, vy, a, u].flatMap fun s => [p, vy].flatMap fun pp => [vx, vy, a, u].map fun o => ⟨s, pp, o⟩
  let bgps : List (List TP) := [[]] ++ tps.map (fun t => [t]) ++ tps.flatMap (fun t => tps.map (fun t' => [t, t']))
  let xs : List Str := ["x".toList, "y".toList]
  (sublistsUpTo 3 quads).flatMap fun D =>
    bgps.flatMap fun ps =>
      [0, 1, 2].filterMap fun w =>
        let q := Query.select none (smallGP ps w xs)
        if agrees (specFields (SparqlSpec.evalQuery D) q) (implFields D q) then none
        else some ("q " ++ String.join (D.map (fun qd => qd.render ++ " | ")) ++ "; " ++ renderSmall ps w xs)

/-- the store keeps one copy of a quad (`Term::eq` on the four components) -/
def quadEq (a b : Quad) : Bool :=
  Term.termEq a.s b.s && Term.termEq a.p b.p && Term.termEq a.o b.o && Sparql.graphNameEq a.g b.g

/-- the in-memory stores intern terms through a `Term::eq`-keyed index: of two spellings of one
term (language tags differing in case) the first inserted is the one every quad refers to — which
`LANG(?x)` makes observable.  The request's quads are normalised the same way. -/
def internTerm (seen : List Term) (t : Term) : Term × List Term :=
  match seen.find? (fun u => Term.termEq u t) with
  | some u => (u, seen)
  | none => (t, seen ++ [t])

def internData (D : List Quad) : List Quad :=
  (D.foldl (fun (acc : List Quad × List Term) q =>
    let (s, seen₁) := internTerm acc.2 q.s
    let (p, seen₂) := internTerm seen₁ q.p
    let (o, seen₃) := internTerm seen₂ q.o
    let (g, seen₄) := match q.g with
      | some g => let r := internTerm seen₃ g; (some r.1, r.2)
      | none => (none, seen₃)
    (acc.1 ++ [⟨s, p, o, g⟩], seen₄)) ([], [])).1

def handle (line : String) : String :=
  match fields line with
  | "q" :: rest =>
    match parseQuads (rest.length + 1) rest with
    | none => "bad-op"
    | some (D, qt) =>
      match parseQuery qt with
      | none => "bad-op"
      | some q => answer (SparqlSpec.dedupBy quadEq (internData D)) q
  | "raw" :: _ => "skip=1"
  | ["search"] => "\n".intercalate searchAll
  | _ => "bad-op"

abbrev State := Unit
def init : State := ()
def step (_ : State) (line : String) : State × String := ((), handle line)

end SophiaModel.Driver.C13

def main : IO UInt32 := SophiaModel.Proto.runLoop SophiaModel.Driver.C13.init SophiaModel.Driver.C13.step
