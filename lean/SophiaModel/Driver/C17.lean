import SophiaModel.Basic.Proto
import SophiaModel.Regex.Comb
import SophiaModel.Gen.Regexes
import SophiaModel.Model.Resolve3986
import SophiaModel.Model.Relativize

namespace SophiaModel.Driver.C17
open SophiaModel Proto Re Relativize

def octetsOfHex (h : String) : Option Octets :=
  (bytesOfHex h).map fun b => b.toList.map (fun x => Char.ofNat x.toNat)

def hexOfOctets (o : Octets) : String := hexOfBytes (toBytes o)

/-- `Iri::new` accepts the string (the octets are valid UTF-8 and match the generated IRI regex) -/
def validIri (o : Octets) : Bool :=
  match String.fromUTF8? (toBytes o) with
  | none => false
  | some s => matchB Gen.IRI_REGEX (ofStr s)

/-- `IriRef::new` accepts the string -/
def validIriRef (o : Octets) : Bool :=
  match String.fromUTF8? (toBytes o) with
  | none => false
  | some s => matchB Gen.IRI_REF_REGEX (ofStr s)

def insName : Ins → String
  | .nothing => "none"
  | .dotSlash => "dotslash"
  | .up k => "up" ++ toString k

def natList (l : List Nat) : String := "[" ++ ",".intercalate (l.map toString) ++ "]"

/-- base and iri have the same scheme, authority and path -/
def sameDoc (base iri : Octets) : Bool :=
  let b := Rfc3986.split base
  let i := Rfc3986.split iri
  b.scheme == i.scheme && b.authority == i.authority && b.path == i.path

def handle (line : String) : String :=
  match fields line with
  | ["n", hb, n] =>
    match octetsOfHex hb, n.toNat? with
    | some b, some n =>
      if n ≥ 256 then "bad-hex" else
      if !validIri b then "skip=1" else
      let r := Relativize.new b n
      reply [kv "new" "ok", kvN "query_end" r.query_end, kvN "path_end" r.path_end,
             kv "slashes" (natList r.slashes), kvN "pseudoroot" r.pseudoroot]
    | _, _ => "bad-hex"
  | ["z", hb, n, hi] =>
    match octetsOfHex hb, n.toNat?, octetsOfHex hi with
    | some b, some n, some i =>
      if n ≥ 256 then "bad-hex" else
      if !(validIri b && validIri i) then "skip=1" else
      -- `gen_same`: the `Relativizer<String>` instantiation, a clone and `base()` agree with `Relativizer<&str>`
      -- (one function in the model); a plain field: a difference is a model/implementation disagreement
      let same := (if sameDoc b i then [kv "o.some" "1"] else []) ++ [kv "gen_same" "1",
        -- hypotheses of `rel_boundaries_utf8_partial` / `rel_same_doc_some`, evaluated on every case: every Rust
        -- `&str` must have the UTF-8 shape (the harness answers `utf8=1`); `m.authmb` = the excluded base shape
        kvB "utf8" (utf8Shaped 0 b && utf8Shaped 0 i), kvB "m.authmb" (authEndsMultibyteNoPath b),
        -- the input-side region of `rel_path_input_partial`: there the theorem promises a reference (`o.some`)
        kvB "m.inpath" (pathInputCase b n i), kvB "m.inreg" (inputCase b n i)] ++
        -- `rel_input_partial` promises a reference on the whole input-side region
        (if inputCase b n i && !sameDoc b i then [kv "o.some" "1"] else [])
      match relativize (Relativize.new b n) i with
      | .panic => reply ([kv "rel" "panic", kv "pk" "boundary", kv "o.nopanic" "1"] ++ same)
      | .none => reply ([kv "rel" "none", kv "o.nopanic" "1"] ++ same)
      | .some ins t =>
        let r := ins.str ++ t
        -- `IriRef::new_unchecked(r)` = `IriRef::new(r).unwrap()` in builds with debug assertions (the
        -- harness is built like `cargo test`); the release build returns `r` unchecked
        if !validIriRef r then
          reply ([kv "rel" "panic", kv "pk" "invalid", kv "o.nopanic" "1"] ++ same ++
                 [kv "m.release_rel" (hexOfOctets r), kvB "m.clean" (cleanCase b n i), kv "m.ins" (insName ins), kv "m.tail" (hexOfOctets t)])
        else
        let res := Rfc3986.resolve b r
        reply ([kv "rel" (hexOfOctets r), kv "o.nopanic" "1"] ++ same ++
               [kv "res_same" "1", kv "o.res" (hexOfOctets res), kv "o.resolves" "1", kv "o.isref" "1", kv "o.parents_ok" "1",
                kvB "m.rfc_resolves" (res == i), kvB "m.clean" (cleanCase b n i), kvB "m.plainref" (isPlainRef r),
                kvN "m.dotdot" (countDotDot r), kv "m.ins" (insName ins), kv "m.tail" (hexOfOctets t)])
    | _, _, _ => "bad-hex"
  | _ => "bad-op"

abbrev State := Unit
def init : State := ()
def step (_ : State) (line : String) : State × String := ((), handle line)

end SophiaModel.Driver.C17

def main : IO UInt32 := SophiaModel.Proto.runLoop SophiaModel.Driver.C17.init SophiaModel.Driver.C17.step
