import SophiaModel.Basic.TermOrder

namespace SophiaModel.Driver.C02
open SophiaModel Proto Term

def ordStr : Ordering → String
  | .lt => "lt" | .eq => "eq" | .gt => "gt"

/-- split a token list at "|" -/
def splitBar (toks : List String) : List (List String) :=
  toks.foldr (fun t acc => if t == "|" then [] :: acc else
    match acc with
    | [] => [[t]]
    | x :: xs => (t :: x) :: xs) [[]]

def parseTerms (toks : List String) : Option (List Term) :=
  (splitBar toks).mapM (fun ts => match Term.parseAll ts with
    | some (t, []) => some t
    | _ => none)

def handle (line : String) : String :=
  match fields line with
  | "p" :: rest =>
    match parseTerms rest with
    | some [a, b] =>
      reply [kvB "eq" (termEq a b), kv "cmp" (ordStr (termCmp a b)),
             kvB "heq" (termHash a == termHash b)]
    | _ => "bad-op"
  | "c" :: rest =>
    match parseTerms rest with
    | some [_] => "conv=ok"
    | _ => "bad-op"
  | "t" :: rest =>
    match parseTerms rest with
    | some [_, _, _] => "laws=ok"
    | _ => "bad-op"
  | "ns" :: hns :: hsuf :: "|" :: rest =>
    match charsOfHex hns, charsOfHex hsuf, Term.parseAll rest with
    | some ns, some suf, some (b, []) =>
      let e := nsTermEq ns suf b
      reply [kvB "nseq" e, kvB "nseq_rev" (termEq b (.iri (ns ++ suf))),
             kv "nscmp" (ordStr (termCmp (.iri (ns ++ suf)) b)),
             kvB "o.nseq" (termEq (.iri (ns ++ suf)) b)]
    | _, _, _ => "bad-op"
  | _ => "bad-op"

abbrev State := Unit
def init : State := ()
def step (_ : State) (line : String) : State × String := ((), handle line)

end SophiaModel.Driver.C02

def main : IO UInt32 := SophiaModel.Proto.runLoop SophiaModel.Driver.C02.init SophiaModel.Driver.C02.step
