import SophiaModel.Basic.TermOrder
import SophiaModel.Model.TermImpls

namespace SophiaModel.Driver.C02
open SophiaModel Proto Term TermImpls

def ordStr : Ordering → String
  | .lt => "lt" | .eq => "eq" | .gt => "gt"
def ordCh : Ordering → Char
  | .lt => 'l' | .eq => 'e' | .gt => 'g'
def bCh (b : Bool) : Char := if b then '1' else '0'

/-- the calls a `std::hash::Hasher` receives for one event of `termHash`, as the harness's recording hasher
logs them: derived `TermKind::hash` = `write_isize`, `str::hash` = `write(bytes)` + `write_u8(0xff)`,
`char::hash` = `write_u32` -/
def evStr : HashEv → String
  | .disc n => "is" ++ toString n
  | .str s => "w" ++ hexOfChars s ++ ".u8_255"
  | .chr c => "u32_" ++ toString c.toNat

def hashSeq (t : Term) : String := ".".intercalate ((termHash t).map evStr)

/-- split a token list at "|" -/
def splitBar (toks : List String) : List (List String) :=
  toks.foldr (fun t acc => if t == "|" then [] :: acc else
    match acc with
    | [] => [[t]]
    | x :: xs => (t :: x) :: xs) [[]]

def parseTerms (toks : List String) : Option (List Term) :=
  (splitBar toks).mapM (fun ts => match Term.parseAll ts with
    | some (t, []) => some t
    | _ => none)

/-- `-` is the absent graph name -/
def parseOptTerms (toks : List String) : Option (List (Option Term)) :=
  (splitBar toks).mapM (fun ts => match ts with
    | ["-"] => some none
    | _ => match Term.parseAll ts with
      | some (t, []) => some (some t)
      | _ => none)

/-- fields of a pair: what the model computes (`k=`) and what the property demands (`o.k=`):
equality is determined by the property text (same components, tag up to ASCII case); the comparison
must be Equal exactly then; across kinds the order is fixed; equal terms hash alike. The order
*within* a kind is not fixed by the property: `cmp=` is model-vs-implementation only. -/
def pairFields (pre : String) (a b : Term) (e : Bool) (c : Ordering) (h : Bool) : List String :=
  let wf := a.WF && b.WF
  [kvB (pre ++ "eq") e, kv (pre ++ "cmp") (ordStr c), kvB (pre ++ "heq") h,
   kvB (pre ++ "cmpeq") (c == .eq)] ++
  (if wf then [kvB ("o." ++ pre ++ "eq") e, kvB ("o." ++ pre ++ "cmpeq") e] else []) ++
  (if wf && e then [kvB ("o." ++ pre ++ "heq") true] else [])

def handle (line : String) : String :=
  match fields line with
  | "p" :: rest =>
    match parseTerms rest with
    | some [a, b] =>
      -- Term::eq/cmp/hash: the pattern-matching transcription; std trait impls (one-line calls of the
      -- default methods): the accessor-only text of the default methods run on the term as its own
      -- implementation (`eqI_eq`, `cmpI_eq`, `hashI_eq` prove the two agree)
      let n := depth a + 1
      reply (pairFields "" a b (termEq a b) (termCmp a b) (termHash a == termHash b) ++
        pairFields "s" a b (eqI termImpl termImpl n a b) (cmpI termImpl termImpl n a b)
          (hashI termImpl n a == hashI termImpl (depth b + 1) b) ++ [kv "shx" "1", kv "sym" "1", kv "swap" "1",
            kvB "hseq" (termHash a == termHash b), kvB "hfx" (termHash a == termHash b)] ++
        (if a.kind != b.kind then
           [kv "xk" (ordStr (termCmp a b)),
            kv "o.xk" (if a.kind.rank < b.kind.rank then "lt" else "gt")]
         else [kv "xk" "-"]))
    | _ => "bad-op"
  | "c" :: rest =>
    match parseTerms rest with
    | some [t] =>
      let exact := fromTerm t == t && fromImpl termImpl (depth t + 1) t == t &&
        genericLiteral? t == (if t.kind == .literal then some t else none)
      reply [kv "exact" (if exact then "1" else "0"), kv "o.conv" "ok", kv "hashseq" (hashSeq t)]
    | _ => "bad-op"
  | "t" :: rest =>
    match parseTerms rest with
    | some [a, b, c] =>
      let ts := [a, b, c]
      let m (f : Term → Term → Char) : String :=
        String.ofList (ts.flatMap (fun x => ts.map (fun y => f x y)))
      reply ([kv "meq" (m (fun x y => bCh (termEq x y))),
             kv "mcmp" (m (fun x y => ordCh (termCmp x y))),
             kv "mheq" (m (fun x y => bCh (termHash x == termHash y)))] ++
        -- the laws are demanded of well-formed terms only (`WF`: see `cmp_trans_needs_wf`)
        (if a.WF && b.WF && c.WF then [kv "o.laws" "ok"] else [kv "laws" "nonwf"]))
    | _ => "bad-op"
  | "ns" :: hns :: hsuf :: "|" :: rest =>
    match charsOfHex hns, charsOfHex hsuf, Term.parseAll rest with
    | some ns, some suf, some (b, []) =>
      let full : Term := .iri (ns ++ suf)
      let e := nsTermEq ns suf b
      reply [kvB "nseq" e, kvB "nseq_rev" (termEq b full),
             kv "nscmp" (ordStr (termCmp full b)),
             kvB "nsheq" (termHash full == termHash b), kvB "nshseq" (termHash full == termHash b),
             kvB "o.nseq" (termEq full b), kvB "o.nseq_rev" (termEq full b)]
    | _, _, _ => "bad-op"
  | ["w", k, ha, hb] =>
    match charsOfHex ha, charsOfHex hb with
    | some a, some b =>
      if k == "tag" then
        let e := tagEq a b
        reply ([kvB "weq" e, kv "wcmp" (ordStr (tagCmp a b)), kvB "wcmpeq" (tagCmp a b == .eq),
                kvB "wheq" (foldTag a == foldTag b), kvB "o.weq" e, kvB "o.wcmpeq" e] ++
               (if e then [kvB "o.wheq" true] else []))
      else if k == "iri" || k == "bnode" || k == "var" then
        let e := wrapEq a b
        reply ([kvB "weq" e, kv "wcmp" (ordStr (wrapCmp a b)), kvB "wcmpeq" (wrapCmp a b == .eq),
                kvB "wheq" (wrapHash a == wrapHash b), kv "wborrow" "1", kvB "o.weq" e, kvB "o.wcmpeq" e] ++
               (if e then [kvB "o.wheq" true] else []))
      else "bad-op"
    | _, _ => "bad-hex"
  | "g" :: rest =>
    match parseOptTerms rest with
    | some [a, b] =>
      let e := graphNameEq a b
      reply [kvB "gneq" e, kvB "o.gneq" e]
    | _ => "bad-op"
  | _ => "bad-op"

abbrev State := Unit
def init : State := ()
def step (_ : State) (line : String) : State × String := ((), handle line)

end SophiaModel.Driver.C02

def main : IO UInt32 := SophiaModel.Proto.runLoop SophiaModel.Driver.C02.init SophiaModel.Driver.C02.step
