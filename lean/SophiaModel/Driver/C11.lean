import SophiaModel.Model.Adapter
import SophiaModel.Gen.IndexTable

/-!
Line protocol for C11: a history of operations on ONE underlying store, applied directly (`d <op>`)
or through a view (`v <view> <op>`):

  new <LD|FD|LG|FG> <16|32> | new <HD|BD|VD|HG|BG|VG> 0
  d ins|rem|has <quad>   d insall|remall <quad> | <quad> …   d qm|remm|retm <sm> <pm> <om> [<gm>]
  d all | all   d len   d enum <which>
  v union        all | qm <sm> <pm> <om> | has <triple> | enum <which>            (datasets)
  v punion <gm>  all | qm <sm> <pm> <om> | has <triple> | enum <which>
  v iunion       (the same reads: `into_union_graph()`)
  v graph <g>    all | qm … | has <triple> | enum <which> | ins <triple> | rem <triple>
                 | insall|remall <triple> - | …  | remm|retm <sm> <pm> <om>     (default bulk methods on graph_mut(g))
  v graphm <g>   all | qm … | has … | enum …                                    (reads through graph_mut(g))
  v asds         all | qm <sm> <pm> <om> <gm> | has <quad> | enum <which> | ins <quad> | rem <quad>   (graphs)
                 | insall|remall <quad> | …                                     (default bulk methods on as_dataset_mut())
  v asdsm | v ids   all | qm … | has … | enum …           (reads through as_dataset_mut() / into_dataset())
  hist <line> ; <line> ; …        a whole history from a fresh state; the reply is the last line's
  flags                           the generated `Gen.AdapterFlags`
  search                          model search: histories of length ≤ 3 whose model answer ≠ oracle

Reply fields: `k=v` is what the adapter model answers (`Model/Adapter.lean` over the store model);
`o.k=v` is what the property demands, computed from the content `quads()` of the underlying store
BEFORE the operation by plain list operations (`Adapter.Spec`), independent of the adapter code.
Mutations through a view also report the underlying content afterwards (`st=` / `o.st=`).
-/
namespace SophiaModel.Driver.C11
open SophiaModel Proto Term Store Adapter StoreProto
open SophiaModel.Gen.AdapterFlags

def rq (n : Nat) (qs : List Quad) : String := renderQuads n (qs.map canonQuad)

/-- the set of rendered quads (sorted, each once) -/
def rqSet (n : Nat) (qs : List Quad) : String :=
  match dedupStrings (sortStrings ((qs.map canonQuad).map (renderQuad n))) with
  | [] => "_"
  | l => ";".intercalate l

/-- `quads` (a multiset) is compared with the implementation as a model/implementation tie; what the
property demands (`o.set`) is that the view shows exactly the TRIPLES of the corresponding quads: the set -/
def qreply (n : Nat) (model oracle : List Quad) : String :=
  reply [kvN "n" model.length, kv "quads" (rq n model), kv "set" (rqSet n model), kv "o.set" (rqSet n oracle)]

def renderRes : MutRes → String
  | .ok true => "1" | .ok false => "0" | .errInner => "full" | .errOnlyDefaultGraph => "only-default"

def qmem (q : Quad) (d : List Quad) : Bool := d.any (quadEq · q)

def parseTriple (toks : List String) : Option Quad :=
  match Quad.parse (toks ++ ["-"]) with
  | some (q, []) => some q
  | _ => none

def parseQuad (toks : List String) : Option Quad :=
  match Quad.parse toks with
  | some (q, []) => some q
  | _ => none

def parse3 (toks : List String) : Option (TM × TM × TM × List String) := do
  let fuel := toks.length + 2
  let (sm, r1) ← parseTM fuel toks
  let (pm, r2) ← parseTM fuel r1
  let (om, r3) ← parseTM fuel r2
  pure (sm, pm, om, r3)

def enumReply (model oracle : Option (List Term)) : String :=
  match model, oracle with
  | some a, some b => reply [kv "terms" (renderTerms (a.map canonTerm)), kv "o.terms" (renderTerms (b.map canonTerm))]
  | _, _ => "bad-op"

/-- the read-only operations every graph view offers; `spec` = the triples the property demands -/
def viewRead (triples : List Quad) (triplesMatching : TM → TM → TM → List Quad) (contains : Quad → Bool)
    (enumerate : String → Option (List Term)) (spec : List Quad) (toks : List String) : Option String :=
  match toks with
  | ["all"] => some (qreply 3 triples spec)
  | "qm" :: rest =>
    match parse3 rest with
    | some (sm, pm, om, []) => some (qreply 3 (triplesMatching sm pm om) (spec.filter (Spec.tripleMatched sm pm om)))
    | _ => some "bad-op"
  | "has" :: rest =>
    match parseTriple rest with
    | some t => some (reply [kvB "r" (contains t), kvB "o.r" (spec.any (Spec.tripleEq t))])
    | none => some "bad-op"
  | ["enum", which] => some (enumReply (enumerate which) (enumOf 3 which spec))
  | _ => none

/-- reply of a mutation through a view: flag, content afterwards, and what the property demands -/
def mutReply (n : Nat) (vec : Bool) (res : MutRes) (after : List Quad) (oflag : Option String) (oafter : List Quad) : String :=
  reply ([kv "r" (renderRes res), kv "st" (rq n after)] ++
    (match oflag with
     | some f => if vec && (f == "0" || f == "1") then [] else [kv "o.r" f]
     | none => []) ++ [kv "o.st" (rq n oafter)])

/-- set semantics (`vec`: multiset semantics of `Vec`) of inserting / removing one quad in a plain list: the
plain-list specification `Store.Spec.insert` / `Store.Spec.remove` the theorems are stated against -/
def oInsert (vec : Bool) (pre : List Quad) (q : Quad) : List Quad × Bool :=
  if vec then (pre ++ [q], true) else Store.Spec.insert pre q
def oRemove (pre : List Quad) (q : Quad) : List Quad × Bool := Store.Spec.remove pre q

def bS (b : Bool) : String := if b then "1" else "0"

def renderBulk (unit : Bool) : BulkRes → String
  | .ok n => if unit then "ok" else toString n
  | .errInner => "full"
  | .errOnlyDefaultGraph => "only-default"

/-- the members of `l` that are none of the `touched` quads -/
def others (touched l : List Quad) : List Quad := l.filter (fun x => !touched.any (quadEq x ·))

/-- Reply of a (bulk or single) mutation through a view.  What the property demands is computed from `pre`
alone: for set stores the exact content afterwards (`o.st`) and the flag / count (`o.r`); for vectors
(multiplicities and flags "not significant") that every quad other than the `touched` ones keeps its copies
(`oth` / `o.oth`). -/
def mutReplyG (n : Nat) (res : String) (after : List Quad) (oflag : Option String) (ost : Option (List Quad))
    (touched : Option (List Quad)) (pre : List Quad) : String :=
  reply ([kv "r" res, kv "st" (rq n after)] ++
    (match touched with | some t => [kv "oth" (rq n (others t after))] | none => []) ++
    (match oflag with | some f => [kv "o.r" f] | none => []) ++
    (match ost with | some l => [kv "o.st" (rq n l)] | none => []) ++
    (match touched with | some t => [kv "o.oth" (rq n (others t pre))] | none => []))

/-- set semantics of a bulk insertion / removal in a plain list: content and number of effective changes -/
def oInsertAll (pre : List Quad) (qs : List Quad) : List Quad × Nat :=
  qs.foldl (fun (acc : List Quad × Nat) q => let (d, b) := oInsert false acc.1 q; (d, if b then acc.2 + 1 else acc.2)) (pre, 0)
def oRemoveAll (pre : List Quad) (qs : List Quad) : List Quad × Nat :=
  qs.foldl (fun (acc : List Quad × Nat) q => let (d, b) := oRemove acc.1 q; (d, if b then acc.2 + 1 else acc.2)) (pre, 0)

/-- the single-quad mutations: sets get the exact demand, vectors the "others untouched" one -/
def mutReply1 (n : Nat) (vec : Bool) (res : MutRes) (after : List Quad) (q : Quad) (oflag : Bool) (oafter pre : List Quad) : String :=
  if vec then mutReplyG n (renderRes res) after none none (some [q]) pre
  else mutReplyG n (renderRes res) after (some (bS oflag)) (some oafter) none pre

/-- one request on an implementation `I` in state `s` -/
def stepI {σ : Type} (I : Impl σ) (vec : Bool) (s : σ) (toks : List String) : σ × String :=
  let n := I.n
  let pre := I.quads s
  match toks with
  -- ------------------------------------------------------------ direct operations
  | ["all"] | ["d", "all"] => (s, reply [kvN "n" pre.length, kv "quads" (rq n pre)])
  | ["d", "len"] => (s, kvN "n" pre.length)
  | "d" :: "ins" :: rest =>
    match parseQuad rest with
    | some q =>
      match I.insert s (normQ n q) with
      | (s', none) => (s', "r=full")
      | (s', some b) => (s', kvB "r" b)
    | none => (s, "bad-op")
  | "d" :: "rem" :: rest =>
    match parseQuad rest with
    | some q => let (s', b) := I.remove s (normQ n q); (s', kvB "r" b)
    | none => (s, "bad-op")
  | "d" :: "has" :: rest =>
    match parseQuad rest with
    | some q => (s, kvB "r" (I.contains s (normQ n q)))
    | none => (s, "bad-op")
  | "d" :: "insall" :: rest =>
    match parseQuads rest with
    | some qs =>
      match I.insertAll s (qs.map (normQ n)) with
      | (s', none) => (s', "n=full")
      | (s', some c) => (s', kvN "n" c)
    | none => (s, "bad-op")
  | "d" :: "remall" :: rest =>
    match parseQuads rest with
    | some qs => let (s', c) := I.removeAll s (qs.map (normQ n)); (s', kvN "n" c)
    | none => (s, "bad-op")
  | "d" :: "qm" :: rest =>
    match parsePat n rest with
    | some p => let r := I.quadsMatching s p; (s, reply [kvN "n" r.length, kv "quads" (rq n r)])
    | none => (s, "bad-op")
  | "d" :: "remm" :: rest =>
    match parsePat n rest with
    | some p => let (s', c) := I.removeMatching s p; (s', kvN "n" c)
    | none => (s, "bad-op")
  | "d" :: "retm" :: rest =>
    match parsePat n rest with
    | some p => (I.retainMatching s p, "ok=1")
    | none => (s, "bad-op")
  | ["d", "enum", which] =>
    match enumOf n which pre with
    | some a => (s, kv "terms" (renderTerms (a.map canonTerm)))
    | none => (s, "bad-op")
  -- ------------------------------------------------------------ dataset viewed as a graph
  | "v" :: "union" :: rest | "v" :: "iunion" :: rest =>
    if n != 4 then (s, "bad-op") else
    match viewRead (UnionGraph.triples I s) (UnionGraph.triplesMatching I s) (UnionGraph.contains I s)
        (UnionGraph.enumerate I s) (Spec.union pre) rest with
    | some r => (s, r)
    | none => (s, "bad-op")
  | "v" :: "punion" :: rest =>
    if n != 4 then (s, "bad-op") else
    match parseGM (rest.length + 2) rest with
    | some (m, sub) =>
      match viewRead (PartialUnionGraph.triples I s m) (PartialUnionGraph.triplesMatching I s m)
          (PartialUnionGraph.contains I s m) (PartialUnionGraph.enumerate I s m) (Spec.partialUnion m pre) sub with
      | some r => (s, r)
      | none => (s, "bad-op")
    | none => (s, "bad-op")
  | "v" :: "graph" :: rest =>
    if n != 4 then (s, "bad-op") else
    match parseGName (rest.length + 2) rest with
    | some (g, sub) =>
      match viewRead (DatasetGraph.triples I s g) (DatasetGraph.triplesMatching I s g)
          (DatasetGraph.contains I s g) (DatasetGraph.enumerate I s g) (Spec.graph g pre) sub with
      | some r => (s, r)
      | none =>
        match sub with
        | "ins" :: tt =>
          match parseTriple tt with
          | some t =>
            let q : Quad := ⟨t.s, t.p, t.o, g⟩
            let (s', res) := DatasetGraph.insert I s g t
            let (oafter, of) := oInsert false pre q
            if res == .errInner then (s', mutReply 4 vec res (I.quads s') none pre)
            else (s', mutReply1 4 vec res (I.quads s') q of oafter pre)
          | none => (s, "bad-op")
        | "rem" :: tt =>
          match parseTriple tt with
          | some t =>
            let q : Quad := ⟨t.s, t.p, t.o, g⟩
            let (s', res) := DatasetGraph.remove I s g t
            let (oafter, of) := oRemove pre q
            (s', mutReply1 4 vec res (I.quads s') q of oafter pre)
          | none => (s, "bad-op")
        | "insall" :: tt =>
          match parseQuads tt with
          | some ts =>
            let qs : List Quad := ts.map (fun t => ⟨t.s, t.p, t.o, g⟩)
            let (s', res) := DatasetGraph.insertAll I s g ts
            let (oafter, oc) := oInsertAll pre qs
            if res == .errInner then (s', mutReplyG 4 (renderBulk false res) (I.quads s') none none none pre)
            else if vec then (s', mutReplyG 4 (renderBulk false res) (I.quads s') none none (some qs) pre)
            else (s', mutReplyG 4 (renderBulk false res) (I.quads s') (some (toString oc)) (some oafter) none pre)
          | none => (s, "bad-op")
        | "remall" :: tt =>
          match parseQuads tt with
          | some ts =>
            let qs : List Quad := ts.map (fun t => ⟨t.s, t.p, t.o, g⟩)
            let (s', res) := DatasetGraph.removeAll I s g ts
            let (oafter, oc) := oRemoveAll pre qs
            if vec then (s', mutReplyG 4 (renderBulk false res) (I.quads s') none none (some qs) pre)
            else (s', mutReplyG 4 (renderBulk false res) (I.quads s') (some (toString oc)) (some oafter) none pre)
          | none => (s, "bad-op")
        | "remm" :: tt =>
          match parse3 tt with
          | some (sm, pm, om, []) =>
            let (s', res) := DatasetGraph.removeMatching I s g sm pm om
            let gone : Quad → Bool := fun q => gnameEq g q.g && Spec.tripleMatched sm pm om q
            (s', mutReplyG 4 (renderBulk false res) (I.quads s')
              (if vec then none else some (toString (pre.filter gone).length)) (some (pre.filter (fun q => !gone q))) none pre)
          | _ => (s, "bad-op")
        | "retm" :: tt =>
          match parse3 tt with
          | some (sm, pm, om, []) =>
            let (s', res) := DatasetGraph.retainMatching I s g sm pm om
            let gone : Quad → Bool := fun q => gnameEq g q.g && !Spec.tripleMatched sm pm om q
            (s', mutReplyG 4 (renderBulk true res) (I.quads s') (some "ok") (some (pre.filter (fun q => !gone q))) none pre)
          | _ => (s, "bad-op")
        | _ => (s, "bad-op")
    | none => (s, "bad-op")
  | "v" :: "graphm" :: rest =>
    -- reads through `graph_mut(g)`: `impl Dataset for &mut T` forwards every method to `T`
    if n != 4 then (s, "bad-op") else
    match parseGName (rest.length + 2) rest with
    | some (g, sub) =>
      match viewRead (DatasetGraph.triples I s g) (DatasetGraph.triplesMatching I s g)
          (DatasetGraph.contains I s g) (DatasetGraph.enumerate I s g) (Spec.graph g pre) sub with
      | some r => (s, r)
      | none => (s, "bad-op")
    | none => (s, "bad-op")
  -- ------------------------------------------------------------ graph viewed as a dataset
  | "v" :: "asdsm" :: sub | "v" :: "ids" :: sub =>
    -- reads through `as_dataset_mut()` (`impl Graph for &mut T` forwards to `T`) / `into_dataset()`
    if n != 3 then (s, "bad-op") else
    let spec := Spec.asDataset pre
    match sub with
    | ["all"] => (s, qreply 4 (GraphAsDataset.quads I s) spec)
    | "qm" :: rest =>
      match parse3 rest with
      | some (sm, pm, om, r3) =>
        match parseGM (r3.length + 2) r3 with
        | some (gm, []) =>
          (s, qreply 4 (GraphAsDataset.quadsMatching I s sm pm om gm) (spec.filter (quadMatched 4 (dpat gm sm pm om))))
        | _ => (s, "bad-op")
      | none => (s, "bad-op")
    | "has" :: rest =>
      match parseQuad rest with
      | some q => (s, reply [kvB "r" (GraphAsDataset.contains I s q), kvB "o.r" (qmem q spec)])
      | none => (s, "bad-op")
    | ["enum", which] => (s, enumReply (GraphAsDataset.enumerate I s which) (enumOf 4 which spec))
    | _ => (s, "bad-op")
  | "v" :: "asds" :: sub =>
    if n != 3 then (s, "bad-op") else
    let spec := Spec.asDataset pre
    match sub with
    | ["all"] => (s, qreply 4 (GraphAsDataset.quads I s) spec)
    | "qm" :: rest =>
      match parse3 rest with
      | some (sm, pm, om, r3) =>
        match parseGM (r3.length + 2) r3 with
        | some (gm, []) =>
          (s, qreply 4 (GraphAsDataset.quadsMatching I s sm pm om gm) (spec.filter (quadMatched 4 (dpat gm sm pm om))))
        | _ => (s, "bad-op")
      | none => (s, "bad-op")
    | "has" :: rest =>
      match parseQuad rest with
      | some q => (s, reply [kvB "r" (GraphAsDataset.contains I s q), kvB "o.r" (qmem q spec)])
      | none => (s, "bad-op")
    | ["enum", which] => (s, enumReply (GraphAsDataset.enumerate I s which) (enumOf 4 which spec))
    | "ins" :: rest =>
      match parseQuad rest with
      | some q =>
        let (s', res) := GraphAsDataset.insert I s q
        if q.g.isSome then (s', mutReply 3 vec res (I.quads s') (some "only-default") pre)
        else
          let (oafter, of) := oInsert false pre ⟨q.s, q.p, q.o, none⟩
          if res == .errInner then (s', mutReply 3 vec res (I.quads s') none pre)
          else (s', mutReply1 3 vec res (I.quads s') ⟨q.s, q.p, q.o, none⟩ of oafter pre)
      | none => (s, "bad-op")
    | "rem" :: rest =>
      match parseQuad rest with
      | some q =>
        let (s', res) := GraphAsDataset.remove I s q
        if q.g.isSome then (s', mutReply 3 false res (I.quads s') (some "0") pre)
        else
          let (oafter, of) := oRemove pre ⟨q.s, q.p, q.o, none⟩
          (s', mutReply1 3 vec res (I.quads s') ⟨q.s, q.p, q.o, none⟩ of oafter pre)
      | none => (s, "bad-op")
    | "insall" :: rest =>
      match parseQuads rest with
      | some qs =>
        let (s', res) := GraphAsDataset.insertAll I s qs
        -- only the listed triples of the default graph may be touched, whatever happens
        let touched : List Quad := (qs.filter (·.g.isNone)).map (fun q => ⟨q.s, q.p, q.o, none⟩)
        let (oafter, oc) := oInsertAll pre touched
        if res == .errInner then (s', mutReplyG 3 (renderBulk false res) (I.quads s') none none none pre)
        else if qs.any (·.g.isSome) then
          (s', mutReplyG 3 (renderBulk false res) (I.quads s') (some "only-default") none (some touched) pre)
        else if vec then (s', mutReplyG 3 (renderBulk false res) (I.quads s') none none (some touched) pre)
        else (s', mutReplyG 3 (renderBulk false res) (I.quads s') (some (toString oc)) (some oafter) none pre)
      | none => (s, "bad-op")
    | "remall" :: rest =>
      match parseQuads rest with
      | some qs =>
        let (s', res) := GraphAsDataset.removeAll I s qs
        let touched : List Quad := (qs.filter (·.g.isNone)).map (fun q => ⟨q.s, q.p, q.o, none⟩)
        let (oafter, oc) := oRemoveAll pre touched
        if vec then (s', mutReplyG 3 (renderBulk false res) (I.quads s') none none (some touched) pre)
        else (s', mutReplyG 3 (renderBulk false res) (I.quads s') (some (toString oc)) (some oafter) none pre)
      | none => (s, "bad-op")
    | _ => (s, "bad-op")
  | _ => (s, "bad-op")

/-! ### state -/

inductive Mode | model | set | vec | vecFirst
  deriving Inhabited, DecidableEq

structure State where
  mode : Mode := .model
  desc : StoreDesc
  st : St
  n : Nat := 4
  bag : List Quad := []
  deriving Inhabited

def init : State := { desc := Gen.genericLightDataset, st := St.new Gen.genericLightDataset.shape Gen.maxU32 }

def flagName : Call → String
  | .insert => "insert" | .remove => "remove"

def stepOne (s : State) (toks : List String) : State × String :=
  match toks with
  | ["new", kind, width] =>
    let d := match kind with
      | "LD" => some Gen.genericLightDataset | "FD" => some Gen.genericFastDataset
      | "LG" => some Gen.genericLightGraph | "FG" => some Gen.genericFastGraph | _ => none
    let mx := match width with | "16" => some Gen.maxU16 | "32" => some Gen.maxU32 | _ => none
    match d, mx with
    | some d, some mx => ({ s with mode := .model, desc := d, st := St.new d.shape mx, n := d.n, bag := [] }, "ok=1")
    | _, _ =>
      match kind with
      | "HD" | "BD" | "HP" | "BP" => ({ s with mode := .set, n := 4, bag := [] }, "ok=1")
      | "VP" => ({ s with mode := .vecFirst, n := 4, bag := [] }, "ok=1")
      | "HG" | "BG" => ({ s with mode := .set, n := 3, bag := [] }, "ok=1")
      | "VD" => ({ s with mode := .vec, n := 4, bag := [] }, "ok=1")
      | "VG" => ({ s with mode := .vec, n := 3, bag := [] }, "ok=1")
      | _ => (s, "bad-op")
  | ["flags"] =>
    (s, reply [kv "dg_insert" (flagName datasetGraphInsertCalls), kv "dg_remove" (flagName datasetGraphRemoveCalls),
      kv "gad_insert" (flagName graphAsDatasetInsertCalls), kv "gad_remove" (flagName graphAsDatasetRemoveCalls),
      kvB "union_forwards_atoms" unionGraphForwardsAtoms,
      kvB "ref_forward_ok" (refForwardOK Gen.ViewGlue.refForward), kvB "default_bulk_ok" (defaultBulkOK Gen.ViewGlue.defaultBulk)])
  | _ =>
    match s.mode with
    | .model => let (st', r) := stepI (storeImpl s.desc) false s.st toks; ({ s with st := st' }, r)
    | .set => let (b', r) := stepI (setImpl s.n) false s.bag toks; ({ s with bag := b' }, r)
    | .vec => let (b', r) := stepI (vecImpl s.n) true s.bag toks; ({ s with bag := b' }, r)
    | .vecFirst => let (b', r) := stepI (vecFirstImpl s.n) true s.bag toks; ({ s with bag := b' }, r)

def splitOn (sep : String) (toks : List String) : List (List String) :=
  toks.foldr (fun t acc => if t == sep then [] :: acc else
    match acc with
    | [] => [[t]]
    | x :: xs => (t :: x) :: xs) [[]]

/-- a whole history from a fresh state; the reply is the last request's -/
def runHist (toks : List String) : State × String :=
  (splitOn ";" toks).foldl (fun (acc : State × String) op => if op.isEmpty then acc else stepOne acc.1 op) (init, "bad-op")

/-! ### model search: all histories of length ≤ 3 over one triple and two graph names -/

def kvOf (r : String) : List (String × String) :=
  (fields r).filterMap (fun t => match t.splitOn "=" with
    | [k, v] => some (k, v)
    | _ => none)

/-- does the reply contradict its own oracle fields? -/
def replyFails (r : String) : Bool :=
  let m := kvOf r
  m.any (fun (k, v) => k.startsWith "o." && (match m.lookup (k.drop 2).toString with
    | some v' => v' != v
    | none => false))

def searchAlphabet (graph : Bool) : List String :=
  let t := "i 783a73 i 783a70 i 783a6f"      -- x:s x:p x:o
  let g1 := "i 783a67"                       -- x:g
  let g2 := "b 62"                           -- _:b
  if graph then
    ["d ins " ++ t ++ " -", "d rem " ++ t ++ " -", "v asds ins " ++ t ++ " -", "v asds rem " ++ t ++ " -",
     "v asds ins " ++ t ++ " " ++ g1, "v asds rem " ++ t ++ " " ++ g1, "v asds has " ++ t ++ " -",
     "v asds has " ++ t ++ " " ++ g1, "v asds all", "v asds qm A A A GA", "v asds qm A A A GO " ++ g1, "v asds enum graphs",
     "v asds qm A A A GS 2 " ++ g1 ++ " b 62", "v asds remall " ++ t ++ " " ++ g1 ++ " | " ++ t ++ " -", "v asdsm all"]
  else
    ["d ins " ++ t ++ " " ++ g1, "d ins " ++ t ++ " " ++ g2, "d ins " ++ t ++ " -", "d rem " ++ t ++ " " ++ g1,
     "v graph " ++ g1 ++ " ins " ++ t, "v graph " ++ g1 ++ " rem " ++ t, "v graph " ++ g2 ++ " ins " ++ t,
     "v graph - rem " ++ t, "v graph " ++ g1 ++ " all", "v graph " ++ g2 ++ " has " ++ t, "v union all",
     "v punion GK iri all", "v punion GA qm A A A", "v union enum iris",
     "v graph " ++ g1 ++ " retm N A A", "v graph " ++ g1 ++ " remm A A A", "v graph " ++ g2 ++ " remall " ++ t ++ " -",
     "v graphm " ++ g1 ++ " all"]

/-- histories of exactly `k` operations -/
def histories (alpha : List String) : Nat → List (List String)
  | 0 => [[]]
  | k + 1 => (histories alpha k).flatMap (fun h => alpha.map (fun a => h ++ [a]))

/-- failing histories, shortest first, at most two per failing (= last) operation -/
def searchKind (kind : String) (graph : Bool) : List String :=
  let start := "new " ++ kind
  let alpha := searchAlphabet graph
  let fails : List (String × String) := [1, 2, 3].flatMap (fun k => (histories alpha k).filterMap (fun h =>
    let line := " ; ".intercalate (start :: h)
    let (_, r) := runHist (fields line)
    if replyFails r then some (h.getLastD "", "hist " ++ line) else none))
  (fails.foldl (fun (acc : List (String × Nat) × List String) (x : String × String) =>
    let c := (acc.1.lookup x.1).getD 0
    if c ≥ 2 then acc else ((x.1, c + 1) :: acc.1.filter (·.1 != x.1), acc.2 ++ [x.2])) ([], [])).2

def step (s : State) (line : String) : State × String :=
  match fields line with
  | "hist" :: rest => let (s', r) := runHist rest; (s', r)
  | ["search"] =>
    let w := searchKind "LD 32" false ++ searchKind "FD 16" false ++ searchKind "HD 0" false ++
      searchKind "LG 32" true ++ searchKind "FG 16" true ++ searchKind "BG 0" true ++ searchKind "VG 0" true
    (s, "\n".intercalate (w ++ ["search-done n=" ++ toString w.length]))
  | toks => stepOne s toks

end SophiaModel.Driver.C11

def main : IO UInt32 := SophiaModel.Proto.runLoop SophiaModel.Driver.C11.init SophiaModel.Driver.C11.step
