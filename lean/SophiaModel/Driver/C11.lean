import SophiaModel.Model.Adapter
import SophiaModel.Gen.IndexTable

/-!
Line protocol for C11: a history of operations on ONE underlying store, applied directly (`d <op>`)
or through a view (`v <view> <op>`):

  new <LD|FD|LG|FG> <16|32> | new <HD|BD|VD|HG|BG|VG> 0
  d ins|rem|has <quad>   d insall|remall <quad> | <quad> …   d qm|remm|retm <sm> <pm> <om> [<gm>]
  d all | all   d len   d enum <which>
  v union        all | qm <sm> <pm> <om> | has <triple> | enum <which>            (datasets)
  v punion <gm>  all | qm <sm> <pm> <om> | has <triple> | enum <which>
  v graph <g>    all | qm … | has <triple> | enum <which> | ins <triple> | rem <triple>
  v asds         all | qm <sm> <pm> <om> <gm> | has <quad> | enum <which> | ins <quad> | rem <quad>   (graphs)
  hist <line> ; <line> ; …        a whole history from a fresh state; the reply is the last line's
  flags                           the generated `Gen.AdapterFlags`
  search                          model search: histories of length ≤ 3 whose model answer ≠ oracle

Reply fields: `k=v` is what the adapter model answers (`Model/Adapter.lean` over the store model);
`o.k=v` is what the property demands, computed from the content `quads()` of the underlying store
BEFORE the operation by plain list operations (`Adapter.Spec`), independent of the adapter code.
Mutations through a view also report the underlying content afterwards (`st=` / `o.st=`).
-/
namespace SophiaModel.Driver.C11
open SophiaModel Proto Term Store Adapter StoreProto
open SophiaModel.Gen.AdapterFlags

def rq (n : Nat) (qs : List Quad) : String := renderQuads n (qs.map canonQuad)

def qreply (n : Nat) (model oracle : List Quad) : String :=
  reply [kvN "n" model.length, kv "quads" (rq n model), kvN "o.n" oracle.length, kv "o.quads" (rq n oracle)]

def renderRes : MutRes → String
  | .ok true => "1" | .ok false => "0" | .errInner => "full" | .errOnlyDefaultGraph => "only-default"

def qmem (q : Quad) (d : List Quad) : Bool := d.any (quadEq · q)

def parseTriple (toks : List String) : Option Quad :=
  match Quad.parse (toks ++ ["-"]) with
  | some (q, []) => some q
  | _ => none

def parseQuad (toks : List String) : Option Quad :=
  match Quad.parse toks with
  | some (q, []) => some q
  | _ => none

def parse3 (toks : List String) : Option (TM × TM × TM × List String) := do
  let fuel := toks.length + 2
  let (sm, r1) ← parseTM fuel toks
  let (pm, r2) ← parseTM fuel r1
  let (om, r3) ← parseTM fuel r2
  pure (sm, pm, om, r3)

def enumReply (model oracle : Option (List Term)) : String :=
  match model, oracle with
  | some a, some b => reply [kv "terms" (renderTerms (a.map canonTerm)), kv "o.terms" (renderTerms (b.map canonTerm))]
  | _, _ => "bad-op"

/-- the read-only operations every graph view offers; `spec` = the triples the property demands -/
def viewRead (triples : List Quad) (triplesMatching : TM → TM → TM → List Quad) (contains : Quad → Bool)
    (enumerate : String → Option (List Term)) (spec : List Quad) (toks : List String) : Option String :=
  match toks with
  | ["all"] => some (qreply 3 triples spec)
  | "qm" :: rest =>
    match parse3 rest with
    | some (sm, pm, om, []) => some (qreply 3 (triplesMatching sm pm om) (spec.filter (Spec.tripleMatched sm pm om)))
    | _ => some "bad-op"
  | "has" :: rest =>
    match parseTriple rest with
    | some t => some (reply [kvB "r" (contains t), kvB "o.r" (spec.any (Spec.tripleEq t))])
    | none => some "bad-op"
  | ["enum", which] => some (enumReply (enumerate which) (enumOf 3 which spec))
  | _ => none

/-- reply of a mutation through a view: flag, content afterwards, and what the property demands -/
def mutReply (n : Nat) (vec : Bool) (res : MutRes) (after : List Quad) (oflag : Option String) (oafter : List Quad) : String :=
  reply ([kv "r" (renderRes res), kv "st" (rq n after)] ++
    (match oflag with
     | some f => if vec && (f == "0" || f == "1") then [] else [kv "o.r" f]
     | none => []) ++ [kv "o.st" (rq n oafter)])

/-- set semantics (`vec`: multiset semantics of `Vec`) of inserting / removing one quad in a plain list -/
def oInsert (vec : Bool) (pre : List Quad) (q : Quad) : List Quad × Bool :=
  if vec then (pre ++ [q], true) else if qmem q pre then (pre, false) else (pre ++ [q], true)
def oRemove (pre : List Quad) (q : Quad) : List Quad × Bool :=
  (pre.filter (fun x => !quadEq x q), qmem q pre)

def bS (b : Bool) : String := if b then "1" else "0"

/-- one request on an implementation `I` in state `s` -/
def stepI {σ : Type} (I : Impl σ) (vec : Bool) (s : σ) (toks : List String) : σ × String :=
  let n := I.n
  let pre := I.quads s
  match toks with
  -- ------------------------------------------------------------ direct operations
  | ["all"] | ["d", "all"] => (s, reply [kvN "n" pre.length, kv "quads" (rq n pre)])
  | ["d", "len"] => (s, kvN "n" pre.length)
  | "d" :: "ins" :: rest =>
    match parseQuad rest with
    | some q =>
      match I.insert s (normQ n q) with
      | (s', none) => (s', "r=full")
      | (s', some b) => (s', kvB "r" b)
    | none => (s, "bad-op")
  | "d" :: "rem" :: rest =>
    match parseQuad rest with
    | some q => let (s', b) := I.remove s (normQ n q); (s', kvB "r" b)
    | none => (s, "bad-op")
  | "d" :: "has" :: rest =>
    match parseQuad rest with
    | some q => (s, kvB "r" (I.contains s (normQ n q)))
    | none => (s, "bad-op")
  | "d" :: "insall" :: rest =>
    match parseQuads rest with
    | some qs =>
      match I.insertAll s (qs.map (normQ n)) with
      | (s', none) => (s', "n=full")
      | (s', some c) => (s', kvN "n" c)
    | none => (s, "bad-op")
  | "d" :: "remall" :: rest =>
    match parseQuads rest with
    | some qs => let (s', c) := I.removeAll s (qs.map (normQ n)); (s', kvN "n" c)
    | none => (s, "bad-op")
  | "d" :: "qm" :: rest =>
    match parsePat n rest with
    | some p => let r := I.quadsMatching s p; (s, reply [kvN "n" r.length, kv "quads" (rq n r)])
    | none => (s, "bad-op")
  | "d" :: "remm" :: rest =>
    match parsePat n rest with
    | some p => let (s', c) := I.removeMatching s p; (s', kvN "n" c)
    | none => (s, "bad-op")
  | "d" :: "retm" :: rest =>
    match parsePat n rest with
    | some p => (I.retainMatching s p, "ok=1")
    | none => (s, "bad-op")
  | ["d", "enum", which] =>
    match enumOf n which pre with
    | some a => (s, kv "terms" (renderTerms (a.map canonTerm)))
    | none => (s, "bad-op")
  -- ------------------------------------------------------------ dataset viewed as a graph
  | "v" :: "union" :: rest =>
    if n != 4 then (s, "bad-op") else
    match viewRead (UnionGraph.triples I s) (UnionGraph.triplesMatching I s) (UnionGraph.contains I s)
        (UnionGraph.enumerate I s) (Spec.union pre) rest with
    | some r => (s, r)
    | none => (s, "bad-op")
  | "v" :: "punion" :: rest =>
    if n != 4 then (s, "bad-op") else
    match parseGM (rest.length + 2) rest with
    | some (m, sub) =>
      match viewRead (PartialUnionGraph.triples I s m) (PartialUnionGraph.triplesMatching I s m)
          (PartialUnionGraph.contains I s m) (PartialUnionGraph.enumerate I s m) (Spec.partialUnion m pre) sub with
      | some r => (s, r)
      | none => (s, "bad-op")
    | none => (s, "bad-op")
  | "v" :: "graph" :: rest =>
    if n != 4 then (s, "bad-op") else
    match parseGName (rest.length + 2) rest with
    | some (g, sub) =>
      match viewRead (DatasetGraph.triples I s g) (DatasetGraph.triplesMatching I s g)
          (DatasetGraph.contains I s g) (DatasetGraph.enumerate I s g) (Spec.graph g pre) sub with
      | some r => (s, r)
      | none =>
        match sub with
        | "ins" :: tt =>
          match parseTriple tt with
          | some t =>
            let q : Quad := ⟨t.s, t.p, t.o, g⟩
            let (s', res) := DatasetGraph.insert I s g t
            let (oafter, of) := oInsert vec pre q
            if res == .errInner then (s', mutReply 4 vec res (I.quads s') none pre)
            else (s', mutReply 4 vec res (I.quads s') (some (bS of)) oafter)
          | none => (s, "bad-op")
        | "rem" :: tt =>
          match parseTriple tt with
          | some t =>
            let q : Quad := ⟨t.s, t.p, t.o, g⟩
            let (s', res) := DatasetGraph.remove I s g t
            let (oafter, of) := oRemove pre q
            (s', mutReply 4 vec res (I.quads s') (some (bS of)) oafter)
          | none => (s, "bad-op")
        | _ => (s, "bad-op")
    | none => (s, "bad-op")
  -- ------------------------------------------------------------ graph viewed as a dataset
  | "v" :: "asds" :: sub =>
    if n != 3 then (s, "bad-op") else
    let spec := Spec.asDataset pre
    match sub with
    | ["all"] => (s, qreply 4 (GraphAsDataset.quads I s) spec)
    | "qm" :: rest =>
      match parse3 rest with
      | some (sm, pm, om, r3) =>
        match parseGM (r3.length + 2) r3 with
        | some (gm, []) =>
          (s, qreply 4 (GraphAsDataset.quadsMatching I s sm pm om gm) (spec.filter (quadMatched 4 (dpat gm sm pm om))))
        | _ => (s, "bad-op")
      | none => (s, "bad-op")
    | "has" :: rest =>
      match parseQuad rest with
      | some q => (s, reply [kvB "r" (GraphAsDataset.contains I s q), kvB "o.r" (qmem q spec)])
      | none => (s, "bad-op")
    | ["enum", which] => (s, enumReply (GraphAsDataset.enumerate I s which) (enumOf 4 which spec))
    | "ins" :: rest =>
      match parseQuad rest with
      | some q =>
        let (s', res) := GraphAsDataset.insert I s q
        if q.g.isSome then (s', mutReply 3 vec res (I.quads s') (some "only-default") pre)
        else
          let (oafter, of) := oInsert vec pre ⟨q.s, q.p, q.o, none⟩
          if res == .errInner then (s', mutReply 3 vec res (I.quads s') none pre)
          else (s', mutReply 3 vec res (I.quads s') (some (bS of)) oafter)
      | none => (s, "bad-op")
    | "rem" :: rest =>
      match parseQuad rest with
      | some q =>
        let (s', res) := GraphAsDataset.remove I s q
        if q.g.isSome then (s', mutReply 3 false res (I.quads s') (some "0") pre)
        else
          let (oafter, of) := oRemove pre ⟨q.s, q.p, q.o, none⟩
          (s', mutReply 3 vec res (I.quads s') (some (bS of)) oafter)
      | none => (s, "bad-op")
    | _ => (s, "bad-op")
  | _ => (s, "bad-op")

/-! ### state -/

inductive Mode | model | set | vec
  deriving Inhabited, DecidableEq

structure State where
  mode : Mode := .model
  desc : StoreDesc
  st : St
  n : Nat := 4
  bag : List Quad := []
  deriving Inhabited

def init : State := { desc := Gen.genericLightDataset, st := St.new Gen.genericLightDataset.shape Gen.maxU32 }

def flagName : Call → String
  | .insert => "insert" | .remove => "remove"

def stepOne (s : State) (toks : List String) : State × String :=
  match toks with
  | ["new", kind, width] =>
    let d := match kind with
      | "LD" => some Gen.genericLightDataset | "FD" => some Gen.genericFastDataset
      | "LG" => some Gen.genericLightGraph | "FG" => some Gen.genericFastGraph | _ => none
    let mx := match width with | "16" => some Gen.maxU16 | "32" => some Gen.maxU32 | _ => none
    match d, mx with
    | some d, some mx => ({ s with mode := .model, desc := d, st := St.new d.shape mx, n := d.n, bag := [] }, "ok=1")
    | _, _ =>
      match kind with
      | "HD" | "BD" => ({ s with mode := .set, n := 4, bag := [] }, "ok=1")
      | "HG" | "BG" => ({ s with mode := .set, n := 3, bag := [] }, "ok=1")
      | "VD" => ({ s with mode := .vec, n := 4, bag := [] }, "ok=1")
      | "VG" => ({ s with mode := .vec, n := 3, bag := [] }, "ok=1")
      | _ => (s, "bad-op")
  | ["flags"] =>
    (s, reply [kv "dg_insert" (flagName datasetGraphInsertCalls), kv "dg_remove" (flagName datasetGraphRemoveCalls),
      kv "gad_insert" (flagName graphAsDatasetInsertCalls), kv "gad_remove" (flagName graphAsDatasetRemoveCalls),
      kvB "union_forwards_atoms" unionGraphForwardsAtoms])
  | _ =>
    match s.mode with
    | .model => let (st', r) := stepI (storeImpl s.desc) false s.st toks; ({ s with st := st' }, r)
    | .set => let (b', r) := stepI (setImpl s.n) false s.bag toks; ({ s with bag := b' }, r)
    | .vec => let (b', r) := stepI (vecImpl s.n) true s.bag toks; ({ s with bag := b' }, r)

def splitOn (sep : String) (toks : List String) : List (List String) :=
  toks.foldr (fun t acc => if t == sep then [] :: acc else
    match acc with
    | [] => [[t]]
    | x :: xs => (t :: x) :: xs) [[]]

/-- a whole history from a fresh state; the reply is the last request's -/
def runHist (toks : List String) : State × String :=
  (splitOn ";" toks).foldl (fun (acc : State × String) op => if op.isEmpty then acc else stepOne acc.1 op) (init, "bad-op")

/-! ### model search: all histories of length ≤ 3 over one triple and two graph names -/

def kvOf (r : String) : List (String × String) :=
  (fields r).filterMap (fun t => match t.splitOn "=" with
    | [k, v] => some (k, v)
    | _ => none)

/-- does the reply contradict its own oracle fields? -/
def replyFails (r : String) : Bool :=
  let m := kvOf r
  m.any (fun (k, v) => k.startsWith "o." && (match m.lookup (k.drop 2).toString with
    | some v' => v' != v
    | none => false))

def searchAlphabet (graph : Bool) : List String :=
  let t := "i 783a73 i 783a70 i 783a6f"      -- x:s x:p x:o
  let g1 := "i 783a67"                       -- x:g
  let g2 := "b 62"                           -- _:b
  if graph then
    ["d ins " ++ t ++ " -", "d rem " ++ t ++ " -", "v asds ins " ++ t ++ " -", "v asds rem " ++ t ++ " -",
     "v asds ins " ++ t ++ " " ++ g1, "v asds rem " ++ t ++ " " ++ g1, "v asds has " ++ t ++ " -",
     "v asds has " ++ t ++ " " ++ g1, "v asds all", "v asds qm A A A GA", "v asds qm A A A GO " ++ g1, "v asds enum graphs"]
  else
    ["d ins " ++ t ++ " " ++ g1, "d ins " ++ t ++ " " ++ g2, "d ins " ++ t ++ " -", "d rem " ++ t ++ " " ++ g1,
     "v graph " ++ g1 ++ " ins " ++ t, "v graph " ++ g1 ++ " rem " ++ t, "v graph " ++ g2 ++ " ins " ++ t,
     "v graph - rem " ++ t, "v graph " ++ g1 ++ " all", "v graph " ++ g2 ++ " has " ++ t, "v union all",
     "v punion GK iri all", "v punion GA qm A A A", "v union enum iris"]

/-- histories of exactly `k` operations -/
def histories (alpha : List String) : Nat → List (List String)
  | 0 => [[]]
  | k + 1 => (histories alpha k).flatMap (fun h => alpha.map (fun a => h ++ [a]))

/-- failing histories, shortest first, at most two per failing (= last) operation -/
def searchKind (kind : String) (graph : Bool) : List String :=
  let start := "new " ++ kind
  let alpha := searchAlphabet graph
  let fails : List (String × String) := [1, 2, 3].flatMap (fun k => (histories alpha k).filterMap (fun h =>
    let line := " ; ".intercalate (start :: h)
    let (_, r) := runHist (fields line)
    if replyFails r then some (h.getLastD "", "hist " ++ line) else none))
  (fails.foldl (fun (acc : List (String × Nat) × List String) (x : String × String) =>
    let c := (acc.1.lookup x.1).getD 0
    if c ≥ 2 then acc else ((x.1, c + 1) :: acc.1.filter (·.1 != x.1), acc.2 ++ [x.2])) ([], [])).2

def step (s : State) (line : String) : State × String :=
  match fields line with
  | "hist" :: rest => let (s', r) := runHist rest; (s', r)
  | ["search"] =>
    let w := searchKind "LD 32" false ++ searchKind "FD 16" false ++ searchKind "HD 0" false ++
      searchKind "LG 32" true ++ searchKind "FG 16" true ++ searchKind "BG 0" true ++ searchKind "VG 0" true
    (s, "\n".intercalate (w ++ ["search-done n=" ++ toString w.length]))
  | toks => stepOne s toks

end SophiaModel.Driver.C11

def main : IO UInt32 := SophiaModel.Proto.runLoop SophiaModel.Driver.C11.init SophiaModel.Driver.C11.step
