import SophiaModel.Basic.Proto
import SophiaModel.Basic.Term
import SophiaModel.Model.XmlGlue

namespace SophiaModel.Driver.C18
open SophiaModel Proto XmlGlue

/-- all triples of a token list (prefix notation, three terms each) -/
def parseTriples : Nat → List String → Option (List Triple)
  | 0, _ => none
  | _, [] => some []
  | fuel + 1, toks => do
    let (s, r1) ← Term.parseAll toks
    let (p, r2) ← Term.parseAll r1
    let (o, r3) ← Term.parseAll r2
    let rest ← parseTriples fuel r3
    pure ((s, p, o) :: rest)

def renderTriple (t : Triple) : String :=
  ((t.1.render ++ "," ++ t.2.1.render ++ "," ++ t.2.2.render).replace " " ",")

/-- canonical one-token rendering of a graph: sorted, deduplicated (as the harness prints it) -/
def renderGraph (ts : List Triple) : String :=
  let xs := (ts.map renderTriple).mergeSort (fun a b => decide (a ≤ b))
  let xs := xs.eraseDups
  if xs.isEmpty then "_" else ";".intercalate xs

def lowerTag : Term → Term
  | .lang v l => .lang v (asciiLower l)
  | t => t

def normTriple (t : Triple) : Triple := (lowerTag t.1, lowerTag t.2.1, lowerTag t.2.2)

/-- labels are preserved by writer and reader, so "isomorphic" is set equality up to the case
of language tags -/
def sameGraph (a b : List Triple) : Bool :=
  renderGraph (a.map normTriple) == renderGraph (b.map normTriple)

def readFields (conf : Bool) (pre : String) (doc : Str) (expected : List Triple) : List String :=
  match readDoc conf doc with
  | .ok ts => [kv (pre ++ "parse") "ok", kv (pre ++ "g") (renderGraph ts), kvB (pre ++ "rt") (sameGraph ts expected)]
  | .err => [kv (pre ++ "parse") "err", kv (pre ++ "g") "err", kv (pre ++ "rt") "0"]
  | .unsupported => []

/-- `a<N>` (absolute byte budget) or `r<K>` (K bytes less than the document needs) -/
def parseLimit (s : String) : Option (Bool × Nat) :=
  match s.toList with
  | 'a' :: r => (String.ofList r).toNat?.map (fun k => (false, k))
  | 'r' :: r => (String.ofList r).toNat?.map (fun k => (true, k))
  | _ => none

def outcomeField : Outcome → String
  | .ok _ => kv "res" "ok"
  | .sinkErr => kv "res" "sinkerr"
  | .sourceErr => kv "res" "srcerr"

/-- on `Ok` the writer holds exactly the document `serialize` produces (`bytes=` for `sink`,
`same=` for `src`) -/
def sameField (key : String) (n : Nat) (ts : List Triple) : Outcome → List String
  | .ok d => [kv key (if serialize n ts == some d then (if key == "same" then "1" else "same") else "differ")]
  | _ => []

def handle (line : String) : String :=
  match fields line with
  | "ser" :: n :: toks =>
    match n.toNat?, parseTriples (toks.length + 1) toks with
    | some n, some ts =>
      match serialize n ts with
      | none => "out=err parse=na g=na"
      | some doc =>
        -- `x.` fields: what a conforming XML 1.0 processor in front of the same RDF/XML state
        -- machine would deliver (model only; the implementation has no such field)
        -- `dflt`: the configuration-less entry points behave as indentation 0; `cfg`: the accessors
        let dflt := if serialize defaultIndentation ts == serialize 0 ts then "eq0"
          else match serialize defaultIndentation ts with | some d => hexOfChars d | none => "err"
        reply ([kv "out" (hexOfChars doc)] ++ readFields false "" doc (restrict ts)
               ++ [kv "dflt" dflt, kv "cfg" (toString n ++ "," ++ toString n ++ "," ++ toString defaultIndentation)]
               ++ readFields true "x." doc (restrict ts))
    | _, _ => "bad-op"
  | "sink" :: n :: lim :: toks =>
    match n.toNat?, parseLimit lim, parseTriples (toks.length + 1) toks with
    | some n, some (rel, k), some ts =>
      match serialize n ts with
      | none => outcomeField (serializeTriples n ts false (some (if rel then 0 else k)))
      | some doc =>
        let need := utf8Len doc
        let limit := if rel then need - k else k
        let r := serializeTriples n ts false (some limit)
        reply ([outcomeField r, kvN "written" (min limit need), kvN "refused" (if limit < need then 1 else 0)]
               ++ sameField "bytes" n ts r)
    | _, _, _ => "bad-op"
  | "src" :: n :: k :: toks =>
    match n.toNat?, k.toNat?, parseTriples (toks.length + 1) toks with
    | some n, some k, some ts =>
      let r := serializeTriples n (ts.take k) (decide (k < ts.length)) none
      reply (outcomeField r :: sameField "same" n ts r)
    | _, _, _ => "bad-op"
  | ["split", h] =>
    match charsOfHex h with
    | none => "bad-hex"
    | some iri =>
      let r := splitIri iri
      reply [kv "ns" (hexOfChars r.1), kv "local" (hexOfChars r.2)]
  | ["rd", h] =>
    -- the model READER on arbitrary bytes (the real serialiser's output, verbatim or with numeric
    -- character references put in): compared with the real parser, independent of the model writer
    match charsOfHex h with
    | none => "bad-hex"
    | some doc =>
      match readDoc false doc with
      | .ok ts => reply [kv "parse" "ok", kv "g" (renderGraph ts)]
      | .err => "parse=err g=err"
      | .unsupported => "unsupported=1"
  | ["rt", n, h] =>
    -- model round trip of one literal text: `rt <indent> <hextext>`
    match n.toNat?, charsOfHex h with
    | some n, some text =>
      let ts : List Triple := [(.iri "x:s".toList, .iri "x:p".toList, .lit text xsdString)]
      match serialize n ts with
      | none => "out=err"
      | some doc => reply ([kv "out" (hexOfChars doc)] ++ readFields false "" doc ts ++ readFields true "x." doc ts)
    | _, _ => "bad-op"
  | _ => "bad-op"

abbrev State := Unit
def init : State := ()
def step (_ : State) (line : String) : State × String := ((), handle line)

end SophiaModel.Driver.C18

def main : IO UInt32 := SophiaModel.Proto.runLoop SophiaModel.Driver.C18.init SophiaModel.Driver.C18.step
