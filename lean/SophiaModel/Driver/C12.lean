import SophiaModel.Basic.Proto
import SophiaModel.Basic.Term
import SophiaModel.Model.JsonLd

/-!
C12 driver.  Request
  `s <mode:10|11> <use_rdf_type:0|1> <dir:n|i|c> <spaces> <n> <quad>*n`
(`spaces` only concerns the JSON text printer, which is not modelled).  Reply

  panic=<0|1> [fuel=1] err=0 json=<canonical text> kept=<n> rtn=<n> rt=<0|1> o.rt=1

`json` is the canonical text of the model's document, in the grammar the harness applies to the
JSON text of the real serializer (`canon` in harness/props/c12/src/main.rs):
  string `s:<hex>`; object `{<hexkey>:<v>,…}` entries sorted as texts; array `[<v>,…]` elements
  sorted as texts, except the value of `@list`: `(<v>,…)` in order; rdf:JSON value `j:<hex>`.
`rt`/`rtn` = the model's prediction of the semantic round trip (model reader on model document,
exact blank-node isomorphism with the expressible input quads); `o.rt=1` = what the property demands.
-/
namespace SophiaModel.Driver.C12
open SophiaModel Proto JsonLd

def sortStrs (xs : List String) : List String := xs.mergeSort (fun a b => !decide (b < a))

def hs (s : Str) : String := hexOfChars s
def jstr (s : Str) : String := "s:" ++ hs s
def jobj (entries : List (String × String)) : String :=
  "{" ++ ",".intercalate (sortStrs (entries.map (fun e => hexOfString e.1 ++ ":" ++ e.2))) ++ "}"
def jobjH (entries : List (String × String)) : String :=
  "{" ++ ",".intercalate (sortStrs (entries.map (fun e => e.1 ++ ":" ++ e.2))) ++ "}"
def jset (xs : List String) : String := "[" ++ ",".intercalate (sortStrs xs) ++ "]"
def jlist (xs : List String) : String := "(" ++ ",".intercalate xs ++ ")"

mutual
def canonVal : Val → String
  | .ref id => jobj [("@id", jstr id)]
  | .json raw => jobj [("@value", "j:" ++ hs raw), ("@type", jstr "@json".toList)]
  | .lit v ty lang dir =>
    jobj ([("@value", jstr v)]
      ++ (match ty with | some t => [("@type", jstr t)] | none => [])
      ++ (match lang with | some l => [("@language", jstr l)] | none => [])
      ++ (match dir with | some d => [("@direction", jstr d)] | none => []))
  | .list items => jobj [("@list", jlist (canonVals items))]
def canonVals : List Val → List String
  | [] => []
  | v :: vs => canonVal v :: canonVals vs
end

def canonNodeEntries (n : NodeObj) : List (String × String) :=
  (hexOfString "@id", jstr n.id) ::
    n.entries.map (fun e =>
      (hs e.1, match e.2 with
        | .types ids => jset (ids.map jstr)
        | .vals vs => jset (canonVals vs)))

def canonNode (n : NodeObj) : String := jobjH (canonNodeEntries n)

def canonTop (t : TopNode) : String :=
  jobjH (canonNodeEntries t.node ++
    (match t.graph with
     | none => []
     | some ns => [(hexOfString "@graph", jset (ns.map canonNode))]))

def canonDoc (d : Doc) : String := jset (d.map canonTop)

/-! exact blank-node isomorphism of two small datasets -/

def bnLabels (t : Term) : List Str := match t with | .bnode b => [b] | _ => []

def quadLabels (q : Quad) : List Str :=
  bnLabels q.s ++ bnLabels q.o ++ (match q.g with | some g => bnLabels g | none => [])

def labelsOf (qs : List Quad) : List Str := (qs.flatMap quadLabels).eraseDups

def renameT (m : List (Str × Str)) : Term → Term
  | .bnode b => match m.lookup b with | some b' => .bnode b' | none => .var b
  | t => t

def renameQ (m : List (Str × Str)) (q : Quad) : Quad :=
  ⟨renameT m q.s, q.p, renameT m q.o, q.g.map (renameT m)⟩

/-- label-independent signature of a label: its occurrences, the other labels masked, sorted -/
def sig (b : Str) (qs : List Quad) : List String :=
  let mask : Term → String := fun t =>
    match t with
    | .bnode x => if x == b then "@" else "*"
    | t => t.render
  sortStrs ((qs.filter (fun q => (quadLabels q).contains b)).map (fun q =>
    mask q.s ++ " " ++ q.p.render ++ " " ++ mask q.o ++ " " ++ (match q.g with | some g => mask g | none => "-")))

/-- backtracking over signature-compatible bijections; `bud` = remaining node budget,
`none` = budget exhausted (no verdict) -/
def isoSearch (a b : List Quad) (sa sb : List (Str × List String)) :
    (todo : List Str) → (cands : List Str) → (avail : List Str) → List (Str × Str) → Nat → Option Bool × Nat
  | [], _, _, m, bud =>
    if bud == 0 then (none, 0) else (some (a.all (fun q => b.contains (renameQ m q))), bud - 1)
  | _ :: _, [], _, _, bud => (some false, bud)
  | x :: xs, y :: ys, avail, m, bud =>
    if bud == 0 then (none, 0) else
    if sa.lookup x == sb.lookup y then
      match isoSearch a b sa sb xs (avail.erase y) (avail.erase y) ((x, y) :: m) (bud - 1) with
      | (some false, bud') => isoSearch a b sa sb (x :: xs) ys avail m bud'
      | r => r
    else isoSearch a b sa sb (x :: xs) ys avail m bud
termination_by todo cands => (todo.length, cands.length)

/-- `none` = more than 16 blank nodes / search budget exhausted: no verdict (the model's `rt` is only a prediction to
compare with; the property's oracle is the harness' own exact test on the real output) -/
def iso (a b : List Quad) : Option Bool :=
  let a := a.eraseDups
  let b := b.eraseDups
  if a.length != b.length then some false else
  let la := labelsOf a
  let lb := labelsOf b
  if la.length != lb.length then some false else
  if la.length > 16 then none else
  let sa := la.map (fun x => (x, sig x a))
  let sb := lb.map (fun x => (x, sig x b))
  if sortStrs (sa.map (fun p => "|".intercalate p.2)) != sortStrs (sb.map (fun p => "|".intercalate p.2)) then some false else
  (isoSearch a b sa sb la lb lb [] 30000).1

/-! requests -/

def parseQuads : Nat → List String → Option (List Quad)
  | 0, [] => some []
  | 0, _ => none
  | n + 1, toks =>
    match Quad.parse toks with
    | some (q, rest) => (parseQuads n rest).map (q :: ·)
    | none => none

def handle (line : String) : String :=
  match fields line with
  | op :: mode :: urt :: dir :: _sp :: n :: rest =>
    if op != "s" && op != "d" then "bad-op" else
    let mode? : Option Mode := if mode == "10" then some .v10 else if mode == "11" then some .v11 else none
    let urt? : Option Bool := if urt == "0" then some false else if urt == "1" then some true else none
    let dir? : Option Dir := if dir == "n" then some .none else if dir == "i" then some .i18n
      else if dir == "c" then some .compound else none
    match mode?, urt?, dir?, n.toNat? with
    | some mode, some urt, some dir, some n =>
      match parseQuads n rest with
      | none => "bad-op"
      | some D =>
        let o : Opts := { mode := mode, useRdfType := urt, dir := dir }
        match serialize o D with
        | .error .panic => "panic=1"
        | .error .fuel => "panic=0 fuel=1"
        | .ok doc =>
          let kept := (D.filter isJsonLd).eraseDups
          let back := (toRdf o doc).eraseDups
          let rt := match iso kept back with
            | some true => " rt=1"
            | some false => " rt=0"
            | none => ""
          reply [kv "panic" "0", kv "err" "0", kv "json" (canonDoc doc), kvN "kept" kept.length,
                 kvN "rtn" back.length] ++ rt ++ " o.rt=1"
    | _, _, _, _ => "bad-op"
  | _ => "bad-op"

abbrev State := Unit
def init : State := ()
def step (_ : State) (line : String) : State × String := ((), handle line)

end SophiaModel.Driver.C12

def main : IO UInt32 := SophiaModel.Proto.runLoop SophiaModel.Driver.C12.init SophiaModel.Driver.C12.step
