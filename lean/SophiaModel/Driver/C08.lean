import SophiaModel.Basic.Proto
import SophiaModel.Model.Backend
import SophiaModel.Model.ParserContract
import SophiaModel.Model.ParserGlue
import SophiaModel.Gen.Regexes

namespace SophiaModel.Driver.C08
open SophiaModel Proto Re Backend ParserContract

def hexW (w : List Nat) : String := hexOfString (String.ofList (w.map Char.ofNat))

/-- one witness per inclusion obligation of Props/C08.lean (`none` = the inclusion holds) -/
def witnesses : List (String × Option (List Nat)) :=
  [ ("rio_bnode", witnessP okIncl rioBnode Gen.BNODE_ID),
    ("rio_var", witnessP okIncl rioVar Gen.VARNAME),
    ("rio_lang", witnessP okIncl rioLang Gen.LANG_TAG),
    ("jsonld_bnode", witnessP okIncl jsonldBnode Gen.BNODE_ID),
    ("base", witnessP okIncl Gen.IRI_REGEX Oxiri.abs),
    ("xml_nodeid_nodot", witnessP okIncl xmlNodeIdNoTrailingDot Gen.BNODE_ID),
    ("oxiri_abs", witnessP okIncl Oxiri.abs Gen.IRI_REGEX),
    ("oxiri_ref", witnessP okIncl Oxiri.ref Gen.IRI_REF_REGEX),
    ("gtrig_iri", witnessP okIncl gtrigIri Gen.IRI_REF_REGEX),
    ("ttl_pname", (witnessP okIncl ttlPnameOut Gen.IRI_REGEX).map (fun w => w.drop 2)),
    ("xml_nodeid", witnessP okIncl xmlNodeId Gen.BNODE_ID),
    ("ttl_bnode_obj", witnessP okIncl rioBnodeReturned Gen.BNODE_ID),
    ("xml_qname", (witnessP okIncl xmlQNameOut Gen.IRI_REGEX).map (fun w => w.dropLast)),
    ("jsonld_bnode_pred", witnessP okIncl jsonldBnodePred Gen.BNODE_ID),
    ("jsonld_bnode_pred_nocolon", witnessP okIncl jsonldBnodePredNoColon Gen.BNODE_ID) ]

def handle (line : String) : String :=
  match fields line with
  | ["tok", syn, kind, h] =>
    match stringOfHex h with
    | none => "bad-hex"
    | some s =>
      match classify syn kind with
      | none =>
        if syn == "jsonld" && kind == "bnode" then
          if matchB rdfTypesBlank (ofStr s) then "accepted=1 gen=1" else "accepted=0"
        else if (syn.splitOn "@").head! == "jsonld" || (syn == "xml" && kind == "type") then "nomodel=1" else "bad-op"
      | some c =>
        -- `spec syn kind = some (specOf syn c)`; the harness is a dev build: `acc` is the debug outcome of the accessor
        let sp := specOf syn c
        let w := ofStr s
        if sp.accept w then
          let o := sp.out w
          reply [kv "accepted" "1", kv "out" (hexW o), kvB "valid" (matchB sp.validator o),
                 kv "acc" (access true syn c o).name, kv "release" (access false syn c o).name]
        else "accepted=0"
  | ["trail", syn, kind, h, _] =>
    -- the document is always in error; what matters is whether a label with a trailing '.' was
    -- emitted before the error (streaming Turtle-family parsers, object position)
    match stringOfHex h with
    | none => "bad-hex"
    | some s =>
      if turtleLike syn && kind == "bnode_o" && matchB rioBnode (ofStr s) then
        reply [kv "accepted" "0", kv "emitted" (hexW (ofStr s ++ [46]))]
      else "accepted=0 emitted=none"
  | ["base", h] =>
    match stringOfHex h with
    | none => "bad-hex"
    | some s =>
      let w := ofStr s
      if matchB Gen.IRI_REGEX w then
        reply [kv "new" "1", kv "parse" (if matchB Oxiri.abs w then "ok" else "panic")]
      else "new=0"
  | ["glue", "j", script, sink] =>
    -- JsonLdQuadSource: `<n>` quads or `0!` the one-shot error
    let sk := if sink == "-" then none else some sink.toNat!
    if script.endsWith "!" then
      kv "outs" (String.ofList ((ParserGlue.jsonRun sk 3 (.err true)).map ParserGlue.Out.letter))
    else
      let n := script.toNat!
      kv "outs" (String.ofList ((ParserGlue.jsonRun sk (n + 2) (.quads n 0)).map ParserGlue.Out.letter))
  | ["glue", _, script, sink] =>
    -- script: comma separated steps `<items>` or `<items>!` (the step ends in a parser error)
    let steps := (script.splitOn ",").filterMap (fun t =>
      if t == "_" || t == "" then none
      else
        let fails := t.endsWith "!"
        let d := String.ofList (t.toList.filter Char.isDigit)
        some (ParserGlue.Step.mk d.toNat! fails))
    let sk := if sink == "-" then none else some sink.toNat!
    let outs := ParserGlue.run sk (steps.length + 2) ⟨steps, 0⟩
    kv "outs" (String.ofList (outs.map ParserGlue.Out.letter))
  | ["rel", _, _, _, _, _] => "nomodel=1"
  | ["doc", _, _] => "explore=1"
  | ["doc", _, _, _] => "explore=1"
  | ["deep", _, _, _] => "explore=1"
  | ["long", _, _, _] => "explore=1"
  | ["witness"] =>
    reply (witnesses.map (fun (n, o) => kv n (match o with | none => "none" | some w => hexW w)))
  | _ => "bad-op"

abbrev State := Unit
def init : State := ()
def step (_ : State) (line : String) : State × String := ((), handle line)

end SophiaModel.Driver.C08

def main : IO UInt32 := SophiaModel.Proto.runLoop SophiaModel.Driver.C08.init SophiaModel.Driver.C08.step
